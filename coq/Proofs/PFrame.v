(* Frame relations between a state and its successor, for the index / earned-fee
   invariants (C13, C15):
     sframe : definitions, owner map, both owner indexes, stored pricing and withdraw
              addresses are untouched and every binding keeps its key, text and owner;
     eframe : the earned-fee records (per provider and per owner) are untouched.
   Every helper of the handlers and both EndBlock phases satisfy them unconditionally. *)
From Coq Require Import List ZArith Bool Lia Permutation.
From SVC Require Import Base.AMap Base.Res Base.Dec Model.Types Model.Pricing
  Model.Handlers Model.EndBlock Model.Step Proofs.Inv Proofs.Lemmas Proofs.InvWf Proofs.CtxOps.
Import ListNotations.
Open Scope Z_scope.

(* ------------------------------------------------------------------ *)
(* bindings: same keys, same published text, same owner *)

Definition bsim (m m' : amap BKey Binding) : Prop :=
  forall k, match get k m, get k m' with
            | Some b, Some b' =>
                b_raw b' = b_raw b /\ b_owner b' = b_owner b /\ (b_avail b' = true -> b_avail b = true)
                /\ b_qos b' = b_qos b
            | None, None => True
            | _, _ => False
            end.

Lemma bsim_refl m : bsim m m.
Proof. intros k. destruct (get k m); auto. Qed.

Lemma bsim_trans m1 m2 m3 : bsim m1 m2 -> bsim m2 m3 -> bsim m1 m3.
Proof.
  intros H1 H2 k. specialize (H1 k). specialize (H2 k).
  destruct (get k m1), (get k m2), (get k m3); try tauto.
  destruct H1 as (? & ? & ? & ?), H2 as (? & ? & ? & ?). repeat split; try congruence. auto.
Qed.

Lemma bsim_set m k b b' :
  get k m = Some b -> b_raw b' = b_raw b -> b_owner b' = b_owner b ->
  (b_avail b' = true -> b_avail b = true) -> b_qos b' = b_qos b -> bsim m (set k b' m).
Proof.
  intros E Hr Ho Ha Hq k'. rewrite get_set.
  destruct (eqb_spec k' k) as [->|Hn]; [rewrite E; auto|].
  destruct (get k' m); auto.
Qed.

Lemma bsim_get m m' k b : bsim m m' -> get k m = Some b ->
  exists b', get k m' = Some b' /\ b_raw b' = b_raw b /\ b_owner b' = b_owner b
    /\ (b_avail b' = true -> b_avail b = true) /\ b_qos b' = b_qos b.
Proof.
  intros Hs E. specialize (Hs k). rewrite E in Hs.
  destruct (get k m') as [b'|]; [eauto|contradiction].
Qed.

Lemma bsim_get_rev m m' k b' : bsim m m' -> get k m' = Some b' ->
  exists b, get k m = Some b /\ b_raw b' = b_raw b /\ b_owner b' = b_owner b
    /\ (b_avail b' = true -> b_avail b = true) /\ b_qos b' = b_qos b.
Proof.
  intros Hs E. specialize (Hs k). rewrite E in Hs.
  destruct (get k m) as [b|]; [eauto|contradiction].
Qed.

Lemma bsim_has m m' k : bsim m m' -> has k m' = has k m.
Proof.
  intros Hs. specialize (Hs k). unfold has.
  destruct (get k m), (get k m'); tauto.
Qed.

(* ------------------------------------------------------------------ *)
(* the frames *)

Record sframe (s s' : State) : Prop := mk_sframe {
  sf_defs : defs s' = defs s;
  sf_owner_of : owner_of s' = owner_of s;
  sf_own_bind : own_bind s' = own_bind s;
  sf_own_prov : own_prov s' = own_prov s;
  sf_pricing : pricing s' = pricing s;
  sf_wdaddr : wdaddr s' = wdaddr s;
  sf_binds : bsim (binds s) (binds s')
}.

Record eframe (s s' : State) : Prop := mk_eframe {
  ef_earned : earned s' = earned s;
  ef_own_earned : own_earned s' = own_earned s
}.

Definition fframe (s s' : State) : Prop := sframe s s' /\ eframe s s'.

Ltac frame_triv := repeat split; sproj; try reflexivity; try apply bsim_refl.

Lemma sframe_refl s : sframe s s.
Proof. frame_triv. Qed.
Lemma eframe_refl s : eframe s s.
Proof. frame_triv. Qed.
Lemma fframe_refl s : fframe s s.
Proof. frame_triv. Qed.

Lemma sframe_trans s1 s2 s3 : sframe s1 s2 -> sframe s2 s3 -> sframe s1 s3.
Proof.
  intros [A1 A2 A3 A4 A5 A6 A7] [B1 B2 B3 B4 B5 B6 B7].
  constructor; try congruence. eapply bsim_trans; eauto.
Qed.
Lemma eframe_trans s1 s2 s3 : eframe s1 s2 -> eframe s2 s3 -> eframe s1 s3.
Proof. intros [A1 A2] [B1 B2]. constructor; congruence. Qed.
Lemma fframe_trans s1 s2 s3 : fframe s1 s2 -> fframe s2 s3 -> fframe s1 s3.
Proof. intros [A B] [C D]. split; [eapply sframe_trans|eapply eframe_trans]; eauto. Qed.

Lemma ff_fold {A} (f : State -> A -> State) (l : list A) (s : State) :
  (forall s a, fframe s (f s a)) -> fframe s (fold_left f l s).
Proof.
  intros Hf. revert s. induction l as [|a l IH]; cbn [fold_left]; intros s; [apply fframe_refl|].
  eapply fframe_trans; [apply Hf|apply IH].
Qed.

(* ------------------------------------------------------------------ *)
(* helpers *)

Lemma ff_transfer a b amt s s1 : transfer a b amt s = Some s1 -> fframe s s1.
Proof. intros E. apply transfer_frame in E. rewrite E. frame_triv. Qed.

Lemma ff_burn amt s s1 : burn_deposit amt s = Some s1 -> fframe s s1.
Proof. intros E. apply burn_some in E. destruct E as (_ & _ & ->). frame_triv. Qed.

Lemma ff_emit e s : fframe s (emit e s).
Proof. frame_triv. Qed.

Lemma ff_pay_deposit s k o amt s1 : pay_deposit s k o amt = Ok s1 -> fframe s s1.
Proof.
  intros E. apply pay_deposit_inv in E. destruct E as (s0 & Et & ->).
  eapply fframe_trans; [eapply ff_transfer; eauto|apply ff_emit].
Qed.

Lemma ff_put_binding s k b b' :
  get k (binds s) = Some b -> b_raw b' = b_raw b -> b_owner b' = b_owner b ->
  (b_avail b' = true -> b_avail b = true) -> b_qos b' = b_qos b ->
  fframe s (put_binding s k b').
Proof. intros E Hr Ho Ha Hq. frame_triv. eapply bsim_set; eauto. Qed.

Lemma ff_deactivate s r : fframe s (deactivate s r).
Proof. unfold deactivate. destruct (get r (reqs s)); frame_triv. Qed.

Lemma ff_slash cfg s r s1 : slash cfg s r = Ok s1 -> fframe s s1.
Proof.
  unfold slash. intros H. inv_ok H.
  rename a into q, a0 into rc, a1 into b, a2 into sb, a3 into b2.
  pose proof (ff_burn _ _ _ Ha2) as Hfb.
  assert (Hb2 : b_raw b2 = b_raw b /\ b_owner b2 = b_owner b /\ (b_avail b2 = true -> b_avail b = true)
                /\ b_qos b2 = b_qos b).
  { destruct (b_avail (setb_deposit b (b_deposit b - mul_trunc (b_deposit b) (p_slash cfg)))) eqn:Eav.
    - inv_ok Ha3. subst b2. destruct (_ <? _); auto.
    - inv_ok Ha3. subst b2. auto. }
  destruct Hb2 as (Hr & Ho & Hav & Hqos).
  eapply fframe_trans; [exact Hfb|]. subst s1.
  eapply fframe_trans; [|apply ff_emit].
  apply ff_put_binding with (b := b); auto.
  destruct Hfb as [[_ _ _ _ _ _ Hbs] _].
  apply burn_some in Ha2. destruct Ha2 as (_ & _ & ->). sproj. exact Ha1.
Qed.

Lemma ff_refund_fee s r cons fee s1 : refund_fee s r cons fee = Some s1 -> fframe s s1.
Proof.
  unfold refund_fee. destruct (transfer Escrow (User cons) fee s) eqn:E; [|discriminate].
  intros H. injection H as <-. eapply fframe_trans; [eapply ff_transfer; eauto|apply ff_emit].
Qed.

Lemma ff_callback s c : fframe s (callback s c).
Proof. unfold callback. destruct (get c (ctxs s)); frame_triv. Qed.

Lemma ff_complete_batch s c rc : fframe s (fst (complete_batch s c rc)).
Proof.
  unfold complete_batch. cbn [fst]. eapply fframe_trans; [|apply ff_emit].
  destruct (c_mod rc =? 0); [apply fframe_refl|apply ff_callback].
Qed.

Lemma ff_put_ctx s c rc : fframe s (put_ctx s c rc).
Proof. frame_triv. Qed.
Lemma ff_del_ctx s c : fframe s (del_ctx s c).
Proof. frame_triv. Qed.
Lemma ff_add_newq s c h : fframe s (add_newq s c h).
Proof. frame_triv. Qed.
Lemma ff_del_newq s c h : fframe s (del_newq s c h).
Proof. frame_triv. Qed.
Lemma ff_add_expq s c h : fframe s (add_expq s c h).
Proof. frame_triv. Qed.
Lemma ff_del_expq s c h : fframe s (del_expq s c h).
Proof. frame_triv. Qed.

Lemma sf_add_earned cfg s r prov fee s1 : add_earned_fee cfg s r prov fee = Ok s1 -> sframe s s1.
Proof.
  unfold add_earned_fee. intros H. inv_ok H.
  pose proof (ff_transfer _ _ _ _ _ Ha) as [Hf _]. sproj.
  destruct (get prov (owner_of a)); inv_ok H. subst s1.
  eapply sframe_trans; [exact Hf|]. frame_triv.
Qed.

Lemma ff_resp_mid s1 r who rc0 code out : fframe s1 (resp_mid s1 r who rc0 code out).
Proof.
  unfold resp_mid. eapply fframe_trans; [|apply ff_emit].
  match goal with |- fframe _ (set_vols ?x _) =>
    apply fframe_trans with (s2 := x); [|frame_triv] end.
  eapply fframe_trans; [|apply ff_deactivate]. frame_triv.
Qed.

Lemma ff_resp_finish s5 c rc : fframe s5 (resp_finish s5 c rc).
Proof.
  unfold resp_finish.
  destruct (c_bresp (setc_bresp rc (c_bresp rc + 1)) =? c_breq (setc_bresp rc (c_bresp rc + 1))).
  - eapply fframe_trans; [apply ff_complete_batch|apply ff_put_ctx].
  - apply ff_put_ctx.
Qed.

(* ------------------------------------------------------------------ *)
(* EndBlock *)

Lemma ff_expire_req cfg s r : fframe s (expire_req cfg s r).
Proof.
  unfold expire_req.
  destruct (get r (reqs s)) as [q|]; [|apply fframe_refl].
  destruct (get (rid_ctx r) (ctxs s)) as [rc|]; [|apply fframe_refl].
  eapply fframe_trans; [|apply ff_emit]. eapply fframe_trans; [|apply ff_deactivate].
  destruct (c_super rc); [apply fframe_refl|].
  assert (Hsa : fframe s (match slash cfg s r with Ok x => x | _ => s end)).
  { destruct (slash cfg s r) eqn:Es; try apply fframe_refl. eapply ff_slash; eauto. }
  destruct (refund_fee _ r (c_cons rc) (r_fee q)) eqn:Er; [|assumption].
  eapply fframe_trans; [exact Hsa|]. eapply ff_refund_fee; eauto.
Qed.

Lemma ff_clean_batch s c n : fframe s (clean_batch s c n).
Proof. unfold clean_batch. frame_triv. Qed.

Lemma ff_expire_one cfg s c : fframe s (expire_one cfg s c).
Proof.
  unfold expire_one.
  set (rc := ctx_or_zero s c).
  assert (Hp : fframe s (fst (if c_bdone rc then (s, rc)
             else complete_batch (fold_left (expire_req cfg) (active_rids s c (c_counter rc)) s) c rc))).
  { destruct (c_bdone rc); [apply fframe_refl|].
    eapply fframe_trans; [|apply ff_complete_batch].
    apply ff_fold. intros; apply ff_expire_req. }
  destruct (if c_bdone rc then (s, rc) else _) as [s1 rc1]. cbn [fst] in Hp.
  eapply fframe_trans; [|apply ff_clean_batch].
  eapply fframe_trans; [exact Hp|].
  assert (Hw2 : fframe s1 (put_ctx (del_expq s1 c (height s)) c rc1)).
  { eapply fframe_trans; [apply ff_del_expq|apply ff_put_ctx]. }
  destruct (c_state rc1); try assumption.
  - destruct (c_rep rc1 && _); (eapply fframe_trans; [exact Hw2|]); [apply ff_add_newq|apply ff_del_ctx].
  - eapply fframe_trans; [exact Hw2|apply ff_del_ctx].
Qed.

Lemma ff_issue_all s c rc n i provs : fframe s (issue_all s c rc n i provs).
Proof.
  revert s i. induction provs as [|p t IH]; cbn [issue_all]; intros s i; [apply fframe_refl|].
  eapply fframe_trans; [|apply IH]. unfold issue_one. frame_triv.
Qed.

Lemma ff_new_one cfg s c : fframe s (new_one cfg s c).
Proof.
  unfold new_one.
  set (rc := ctx_or_zero s c).
  destruct (is_state rc Running && c_rep rc && (0 <? c_total rc) && (c_total rc <=? c_counter rc)).
  { eapply fframe_trans; [apply ff_del_ctx|apply ff_del_newq]. }
  eapply fframe_trans; [|apply ff_del_newq].
  destruct (is_state rc Running); [|apply fframe_refl].
  destruct ((0 <? len _) && _).
  - match goal with |- fframe _ (match ?p with _ => _ end) => destruct p as [sp|] eqn:Ep end.
    + assert (Hsp : fframe s sp).
      { destruct (c_super rc); [injection Ep as <-; apply fframe_refl|].
        destruct (transfer _ _ _ s) eqn:Et; [|discriminate]. injection Ep as <-.
        eapply fframe_trans; [eapply ff_transfer; eauto|apply ff_emit]. }
      eapply fframe_trans; [exact Hsp|]. eapply fframe_trans; [|apply ff_add_expq].
      unfold initiate_requests. eapply fframe_trans; [|apply ff_emit].
      eapply fframe_trans; [apply ff_issue_all|apply ff_put_ctx].
    + unfold on_paused. destruct (c_mod rc =? 0); [|eapply fframe_trans; [|apply ff_emit]]; apply ff_put_ctx.
  - unfold skip_batch. eapply fframe_trans; [|apply ff_add_expq].
    eapply fframe_trans; [apply ff_put_ctx|apply ff_emit].
Qed.

Lemma ff_tick s h t : fframe s (set_time (set_height s h) t).
Proof. frame_triv. Qed.

Lemma ff_end_block cfg s dt : fframe s (end_block cfg s dt).
Proof.
  unfold end_block, end_blocker.
  eapply fframe_trans; [|apply ff_tick].
  eapply fframe_trans; [|apply ff_fold; intros; apply ff_new_one].
  apply ff_fold; intros; apply ff_expire_one.
Qed.

(* ------------------------------------------------------------------ *)
(* payments: only the bank and the log change *)

Record cframe (s s' : State) : Prop := mk_cframe {
  cf_defs : defs s' = defs s;
  cf_binds : binds s' = binds s;
  cf_pricing : pricing s' = pricing s;
  cf_owner_of : owner_of s' = owner_of s;
  cf_own_prov : own_prov s' = own_prov s;
  cf_own_bind : own_bind s' = own_bind s;
  cf_wdaddr : wdaddr s' = wdaddr s;
  cf_earned : earned s' = earned s;
  cf_own_earned : own_earned s' = own_earned s
}.

Lemma cframe_refl s : cframe s s.
Proof. constructor; reflexivity. Qed.

Lemma cframe_trans s1 s2 s3 : cframe s1 s2 -> cframe s2 s3 -> cframe s1 s3.
Proof. intros [] []. constructor; congruence. Qed.

Lemma cframe_fframe s s' : cframe s s' -> fframe s s'.
Proof.
  intros []. repeat split; try assumption.
  match goal with H : binds s' = binds s |- _ => rewrite H end. apply bsim_refl.
Qed.

Lemma cf_transfer a b amt s s1 : transfer a b amt s = Some s1 -> cframe s s1.
Proof. intros E. apply transfer_frame in E. rewrite E. constructor; reflexivity. Qed.

Lemma cf_emit e s : cframe s (emit e s).
Proof. constructor; reflexivity. Qed.

Lemma cf_pay_deposit s k o amt s1 : pay_deposit s k o amt = Ok s1 -> cframe s s1.
Proof.
  intros E. apply pay_deposit_inv in E. destruct E as (s0 & Et & ->).
  eapply cframe_trans; [eapply cf_transfer; eauto|apply cf_emit].
Qed.

Lemma min_deposit_ok cfg p md : min_deposit cfg p = Ok md ->
  pr_price p * p_multiple cfg < INT_LIMIT /\ md = Z.max (pr_price p * p_multiple cfg) (p_min_deposit cfg).
Proof.
  unfold min_deposit. destruct (INT_LIMIT <=? pr_price p * p_multiple cfg) eqn:E; [discriminate|].
  intros H. injection H as <-. b2p. split; [lia|reflexivity].
Qed.

(* ------------------------------------------------------------------ *)
(* the five handlers that are not static, field by field *)

Lemma define_inv s svc content ok s' : h_define s svc content ok = Ok s' ->
  ok = true /\ get svc (defs s) = None /\ s' = set_defs s (set svc content (defs s)).
Proof.
  unfold h_define. intros H. inv_ok H. destruct (get svc (defs s)); inv_ok H. auto.
Qed.

Lemma setwd_inv s owner addr ok s' : h_set_withdraw s owner addr ok = Ok s' ->
  ok = true /\ s' = set_wdaddr s (set owner addr (wdaddr s)).
Proof. unfold h_set_withdraw. intros H. inv_ok H. auto. Qed.

Lemma setwd_unblocked s owner addr ok s' : h_set_withdraw s owner addr ok = Ok s' ->
  is_blocked addr = false.
Proof. unfold h_set_withdraw. intros H. inv_ok H. now apply negb_true_iff. Qed.

Lemma bind_inv cfg s svc prov dep pr qos owner ok s' :
  h_bind cfg s svc prov dep pr qos owner ok = Ok s' ->
  exists amt raw,
    pr = Some raw
    /\ has svc (defs s) = true
    /\ get (svc, prov) (binds s) = None
    /\ (get prov (owner_of s) = None \/ get prov (owner_of s) = Some owner)
    /\ validate_pricing (parse_pricing raw) = true
    /\ schema_pricing (parse_pricing raw) = true
    /\ pr_price (parse_pricing raw) * p_multiple cfg < INT_LIMIT
    /\ defs s' = defs s
    /\ binds s' = set (svc, prov) (mkBinding amt raw qos true TIME0 owner) (binds s)
    /\ pricing s' = set (svc, prov) (parse_pricing raw) (pricing s)
    /\ own_bind s' = ladd (owner, svc, prov) (own_bind s)
    /\ wdaddr s' = wdaddr s /\ earned s' = earned s /\ own_earned s' = own_earned s
    /\ owner_of s' = (match get prov (owner_of s) with
                      | Some _ => owner_of s | None => set prov owner (owner_of s) end)
    /\ own_prov s' = (match get prov (owner_of s) with
                      | Some _ => own_prov s | None => ladd (owner, prov) (own_prov s) end).
Proof.
  unfold h_bind. intros H. inv_ok H.
  rename a into amt, a0 into raw, a1 into md, a2 into s1.
  pose proof (cf_pay_deposit _ _ _ _ _ Ha2) as [F1 F2 F3 F4 F5 F6 F7 F8 F9].
  apply min_deposit_ok in Ha1. destruct Ha1 as [Hlim _].
  exists amt, raw. sproj.
  assert (Hnb : get (svc, prov) (binds s) = None).
  { apply negb_true_iff in Hc2. unfold has in Hc2. destruct (get (svc, prov) (binds s)); [discriminate|reflexivity]. }
  assert (Hown : get prov (owner_of s) = None \/ get prov (owner_of s) = Some owner).
  { destruct (get prov (owner_of s)); [right|now left]. apply Z.eqb_eq in Hc3. now subst. }
  rewrite F4 in H.
  destruct (get prov (owner_of s)) eqn:Eo; inv_ok H; subst s'; sproj;
    rewrite ?F1, ?F2, ?F3, ?F4, ?F5, ?F6, ?F7, ?F8, ?F9; repeat split; auto.
Qed.

Lemma enable_inv cfg s svc prov dep owner ok s' :
  h_enable cfg s svc prov dep owner ok = Ok s' ->
  exists b amt md,
    get (svc, prov) (binds s) = Some b /\ b_owner b = owner /\ b_avail b = false /\ 0 <= amt
    /\ min_deposit cfg (pricing_of s (svc, prov)) = Ok md
    /\ binds s' = set (svc, prov)
         (setb_dtime (setb_avail (setb_deposit b (b_deposit b + amt)) true) TIME0) (binds s)
    /\ defs s' = defs s /\ pricing s' = pricing s /\ owner_of s' = owner_of s
    /\ own_prov s' = own_prov s /\ own_bind s' = own_bind s /\ wdaddr s' = wdaddr s
    /\ earned s' = earned s /\ own_earned s' = own_earned s.
Proof.
  unfold h_enable. intros H. inv_ok H.
  rename a into b, a0 into amt, a1 into md, a2 into s1.
  assert (Hcf : cframe s s1).
  { destruct (coins_empty dep); inv_ok Ha2; [subst; apply cframe_refl|]. eapply cf_pay_deposit; eauto. }
  assert (Hamt : 0 <= amt).
  { destruct (coins_empty dep); inv_ok Ha0; [lia|]. apply add_deposit_amt_pos in Ha0. lia. }
  destruct Hcf as [F1 F2 F3 F4 F5 F6 F7 F8 F9].
  exists b, amt, md. subst s'. sproj. b2p.
  rewrite ?F1, ?F2, ?F3, ?F4, ?F5, ?F6, ?F7, ?F8, ?F9. repeat split; auto.
Qed.

(* update: the binding keeps key, owner and availability; if a new pricing text is
   published it is valid, stored, and (for an available binding) below the Int limit *)
Lemma update_inv cfg s svc prov dep pr qos owner ok s' :
  h_update cfg s svc prov dep pr qos owner ok = Ok s' ->
  exists b b',
    get (svc, prov) (binds s) = Some b /\ b_owner b = owner
    /\ b_owner b' = b_owner b /\ b_avail b' = b_avail b
    /\ (binds s' = binds s \/ binds s' = set (svc, prov) b' (binds s))
    /\ ((b_raw b' = b_raw b /\ pricing s' = pricing s)
        \/ (pr = Some (Some (b_raw b'))
            /\ binds s' = set (svc, prov) b' (binds s)
            /\ pricing s' = set (svc, prov) (parse_pricing (b_raw b')) (pricing s)
            /\ validate_pricing (parse_pricing (b_raw b')) = true
            /\ schema_pricing (parse_pricing (b_raw b')) = true
            /\ (b_avail b = true ->
                pr_price (parse_pricing (b_raw b')) * p_multiple cfg < INT_LIMIT)))
    /\ defs s' = defs s /\ owner_of s' = owner_of s
    /\ own_prov s' = own_prov s /\ own_bind s' = own_bind s /\ wdaddr s' = wdaddr s
    /\ earned s' = earned s /\ own_earned s' = own_earned s.
Proof.
  unfold h_update. intros H. inv_ok H.
  rename a into b, a0 into amt, a1 into newp, a3 into s1.
  assert (Hcf : cframe s s1).
  { destruct (coins_empty dep); inv_ok Ha3; [subst; apply cframe_refl|]. eapply cf_pay_deposit; eauto. }
  destruct Hcf as [F1 F2 F3 F4 F5 F6 F7 F8 F9].
  apply Z.eqb_eq in Hc0.
  set (b1 := if qos =? 0 then b else setb_qos b qos) in *.
  assert (Hb1 : b_raw b1 = b_raw b /\ b_owner b1 = b_owner b /\ b_avail b1 = b_avail b)
    by (subst b1; destruct (qos =? 0); auto).
  destruct Hb1 as (Hr1 & Ho1 & Hv1).
  set (b2 := setb_deposit b1 (b_deposit b1 + amt)) in *.
  destruct (negb (qos =? 0) || negb (coins_empty dep) || match pr with Some _ => true | None => false end) eqn:Eupd.
  - destruct newp as [[raw p]|].
    + (* new pricing text *)
      destruct pr as [[raw0|]|]; inv_ok Ha1; try discriminate.
      subst raw0. match goal with Hp : parse_pricing _ = p |- _ => subst p end.
      inv_ok H. subst s'. sproj.
      exists b, (setb_raw b2 raw). cbn [b_owner b_avail b_raw setb_raw].
      rewrite ?F1, ?F2, ?F3, ?F4, ?F5, ?F6, ?F7, ?F8, ?F9.
      repeat split; auto.
      right. repeat split; auto.
      intros Hav. rewrite Hav, andb_true_l in Ha2. inv_ok Ha2.
      apply min_deposit_ok in Ha1. tauto.
    + inv_ok H. subst s'. sproj.
      exists b, b2. rewrite ?F1, ?F2, ?F3, ?F4, ?F5, ?F6, ?F7, ?F8, ?F9.
      repeat split; auto.
  - inv_ok H. subst s'. exists b, b. repeat split; auto.
Qed.

(* ------------------------------------------------------------------ *)
(* messages *)

Definition static_op (o : Op) : bool :=
  match o with
  | ODefine _ _ _ | OBind _ _ _ _ _ _ _ | OUpdate _ _ _ _ _ _ _ | OEnable _ _ _ _ _
  | OSetWd _ _ _ => false
  | _ => true
  end.

Definition earn_op (o : Op) : bool :=
  match o with ORespond _ _ _ _ _ _ | OWithdraw _ _ _ => true | _ => false end.

Definition is_bind (o : Op) : bool :=
  match o with OBind _ _ _ _ _ _ _ => true | _ => false end.

Definition is_setwd (o : Op) : bool :=
  match o with OSetWd _ _ _ => true | _ => false end.

Lemma fframe_msg cfg s o s' :
  handle cfg s o = Ok s' -> static_op o = true -> earn_op o = false -> fframe s s'.
Proof.
  intros H Hst He. destruct o; cbn [handle static_op earn_op] in *; try discriminate.
  - (* disable *) unfold h_disable in H. inv_ok H. subst s'.
    eapply ff_put_binding; eauto; cbn; discriminate.
  - (* refund deposit *) unfold h_refund_deposit in H. inv_ok H. subst s'.
    pose proof (cf_transfer _ _ _ _ _ Ha0) as Hcf.
    eapply fframe_trans; [apply cframe_fframe; exact Hcf|].
    eapply fframe_trans; [|apply ff_emit].
    eapply ff_put_binding with (b := a); auto.
    destruct Hcf as [_ F2 _ _ _ _ _ _ _]. now rewrite F2.
  - (* call *) unfold h_call, create_context in H. inv_ok H. subst s'. frame_triv.
  - (* modcall *) unfold create_context in H. inv_ok H. subst s'. frame_triv.
  - (* pause *) unfold h_pause, authorized in H. inv_ok H. subst s'. frame_triv.
  - (* start *) unfold h_start, authorized in H. inv_ok H.
    match type of H with (if ?b then _ else _) = _ => destruct b end; inv_ok H; subst s'; frame_triv.
  - (* kill *) unfold h_kill, authorized in H. inv_ok H. subst s'. frame_triv.
  - (* update ctx *) unfold h_update_ctx, update_ctx_tail, authorized in H. inv_ok H. subst s'. frame_triv.
  - (* transfer *) unfold h_transfer in H. inv_ok H. eapply ff_transfer; eauto.
  - (* end block *) injection H as <-. apply ff_end_block.
  - (* module update *) mod_shape H; frame_triv.
  - (* module pause *) mod_shape H; frame_triv.
  - (* module start *) mod_shape H; frame_triv.
  - (* module kill *) mod_shape H; frame_triv.
Qed.

Lemma sframe_respond cfg s r who code out out_valid ok s' :
  h_respond cfg s r who code out out_valid ok = Ok s' -> sframe s s'.
Proof.
  intros H. apply respond_inv in H.
  destruct H as (q & rc0 & s1 & rc & _ & Hq & Hrc0 & _ & _ & Hset & Hrc & ->).
  assert (H1 : sframe s s1).
  { destruct Hset as [[_ (sa & Es & Er)]|[_ Ea]].
    - eapply sframe_trans; [eapply ff_slash; eauto|eapply ff_refund_fee; eauto].
    - eapply sf_add_earned; eauto. }
  eapply sframe_trans; [exact H1|].
  eapply sframe_trans; [apply ff_resp_mid|apply ff_resp_finish].
Qed.

Lemma sframe_withdraw s owner prov ok s' : h_withdraw s owner prov ok = Ok s' -> sframe s s'.
Proof.
  unfold h_withdraw. intros H. inv_ok H.
  destruct (prov =? 0).
  - inv_ok H. subst s'. eapply sframe_trans; [|apply ff_emit].
    eapply sframe_trans; [|eapply ff_transfer; eauto]. frame_triv.
  - inv_ok H. subst s'. eapply sframe_trans; [|apply ff_emit].
    eapply sframe_trans; [|eapply ff_transfer; eauto].
    destruct (get0 prov (earned s) =? get0 owner (own_earned s)); [|destruct (_ <? 0)];
      inv_ok Ha; subst a; frame_triv.
Qed.

Lemma sframe_msg cfg s o s' : handle cfg s o = Ok s' -> static_op o = true -> sframe s s'.
Proof.
  intros H Hst. destruct (earn_op o) eqn:He.
  - destruct o; try discriminate; cbn [handle] in H.
    + eapply sframe_respond; eauto.
    + eapply sframe_withdraw; eauto.
  - eapply fframe_msg; eauto.
Qed.

Lemma eframe_msg cfg s o s' : handle cfg s o = Ok s' -> earn_op o = false -> eframe s s'.
Proof.
  intros H He. destruct (static_op o) eqn:Hst; [eapply fframe_msg; eauto|].
  destruct o; try discriminate; cbn [handle] in H.
  - apply define_inv in H. destruct H as (_ & _ & ->). frame_triv.
  - apply bind_inv in H. destruct H as (amt & raw & H). constructor; tauto.
  - apply update_inv in H. destruct H as (b & b' & H). constructor; tauto.
  - apply enable_inv in H. destruct H as (b & amt & md & H). constructor; tauto.
  - apply setwd_inv in H. destruct H as (_ & ->). frame_triv.
Qed.

Lemma owner_of_msg cfg s o s' : handle cfg s o = Ok s' -> is_bind o = false ->
  owner_of s' = owner_of s /\ own_prov s' = own_prov s.
Proof.
  intros H Hb. destruct (static_op o) eqn:Hst.
  { pose proof (sframe_msg _ _ _ _ H Hst) as []. auto. }
  destruct o; try discriminate; cbn [handle] in H.
  - apply define_inv in H. destruct H as (_ & _ & ->). auto.
  - apply update_inv in H. destruct H as (b & b' & H). tauto.
  - apply enable_inv in H. destruct H as (b & amt & md & H). tauto.
  - apply setwd_inv in H. destruct H as (_ & ->). auto.
Qed.

Lemma wdaddr_msg cfg s o s' : handle cfg s o = Ok s' -> is_setwd o = false -> wdaddr s' = wdaddr s.
Proof.
  intros H Hb. destruct (static_op o) eqn:Hst.
  { pose proof (sframe_msg _ _ _ _ H Hst) as []. auto. }
  destruct o; try discriminate; cbn [handle] in H.
  - apply define_inv in H. destruct H as (_ & _ & ->). auto.
  - apply bind_inv in H. destruct H as (amt & raw & H). tauto.
  - apply update_inv in H. destruct H as (b & b' & H). tauto.
  - apply enable_inv in H. destruct H as (b & amt & md & H). tauto.
Qed.
