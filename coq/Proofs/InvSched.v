(* I_sched (property C11, "a running context is never stranded") is preserved by
   every operation; fold-support lemmas for the two phases of EndBlock. *)
From Coq Require Import List ZArith Bool Lia Permutation.
From SVC Require Import Base.AMap Base.Res Base.Dec Model.Types Model.Pricing
  Model.Handlers Model.EndBlock Model.Step Proofs.Inv Proofs.Lemmas Proofs.CtxOps.
Import ListNotations.
Open Scope Z_scope.

Ltac loc_tac :=
  unfold loc_ok; repeat split; intros;
  try congruence; try (left; congruence); try (right; congruence);
  try (match goal with H : _ \/ _ |- _ => destruct H; congruence end);
  try (match goal with H : Some _ = Some _ |- _ => injection H as <- end; lia).

(* ------------------------------------------------------------------ *)
(* init *)

Lemma I_sched_init h0 t0 f : 1 <= h0 -> 0 <= t0 -> wf_funding f -> I_sched (init h0 t0 f).
Proof.
  intros _ _ _. unfold I_sched, init. cbn [expq expq_h newq newq_h ctxs height].
  repeat split; intros; cbn in *; try tauto; try discriminate.
Qed.

(* ------------------------------------------------------------------ *)
(* messages *)

Lemma I_sched_created cfg s c rc : Inv cfg s -> ctx_fresh s c -> I_sched (created s c rc).
Proof.
  intros HI Hf. destruct (fresh_none _ _ _ HI Hf) as (Ex & Ee & En).
  destruct (Inv_qpairs _ _ HI) as (Q1 & Q2).
  apply (I_sched_local c s); [exact (inv_sched _ _ HI)|unfold created; touch_auto| | |];
    unfold created; sproj.
  - exact Q1.
  - apply qpair_add; assumption.
  - rewrite !get_set_eq, Ee. loc_tac.
Qed.

Lemma I_sched_put cfg s sm c rc rc' :
  Inv cfg s -> SEq s sm -> get c (ctxs s) = Some rc ->
  (c_state rc' = Running -> c_state rc = Running) ->
  I_sched (put_ctx sm c rc').
Proof.
  intros HI Hsm Erc Hst. destruct (Inv_qpairs _ _ HI) as (Q1 & Q2).
  pose proof (I_sched_loc s c (inv_sched _ _ HI)) as (L1 & L2 & L3 & L4 & L5).
  apply (I_sched_local c s); [exact (inv_sched _ _ HI)| | | |].
  - eapply Touch_trans; [apply SEq_Touch, Hsm|apply Touch_put_ctx].
  - sproj. destruct Hsm as [Eh1 Et1 Ec1 Eq1 Eqh1 En1 Enh1 El1]. now rewrite Eq1, Eqh1.
  - sproj. destruct Hsm as [Eh1 Et1 Ec1 Eq1 Eqh1 En1 Enh1 El1]. now rewrite En1, Enh1.
  - sproj. destruct Hsm as [Eh1 Et1 Ec1 Eq1 Eqh1 En1 Enh1 El1]. rewrite Ec1, Eqh1, Enh1, get_set_eq.
    unfold loc_ok. split; [exact L1|]. split; [congruence|]. split; [exact L3|]. split; [exact L4|].
    intros rc0 E R. injection E as <-. apply (L5 rc Erc). auto.
Qed.

Lemma I_sched_started cfg s c rc :
  Inv cfg s -> get c (ctxs s) = Some rc -> I_sched (started s c rc).
Proof.
  intros HI Erc. destruct (Inv_qpairs _ _ HI) as (Q1 & Q2).
  pose proof (I_sched_loc s c (inv_sched _ _ HI)) as (L1 & L2 & L3 & L4 & L5).
  unfold started.
  destruct (negb (has c (expq_h s)) && negb (has c (newq_h s))) eqn:Eb.
  - apply andb_prop in Eb. destruct Eb as [Eb1 Eb2].
    apply negb_true_iff, has_false in Eb1. apply negb_true_iff, has_false in Eb2.
    apply (I_sched_local c s); [exact (inv_sched _ _ HI)|touch_auto| | |]; sproj.
    + exact Q1.
    + apply qpair_add; assumption.
    + rewrite !get_set_eq, Eb1. loc_tac.
  - apply (I_sched_local c s); [exact (inv_sched _ _ HI)|touch_auto| | |]; sproj;
      [exact Q1|exact Q2|].
    rewrite get_set_eq. unfold loc_ok.
    split; [exact L1|]. split; [congruence|]. split; [exact L3|]. split; [exact L4|].
    intros _ _ _. rewrite <- !has_ne.
    destruct (has c (expq_h s)); [now left|]. destruct (has c (newq_h s)); [now right|discriminate].
Qed.

Lemma I_sched_msg cfg s o s' : wf_cfg cfg -> Inv cfg s -> wf_op s o -> (forall dt, o <> OEndBlock dt) ->
  handle cfg s o = Ok s' -> I_sched s'.
Proof.
  intros Hcfg HI Hwf Hne H.
  destruct (ctx_op o) eqn:Hk.
  2:{ eapply I_sched_SEq; [eapply msg_SEq; eauto|exact (inv_sched _ _ HI)]. }
  destruct o; cbn [ctx_op] in Hk; try discriminate; cbn [handle] in H; cbn [wf_op] in Hwf.
  - (* call *) unfold h_call in H. inv_ok H. apply create_context_spec in H.
    destruct H as (capv & _ & _ & _ & ->). eapply I_sched_created; [eassumption|tauto].
  - (* modcall *) apply create_context_spec in H.
    destruct H as (capv & _ & _ & _ & ->). eapply I_sched_created; [eassumption|tauto].
  - (* respond *) apply respond_spec in H.
    destruct H as (q & rc & sm & rc' & _ & Erc & Hsm & -> & Hrc').
    eapply I_sched_put; eauto. destruct Hrc' as [->| ->]; auto.
  - (* pause *) apply h_pause_spec in H. destruct H as (rc & Erc & _ & _ & _ & Hr & ->).
    eapply I_sched_put; eauto using SEq_refl; cbn; discriminate.
  - (* start *) apply h_start_spec in H. destruct H as (rc & Erc & _ & _ & _ & ->).
    eapply I_sched_started; eauto.
  - (* kill *) apply h_kill_spec in H. destruct H as (rc & Erc & _ & _ & _ & ->).
    eapply I_sched_put; eauto using SEq_refl; cbn; discriminate.
  - (* update ctx *) apply h_update_ctx_spec in H.
    destruct H as (rc & capo & Erc & _ & _ & _ & _ & _ & _ & _ & _ & ->).
    eapply I_sched_put; eauto using SEq_refl.
    pose proof (upd_ctx_fixed rc provs capo timeout freq total) as Hf. cbv zeta in Hf.
    destruct Hf as (_ & _ & _ & _ & _ & _ & _ & _ & _ & _ & -> & _). auto.
  - (* end block *) exfalso. eapply Hne. reflexivity.
  - (* module update *) apply h_mod_update_gen in H. destruct H as (rc & t & capo & Erc & _ & _ & ->).
    eapply I_sched_put; eauto using SEq_refl.
    pose proof (upd_thr_fixed rc t provs capo timeout freq total) as Hf. cbv zeta in Hf.
    destruct Hf as (_ & _ & _ & _ & _ & _ & _ & _ & _ & _ & -> & _). auto.
  - (* module pause *) apply h_mod_pause_spec in H. destruct H as (rc & Erc & _ & _ & Hr & ->).
    eapply I_sched_put; eauto using SEq_refl; cbn; discriminate.
  - (* module start *) apply h_mod_start_spec in H. destruct H as (rc & Erc & _ & _ & ->).
    eapply I_sched_started; eauto.
  - (* module kill *) apply h_mod_kill_spec in H. destruct H as (rc & Erc & _ & _ & ->).
    eapply I_sched_put; eauto using SEq_refl; cbn; discriminate.
Qed.

(* ------------------------------------------------------------------ *)
(* the two per-context EndBlock handlers *)

Lemma rc1_state rc rc1 : rc1 = rc \/ (c_bdone rc = false /\ rc1 = setc_bdone rc true) ->
  c_state rc1 = c_state rc.
Proof. intros [->|[_ ->]]; reflexivity. Qed.

Lemma more_rep rc : more rc = true -> c_rep rc = true.
Proof. unfold more. intros H. apply andb_prop in H. tauto. Qed.

Lemma I_sched_expire_one cfg s c : wf_cfg cfg -> Inv cfg s -> In (height s, c) (expq s) ->
  height s < HEIGHT_BOUND -> I_sched (expire_one cfg s c).
Proof.
  intros Hcfg HI Hdue Hb.
  destruct (expire_one_spec cfg s c Hcfg HI Hdue Hb)
    as (rc & rc1 & Erc & Ee & En & Hrc1 & Ht & Q1 & Q2 & Ee' & Hcase).
  destruct (I_ctx_get _ _ _ _ (inv_ctx _ _ HI) Erc) as (Hok & _). unfold ctx_ok in Hok.
  apply (I_sched_local c s); [exact (inv_sched _ _ HI)|exact Ht|exact Q1|exact Q2|].
  rewrite Ee'. destruct Hcase as [(Ex & En' & _)|[(Ex & En' & Hr & Hm)|(Ex & En' & Hp)]];
    rewrite Ex, En'.
  - loc_tac.
  - apply more_rep in Hm. assert (c_timeout rc <= c_freq rc) by (apply Hok; exact Hm). loc_tac.
  - pose proof (rc1_state _ _ Hrc1) as Es. loc_tac.
Qed.

Lemma bump_state rc n : c_state (bump rc n) = c_state rc.
Proof. reflexivity. Qed.

Lemma I_sched_new_one cfg s c : wf_cfg cfg -> Inv cfg s -> In (height s, c) (newq s) ->
  height s < HEIGHT_BOUND -> I_sched (new_one cfg s c).
Proof.
  intros Hcfg HI Hdue Hb.
  destruct (new_one_spec cfg s c HI Hdue)
    as (rc & Erc & En & Ee & Ht & Q1 & Q2 & En' & Hcase).
  destruct (I_ctx_get _ _ _ _ (inv_ctx _ _ HI) Erc) as (Hok & _). unfold ctx_ok in Hok.
  apply (I_sched_local c s); [exact (inv_sched _ _ HI)|exact Ht|exact Q1|exact Q2|].
  rewrite En'.
  destruct Hcase as [(_ & Ex & Ee')|[(_ & Hr & Ee' & n & Ex)|[(_ & Hr & Ee' & Ex)|(Hr & Ee' & Ex)]]];
    rewrite Ex, Ee'.
  - loc_tac.
  - loc_tac.
  - loc_tac. match goal with H : Some _ = Some _ |- _ => injection H as <- end. discriminate.
  - loc_tac.
Qed.

Lemma I_sched_tick s dt :
  (forall c h, get c (expq_h s) = Some h -> height s < h) ->
  (forall c h, get c (newq_h s) = Some h -> height s < h) ->
  I_sched s -> I_sched (set_time (set_height s (height s + 1)) (time s + dt)).
Proof.
  intros He Hn (H1 & H2 & H3 & H4 & H5 & H6 & H7). unfold I_sched. sproj.
  repeat split; try apply H1; try apply H2; try assumption.
  - intros c h E. specialize (He c h E). lia.
  - intros c h E. specialize (Hn c h E). lia.
Qed.

(* ------------------------------------------------------------------ *)
(* fold support: what one per-context handler does to height, time and both queues *)

Lemma In_q_touch c (q q' : list (Z * CtxId)) (qh qh' : amap CtxId Z) :
  qpair q qh -> qpair q' qh' -> (forall c', c' <> c -> get c' qh' = get c' qh) ->
  forall h c', c' <> c -> (In (h, c') q' <-> In (h, c') q).
Proof. intros Q Q' Hg h c' Hn. rewrite (Q' h c'), (Q h c'), Hg by assumption. tauto. Qed.

Lemma height_expire_one cfg s c (Hcfg : wf_cfg cfg) (HI : Inv cfg s) (Hdue : In (height s, c) (expq s))
  (Hb : height s < HEIGHT_BOUND) : height (expire_one cfg s c) = height s.
Proof.
  destruct (expire_one_spec cfg s c Hcfg HI Hdue Hb) as (rc & rc1 & _ & _ & _ & _ & Ht & _).
  apply (t_height _ _ _ Ht).
Qed.

Lemma time_expire_one cfg s c (Hcfg : wf_cfg cfg) (HI : Inv cfg s) (Hdue : In (height s, c) (expq s))
  (Hb : height s < HEIGHT_BOUND) : time (expire_one cfg s c) = time s.
Proof.
  destruct (expire_one_spec cfg s c Hcfg HI Hdue Hb) as (rc & rc1 & _ & _ & _ & _ & Ht & _).
  apply (t_time _ _ _ Ht).
Qed.

Lemma expq_after_expire_one cfg s c (Hcfg : wf_cfg cfg) (HI : Inv cfg s) (Hdue : In (height s, c) (expq s))
  (Hb : height s < HEIGHT_BOUND) : forall h c',
  In (h, c') (expq (expire_one cfg s c)) <-> (In (h, c') (expq s) /\ c' <> c).
Proof.
  intros h c'.
  destruct (expire_one_spec cfg s c Hcfg HI Hdue Hb)
    as (rc & rc1 & Erc & Ee & En & Hrc1 & Ht & Q1 & Q2 & Ee' & Hcase).
  destruct (Inv_qpairs _ _ HI) as (Q1s & Q2s).
  destruct (eqb_spec c' c) as [->|Hn].
  - rewrite (Q1 h c), Ee'. split; [discriminate|tauto].
  - rewrite (In_q_touch c _ _ _ _ Q1s Q1 (t_expq_h _ _ _ Ht) h c' Hn). tauto.
Qed.

Lemma newq_after_expire_one cfg s c (Hcfg : wf_cfg cfg) (HI : Inv cfg s) (Hdue : In (height s, c) (expq s))
  (Hb : height s < HEIGHT_BOUND) : forall h c',
  In (h, c') (newq (expire_one cfg s c)) -> In (h, c') (newq s) \/ (c' = c /\ height s <= h).
Proof.
  intros h c' Hin.
  destruct (expire_one_spec cfg s c Hcfg HI Hdue Hb)
    as (rc & rc1 & Erc & Ee & En & Hrc1 & Ht & Q1 & Q2 & Ee' & Hcase).
  destruct (Inv_qpairs _ _ HI) as (Q1s & Q2s).
  destruct (I_ctx_get _ _ _ _ (inv_ctx _ _ HI) Erc) as (Hok & _). unfold ctx_ok in Hok.
  destruct (eqb_spec c' c) as [->|Hn].
  - right. split; [reflexivity|]. apply Q2 in Hin.
    destruct Hcase as [(Ex & En' & _)|[(Ex & En' & Hr & Hm)|(Ex & En' & Hp)]];
      rewrite En' in Hin; try discriminate.
    injection Hin as <-. apply more_rep in Hm.
    assert (c_timeout rc <= c_freq rc) by (apply Hok; exact Hm). lia.
  - left. now apply (In_q_touch c _ _ _ _ Q2s Q2 (t_newq_h _ _ _ Ht) h c' Hn).
Qed.

Lemma newq_kept_expire_one cfg s c (Hcfg : wf_cfg cfg) (HI : Inv cfg s) (Hdue : In (height s, c) (expq s))
  (Hb : height s < HEIGHT_BOUND) : forall h c',
  In (h, c') (newq s) -> In (h, c') (newq (expire_one cfg s c)).
Proof.
  intros h c' Hin.
  destruct (expire_one_spec cfg s c Hcfg HI Hdue Hb)
    as (rc & rc1 & Erc & Ee & En & Hrc1 & Ht & Q1 & Q2 & Ee' & Hcase).
  destruct (Inv_qpairs _ _ HI) as (Q1s & Q2s).
  destruct (eqb_spec c' c) as [->|Hn].
  - apply Q2s in Hin. congruence.
  - now apply (In_q_touch c _ _ _ _ Q2s Q2 (t_newq_h _ _ _ Ht) h c' Hn).
Qed.


Lemma height_new_one cfg s c (Hcfg : wf_cfg cfg) (HI : Inv cfg s) (Hdue : In (height s, c) (newq s))
  (Hb : height s < HEIGHT_BOUND) : height (new_one cfg s c) = height s.
Proof.
  destruct (new_one_spec cfg s c HI Hdue) as (rc & _ & _ & _ & Ht & _).
  apply (t_height _ _ _ Ht).
Qed.

Lemma time_new_one cfg s c (Hcfg : wf_cfg cfg) (HI : Inv cfg s) (Hdue : In (height s, c) (newq s))
  (Hb : height s < HEIGHT_BOUND) : time (new_one cfg s c) = time s.
Proof.
  destruct (new_one_spec cfg s c HI Hdue) as (rc & _ & _ & _ & Ht & _).
  apply (t_time _ _ _ Ht).
Qed.

Lemma newq_after_new_one cfg s c (Hcfg : wf_cfg cfg) (HI : Inv cfg s) (Hdue : In (height s, c) (newq s))
  (Hb : height s < HEIGHT_BOUND) : forall h c',
  In (h, c') (newq (new_one cfg s c)) <-> (In (h, c') (newq s) /\ c' <> c).
Proof.
  intros h c'.
  destruct (new_one_spec cfg s c HI Hdue) as (rc & Erc & En & Ee & Ht & Q1 & Q2 & En' & Hcase).
  destruct (Inv_qpairs _ _ HI) as (Q1s & Q2s).
  destruct (eqb_spec c' c) as [->|Hn].
  - rewrite (Q2 h c), En'. split; [discriminate|tauto].
  - rewrite (In_q_touch c _ _ _ _ Q2s Q2 (t_newq_h _ _ _ Ht) h c' Hn). tauto.
Qed.

Lemma expq_after_new_one cfg s c (Hcfg : wf_cfg cfg) (HI : Inv cfg s) (Hdue : In (height s, c) (newq s))
  (Hb : height s < HEIGHT_BOUND) : forall h c',
  In (h, c') (expq (new_one cfg s c)) -> In (h, c') (expq s) \/ (c' = c /\ height s < h).
Proof.
  intros h c' Hin.
  destruct (new_one_spec cfg s c HI Hdue) as (rc & Erc & En & Ee & Ht & Q1 & Q2 & En' & Hcase).
  destruct (Inv_qpairs _ _ HI) as (Q1s & Q2s).
  destruct (I_ctx_get _ _ _ _ (inv_ctx _ _ HI) Erc) as (Hok & _). unfold ctx_ok in Hok.
  destruct (eqb_spec c' c) as [->|Hn].
  - right. split; [reflexivity|]. apply Q1 in Hin.
    destruct Hcase as [(_ & Ex & Ee')|[(_ & Hr & Ee' & n & Ex)|[(_ & Hr & Ee' & Ex)|(Hr & Ee' & Ex)]]];
      rewrite Ee' in Hin; try discriminate.
    injection Hin as <-. lia.
  - left. now apply (In_q_touch c _ _ _ _ Q1s Q1 (t_expq_h _ _ _ Ht) h c' Hn).
Qed.

Lemma expq_kept_new_one cfg s c (Hcfg : wf_cfg cfg) (HI : Inv cfg s) (Hdue : In (height s, c) (newq s))
  (Hb : height s < HEIGHT_BOUND) : forall h c',
  In (h, c') (expq s) -> In (h, c') (expq (new_one cfg s c)).
Proof.
  intros h c' Hin.
  destruct (new_one_spec cfg s c HI Hdue) as (rc & Erc & En & Ee & Ht & Q1 & Q2 & En' & Hcase).
  destruct (Inv_qpairs _ _ HI) as (Q1s & Q2s).
  destruct (eqb_spec c' c) as [->|Hn].
  - apply Q1s in Hin. congruence.
  - now apply (In_q_touch c _ _ _ _ Q1s Q1 (t_expq_h _ _ _ Ht) h c' Hn).
Qed.

