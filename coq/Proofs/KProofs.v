(* C18, store keys: theorems over the GENERATED definitions of gen/KeysGen.v
   (regenerated from /repo/types/keys.go by the translator on every build).
   - K_families_disjoint, K_scan_whole, K_scan_stays_in_family : record families are
     told apart by their first byte;
   - K_inj_<family>          : each key builder is injective under the stated conditions;
   - K_scan_exact_<scan>     : a key of the family has the scan prefix iff its fields
                               equal the scan arguments;
   - *_refuted               : the side conditions are needed (concrete witnesses).
   [bech] (the text of AccAddress.String()) is a Section variable with two
   hypotheses, shown satisfiable in [bech_hyps_satisfiable]. *)
From Coq Require Import List NArith ZArith Lia.
From SVC Require Import Base.Bytes gen.KeysGen Model.Ids Proofs.IdsProofs.
Import ListNotations.

(* unfold every generated definition, flatten [concat], keep be64/u64/bech folded *)
Ltac kunf :=
  unfold GetServiceDefinitionKey, GetServiceBindingKey, GetOwnerServiceBindingKey, GetOwnerKey,
    GetOwnerProviderKey, GetPricingKey, GetWithdrawAddrKey, GetBindingsSubspace,
    GetOwnerBindingsSubspace, GetOwnerProvidersSubspace, GetRequestContextKey,
    GetExpiredRequestBatchKey, GetNewRequestBatchKey, GetExpiredRequestBatchSubspace,
    GetNewRequestBatchSubspace, GetExpiredRequestBatchHeightKey, GetNewRequestBatchHeightKey,
    GetRequestKey, GetRequestSubspaceByReqCtx, GetActiveRequestKey, GetActiveRequestSubspace,
    GetActiveRequestKeyByID, GetActiveRequestSubspaceByReqCtx, GetRequestVolumeKey,
    GetResponseKey, GetResponseSubspaceByReqCtx, GetEarnedFeesKey, GetEarnedFeesSubspace,
    GetOwnerEarnedFeesKey, GetOwnerEarnedFeesSubspace,
    EmptyByte, ServiceDefinitionKey, ServiceBindingKey, OwnerServiceBindingKey, OwnerKey,
    OwnerProviderKey, PricingKey, WithdrawAddrKey, RequestContextKey, ExpiredRequestBatchKey,
    NewRequestBatchKey, ExpiredRequestBatchHeightKey, NewRequestBatchHeightKey, RequestKey,
    ActiveRequestKey, ActiveRequestByIDKey, ResponseKey, RequestVolumeKey, EarnedFeesKey,
    OwnerEarnedFeesKey.
Ltac kunf_in H :=
  unfold GetServiceDefinitionKey, GetServiceBindingKey, GetOwnerServiceBindingKey, GetOwnerKey,
    GetOwnerProviderKey, GetPricingKey, GetWithdrawAddrKey, GetBindingsSubspace,
    GetOwnerBindingsSubspace, GetOwnerProvidersSubspace, GetRequestContextKey,
    GetExpiredRequestBatchKey, GetNewRequestBatchKey, GetExpiredRequestBatchSubspace,
    GetNewRequestBatchSubspace, GetExpiredRequestBatchHeightKey, GetNewRequestBatchHeightKey,
    GetRequestKey, GetRequestSubspaceByReqCtx, GetActiveRequestKey, GetActiveRequestSubspace,
    GetActiveRequestKeyByID, GetActiveRequestSubspaceByReqCtx, GetRequestVolumeKey,
    GetResponseKey, GetResponseSubspaceByReqCtx, GetEarnedFeesKey, GetEarnedFeesSubspace,
    GetOwnerEarnedFeesKey, GetOwnerEarnedFeesSubspace,
    EmptyByte, ServiceDefinitionKey, ServiceBindingKey, OwnerServiceBindingKey, OwnerKey,
    OwnerProviderKey, PricingKey, WithdrawAddrKey, RequestContextKey, ExpiredRequestBatchKey,
    NewRequestBatchKey, ExpiredRequestBatchHeightKey, NewRequestBatchHeightKey, RequestKey,
    ActiveRequestKey, ActiveRequestByIDKey, ResponseKey, RequestVolumeKey, EarnedFeesKey,
    OwnerEarnedFeesKey in H.
Ltac kred := kunf; cbn [concat app]; rewrite ?app_nil_r.
Ltac kred_in H := kunf_in H; cbn [concat app] in H; rewrite ?app_nil_r in H.

Lemma prefix_cons_same : forall (x : byte) p l, is_prefix (x :: p) (x :: l) <-> is_prefix p l.
Proof.
  intros x p l. rewrite is_prefix_cons. split; [intros [_ H]; exact H | intros H; split; [reflexivity | exact H]].
Qed.

Lemma cons_eq_tail : forall (x y : byte) a b, x :: a = y :: b -> a = b.
Proof. intros x y a b H. exact (f_equal (@tl byte) H). Qed.

Lemma be64_len_eq : forall n m, length (be64 n) = length (be64 m).
Proof. intros n m. rewrite !be64_length. reflexivity. Qed.

(* the translator's manifest: these are exactly the functions and prefixes covered below;
   a function added to keys.go breaks this Example until the theorems are extended *)
Module Manifest.
Import String.
Example K_manifest_functions : KeysGen_functions =
  ["GetServiceDefinitionKey"; "GetServiceBindingKey"; "GetOwnerServiceBindingKey"; "GetOwnerKey";
   "GetOwnerProviderKey"; "GetPricingKey"; "GetWithdrawAddrKey"; "GetBindingsSubspace";
   "GetOwnerBindingsSubspace"; "GetOwnerProvidersSubspace"; "GetRequestContextKey";
   "GetExpiredRequestBatchKey"; "GetNewRequestBatchKey"; "GetExpiredRequestBatchSubspace";
   "GetNewRequestBatchSubspace"; "GetExpiredRequestBatchHeightKey"; "GetNewRequestBatchHeightKey";
   "GetRequestKey"; "GetRequestSubspaceByReqCtx"; "GetActiveRequestKey"; "GetActiveRequestSubspace";
   "GetActiveRequestKeyByID"; "GetActiveRequestSubspaceByReqCtx"; "GetRequestVolumeKey";
   "GetResponseKey"; "GetResponseSubspaceByReqCtx"; "GetEarnedFeesKey"; "GetEarnedFeesSubspace";
   "GetOwnerEarnedFeesKey"; "GetOwnerEarnedFeesSubspace"]%string.
Proof. reflexivity. Qed.

Example K_manifest_prefixes : KeysGen_prefixes =
  ["EmptyByte"; "ServiceDefinitionKey"; "ServiceBindingKey"; "OwnerServiceBindingKey"; "OwnerKey";
   "OwnerProviderKey"; "PricingKey"; "WithdrawAddrKey"; "RequestContextKey";
   "ExpiredRequestBatchKey"; "NewRequestBatchKey"; "ExpiredRequestBatchHeightKey";
   "NewRequestBatchHeightKey"; "RequestKey"; "ActiveRequestKey"; "ActiveRequestByIDKey";
   "ResponseKey"; "RequestVolumeKey"; "EarnedFeesKey"; "OwnerEarnedFeesKey"]%string.
Proof. reflexivity. Qed.

End Manifest.

(* the separator really is the single byte 0x00 (sep_inj is about that byte) *)
Example K_separator : EmptyByte = [0%N].
Proof. reflexivity. Qed.

(* ------------------------------------------------------------------ *)
(* record families                                                     *)

Inductive family :=
| FDefinition | FBinding | FOwnerBinding | FOwner | FOwnerProvider | FPricing | FWithdrawAddr
| FRequestContext | FExpiredBatch | FNewBatch | FExpiredBatchHeight | FNewBatchHeight
| FRequest | FActiveRequest | FActiveRequestByID | FResponse | FRequestVolume
| FEarnedFees | FOwnerEarnedFees.

(* the prefix variable of each family, as generated *)
Definition fam_prefix (f : family) : bytes :=
  match f with
  | FDefinition => ServiceDefinitionKey
  | FBinding => ServiceBindingKey
  | FOwnerBinding => OwnerServiceBindingKey
  | FOwner => OwnerKey
  | FOwnerProvider => OwnerProviderKey
  | FPricing => PricingKey
  | FWithdrawAddr => WithdrawAddrKey
  | FRequestContext => RequestContextKey
  | FExpiredBatch => ExpiredRequestBatchKey
  | FNewBatch => NewRequestBatchKey
  | FExpiredBatchHeight => ExpiredRequestBatchHeightKey
  | FNewBatchHeight => NewRequestBatchHeightKey
  | FRequest => RequestKey
  | FActiveRequest => ActiveRequestKey
  | FActiveRequestByID => ActiveRequestByIDKey
  | FResponse => ResponseKey
  | FRequestVolume => RequestVolumeKey
  | FEarnedFees => EarnedFeesKey
  | FOwnerEarnedFees => OwnerEarnedFeesKey
  end.

Definition fam_byte (f : family) : byte := hd 0%N (fam_prefix f).

Lemma fam_prefix_single : forall f, fam_prefix f = [fam_byte f].
Proof. intros f. destruct f; reflexivity. Qed.

Lemma fam_byte_inj : forall f f', fam_byte f = fam_byte f' -> f = f'.
Proof.
  intros f f' H. destruct f; destruct f'; try reflexivity; vm_compute in H; discriminate H.
Qed.

Section K.
Variable bech : bytes -> bytes.
Hypothesis bech_inj : forall a b, bech a = bech b -> a = b.
Hypothesis bech_zero_free : forall a, zero_free (bech a).

(* every byte string the module uses as the key of a stored record *)
Inductive key_of : family -> bytes -> Prop :=
| KDefinition : forall sn, key_of FDefinition (GetServiceDefinitionKey sn)
| KBinding : forall sn p, key_of FBinding (GetServiceBindingKey bech sn p)
| KOwnerBinding : forall o sn p, key_of FOwnerBinding (GetOwnerServiceBindingKey o sn p)
| KOwner : forall p, key_of FOwner (GetOwnerKey p)
| KOwnerProvider : forall o p, key_of FOwnerProvider (GetOwnerProviderKey o p)
| KPricing : forall sn p, key_of FPricing (GetPricingKey bech sn p)
| KWithdrawAddr : forall o, key_of FWithdrawAddr (GetWithdrawAddrKey o)
| KRequestContext : forall c, key_of FRequestContext (GetRequestContextKey c)
| KExpiredBatch : forall c h, key_of FExpiredBatch (GetExpiredRequestBatchKey c h)
| KNewBatch : forall c h, key_of FNewBatch (GetNewRequestBatchKey c h)
| KExpiredBatchHeight : forall c, key_of FExpiredBatchHeight (GetExpiredRequestBatchHeightKey c)
| KNewBatchHeight : forall c, key_of FNewBatchHeight (GetNewRequestBatchHeightKey c)
| KRequest : forall r, key_of FRequest (GetRequestKey r)
| KActiveRequest : forall sn p h r, key_of FActiveRequest (GetActiveRequestKey bech sn p h r)
| KActiveRequestByID : forall r, key_of FActiveRequestByID (GetActiveRequestKeyByID r)
| KResponse : forall r, key_of FResponse (GetResponseKey r)
| KRequestVolume : forall c sn p, key_of FRequestVolume (GetRequestVolumeKey bech c sn p)
| KEarnedFees : forall p d, key_of FEarnedFees (GetEarnedFeesKey p d)
| KOwnerEarnedFees : forall o d, key_of FOwnerEarnedFees (GetOwnerEarnedFeesKey o d).

(* every prefix the module iterates over (keeper/*.go: KVStorePrefixIterator) *)
Inductive scan_of : family -> bytes -> Prop :=
| SWhole : forall f, scan_of f (fam_prefix f)
| SBindings : forall sn, scan_of FBinding (GetBindingsSubspace sn)
| SOwnerBindings : forall o sn, scan_of FOwnerBinding (GetOwnerBindingsSubspace o sn)
| SOwnerProviders : forall o, scan_of FOwnerProvider (GetOwnerProvidersSubspace o)
| SExpiredBatch : forall h, scan_of FExpiredBatch (GetExpiredRequestBatchSubspace h)
| SNewBatch : forall h, scan_of FNewBatch (GetNewRequestBatchSubspace h)
| SRequests : forall c b, scan_of FRequest (GetRequestSubspaceByReqCtx c b)
| SActiveRequests : forall sn p, scan_of FActiveRequest (GetActiveRequestSubspace bech sn p)
| SActiveRequestsByID : forall c b, scan_of FActiveRequestByID (GetActiveRequestSubspaceByReqCtx c b)
| SResponses : forall c b, scan_of FResponse (GetResponseSubspaceByReqCtx c b)
| SEarnedFees : forall p, scan_of FEarnedFees (GetEarnedFeesSubspace p)
| SOwnerEarnedFees : forall o, scan_of FOwnerEarnedFees (GetOwnerEarnedFeesSubspace o).

Lemma key_of_prefix : forall f k, key_of f k -> is_prefix (fam_prefix f) k.
Proof.
  intros f k H. destruct H; cbn [fam_prefix]; kunf; cbn [concat]; apply is_prefix_app.
Qed.

Lemma scan_of_prefix : forall f s, scan_of f s -> is_prefix (fam_prefix f) s.
Proof.
  intros f s H. destruct H; cbn [fam_prefix]; try apply is_prefix_refl; kunf; cbn [concat]; apply is_prefix_app.
Qed.

Lemma fam_prefix_excl : forall f f' k,
  is_prefix (fam_prefix f) k -> is_prefix (fam_prefix f') k -> f = f'.
Proof.
  intros f f' k [r Hr] [r' Hr']. rewrite fam_prefix_single in Hr, Hr'. cbn [app] in Hr, Hr'.
  rewrite Hr in Hr'. injection Hr' as Hb _. apply fam_byte_inj. exact Hb.
Qed.

(* Keys built for records of different families never coincide. *)
Theorem K_families_disjoint : forall f f' k, key_of f k -> key_of f' k -> f = f'.
Proof.
  intros f f' k H H'. apply (fam_prefix_excl f f' k); apply key_of_prefix; assumption.
Qed.

(* The whole-prefix iterations (definitions, bindings, withdraw addresses, contexts, requests,
   active requests, responses, earned fees; any family) return exactly that family. *)
Theorem K_scan_whole : forall f f' k, key_of f k -> (is_prefix (fam_prefix f') k <-> f' = f).
Proof.
  intros f f' k H. split.
  - intros Hp. apply (fam_prefix_excl f' f k); [exact Hp | apply key_of_prefix; exact H].
  - intros ->. apply key_of_prefix. exact H.
Qed.

(* No scan of one family ever returns a record of another. *)
Theorem K_scan_stays_in_family : forall f f' s k,
  scan_of f' s -> key_of f k -> is_prefix s k -> f = f'.
Proof.
  intros f f' s k Hs Hk Hp. apply (fam_prefix_excl f f' k).
  - apply key_of_prefix. exact Hk.
  - apply (is_prefix_trans _ s); [apply scan_of_prefix; exact Hs | exact Hp].
Qed.

(* ------------------------------------------------------------------ *)
(* injectivity of each key builder                                     *)

(* prefix ++ one field: no side condition *)
Theorem K_inj_definition : forall sn sn',
  GetServiceDefinitionKey sn = GetServiceDefinitionKey sn' -> sn = sn'.
Proof. intros sn sn' H. kred_in H. apply cons_eq_tail in H. exact H. Qed.

Theorem K_inj_owner : forall p p', GetOwnerKey p = GetOwnerKey p' -> p = p'.
Proof. intros p p' H. kred_in H. apply cons_eq_tail in H. exact H. Qed.

Theorem K_inj_withdraw_addr : forall o o', GetWithdrawAddrKey o = GetWithdrawAddrKey o' -> o = o'.
Proof. intros o o' H. kred_in H. apply cons_eq_tail in H. exact H. Qed.

Theorem K_inj_request_context : forall c c', GetRequestContextKey c = GetRequestContextKey c' -> c = c'.
Proof. intros c c' H. kred_in H. apply cons_eq_tail in H. exact H. Qed.

Theorem K_inj_expired_batch_height : forall c c',
  GetExpiredRequestBatchHeightKey c = GetExpiredRequestBatchHeightKey c' -> c = c'.
Proof. intros c c' H. kred_in H. apply cons_eq_tail in H. exact H. Qed.

Theorem K_inj_new_batch_height : forall c c',
  GetNewRequestBatchHeightKey c = GetNewRequestBatchHeightKey c' -> c = c'.
Proof. intros c c' H. kred_in H. apply cons_eq_tail in H. exact H. Qed.

Theorem K_inj_request : forall r r', GetRequestKey r = GetRequestKey r' -> r = r'.
Proof. intros r r' H. kred_in H. apply cons_eq_tail in H. exact H. Qed.

Theorem K_inj_active_request_by_id : forall r r',
  GetActiveRequestKeyByID r = GetActiveRequestKeyByID r' -> r = r'.
Proof. intros r r' H. kred_in H. apply cons_eq_tail in H. exact H. Qed.

Theorem K_inj_response : forall r r', GetResponseKey r = GetResponseKey r' -> r = r'.
Proof. intros r r' H. kred_in H. apply cons_eq_tail in H. exact H. Qed.

(* name 0x00 bech32(provider): names without 0x00 *)
Theorem K_inj_binding : forall sn p sn' p',
  zero_free sn -> zero_free sn' ->
  GetServiceBindingKey bech sn p = GetServiceBindingKey bech sn' p' -> sn = sn' /\ p = p'.
Proof.
  intros sn p sn' p' Hs Hs' H. kred_in H. apply cons_eq_tail in H.
  destruct (sep_inj _ _ _ _ Hs Hs' H) as [-> Hb]. split; [reflexivity | apply bech_inj; exact Hb].
Qed.

Theorem K_inj_pricing : forall sn p sn' p',
  zero_free sn -> zero_free sn' ->
  GetPricingKey bech sn p = GetPricingKey bech sn' p' -> sn = sn' /\ p = p'.
Proof.
  intros sn p sn' p' Hs Hs' H. kred_in H. apply cons_eq_tail in H.
  destruct (sep_inj _ _ _ _ Hs Hs' H) as [-> Hb]. split; [reflexivity | apply bech_inj; exact Hb].
Qed.

(* owner(raw) name 0x00 provider(raw): owners of one length (20 in the SDK), names without 0x00 *)
Theorem K_inj_owner_binding : forall o sn p o' sn' p',
  length o = length o' -> zero_free sn -> zero_free sn' ->
  GetOwnerServiceBindingKey o sn p = GetOwnerServiceBindingKey o' sn' p' ->
  o = o' /\ sn = sn' /\ p = p'.
Proof.
  intros o sn p o' sn' p' Hl Hs Hs' H. kred_in H. apply cons_eq_tail in H.
  destruct (len_inj _ _ _ _ Hl H) as [-> H1].
  destruct (sep_inj _ _ _ _ Hs Hs' H1) as [-> ->]. repeat split.
Qed.

Corollary K_inj_owner_binding_20 : forall o sn p o' sn' p',
  length o = 20 -> length o' = 20 -> zero_free sn -> zero_free sn' ->
  GetOwnerServiceBindingKey o sn p = GetOwnerServiceBindingKey o' sn' p' ->
  o = o' /\ sn = sn' /\ p = p'.
Proof. intros o sn p o' sn' p' Hl Hl'. apply K_inj_owner_binding. congruence. Qed.

(* owner(raw) provider(raw) *)
Theorem K_inj_owner_provider : forall o p o' p',
  length o = length o' ->
  GetOwnerProviderKey o p = GetOwnerProviderKey o' p' -> o = o' /\ p = p'.
Proof.
  intros o p o' p' Hl H. kred_in H. apply cons_eq_tail in H. apply (len_inj _ _ _ _ Hl H).
Qed.

Corollary K_inj_owner_provider_20 : forall o p o' p',
  length o = 20 -> length o' = 20 ->
  GetOwnerProviderKey o p = GetOwnerProviderKey o' p' -> o = o' /\ p = p'.
Proof. intros o p o' p' Hl Hl'. apply K_inj_owner_provider. congruence. Qed.

(* be64(height) ctxid: any context id, any int64 height *)
Theorem K_inj_expired_batch : forall c h c' h',
  is_int64 h -> is_int64 h' ->
  GetExpiredRequestBatchKey c h = GetExpiredRequestBatchKey c' h' -> c = c' /\ h = h'.
Proof.
  intros c h c' h' Hh Hh' H. kred_in H. apply cons_eq_tail in H.
  destruct (len_inj _ _ _ _ (be64_len_eq _ _) H) as [Hb ->].
  split; [reflexivity | apply be64_u64_inj; assumption].
Qed.

Theorem K_inj_new_batch : forall c h c' h',
  is_int64 h -> is_int64 h' ->
  GetNewRequestBatchKey c h = GetNewRequestBatchKey c' h' -> c = c' /\ h = h'.
Proof.
  intros c h c' h' Hh Hh' H. kred_in H. apply cons_eq_tail in H.
  destruct (len_inj _ _ _ _ (be64_len_eq _ _) H) as [Hb ->].
  split; [reflexivity | apply be64_u64_inj; assumption].
Qed.

(* name 0x00 bech32(provider) 0x00 be64(height) requestID *)
Theorem K_inj_active_request : forall sn p h r sn' p' h' r',
  zero_free sn -> zero_free sn' -> is_int64 h -> is_int64 h' ->
  GetActiveRequestKey bech sn p h r = GetActiveRequestKey bech sn' p' h' r' ->
  sn = sn' /\ p = p' /\ h = h' /\ r = r'.
Proof.
  intros sn p h r sn' p' h' r' Hs Hs' Hh Hh' H. kred_in H. apply cons_eq_tail in H.
  destruct (sep_inj _ _ _ _ Hs Hs' H) as [-> H1].
  destruct (sep_inj _ _ _ _ (bech_zero_free p) (bech_zero_free p') H1) as [Hb H2].
  destruct (len_inj _ _ _ _ (be64_len_eq _ _) H2) as [Hh2 ->].
  split; [reflexivity|]. split; [apply bech_inj; exact Hb|].
  split; [apply be64_u64_inj; assumption | reflexivity].
Qed.

(* bech32(consumer) 0x00 name 0x00 bech32(provider) 0x00 *)
Theorem K_inj_request_volume : forall c sn p c' sn' p',
  zero_free sn -> zero_free sn' ->
  GetRequestVolumeKey bech c sn p = GetRequestVolumeKey bech c' sn' p' ->
  c = c' /\ sn = sn' /\ p = p'.
Proof.
  intros c sn p c' sn' p' Hs Hs' H. kred_in H. apply cons_eq_tail in H.
  destruct (sep_inj _ _ _ _ (bech_zero_free c) (bech_zero_free c') H) as [Hc H1].
  destruct (sep_inj _ _ _ _ Hs Hs' H1) as [-> H2].
  apply app_inj_tail in H2. destruct H2 as [Hp _].
  split; [apply bech_inj; exact Hc|]. split; [reflexivity | apply bech_inj; exact Hp].
Qed.

(* provider(raw) denom: providers of one length; otherwise refuted below *)
Theorem K_inj_earned : forall p d p' d',
  length p = length p' ->
  GetEarnedFeesKey p d = GetEarnedFeesKey p' d' -> p = p' /\ d = d'.
Proof.
  intros p d p' d' Hl H. kred_in H. apply cons_eq_tail in H. apply (len_inj _ _ _ _ Hl H).
Qed.

Corollary K_inj_earned_20 : forall p d p' d',
  length p = 20 -> length p' = 20 ->
  GetEarnedFeesKey p d = GetEarnedFeesKey p' d' -> p = p' /\ d = d'.
Proof. intros p d p' d' Hl Hl'. apply K_inj_earned. congruence. Qed.

(* same provider: injective in the denom whatever the length (what the keeper's
   exact-key filter relies on) *)
Theorem K_inj_earned_same_provider : forall p d d',
  GetEarnedFeesKey p d = GetEarnedFeesKey p d' -> d = d'.
Proof.
  intros p d d' H. kred_in H. apply cons_eq_tail in H. apply app_inv_head in H. exact H.
Qed.

(* the owner-earnings key is the owner alone: injective in the owner, and (as generated:
   the parameter denom is unused) constant in the denom *)
Theorem K_inj_owner_earned : forall o d o' d',
  GetOwnerEarnedFeesKey o d = GetOwnerEarnedFeesKey o' d' -> o = o'.
Proof. intros o d o' d' H. kred_in H. apply cons_eq_tail in H. exact H. Qed.

Theorem K_owner_earned_ignores_denom : forall o d d',
  GetOwnerEarnedFeesKey o d = GetOwnerEarnedFeesKey o d'.
Proof. intros o d d'. reflexivity. Qed.

(* ------------------------------------------------------------------ *)
(* exactness of every prefix scan                                      *)

(* bindings of a service: IterateServiceBindings / ServiceBindingsIterator *)
Theorem K_scan_exact_bindings_by_service : forall sn sn' p',
  zero_free sn -> zero_free sn' ->
  (is_prefix (GetBindingsSubspace sn) (GetServiceBindingKey bech sn' p') <-> sn = sn').
Proof.
  intros sn sn' p' Hs Hs'. kred. rewrite prefix_cons_same, (sep_prefix _ _ _ _ Hs Hs').
  split; [intros [H _]; exact H | intros H; split; [exact H | apply is_prefix_nil]].
Qed.

(* bindings of an owner for a service: GetOwnerServiceBindings *)
Theorem K_scan_exact_bindings_by_owner_service : forall o sn o' sn' p',
  length o = length o' -> zero_free sn -> zero_free sn' ->
  (is_prefix (GetOwnerBindingsSubspace o sn) (GetOwnerServiceBindingKey o' sn' p')
   <-> o = o' /\ sn = sn').
Proof.
  intros o sn o' sn' p' Hl Hs Hs'. kred.
  rewrite prefix_cons_same, (len_prefix_app _ _ _ _ Hl), (sep_prefix _ _ _ _ Hs Hs').
  split; [intros [H1 [H2 _]]; split; assumption | intros [H1 H2]; repeat split; try assumption; apply is_prefix_nil].
Qed.

Corollary K_scan_exact_bindings_by_owner_service_20 : forall o sn o' sn' p',
  length o = 20 -> length o' = 20 -> zero_free sn -> zero_free sn' ->
  (is_prefix (GetOwnerBindingsSubspace o sn) (GetOwnerServiceBindingKey o' sn' p')
   <-> o = o' /\ sn = sn').
Proof. intros o sn o' sn' p' Hl Hl'. apply K_scan_exact_bindings_by_owner_service. congruence. Qed.

(* providers of an owner: OwnerProvidersIterator *)
Theorem K_scan_exact_owner_providers : forall o o' p',
  length o = length o' ->
  (is_prefix (GetOwnerProvidersSubspace o) (GetOwnerProviderKey o' p') <-> o = o').
Proof.
  intros o o' p' Hl. kred. rewrite prefix_cons_same. split.
  - apply len_prefix. exact Hl.
  - intros ->. apply is_prefix_app.
Qed.

Corollary K_scan_exact_owner_providers_20 : forall o o' p',
  length o = 20 -> length o' = 20 ->
  (is_prefix (GetOwnerProvidersSubspace o) (GetOwnerProviderKey o' p') <-> o = o').
Proof. intros o o' p' Hl Hl'. apply K_scan_exact_owner_providers. congruence. Qed.

(* queue entries by height: IterateExpiredRequestBatch / IterateNewRequestBatch *)
Theorem K_scan_exact_expired_batch_by_height : forall h c' h',
  is_int64 h -> is_int64 h' ->
  (is_prefix (GetExpiredRequestBatchSubspace h) (GetExpiredRequestBatchKey c' h') <-> h = h').
Proof.
  intros h c' h' Hh Hh'. kred. rewrite prefix_cons_same. split.
  - intros H. apply (len_prefix _ _ _ (be64_len_eq _ _)) in H. apply be64_u64_inj; assumption.
  - intros ->. apply is_prefix_app.
Qed.

Theorem K_scan_exact_new_batch_by_height : forall h c' h',
  is_int64 h -> is_int64 h' ->
  (is_prefix (GetNewRequestBatchSubspace h) (GetNewRequestBatchKey c' h') <-> h = h').
Proof.
  intros h c' h' Hh Hh'. kred. rewrite prefix_cons_same. split.
  - intros H. apply (len_prefix _ _ _ (be64_len_eq _ _)) in H. apply be64_u64_inj; assumption.
  - intros ->. apply is_prefix_app.
Qed.

(* context id ++ be64(batch) against a request id: the common part of the three
   context+batch scans *)
Lemma ctx_batch_prefix : forall c b c' b' h' i',
  length c = length c' -> is_uint64 b -> is_uint64 b' ->
  (is_prefix (c ++ be64 b) (gen_request_id c' b' h' i') <-> c = c' /\ b = b').
Proof.
  intros c b c' b' h' i' Hl Hb Hb'. rewrite reqid_shape, (len_prefix_app _ _ _ _ Hl). split.
  - intros [-> H]. apply (len_prefix _ _ _ (be64_len_eq _ _)) in H.
    split; [reflexivity | apply be64_inj; assumption].
  - intros [-> ->]. split; [reflexivity | apply is_prefix_app].
Qed.

(* requests of a batch: RequestsIteratorByReqCtx *)
Theorem K_scan_exact_requests_by_ctx_batch : forall c b c' b' h' i',
  length c = length c' -> is_uint64 b -> is_uint64 b' ->
  (is_prefix (GetRequestSubspaceByReqCtx c b) (GetRequestKey (gen_request_id c' b' h' i'))
   <-> c = c' /\ b = b').
Proof.
  intros c b c' b' h' i' Hl Hb Hb'. kred. rewrite prefix_cons_same. apply ctx_batch_prefix; assumption.
Qed.

(* active-request markers of a batch: ActiveRequestsIteratorByReqCtx *)
Theorem K_scan_exact_markers_by_ctx_batch : forall c b c' b' h' i',
  length c = length c' -> is_uint64 b -> is_uint64 b' ->
  (is_prefix (GetActiveRequestSubspaceByReqCtx c b) (GetActiveRequestKeyByID (gen_request_id c' b' h' i'))
   <-> c = c' /\ b = b').
Proof.
  intros c b c' b' h' i' Hl Hb Hb'. kred. rewrite prefix_cons_same. apply ctx_batch_prefix; assumption.
Qed.

(* responses of a batch: ResponsesIteratorByReqCtx *)
Theorem K_scan_exact_responses_by_ctx_batch : forall c b c' b' h' i',
  length c = length c' -> is_uint64 b -> is_uint64 b' ->
  (is_prefix (GetResponseSubspaceByReqCtx c b) (GetResponseKey (gen_request_id c' b' h' i'))
   <-> c = c' /\ b = b').
Proof.
  intros c b c' b' h' i' Hl Hb Hb'. kred. rewrite prefix_cons_same. apply ctx_batch_prefix; assumption.
Qed.

(* the same three for an arbitrary well-formed 58-byte id, in terms of what
   SplitRequestID returns for it; context ids of length 40 *)
Theorem K_scan_exact_by_ctx_batch_split : forall c b r c' b' h' i',
  length c = 40 -> is_uint64 b -> wf_bytes r -> split_request_id r = Some (c', b', h', i') ->
  (is_prefix (GetRequestSubspaceByReqCtx c b) (GetRequestKey r) <-> c = c' /\ b = b') /\
  (is_prefix (GetActiveRequestSubspaceByReqCtx c b) (GetActiveRequestKeyByID r) <-> c = c' /\ b = b') /\
  (is_prefix (GetResponseSubspaceByReqCtx c b) (GetResponseKey r) <-> c = c' /\ b = b').
Proof.
  intros c b r c' b' h' i' Hc Hb Hwf Hs.
  destruct (reqid_split_gen r c' b' h' i' Hwf Hs) as [<- [Hc' [Hb' _]]].
  assert (Hl : length c = length c') by congruence.
  split; [|split].
  - apply K_scan_exact_requests_by_ctx_batch; assumption.
  - apply K_scan_exact_markers_by_ctx_batch; assumption.
  - apply K_scan_exact_responses_by_ctx_batch; assumption.
Qed.

(* active-request markers of a binding: ActiveRequestsIterator *)
Theorem K_scan_exact_markers_by_binding : forall sn p sn' p' h' r',
  zero_free sn -> zero_free sn' ->
  (is_prefix (GetActiveRequestSubspace bech sn p) (GetActiveRequestKey bech sn' p' h' r')
   <-> sn = sn' /\ p = p').
Proof.
  intros sn p sn' p' h' r' Hs Hs'. kred.
  rewrite prefix_cons_same, (sep_prefix _ _ _ _ Hs Hs'),
    (sep_prefix _ _ _ _ (bech_zero_free p) (bech_zero_free p')).
  split.
  - intros [H1 [H2 _]]. split; [exact H1 | apply bech_inj; exact H2].
  - intros [-> ->]. repeat split. apply is_prefix_nil.
Qed.

(* earned fees of a provider, as GetEarnedFees / DeleteEarnedFees of keeper/fees.go read
   them: the record under key k = GetEarnedFeesKey p' d' (holding a coin of denom d') is
   taken iff k has the raw prefix AND k equals GetEarnedFeesKey p <its denom>.
   No condition on lengths. *)
Definition earned_scan_accepts (p p' d' : bytes) : Prop :=
  is_prefix (GetEarnedFeesSubspace p) (GetEarnedFeesKey p' d') /\
  GetEarnedFeesKey p' d' = GetEarnedFeesKey p d'.

Theorem K_scan_exact_earned : forall p p' d', earned_scan_accepts p p' d' <-> p = p'.
Proof.
  intros p p' d'. unfold earned_scan_accepts. split.
  - intros [_ H]. kred_in H. apply cons_eq_tail in H. apply app_inv_tail in H. symmetry. exact H.
  - intros ->. split; [kred; rewrite prefix_cons_same; apply is_prefix_app | reflexivity].
Qed.

(* ... and the raw prefix alone is exact only among providers of one length *)
Theorem K_scan_exact_earned_raw_same_length : forall p p' d',
  length p = length p' ->
  (is_prefix (GetEarnedFeesSubspace p) (GetEarnedFeesKey p' d') <-> p = p').
Proof.
  intros p p' d' Hl. kred. rewrite prefix_cons_same. split.
  - apply len_prefix. exact Hl.
  - intros ->. apply is_prefix_app.
Qed.

(* the raw prefix matches the records of every provider whose address extends p *)
Theorem K_earned_raw_prefix_matches_extensions : forall p x d,
  is_prefix (GetEarnedFeesSubspace p) (GetEarnedFeesKey (p ++ x) d).
Proof.
  intros p x d. kred. rewrite prefix_cons_same, <- app_assoc. apply is_prefix_app.
Qed.

(* owner earnings: GetOwnerEarnedFees / DeleteOwnerEarnedFees (no filter in the code) *)
Theorem K_scan_exact_owner_earned : forall o o' d',
  length o = length o' ->
  (is_prefix (GetOwnerEarnedFeesSubspace o) (GetOwnerEarnedFeesKey o' d') <-> o = o').
Proof.
  intros o o' d' Hl. kred. rewrite prefix_cons_same. split.
  - intros H. apply is_prefix_same_length; assumption.
  - intros ->. apply is_prefix_refl.
Qed.

Corollary K_scan_exact_owner_earned_20 : forall o o' d',
  length o = 20 -> length o' = 20 ->
  (is_prefix (GetOwnerEarnedFeesSubspace o) (GetOwnerEarnedFeesKey o' d') <-> o = o').
Proof. intros o o' d' Hl Hl'. apply K_scan_exact_owner_earned. congruence. Qed.

End K.

(* ------------------------------------------------------------------ *)
(* the side conditions are needed: concrete witnesses                  *)

(* The raw earned-fees prefix of a provider also matches the records of another provider:
   P' of 20 bytes and P = P'[:19] (the reason for the exact-key filter in keeper/fees.go). *)
Theorem K_earned_raw_prefix_refuted : exists p p' d',
  length p' = 20 /\ length p = 19 /\
  is_prefix (GetEarnedFeesSubspace p) (GetEarnedFeesKey p' d') /\ p <> p'.
Proof.
  exists (repeat 7%N 19), (repeat 7%N 20), [115%N].
  split; [reflexivity|]. split; [reflexivity|]. split.
  - exists [7%N; 115%N]. reflexivity.
  - intros H. apply (f_equal (@length byte)) in H. vm_compute in H. discriminate H.
Qed.

(* ... and the other way round for a 20-byte P: a 21-byte provider address is matched *)
Theorem K_earned_raw_prefix_refuted_20 : exists p p' d',
  length p = 20 /\
  is_prefix (GetEarnedFeesSubspace p) (GetEarnedFeesKey p' d') /\ p <> p'.
Proof.
  exists (repeat 7%N 20), (repeat 7%N 21), [115%N].
  split; [reflexivity|]. split.
  - exists [7%N; 115%N]. reflexivity.
  - intros H. apply (f_equal (@length byte)) in H. vm_compute in H. discriminate H.
Qed.

(* without equal provider lengths two different (provider, denom) pairs share one key *)
Theorem K_inj_earned_refuted : exists p d p' d',
  GetEarnedFeesKey p d = GetEarnedFeesKey p' d' /\ p <> p' /\ d <> d'.
Proof.
  exists [1%N], [97%N; 98%N], [1%N; 97%N], [98%N].
  split; [reflexivity|]. split; intros H; discriminate H.
Qed.

(* Owner-prefixed scans are not exact when owner addresses may differ in length:
   a 19-byte owner with the service "Ab" sees the binding of "b" of a 20-byte owner.
   All names are free of 0x00. *)
Theorem K_owner_scan_refuted : exists o sn o' sn' p',
  zero_free sn /\ zero_free sn' /\ length o' = 20 /\
  is_prefix (GetOwnerBindingsSubspace o sn) (GetOwnerServiceBindingKey o' sn' p') /\
  ~ (o = o' /\ sn = sn').
Proof.
  exists (repeat 65%N 19), [65%N; 98%N], (repeat 65%N 20), [98%N], [9%N].
  split; [|split; [|split; [|split]]].
  - intros [H|[H|[]]]; discriminate H.
  - intros [H|[]]; discriminate H.
  - reflexivity.
  - exists [9%N]. reflexivity.
  - intros [_ H]. discriminate H.
Qed.

Theorem K_owner_providers_scan_refuted : exists o o' p',
  length o' = 20 /\
  is_prefix (GetOwnerProvidersSubspace o) (GetOwnerProviderKey o' p') /\ o <> o'.
Proof.
  exists (repeat 65%N 19), (repeat 65%N 20), [9%N].
  split; [reflexivity|]. split.
  - exists [65%N; 9%N]. reflexivity.
  - intros H. apply (f_equal (@length byte)) in H. vm_compute in H. discriminate H.
Qed.

Theorem K_owner_earned_scan_refuted : exists o o' d',
  length o' = 20 /\
  is_prefix (GetOwnerEarnedFeesSubspace o) (GetOwnerEarnedFeesKey o' d') /\ o <> o'.
Proof.
  exists (repeat 65%N 19), (repeat 65%N 20), [115%N].
  split; [reflexivity|]. split.
  - exists [65%N]. reflexivity.
  - intros H. apply (f_equal (@length byte)) in H. vm_compute in H. discriminate H.
Qed.

(* ------------------------------------------------------------------ *)
(* the hypotheses on bech are satisfiable                              *)

Definition bech_example (a : bytes) : bytes := map N.succ a.

Example bech_hyps_satisfiable :
  (forall a b, bech_example a = bech_example b -> a = b) /\
  (forall a, zero_free (bech_example a)).
Proof.
  split.
  - induction a as [|x a IH]; intros [|y b] H; cbn [bech_example map] in H; try discriminate H.
    + reflexivity.
    + injection H as Hx Ht. apply N.succ_inj in Hx. subst y. rewrite (IH b Ht). reflexivity.
  - intros a. unfold zero_free, bech_example. rewrite in_map_iff. intros [x [Hx _]].
    apply (N.neq_succ_0 x). exact Hx.
Qed.

(* one theorem instantiated, to show the section closes as intended *)
Example K_inj_binding_instance : forall sn p sn' p',
  zero_free sn -> zero_free sn' ->
  GetServiceBindingKey bech_example sn p = GetServiceBindingKey bech_example sn' p' ->
  sn = sn' /\ p = p'.
Proof.
  apply (K_inj_binding bech_example); apply bech_hyps_satisfiable.
Qed.
