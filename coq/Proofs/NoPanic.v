(* Property C20, the "cannot crash" half.

   In the model every Go operation that can panic is an explicit [Panic] result:
     min_deposit      sdk.Int.Mul above 255 bits                (known finding K1)
     add_deposit_amt  sdk.Int.Add above 255 bits, the deposit top-up of Update / Enable
                                                                (known finding K6)
     add_earned_fee   provider without an owner record
     h_respond        slash / refund failing on the malformed-output path, context vanished
     h_withdraw       Coins.Sub going negative
   EndBlock returns no Res: expire_req drops the errors of slash and refund_fee (the Go code
   does [_ =]), and a Panic of slash inside EndBlock would crash the chain.

   Results (statements repeated in Properties/C20.v):
     C20_no_panic_msg       no message makes its handler panic in a state satisfying Inv,
                            under the exclusions X-K1 ([k1_op]) and X-K6 ([k6_op]) for that
                            one message
     C20_no_panic_reach     the same for every reachable state, as an Outcome of [step]
     C20_no_panic_reachK1   the same with X-K1 as a purely syntactic condition on the inputs
     C20_no_panic_reachK1S  the same with X-K6 also as a condition on the inputs ([k6_in]: the
                            top-up plus the supply of the genesis state fits 255 bits)
     C20_no_panic_run       no step of a whole history returns RPanic
     C20_expire_loop_clean, C20_no_panic_endblock
                            inside EndBlock slash is never Err / Panic and refund_fee never
                            fails: the dropped errors do not exist (needs NO exclusion)
     C20_end_block_strict, C20_handle_strict, C20_end_block_never_fails
                            the EndBlock that propagates every error instead of dropping it
                            returns Ok of exactly the state the model's EndBlock computes
     C20_K1_*_refuted       without X-K1 the message theorem is false (finding K1)
     C20_K6_*_refuted, h_*_k6_sharp
                            without X-K6 the message theorem is false (finding K6)
     C20_due_sorted_perm, C20_due_sorted, C20_due_canonical, C20_step_deterministic
   No panic path was found that Inv + X-K1 + X-K6 do not exclude.  The message theorem does not
   use wf_op (H-txid, X-K2 play no role in panics); it is kept in the statement because the
   invariant it assumes is only known for states reached through wf_op operations.

   The exclusion X-K1: why two forms.
   [k1_op cfg s o] is the weakest hypothesis under which the message theorem holds: it
   constrains only the ONE message being executed.  For Bind / Update it bounds the price the
   message carries; for Enable it bounds the STORED price of the binding, because an Update
   of a disabled binding stores any price without consulting getMinDeposit
   (Proofs/K1Enable.v), so the overflow can surface one message later.  No condition on the
   history is needed: a panicking message leaves no trace (step), and I_index keeps the bound
   for every AVAILABLE binding, which is all that Update-without-pricing, the slash of
   h_respond and the slash of EndBlock ever consult.
   [k1_in cfg o] is the purely syntactic form (Bind / Update only).  It is the natural reading
   of "X-K1 excludes inputs", but it must then hold along the whole history: [ReachK1] is
   reachability through such inputs, [I_k1] (every stored price is bounded) is its
   invariant, and I_k1 + k1_in give k1_op.  Both final theorems are stated; the first is the
   stronger one, the second has the hypothesis one can check on a message stream.

   The exclusion X-K6, likewise in two forms.
   [k6_op s o] constrains the ONE Update / Enable being executed: the deposit of the binding
   it names plus the top-up it carries is below 2^255.  It is the weakest such hypothesis
   ([h_update_k6_sharp], [h_enable_k6_sharp]: a message that reaches the Add and violates it
   panics), and it holds trivially for a message without a top-up ([k6_op_no_topup]).
   [k6_in S0 o] is the input form: the top-up plus S0 is below 2^255, where S0 is the supply
   of the genesis state.  It implies k6_op in every reachable state ([k6_in_op]) because a
   binding deposit is at most the Deposit account's balance (I_deposit), a balance is at most
   the supply (I_bank), and the supply never increases (Proofs/SupplyMono.v: only the burn of
   Slash writes it).  Unlike k1_in it is needed for the executed message only, not along the
   history: [ReachK1S cfg S0] is ReachK1 remembering the genesis supply, nothing more. *)
From Coq Require Import List ZArith Bool Lia Permutation Sorted.
From SVC Require Import Base.AMap Base.Res Base.Dec Model.Types Model.Pricing
  Model.Handlers Model.EndBlock Model.Step Proofs.Inv Proofs.Lemmas Proofs.InvWf
  Proofs.DecProofs Proofs.BankLemmas Proofs.ReqLemmas Proofs.PFrame Proofs.InvBank
  Proofs.InvEarn Proofs.InvEscrow Proofs.StepSpecs_earn Proofs.InvAll Proofs.ReachRun
  Proofs.K1Enable Proofs.InvSched Proofs.SupplyMono.
From SVC Require Proofs.QueryProofs.
Import ListNotations.
Open Scope Z_scope.
Open Scope res_scope.

(* ------------------------------------------------------------------ *)
(* X-K1 *)

Definition k1_bound (cfg : Params) (p : Pricing) : Prop :=
  pr_price p * p_multiple cfg < INT_LIMIT.

(* the exclusion for the message being executed *)
Definition k1_op (cfg : Params) (s : State) (o : Op) : Prop :=
  match o with
  | OBind _ _ _ (Some raw) _ _ _ => k1_bound cfg (parse_pricing raw)
  | OUpdate _ _ _ (Some (Some raw)) _ _ _ => k1_bound cfg (parse_pricing raw)
  | OEnable svc prov _ _ _ => k1_bound cfg (pricing_of s (svc, prov))
  | _ => True
  end.

(* the exclusion as a condition on inputs only *)
Definition k1_in (cfg : Params) (o : Op) : Prop :=
  match o with
  | OBind _ _ _ (Some raw) _ _ _ => k1_bound cfg (parse_pricing raw)
  | OUpdate _ _ _ (Some (Some raw)) _ _ _ => k1_bound cfg (parse_pricing raw)
  | _ => True
  end.

(* every stored price is within the limit *)
Definition I_k1 (cfg : Params) (s : State) : Prop :=
  forall k p, get k (pricing s) = Some p -> k1_bound cfg p.

Lemma min_deposit_no_panic cfg p : k1_bound cfg p -> min_deposit cfg p <> Panic.
Proof.
  unfold k1_bound. intros Hb. destruct (min_deposit_cases cfg p) as [[Hge _]|[_ ->]]; [lia|discriminate].
Qed.

Lemma k1_bound_zero cfg : k1_bound cfg zero_pricing.
Proof. unfold k1_bound. cbn [zero_pricing pr_price]. rewrite Z.mul_0_l. reflexivity. Qed.

Lemma I_k1_pricing_of cfg s k : I_k1 cfg s -> k1_bound cfg (pricing_of s k).
Proof.
  intros H. unfold pricing_of. destruct (get k (pricing s)) as [p|] eqn:E; [eauto|apply k1_bound_zero].
Qed.

Lemma k1_in_op cfg s o : I_k1 cfg s -> k1_in cfg o -> k1_op cfg s o.
Proof.
  intros HI Hk. destruct o; cbn [k1_op k1_in] in *; try exact Hk; try exact I.
  now apply I_k1_pricing_of.
Qed.

(* the bound that I_index keeps without any exclusion: available bindings *)
Definition avail_bound (cfg : Params) (s : State) : Prop :=
  forall k b, get k (binds s) = Some b -> b_avail b = true -> k1_bound cfg (pricing_of s k).

Lemma index_avail_bound cfg s : I_index cfg s -> avail_bound cfg s.
Proof.
  intros (I1 & _) k b G Hav. apply get_In in G. destruct (I1 _ _ G) as (_ & _ & _ & Gp & _ & _ & Hb).
  unfold pricing_of. rewrite Gp. exact (Hb Hav).
Qed.

Lemma Inv_avail_bound cfg s : Inv cfg s -> avail_bound cfg s.
Proof. intros H. apply index_avail_bound, H. Qed.

(* ------------------------------------------------------------------ *)
(* X-K6 *)

(* the exclusion for the message being executed: the deposit of the binding plus the top-up
   the message carries fits an sdk.Int.  It speaks about the top-up only when the message
   carries one that passes validateDeposit (one_base_coin), and about the binding only when
   it exists; an Update that also changes the qos adds to the same deposit. *)
Definition k6_op (s : State) (o : Op) : Prop :=
  match o with
  | OUpdate svc prov dep _ _ _ _ =>
      forall b a, get (svc, prov) (binds s) = Some b -> one_base_coin dep = Ok a ->
        b_deposit b + a < INT_LIMIT
  | OEnable svc prov dep _ _ =>
      forall b a, get (svc, prov) (binds s) = Some b -> one_base_coin dep = Ok a ->
        b_deposit b + a < INT_LIMIT
  | _ => True
  end.

(* the exclusion as a condition on the inputs and on the supply S0 of the genesis state:
   the top-up, added to everything that was ever minted, fits an sdk.Int *)
Definition k6_in (S0 : Z) (o : Op) : Prop :=
  match o with
  | OUpdate _ _ dep _ _ _ _ => forall a, one_base_coin dep = Ok a -> S0 + a < INT_LIMIT
  | OEnable _ _ dep _ _ => forall a, one_base_coin dep = Ok a -> S0 + a < INT_LIMIT
  | _ => True
  end.

Lemma one_base_coin_nonempty dep a : one_base_coin dep = Ok a -> coins_empty dep = false.
Proof. destruct dep; cbn; try discriminate. reflexivity. Qed.

(* a message without a top-up needs no exclusion *)
Lemma k6_op_no_topup s o :
  match o with
  | OUpdate _ _ dep _ _ _ _ => coins_empty dep = true
  | OEnable _ _ dep _ _ => coins_empty dep = true
  | _ => True
  end -> k6_op s o.
Proof.
  destruct o; cbn [k6_op]; try (intros; exact I);
    intros He b a _ Ha; apply one_base_coin_nonempty in Ha; congruence.
Qed.

Lemma k6_in_mono S S' o : S' <= S -> k6_in S o -> k6_in S' o.
Proof.
  intros Hle. destruct o; cbn [k6_in]; try (intros; exact I);
    intros H a Ha; specialize (H a Ha); lia.
Qed.

(* every binding deposit is backed by the supply (I_deposit, I_bank) ... *)
Lemma k6_sup_op cfg s o : BDM cfg s -> k6_in (supply s) o -> k6_op s o.
Proof.
  intros HB. destruct o; cbn [k6_op k6_in]; try (intros; exact I);
    intros H b a Gb Ha; specialize (H a Ha);
    pose proof (BDM_deposit_le_supply cfg s _ b HB Gb); lia.
Qed.

(* ... and the supply never exceeds that of the genesis state (SupplyMono.ReachS_supply_le) *)
Theorem k6_in_op cfg S0 s o : ReachS cfg S0 s -> k6_in S0 o -> k6_op s o.
Proof.
  intros Hr Hk. apply (k6_sup_op cfg).
  - apply Reach_BDM. eapply ReachS_Reach; eauto.
  - eapply k6_in_mono; [|exact Hk]. eapply ReachS_supply_le; eauto.
Qed.

(* ------------------------------------------------------------------ *)
(* taking apart  <monadic term> = Panic  (the goal is False) *)

Ltac np H :=
  repeat (match type of H with
  | guard _ _ = Panic =>
      let Hc := fresh "Hc" in apply guard_panic in H; destruct H as [Hc H]
  | bind (of_opt _) _ = Panic =>
      let a := fresh "a" in let Ha := fresh "Ha" in
      apply bind_panic in H; destruct H as [H|[a [Ha H]]];
      [exact (of_opt_not_panic _ H)|apply of_opt_ok in Ha]
  | of_opt _ = Panic => exact (of_opt_not_panic _ H)
  | Ok _ = Panic => discriminate H
  | Err = Panic => discriminate H
  end; cbv beta in H).

Lemma one_base_coin_no_panic c : one_base_coin c <> Panic.
Proof. destruct c; cbn; try discriminate. destruct (0 <? amt); discriminate. Qed.

Lemma opt_coin_no_panic (dep : Coins) :
  (if coins_empty dep then Ok 0 else one_base_coin dep) <> Panic.
Proof. destruct (coins_empty dep); [discriminate|apply one_base_coin_no_panic]. Qed.

(* binding.Deposit.Add(deposit...) *)
Lemma add_deposit_amt_cases cur dep :
  (exists a, one_base_coin dep = Ok a /\ cur + a < INT_LIMIT /\ add_deposit_amt cur dep = Ok a)
  \/ (exists a, one_base_coin dep = Ok a /\ INT_LIMIT <= cur + a /\ add_deposit_amt cur dep = Panic)
  \/ (one_base_coin dep = Err /\ add_deposit_amt cur dep = Err).
Proof.
  unfold add_deposit_amt. destruct (one_base_coin dep) as [a| |] eqn:E.
  - cbn [bind]. destruct (cur + a <? INT_LIMIT) eqn:El; b2p; [left|right; left]; exists a; auto.
  - right. right. auto.
  - exfalso. exact (one_base_coin_no_panic _ E).
Qed.

Lemma add_deposit_amt_no_panic cur dep :
  (forall a, one_base_coin dep = Ok a -> cur + a < INT_LIMIT) -> add_deposit_amt cur dep <> Panic.
Proof.
  intros Hk H. destruct (add_deposit_amt_cases cur dep) as [(a & _ & _ & E)|[(a & Ha & Hge & _)|(_ & E)]];
    try congruence. specialize (Hk a Ha). lia.
Qed.

Lemma opt_add_no_panic cur (dep : Coins) :
  (forall a, one_base_coin dep = Ok a -> cur + a < INT_LIMIT) ->
  (if coins_empty dep then Ok 0 else add_deposit_amt cur dep) <> Panic.
Proof. intros Hk. destruct (coins_empty dep); [discriminate|now apply add_deposit_amt_no_panic]. Qed.

Lemma pay_deposit_no_panic s k owner amt : pay_deposit s k owner amt <> Panic.
Proof. unfold pay_deposit. intros H. np H. Qed.

Lemma opt_pay_no_panic s k owner (dep : Coins) amt :
  (if coins_empty dep then Ok s else pay_deposit s k owner amt) <> Panic.
Proof. destruct (coins_empty dep); [discriminate|apply pay_deposit_no_panic]. Qed.

Lemma authorized_no_panic s c who : authorized s c who <> Panic.
Proof. unfold authorized. intros H. np H. Qed.

(* ------------------------------------------------------------------ *)
(* one lemma per handler *)

Lemma h_define_no_panic s svc content ok : h_define s svc content ok <> Panic.
Proof. unfold h_define. intros H. np H. destruct (get svc (defs s)); discriminate. Qed.

Lemma h_bind_no_panic cfg s svc prov dep pr qos owner ok :
  k1_op cfg s (OBind svc prov dep pr qos owner ok) ->
  h_bind cfg s svc prov dep pr qos owner ok <> Panic.
Proof.
  intros Hk H. unfold h_bind in H. np H.
  apply bind_panic in H. destruct H as [H|(amt & _ & H)]; [exact (one_base_coin_no_panic _ H)|].
  np H. subst pr. cbn [k1_op] in Hk.
  apply bind_panic in H. destruct H as [H|(md & _ & H)]; [exact (min_deposit_no_panic _ _ Hk H)|].
  np H.
  apply bind_panic in H. destruct H as [H|(s1 & _ & H)]; [exact (pay_deposit_no_panic _ _ _ _ H)|].
  sproj. destruct (get prov (owner_of s1)); discriminate.
Qed.

Lemma h_update_no_panic cfg s svc prov dep pr qos owner ok :
  avail_bound cfg s ->
  k1_op cfg s (OUpdate svc prov dep pr qos owner ok) ->
  k6_op s (OUpdate svc prov dep pr qos owner ok) ->
  h_update cfg s svc prov dep pr qos owner ok <> Panic.
Proof.
  intros Hav Hk Hk6 H. unfold h_update in H. np H. rename a into b, Ha into Gb.
  apply bind_panic in H. destruct H as [H|(amt & _ & H)].
  { revert H. apply opt_add_no_panic. intros a Ha. cbn [k6_op] in Hk6.
    specialize (Hk6 b a Gb Ha). destruct (qos =? 0); exact Hk6. }
  apply bind_panic in H. destruct H as [H|(newp & Hnewp & H)].
  { destruct pr as [[raw|]|]; try discriminate. np H. }
  apply bind_panic in H. destruct H as [H|(u & _ & H)].
  { destruct (b_avail b) eqn:Eav; [|discriminate].
    match type of H with (if true && ?u then _ else _) = _ => destruct u end; [|discriminate].
    cbn [andb] in H.
    apply bind_panic in H. destruct H as [H|(md & _ & H)]; [|np H].
    revert H. apply min_deposit_no_panic.
    destruct newp as [[raw p]|].
    - destruct pr as [[raw'|]|]; try discriminate. inv_ok Hnewp. cbn [k1_op] in Hk. congruence.
    - eapply Hav; eauto. }
  apply bind_panic in H. destruct H as [H|(s1 & _ & H)]; [exact (opt_pay_no_panic _ _ _ _ _ H)|].
  match type of H with (if ?u then _ else _) = _ => destruct u end; [|discriminate].
  destruct newp as [[raw p]|]; discriminate.
Qed.

Lemma h_disable_no_panic s svc prov owner ok : h_disable s svc prov owner ok <> Panic.
Proof. unfold h_disable. intros H. np H. Qed.

Lemma h_enable_no_panic cfg s svc prov dep owner ok :
  k1_op cfg s (OEnable svc prov dep owner ok) ->
  k6_op s (OEnable svc prov dep owner ok) ->
  h_enable cfg s svc prov dep owner ok <> Panic.
Proof.
  intros Hk Hk6 H. unfold h_enable in H. np H. cbn [k1_op] in Hk. rename a into b, Ha into Gb.
  apply bind_panic in H. destruct H as [H|(amt & _ & H)].
  { revert H. apply opt_add_no_panic. intros a Ha. exact (Hk6 b a Gb Ha). }
  apply bind_panic in H. destruct H as [H|(md & _ & H)]; [exact (min_deposit_no_panic _ _ Hk H)|].
  np H.
  apply bind_panic in H. destruct H as [H|(s1 & _ & H)]; [exact (opt_pay_no_panic _ _ _ _ _ H)|].
  discriminate.
Qed.

Lemma h_refund_deposit_no_panic cfg s svc prov owner ok :
  h_refund_deposit cfg s svc prov owner ok <> Panic.
Proof. unfold h_refund_deposit. intros H. np H. Qed.

Lemma h_set_withdraw_no_panic s owner addr ok : h_set_withdraw s owner addr ok <> Panic.
Proof. unfold h_set_withdraw. intros H. np H. Qed.

Lemma create_context_no_panic cfg s c svc provs cons input cap timeout super rep freq total thr md iok :
  create_context cfg s c svc provs cons input cap timeout super rep freq total thr md iok <> Panic.
Proof.
  unfold create_context. intros H. np H.
  apply bind_panic in H. destruct H as [H|(capv & _ & H)]; [exact (one_base_coin_no_panic _ H)|].
  np H.
Qed.

Lemma h_call_no_panic cfg s c svc provs cons input cap timeout super rep freq total iok ok :
  h_call cfg s c svc provs cons input cap timeout super rep freq total iok ok <> Panic.
Proof. unfold h_call. intros H. np H. exact (create_context_no_panic _ _ _ _ _ _ _ _ _ _ _ _ _ _ _ _ H). Qed.

Lemma h_pause_no_panic s c who ok : h_pause s c who ok <> Panic.
Proof.
  unfold h_pause. intros H. np H.
  apply bind_panic in H. destruct H as [H|(rc & _ & H)]; [exact (authorized_no_panic _ _ _ H)|]. np H.
Qed.

Lemma h_start_no_panic s c who ok : h_start s c who ok <> Panic.
Proof.
  unfold h_start. intros H. np H.
  apply bind_panic in H. destruct H as [H|(rc & _ & H)]; [exact (authorized_no_panic _ _ _ H)|]. np H.
  match type of H with (if ?u then _ else _) = _ => destruct u end; discriminate.
Qed.

Lemma h_kill_no_panic s c who ok : h_kill s c who ok <> Panic.
Proof.
  unfold h_kill. intros H. np H.
  apply bind_panic in H. destruct H as [H|(rc & _ & H)]; [exact (authorized_no_panic _ _ _ H)|]. np H.
Qed.

Lemma update_ctx_tail_no_panic cfg s c rc provs cap timeout freq total :
  update_ctx_tail cfg s c rc provs cap timeout freq total <> Panic.
Proof.
  unfold update_ctx_tail. intros H.
  apply bind_panic in H. destruct H as [H|(rc1 & _ & H)].
  { destruct (coins_empty cap); [discriminate|].
    apply bind_panic in H. destruct H as [H|(capv & _ & H)]; [exact (one_base_coin_no_panic _ H)|discriminate]. }
  np H.
Qed.

Lemma h_update_ctx_no_panic cfg s c who provs cap timeout freq total ok :
  h_update_ctx cfg s c who provs cap timeout freq total ok <> Panic.
Proof.
  unfold h_update_ctx. intros H. np H.
  apply bind_panic in H. destruct H as [H|(rc & _ & H)]; [exact (authorized_no_panic _ _ _ H)|]. np H.
  exact (update_ctx_tail_no_panic _ _ _ _ _ _ _ _ _ H).
Qed.

(* the keeper API driven by the owning module *)
Lemma authorized_mod_no_panic s c who : authorized_mod s c who <> Panic.
Proof. unfold authorized_mod. intros H. np H. Qed.

Lemma h_mod_pause_no_panic s c who : h_mod_pause s c who <> Panic.
Proof.
  unfold h_mod_pause. intros H.
  apply bind_panic in H. destruct H as [H|(rc & _ & H)]; [exact (authorized_mod_no_panic _ _ _ H)|]. np H.
Qed.

Lemma h_mod_start_no_panic s c who : h_mod_start s c who <> Panic.
Proof.
  unfold h_mod_start. intros H.
  apply bind_panic in H. destruct H as [H|(rc & _ & H)]; [exact (authorized_mod_no_panic _ _ _ H)|]. np H.
  match type of H with (if ?u then _ else _) = _ => destruct u end; discriminate.
Qed.

Lemma h_mod_kill_no_panic s c who : h_mod_kill s c who <> Panic.
Proof.
  unfold h_mod_kill. intros H.
  apply bind_panic in H. destruct H as [H|(rc & _ & H)]; [exact (authorized_mod_no_panic _ _ _ H)|]. np H.
Qed.

Lemma h_mod_update_no_panic cfg s c who provs thr cap timeout freq total :
  h_mod_update cfg s c who provs thr cap timeout freq total <> Panic.
Proof.
  unfold h_mod_update. intros H.
  apply bind_panic in H. destruct H as [H|(rc & _ & H)]; [exact (authorized_mod_no_panic _ _ _ H)|]. np H.
  apply bind_panic in H. destruct H as [H|(rc0 & _ & H)].
  { destruct (c_mod rc =? 0); [discriminate|]. np H. unfold thr_update in H. np H. }
  exact (update_ctx_tail_no_panic _ _ _ _ _ _ _ _ _ H).
Qed.

Lemma h_transfer_no_panic s from to amt : h_transfer s from to amt <> Panic.
Proof. unfold h_transfer. intros H. np H. Qed.

(* ------------------------------------------------------------------ *)
(* slash + refund: the settlement shared by the malformed-output path of h_respond and by
   the expiry loop of EndBlock *)

Lemma transfer_some_intro a b amt s :
  0 <= amt <= bal s a -> exists s1, transfer a b amt s = Some s1.
Proof.
  intros [H0 H1]. unfold transfer.
  assert (E : (amt <? 0) || (bal s a <? amt) = false) by (apply orb_false_intro; apply Z.ltb_ge; lia).
  rewrite E. eauto.
Qed.

Lemma refund_fee_some s r cons fee :
  0 <= fee <= bal s Escrow -> exists sb, refund_fee s r cons fee = Some sb.
Proof.
  intros Hf. unfold refund_fee.
  destruct (transfer_some_intro Escrow (User cons) fee s Hf) as (s1 & ->). eauto.
Qed.

(* the escrow account covers the fee of every active request *)
Lemma J_fee_covered s r q :
  J s -> get r (reqs s) = Some q -> r_active q = true -> 0 <= r_fee q <= bal s Escrow.
Proof.
  intros (_ & _ & He & Hf & Hea & _) G Hact.
  pose proof (fee_active_le_sum s r q Hf G) as Hle. unfold fee_active at 1 in Hle. rewrite Hact in Hle.
  assert (0 <= msum vid (earned s)) by (apply msum_nonneg; exact Hea).
  assert (0 <= r_fee q) by (apply (Hf r), get_In, G).
  unfold I_escrow in He. lia.
Qed.

Lemma has_get {K V} `{EqDec K} (k : K) (m : amap K V) : has k m = true -> exists v, get k m = Some v.
Proof. unfold has. destruct (get k m); [eauto|discriminate]. Qed.

Lemma settle_clean cfg s r q rc :
  0 <= p_slash cfg <= ONE -> BDM cfg s -> J s -> avail_bound cfg s ->
  get r (reqs s) = Some q -> r_active q = true -> get (rid_ctx r) (ctxs s) = Some rc ->
  has (c_svc rc, r_prov q) (binds s) = true ->
  exists sa sb, slash cfg s r = Ok sa /\ refund_fee sa r (c_cons rc) (r_fee q) = Some sb.
Proof.
  intros Hsl HB HJ Hav Gq Hact Grc Hb.
  destruct (has_get _ _ Hb) as (b & Gb).
  destruct (slash_ok cfg s r q rc b Hsl Gq Grc Gb) as (sa & Es).
  - eapply BDM_dep_nonneg; eauto.
  - eapply BDM_dep_le_custody; eauto.
  - intros Eav. eapply Hav; eauto.
  - pose proof (J_fee_covered s r q HJ Gq Hact) as Hfee.
    assert (Hbal : bal sa Escrow = bal s Escrow) by (apply (slash_bal _ _ _ _ Escrow Es); discriminate).
    destruct (refund_fee_some sa r (c_cons rc) (r_fee q)) as (sb & Er); [lia|].
    exists sa, sb. auto.
Qed.

Lemma wf_cfg_slash cfg : wf_cfg cfg -> 0 <= p_slash cfg <= ONE.
Proof. intros H. apply H. Qed.

(* ------------------------------------------------------------------ *)
(* h_respond *)

Lemma resp_mid_ctxs s1 r who rc0 code out : ctxs (resp_mid s1 r who rc0 code out) = ctxs s1.
Proof. unfold resp_mid, deactivate. sproj. destruct (get r _); reflexivity. Qed.

Lemma h_respond_no_panic cfg s r who code out out_valid ok :
  wf_cfg cfg -> Inv cfg s -> h_respond cfg s r who code out out_valid ok <> Panic.
Proof.
  intros Hcfg HI H. unfold h_respond in H. np H.
  rename a into q, a0 into rc0, Ha into Gq, Ha0 into Grc.
  match goal with Hw : (who =? r_prov q) = true |- _ => apply Z.eqb_eq in Hw; subst who end.
  match goal with Hw : r_active q = true |- _ => rename Hw into Hact end.
  destruct (inv_req _ _ HI) as (R1 & _).
  destruct (R1 _ _ (get_In _ _ _ Gq)) as (rc' & Grc' & _ & _ & _ & _ & _ & _ & Hbind & _).
  assert (rc' = rc0) by congruence. subst rc'.
  apply bind_panic in H. destruct H as [H|(s1 & Hs1 & H)].
  - destruct (negb (out =? 0) && negb out_valid).
    + destruct (settle_clean cfg s r q rc0) as (sa & sb & Es & Er); try assumption.
      * now apply wf_cfg_slash.
      * now apply Inv_BDM.
      * now apply (Inv_J cfg).
      * now apply Inv_avail_bound.
      * rewrite Es, Er in H. discriminate.
    + exact (proj1 (C13_add_earned_no_panic cfg s r q Hcfg HI Gq) H).
  - assert (Ec : ctxs s1 = ctxs s).
    { destruct (negb (out =? 0) && negb out_valid).
      - destruct (slash cfg s r) as [sa| |] eqn:Es; try discriminate.
        destruct (refund_fee sa r (c_cons rc0) (r_fee q)) as [sb|] eqn:Er; try discriminate.
        inv_ok Hs1. subst sb.
        pose proof (slash_core _ _ _ _ Es) as (_ & _ & C3 & _).
        pose proof (refund_core _ _ _ _ _ Er) as (_ & _ & D3 & _). congruence.
      - apply add_earned_shape in Hs1. destruct Hs1 as (o & s0 & _ & _ & _ & ->). reflexivity. }
    fold (resp_mid s1 r (r_prov q) rc0 code out) in H.
    rewrite resp_mid_ctxs, Ec, Grc in H.
    match type of H with (if ?u then _ else _) = _ => destruct u end; [|discriminate].
    destruct (complete_batch _ _ _); discriminate.
Qed.

(* ------------------------------------------------------------------ *)
(* every message *)

Theorem C20_no_panic_msg cfg s o :
  wf_cfg cfg -> Inv cfg s -> wf_op s o -> k1_op cfg s o -> k6_op s o -> handle cfg s o <> Panic.
Proof.
  intros Hcfg HI _ Hk Hk6. destruct o; cbn [handle].
  - apply h_define_no_panic.
  - now apply h_bind_no_panic.
  - apply h_update_no_panic; [now apply Inv_avail_bound|assumption|assumption].
  - apply h_disable_no_panic.
  - now apply h_enable_no_panic.
  - apply h_refund_deposit_no_panic.
  - apply h_set_withdraw_no_panic.
  - apply h_call_no_panic.
  - apply create_context_no_panic.
  - now apply h_respond_no_panic.
  - apply h_pause_no_panic.
  - apply h_start_no_panic.
  - apply h_kill_no_panic.
  - apply h_update_ctx_no_panic.
  - now apply (C13_withdraw_no_panic cfg).
  - apply h_transfer_no_panic.
  - discriminate.
  - apply h_mod_update_no_panic.
  - apply h_mod_pause_no_panic.
  - apply h_mod_start_no_panic.
  - apply h_mod_kill_no_panic.
Qed.

Lemma step_outcome cfg s o : snd (step cfg s o) = RPanic <-> handle cfg s o = Panic.
Proof. unfold step. destruct (handle cfg s o); cbn [snd]; split; congruence. Qed.

Theorem C20_no_panic_reach cfg s o :
  wf_cfg cfg -> Reach cfg s -> wf_op s o -> k1_op cfg s o -> k6_op s o ->
  snd (step cfg s o) <> RPanic.
Proof.
  intros Hcfg Hr Ho Hk Hk6. rewrite step_outcome.
  apply C20_no_panic_msg; try assumption. now apply Reach_Inv.
Qed.

(* the only messages that need an exclusion: Bind, Enable, and an Update that carries a
   pricing (X-K1) or a deposit top-up (X-K6) *)
Corollary C20_no_panic_no_pricing cfg s o :
  wf_cfg cfg -> Reach cfg s -> wf_op s o ->
  match o with
  | OBind _ _ _ _ _ _ _ | OUpdate _ _ _ (Some _) _ _ _ | OEnable _ _ _ _ _ => False
  | OUpdate _ _ dep None _ _ _ => coins_empty dep = true
  | _ => True
  end ->
  snd (step cfg s o) <> RPanic.
Proof.
  intros Hcfg Hr Ho Hk. apply C20_no_panic_reach; try assumption.
  - destruct o; try exact I; try contradiction. destruct pr; [contradiction|exact I].
  - apply k6_op_no_topup. destruct o; try exact I; try contradiction.
    destruct pr; [contradiction|exact Hk].
Qed.

(* Enable without a top-up needs X-K1 only; Update / Enable with a top-up and an acceptable
   price need X-K6 only *)
Corollary C20_no_panic_no_topup cfg s o :
  wf_cfg cfg -> Reach cfg s -> wf_op s o -> k1_op cfg s o ->
  match o with
  | OUpdate _ _ dep _ _ _ _ => coins_empty dep = true
  | OEnable _ _ dep _ _ => coins_empty dep = true
  | _ => True
  end ->
  snd (step cfg s o) <> RPanic.
Proof.
  intros Hcfg Hr Ho Hk He. apply C20_no_panic_reach; try assumption. now apply k6_op_no_topup.
Qed.

(* ------------------------------------------------------------------ *)
(* X-K1 as a condition on inputs: I_k1 and ReachK1 *)

Lemma I_k1_frame cfg s s' : pricing s' = pricing s -> I_k1 cfg s -> I_k1 cfg s'.
Proof. unfold I_k1. intros ->. auto. Qed.

Lemma I_k1_init cfg h0 t0 f : I_k1 cfg (init h0 t0 f).
Proof. intros k p G. discriminate G. Qed.

Lemma I_k1_set cfg s s' k p :
  pricing s' = set k p (pricing s) -> k1_bound cfg p -> I_k1 cfg s -> I_k1 cfg s'.
Proof.
  intros E Hp HI k' p' G. rewrite E, get_set in G.
  destruct (eqb k' k); [injection G as <-; exact Hp|eauto].
Qed.

Lemma I_k1_msg cfg s o s' :
  handle cfg s o = Ok s' -> k1_in cfg o -> I_k1 cfg s -> I_k1 cfg s'.
Proof.
  intros H Hk HI. destruct (static_op o) eqn:Hst.
  { apply (I_k1_frame cfg s); [|assumption]. apply (sframe_msg _ _ _ _ H Hst). }
  destruct o; try discriminate; cbn [handle] in H.
  - apply define_inv in H. destruct H as (_ & _ & ->). exact HI.
  - unfold h_bind in H. inv_ok H. sproj. subst pr. cbn [k1_in] in Hk.
    match goal with Hp : pay_deposit _ _ _ _ = Ok ?x |- _ =>
      pose proof (pay_deposit_frame _ _ _ _ _ Hp) as (_ & _ & Ep & _) end.
    eapply (I_k1_set cfg s s' (svc, prov)); [|exact Hk|exact HI].
    match type of H with match ?g with _ => _ end = _ => destruct g end;
      inv_ok H; subst s'; sproj; now rewrite Ep.
  - unfold h_update in H. inv_ok H.
    rename a1 into newp, a3 into s1, Ha1 into Hnewp, Ha3 into Hpay.
    pose proof (opt_pay_frame _ _ _ _ _ _ Hpay) as (_ & _ & Ep & _).
    match type of H with (if ?u then _ else _) = _ => destruct u end.
    2:{ inv_ok H. subst s'. now apply (I_k1_frame cfg s). }
    destruct newp as [[raw p]|]; inv_ok H; subst s'.
    + destruct pr as [[raw'|]|]; inv_ok Hnewp; try discriminate. subst raw' p.
      cbn [k1_in] in Hk.
      eapply (I_k1_set cfg s _ (svc, prov)); [|exact Hk|exact HI]. sproj. now rewrite Ep.
    + apply (I_k1_frame cfg s); [|assumption]. sproj. exact Ep.
  - apply enable_inv in H. destruct H as (b & amt & md & H).
    apply (I_k1_frame cfg s); [|assumption]. tauto.
  - apply setwd_inv in H. destruct H as (_ & ->). exact HI.
Qed.

Lemma I_k1_step cfg s o : k1_in cfg o -> I_k1 cfg s -> I_k1 cfg (fst (step cfg s o)).
Proof.
  intros Hk HI. unfold step. destruct (handle cfg s o) as [s'| |] eqn:E; cbn [fst]; try assumption.
  eapply I_k1_msg; eauto.
Qed.

Inductive ReachK1 (cfg : Params) : State -> Prop :=
| ReachK1_init h0 t0 f : 1 <= h0 -> 0 <= t0 -> wf_funding f -> ReachK1 cfg (init h0 t0 f)
| ReachK1_step s o : ReachK1 cfg s -> wf_op s o -> k1_in cfg o -> ReachK1 cfg (fst (step cfg s o)).

Lemma ReachK1_Reach cfg s : ReachK1 cfg s -> Reach cfg s.
Proof. induction 1; [now apply Reach_init|now apply Reach_step]. Qed.

Lemma ReachK1_I_k1 cfg s : ReachK1 cfg s -> I_k1 cfg s.
Proof. induction 1; [apply I_k1_init|now apply I_k1_step]. Qed.

Theorem C20_no_panic_reachK1 cfg s o :
  wf_cfg cfg -> ReachK1 cfg s -> wf_op s o -> k1_in cfg o -> k6_op s o ->
  snd (step cfg s o) <> RPanic.
Proof.
  intros Hcfg Hr Ho Hk Hk6. apply C20_no_panic_reach; try assumption.
  - now apply ReachK1_Reach.
  - apply k1_in_op; [now apply ReachK1_I_k1|assumption].
Qed.

(* X-K1 and X-K6 both as conditions on inputs: ReachK1 that remembers the supply S0 of the
   genesis state.  X-K6 need not hold along the history (a panicking message leaves no trace
   and the bound on the deposits comes from Inv and the monotonicity of the supply), only
   for the message being executed. *)
Inductive ReachK1S (cfg : Params) (S0 : Z) : State -> Prop :=
| ReachK1S_init h0 t0 f : 1 <= h0 -> 0 <= t0 -> wf_funding f -> supply (init h0 t0 f) = S0 ->
    ReachK1S cfg S0 (init h0 t0 f)
| ReachK1S_step s o : ReachK1S cfg S0 s -> wf_op s o -> k1_in cfg o ->
    ReachK1S cfg S0 (fst (step cfg s o)).

Lemma ReachK1S_ReachK1 cfg S0 s : ReachK1S cfg S0 s -> ReachK1 cfg s.
Proof. induction 1; [now apply ReachK1_init|now apply ReachK1_step]. Qed.

Lemma ReachK1S_ReachS cfg S0 s : ReachK1S cfg S0 s -> ReachS cfg S0 s.
Proof. induction 1; [now apply ReachS_init|now apply ReachS_step]. Qed.

Lemma ReachK1_ReachK1S cfg s : ReachK1 cfg s -> exists S0, ReachK1S cfg S0 s.
Proof.
  induction 1 as [h0 t0 f H1 H2 H3|s o _ [S0 IH] Ho Hk].
  - exists (supply (init h0 t0 f)). now apply ReachK1S_init.
  - exists S0. now apply ReachK1S_step.
Qed.

Lemma ReachK1S_supply_le cfg S0 s : ReachK1S cfg S0 s -> supply s <= S0.
Proof. intros H. eapply ReachS_supply_le, ReachK1S_ReachS, H. Qed.

Theorem C20_no_panic_reachK1S cfg S0 s o :
  wf_cfg cfg -> ReachK1S cfg S0 s -> wf_op s o -> k1_in cfg o -> k6_in S0 o ->
  snd (step cfg s o) <> RPanic.
Proof.
  intros Hcfg Hr Ho Hk Hk6. apply C20_no_panic_reachK1; try assumption.
  - eapply ReachK1S_ReachK1; eauto.
  - apply (k6_in_op cfg S0); [now apply ReachK1S_ReachS|assumption].
Qed.

(* a whole history: the outcomes of its steps *)
Fixpoint outcomes (cfg : Params) (s : State) (ops : list Op) : list Outcome :=
  match ops with
  | [] => []
  | o :: t => snd (step cfg s o) :: outcomes cfg (fst (step cfg s o)) t
  end.

(* the side conditions collected along the run (cf. wf_run of Proofs/ReachRun.v) *)
Fixpoint k1_run (cfg : Params) (s : State) (ops : list Op) : Prop :=
  match ops with
  | [] => True
  | o :: t => wf_op s o /\ k1_in cfg o /\ k1_run cfg (fst (step cfg s o)) t
  end.

Lemma ReachK1_run cfg s ops : ReachK1 cfg s -> k1_run cfg s ops -> ReachK1 cfg (run cfg s ops).
Proof.
  revert s. induction ops as [|o t IH]; intros s Hr Hk; [exact Hr|].
  destruct Hk as (Ho & Hko & Ht). unfold run. cbn [fold_left].
  apply IH; [now apply ReachK1_step|exact Ht].
Qed.

(* the same with the input form of X-K6 for every message of the history; S0 is the supply of
   the genesis state *)
Fixpoint k16_run (cfg : Params) (S0 : Z) (s : State) (ops : list Op) : Prop :=
  match ops with
  | [] => True
  | o :: t => wf_op s o /\ k1_in cfg o /\ k6_in S0 o /\ k16_run cfg S0 (fst (step cfg s o)) t
  end.

Lemma k16_run_k1_run cfg S0 s ops : k16_run cfg S0 s ops -> k1_run cfg s ops.
Proof.
  revert s. induction ops as [|o t IH]; intros s H; [exact I|].
  destruct H as (Ho & Hk & _ & Ht). cbn [k1_run]. auto.
Qed.

Theorem C20_no_panic_run cfg S0 s ops :
  wf_cfg cfg -> ReachK1S cfg S0 s -> k16_run cfg S0 s ops ->
  ~ In RPanic (outcomes cfg s ops) /\ ReachK1S cfg S0 (run cfg s ops).
Proof.
  intros Hcfg. revert s. induction ops as [|o t IH]; intros s Hr Hk; cbn [outcomes In].
  - split; [tauto|exact Hr].
  - destruct Hk as (Ho & Hko & Hk6 & Ht).
    destruct (IH (fst (step cfg s o))) as (IH1 & IH2); [now apply ReachK1S_step|exact Ht|].
    split; [|exact IH2]. intros [E|Hin]; [|contradiction].
    exact (C20_no_panic_reachK1S cfg S0 s o Hcfg Hr Ho Hko Hk6 E).
Qed.

(* ------------------------------------------------------------------ *)
(* EndBlock: the expiry loop drops no error and cannot panic.

   expire_req cfg s r  =  (for a stored request r of a stored context rc)
       emit (EvExpire r) (deactivate s1 r)   where, unless rc is in super mode,
       s1 = let sa := match slash cfg s r with Ok x => x | _ => s end in
            match refund_fee sa r (c_cons rc) (r_fee q) with Some x => x | None => sa end
   [expire_req_clean] says that the request and its context are found and that both matches
   take their first branch.  The new-batch phase (new_one) calls nothing that returns a Res:
   its only fallible call is the consumer's payment, whose failure is handled (the context
   is paused), not dropped. *)

Definition expire_req_clean (cfg : Params) (s : State) (r : ReqId) : Prop :=
  exists q rc,
    get r (reqs s) = Some q /\ r_active q = true /\ get (rid_ctx r) (ctxs s) = Some rc
    /\ (c_super rc = false ->
        exists sa sb, slash cfg s r = Ok sa /\ refund_fee sa r (c_cons rc) (r_fee q) = Some sb).

(* every iteration of  fold_left (expire_req cfg) l s  is clean, each in the state it runs in *)
Fixpoint expire_loop_clean (cfg : Params) (l : list ReqId) (s : State) : Prop :=
  match l with
  | [] => True
  | r :: t => expire_req_clean cfg s r /\ expire_loop_clean cfg t (expire_req cfg s r)
  end.

Lemma expire_loop_clean_split cfg l1 r l2 s :
  expire_loop_clean cfg (l1 ++ r :: l2) s ->
  expire_req_clean cfg (fold_left (expire_req cfg) l1 s) r.
Proof.
  revert s. induction l1 as [|a l1 IH]; intros s H; cbn [app expire_loop_clean fold_left] in *.
  - apply H.
  - apply IH, H.
Qed.

(* what a clean iteration computes: nothing is skipped *)
Lemma expire_req_clean_eq cfg s r :
  expire_req_clean cfg s r ->
  exists q rc, get r (reqs s) = Some q /\ get (rid_ctx r) (ctxs s) = Some rc
    /\ ((c_super rc = true /\ expire_req cfg s r = emit (EvExpire r) (deactivate s r))
        \/ (c_super rc = false /\ exists sa sb,
              slash cfg s r = Ok sa /\ refund_fee sa r (c_cons rc) (r_fee q) = Some sb
              /\ expire_req cfg s r = emit (EvExpire r) (deactivate sb r))).
Proof.
  intros (q & rc & Gq & _ & Grc & Hc). exists q, rc. split; [assumption|]. split; [assumption|].
  unfold expire_req. rewrite Gq, Grc.
  destruct (c_super rc) eqn:Es; [left; auto|right]. split; [reflexivity|].
  destruct (Hc eq_refl) as (sa & sb & E1 & E2). exists sa, sb. rewrite E1, E2. auto.
Qed.

(* the invariant of the inner loop: the deposit side (BDM), the escrow side (J), the price
   bound of the available bindings, and the records of the requests still to be processed *)
Definition loop_inv (cfg : Params) (s : State) (l : list ReqId) : Prop :=
  BDM cfg s /\ J s /\ avail_bound cfg s
  /\ forall r, In r l -> exists q rc,
       get r (reqs s) = Some q /\ r_active q = true /\ get (rid_ctx r) (ctxs s) = Some rc
       /\ has (c_svc rc, r_prov q) (binds s) = true /\ (c_super rc = true -> r_fee q = 0).

(* a binding may become unavailable inside the loop, never the reverse; prices do not move *)
Lemma avail_bound_sframe cfg s s' : sframe s s' -> avail_bound cfg s -> avail_bound cfg s'.
Proof.
  intros F Hav k b' G Eav.
  destruct (bsim_get_rev _ _ _ _ (sf_binds _ _ F) G) as (b & Gb & _ & _ & Ha & _).
  rewrite (pricing_of_same s s') by apply F. eapply Hav; eauto.
Qed.

Lemma loop_inv_step cfg s a l :
  0 <= p_slash cfg <= ONE -> NoDup (a :: l) -> loop_inv cfg s (a :: l) ->
  expire_req_clean cfg s a /\ loop_inv cfg (expire_req cfg s a) l.
Proof.
  intros Hsl Hn (HB & HJ & Hav & Hl).
  inversion Hn as [|? ? Hni Hn']; subst.
  destruct (Hl a (or_introl eq_refl)) as (q & rc & Gq & Hact & Grc & Hb & Hs).
  split.
  - exists q, rc. repeat split; try assumption. intros _. now apply settle_clean.
  - pose proof (ff_expire_req cfg s a) as [F _].
    split; [now apply BDM_expire_req|]. split; [eapply expire_req_J; eauto|].
    split; [now apply (avail_bound_sframe cfg s)|].
    intros r Hr. destruct (Hl r (or_intror Hr)) as (q' & rc' & Gq' & Hact' & Grc' & Hb' & Hs').
    exists q', rc'. pose proof (expire_req_core cfg s a) as (_ & C2 & _). rewrite C2.
    rewrite expire_req_reqs, Gq, Grc. rewrite get_set_neq by (intros ->; contradiction).
    rewrite (bsim_has _ _ _ (sf_binds _ _ F)). auto.
Qed.

Lemma loop_inv_clean cfg l s :
  0 <= p_slash cfg <= ONE -> NoDup l -> loop_inv cfg s l -> expire_loop_clean cfg l s.
Proof.
  intros Hsl. revert s. induction l as [|a l IH]; intros s Hn HL; cbn [expire_loop_clean]; [exact I|].
  destruct (loop_inv_step cfg s a l Hsl Hn HL) as (Hc & HL').
  split; [exact Hc|]. apply IH; [now inversion Hn|exact HL'].
Qed.

Lemma Inv_loop_inv cfg s c n : Inv cfg s -> loop_inv cfg s (active_rids s c n).
Proof.
  intros HI. split; [now apply Inv_BDM|]. split; [now apply (Inv_J cfg)|].
  split; [now apply Inv_avail_bound|].
  assert (Hwr : wf (reqs s)) by apply (inv_wf _ _ HI).
  intros r Hr. apply In_active_rids in Hr; [|assumption].
  destruct Hr as (q & G & _ & _ & Ha). exists q.
  destruct (inv_req _ _ HI) as (R1 & _).
  destruct (R1 _ _ (get_In _ _ _ G)) as (rc & Grc & _ & _ & _ & _ & _ & _ & Hb & Hs).
  exists rc. auto.
Qed.

(* the expiry loop of any batch of any context, started from a state satisfying Inv *)
Theorem C20_expire_loop_clean cfg s c n :
  wf_cfg cfg -> Inv cfg s -> expire_loop_clean cfg (active_rids s c n) s.
Proof.
  intros Hcfg HI. apply loop_inv_clean.
  - now apply wf_cfg_slash.
  - apply NoDup_active_rids, (inv_wf _ _ HI).
  - now apply Inv_loop_inv.
Qed.

(* the loop that expire_one runs for c is exactly this one *)
Lemma expire_one_loop cfg s c :
  c_bdone (ctx_or_zero s c) = false ->
  exists s1 rc1,
    complete_batch (fold_left (expire_req cfg) (active_rids s c (c_counter (ctx_or_zero s c))) s)
      c (ctx_or_zero s c) = (s1, rc1)
    /\ expire_one cfg s c =
       clean_batch
         (match c_state rc1 with
          | Completed => del_ctx (put_ctx (del_expq s1 c (height s)) c rc1) c
          | Running =>
              if c_rep rc1 && ((c_total rc1 <? 0) || (c_counter rc1 <? c_total rc1))
              then add_newq (put_ctx (del_expq s1 c (height s)) c rc1) c
                     (wrap_i64 (height s - c_timeout rc1 + to_i64 (c_freq rc1)))
              else del_ctx (put_ctx (del_expq s1 c (height s)) c rc1) c
          | Paused => put_ctx (del_expq s1 c (height s)) c rc1
          end) c (c_counter rc1).
Proof.
  intros Hb. unfold expire_one. rewrite Hb.
  destruct (complete_batch _ c (ctx_or_zero s c)) as [s1 rc1]. exists s1, rc1. split; reflexivity.
Qed.

(* EndBlock: in the state in which the k-th due context is processed, the invariant holds
   and every iteration of its expiry loop is clean *)
Theorem C20_no_panic_endblock cfg s :
  wf_cfg cfg -> Inv cfg s -> height s < HEIGHT_BOUND ->
  forall k c, nth_error (due (expq s) (height s)) k = Some c ->
    let sk := fold_left (expire_one cfg) (firstn k (due (expq s) (height s))) s in
    Inv cfg sk
    /\ In (height sk, c) (expq sk)
    /\ expire_loop_clean cfg (active_rids sk c (c_counter (ctx_or_zero sk c))) sk.
Proof.
  intros Hcfg HI Hh k c Hk. cbv zeta.
  pose proof (Inv_inside_end_block cfg s Hcfg HI Hh k) as HIk.
  split; [exact HIk|]. split; [|now apply C20_expire_loop_clean].
  set (d := due (expq s) (height s)) in *.
  assert (Hnd : NoDup d) by (apply NoDup_due, (inv_wf _ _ HI)).
  assert (Esplit : d = firstn k d ++ c :: skipn (S k) d).
  { clear -Hk. revert k Hk. induction d as [|a d IH]; intros [|k] Hk; cbn in *; try discriminate.
    - now injection Hk as ->.
    - f_equal. now apply IH. }
  assert (Hn1 : NoDup (firstn k d)).
  { rewrite Esplit in Hnd. now apply NoDup_app_remove_r' in Hnd. }
  assert (Hl1 : forall c', In c' (firstn k d) -> In (height s, c') (expq s)).
  { intros c' Hc'. apply In_due. fold d. rewrite Esplit. apply in_or_app. now left. }
  destruct (fold_expire_phase cfg (firstn k d) s Hcfg HI Hh Hn1 Hl1) as (_ & Eh & _ & Q).
  rewrite Eh. apply Q. split.
  - apply In_due. fold d. rewrite Esplit. apply in_or_app. right. now left.
  - rewrite Esplit in Hnd. apply NoDup_remove_2 in Hnd. intros Hin. apply Hnd.
    apply in_or_app. now left.
Qed.

(* the same, read off for one iteration: inside EndBlock slash is called only on a stored,
   active request of a non-super context, returns Ok, and the refund succeeds *)
Corollary C20_endblock_slash_ok cfg s :
  wf_cfg cfg -> Inv cfg s -> height s < HEIGHT_BOUND ->
  forall k c l1 r l2, nth_error (due (expq s) (height s)) k = Some c ->
    let sk := fold_left (expire_one cfg) (firstn k (due (expq s) (height s))) s in
    active_rids sk c (c_counter (ctx_or_zero sk c)) = l1 ++ r :: l2 ->
    let si := fold_left (expire_req cfg) l1 sk in
    exists q rc, get r (reqs si) = Some q /\ r_active q = true /\ get (rid_ctx r) (ctxs si) = Some rc
      /\ (c_super rc = false ->
          exists sa sb, slash cfg si r = Ok sa /\ refund_fee sa r (c_cons rc) (r_fee q) = Some sb).
Proof.
  intros Hcfg HI Hh k c l1 r l2 Hk. cbv zeta. intros El.
  destruct (C20_no_panic_endblock cfg s Hcfg HI Hh k c Hk) as (_ & _ & Hc). cbv zeta in Hc.
  rewrite El in Hc. exact (expire_loop_clean_split cfg l1 r l2 _ Hc).
Qed.

(* slash cannot panic in any intermediate state of any expiry loop, super mode or not *)
Corollary C20_endblock_slash_no_panic cfg s c n l1 l2 r :
  wf_cfg cfg -> Inv cfg s -> active_rids s c n = l1 ++ l2 ->
  slash cfg (fold_left (expire_req cfg) l1 s) r <> Panic.
Proof.
  intros Hcfg HI El.
  assert (HL : loop_inv cfg s (l1 ++ l2)) by (rewrite <- El; now apply Inv_loop_inv).
  assert (Hn : NoDup (l1 ++ l2)) by (rewrite <- El; apply NoDup_active_rids, (inv_wf _ _ HI)).
  clear El HI. revert s HL Hn. induction l1 as [|a l1 IH]; intros s HL Hn; cbn [fold_left app] in *.
  - destruct HL as (HB & _ & Hav & _). apply slash_no_panic; [now apply wf_cfg_slash|assumption|exact Hav].
  - destruct (loop_inv_step cfg s a (l1 ++ l2) (wf_cfg_slash _ Hcfg) Hn HL) as (_ & HL').
    apply IH; [exact HL'|now inversion Hn].
Qed.

(* ------------------------------------------------------------------ *)
(* Known finding K1: without the exclusion the message theorem is false.
   Configuration k1_cfg (Proofs/K1Enable.v): MinDepositMultiple = 1000.  The price 2^250
   (raw text 2^250 * 10^18 at token scale 0) passes the pricing schema and fits an sdk.Int;
   2^250 * 1000 does not. *)

Definition k1_huge : RawPricing := mkRaw (2 ^ 250 * ONE) [] [].

Definition k1b_s : State := run k1_cfg (init 1 0 [(42, 100000)]) [ODefine 1 5 true].
Definition k1b_op : Op := OBind 1 7 (CBase 5000) (Some k1_huge) 10 42 true.

Lemma k1b_reachK1 : ReachK1 k1_cfg k1b_s.
Proof.
  apply (ReachK1_step k1_cfg (init 1 0 [(42, 100000)]) (ODefine 1 5 true)); [|exact I|exact I].
  apply ReachK1_init; [lia|lia|wf_funding_tac].
Qed.

Example k1_huge_passes_schema :
  validate_pricing (parse_pricing k1_huge) = true /\ schema_pricing (parse_pricing k1_huge) = true
  /\ pr_price (parse_pricing k1_huge) < INT_LIMIT
  /\ ~ k1_bound k1_cfg (parse_pricing k1_huge).
Proof. vm_compute. repeat split; intros H; discriminate H. Qed.

(* MsgBindService *)
Theorem C20_K1_bind_refuted :
  exists cfg s o, wf_cfg cfg /\ Reach cfg s /\ wf_op s o /\ handle cfg s o = Panic.
Proof.
  exists k1_cfg, k1b_s, k1b_op.
  split; [exact k1_cfg_wf|]. split; [exact (ReachK1_Reach _ _ k1b_reachK1)|]. split; [exact I|].
  vm_compute. reflexivity.
Qed.

(* the same witness, sharper: the history before the message satisfies X-K1 (ReachK1), the
   message passes every check of the handler that precedes getMinDeposit, and violates
   exactly the exclusion *)
Theorem C20_K1_bind_witness :
  wf_cfg k1_cfg /\ ReachK1 k1_cfg k1b_s /\ wf_op k1b_s k1b_op
  /\ ~ k1_op k1_cfg k1b_s k1b_op /\ snd (step k1_cfg k1b_s k1b_op) = RPanic.
Proof.
  split; [exact k1_cfg_wf|]. split; [exact k1b_reachK1|]. split; [exact I|].
  split; [|vm_compute; reflexivity]. vm_compute. intros H; discriminate H.
Qed.

(* MsgUpdateServiceBinding on an available binding *)
Definition k1u_s : State :=
  run k1_cfg (init 1 0 [(42, 100000)])
    [ODefine 1 5 true; OBind 1 7 (CBase 5000) (Some (mkRaw (2 * ONE) [] [])) 10 42 true].
Definition k1u_op : Op := OUpdate 1 7 CEmpty (Some (Some k1_huge)) 0 42 true.

Theorem C20_K1_update_refuted :
  exists cfg s o, wf_cfg cfg /\ Reach cfg s /\ wf_op s o /\ handle cfg s o = Panic.
Proof.
  exists k1_cfg, k1u_s, k1u_op.
  split; [exact k1_cfg_wf|]. split; [|split; [exact I|vm_compute; reflexivity]].
  apply reach_init_run; [lia|lia|wf_funding_tac|]. wf_run_tac.
Qed.

(* MsgEnableServiceBinding: the message carries no price at all.  The history (k1_ops) is
   accepted message by message (K1Enable.k1_all_ok): the Update of the DISABLED binding stores
   the price without calling getMinDeposit, and the overflow surfaces in Enable.  This is
   why k1_op bounds the stored price for Enable, and why the input-only form k1_in has to
   hold along the whole history. *)
Theorem C20_K1_enable_refuted :
  exists cfg s o, wf_cfg cfg /\ Reach cfg s /\ wf_op s o /\ handle cfg s o = Panic.
Proof.
  exists k1_cfg, k1_s, (OEnable 1 7 CEmpty 42 true).
  split; [exact k1_cfg_wf|]. split; [exact k1_reach|]. split; [exact I|]. vm_compute. reflexivity.
Qed.

Theorem C20_K1_enable_witness :
  Reach k1_cfg k1_s /\ ~ I_k1 k1_cfg k1_s
  /\ ~ k1_op k1_cfg k1_s (OEnable 1 7 CEmpty 42 true)
  /\ k1_in k1_cfg (OEnable 1 7 CEmpty 42 true)
  /\ snd (step k1_cfg k1_s (OEnable 1 7 CEmpty 42 true)) = RPanic.
Proof.
  split; [exact k1_reach|]. split; [|split; [|split; [exact I|vm_compute; reflexivity]]].
  - intros H. specialize (H (1, 7) (parse_pricing k1_huge)).
    assert (G : get (1, 7) (pricing k1_s) = Some (parse_pricing k1_huge)) by (vm_compute; reflexivity).
    apply H in G. revert G. vm_compute. intros G; discriminate G.
  - vm_compute. intros H; discriminate H.
Qed.

(* EndBlock needs no exclusion: even in k1_s (which violates I_k1) the theorems
   C20_expire_loop_clean / C20_no_panic_endblock apply, because they assume Inv only *)
Example C20_K1_endblock_unaffected c n :
  expire_loop_clean k1_cfg (active_rids k1_s c n) k1_s.
Proof. apply C20_expire_loop_clean; [exact k1_cfg_wf|]. apply Reach_Inv; [exact k1_cfg_wf|exact k1_reach]. Qed.

(* ------------------------------------------------------------------ *)
(* Known finding K6: keeper.UpdateServiceBinding and keeper.EnableServiceBinding execute
   binding.Deposit = binding.Deposit.Add(deposit...) right after validateDeposit and before
   the owner pays anything; sdk.Int.Add panics when the sum needs more than 255 bits.  The
   owner does not have to own the amount.  Without X-K6 the message theorem is false.

   k6_op is sharp: a message that passes the checks preceding the Add and violates k6_op
   makes the handler panic, whatever the rest of the message and of the state. *)

Lemma h_update_k6_sharp cfg s svc prov dep pr qos owner b a :
  get (svc, prov) (binds s) = Some b -> (b_owner b =? owner) = true ->
  (qos =? 0) || (qos <=? p_max_timeout cfg) = true ->
  one_base_coin dep = Ok a -> INT_LIMIT <= b_deposit b + a ->
  h_update cfg s svc prov dep pr qos owner true = Panic.
Proof.
  intros Gb Ho Hq Ha Hge. unfold h_update. rewrite Gb. cbn [guard of_opt bind].
  rewrite Ho, Hq. cbn [guard]. rewrite (one_base_coin_nonempty _ _ Ha).
  assert (Ed : b_deposit (if qos =? 0 then b else setb_qos b qos) = b_deposit b)
    by (destruct (qos =? 0); reflexivity).
  rewrite Ed.
  destruct (add_deposit_amt_cases (b_deposit b) dep) as [(a' & Ha' & Hlt & _)|[(a' & _ & _ & E)|(E & _)]].
  - rewrite Ha in Ha'. injection Ha' as <-. lia.
  - rewrite E. reflexivity.
  - congruence.
Qed.

Lemma h_enable_k6_sharp cfg s svc prov dep owner b a :
  get (svc, prov) (binds s) = Some b -> (b_owner b =? owner) = true -> b_avail b = false ->
  one_base_coin dep = Ok a -> INT_LIMIT <= b_deposit b + a ->
  h_enable cfg s svc prov dep owner true = Panic.
Proof.
  intros Gb Ho Hav Ha Hge. unfold h_enable. rewrite Gb. cbn [guard of_opt bind].
  rewrite Ho, Hav. cbn [guard negb]. rewrite (one_base_coin_nonempty _ _ Ha).
  destruct (add_deposit_amt_cases (b_deposit b) dep) as [(a' & Ha' & Hlt & _)|[(a' & _ & _ & E)|(E & _)]].
  - rewrite Ha in Ha'. injection Ha' as <-. lia.
  - rewrite E. reflexivity.
  - congruence.
Qed.

(* the largest amount an sdk.Int holds; it passes validateDeposit *)
Definition k6_top : Coins := CBase (2 ^ 255 - 1).

(* MsgUpdateServiceBinding: the state k1u_s (one binding with deposit 5000, price 2, every
   stored price within X-K1), a top-up of 2^255 - 1 and nothing else *)
Definition k6u_op : Op := OUpdate 1 7 k6_top None 0 42 true.

Lemma k1u_reachK1S : ReachK1S k1_cfg 100000 k1u_s.
Proof.
  unfold k1u_s, run. cbn [fold_left].
  apply ReachK1S_step; [apply ReachK1S_step|exact I|].
  - apply ReachK1S_init; [lia|lia|wf_funding_tac|reflexivity].
  - exact I.
  - exact I.
  - unfold k1_in, k1_bound. zc.
Qed.

Theorem C20_K6_update_refuted :
  exists cfg s o, wf_cfg cfg /\ Reach cfg s /\ wf_op s o /\ k1_op cfg s o /\ handle cfg s o = Panic.
Proof.
  exists k1_cfg, k1u_s, k6u_op.
  split; [exact k1_cfg_wf|].
  split; [exact (ReachK1_Reach _ _ (ReachK1S_ReachK1 _ _ _ k1u_reachK1S))|].
  split; [exact I|]. split; [exact I|]. vm_compute. reflexivity.
Qed.

(* sharper: the history satisfies both exclusions in their input forms, the message satisfies
   X-K1, passes every check that precedes the Add, and violates exactly X-K6 (both forms) *)
Theorem C20_K6_update_witness :
  wf_cfg k1_cfg /\ ReachK1S k1_cfg 100000 k1u_s /\ wf_op k1u_s k6u_op
  /\ k1_in k1_cfg k6u_op /\ k1_op k1_cfg k1u_s k6u_op
  /\ ~ k6_in 100000 k6u_op /\ ~ k6_op k1u_s k6u_op
  /\ snd (step k1_cfg k1u_s k6u_op) = RPanic.
Proof.
  split; [exact k1_cfg_wf|]. split; [exact k1u_reachK1S|]. split; [exact I|].
  split; [exact I|]. split; [exact I|].
  split; [|split; [|vm_compute; reflexivity]].
  - intros H. cbn [k6_in k6u_op] in H.
    specialize (H (2 ^ 255 - 1) ltac:(vm_compute; reflexivity)). revert H. vm_compute.
    intros H; discriminate H.
  - intros H. cbn [k6_op k6u_op] in H.
    destruct (get (1, 7) (binds k1u_s)) as [b|] eqn:G; [|vm_compute in G; discriminate G].
    specialize (H b (2 ^ 255 - 1) eq_refl ltac:(vm_compute; reflexivity)).
    vm_compute in G. injection G as <-. revert H. vm_compute. intros H; discriminate H.
Qed.

(* MsgEnableServiceBinding: the same binding, disabled first *)
Definition k6e_s : State :=
  run k1_cfg (init 1 0 [(42, 100000)])
    [ODefine 1 5 true; OBind 1 7 (CBase 5000) (Some (mkRaw (2 * ONE) [] [])) 10 42 true;
     ODisable 1 7 42 true].
Definition k6e_op : Op := OEnable 1 7 k6_top 42 true.

Lemma k6e_reachK1S : ReachK1S k1_cfg 100000 k6e_s.
Proof.
  unfold k6e_s, run. cbn [fold_left].
  do 3 (apply ReachK1S_step; [|exact I|first [exact I|unfold k1_in, k1_bound; zc]]).
  apply ReachK1S_init; [lia|lia|wf_funding_tac|reflexivity].
Qed.

Theorem C20_K6_enable_refuted :
  exists cfg s o, wf_cfg cfg /\ Reach cfg s /\ wf_op s o /\ k1_op cfg s o /\ handle cfg s o = Panic.
Proof.
  exists k1_cfg, k6e_s, k6e_op.
  split; [exact k1_cfg_wf|].
  split; [exact (ReachK1_Reach _ _ (ReachK1S_ReachK1 _ _ _ k6e_reachK1S))|].
  split; [exact I|]. split; [|vm_compute; reflexivity].
  cbn [k1_op k6e_op]. apply I_k1_pricing_of. eapply ReachK1_I_k1, ReachK1S_ReachK1, k6e_reachK1S.
Qed.

Theorem C20_K6_enable_witness :
  wf_cfg k1_cfg /\ ReachK1S k1_cfg 100000 k6e_s /\ wf_op k6e_s k6e_op
  /\ k1_in k1_cfg k6e_op /\ k1_op k1_cfg k6e_s k6e_op
  /\ ~ k6_in 100000 k6e_op /\ ~ k6_op k6e_s k6e_op
  /\ snd (step k1_cfg k6e_s k6e_op) = RPanic.
Proof.
  split; [exact k1_cfg_wf|]. split; [exact k6e_reachK1S|]. split; [exact I|].
  split; [exact I|].
  split; [cbn [k1_op k6e_op]; apply I_k1_pricing_of; eapply ReachK1_I_k1, ReachK1S_ReachK1, k6e_reachK1S|].
  split; [|split; [|vm_compute; reflexivity]].
  - intros H. cbn [k6_in k6e_op] in H.
    specialize (H (2 ^ 255 - 1) ltac:(vm_compute; reflexivity)). revert H. vm_compute.
    intros H; discriminate H.
  - intros H. cbn [k6_op k6e_op] in H.
    destruct (get (1, 7) (binds k6e_s)) as [b|] eqn:G; [|vm_compute in G; discriminate G].
    specialize (H b (2 ^ 255 - 1) eq_refl ltac:(vm_compute; reflexivity)).
    vm_compute in G. injection G as <-. revert H. vm_compute. intros H; discriminate H.
Qed.

(* the same messages with a top-up the genesis supply leaves room for are covered by the
   input-only theorem: no panic (here they are simply refused, the owner holds 95000) *)
Example C20_K6_small_topup_ok amt :
  0 < amt -> 100000 + amt < INT_LIMIT ->
  snd (step k1_cfg k1u_s (OUpdate 1 7 (CBase amt) None 0 42 true)) <> RPanic
  /\ snd (step k1_cfg k6e_s (OEnable 1 7 (CBase amt) 42 true)) <> RPanic.
Proof.
  intros H0 Hlt.
  assert (Hk : forall a, one_base_coin (CBase amt) = Ok a -> 100000 + a < INT_LIMIT).
  { intros a Ha. cbn [one_base_coin] in Ha. destruct (0 <? amt); [|discriminate Ha].
    injection Ha as <-. exact Hlt. }
  split.
  - apply (C20_no_panic_reachK1S k1_cfg 100000); [exact k1_cfg_wf|exact k1u_reachK1S|exact I|exact I|exact Hk].
  - apply (C20_no_panic_reachK1S k1_cfg 100000); [exact k1_cfg_wf|exact k6e_reachK1S|exact I|exact I|exact Hk].
Qed.

(* EndBlock is unaffected by K6 as well: C20_expire_loop_clean / C20_no_panic_endblock assume
   Inv only, and no top-up happens inside EndBlock *)

(* ------------------------------------------------------------------ *)
(* Determinism, the part that Gallina can express.

   The state machine is a function: [step] and [run] are Gallina functions, so equal inputs
   give equal outputs.  EndBlock walks the two queues in the order of the store keys: [due]
   returns exactly the contexts queued for the height, in ascending CtxId order, whatever the
   order of the queue list.  Byte-level determinism across OS processes (the Go map
   providerRequests of abci.go is ranged over only to group events; scheduler, iteration
   order) is a fact about the Go runtime that no Gallina function can exhibit: it is checked
   by the harness's double-replay mode (every history run in two fresh app instances,
   digests of the module store and the balances compared after each step). *)

Theorem C20_step_deterministic cfg s o r1 r2 :
  step cfg s o = r1 -> step cfg s o = r2 -> r1 = r2.
Proof. congruence. Qed.

Theorem C20_run_deterministic cfg s ops s1 s2 :
  run cfg s ops = s1 -> run cfg s ops = s2 -> s1 = s2.
Proof. congruence. Qed.

Theorem C20_due_sorted_perm (q : list (Z * CtxId)) h :
  Permutation (due q h) (map snd (filter (fun e => fst e =? h) q)).
Proof. unfold due. apply isort_perm. Qed.

Theorem C20_due_sorted (q : list (Z * CtxId)) h :
  Sorted (fun a b => ctxid_leb a b = true) (due q h).
Proof. unfold due. exact (QueryProofs.isort_sorted ctxid_leb QueryProofs.ctxid_leb_total _). Qed.


(* ------------------------------------------------------------------ *)
(* EndBlock with error propagation.

   The strongest way to say "no dropped call fails": write the EndBlock that does NOT drop
   anything (every lookup, slash and refund of the expiry loop is bound in the Res monad, so
   a missing record or a failed call would surface as Err and a panic as Panic) and prove
   that it returns Ok of exactly the state the real EndBlock computes.  The strict variants
   are specification devices (they are not extracted); new_one contains no fallible call
   that is dropped, so the second phase is the model's own. *)

Definition expire_req_strict (cfg : Params) (s : State) (r : ReqId) : Res State :=
  q <- of_opt (get r (reqs s)) ;;
  rc <- of_opt (get (rid_ctx r) (ctxs s)) ;;
  s1 <- (if c_super rc then Ok s
         else sa <- slash cfg s r ;; of_opt (refund_fee sa r (c_cons rc) (r_fee q))) ;;
  Ok (emit (EvExpire r) (deactivate s1 r)).

Fixpoint fold_strict {A} (f : State -> A -> Res State) (l : list A) (s : State) : Res State :=
  match l with
  | [] => Ok s
  | a :: t => s1 <- f s a ;; fold_strict f t s1
  end.

(* the part of expire_one after the settlement of the batch *)
Definition expire_tail (s : State) (c : CtxId) (p : State * Ctx) : State :=
  let '(s1, rc1) := p in
  let H := height s in
  let s2 := put_ctx (del_expq s1 c H) c rc1 in
  let s3 :=
    match c_state rc1 with
    | Completed => del_ctx s2 c
    | Running =>
        if c_rep rc1 && ((c_total rc1 <? 0) || (c_counter rc1 <? c_total rc1))
        then add_newq s2 c (wrap_i64 (H - c_timeout rc1 + to_i64 (c_freq rc1)))
        else del_ctx s2 c
    | Paused => s2
    end in
  clean_batch s3 c (c_counter rc1).

Lemma expire_one_tail cfg s c :
  expire_one cfg s c =
  expire_tail s c
    (if c_bdone (ctx_or_zero s c) then (s, ctx_or_zero s c)
     else complete_batch
            (fold_left (expire_req cfg) (active_rids s c (c_counter (ctx_or_zero s c))) s)
            c (ctx_or_zero s c)).
Proof. reflexivity. Qed.

Definition expire_one_strict (cfg : Params) (s : State) (c : CtxId) : Res State :=
  let rc := ctx_or_zero s c in
  p <- (if c_bdone rc then Ok (s, rc)
        else s' <- fold_strict (expire_req_strict cfg) (active_rids s c (c_counter rc)) s ;;
             Ok (complete_batch s' c rc)) ;;
  Ok (expire_tail s c p).

Definition end_blocker_strict (cfg : Params) (s : State) : Res State :=
  s1 <- fold_strict (expire_one_strict cfg) (due (expq s) (height s)) s ;;
  Ok (fold_left (new_one cfg) (due (newq s1) (height s1)) s1).

Definition end_block_strict (cfg : Params) (s : State) (dt : Z) : Res State :=
  s1 <- end_blocker_strict cfg s ;;
  Ok (set_time (set_height s1 (height s1 + 1)) (time s1 + dt)).

(* the state machine with the strict EndBlock *)
Definition handle_strict (cfg : Params) (s : State) (o : Op) : Res State :=
  match o with
  | OEndBlock dt => end_block_strict cfg s dt
  | _ => handle cfg s o
  end.

Lemma expire_req_strict_ok cfg s r :
  expire_req_clean cfg s r -> expire_req_strict cfg s r = Ok (expire_req cfg s r).
Proof.
  intros (q & rc & Gq & _ & Grc & Hc). unfold expire_req_strict, expire_req.
  rewrite Gq, Grc. cbn [of_opt bind].
  destruct (c_super rc); [reflexivity|].
  destruct (Hc eq_refl) as (sa & sb & E1 & E2). rewrite E1. cbn [bind]. rewrite E2. reflexivity.
Qed.

Lemma expire_loop_strict_ok cfg l s :
  expire_loop_clean cfg l s ->
  fold_strict (expire_req_strict cfg) l s = Ok (fold_left (expire_req cfg) l s).
Proof.
  revert s. induction l as [|a l IH]; intros s H; cbn [fold_strict fold_left]; [reflexivity|].
  destruct H as (Ha & Hl). rewrite (expire_req_strict_ok _ _ _ Ha). cbn [bind]. now apply IH.
Qed.

Lemma expire_one_strict_ok cfg s c :
  wf_cfg cfg -> Inv cfg s -> expire_one_strict cfg s c = Ok (expire_one cfg s c).
Proof.
  intros Hcfg HI. rewrite expire_one_tail. unfold expire_one_strict. cbv zeta.
  destruct (c_bdone (ctx_or_zero s c)); [reflexivity|].
  rewrite (expire_loop_strict_ok cfg _ s (C20_expire_loop_clean cfg s c _ Hcfg HI)). reflexivity.
Qed.

Lemma expire_phase_strict_ok cfg l s :
  wf_cfg cfg -> Inv cfg s -> height s < HEIGHT_BOUND -> NoDup l ->
  (forall c, In c l -> In (height s, c) (expq s)) ->
  fold_strict (expire_one_strict cfg) l s = Ok (fold_left (expire_one cfg) l s).
Proof.
  intros Hcfg. revert s. induction l as [|a l IH]; intros s HI Hb Hn Hl; cbn [fold_strict fold_left];
    [reflexivity|].
  inversion Hn as [|? ? Hna Hn']; subst.
  assert (Hda : In (height s, a) (expq s)) by (apply Hl; now left).
  rewrite (expire_one_strict_ok cfg s a Hcfg HI). cbn [bind].
  pose proof (height_expire_one cfg s a Hcfg HI Hda Hb) as Eh.
  apply IH; try assumption.
  - now apply Inv_expire_one.
  - now rewrite Eh.
  - intros c Hc. rewrite Eh. apply (expq_after_expire_one cfg s a Hcfg HI Hda Hb).
    split; [apply Hl; now right|]. intros ->. contradiction.
Qed.

(* EndBlock with nothing dropped returns Ok, and the state is the one EndBlock computes *)
Theorem C20_end_block_strict cfg s dt :
  wf_cfg cfg -> Inv cfg s -> height s < HEIGHT_BOUND ->
  end_block_strict cfg s dt = Ok (end_block cfg s dt).
Proof.
  intros Hcfg HI Hb. unfold end_block_strict, end_blocker_strict, end_block, end_blocker.
  rewrite (expire_phase_strict_ok cfg _ s Hcfg HI Hb).
  - reflexivity.
  - apply NoDup_due, (inv_wf _ _ HI).
  - intros c. apply In_due.
Qed.

(* on every state satisfying Inv the strict machine IS the model's machine ... *)
Theorem C20_handle_strict cfg s o :
  wf_cfg cfg -> Inv cfg s -> wf_op s o -> handle_strict cfg s o = handle cfg s o.
Proof.
  intros Hcfg HI Ho. destruct o; cbn [handle_strict]; try reflexivity.
  cbn [wf_op] in Ho. cbn [handle]. now apply C20_end_block_strict.
Qed.

(* ... so it never panics either (messages: under X-K1 and X-K6; EndBlock: unconditionally, and it
   does not even return an error) *)
Theorem C20_no_panic_strict cfg s o :
  wf_cfg cfg -> Reach cfg s -> wf_op s o -> k1_op cfg s o -> k6_op s o ->
  handle_strict cfg s o <> Panic.
Proof.
  intros Hcfg Hr Ho Hk Hk6. pose proof (Reach_Inv cfg s Hcfg Hr) as HI.
  rewrite C20_handle_strict by assumption. now apply C20_no_panic_msg.
Qed.

Theorem C20_end_block_never_fails cfg s dt :
  wf_cfg cfg -> Reach cfg s -> wf_op s (OEndBlock dt) ->
  handle_strict cfg s (OEndBlock dt) = Ok (end_block cfg s dt).
Proof.
  intros Hcfg Hr Ho. cbn [handle_strict]. cbn [wf_op] in Ho.
  apply C20_end_block_strict; [assumption|now apply Reach_Inv|tauto].
Qed.

(* ------------------------------------------------------------------ *)
(* The order in which EndBlock walks a queue is canonical: it depends only on WHICH entries
   are queued, not on the order of the list that represents the queue in the model (the Go
   store has no such order; its iterator yields ascending keys).  This is the expressible
   part of "independent of iteration order". *)

Lemma ctxid_leb_trans a b c : ctxid_leb a b = true -> ctxid_leb b c = true -> ctxid_leb a c = true.
Proof. unfold ctxid_leb. destruct a, b, c; cbn [fst snd]. lia. Qed.

Lemma ctxid_leb_antisym a b : ctxid_leb a b = true -> ctxid_leb b a = true -> a = b.
Proof.
  unfold ctxid_leb. destruct a as [a1 a2], b as [b1 b2]; cbn [fst snd]. intros H1 H2.
  assert (a1 = b1 /\ a2 = b2) as [-> ->] by lia. reflexivity.
Qed.

Lemma sorted_perm_unique {A} (le : A -> A -> Prop) :
  (forall a b, le a b -> le b a -> a = b) ->
  forall l1 l2, StronglySorted le l1 -> StronglySorted le l2 -> Permutation l1 l2 -> l1 = l2.
Proof.
  intros Hanti. induction l1 as [|a t IH]; intros l2 S1 S2 P.
  - apply Permutation_nil in P. now subst.
  - destruct l2 as [|b t2]; [apply Permutation_sym, Permutation_nil in P; discriminate|].
    inversion S1 as [|? ? S1t F1]; subst. inversion S2 as [|? ? S2t F2]; subst.
    assert (E : a = b).
    { assert (Ha : In a (b :: t2)) by (eapply Permutation_in; [exact P|now left]).
      assert (Hb : In b (a :: t)) by (eapply Permutation_in; [apply Permutation_sym; exact P|now left]).
      destruct Ha as [->|Ha]; [reflexivity|]. destruct Hb as [->|Hb]; [reflexivity|].
      rewrite Forall_forall in F1, F2. apply Hanti; [now apply F1|now apply F2]. }
    subst b. f_equal. apply IH; try assumption. eapply Permutation_cons_inv; eauto.
Qed.

Theorem C20_due_canonical (q q' : list (Z * CtxId)) h :
  Permutation q q' -> due q h = due q' h.
Proof.
  intros P.
  assert (Tr : Relations_1.Transitive (fun a b => ctxid_leb a b = true))
    by (intros a b c; apply ctxid_leb_trans).
  apply (sorted_perm_unique (fun a b => ctxid_leb a b = true) ctxid_leb_antisym).
  - apply Sorted_StronglySorted; [exact Tr|apply C20_due_sorted].
  - apply Sorted_StronglySorted; [exact Tr|apply C20_due_sorted].
  - rewrite !C20_due_sorted_perm. apply Permutation_map.
    clear -P. induction P as [|x l l' P IH|x y l|l l' l'' P1 IH1 P2 IH2]; cbn [filter].
    + constructor.
    + destruct (fst x =? h); [now constructor|assumption].
    + destruct (fst x =? h), (fst y =? h); try apply Permutation_refl. apply perm_swap.
    + eapply Permutation_trans; eauto.
Qed.

(* ------------------------------------------------------------------ *)
(* The hypotheses are satisfiable: a concrete multi-block history with a malformed response
   (slash + refund inside h_respond) and an expiry with slashing (inside EndBlock).
   Owner 10 binds providers 11 (deposit 240) and 12 (deposit 400) to service 1 at price 100;
   minimum deposit max(100*2, 150) = 200, slash fraction 1/4.  Consumer 20 calls both with
   timeout 3; the EndBlock of height 1 issues requests 0 (provider 11) and 1 (provider 12),
   fee 100 each.  Provider 11 answers with an output that fails the schema; provider 12
   never answers and its request expires in the EndBlock of height 4. *)

Definition x20_cfg : Params := mkParams 100 2 150 (ONE / 10) (ONE / 4) 30 20 999 77.
Definition x20_raw : RawPricing := mkRaw (100 * ONE) [] [].
Definition x20_c : CtxId := (4242, 0).
Definition x20_ops : list Op :=
  [ ODefine 1 7 true;
    OBind 1 11 (CBase 240) (Some x20_raw) 2 10 true;
    OBind 1 12 (CBase 400) (Some x20_raw) 2 10 true;
    OCall x20_c 1 [11; 12] 20 0 (CBase 500) 3 false false 0 0 true true;
    OEndBlock 5;
    ORespond (x20_c, 1, 1, 0) 11 0 9 false true;     (* output 9, not valid *)
    OEndBlock 5;
    OEndBlock 5;
    OEndBlock 5 ].
Definition x20_s0 : State := init 1 1000 [(10, 1000); (20, 1000)].
Definition x20_at (n : nat) : State := run x20_cfg x20_s0 (firstn n x20_ops).

Ltac k1_run_tac :=
  cbn [k1_run]; repeat match goal with |- _ /\ _ => split end;
  try exact I;
  try (unfold wf_op, ctx_fresh, k1_in, k1_bound; repeat match goal with |- _ /\ _ => split end; zc).

Example x20_cfg_wf : wf_cfg x20_cfg.
Proof. unfold wf_cfg. repeat match goal with |- _ /\ _ => split end; zc. Qed.

Ltac k16_run_tac :=
  cbn [k16_run]; repeat match goal with |- _ /\ _ => split end;
  try exact I;
  try (unfold wf_op, ctx_fresh, k1_in, k1_bound; repeat match goal with |- _ /\ _ => split end; zc).

(* the genesis state mints 2000 *)
Example x20_s0_reachK1S : ReachK1S x20_cfg 2000 x20_s0.
Proof. apply ReachK1S_init; [lia|lia|wf_funding_tac|reflexivity]. Qed.

Example x20_s0_reachK1 : ReachK1 x20_cfg x20_s0.
Proof. exact (ReachK1S_ReachK1 _ _ _ x20_s0_reachK1S). Qed.

(* the hypotheses of C20_no_panic_run hold for the history (no message carries a top-up) ... *)
Example x20_k16_run : k16_run x20_cfg 2000 x20_s0 x20_ops.
Proof. unfold x20_ops. k16_run_tac. Qed.

Example x20_k1_run : k1_run x20_cfg x20_s0 x20_ops.
Proof. exact (k16_run_k1_run _ _ _ _ x20_k16_run). Qed.

(* ... so no step panics and every state of the history is ReachK1S (hence ReachK1, Reach,
   Inv, I_k1, supply <= 2000) *)
Example x20_no_panic :
  ~ In RPanic (outcomes x20_cfg x20_s0 x20_ops)
  /\ ReachK1S x20_cfg 2000 (run x20_cfg x20_s0 x20_ops).
Proof. exact (C20_no_panic_run _ _ _ _ x20_cfg_wf x20_s0_reachK1S x20_k16_run). Qed.

(* in fact every message is accepted *)
Example x20_outcomes : outcomes x20_cfg x20_s0 x20_ops = repeat ROk 9.
Proof. vm_compute. reflexivity. Qed.

Lemma x20_at_reachK1 n : ReachK1 x20_cfg (x20_at n).
Proof.
  unfold x20_at.
  assert (G : forall ops s, ReachK1 x20_cfg s -> k1_run x20_cfg s ops ->
              ReachK1 x20_cfg (run x20_cfg s (firstn n ops))).
  { induction n as [|n IH]; intros ops s Hr Hk; [exact Hr|].
    destruct ops as [|o t]; [exact Hr|]. destruct Hk as (Ho & Hko & Ht).
    cbn [firstn]. unfold run. cbn [fold_left]. apply IH; [now apply ReachK1_step|exact Ht]. }
  apply G; [exact x20_s0_reachK1|exact x20_k1_run].
Qed.

(* the malformed response: the state before it satisfies the hypotheses of
   C20_no_panic_msg, the handler slashes provider 11 below the minimum (240 -> 180, the
   binding becomes unavailable) and refunds the fee to the consumer *)
Example x20_malformed_response :
  let s := x20_at 5 in
  let o := ORespond (x20_c, 1, 1, 0) 11 0 9 false true in
  Inv x20_cfg s /\ wf_op s o /\ k1_op x20_cfg s o /\ k6_op s o
  /\ (exists sa sb, slash x20_cfg s (x20_c, 1, 1, 0) = Ok sa
                    /\ refund_fee sa (x20_c, 1, 1, 0) 20 100 = Some sb)
  /\ get (1, 11) (binds (x20_at 6)) = Some (mkBinding 180 x20_raw 2 false 1005 10)
  /\ bal (x20_at 5) (User 20) = 800 /\ bal (x20_at 6) (User 20) = 900
  /\ bal (x20_at 5) Deposit = 640 /\ bal (x20_at 6) Deposit = 580.
Proof.
  cbv zeta. split; [apply Reach_Inv; [exact x20_cfg_wf|apply ReachK1_Reach, x20_at_reachK1]|].
  split; [exact I|]. split; [exact I|]. split; [exact I|]. split; [|vm_compute; repeat split].
  eexists. eexists. split; vm_compute; reflexivity.
Qed.

(* the expiry: before the EndBlock of height 4 the context is due, not in super mode, and
   request 1 is still active; C20_no_panic_endblock applies (k = 0) and the loop is clean;
   the EndBlock slashes provider 12 (400 -> 300, stays available) and refunds the fee *)
Example x20_expiry :
  let s := x20_at 8 in
  Inv x20_cfg s /\ height s = 4 /\ height s < HEIGHT_BOUND
  /\ due (expq s) (height s) = [x20_c]
  /\ c_super (ctx_or_zero s x20_c) = false
  /\ active_rids s x20_c (c_counter (ctx_or_zero s x20_c)) = [(x20_c, 1, 1, 1)]
  /\ expire_loop_clean x20_cfg (active_rids s x20_c (c_counter (ctx_or_zero s x20_c))) s
  /\ get (1, 12) (binds (x20_at 9)) = Some (mkBinding 300 x20_raw 2 true TIME0 10)
  /\ bal (x20_at 8) (User 20) = 900 /\ bal (x20_at 9) (User 20) = 1000
  /\ bal (x20_at 9) Deposit = 480 /\ bal (x20_at 9) Escrow = 0
  /\ supply (x20_at 9) = 2000 - 60 - 100.
Proof.
  cbv zeta.
  assert (HI : Inv x20_cfg (x20_at 8))
    by (apply Reach_Inv; [exact x20_cfg_wf|apply ReachK1_Reach, x20_at_reachK1]).
  split; [exact HI|]. split; [vm_compute; reflexivity|]. split; [vm_compute; reflexivity|].
  split; [vm_compute; reflexivity|]. split; [vm_compute; reflexivity|].
  split; [vm_compute; reflexivity|].
  split; [|vm_compute; repeat split].
  assert (Hh : height (x20_at 8) < HEIGHT_BOUND) by (vm_compute; reflexivity).
  assert (Hk : nth_error (due (expq (x20_at 8)) (height (x20_at 8))) 0 = Some x20_c)
    by (vm_compute; reflexivity).
  (* the kernel must not be asked to convert anything that mentions the concrete state *)
  revert HI Hh Hk. generalize (x20_at 8). intros s HI Hh Hk.
  pose proof (C20_no_panic_endblock x20_cfg s x20_cfg_wf HI Hh 0%nat x20_c Hk) as H.
  cbv zeta in H. cbn [firstn fold_left] in H. exact (proj2 (proj2 H)).
Qed.
