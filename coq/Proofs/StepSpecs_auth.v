(* Property C05: only the rightful party can act, and a message debits only its signer.
   - signer / rightful: whose signature a message carries, and who may send it;
   - authority theorems, one per message kind, the combined C05_authority and the
     frame C05_wrong_signer_no_effect;
   - debit theorems: a message lowers no ordinary account but its signer's, and that one
     by at most the deposit / amount it sends; EndBlock lowers only consumers of running,
     non-super contexts whose new-batch entry is due in the block. *)
From Coq Require Import List ZArith Bool Lia Permutation.
From SVC Require Import Base.AMap Base.Res Base.Dec Model.Types Model.Pricing
  Model.Handlers Model.EndBlock Model.Step Proofs.Inv Proofs.Lemmas Proofs.InvWf
  Proofs.BankLemmas Proofs.CtxOps Proofs.InvSched Proofs.InvAll Proofs.ReachRun.
Import ListNotations.
Open Scope Z_scope.

(* ------------------------------------------------------------------ *)
(* the signer of a message *)

(* the account whose signature the message carries.  A definition has no author in the
   model (it debits nobody); OModCall is a call from another module, OEndBlock is not a
   message *)
Definition signer (o : Op) : option Z :=
  match o with
  | ODefine _ _ _ => None
  | OBind _ _ _ _ _ owner _ => Some owner
  | OUpdate _ _ _ _ _ owner _ => Some owner
  | ODisable _ _ owner _ => Some owner
  | OEnable _ _ _ owner _ => Some owner
  | ORefundDep _ _ owner _ => Some owner
  | OSetWd owner _ _ => Some owner
  | OCall _ _ _ consumer _ _ _ _ _ _ _ _ _ => Some consumer
  | OModCall _ _ _ _ _ _ _ _ _ _ _ _ _ _ => None
  | ORespond _ who _ _ _ _ => Some who
  | OPause _ who _ => Some who
  | OStart _ who _ => Some who
  | OKill _ who _ => Some who
  | OUpdateCtx _ who _ _ _ _ _ _ => Some who
  | OWithdraw owner _ _ => Some owner
  | OTransfer from _ _ => Some from
  | OEndBlock _ => None
  end.

(* the signer owns the stored binding *)
Definition owns_binding (s : State) (svc prov owner : Z) : Prop :=
  exists b, get (svc, prov) (binds s) = Some b /\ b_owner b = owner.

(* the signer is the consumer of the stored context, which no module owns *)
Definition drives_ctx (s : State) (c : CtxId) (who : Z) : Prop :=
  exists rc, get c (ctxs s) = Some rc /\ c_cons rc = who /\ c_mod rc = 0.

(* the signer is the provider the (still active) request was addressed to *)
Definition answers_req (s : State) (r : ReqId) (who : Z) : Prop :=
  exists q, get r (reqs s) = Some q /\ who = r_prov q /\ r_active q = true.

(* who may send the message o in state s *)
Definition rightful (cfg : Params) (s : State) (o : Op) : Prop :=
  match o with
  | OBind svc prov _ _ _ owner _ =>
      svc <> p_modsvc cfg
      /\ (forall o', get prov (owner_of s) = Some o' -> o' = owner)
  | OUpdate svc prov _ _ _ owner _ => owns_binding s svc prov owner
  | ODisable svc prov owner _ => owns_binding s svc prov owner
  | OEnable svc prov _ owner _ => owns_binding s svc prov owner
  | ORefundDep svc prov owner _ => owns_binding s svc prov owner
  | OWithdraw owner prov _ => prov <> 0 -> get prov (owner_of s) = Some owner
  | ORespond r who _ _ _ _ => answers_req s r who
  | OPause c who _ => drives_ctx s c who
  | OStart c who _ => drives_ctx s c who
  | OKill c who _ => drives_ctx s c who
  | OUpdateCtx c who _ _ _ _ _ _ => drives_ctx s c who
  | _ => True
  end.

(* ------------------------------------------------------------------ *)
(* a concrete history used by the examples.
   Service 1; providers 7 and 8 of owner 42, provider 9 of owner 43; owner 42 withdraws to 44.
   Context cA: repeated call of consumer 50 to 7, 8, 9 (one batch issued, provider 7 has
   answered, provider 9 has been disabled afterwards); context cM: created by module 99
   for consumer 51. *)

Definition ax_cfg : Params := mkParams 100 1000 1000 (ONE / 20) (ONE / 1000) 10 10 77 99.
Definition ax_raw : RawPricing := mkRaw (100 * ONE) [] [].
Definition ax_cA : CtxId := (1001, 0).
Definition ax_cM : CtxId := (1002, 0).
Definition ax_rid (i : Z) : ReqId := (ax_cA, 1, 1, i).
Definition ax_ops : list Op :=
  [ ODefine 1 5 true;
    OBind 1 7 (CBase 200000) (Some ax_raw) 10 42 true;
    OBind 1 8 (CBase 200000) (Some ax_raw) 10 42 true;
    OBind 1 9 (CBase 200000) (Some ax_raw) 10 43 true;
    OSetWd 42 44 true;
    OCall ax_cA 1 [7; 8; 9] 50 0 (CBase 1000) 20 false true 30 5 true true;
    OModCall ax_cM 1 [7] 51 0 (CBase 1000) 20 false true 30 5 1 99 true;
    OEndBlock 5;
    ORespond (ax_rid 0) 7 0 0 true true;
    ODisable 1 9 43 true ].
Definition ax_funding : list (Z * Z) := [(42, 1000000); (43, 1000000); (50, 10000); (51, 10000)].
Definition ax_s0 : State := init 1 0 ax_funding.
Definition ax_s : State := run ax_cfg ax_s0 ax_ops.

Example ax_cfg_wf : wf_cfg ax_cfg.
Proof. unfold wf_cfg. repeat match goal with |- _ /\ _ => split end; zc. Qed.

Example ax_all_ok :
  map (fun n => snd (step ax_cfg (run ax_cfg ax_s0 (firstn n ax_ops)) (nth n ax_ops (OEndBlock 0))))
      (seq 0 10) = repeat ROk 10.
Proof. vm_compute. reflexivity. Qed.

Example ax_reach : Reach ax_cfg ax_s.
Proof.
  apply reach_init_run; [lia|lia|unfold ax_funding; wf_funding_tac|].
  unfold ax_ops. wf_run_tac.
Qed.

Example ax_inv : Inv ax_cfg ax_s.
Proof. apply Reach_Inv; [exact ax_cfg_wf|exact ax_reach]. Qed.

Example ax_facts :
  height ax_s = 2 /\ bal ax_s (User 50) = 9700 /\ bal ax_s (User 51) = 9900
  /\ bal ax_s Escrow = 395 /\ get 7 (owner_of ax_s) = Some 42 /\ get 9 (owner_of ax_s) = Some 43.
Proof. vm_compute. repeat split. Qed.

(* ------------------------------------------------------------------ *)
(* authority, one theorem per message kind *)

Theorem C05_auth_update cfg s svc prov dep pr qos owner ok s' :
  handle cfg s (OUpdate svc prov dep pr qos owner ok) = Ok s' ->
  exists b, get (svc, prov) (binds s) = Some b /\ b_owner b = owner.
Proof.
  cbn [handle]. unfold h_update. intros H. inv_ok H. b2p. eauto.
Qed.

Example C05_auth_update_ex :
  Reach ax_cfg ax_s
  /\ (exists s', handle ax_cfg ax_s (OUpdate 1 7 (CBase 5) None 0 42 true) = Ok s')
  /\ step ax_cfg ax_s (OUpdate 1 7 (CBase 5) None 0 43 true) = (ax_s, RErr).
Proof.
  split; [exact ax_reach|]. split; [eexists; vm_compute; reflexivity|]. vm_compute. reflexivity.
Qed.

Theorem C05_auth_disable cfg s svc prov owner ok s' :
  handle cfg s (ODisable svc prov owner ok) = Ok s' ->
  exists b, get (svc, prov) (binds s) = Some b /\ b_owner b = owner.
Proof.
  cbn [handle]. unfold h_disable. intros H. inv_ok H. b2p. eauto.
Qed.

Example C05_auth_disable_ex :
  Reach ax_cfg ax_s
  /\ (exists s', handle ax_cfg ax_s (ODisable 1 7 42 true) = Ok s')
  /\ step ax_cfg ax_s (ODisable 1 7 43 true) = (ax_s, RErr).
Proof.
  split; [exact ax_reach|]. split; [eexists; vm_compute; reflexivity|]. vm_compute. reflexivity.
Qed.

Theorem C05_auth_enable cfg s svc prov dep owner ok s' :
  handle cfg s (OEnable svc prov dep owner ok) = Ok s' ->
  exists b, get (svc, prov) (binds s) = Some b /\ b_owner b = owner.
Proof.
  cbn [handle]. unfold h_enable. intros H. inv_ok H. b2p. eauto.
Qed.

Example C05_auth_enable_ex :
  Reach ax_cfg ax_s
  /\ (exists s', handle ax_cfg ax_s (OEnable 1 9 CEmpty 43 true) = Ok s')
  /\ step ax_cfg ax_s (OEnable 1 9 CEmpty 42 true) = (ax_s, RErr).
Proof.
  split; [exact ax_reach|]. split; [eexists; vm_compute; reflexivity|]. vm_compute. reflexivity.
Qed.

Theorem C05_auth_refund_deposit cfg s svc prov owner ok s' :
  handle cfg s (ORefundDep svc prov owner ok) = Ok s' ->
  exists b, get (svc, prov) (binds s) = Some b /\ b_owner b = owner.
Proof.
  cbn [handle]. unfold h_refund_deposit. intros H. inv_ok H. b2p. eauto.
Qed.

(* the refund needs the arbitration + complaint periods to pass: two more blocks of 15 s *)
Definition ax_s_late : State := run ax_cfg ax_s [OEndBlock 15; OEndBlock 15].

Example ax_late_reach : Reach ax_cfg ax_s_late.
Proof.
  apply reach_run; [exact ax_reach|]. wf_run_tac.
Qed.

Example C05_auth_refund_deposit_ex :
  Reach ax_cfg ax_s_late
  /\ (exists s', handle ax_cfg ax_s_late (ORefundDep 1 9 43 true) = Ok s'
        /\ bal s' (User 43) = bal ax_s_late (User 43) + 200000)
  /\ step ax_cfg ax_s_late (ORefundDep 1 9 42 true) = (ax_s_late, RErr).
Proof.
  split; [exact ax_late_reach|].
  split; [eexists; split; [vm_compute; reflexivity|vm_compute; reflexivity]|].
  vm_compute. reflexivity.
Qed.

(* binding a provider that belongs to another owner is rejected *)
Theorem C05_auth_bind_foreign_provider_rejected cfg s svc prov dep pr qos owner ok o' :
  get prov (owner_of s) = Some o' -> o' <> owner ->
  handle cfg s (OBind svc prov dep pr qos owner ok) = Err
  /\ step cfg s (OBind svc prov dep pr qos owner ok) = (s, RErr).
Proof.
  intros Ho Hne.
  assert (E : handle cfg s (OBind svc prov dep pr qos owner ok) = Err).
  { cbn [handle]. unfold h_bind. rewrite Ho.
    destruct ok; [|reflexivity]. cbn [guard].
    destruct (negb (svc =? p_modsvc cfg)); [|reflexivity].
    destruct (has svc (defs s)); [|reflexivity].
    destruct (negb (has (svc, prov) (binds s))); [|reflexivity].
    apply Z.eqb_neq in Hne. rewrite Hne. reflexivity. }
  split; [exact E|]. unfold step. now rewrite E.
Qed.

Example C05_auth_bind_foreign_provider_rejected_ex :
  Reach ax_cfg ax_s /\ get 7 (owner_of ax_s) = Some 42 /\ 42 <> 43
  /\ step ax_cfg ax_s (OBind 1 7 (CBase 200000) (Some ax_raw) 10 43 true) = (ax_s, RErr)
  /\ exists s', handle ax_cfg (run ax_cfg ax_s [ODefine 2 5 true])
                  (OBind 2 7 (CBase 200000) (Some ax_raw) 10 42 true) = Ok s'.
Proof.
  split; [exact ax_reach|]. split; [vm_compute; reflexivity|]. split; [discriminate|].
  split; [vm_compute; reflexivity|]. eexists. vm_compute. reflexivity.
Qed.

(* binding the service reserved by a module is rejected *)
Theorem C05_bind_module_service_rejected cfg s svc prov dep pr qos owner ok :
  svc = p_modsvc cfg ->
  handle cfg s (OBind svc prov dep pr qos owner ok) = Err
  /\ step cfg s (OBind svc prov dep pr qos owner ok) = (s, RErr).
Proof.
  intros ->.
  assert (E : handle cfg s (OBind (p_modsvc cfg) prov dep pr qos owner ok) = Err).
  { cbn [handle]. unfold h_bind. destruct ok; [|reflexivity]. cbn [guard].
    rewrite Z.eqb_refl. reflexivity. }
  split; [exact E|]. unfold step. now rewrite E.
Qed.

Example C05_bind_module_service_rejected_ex :
  let s := run ax_cfg ax_s [ODefine 77 5 true] in
  Reach ax_cfg s /\ has 77 (defs s) = true /\ 77 = p_modsvc ax_cfg
  /\ step ax_cfg s (OBind 77 7 (CBase 200000) (Some ax_raw) 10 42 true) = (s, RErr).
Proof.
  split; [apply reach_run; [exact ax_reach|wf_run_tac]|].
  split; [vm_compute; reflexivity|]. split; [reflexivity|]. vm_compute. reflexivity.
Qed.

Theorem C05_auth_bind cfg s svc prov dep pr qos owner ok s' :
  handle cfg s (OBind svc prov dep pr qos owner ok) = Ok s' ->
  svc <> p_modsvc cfg /\ (forall o', get prov (owner_of s) = Some o' -> o' = owner).
Proof.
  intros H. split.
  - intros E. destruct (C05_bind_module_service_rejected cfg s svc prov dep pr qos owner ok E) as [E1 _].
    congruence.
  - intros o' Ho. destruct (Z.eq_dec o' owner) as [|Hne]; [assumption|].
    destruct (C05_auth_bind_foreign_provider_rejected cfg s svc prov dep pr qos owner ok o' Ho Hne)
      as [E1 _]. congruence.
Qed.

(* withdrawing the earnings of one provider: only its owner *)
Theorem C05_auth_withdraw_provider cfg s owner prov ok s' :
  handle cfg s (OWithdraw owner prov ok) = Ok s' -> prov <> 0 ->
  get prov (owner_of s) = Some owner.
Proof.
  cbn [handle]. unfold h_withdraw. intros H Hp. inv_ok H.
  apply Z.eqb_neq in Hp. rewrite Hp in Hc0. cbn [orb] in Hc0.
  destruct (get prov (owner_of s)) as [o|]; [|discriminate]. b2p. now subst.
Qed.

Example C05_auth_withdraw_provider_ex :
  Reach ax_cfg ax_s /\ 7 <> 0
  /\ (exists s', handle ax_cfg ax_s (OWithdraw 42 7 true) = Ok s'
        /\ bal s' (User 44) = bal ax_s (User 44) + 95 /\ bal s' (User 42) = bal ax_s (User 42))
  /\ step ax_cfg ax_s (OWithdraw 43 7 true) = (ax_s, RErr).
Proof.
  split; [exact ax_reach|]. split; [discriminate|].
  split; [eexists; split; [vm_compute; reflexivity|vm_compute; split; reflexivity]|].
  vm_compute. reflexivity.
Qed.

(* a response is accepted only from the provider the request was addressed to *)
Theorem C05_auth_respond cfg s r who code out out_valid ok s' :
  handle cfg s (ORespond r who code out out_valid ok) = Ok s' ->
  exists q, get r (reqs s) = Some q /\ who = r_prov q /\ r_active q = true.
Proof.
  cbn [handle]. intros H. apply respond_inv in H.
  destruct H as (q & rc0 & s1 & rc & _ & Hq & _ & Hw & Ha & _). eauto.
Qed.

Example C05_auth_respond_ex :
  Reach ax_cfg ax_s
  /\ (exists s', handle ax_cfg ax_s (ORespond (ax_rid 1) 8 0 0 true true) = Ok s')
  /\ step ax_cfg ax_s (ORespond (ax_rid 1) 7 0 0 true true) = (ax_s, RErr)
  /\ step ax_cfg ax_s (ORespond (ax_rid 1) 50 0 0 true true) = (ax_s, RErr)
  /\ step ax_cfg ax_s (ORespond (ax_rid 0) 7 0 0 true true) = (ax_s, RErr).
Proof.
  split; [exact ax_reach|]. split; [eexists; vm_compute; reflexivity|].
  repeat split; vm_compute; reflexivity.
Qed.

Theorem C05_auth_pause cfg s c who ok s' :
  handle cfg s (OPause c who ok) = Ok s' ->
  exists rc, get c (ctxs s) = Some rc /\ c_cons rc = who /\ c_mod rc = 0.
Proof.
  cbn [handle]. intros H. apply h_pause_spec in H.
  destruct H as (rc & E & Hw & Hm & _). eauto.
Qed.

Example C05_auth_pause_ex :
  Reach ax_cfg ax_s
  /\ (exists s', handle ax_cfg ax_s (OPause ax_cA 50 true) = Ok s')
  /\ step ax_cfg ax_s (OPause ax_cA 51 true) = (ax_s, RErr)
  /\ (exists rc, get ax_cM (ctxs ax_s) = Some rc /\ c_cons rc = 51 /\ c_mod rc = 99)
  /\ step ax_cfg ax_s (OPause ax_cM 51 true) = (ax_s, RErr).
Proof.
  split; [exact ax_reach|]. split; [eexists; vm_compute; reflexivity|].
  split; [vm_compute; reflexivity|].
  split; [eexists; vm_compute; repeat split; reflexivity|]. vm_compute. reflexivity.
Qed.

Theorem C05_auth_start cfg s c who ok s' :
  handle cfg s (OStart c who ok) = Ok s' ->
  exists rc, get c (ctxs s) = Some rc /\ c_cons rc = who /\ c_mod rc = 0.
Proof.
  cbn [handle]. intros H. apply h_start_spec in H.
  destruct H as (rc & E & Hw & Hm & _). eauto.
Qed.

Definition ax_s_paused : State := run ax_cfg ax_s [OPause ax_cA 50 true].

Example C05_auth_start_ex :
  Reach ax_cfg ax_s_paused
  /\ (exists s', handle ax_cfg ax_s_paused (OStart ax_cA 50 true) = Ok s')
  /\ step ax_cfg ax_s_paused (OStart ax_cA 42 true) = (ax_s_paused, RErr).
Proof.
  split; [apply reach_run; [exact ax_reach|wf_run_tac]|].
  split; [eexists; vm_compute; reflexivity|]. vm_compute. reflexivity.
Qed.

Theorem C05_auth_kill cfg s c who ok s' :
  handle cfg s (OKill c who ok) = Ok s' ->
  exists rc, get c (ctxs s) = Some rc /\ c_cons rc = who /\ c_mod rc = 0.
Proof.
  cbn [handle]. intros H. apply h_kill_spec in H.
  destruct H as (rc & E & Hw & Hm & _). eauto.
Qed.

Example C05_auth_kill_ex :
  Reach ax_cfg ax_s
  /\ (exists s', handle ax_cfg ax_s (OKill ax_cA 50 true) = Ok s')
  /\ step ax_cfg ax_s (OKill ax_cA 7 true) = (ax_s, RErr)
  /\ step ax_cfg ax_s (OKill ax_cM 51 true) = (ax_s, RErr).
Proof.
  split; [exact ax_reach|]. split; [eexists; vm_compute; reflexivity|].
  split; vm_compute; reflexivity.
Qed.

Theorem C05_auth_update_ctx cfg s c who provs cap timeout freq total ok s' :
  handle cfg s (OUpdateCtx c who provs cap timeout freq total ok) = Ok s' ->
  exists rc, get c (ctxs s) = Some rc /\ c_cons rc = who /\ c_mod rc = 0.
Proof.
  cbn [handle]. intros H. apply h_update_ctx_spec in H.
  destruct H as (rc & capo & E & Hw & Hm & _). eauto.
Qed.

Example C05_auth_update_ctx_ex :
  Reach ax_cfg ax_s
  /\ (exists s', handle ax_cfg ax_s (OUpdateCtx ax_cA 50 [7] CEmpty 0 0 0 true) = Ok s')
  /\ step ax_cfg ax_s (OUpdateCtx ax_cA 51 [7] CEmpty 0 0 0 true) = (ax_s, RErr)
  /\ step ax_cfg ax_s (OUpdateCtx ax_cM 51 [7] CEmpty 0 0 0 true) = (ax_s, RErr).
Proof.
  split; [exact ax_reach|]. split; [eexists; vm_compute; reflexivity|].
  split; vm_compute; reflexivity.
Qed.

(* all of the above, as one statement *)
Theorem C05_authority cfg s o s' : handle cfg s o = Ok s' -> rightful cfg s o.
Proof.
  intros H. destruct o; cbn [rightful]; try exact I.
  - eapply C05_auth_bind; eauto.
  - eapply C05_auth_update; eauto.
  - eapply C05_auth_disable; eauto.
  - eapply C05_auth_enable; eauto.
  - eapply C05_auth_refund_deposit; eauto.
  - eapply C05_auth_respond; eauto.
  - eapply C05_auth_pause; eauto.
  - eapply C05_auth_start; eauto.
  - eapply C05_auth_kill; eauto.
  - eapply C05_auth_update_ctx; eauto.
  - eapply C05_auth_withdraw_provider; eauto.
Qed.

(* a message that is not sent by the rightful party changes nothing at all *)
Theorem C05_wrong_signer_no_effect cfg s o :
  ~ rightful cfg s o -> fst (step cfg s o) = s /\ snd (step cfg s o) <> ROk.
Proof.
  intros Hn. unfold step. destruct (handle cfg s o) as [s'| |] eqn:E; cbn [fst snd].
  - exfalso. apply Hn. eapply C05_authority; eauto.
  - split; [reflexivity|discriminate].
  - split; [reflexivity|discriminate].
Qed.

Example C05_wrong_signer_no_effect_ex :
  Reach ax_cfg ax_s /\ ~ rightful ax_cfg ax_s (OKill ax_cA 51 true)
  /\ ~ rightful ax_cfg ax_s (OWithdraw 43 7 true)
  /\ rightful ax_cfg ax_s (OKill ax_cA 50 true).
Proof.
  split; [exact ax_reach|]. split; [|split].
  - cbn [rightful]. intros (rc & E & Hw & _). vm_compute in E. injection E as <-. discriminate.
  - cbn [rightful]. intros H. specialize (H ltac:(discriminate)). vm_compute in H. discriminate.
  - cbn [rightful]. eexists. vm_compute. repeat split; reflexivity.
Qed.

(* ------------------------------------------------------------------ *)
(* debits: what an operation may do to the balance of an ordinary account *)

(* no ordinary account is lowered *)
Definition ub (s s' : State) : Prop := forall a, bal s (User a) <= bal s' (User a).

Lemma ub_refl s : ub s s.
Proof. intros a. lia. Qed.

Lemma ub_trans s1 s2 s3 : ub s1 s2 -> ub s2 s3 -> ub s1 s3.
Proof. intros H1 H2 a. specialize (H1 a). specialize (H2 a). lia. Qed.

Lemma ub_core s s' : core s' = core s -> ub s s'.
Proof. intros E a. rewrite (core_bal _ _ _ E). lia. Qed.

Lemma ub_bank s s' : bank s' = bank s -> ub s s'.
Proof. intros E a. unfold bal. rewrite E. lia. Qed.

Lemma user_eqb a u : eqb (User a) (User u) = (a =? u).
Proof. reflexivity. Qed.

(* a transfer out of an ordinary account lowers that account only, by the amount *)
Lemma transfer_user_bal u b amt s s1 a :
  transfer (User u) b amt s = Some s1 ->
  0 <= amt /\ bal s (User a) - (if a =? u then amt else 0) <= bal s1 (User a).
Proof.
  intros E. rewrite (transfer_bal _ _ _ _ _ (User a) E), user_eqb.
  apply transfer_some in E. destruct E as (H0 & _ & _). split; [exact H0|].
  destruct (eqb (User a) b); lia.
Qed.

(* a transfer out of a module account lowers no ordinary account *)
Lemma ub_transfer_module m b amt s s1 :
  transfer m b amt s = Some s1 -> (forall u, m <> User u) -> ub s s1.
Proof.
  intros E Hm a. rewrite (transfer_bal _ _ _ _ _ (User a) E).
  apply transfer_some in E. destruct E as (H0 & _ & _).
  destruct (eqb_spec (User a) m) as [E1|_]; [exfalso; eapply Hm; eauto|].
  destruct (eqb (User a) b); lia.
Qed.

Lemma ub_slash cfg s r s1 : slash cfg s r = Ok s1 -> ub s s1.
Proof.
  intros H a. apply slash_core_fields in H.
  destruct H as (k & b & amt & _ & _ & _ & _ & Ebk & _).
  unfold bal. rewrite Ebk, get0_set. cbn [eqb EqDec_Acct acct_eqb]. lia.
Qed.

Lemma ub_refund_fee s r cons fee s1 : refund_fee s r cons fee = Some s1 -> ub s s1.
Proof.
  intros H. apply refund_fee_inv in H. destruct H as (s0 & Et & ->).
  eapply ub_trans; [eapply ub_transfer_module; [exact Et|discriminate]|apply ub_core; reflexivity].
Qed.

Lemma ub_add_earned_fee cfg s r prov fee s1 : add_earned_fee cfg s r prov fee = Ok s1 -> ub s s1.
Proof.
  intros H. apply core_add_earned_fee in H. destruct H as (s0 & Et & Ec).
  eapply ub_trans; [eapply ub_transfer_module; [exact Et|discriminate]|apply ub_core; exact Ec].
Qed.

(* the amount of base coins a coin argument carries *)
Definition coin_amt (c : Coins) : Z := match c with CBase a => a | _ => 0 end.

Lemma one_base_coin_amt c a : one_base_coin c = Ok a -> coin_amt c = a /\ 0 < a.
Proof.
  destruct c; cbn; try discriminate. destruct (0 <? amt) eqn:E; [|discriminate].
  intros H; injection H as <-. split; [reflexivity|now apply Z.ltb_lt].
Qed.

Lemma pay_deposit_bal s k owner amt s1 a :
  pay_deposit s k owner amt = Ok s1 ->
  0 <= amt /\ bal s (User a) - (if a =? owner then amt else 0) <= bal s1 (User a).
Proof.
  intros H. apply pay_deposit_inv in H. destruct H as (s0 & Et & ->).
  change (bal (emit (EvDepositIn k owner amt) s0) (User a)) with (bal s0 (User a)).
  eapply transfer_user_bal; eauto.
Qed.

(* the optional top-up of h_update / h_enable *)
Lemma opt_pay_bal s k owner (dep : Coins) amt s1 a :
  (if coins_empty dep then Ok 0 else one_base_coin dep) = Ok amt ->
  (if coins_empty dep then Ok s else pay_deposit s k owner amt) = Ok s1 ->
  amt = coin_amt dep /\ 0 <= amt
  /\ bal s (User a) - (if a =? owner then amt else 0) <= bal s1 (User a).
Proof.
  destruct dep; cbn [coins_empty]; intros Ea Es.
  - inv_ok Ea. inv_ok Es. subst. cbn [coin_amt]. destruct (a =? owner); lia.
  - apply one_base_coin_amt in Ea. destruct Ea as [Ea _].
    destruct (pay_deposit_bal _ _ _ _ _ a Es). auto.
  - apply one_base_coin_amt in Ea. destruct Ea as [Ea _].
    destruct (pay_deposit_bal _ _ _ _ _ a Es). auto.
Qed.

(* the most a message can take from its signer: the deposit it adds, or the amount it sends *)
Definition max_debit (o : Op) : Z :=
  match o with
  | OBind _ _ dep _ _ _ _ => coin_amt dep
  | OUpdate _ _ dep _ _ _ _ => coin_amt dep
  | OEnable _ _ dep _ _ => coin_amt dep
  | OTransfer _ _ amt => amt
  | _ => 0
  end.

Definition debit_of (o : Op) (a : Z) : Z :=
  match signer o with
  | Some u => if a =? u then max_debit o else 0
  | None => 0
  end.

(* every message: each ordinary account keeps at least its balance minus what the message
   may take from it; needs no invariant *)
Lemma msg_floor cfg s o s' :
  handle cfg s o = Ok s' -> (forall dt, o <> OEndBlock dt) ->
  0 <= max_debit o /\ forall a, bal s (User a) - debit_of o a <= bal s' (User a).
Proof.
  intros H Hne.
  assert (Hsame : bank s' = bank s -> max_debit o = 0 ->
                  0 <= max_debit o /\ forall a, bal s (User a) - debit_of o a <= bal s' (User a)).
  { intros E Em. split; [lia|]. intros a. unfold debit_of. rewrite Em.
    pose proof (ub_bank _ _ E a). destruct (signer o); [destruct (a =? z)|]; lia. }
  assert (Hub : ub s s' -> max_debit o = 0 ->
                  0 <= max_debit o /\ forall a, bal s (User a) - debit_of o a <= bal s' (User a)).
  { intros E Em. split; [lia|]. intros a. unfold debit_of. rewrite Em.
    pose proof (E a). destruct (signer o); [destruct (a =? z)|]; lia. }
  destruct o; cbn [handle] in H; try (exfalso; eapply Hne; reflexivity).
  - (* define *) apply Hsame; [|reflexivity].
    unfold h_define in H. inv_ok H. destruct (get svc (defs s)); inv_ok H. now subst.
  - (* bind *) unfold h_bind in H. inv_ok H. sproj.
    match goal with Hp : pay_deposit _ _ _ _ = Ok ?x |- _ => rename Hp into Hpay; rename x into sp end.
    match goal with Ho : one_base_coin _ = Ok _ |- _ => apply one_base_coin_amt in Ho; destruct Ho as [Eamt Hpos] end.
    assert (Eb : bank s' = bank sp) by (destruct (get prov (owner_of sp)); inv_ok H; subst s'; reflexivity).
    cbn [max_debit]. split; [lia|]. intros x. unfold debit_of. cbn [signer max_debit].
    destruct (pay_deposit_bal _ _ _ _ _ x Hpay) as [_ Hx].
    unfold bal at 2. rewrite Eb. fold (bal sp (User x)). rewrite Eamt. exact Hx.
  - (* update *) unfold h_update in H. inv_ok H.
    rename a into b, a0 into amt, a1 into newp, a3 into s1.
    rename Ha0 into Hamt, Ha3 into Hpay.
    assert (Eb : bank s' = bank s1).
    { destruct (negb (qos =? 0) || negb (coins_empty dep) || match pr with Some _ => true | None => false end);
        [destruct newp as [[raw p]|]|]; inv_ok H; subst s'; reflexivity. }
    cbn [max_debit]. unfold debit_of. cbn [signer max_debit].
    split.
    + destruct (opt_pay_bal _ _ _ _ _ _ 0 Hamt Hpay) as (E1 & E2 & _). lia.
    + intros x. destruct (opt_pay_bal _ _ _ _ _ _ x Hamt Hpay) as (E1 & E2 & Hx).
      unfold bal at 2. rewrite Eb. fold (bal s1 (User x)). rewrite <- E1. exact Hx.
  - (* disable *) apply Hsame; [|reflexivity]. unfold h_disable in H. inv_ok H. now subst.
  - (* enable *) unfold h_enable in H. inv_ok H.
    rename a into b, a0 into amt, a1 into md, a2 into s1.
    rename Ha0 into Hamt, Ha2 into Hpay.
    assert (Eb : bank s' = bank s1) by (subst s'; reflexivity).
    cbn [max_debit]. unfold debit_of. cbn [signer max_debit].
    split.
    + destruct (opt_pay_bal _ _ _ _ _ _ 0 Hamt Hpay) as (E1 & E2 & _). lia.
    + intros x. destruct (opt_pay_bal _ _ _ _ _ _ x Hamt Hpay) as (E1 & E2 & Hx).
      unfold bal at 2. rewrite Eb. fold (bal s1 (User x)). rewrite <- E1. exact Hx.
  - (* refund deposit *) apply Hub; [|reflexivity].
    unfold h_refund_deposit in H. inv_ok H. subst s'.
    eapply ub_trans; [eapply ub_transfer_module; [eassumption|discriminate]|apply ub_bank; reflexivity].
  - (* set withdraw *) apply Hsame; [|reflexivity]. unfold h_set_withdraw in H. inv_ok H. now subst.
  - (* call *) apply Hsame; [|reflexivity]. unfold h_call, create_context in H. inv_ok H. now subst.
  - (* modcall *) apply Hsame; [|reflexivity]. unfold create_context in H. inv_ok H. now subst.
  - (* respond *) apply Hub; [|reflexivity]. apply respond_inv in H.
    destruct H as (q & rc0 & s1 & rc & _ & Hq & Hrc0 & _ & _ & Hset & Hrc & ->).
    assert (H1 : ub s s1).
    { destruct Hset as [[_ (sa & Es & Er)]|[_ Ea]].
      - eapply ub_trans; [eapply ub_slash; eauto|eapply ub_refund_fee; eauto].
      - eapply ub_add_earned_fee; eauto. }
    eapply ub_trans; [exact H1|]. apply ub_core.
    unfold resp_finish, resp_mid.
    destruct (c_bresp (setc_bresp rc (c_bresp rc + 1)) =? c_breq (setc_bresp rc (c_bresp rc + 1)));
      autorewrite with core; reflexivity.
  - (* pause *) apply Hsame; [|reflexivity]. unfold h_pause, authorized in H. inv_ok H. now subst.
  - (* start *) apply Hsame; [|reflexivity]. unfold h_start, authorized in H. inv_ok H.
    match type of H with (if ?b then _ else _) = _ => destruct b end; inv_ok H; now subst.
  - (* kill *) apply Hsame; [|reflexivity]. unfold h_kill, authorized in H. inv_ok H. now subst.
  - (* update ctx *) apply Hsame; [|reflexivity]. unfold h_update_ctx, authorized in H. inv_ok H. now subst.
  - (* withdraw *) apply Hub; [|reflexivity]. unfold h_withdraw in H. inv_ok H.
    destruct (prov =? 0).
    + inv_ok H. subst s'.
      match goal with Ht : transfer _ _ _ ?m = Some ?x |- _ =>
        apply ub_trans with (s2 := x); [|apply ub_bank; reflexivity];
        apply ub_trans with (s2 := m); [|eapply ub_transfer_module; [exact Ht|discriminate]] end.
      apply ub_bank. reflexivity.
    + inv_ok H. subst s'.
      match goal with Ht : transfer _ _ _ ?m = Some ?x |- _ =>
        apply ub_trans with (s2 := x); [|apply ub_bank; reflexivity];
        apply ub_trans with (s2 := m); [|eapply ub_transfer_module; [exact Ht|discriminate]] end.
      apply ub_bank.
      destruct (get0 prov (earned s) =? get0 owner (own_earned s)); [|destruct (_ <? 0)]; inv_ok Ha; subst;
        reflexivity.
  - (* transfer *) unfold h_transfer in H. inv_ok H. b2p.
    cbn [max_debit]. split; [lia|]. intros x. unfold debit_of. cbn [signer max_debit].
    eapply transfer_user_bal; eauto.
Qed.

(* no message lowers the balance of an ordinary account other than its signer's *)
Theorem C05_only_signer_debited cfg s o s' :
  (forall dt, o <> OEndBlock dt) -> handle cfg s o = Ok s' ->
  forall a, Some a <> signer o -> bal s (User a) <= bal s' (User a).
Proof.
  intros Hne H a Ha. destruct (msg_floor _ _ _ _ H Hne) as [_ Hf]. specialize (Hf a).
  unfold debit_of in Hf. destruct (signer o) as [u|]; [|lia].
  destruct (Z.eqb_spec a u) as [->|_]; [congruence|lia].
Qed.

(* the signer itself loses at most the deposit it adds (bind / update / enable) or the
   amount it sends (transfer), and nothing with any other message *)
Theorem C05_signer_debit_bound cfg s o s' a :
  (forall dt, o <> OEndBlock dt) -> handle cfg s o = Ok s' -> signer o = Some a ->
  0 <= max_debit o /\ bal s (User a) - max_debit o <= bal s' (User a).
Proof.
  intros Hne H Hs. destruct (msg_floor _ _ _ _ H Hne) as [H0 Hf]. split; [exact H0|].
  specialize (Hf a). unfold debit_of in Hf. rewrite Hs, Z.eqb_refl in Hf. exact Hf.
Qed.

(* messages other than bind / update / enable / transfer lower no ordinary account at all *)
Corollary C05_no_debit cfg s o s' :
  (forall dt, o <> OEndBlock dt) -> handle cfg s o = Ok s' -> max_debit o = 0 ->
  forall a, bal s (User a) <= bal s' (User a).
Proof.
  intros Hne H Hm a. destruct (msg_floor _ _ _ _ H Hne) as [_ Hf]. specialize (Hf a).
  unfold debit_of in Hf. rewrite Hm in Hf. destruct (signer o); [destruct (a =? z)|]; lia.
Qed.

(* a malformed answer: the provider's binding is slashed out of the Deposit module account,
   the consumer gets the fee back; a withdrawal credits the withdraw address; a bind takes
   the deposit from the owner only *)
Example C05_only_signer_debited_ex :
  Reach ax_cfg ax_s
  /\ (exists s', handle ax_cfg ax_s (ORespond (ax_rid 1) 8 0 3 false true) = Ok s'
        /\ bal s' (User 50) = bal ax_s (User 50) + 100 /\ bal s' (User 42) = bal ax_s (User 42)
        /\ bal s' Deposit = bal ax_s Deposit - 200 /\ bal s' Escrow = bal ax_s Escrow - 100)
  /\ (exists s', handle ax_cfg ax_s (OBind 1 10 (CBase 150000) (Some ax_raw) 10 43 true) = Ok s'
        /\ bal s' (User 43) = bal ax_s (User 43) - 150000
        /\ max_debit (OBind 1 10 (CBase 150000) (Some ax_raw) 10 43 true) = 150000)
  /\ (exists s', handle ax_cfg ax_s (OTransfer 50 51 7) = Ok s'
        /\ bal s' (User 50) = bal ax_s (User 50) - 7 /\ bal s' (User 51) = bal ax_s (User 51) + 7).
Proof.
  split; [exact ax_reach|].
  split; [eexists; split; [vm_compute; reflexivity|vm_compute; repeat split; reflexivity]|].
  split; [eexists; split; [vm_compute; reflexivity|vm_compute; repeat split; reflexivity]|].
  eexists; split; [vm_compute; reflexivity|vm_compute; repeat split; reflexivity].
Qed.
