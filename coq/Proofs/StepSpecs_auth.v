(* Property C05: only the rightful party can act, and a message debits only its signer.
   - signer / rightful: whose signature a message carries, and who may send it;
   - authority theorems, one per message kind, the combined C05_authority and the
     frame C05_wrong_signer_no_effect;
   - debit theorems: a message lowers no ordinary account but its signer's, and that one
     by at most the deposit / amount it sends; EndBlock lowers only consumers of running,
     non-super contexts whose new-batch entry is due in the block. *)
From Coq Require Import List ZArith Bool Lia Permutation.
From SVC Require Import Base.AMap Base.Res Base.Dec Model.Types Model.Pricing
  Model.Handlers Model.EndBlock Model.Step Proofs.Inv Proofs.Lemmas Proofs.InvWf
  Proofs.BankLemmas Proofs.CtxOps Proofs.InvSched Proofs.InvAll Proofs.ReachRun.
Import ListNotations.
Open Scope Z_scope.

(* ------------------------------------------------------------------ *)
(* the signer of a message *)

(* the account whose signature the message carries.  A definition has no author in the
   model (it debits nobody); OModCall is a call from another module, OEndBlock is not a
   message *)
Definition signer (o : Op) : option Z :=
  match o with
  | ODefine _ _ _ => None
  | OBind _ _ _ _ _ owner _ => Some owner
  | OUpdate _ _ _ _ _ owner _ => Some owner
  | ODisable _ _ owner _ => Some owner
  | OEnable _ _ _ owner _ => Some owner
  | ORefundDep _ _ owner _ => Some owner
  | OSetWd owner _ _ => Some owner
  | OCall _ _ _ consumer _ _ _ _ _ _ _ _ _ => Some consumer
  | OModCall _ _ _ _ _ _ _ _ _ _ _ _ _ _ => None
  | ORespond _ who _ _ _ _ => Some who
  | OPause _ who _ => Some who
  | OStart _ who _ => Some who
  | OKill _ who _ => Some who
  | OUpdateCtx _ who _ _ _ _ _ _ => Some who
  | OWithdraw owner _ _ => Some owner
  | OTransfer from _ _ => Some from
  | OEndBlock _ => None
  (* keeper API driven by the module that owns the context: no message, no signature *)
  | OModUpdate _ _ _ _ _ _ _ _ | OModPause _ _ | OModStart _ _ | OModKill _ _ => None
  end.

(* the signer owns the stored binding *)
Definition owns_binding (s : State) (svc prov owner : Z) : Prop :=
  exists b, get (svc, prov) (binds s) = Some b /\ b_owner b = owner.

(* the signer is the consumer of the stored context, which no module owns *)
Definition drives_ctx (s : State) (c : CtxId) (who : Z) : Prop :=
  exists rc, get c (ctxs s) = Some rc /\ c_cons rc = who /\ c_mod rc = 0.

(* the owning module names the consumer of the stored context (CheckAuthority(..., false)) *)
Definition names_consumer (s : State) (c : CtxId) (who : Z) : Prop :=
  exists rc, get c (ctxs s) = Some rc /\ c_cons rc = who.

(* the signer is the provider the (still active) request was addressed to *)
Definition answers_req (s : State) (r : ReqId) (who : Z) : Prop :=
  exists q, get r (reqs s) = Some q /\ who = r_prov q /\ r_active q = true.

(* who may send the message o in state s *)
Definition rightful (cfg : Params) (s : State) (o : Op) : Prop :=
  match o with
  | OBind svc prov _ _ _ owner _ =>
      svc <> p_modsvc cfg
      /\ (forall o', get prov (owner_of s) = Some o' -> o' = owner)
  | OUpdate svc prov _ _ _ owner _ => owns_binding s svc prov owner
  | ODisable svc prov owner _ => owns_binding s svc prov owner
  | OEnable svc prov _ owner _ => owns_binding s svc prov owner
  | ORefundDep svc prov owner _ => owns_binding s svc prov owner
  | OWithdraw owner prov _ => prov <> 0 -> get prov (owner_of s) = Some owner
  | ORespond r who _ _ _ _ => answers_req s r who
  | OPause c who _ => drives_ctx s c who
  | OStart c who _ => drives_ctx s c who
  | OKill c who _ => drives_ctx s c who
  | OUpdateCtx c who _ _ _ _ _ _ => drives_ctx s c who
  | OModUpdate c who _ _ _ _ _ _ => names_consumer s c who
  | OModPause c who => names_consumer s c who
  | OModStart c who => names_consumer s c who
  | OModKill c who => names_consumer s c who
  | _ => True
  end.

(* ------------------------------------------------------------------ *)
(* a concrete history used by the examples.
   Service 1; providers 7 and 8 of owner 42, provider 9 of owner 43; owner 42 withdraws to 44.
   Context cA: repeated call of consumer 50 to 7, 8, 9 (one batch issued, provider 7 has
   answered, provider 9 has been disabled afterwards); context cM: created by module 99
   for consumer 51. *)

Definition ax_cfg : Params := mkParams 100 1000 1000 (ONE / 20) (ONE / 1000) 10 10 77 99.
Definition ax_raw : RawPricing := mkRaw (100 * ONE) [] [].
Definition ax_cA : CtxId := (1001, 0).
Definition ax_cM : CtxId := (1002, 0).
Definition ax_rid (i : Z) : ReqId := (ax_cA, 1, 1, i).
Definition ax_ops : list Op :=
  [ ODefine 1 5 true;
    OBind 1 7 (CBase 200000) (Some ax_raw) 10 42 true;
    OBind 1 8 (CBase 200000) (Some ax_raw) 10 42 true;
    OBind 1 9 (CBase 200000) (Some ax_raw) 10 43 true;
    OSetWd 42 44 true;
    OCall ax_cA 1 [7; 8; 9] 50 0 (CBase 1000) 20 false true 30 5 true true;
    OModCall ax_cM 1 [7] 51 0 (CBase 1000) 20 false true 30 5 1 99 true;
    OEndBlock 5;
    ORespond (ax_rid 0) 7 0 0 true true;
    ODisable 1 9 43 true ].
Definition ax_funding : list (Z * Z) := [(42, 1000000); (43, 1000000); (50, 10000); (51, 10000)].
Definition ax_s0 : State := init 1 0 ax_funding.
Definition ax_s : State := run ax_cfg ax_s0 ax_ops.

Example ax_cfg_wf : wf_cfg ax_cfg.
Proof. unfold wf_cfg. repeat match goal with |- _ /\ _ => split end; zc. Qed.

Example ax_all_ok :
  map (fun n => snd (step ax_cfg (run ax_cfg ax_s0 (firstn n ax_ops)) (nth n ax_ops (OEndBlock 0))))
      (seq 0 10) = repeat ROk 10.
Proof. vm_compute. reflexivity. Qed.

Example ax_reach : Reach ax_cfg ax_s.
Proof.
  apply reach_init_run; [lia|lia|unfold ax_funding; wf_funding_tac|].
  unfold ax_ops. wf_run_tac.
Qed.

Example ax_inv : Inv ax_cfg ax_s.
Proof. apply Reach_Inv; [exact ax_cfg_wf|exact ax_reach]. Qed.

Example ax_facts :
  height ax_s = 2 /\ bal ax_s (User 50) = 9700 /\ bal ax_s (User 51) = 9900
  /\ bal ax_s Escrow = 395 /\ get 7 (owner_of ax_s) = Some 42 /\ get 9 (owner_of ax_s) = Some 43.
Proof. vm_compute. repeat split. Qed.

(* ------------------------------------------------------------------ *)
(* authority, one theorem per message kind *)

Theorem C05_auth_update cfg s svc prov dep pr qos owner ok s' :
  handle cfg s (OUpdate svc prov dep pr qos owner ok) = Ok s' ->
  exists b, get (svc, prov) (binds s) = Some b /\ b_owner b = owner.
Proof.
  cbn [handle]. unfold h_update. intros H. inv_ok H. b2p. eauto.
Qed.

Example C05_auth_update_ex :
  Reach ax_cfg ax_s
  /\ (exists s', handle ax_cfg ax_s (OUpdate 1 7 (CBase 5) None 0 42 true) = Ok s')
  /\ step ax_cfg ax_s (OUpdate 1 7 (CBase 5) None 0 43 true) = (ax_s, RErr).
Proof.
  split; [exact ax_reach|]. split; [eexists; vm_compute; reflexivity|]. vm_compute. reflexivity.
Qed.

Theorem C05_auth_disable cfg s svc prov owner ok s' :
  handle cfg s (ODisable svc prov owner ok) = Ok s' ->
  exists b, get (svc, prov) (binds s) = Some b /\ b_owner b = owner.
Proof.
  cbn [handle]. unfold h_disable. intros H. inv_ok H. b2p. eauto.
Qed.

Example C05_auth_disable_ex :
  Reach ax_cfg ax_s
  /\ (exists s', handle ax_cfg ax_s (ODisable 1 7 42 true) = Ok s')
  /\ step ax_cfg ax_s (ODisable 1 7 43 true) = (ax_s, RErr).
Proof.
  split; [exact ax_reach|]. split; [eexists; vm_compute; reflexivity|]. vm_compute. reflexivity.
Qed.

Theorem C05_auth_enable cfg s svc prov dep owner ok s' :
  handle cfg s (OEnable svc prov dep owner ok) = Ok s' ->
  exists b, get (svc, prov) (binds s) = Some b /\ b_owner b = owner.
Proof.
  cbn [handle]. unfold h_enable. intros H. inv_ok H. b2p. eauto.
Qed.

Example C05_auth_enable_ex :
  Reach ax_cfg ax_s
  /\ (exists s', handle ax_cfg ax_s (OEnable 1 9 CEmpty 43 true) = Ok s')
  /\ step ax_cfg ax_s (OEnable 1 9 CEmpty 42 true) = (ax_s, RErr).
Proof.
  split; [exact ax_reach|]. split; [eexists; vm_compute; reflexivity|]. vm_compute. reflexivity.
Qed.

Theorem C05_auth_refund_deposit cfg s svc prov owner ok s' :
  handle cfg s (ORefundDep svc prov owner ok) = Ok s' ->
  exists b, get (svc, prov) (binds s) = Some b /\ b_owner b = owner.
Proof.
  cbn [handle]. unfold h_refund_deposit. intros H. inv_ok H. b2p. eauto.
Qed.

(* the refund needs the arbitration + complaint periods to pass: two more blocks of 15 s *)
Definition ax_s_late : State := run ax_cfg ax_s [OEndBlock 15; OEndBlock 15].

Example ax_late_reach : Reach ax_cfg ax_s_late.
Proof.
  apply reach_run; [exact ax_reach|]. wf_run_tac.
Qed.

Example C05_auth_refund_deposit_ex :
  Reach ax_cfg ax_s_late
  /\ (exists s', handle ax_cfg ax_s_late (ORefundDep 1 9 43 true) = Ok s'
        /\ bal s' (User 43) = bal ax_s_late (User 43) + 200000)
  /\ step ax_cfg ax_s_late (ORefundDep 1 9 42 true) = (ax_s_late, RErr).
Proof.
  split; [exact ax_late_reach|].
  split; [eexists; split; [vm_compute; reflexivity|vm_compute; reflexivity]|].
  vm_compute. reflexivity.
Qed.

(* binding a provider that belongs to another owner is rejected *)
Theorem C05_auth_bind_foreign_provider_rejected cfg s svc prov dep pr qos owner ok o' :
  get prov (owner_of s) = Some o' -> o' <> owner ->
  handle cfg s (OBind svc prov dep pr qos owner ok) = Err
  /\ step cfg s (OBind svc prov dep pr qos owner ok) = (s, RErr).
Proof.
  intros Ho Hne.
  assert (E : handle cfg s (OBind svc prov dep pr qos owner ok) = Err).
  { cbn [handle]. unfold h_bind. rewrite Ho.
    destruct ok; [|reflexivity]. cbn [guard].
    destruct (negb (svc =? p_modsvc cfg)); [|reflexivity].
    destruct (has svc (defs s)); [|reflexivity].
    destruct (negb (has (svc, prov) (binds s))); [|reflexivity].
    apply Z.eqb_neq in Hne. rewrite Hne. reflexivity. }
  split; [exact E|]. unfold step. now rewrite E.
Qed.

Example C05_auth_bind_foreign_provider_rejected_ex :
  Reach ax_cfg ax_s /\ get 7 (owner_of ax_s) = Some 42 /\ 42 <> 43
  /\ step ax_cfg ax_s (OBind 1 7 (CBase 200000) (Some ax_raw) 10 43 true) = (ax_s, RErr)
  /\ exists s', handle ax_cfg (run ax_cfg ax_s [ODefine 2 5 true])
                  (OBind 2 7 (CBase 200000) (Some ax_raw) 10 42 true) = Ok s'.
Proof.
  split; [exact ax_reach|]. split; [vm_compute; reflexivity|]. split; [discriminate|].
  split; [vm_compute; reflexivity|]. eexists. vm_compute. reflexivity.
Qed.

(* binding the service reserved by a module is rejected *)
Theorem C05_bind_module_service_rejected cfg s svc prov dep pr qos owner ok :
  svc = p_modsvc cfg ->
  handle cfg s (OBind svc prov dep pr qos owner ok) = Err
  /\ step cfg s (OBind svc prov dep pr qos owner ok) = (s, RErr).
Proof.
  intros ->.
  assert (E : handle cfg s (OBind (p_modsvc cfg) prov dep pr qos owner ok) = Err).
  { cbn [handle]. unfold h_bind. destruct ok; [|reflexivity]. cbn [guard].
    rewrite Z.eqb_refl. reflexivity. }
  split; [exact E|]. unfold step. now rewrite E.
Qed.

Example C05_bind_module_service_rejected_ex :
  let s := run ax_cfg ax_s [ODefine 77 5 true] in
  Reach ax_cfg s /\ has 77 (defs s) = true /\ 77 = p_modsvc ax_cfg
  /\ step ax_cfg s (OBind 77 7 (CBase 200000) (Some ax_raw) 10 42 true) = (s, RErr).
Proof.
  split; [apply reach_run; [exact ax_reach|wf_run_tac]|].
  split; [vm_compute; reflexivity|]. split; [reflexivity|]. vm_compute. reflexivity.
Qed.

Theorem C05_auth_bind cfg s svc prov dep pr qos owner ok s' :
  handle cfg s (OBind svc prov dep pr qos owner ok) = Ok s' ->
  svc <> p_modsvc cfg /\ (forall o', get prov (owner_of s) = Some o' -> o' = owner).
Proof.
  intros H. split.
  - intros E. destruct (C05_bind_module_service_rejected cfg s svc prov dep pr qos owner ok E) as [E1 _].
    congruence.
  - intros o' Ho. destruct (Z.eq_dec o' owner) as [|Hne]; [assumption|].
    destruct (C05_auth_bind_foreign_provider_rejected cfg s svc prov dep pr qos owner ok o' Ho Hne)
      as [E1 _]. congruence.
Qed.

(* withdrawing the earnings of one provider: only its owner *)
Theorem C05_auth_withdraw_provider cfg s owner prov ok s' :
  handle cfg s (OWithdraw owner prov ok) = Ok s' -> prov <> 0 ->
  get prov (owner_of s) = Some owner.
Proof.
  cbn [handle]. unfold h_withdraw. intros H Hp. inv_ok H.
  apply Z.eqb_neq in Hp. rewrite Hp in Hc0. cbn [orb] in Hc0.
  destruct (get prov (owner_of s)) as [o|]; [|discriminate]. b2p. now subst.
Qed.

Example C05_auth_withdraw_provider_ex :
  Reach ax_cfg ax_s /\ 7 <> 0
  /\ (exists s', handle ax_cfg ax_s (OWithdraw 42 7 true) = Ok s'
        /\ bal s' (User 44) = bal ax_s (User 44) + 95 /\ bal s' (User 42) = bal ax_s (User 42))
  /\ step ax_cfg ax_s (OWithdraw 43 7 true) = (ax_s, RErr).
Proof.
  split; [exact ax_reach|]. split; [discriminate|].
  split; [eexists; split; [vm_compute; reflexivity|vm_compute; split; reflexivity]|].
  vm_compute. reflexivity.
Qed.

(* a response is accepted only from the provider the request was addressed to *)
Theorem C05_auth_respond cfg s r who code out out_valid ok s' :
  handle cfg s (ORespond r who code out out_valid ok) = Ok s' ->
  exists q, get r (reqs s) = Some q /\ who = r_prov q /\ r_active q = true.
Proof.
  cbn [handle]. intros H. apply respond_inv in H.
  destruct H as (q & rc0 & s1 & rc & _ & Hq & _ & Hw & Ha & _). eauto.
Qed.

Example C05_auth_respond_ex :
  Reach ax_cfg ax_s
  /\ (exists s', handle ax_cfg ax_s (ORespond (ax_rid 1) 8 0 0 true true) = Ok s')
  /\ step ax_cfg ax_s (ORespond (ax_rid 1) 7 0 0 true true) = (ax_s, RErr)
  /\ step ax_cfg ax_s (ORespond (ax_rid 1) 50 0 0 true true) = (ax_s, RErr)
  /\ step ax_cfg ax_s (ORespond (ax_rid 0) 7 0 0 true true) = (ax_s, RErr).
Proof.
  split; [exact ax_reach|]. split; [eexists; vm_compute; reflexivity|].
  repeat split; vm_compute; reflexivity.
Qed.

Theorem C05_auth_pause cfg s c who ok s' :
  handle cfg s (OPause c who ok) = Ok s' ->
  exists rc, get c (ctxs s) = Some rc /\ c_cons rc = who /\ c_mod rc = 0.
Proof.
  cbn [handle]. intros H. apply h_pause_spec in H.
  destruct H as (rc & E & Hw & Hm & _). eauto.
Qed.

Example C05_auth_pause_ex :
  Reach ax_cfg ax_s
  /\ (exists s', handle ax_cfg ax_s (OPause ax_cA 50 true) = Ok s')
  /\ step ax_cfg ax_s (OPause ax_cA 51 true) = (ax_s, RErr)
  /\ (exists rc, get ax_cM (ctxs ax_s) = Some rc /\ c_cons rc = 51 /\ c_mod rc = 99)
  /\ step ax_cfg ax_s (OPause ax_cM 51 true) = (ax_s, RErr).
Proof.
  split; [exact ax_reach|]. split; [eexists; vm_compute; reflexivity|].
  split; [vm_compute; reflexivity|].
  split; [eexists; vm_compute; repeat split; reflexivity|]. vm_compute. reflexivity.
Qed.

Theorem C05_auth_start cfg s c who ok s' :
  handle cfg s (OStart c who ok) = Ok s' ->
  exists rc, get c (ctxs s) = Some rc /\ c_cons rc = who /\ c_mod rc = 0.
Proof.
  cbn [handle]. intros H. apply h_start_spec in H.
  destruct H as (rc & E & Hw & Hm & _). eauto.
Qed.

Definition ax_s_paused : State := run ax_cfg ax_s [OPause ax_cA 50 true].

Example C05_auth_start_ex :
  Reach ax_cfg ax_s_paused
  /\ (exists s', handle ax_cfg ax_s_paused (OStart ax_cA 50 true) = Ok s')
  /\ step ax_cfg ax_s_paused (OStart ax_cA 42 true) = (ax_s_paused, RErr).
Proof.
  split; [apply reach_run; [exact ax_reach|wf_run_tac]|].
  split; [eexists; vm_compute; reflexivity|]. vm_compute. reflexivity.
Qed.

Theorem C05_auth_kill cfg s c who ok s' :
  handle cfg s (OKill c who ok) = Ok s' ->
  exists rc, get c (ctxs s) = Some rc /\ c_cons rc = who /\ c_mod rc = 0.
Proof.
  cbn [handle]. intros H. apply h_kill_spec in H.
  destruct H as (rc & E & Hw & Hm & _). eauto.
Qed.

Example C05_auth_kill_ex :
  Reach ax_cfg ax_s
  /\ (exists s', handle ax_cfg ax_s (OKill ax_cA 50 true) = Ok s')
  /\ step ax_cfg ax_s (OKill ax_cA 7 true) = (ax_s, RErr)
  /\ step ax_cfg ax_s (OKill ax_cM 51 true) = (ax_s, RErr).
Proof.
  split; [exact ax_reach|]. split; [eexists; vm_compute; reflexivity|].
  split; vm_compute; reflexivity.
Qed.

Theorem C05_auth_update_ctx cfg s c who provs cap timeout freq total ok s' :
  handle cfg s (OUpdateCtx c who provs cap timeout freq total ok) = Ok s' ->
  exists rc, get c (ctxs s) = Some rc /\ c_cons rc = who /\ c_mod rc = 0.
Proof.
  cbn [handle]. intros H. apply h_update_ctx_spec in H.
  destruct H as (rc & capo & E & Hw & Hm & _). eauto.
Qed.

Example C05_auth_update_ctx_ex :
  Reach ax_cfg ax_s
  /\ (exists s', handle ax_cfg ax_s (OUpdateCtx ax_cA 50 [7] CEmpty 0 0 0 true) = Ok s')
  /\ step ax_cfg ax_s (OUpdateCtx ax_cA 51 [7] CEmpty 0 0 0 true) = (ax_s, RErr)
  /\ step ax_cfg ax_s (OUpdateCtx ax_cM 51 [7] CEmpty 0 0 0 true) = (ax_s, RErr).
Proof.
  split; [exact ax_reach|]. split; [eexists; vm_compute; reflexivity|].
  split; vm_compute; reflexivity.
Qed.

(* the keeper API driven by the owning module: the context exists and the consumer named is its own *)
Theorem C05_auth_mod_update cfg s c who provs thr cap timeout freq total s' :
  handle cfg s (OModUpdate c who provs thr cap timeout freq total) = Ok s' ->
  exists rc, get c (ctxs s) = Some rc /\ c_cons rc = who.
Proof.
  cbn [handle]. intros H. apply h_mod_update_gen in H.
  destruct H as (rc & t & capo & E & Hw & _). eauto.
Qed.

Theorem C05_auth_mod_pause cfg s c who s' :
  handle cfg s (OModPause c who) = Ok s' ->
  exists rc, get c (ctxs s) = Some rc /\ c_cons rc = who.
Proof. cbn [handle]. intros H. apply h_mod_pause_spec in H. destruct H as (rc & E & Hw & _). eauto. Qed.

Theorem C05_auth_mod_start cfg s c who s' :
  handle cfg s (OModStart c who) = Ok s' ->
  exists rc, get c (ctxs s) = Some rc /\ c_cons rc = who.
Proof. cbn [handle]. intros H. apply h_mod_start_spec in H. destruct H as (rc & E & Hw & _). eauto. Qed.

Theorem C05_auth_mod_kill cfg s c who s' :
  handle cfg s (OModKill c who) = Ok s' ->
  exists rc, get c (ctxs s) = Some rc /\ c_cons rc = who.
Proof. cbn [handle]. intros H. apply h_mod_kill_spec in H. destruct H as (rc & E & Hw & _). eauto. Qed.

(* cM belongs to module 99 and consumer 51: the module drives it naming 51, not naming 50; the
   messages of 51 itself are refused (C05_auth_pause_ex) *)
Example C05_auth_mod_ex :
  Reach ax_cfg ax_s
  /\ (exists s', handle ax_cfg ax_s (OModPause ax_cM 51) = Ok s')
  /\ (exists s', handle ax_cfg ax_s (OModKill ax_cM 51) = Ok s')
  /\ (exists s', handle ax_cfg ax_s (OModUpdate ax_cM 51 [7; 8] 2 CEmpty 0 0 0) = Ok s')
  /\ step ax_cfg ax_s (OModPause ax_cM 50) = (ax_s, RErr)
  /\ step ax_cfg ax_s (OModKill ax_cM 50) = (ax_s, RErr)
  /\ step ax_cfg ax_s (OModStart ax_cM 51) = (ax_s, RErr)
  /\ step ax_cfg ax_s (OModUpdate ax_cM 50 [7; 8] 2 CEmpty 0 0 0) = (ax_s, RErr)
  /\ step ax_cfg ax_s (OModUpdate ax_cM 51 [] 2 CEmpty 0 0 0) = (ax_s, RErr).
Proof.
  split; [exact ax_reach|].
  split; [eexists; vm_compute; reflexivity|]. split; [eexists; vm_compute; reflexivity|].
  split; [eexists; vm_compute; reflexivity|].
  repeat split; vm_compute; reflexivity.
Qed.

(* all of the above, as one statement *)
Theorem C05_authority cfg s o s' : handle cfg s o = Ok s' -> rightful cfg s o.
Proof.
  intros H. destruct o; cbn [rightful]; try exact I.
  - eapply C05_auth_bind; eauto.
  - eapply C05_auth_update; eauto.
  - eapply C05_auth_disable; eauto.
  - eapply C05_auth_enable; eauto.
  - eapply C05_auth_refund_deposit; eauto.
  - eapply C05_auth_respond; eauto.
  - eapply C05_auth_pause; eauto.
  - eapply C05_auth_start; eauto.
  - eapply C05_auth_kill; eauto.
  - eapply C05_auth_update_ctx; eauto.
  - eapply C05_auth_withdraw_provider; eauto.
  - eapply C05_auth_mod_update; eauto.
  - eapply C05_auth_mod_pause; eauto.
  - eapply C05_auth_mod_start; eauto.
  - eapply C05_auth_mod_kill; eauto.
Qed.

(* a message that is not sent by the rightful party changes nothing at all *)
Theorem C05_wrong_signer_no_effect cfg s o :
  ~ rightful cfg s o -> fst (step cfg s o) = s /\ snd (step cfg s o) <> ROk.
Proof.
  intros Hn. unfold step. destruct (handle cfg s o) as [s'| |] eqn:E; cbn [fst snd].
  - exfalso. apply Hn. eapply C05_authority; eauto.
  - split; [reflexivity|discriminate].
  - split; [reflexivity|discriminate].
Qed.

Example C05_wrong_signer_no_effect_ex :
  Reach ax_cfg ax_s /\ ~ rightful ax_cfg ax_s (OKill ax_cA 51 true)
  /\ ~ rightful ax_cfg ax_s (OWithdraw 43 7 true)
  /\ rightful ax_cfg ax_s (OKill ax_cA 50 true).
Proof.
  split; [exact ax_reach|]. split; [|split].
  - cbn [rightful]. intros (rc & E & Hw & _). vm_compute in E. injection E as <-. discriminate.
  - cbn [rightful]. intros H. specialize (H ltac:(discriminate)). vm_compute in H. discriminate.
  - cbn [rightful]. eexists. vm_compute. repeat split; reflexivity.
Qed.

(* ------------------------------------------------------------------ *)
(* debits: what an operation may do to the balance of an ordinary account *)

(* no ordinary account is lowered *)
Definition ub (s s' : State) : Prop := forall a, bal s (User a) <= bal s' (User a).

Lemma ub_refl s : ub s s.
Proof. intros a. lia. Qed.

Lemma ub_trans s1 s2 s3 : ub s1 s2 -> ub s2 s3 -> ub s1 s3.
Proof. intros H1 H2 a. specialize (H1 a). specialize (H2 a). lia. Qed.

Lemma ub_core s s' : core s' = core s -> ub s s'.
Proof. intros E a. rewrite (core_bal _ _ _ E). lia. Qed.

Lemma ub_bank s s' : bank s' = bank s -> ub s s'.
Proof. intros E a. unfold bal. rewrite E. lia. Qed.

Lemma user_eqb a u : eqb (User a) (User u) = (a =? u).
Proof. reflexivity. Qed.

(* a transfer out of an ordinary account lowers that account only, by the amount *)
Lemma transfer_user_bal u b amt s s1 a :
  transfer (User u) b amt s = Some s1 ->
  0 <= amt /\ bal s (User a) - (if a =? u then amt else 0) <= bal s1 (User a).
Proof.
  intros E. rewrite (transfer_bal _ _ _ _ _ (User a) E), user_eqb.
  apply transfer_some in E. destruct E as (H0 & _ & _). split; [exact H0|].
  destruct (eqb (User a) b); lia.
Qed.

(* a transfer out of a module account lowers no ordinary account *)
Lemma ub_transfer_module m b amt s s1 :
  transfer m b amt s = Some s1 -> (forall u, m <> User u) -> ub s s1.
Proof.
  intros E Hm a. rewrite (transfer_bal _ _ _ _ _ (User a) E).
  apply transfer_some in E. destruct E as (H0 & _ & _).
  destruct (eqb_spec (User a) m) as [E1|_]; [exfalso; eapply Hm; eauto|].
  destruct (eqb (User a) b); lia.
Qed.

Lemma ub_slash cfg s r s1 : slash cfg s r = Ok s1 -> ub s s1.
Proof.
  intros H a. apply slash_core_fields in H.
  destruct H as (k & b & amt & _ & _ & _ & _ & Ebk & _).
  unfold bal. rewrite Ebk, get0_set. cbn [eqb EqDec_Acct acct_eqb]. lia.
Qed.

Lemma ub_refund_fee s r cons fee s1 : refund_fee s r cons fee = Some s1 -> ub s s1.
Proof.
  intros H. apply refund_fee_inv in H. destruct H as (s0 & Et & ->).
  eapply ub_trans; [eapply ub_transfer_module; [exact Et|discriminate]|apply ub_core; reflexivity].
Qed.

Lemma ub_add_earned_fee cfg s r prov fee s1 : add_earned_fee cfg s r prov fee = Ok s1 -> ub s s1.
Proof.
  intros H. apply core_add_earned_fee in H. destruct H as (s0 & Et & Ec).
  eapply ub_trans; [eapply ub_transfer_module; [exact Et|discriminate]|apply ub_core; exact Ec].
Qed.

(* the amount of base coins a coin argument carries *)
Definition coin_amt (c : Coins) : Z := match c with CBase a => a | _ => 0 end.

Lemma one_base_coin_amt c a : one_base_coin c = Ok a -> coin_amt c = a /\ 0 < a.
Proof.
  destruct c; cbn; try discriminate. destruct (0 <? amt) eqn:E; [|discriminate].
  intros H; injection H as <-. split; [reflexivity|now apply Z.ltb_lt].
Qed.

Lemma pay_deposit_bal s k owner amt s1 a :
  pay_deposit s k owner amt = Ok s1 ->
  0 <= amt /\ bal s (User a) - (if a =? owner then amt else 0) <= bal s1 (User a).
Proof.
  intros H. apply pay_deposit_inv in H. destruct H as (s0 & Et & ->).
  change (bal (emit (EvDepositIn k owner amt) s0) (User a)) with (bal s0 (User a)).
  eapply transfer_user_bal; eauto.
Qed.

(* the optional top-up of h_update / h_enable *)
Lemma opt_pay_bal s k owner (dep : Coins) amt s1 a :
  (if coins_empty dep then Ok 0 else one_base_coin dep) = Ok amt ->
  (if coins_empty dep then Ok s else pay_deposit s k owner amt) = Ok s1 ->
  amt = coin_amt dep /\ 0 <= amt
  /\ bal s (User a) - (if a =? owner then amt else 0) <= bal s1 (User a).
Proof.
  destruct dep; cbn [coins_empty]; intros Ea Es.
  - inv_ok Ea. inv_ok Es. subst. cbn [coin_amt]. destruct (a =? owner); lia.
  - apply one_base_coin_amt in Ea. destruct Ea as [Ea _].
    destruct (pay_deposit_bal _ _ _ _ _ a Es). auto.
  - apply one_base_coin_amt in Ea. destruct Ea as [Ea _].
    destruct (pay_deposit_bal _ _ _ _ _ a Es). auto.
Qed.

(* the most a message can take from its signer: the deposit it adds, or the amount it sends *)
Definition max_debit (o : Op) : Z :=
  match o with
  | OBind _ _ dep _ _ _ _ => coin_amt dep
  | OUpdate _ _ dep _ _ _ _ => coin_amt dep
  | OEnable _ _ dep _ _ => coin_amt dep
  | OTransfer _ _ amt => amt
  | _ => 0
  end.

Definition debit_of (o : Op) (a : Z) : Z :=
  match signer o with
  | Some u => if a =? u then max_debit o else 0
  | None => 0
  end.

(* every message: each ordinary account keeps at least its balance minus what the message
   may take from it; needs no invariant *)
Lemma msg_floor cfg s o s' :
  handle cfg s o = Ok s' -> (forall dt, o <> OEndBlock dt) ->
  0 <= max_debit o /\ forall a, bal s (User a) - debit_of o a <= bal s' (User a).
Proof.
  intros H Hne.
  assert (Hsame : bank s' = bank s -> max_debit o = 0 ->
                  0 <= max_debit o /\ forall a, bal s (User a) - debit_of o a <= bal s' (User a)).
  { intros E Em. split; [lia|]. intros a. unfold debit_of. rewrite Em.
    pose proof (ub_bank _ _ E a). destruct (signer o); [destruct (a =? z)|]; lia. }
  assert (Hub : ub s s' -> max_debit o = 0 ->
                  0 <= max_debit o /\ forall a, bal s (User a) - debit_of o a <= bal s' (User a)).
  { intros E Em. split; [lia|]. intros a. unfold debit_of. rewrite Em.
    pose proof (E a). destruct (signer o); [destruct (a =? z)|]; lia. }
  destruct o; cbn [handle] in H; try (exfalso; eapply Hne; reflexivity).
  - (* define *) apply Hsame; [|reflexivity].
    unfold h_define in H. inv_ok H. destruct (get svc (defs s)); inv_ok H. now subst.
  - (* bind *) unfold h_bind in H. inv_ok H. sproj.
    match goal with Hp : pay_deposit _ _ _ _ = Ok ?x |- _ => rename Hp into Hpay; rename x into sp end.
    match goal with Ho : one_base_coin _ = Ok _ |- _ => apply one_base_coin_amt in Ho; destruct Ho as [Eamt Hpos] end.
    assert (Eb : bank s' = bank sp) by (destruct (get prov (owner_of sp)); inv_ok H; subst s'; reflexivity).
    cbn [max_debit]. split; [lia|]. intros x. unfold debit_of. cbn [signer max_debit].
    destruct (pay_deposit_bal _ _ _ _ _ x Hpay) as [_ Hx].
    unfold bal at 2. rewrite Eb. fold (bal sp (User x)). rewrite Eamt. exact Hx.
  - (* update *) unfold h_update in H. inv_ok H.
    rename a into b, a0 into amt, a1 into newp, a3 into s1.
    rename Ha0 into Hamt, Ha3 into Hpay. apply opt_amt_bridge in Hamt.
    assert (Eb : bank s' = bank s1).
    { destruct (negb (qos =? 0) || negb (coins_empty dep) || match pr with Some _ => true | None => false end);
        [destruct newp as [[raw p]|]|]; inv_ok H; subst s'; reflexivity. }
    cbn [max_debit]. unfold debit_of. cbn [signer max_debit].
    split.
    + destruct (opt_pay_bal _ _ _ _ _ _ 0 Hamt Hpay) as (E1 & E2 & _). lia.
    + intros x. destruct (opt_pay_bal _ _ _ _ _ _ x Hamt Hpay) as (E1 & E2 & Hx).
      unfold bal at 2. rewrite Eb. fold (bal s1 (User x)). rewrite <- E1. exact Hx.
  - (* disable *) apply Hsame; [|reflexivity]. unfold h_disable in H. inv_ok H. now subst.
  - (* enable *) unfold h_enable in H. inv_ok H.
    rename a into b, a0 into amt, a1 into md, a2 into s1.
    rename Ha0 into Hamt, Ha2 into Hpay. apply opt_amt_bridge in Hamt.
    assert (Eb : bank s' = bank s1) by (subst s'; reflexivity).
    cbn [max_debit]. unfold debit_of. cbn [signer max_debit].
    split.
    + destruct (opt_pay_bal _ _ _ _ _ _ 0 Hamt Hpay) as (E1 & E2 & _). lia.
    + intros x. destruct (opt_pay_bal _ _ _ _ _ _ x Hamt Hpay) as (E1 & E2 & Hx).
      unfold bal at 2. rewrite Eb. fold (bal s1 (User x)). rewrite <- E1. exact Hx.
  - (* refund deposit *) apply Hub; [|reflexivity].
    unfold h_refund_deposit in H. inv_ok H. subst s'.
    eapply ub_trans; [eapply ub_transfer_module; [eassumption|discriminate]|apply ub_bank; reflexivity].
  - (* set withdraw *) apply Hsame; [|reflexivity]. unfold h_set_withdraw in H. inv_ok H. now subst.
  - (* call *) apply Hsame; [|reflexivity]. unfold h_call, create_context in H. inv_ok H. now subst.
  - (* modcall *) apply Hsame; [|reflexivity]. unfold create_context in H. inv_ok H. now subst.
  - (* respond *) apply Hub; [|reflexivity]. apply respond_inv in H.
    destruct H as (q & rc0 & s1 & rc & _ & Hq & Hrc0 & _ & _ & Hset & Hrc & ->).
    assert (H1 : ub s s1).
    { destruct Hset as [[_ (sa & Es & Er)]|[_ Ea]].
      - eapply ub_trans; [eapply ub_slash; eauto|eapply ub_refund_fee; eauto].
      - eapply ub_add_earned_fee; eauto. }
    eapply ub_trans; [exact H1|]. apply ub_core.
    unfold resp_finish, resp_mid.
    destruct (c_bresp (setc_bresp rc (c_bresp rc + 1)) =? c_breq (setc_bresp rc (c_bresp rc + 1)));
      autorewrite with core; reflexivity.
  - (* pause *) apply Hsame; [|reflexivity]. unfold h_pause, authorized in H. inv_ok H. now subst.
  - (* start *) apply Hsame; [|reflexivity]. unfold h_start, authorized in H. inv_ok H.
    match type of H with (if ?b then _ else _) = _ => destruct b end; inv_ok H; now subst.
  - (* kill *) apply Hsame; [|reflexivity]. unfold h_kill, authorized in H. inv_ok H. now subst.
  - (* update ctx *) apply Hsame; [|reflexivity]. unfold h_update_ctx, update_ctx_tail, authorized in H. inv_ok H. now subst.
  - (* withdraw *) apply Hub; [|reflexivity]. unfold h_withdraw in H. inv_ok H.
    destruct (prov =? 0).
    + inv_ok H. subst s'.
      match goal with Ht : transfer _ _ _ ?m = Some ?x |- _ =>
        apply ub_trans with (s2 := x); [|apply ub_bank; reflexivity];
        apply ub_trans with (s2 := m); [|eapply ub_transfer_module; [exact Ht|discriminate]] end.
      apply ub_bank. reflexivity.
    + inv_ok H. subst s'.
      match goal with Ht : transfer _ _ _ ?m = Some ?x |- _ =>
        apply ub_trans with (s2 := x); [|apply ub_bank; reflexivity];
        apply ub_trans with (s2 := m); [|eapply ub_transfer_module; [exact Ht|discriminate]] end.
      apply ub_bank.
      destruct (get0 prov (earned s) =? get0 owner (own_earned s)); [|destruct (_ <? 0)]; inv_ok Ha; subst;
        reflexivity.
  - (* transfer *) unfold h_transfer in H. inv_ok H. b2p.
    cbn [max_debit]. split; [lia|]. intros x. unfold debit_of. cbn [signer max_debit].
    eapply transfer_user_bal; eauto.
  - (* module update *) apply Hsame; [|reflexivity]. mod_shape H; reflexivity.
  - (* module pause *) apply Hsame; [|reflexivity]. mod_shape H; reflexivity.
  - (* module start *) apply Hsame; [|reflexivity]. mod_shape H; reflexivity.
  - (* module kill *) apply Hsame; [|reflexivity]. mod_shape H; reflexivity.
Qed.

(* no message lowers the balance of an ordinary account other than its signer's *)
Theorem C05_only_signer_debited cfg s o s' :
  (forall dt, o <> OEndBlock dt) -> handle cfg s o = Ok s' ->
  forall a, Some a <> signer o -> bal s (User a) <= bal s' (User a).
Proof.
  intros Hne H a Ha. destruct (msg_floor _ _ _ _ H Hne) as [_ Hf]. specialize (Hf a).
  unfold debit_of in Hf. destruct (signer o) as [u|]; [|lia].
  destruct (Z.eqb_spec a u) as [->|_]; [congruence|lia].
Qed.

(* the signer itself loses at most the deposit it adds (bind / update / enable) or the
   amount it sends (transfer), and nothing with any other message *)
Theorem C05_signer_debit_bound cfg s o s' a :
  (forall dt, o <> OEndBlock dt) -> handle cfg s o = Ok s' -> signer o = Some a ->
  0 <= max_debit o /\ bal s (User a) - max_debit o <= bal s' (User a).
Proof.
  intros Hne H Hs. destruct (msg_floor _ _ _ _ H Hne) as [H0 Hf]. split; [exact H0|].
  specialize (Hf a). unfold debit_of in Hf. rewrite Hs, Z.eqb_refl in Hf. exact Hf.
Qed.

(* messages other than bind / update / enable / transfer lower no ordinary account at all *)
Corollary C05_no_debit cfg s o s' :
  (forall dt, o <> OEndBlock dt) -> handle cfg s o = Ok s' -> max_debit o = 0 ->
  forall a, bal s (User a) <= bal s' (User a).
Proof.
  intros Hne H Hm a. destruct (msg_floor _ _ _ _ H Hne) as [_ Hf]. specialize (Hf a).
  unfold debit_of in Hf. rewrite Hm in Hf. destruct (signer o); [destruct (a =? z)|]; lia.
Qed.

(* a malformed answer: the provider's binding is slashed out of the Deposit module account,
   the consumer gets the fee back; a withdrawal credits the withdraw address; a bind takes
   the deposit from the owner only *)
Example C05_only_signer_debited_ex :
  Reach ax_cfg ax_s
  /\ (exists s', handle ax_cfg ax_s (ORespond (ax_rid 1) 8 0 3 false true) = Ok s'
        /\ bal s' (User 50) = bal ax_s (User 50) + 100 /\ bal s' (User 42) = bal ax_s (User 42)
        /\ bal s' Deposit = bal ax_s Deposit - 200 /\ bal s' Escrow = bal ax_s Escrow - 100)
  /\ (exists s', handle ax_cfg ax_s (OBind 1 10 (CBase 150000) (Some ax_raw) 10 43 true) = Ok s'
        /\ bal s' (User 43) = bal ax_s (User 43) - 150000
        /\ max_debit (OBind 1 10 (CBase 150000) (Some ax_raw) 10 43 true) = 150000)
  /\ (exists s', handle ax_cfg ax_s (OTransfer 50 51 7) = Ok s'
        /\ bal s' (User 50) = bal ax_s (User 50) - 7 /\ bal s' (User 51) = bal ax_s (User 51) + 7).
Proof.
  split; [exact ax_reach|].
  split; [eexists; split; [vm_compute; reflexivity|vm_compute; repeat split; reflexivity]|].
  split; [eexists; split; [vm_compute; reflexivity|vm_compute; repeat split; reflexivity]|].
  eexists; split; [vm_compute; reflexivity|vm_compute; repeat split; reflexivity].
Qed.

(* ------------------------------------------------------------------ *)
(* EndBlock, per context *)

Lemma ub_expire_req cfg s r : ub s (expire_req cfg s r).
Proof.
  destruct (core_expire_req cfg s r) as [Ec|(q & rc & _ & _ & Es & Ec)].
  - apply ub_core. exact Ec.
  - eapply ub_trans; [|apply ub_core; exact Ec]. unfold expire_money. rewrite Es.
    assert (Hsa : ub s (match slash cfg s r with Ok x => x | _ => s end)).
    { destruct (slash cfg s r) eqn:E; try apply ub_refl. eapply ub_slash; eauto. }
    destruct (refund_fee _ r (c_cons rc) (r_fee q)) eqn:Er; [|assumption].
    eapply ub_trans; [exact Hsa|eapply ub_refund_fee; eauto].
Qed.

(* the expiry handler of a context lowers no ordinary account: slashes are burnt from the
   Deposit module account, refunds credit the consumer *)
Theorem C05_expire_one_no_debit cfg s c a : bal s (User a) <= bal (expire_one cfg s c) (User a).
Proof.
  revert a. change (ub s (expire_one cfg s c)). unfold expire_one.
  set (rc := ctx_or_zero s c).
  assert (Hp : ub s (fst (if c_bdone rc then (s, rc)
             else complete_batch (fold_left (expire_req cfg) (active_rids s c (c_counter rc)) s) c rc))).
  { destruct (c_bdone rc); [apply ub_refl|].
    eapply ub_trans; [|apply ub_core, core_complete_batch].
    apply fold_inv with (P := fun t => ub s t); [|apply ub_refl].
    intros t r Ht. eapply ub_trans; [exact Ht|apply ub_expire_req]. }
  destruct (if c_bdone rc then (s, rc) else _) as [s1 rc1]. cbn [fst] in Hp.
  eapply ub_trans; [exact Hp|]. apply ub_core.
  rewrite core_clean_batch.
  destruct (c_state rc1); [| |reflexivity]; try reflexivity.
  destruct (c_rep rc1 && _); reflexivity.
Qed.

(* the new-batch handler of a context either leaves the bank alone or makes exactly one
   transfer, from the consumer of the context to the escrow account *)
Lemma new_one_bank cfg s c :
  core (new_one cfg s c) = core s
  \/ (c_state (ctx_or_zero s c) = Running /\ c_super (ctx_or_zero s c) = false
      /\ exists x amt, transfer (User (c_cons (ctx_or_zero s c))) Escrow amt s = Some x
           /\ core (new_one cfg s c) = core x).
Proof.
  unfold new_one. set (rc := ctx_or_zero s c).
  destruct (is_state rc Running && c_rep rc && (0 <? c_total rc) && (c_total rc <=? c_counter rc)).
  { left. reflexivity. }
  rewrite core_del_newq.
  destruct (is_state rc Running) eqn:Hr; [|left; reflexivity].
  apply is_state_true in Hr.
  destruct ((0 <? len _) && _).
  - destruct (c_super rc) eqn:Hs.
    + left. now autorewrite with core.
    + destruct (transfer (User (c_cons rc)) Escrow _ s) as [x|] eqn:Et.
      * right. split; [exact Hr|]. split; [reflexivity|]. eexists x, _. split; [exact Et|].
        now autorewrite with core.
      * left. apply core_on_paused.
  - left. apply core_skip_batch.
Qed.

(* ... so it lowers at most the consumer of a running, non-super context *)
Theorem C05_new_one_debits cfg s c a :
  bal (new_one cfg s c) (User a) < bal s (User a) ->
  a = c_cons (ctx_or_zero s c) /\ c_state (ctx_or_zero s c) = Running
  /\ c_super (ctx_or_zero s c) = false.
Proof.
  intros Hlt. destruct (new_one_bank cfg s c) as [Ec|(Hr & Hs & x & amt & Et & Ec)].
  - rewrite (core_bal _ _ _ Ec) in Hlt. lia.
  - rewrite (core_bal _ _ _ Ec) in Hlt.
    destruct (transfer_user_bal _ _ _ _ _ a Et) as [H0 Hx].
    destruct (Z.eqb_spec a (c_cons (ctx_or_zero s c))) as [->|_]; [auto|lia].
Qed.

(* ------------------------------------------------------------------ *)
(* EndBlock: lifting a per-context relation over the two phases, with the invariant
   available at every intermediate state *)

Section PhaseLift.
  Variable cfg : Params.
  Hypothesis Hcfg : wf_cfg cfg.
  Variable R : State -> State -> Prop.
  Hypothesis R_refl : forall s, R s s.
  Hypothesis R_trans : forall s1 s2 s3, R s1 s2 -> R s2 s3 -> R s1 s3.

  Lemma expire_phase_lift :
    (forall s c, Inv cfg s -> In (height s, c) (expq s) -> height s < HEIGHT_BOUND ->
       R s (expire_one cfg s c)) ->
    forall l s, Inv cfg s -> height s < HEIGHT_BOUND -> NoDup l ->
      (forall c, In c l -> In (height s, c) (expq s)) -> R s (fold_left (expire_one cfg) l s).
  Proof.
    intros Hstep. induction l as [|a l IH]; intros s Hi Hb Hn Hl; cbn [fold_left]; [apply R_refl|].
    inversion Hn as [|? ? Hna Hn']; subst.
    assert (Hda : In (height s, a) (expq s)) by (apply Hl; now left).
    pose proof (Inv_expire_one cfg s a Hcfg Hi Hda Hb) as Hi1.
    pose proof (height_expire_one cfg s a Hcfg Hi Hda Hb) as Eh.
    pose proof (expq_after_expire_one cfg s a Hcfg Hi Hda Hb) as Eq.
    apply R_trans with (s2 := expire_one cfg s a); [apply Hstep; assumption|].
    apply IH; try assumption.
    - now rewrite Eh.
    - intros c Hc. rewrite Eh. apply Eq. split; [apply Hl; now right|]. intros ->. contradiction.
  Qed.

  Lemma new_phase_lift :
    (forall s c, Inv cfg s -> In (height s, c) (newq s) -> height s < HEIGHT_BOUND ->
       R s (new_one cfg s c)) ->
    forall l s, Inv cfg s -> height s < HEIGHT_BOUND -> NoDup l ->
      (forall c, In c l -> In (height s, c) (newq s)) -> R s (fold_left (new_one cfg) l s).
  Proof.
    intros Hstep. induction l as [|a l IH]; intros s Hi Hb Hn Hl; cbn [fold_left]; [apply R_refl|].
    inversion Hn as [|? ? Hna Hn']; subst.
    assert (Hda : In (height s, a) (newq s)) by (apply Hl; now left).
    pose proof (Inv_new_one cfg s a Hcfg Hi Hda Hb) as Hi1.
    pose proof (height_new_one cfg s a Hcfg Hi Hda Hb) as Eh.
    pose proof (newq_after_new_one cfg s a Hcfg Hi Hda Hb) as Eq.
    apply R_trans with (s2 := new_one cfg s a); [apply Hstep; assumption|].
    apply IH; try assumption.
    - now rewrite Eh.
    - intros c Hc. rewrite Eh. apply Eq. split; [apply Hl; now right|]. intros ->. contradiction.
  Qed.
End PhaseLift.

(* what EndBlock keeps of a context record: consumer, super mode, repetition, timeout and
   frequency; and it never sets a context Running *)
Definition csim (rc rc' : Ctx) : Prop :=
  c_cons rc' = c_cons rc /\ c_super rc' = c_super rc /\ c_rep rc' = c_rep rc
  /\ c_timeout rc' = c_timeout rc /\ c_freq rc' = c_freq rc
  /\ (c_state rc' = Running -> c_state rc = Running).

Definition ctx_sim (s s' : State) : Prop :=
  forall c rc', get c (ctxs s') = Some rc' -> exists rc, get c (ctxs s) = Some rc /\ csim rc rc'.

Lemma csim_refl rc : csim rc rc.
Proof. unfold csim. auto 10. Qed.

Lemma ctx_sim_refl s : ctx_sim s s.
Proof. intros c rc E. exists rc. split; [exact E|apply csim_refl]. Qed.

Lemma ctx_sim_trans s1 s2 s3 : ctx_sim s1 s2 -> ctx_sim s2 s3 -> ctx_sim s1 s3.
Proof.
  intros H1 H2 c rc3 E3. destruct (H2 _ _ E3) as (rc2 & E2 & A1 & A2 & A3 & A4 & A5 & A6).
  destruct (H1 _ _ E2) as (rc1 & E1 & B1 & B2 & B3 & B4 & B5 & B6).
  exists rc1. split; [exact E1|]. unfold csim. repeat split; try congruence. auto.
Qed.

Lemma ctx_sim_expire_one cfg s c :
  wf_cfg cfg -> Inv cfg s -> In (height s, c) (expq s) -> height s < HEIGHT_BOUND ->
  ctx_sim s (expire_one cfg s c).
Proof.
  intros Hcfg HI Hdue Hb c' rc' E.
  destruct (expire_one_spec cfg s c Hcfg HI Hdue Hb)
    as (rc & rc1 & Erc & Ee & En & Hrc1 & Ht & Q1 & Q2 & Ee' & Hcase).
  destruct (eqb_spec c' c) as [->|Hn].
  - exists rc. split; [exact Erc|].
    assert (rc' = rc1).
    { destruct Hcase as [(Ex & _)|[(Ex & _)|(Ex & _)]]; congruence. }
    subst rc'. destruct Hrc1 as [->|[_ ->]]; unfold csim; cbn; auto 10.
  - rewrite (t_ctxs _ _ _ Ht) in E by assumption. exists rc'. split; [exact E|apply csim_refl].
Qed.

Lemma ctx_sim_new_one cfg s c :
  Inv cfg s -> In (height s, c) (newq s) -> ctx_sim s (new_one cfg s c).
Proof.
  intros HI Hdue c' rc' E.
  destruct (new_one_spec cfg s c HI Hdue) as (rc & Erc & En & Ee & Ht & Q1 & Q2 & En' & Hcase).
  destruct (eqb_spec c' c) as [->|Hn].
  - exists rc. split; [exact Erc|].
    destruct Hcase as [(_ & Ex & _)|[(_ & _ & _ & n & Ex)|[(_ & _ & _ & Ex)|(_ & _ & Ex)]]];
      rewrite Ex in E; try discriminate; injection E as <-;
      unfold csim; cbn; repeat split; try reflexivity; try (intros; assumption); intros; discriminate.
  - rewrite (t_ctxs _ _ _ Ht) in E by assumption. exists rc'. split; [exact E|apply csim_refl].
Qed.

(* the expiry phase *)
Definition RE (s s' : State) : Prop :=
  height s' = height s /\ ub s s' /\ ctx_sim s s'
  /\ (forall h c, In (h, c) (expq s') -> In (h, c) (expq s))
  /\ (forall h c, In (h, c) (newq s') ->
        In (h, c) (newq s)
        \/ exists rc, In (height s, c) (expq s) /\ get c (ctxs s) = Some rc /\ c_rep rc = true
             /\ h = height s - c_timeout rc + c_freq rc).

Lemma RE_refl s : RE s s.
Proof.
  split; [reflexivity|]. split; [apply ub_refl|]. split; [apply ctx_sim_refl|]. split; auto.
Qed.

Lemma RE_trans s1 s2 s3 : RE s1 s2 -> RE s2 s3 -> RE s1 s3.
Proof.
  intros (A1 & A2 & A3 & A4 & A5) (B1 & B2 & B3 & B4 & B5).
  split; [congruence|]. split; [eapply ub_trans; eauto|]. split; [eapply ctx_sim_trans; eauto|].
  split; [auto|].
  intros h c Hin. apply B5 in Hin. destruct Hin as [Hin|(rc2 & Hq & E2 & Hr & ->)]; [auto|].
  right. destruct (A3 _ _ E2) as (rc1 & E1 & _ & _ & C3 & C4 & C5 & _).
  exists rc1. rewrite A1 in *. split; [apply A4; exact Hq|]. split; [exact E1|].
  split; [congruence|]. rewrite C4, C5. reflexivity.
Qed.

Lemma RE_expire_one cfg s c :
  wf_cfg cfg -> Inv cfg s -> In (height s, c) (expq s) -> height s < HEIGHT_BOUND ->
  RE s (expire_one cfg s c).
Proof.
  intros Hcfg HI Hdue Hb.
  destruct (expire_one_spec cfg s c Hcfg HI Hdue Hb)
    as (rc & rc1 & Erc & Ee & En & Hrc1 & Ht & Q1 & Q2 & Ee' & Hcase).
  destruct (Inv_qpairs _ _ HI) as (Q1s & Q2s).
  split; [apply (t_height _ _ _ Ht)|].
  split; [intros a; apply C05_expire_one_no_debit|].
  split; [now apply ctx_sim_expire_one|].
  split.
  - intros h c' Hin. apply (expq_after_expire_one cfg s c Hcfg HI Hdue Hb) in Hin. tauto.
  - intros h c' Hin. destruct (eqb_spec c' c) as [->|Hn].
    + right. apply Q2 in Hin.
      destruct Hcase as [(Ex & En' & _)|[(Ex & En' & Hr & Hm)|(Ex & En' & Hp)]];
        rewrite En' in Hin; try discriminate.
      injection Hin as <-. exists rc. split; [exact Hdue|]. split; [exact Erc|].
      split; [|reflexivity]. unfold more in Hm. apply andb_prop in Hm. tauto.
    + left. now apply (In_q_touch c _ _ _ _ Q2s Q2 (t_newq_h _ _ _ Ht) h c' Hn).
Qed.

(* the new-batch phase *)
Definition RN (s s' : State) : Prop :=
  height s' = height s /\ ctx_sim s s'
  /\ (forall h c, In (h, c) (newq s') -> In (h, c) (newq s))
  /\ (forall a, bal s' (User a) < bal s (User a) ->
        exists c rc, In (height s, c) (newq s) /\ get c (ctxs s) = Some rc /\ c_cons rc = a
          /\ c_state rc = Running /\ c_super rc = false).

Lemma RN_refl s : RN s s.
Proof.
  split; [reflexivity|]. split; [apply ctx_sim_refl|]. split; [auto|]. intros a Hlt. lia.
Qed.

Lemma RN_trans s1 s2 s3 : RN s1 s2 -> RN s2 s3 -> RN s1 s3.
Proof.
  intros (A1 & A2 & A3 & A4) (B1 & B2 & B3 & B4).
  split; [congruence|]. split; [eapply ctx_sim_trans; eauto|]. split; [auto|].
  intros a Hlt. destruct (Z_lt_le_dec (bal s2 (User a)) (bal s1 (User a))) as [Hl|Hl]; [auto|].
  destruct (B4 a ltac:(lia)) as (c & rc2 & Hq & E2 & Hc & Hr & Hs).
  destruct (A2 _ _ E2) as (rc1 & E1 & C1 & C2 & _ & _ & _ & C6).
  exists c, rc1. rewrite A1 in Hq. split; [apply A3; exact Hq|]. split; [exact E1|].
  split; [congruence|]. split; [auto|congruence].
Qed.

Lemma RN_new_one cfg s c :
  wf_cfg cfg -> Inv cfg s -> In (height s, c) (newq s) -> height s < HEIGHT_BOUND ->
  RN s (new_one cfg s c).
Proof.
  intros Hcfg HI Hdue Hb.
  split; [now apply height_new_one|]. split; [now apply ctx_sim_new_one|].
  split.
  - intros h c' Hin. apply (newq_after_new_one cfg s c Hcfg HI Hdue Hb) in Hin. tauto.
  - intros a Hlt. apply C05_new_one_debits in Hlt.
    destruct (due_new _ _ _ HI Hdue) as (rc & Erc & _).
    assert (Ez : ctx_or_zero s c = rc) by (unfold ctx_or_zero; now rewrite Erc).
    rewrite Ez in Hlt. destruct Hlt as (-> & Hr & Hs). exists c, rc. auto.
Qed.

(* EndBlock lowers the balance of an ordinary account only if it is the consumer of a
   context that is Running and not in super mode and whose new-batch entry is due in this
   block: it was in the new-batch queue for this height, or its batch expires in this block
   and it is a repeated context with frequency = timeout (then the next batch starts in the
   same block) *)
Theorem C05_endblock_debits cfg s dt a :
  wf_cfg cfg -> Inv cfg s -> height s < HEIGHT_BOUND ->
  bal (end_block cfg s dt) (User a) < bal s (User a) ->
  exists c rc, get c (ctxs s) = Some rc /\ c_cons rc = a /\ c_state rc = Running
    /\ c_super rc = false
    /\ (In (height s, c) (newq s)
        \/ (In (height s, c) (expq s) /\ c_rep rc = true /\ c_freq rc = c_timeout rc)).
Proof.
  intros Hcfg Hi Hb Hlt. unfold end_block, end_blocker in Hlt.
  set (l1 := due (expq s) (height s)) in *.
  assert (Hn1 : NoDup l1) by (apply NoDup_due; apply (inv_wf _ _ Hi)).
  assert (Hl1 : forall c, In c l1 -> In (height s, c) (expq s)) by (intros c; apply In_due).
  destruct (fold_expire_phase cfg l1 s Hcfg Hi Hb Hn1 Hl1) as (I1 & H1 & _).
  pose proof (expire_phase_lift cfg Hcfg RE RE_refl RE_trans
                (fun s c HI Hd Hb => RE_expire_one cfg s c Hcfg HI Hd Hb) l1 s Hi Hb Hn1 Hl1)
    as (_ & E2 & E3 & _ & E5).
  set (s1 := fold_left (expire_one cfg) l1 s) in *.
  set (l2 := due (newq s1) (height s1)) in *.
  assert (Hn2 : NoDup l2) by (apply NoDup_due; apply (inv_wf _ _ I1)).
  assert (Hl2 : forall c, In c l2 -> In (height s1, c) (newq s1)) by (intros c; apply In_due).
  assert (Hb1 : height s1 < HEIGHT_BOUND) by now rewrite H1.
  pose proof (new_phase_lift cfg Hcfg RN RN_refl RN_trans
                (fun s c HI Hd Hb => RN_new_one cfg s c Hcfg HI Hd Hb) l2 s1 I1 Hb1 Hn2 Hl2)
    as (_ & _ & _ & N4).
  set (s2 := fold_left (new_one cfg) l2 s1) in *.
  change (bal s2 (User a) < bal s (User a)) in Hlt.
  pose proof (E2 a) as Hle.
  destruct (N4 a ltac:(lia)) as (c & rc1 & Hq & Erc1 & Hc & Hr & Hs).
  destruct (E3 _ _ Erc1) as (rc & Erc & C1 & C2 & C3 & C4 & C5 & C6).
  exists c, rc. split; [exact Erc|]. split; [congruence|]. split; [auto|]. split; [congruence|].
  rewrite H1 in Hq. apply E5 in Hq. destruct Hq as [Hq|(rc0 & Hq & Erc0 & Hrep & Hh)]; [now left|].
  right. assert (rc0 = rc) by congruence. subst rc0. split; [exact Hq|]. split; [exact Hrep|]. lia.
Qed.

(* the first EndBlock of the history: both contexts have their new-batch entry due, both
   consumers pay the fees of the batch into escrow, nobody else is lowered *)
Definition ax_s_pre : State := run ax_cfg ax_s0 (firstn 7 ax_ops).

Example ax_pre_reach : Reach ax_cfg ax_s_pre.
Proof.
  apply reach_init_run; [lia|lia|unfold ax_funding; wf_funding_tac|].
  unfold ax_ops. cbn [firstn]. wf_run_tac.
Qed.

Example C05_new_one_debits_ex :
  bal (new_one ax_cfg ax_s_pre ax_cA) (User 50) < bal ax_s_pre (User 50)
  /\ c_cons (ctx_or_zero ax_s_pre ax_cA) = 50
  /\ bal (new_one ax_cfg ax_s_pre ax_cA) (User 50) = bal ax_s_pre (User 50) - 300
  /\ bal (new_one ax_cfg ax_s_pre ax_cA) Escrow = bal ax_s_pre Escrow + 300.
Proof. vm_compute. repeat split; reflexivity. Qed.

Example C05_endblock_debits_ex :
  Reach ax_cfg ax_s_pre /\ wf_cfg ax_cfg /\ height ax_s_pre < HEIGHT_BOUND
  /\ bal (end_block ax_cfg ax_s_pre 5) (User 50) < bal ax_s_pre (User 50)
  /\ bal (end_block ax_cfg ax_s_pre 5) (User 51) < bal ax_s_pre (User 51)
  /\ In (height ax_s_pre, ax_cA) (newq ax_s_pre) /\ In (height ax_s_pre, ax_cM) (newq ax_s_pre)
  /\ bal (end_block ax_cfg ax_s_pre 5) (User 42) = bal ax_s_pre (User 42)
  /\ bal (end_block ax_cfg ax_s_pre 5) (User 43) = bal ax_s_pre (User 43).
Proof.
  split; [exact ax_pre_reach|]. split; [exact ax_cfg_wf|].
  vm_compute. repeat split; auto.
Qed.

(* the second case of C05_endblock_debits: a repeated context with frequency = timeout whose
   batch (already answered) expires in this block starts its next batch in the same block *)
Definition ax_cB : CtxId := (1003, 0).
Definition ax_ops2 : list Op :=
  [ ODefine 1 5 true;
    OBind 1 7 (CBase 200000) (Some ax_raw) 10 42 true;
    OCall ax_cB 1 [7] 50 0 (CBase 1000) 12 false true 12 5 true true;
    OEndBlock 5;
    ORespond (ax_cB, 1, 1, 0) 7 0 0 true true;
    OEndBlock 5; OEndBlock 5; OEndBlock 5; OEndBlock 5; OEndBlock 5; OEndBlock 5;
    OEndBlock 5; OEndBlock 5; OEndBlock 5; OEndBlock 5; OEndBlock 5 ].
Definition ax_s2 : State := run ax_cfg ax_s0 ax_ops2.

Example ax_s2_reach : Reach ax_cfg ax_s2.
Proof.
  apply reach_init_run; [lia|lia|unfold ax_funding; wf_funding_tac|].
  unfold ax_ops2. wf_run_tac.
Qed.

Example C05_endblock_debits_ex2 :
  Reach ax_cfg ax_s2 /\ height ax_s2 = 13
  /\ bal (end_block ax_cfg ax_s2 5) (User 50) < bal ax_s2 (User 50)
  /\ In (height ax_s2, ax_cB) (expq ax_s2) /\ newq ax_s2 = []
  /\ exists rc, get ax_cB (ctxs ax_s2) = Some rc /\ c_cons rc = 50 /\ c_state rc = Running
       /\ c_super rc = false /\ c_rep rc = true /\ c_freq rc = c_timeout rc.
Proof.
  split; [exact ax_s2_reach|]. split; [vm_compute; reflexivity|].
  split; [vm_compute; reflexivity|]. split; [vm_compute; auto|]. split; [vm_compute; reflexivity|].
  eexists. vm_compute. repeat split; reflexivity.
Qed.

(* the expiry handler: the unanswered requests of cA expire, their providers' bindings are
   slashed from Deposit and the consumer is refunded from escrow *)
Example C05_expire_one_no_debit_ex :
  let s := run ax_cfg ax_s (repeat (OEndBlock 5) 19) in
  Reach ax_cfg s /\ In (height s, ax_cA) (expq s)
  /\ bal (expire_one ax_cfg s ax_cA) (User 50) = bal s (User 50) + 200
  /\ bal (expire_one ax_cfg s ax_cA) Deposit < bal s Deposit
  /\ bal (expire_one ax_cfg s ax_cA) (User 42) = bal s (User 42)
  /\ bal (expire_one ax_cfg s ax_cA) (User 43) = bal s (User 43).
Proof.
  split; [apply reach_run; [exact ax_reach|cbn [repeat]; wf_run_tac]|].
  vm_compute. repeat split; auto.
Qed.

(* ------------------------------------------------------------------ *)
(* every step of a reachable state, as one statement (what a monitor observes): if the
   balance of an ordinary account falls in a step, then either the step is a successful
   message signed by that account, sent rightfully, that pays a deposit or sends coins; or it
   is an EndBlock and the account is the consumer of a running, non-super context whose
   new batch is due *)

Lemma msg_debit_signer cfg s o s' a :
  (forall dt, o <> OEndBlock dt) -> handle cfg s o = Ok s' ->
  bal s' (User a) < bal s (User a) -> signer o = Some a /\ 0 < max_debit o.
Proof.
  intros Hne H Hlt. destruct (msg_floor _ _ _ _ H Hne) as [_ Hf]. specialize (Hf a).
  unfold debit_of in Hf. destruct (signer o) as [u|]; [|lia].
  destruct (Z.eqb_spec a u) as [->|_]; [split; [reflexivity|lia]|lia].
Qed.

Definition endblock_payer (s : State) (a : Z) : Prop :=
  exists c rc, get c (ctxs s) = Some rc /\ c_cons rc = a /\ c_state rc = Running
    /\ c_super rc = false
    /\ (In (height s, c) (newq s)
        \/ (In (height s, c) (expq s) /\ c_rep rc = true /\ c_freq rc = c_timeout rc)).

Theorem C05_step_debits cfg s o a :
  wf_cfg cfg -> Reach cfg s -> wf_op s o ->
  bal (fst (step cfg s o)) (User a) < bal s (User a) ->
  (signer o = Some a /\ rightful cfg s o /\ 0 < max_debit o /\ snd (step cfg s o) = ROk
   /\ bal s (User a) - max_debit o <= bal (fst (step cfg s o)) (User a))
  \/ ((exists dt, o = OEndBlock dt) /\ endblock_payer s a).
Proof.
  intros Hcfg Hr Hwf. pose proof (Reach_Inv cfg s Hcfg Hr) as HI.
  unfold step. destruct (handle cfg s o) as [s'| |] eqn:E; cbn [fst snd]; intros Hlt; try lia.
  assert (Hmsg : (forall dt, o <> OEndBlock dt) ->
    signer o = Some a /\ rightful cfg s o /\ 0 < max_debit o /\ ROk = ROk
    /\ bal s (User a) - max_debit o <= bal s' (User a)).
  { intros Hne. destruct (msg_debit_signer _ _ _ _ a Hne E Hlt) as [Hs Hm].
    split; [exact Hs|]. split; [eapply C05_authority; eauto|]. split; [exact Hm|].
    split; [reflexivity|]. eapply C05_signer_debit_bound; eauto. }
  destruct o; try (left; apply Hmsg; intros; discriminate).
  right. split; [eauto|]. cbn [handle] in E. injection E as <-. cbn [wf_op] in Hwf.
  destruct Hwf as [_ Hb]. eapply C05_endblock_debits; eauto.
Qed.

Example C05_step_debits_ex :
  Reach ax_cfg ax_s_pre /\ wf_op ax_s_pre (OEndBlock 5)
  /\ bal (fst (step ax_cfg ax_s_pre (OEndBlock 5))) (User 50) < bal ax_s_pre (User 50)
  /\ Reach ax_cfg ax_s /\ wf_op ax_s (OTransfer 50 51 7)
  /\ bal (fst (step ax_cfg ax_s (OTransfer 50 51 7))) (User 50) < bal ax_s (User 50).
Proof.
  split; [exact ax_pre_reach|]. split; [cbn [wf_op]; vm_compute; split; [discriminate|reflexivity]|].
  split; [vm_compute; reflexivity|]. split; [exact ax_reach|]. split; [exact I|].
  vm_compute. reflexivity.
Qed.
