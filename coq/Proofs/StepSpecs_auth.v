(* Property C05: only the rightful party can act, and a message debits only its signer.
   - signer / rightful: whose signature a message carries, and who may send it;
   - authority theorems, one per message kind, the combined C05_authority and the
     frame C05_wrong_signer_no_effect;
   - debit theorems: a message lowers no ordinary account but its signer's, and that one
     by at most the deposit / amount it sends; EndBlock lowers only consumers of running,
     non-super contexts whose new-batch entry is due in the block. *)
From Coq Require Import List ZArith Bool Lia Permutation.
From SVC Require Import Base.AMap Base.Res Base.Dec Model.Types Model.Pricing
  Model.Handlers Model.EndBlock Model.Step Proofs.Inv Proofs.Lemmas Proofs.InvWf
  Proofs.BankLemmas Proofs.CtxOps Proofs.InvSched Proofs.InvAll Proofs.ReachRun.
Import ListNotations.
Open Scope Z_scope.

(* ------------------------------------------------------------------ *)
(* the signer of a message *)

(* the account whose signature the message carries.  A definition has no author in the
   model (it debits nobody); OModCall is a call from another module, OEndBlock is not a
   message *)
Definition signer (o : Op) : option Z :=
  match o with
  | ODefine _ _ _ => None
  | OBind _ _ _ _ _ owner _ => Some owner
  | OUpdate _ _ _ _ _ owner _ => Some owner
  | ODisable _ _ owner _ => Some owner
  | OEnable _ _ _ owner _ => Some owner
  | ORefundDep _ _ owner _ => Some owner
  | OSetWd owner _ _ => Some owner
  | OCall _ _ _ consumer _ _ _ _ _ _ _ _ _ => Some consumer
  | OModCall _ _ _ _ _ _ _ _ _ _ _ _ _ _ => None
  | ORespond _ who _ _ _ _ => Some who
  | OPause _ who _ => Some who
  | OStart _ who _ => Some who
  | OKill _ who _ => Some who
  | OUpdateCtx _ who _ _ _ _ _ _ => Some who
  | OWithdraw owner _ _ => Some owner
  | OTransfer from _ _ => Some from
  | OEndBlock _ => None
  end.

(* the signer owns the stored binding *)
Definition owns_binding (s : State) (svc prov owner : Z) : Prop :=
  exists b, get (svc, prov) (binds s) = Some b /\ b_owner b = owner.

(* the signer is the consumer of the stored context, which no module owns *)
Definition drives_ctx (s : State) (c : CtxId) (who : Z) : Prop :=
  exists rc, get c (ctxs s) = Some rc /\ c_cons rc = who /\ c_mod rc = 0.

(* the signer is the provider the (still active) request was addressed to *)
Definition answers_req (s : State) (r : ReqId) (who : Z) : Prop :=
  exists q, get r (reqs s) = Some q /\ who = r_prov q /\ r_active q = true.

(* who may send the message o in state s *)
Definition rightful (cfg : Params) (s : State) (o : Op) : Prop :=
  match o with
  | OBind svc prov _ _ _ owner _ =>
      svc <> p_modsvc cfg
      /\ (forall o', get prov (owner_of s) = Some o' -> o' = owner)
  | OUpdate svc prov _ _ _ owner _ => owns_binding s svc prov owner
  | ODisable svc prov owner _ => owns_binding s svc prov owner
  | OEnable svc prov _ owner _ => owns_binding s svc prov owner
  | ORefundDep svc prov owner _ => owns_binding s svc prov owner
  | OWithdraw owner prov _ => prov <> 0 -> get prov (owner_of s) = Some owner
  | ORespond r who _ _ _ _ => answers_req s r who
  | OPause c who _ => drives_ctx s c who
  | OStart c who _ => drives_ctx s c who
  | OKill c who _ => drives_ctx s c who
  | OUpdateCtx c who _ _ _ _ _ _ => drives_ctx s c who
  | _ => True
  end.

(* ------------------------------------------------------------------ *)
(* a concrete history used by the examples.
   Service 1; providers 7 and 8 of owner 42, provider 9 of owner 43; owner 42 withdraws to 44.
   Context cA: repeated call of consumer 50 to 7, 8, 9 (one batch issued, provider 7 has
   answered, provider 9 has been disabled afterwards); context cM: created by module 99
   for consumer 51. *)

Definition ax_cfg : Params := mkParams 100 1000 1000 (ONE / 20) (ONE / 1000) 10 10 77 99.
Definition ax_raw : RawPricing := mkRaw (100 * ONE) [] [].
Definition ax_cA : CtxId := (1001, 0).
Definition ax_cM : CtxId := (1002, 0).
Definition ax_rid (i : Z) : ReqId := (ax_cA, 1, 1, i).
Definition ax_ops : list Op :=
  [ ODefine 1 5 true;
    OBind 1 7 (CBase 200000) (Some ax_raw) 10 42 true;
    OBind 1 8 (CBase 200000) (Some ax_raw) 10 42 true;
    OBind 1 9 (CBase 200000) (Some ax_raw) 10 43 true;
    OSetWd 42 44 true;
    OCall ax_cA 1 [7; 8; 9] 50 0 (CBase 1000) 20 false true 30 5 true true;
    OModCall ax_cM 1 [7] 51 0 (CBase 1000) 20 false true 30 5 1 99 true;
    OEndBlock 5;
    ORespond (ax_rid 0) 7 0 0 true true;
    ODisable 1 9 43 true ].
Definition ax_funding : list (Z * Z) := [(42, 1000000); (43, 1000000); (50, 10000); (51, 10000)].
Definition ax_s0 : State := init 1 0 ax_funding.
Definition ax_s : State := run ax_cfg ax_s0 ax_ops.

Example ax_cfg_wf : wf_cfg ax_cfg.
Proof. unfold wf_cfg. repeat match goal with |- _ /\ _ => split end; zc. Qed.

Example ax_all_ok :
  map (fun n => snd (step ax_cfg (run ax_cfg ax_s0 (firstn n ax_ops)) (nth n ax_ops (OEndBlock 0))))
      (seq 0 10) = repeat ROk 10.
Proof. vm_compute. reflexivity. Qed.

Example ax_reach : Reach ax_cfg ax_s.
Proof.
  apply reach_init_run; [lia|lia|unfold ax_funding; wf_funding_tac|].
  unfold ax_ops. wf_run_tac.
Qed.

Example ax_inv : Inv ax_cfg ax_s.
Proof. apply Reach_Inv; [exact ax_cfg_wf|exact ax_reach]. Qed.

Example ax_facts :
  height ax_s = 2 /\ bal ax_s (User 50) = 9700 /\ bal ax_s (User 51) = 9900
  /\ bal ax_s Escrow = 395 /\ get 7 (owner_of ax_s) = Some 42 /\ get 9 (owner_of ax_s) = Some 43.
Proof. vm_compute. repeat split. Qed.

(* ------------------------------------------------------------------ *)
(* authority, one theorem per message kind *)

Theorem C05_auth_update cfg s svc prov dep pr qos owner ok s' :
  handle cfg s (OUpdate svc prov dep pr qos owner ok) = Ok s' ->
  exists b, get (svc, prov) (binds s) = Some b /\ b_owner b = owner.
Proof.
  cbn [handle]. unfold h_update. intros H. inv_ok H. b2p. eauto.
Qed.

Example C05_auth_update_ex :
  Reach ax_cfg ax_s
  /\ (exists s', handle ax_cfg ax_s (OUpdate 1 7 (CBase 5) None 0 42 true) = Ok s')
  /\ step ax_cfg ax_s (OUpdate 1 7 (CBase 5) None 0 43 true) = (ax_s, RErr).
Proof.
  split; [exact ax_reach|]. split; [eexists; vm_compute; reflexivity|]. vm_compute. reflexivity.
Qed.

Theorem C05_auth_disable cfg s svc prov owner ok s' :
  handle cfg s (ODisable svc prov owner ok) = Ok s' ->
  exists b, get (svc, prov) (binds s) = Some b /\ b_owner b = owner.
Proof.
  cbn [handle]. unfold h_disable. intros H. inv_ok H. b2p. eauto.
Qed.

Example C05_auth_disable_ex :
  Reach ax_cfg ax_s
  /\ (exists s', handle ax_cfg ax_s (ODisable 1 7 42 true) = Ok s')
  /\ step ax_cfg ax_s (ODisable 1 7 43 true) = (ax_s, RErr).
Proof.
  split; [exact ax_reach|]. split; [eexists; vm_compute; reflexivity|]. vm_compute. reflexivity.
Qed.

Theorem C05_auth_enable cfg s svc prov dep owner ok s' :
  handle cfg s (OEnable svc prov dep owner ok) = Ok s' ->
  exists b, get (svc, prov) (binds s) = Some b /\ b_owner b = owner.
Proof.
  cbn [handle]. unfold h_enable. intros H. inv_ok H. b2p. eauto.
Qed.

Example C05_auth_enable_ex :
  Reach ax_cfg ax_s
  /\ (exists s', handle ax_cfg ax_s (OEnable 1 9 CEmpty 43 true) = Ok s')
  /\ step ax_cfg ax_s (OEnable 1 9 CEmpty 42 true) = (ax_s, RErr).
Proof.
  split; [exact ax_reach|]. split; [eexists; vm_compute; reflexivity|]. vm_compute. reflexivity.
Qed.

Theorem C05_auth_refund_deposit cfg s svc prov owner ok s' :
  handle cfg s (ORefundDep svc prov owner ok) = Ok s' ->
  exists b, get (svc, prov) (binds s) = Some b /\ b_owner b = owner.
Proof.
  cbn [handle]. unfold h_refund_deposit. intros H. inv_ok H. b2p. eauto.
Qed.

(* the refund needs the arbitration + complaint periods to pass: two more blocks of 15 s *)
Definition ax_s_late : State := run ax_cfg ax_s [OEndBlock 15; OEndBlock 15].

Example ax_late_reach : Reach ax_cfg ax_s_late.
Proof.
  apply reach_run; [exact ax_reach|]. wf_run_tac.
Qed.

Example C05_auth_refund_deposit_ex :
  Reach ax_cfg ax_s_late
  /\ (exists s', handle ax_cfg ax_s_late (ORefundDep 1 9 43 true) = Ok s'
        /\ bal s' (User 43) = bal ax_s_late (User 43) + 200000)
  /\ step ax_cfg ax_s_late (ORefundDep 1 9 42 true) = (ax_s_late, RErr).
Proof.
  split; [exact ax_late_reach|].
  split; [eexists; split; [vm_compute; reflexivity|vm_compute; reflexivity]|].
  vm_compute. reflexivity.
Qed.

(* binding a provider that belongs to another owner is rejected *)
Theorem C05_auth_bind_foreign_provider_rejected cfg s svc prov dep pr qos owner ok o' :
  get prov (owner_of s) = Some o' -> o' <> owner ->
  handle cfg s (OBind svc prov dep pr qos owner ok) = Err
  /\ step cfg s (OBind svc prov dep pr qos owner ok) = (s, RErr).
Proof.
  intros Ho Hne.
  assert (E : handle cfg s (OBind svc prov dep pr qos owner ok) = Err).
  { cbn [handle]. unfold h_bind. rewrite Ho.
    destruct ok; [|reflexivity]. cbn [guard].
    destruct (negb (svc =? p_modsvc cfg)); [|reflexivity].
    destruct (has svc (defs s)); [|reflexivity].
    destruct (negb (has (svc, prov) (binds s))); [|reflexivity].
    apply Z.eqb_neq in Hne. rewrite Hne. reflexivity. }
  split; [exact E|]. unfold step. now rewrite E.
Qed.

Example C05_auth_bind_foreign_provider_rejected_ex :
  Reach ax_cfg ax_s /\ get 7 (owner_of ax_s) = Some 42 /\ 42 <> 43
  /\ step ax_cfg ax_s (OBind 1 7 (CBase 200000) (Some ax_raw) 10 43 true) = (ax_s, RErr)
  /\ exists s', handle ax_cfg (run ax_cfg ax_s [ODefine 2 5 true])
                  (OBind 2 7 (CBase 200000) (Some ax_raw) 10 42 true) = Ok s'.
Proof.
  split; [exact ax_reach|]. split; [vm_compute; reflexivity|]. split; [discriminate|].
  split; [vm_compute; reflexivity|]. eexists. vm_compute. reflexivity.
Qed.

(* binding the service reserved by a module is rejected *)
Theorem C05_bind_module_service_rejected cfg s svc prov dep pr qos owner ok :
  svc = p_modsvc cfg ->
  handle cfg s (OBind svc prov dep pr qos owner ok) = Err
  /\ step cfg s (OBind svc prov dep pr qos owner ok) = (s, RErr).
Proof.
  intros ->.
  assert (E : handle cfg s (OBind (p_modsvc cfg) prov dep pr qos owner ok) = Err).
  { cbn [handle]. unfold h_bind. destruct ok; [|reflexivity]. cbn [guard].
    rewrite Z.eqb_refl. reflexivity. }
  split; [exact E|]. unfold step. now rewrite E.
Qed.

Example C05_bind_module_service_rejected_ex :
  let s := run ax_cfg ax_s [ODefine 77 5 true] in
  Reach ax_cfg s /\ has 77 (defs s) = true /\ 77 = p_modsvc ax_cfg
  /\ step ax_cfg s (OBind 77 7 (CBase 200000) (Some ax_raw) 10 42 true) = (s, RErr).
Proof.
  split; [apply reach_run; [exact ax_reach|wf_run_tac]|].
  split; [vm_compute; reflexivity|]. split; [reflexivity|]. vm_compute. reflexivity.
Qed.

Theorem C05_auth_bind cfg s svc prov dep pr qos owner ok s' :
  handle cfg s (OBind svc prov dep pr qos owner ok) = Ok s' ->
  svc <> p_modsvc cfg /\ (forall o', get prov (owner_of s) = Some o' -> o' = owner).
Proof.
  intros H. split.
  - intros E. destruct (C05_bind_module_service_rejected cfg s svc prov dep pr qos owner ok E) as [E1 _].
    congruence.
  - intros o' Ho. destruct (Z.eq_dec o' owner) as [|Hne]; [assumption|].
    destruct (C05_auth_bind_foreign_provider_rejected cfg s svc prov dep pr qos owner ok o' Ho Hne)
      as [E1 _]. congruence.
Qed.

(* withdrawing the earnings of one provider: only its owner *)
Theorem C05_auth_withdraw_provider cfg s owner prov ok s' :
  handle cfg s (OWithdraw owner prov ok) = Ok s' -> prov <> 0 ->
  get prov (owner_of s) = Some owner.
Proof.
  cbn [handle]. unfold h_withdraw. intros H Hp. inv_ok H.
  apply Z.eqb_neq in Hp. rewrite Hp in Hc0. cbn [orb] in Hc0.
  destruct (get prov (owner_of s)) as [o|]; [|discriminate]. b2p. now subst.
Qed.

Example C05_auth_withdraw_provider_ex :
  Reach ax_cfg ax_s /\ 7 <> 0
  /\ (exists s', handle ax_cfg ax_s (OWithdraw 42 7 true) = Ok s'
        /\ bal s' (User 44) = bal ax_s (User 44) + 95 /\ bal s' (User 42) = bal ax_s (User 42))
  /\ step ax_cfg ax_s (OWithdraw 43 7 true) = (ax_s, RErr).
Proof.
  split; [exact ax_reach|]. split; [discriminate|].
  split; [eexists; split; [vm_compute; reflexivity|vm_compute; split; reflexivity]|].
  vm_compute. reflexivity.
Qed.

(* a response is accepted only from the provider the request was addressed to *)
Theorem C05_auth_respond cfg s r who code out out_valid ok s' :
  handle cfg s (ORespond r who code out out_valid ok) = Ok s' ->
  exists q, get r (reqs s) = Some q /\ who = r_prov q /\ r_active q = true.
Proof.
  cbn [handle]. intros H. apply respond_inv in H.
  destruct H as (q & rc0 & s1 & rc & _ & Hq & _ & Hw & Ha & _). eauto.
Qed.

Example C05_auth_respond_ex :
  Reach ax_cfg ax_s
  /\ (exists s', handle ax_cfg ax_s (ORespond (ax_rid 1) 8 0 0 true true) = Ok s')
  /\ step ax_cfg ax_s (ORespond (ax_rid 1) 7 0 0 true true) = (ax_s, RErr)
  /\ step ax_cfg ax_s (ORespond (ax_rid 1) 50 0 0 true true) = (ax_s, RErr)
  /\ step ax_cfg ax_s (ORespond (ax_rid 0) 7 0 0 true true) = (ax_s, RErr).
Proof.
  split; [exact ax_reach|]. split; [eexists; vm_compute; reflexivity|].
  repeat split; vm_compute; reflexivity.
Qed.

Theorem C05_auth_pause cfg s c who ok s' :
  handle cfg s (OPause c who ok) = Ok s' ->
  exists rc, get c (ctxs s) = Some rc /\ c_cons rc = who /\ c_mod rc = 0.
Proof.
  cbn [handle]. intros H. apply h_pause_spec in H.
  destruct H as (rc & E & Hw & Hm & _). eauto.
Qed.

Example C05_auth_pause_ex :
  Reach ax_cfg ax_s
  /\ (exists s', handle ax_cfg ax_s (OPause ax_cA 50 true) = Ok s')
  /\ step ax_cfg ax_s (OPause ax_cA 51 true) = (ax_s, RErr)
  /\ (exists rc, get ax_cM (ctxs ax_s) = Some rc /\ c_cons rc = 51 /\ c_mod rc = 99)
  /\ step ax_cfg ax_s (OPause ax_cM 51 true) = (ax_s, RErr).
Proof.
  split; [exact ax_reach|]. split; [eexists; vm_compute; reflexivity|].
  split; [vm_compute; reflexivity|].
  split; [eexists; vm_compute; repeat split; reflexivity|]. vm_compute. reflexivity.
Qed.

Theorem C05_auth_start cfg s c who ok s' :
  handle cfg s (OStart c who ok) = Ok s' ->
  exists rc, get c (ctxs s) = Some rc /\ c_cons rc = who /\ c_mod rc = 0.
Proof.
  cbn [handle]. intros H. apply h_start_spec in H.
  destruct H as (rc & E & Hw & Hm & _). eauto.
Qed.

Definition ax_s_paused : State := run ax_cfg ax_s [OPause ax_cA 50 true].

Example C05_auth_start_ex :
  Reach ax_cfg ax_s_paused
  /\ (exists s', handle ax_cfg ax_s_paused (OStart ax_cA 50 true) = Ok s')
  /\ step ax_cfg ax_s_paused (OStart ax_cA 42 true) = (ax_s_paused, RErr).
Proof.
  split; [apply reach_run; [exact ax_reach|wf_run_tac]|].
  split; [eexists; vm_compute; reflexivity|]. vm_compute. reflexivity.
Qed.

Theorem C05_auth_kill cfg s c who ok s' :
  handle cfg s (OKill c who ok) = Ok s' ->
  exists rc, get c (ctxs s) = Some rc /\ c_cons rc = who /\ c_mod rc = 0.
Proof.
  cbn [handle]. intros H. apply h_kill_spec in H.
  destruct H as (rc & E & Hw & Hm & _). eauto.
Qed.

Example C05_auth_kill_ex :
  Reach ax_cfg ax_s
  /\ (exists s', handle ax_cfg ax_s (OKill ax_cA 50 true) = Ok s')
  /\ step ax_cfg ax_s (OKill ax_cA 7 true) = (ax_s, RErr)
  /\ step ax_cfg ax_s (OKill ax_cM 51 true) = (ax_s, RErr).
Proof.
  split; [exact ax_reach|]. split; [eexists; vm_compute; reflexivity|].
  split; vm_compute; reflexivity.
Qed.

Theorem C05_auth_update_ctx cfg s c who provs cap timeout freq total ok s' :
  handle cfg s (OUpdateCtx c who provs cap timeout freq total ok) = Ok s' ->
  exists rc, get c (ctxs s) = Some rc /\ c_cons rc = who /\ c_mod rc = 0.
Proof.
  cbn [handle]. intros H. apply h_update_ctx_spec in H.
  destruct H as (rc & capo & E & Hw & Hm & _). eauto.
Qed.

Example C05_auth_update_ctx_ex :
  Reach ax_cfg ax_s
  /\ (exists s', handle ax_cfg ax_s (OUpdateCtx ax_cA 50 [7] CEmpty 0 0 0 true) = Ok s')
  /\ step ax_cfg ax_s (OUpdateCtx ax_cA 51 [7] CEmpty 0 0 0 true) = (ax_s, RErr)
  /\ step ax_cfg ax_s (OUpdateCtx ax_cM 51 [7] CEmpty 0 0 0 true) = (ax_s, RErr).
Proof.
  split; [exact ax_reach|]. split; [eexists; vm_compute; reflexivity|].
  split; vm_compute; reflexivity.
Qed.

(* all of the above, as one statement *)
Theorem C05_authority cfg s o s' : handle cfg s o = Ok s' -> rightful cfg s o.
Proof.
  intros H. destruct o; cbn [rightful]; try exact I.
  - eapply C05_auth_bind; eauto.
  - eapply C05_auth_update; eauto.
  - eapply C05_auth_disable; eauto.
  - eapply C05_auth_enable; eauto.
  - eapply C05_auth_refund_deposit; eauto.
  - eapply C05_auth_respond; eauto.
  - eapply C05_auth_pause; eauto.
  - eapply C05_auth_start; eauto.
  - eapply C05_auth_kill; eauto.
  - eapply C05_auth_update_ctx; eauto.
  - eapply C05_auth_withdraw_provider; eauto.
Qed.

(* a message that is not sent by the rightful party changes nothing at all *)
Theorem C05_wrong_signer_no_effect cfg s o :
  ~ rightful cfg s o -> fst (step cfg s o) = s /\ snd (step cfg s o) <> ROk.
Proof.
  intros Hn. unfold step. destruct (handle cfg s o) as [s'| |] eqn:E; cbn [fst snd].
  - exfalso. apply Hn. eapply C05_authority; eauto.
  - split; [reflexivity|discriminate].
  - split; [reflexivity|discriminate].
Qed.

Example C05_wrong_signer_no_effect_ex :
  Reach ax_cfg ax_s /\ ~ rightful ax_cfg ax_s (OKill ax_cA 51 true)
  /\ ~ rightful ax_cfg ax_s (OWithdraw 43 7 true)
  /\ rightful ax_cfg ax_s (OKill ax_cA 50 true).
Proof.
  split; [exact ax_reach|]. split; [|split].
  - cbn [rightful]. intros (rc & E & Hw & _). vm_compute in E. injection E as <-. discriminate.
  - cbn [rightful]. intros H. specialize (H ltac:(discriminate)). vm_compute in H. discriminate.
  - cbn [rightful]. eexists. vm_compute. repeat split; reflexivity.
Qed.
