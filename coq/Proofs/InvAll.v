(* The global invariant holds in every reachable state, and in every intermediate
   state inside EndBlock (after each per-context handler). *)
From Coq Require Import List ZArith Bool Lia Permutation.
From SVC Require Import Base.AMap Base.Res Base.Dec Model.Types Model.Pricing
  Model.Handlers Model.EndBlock Model.Step Proofs.Inv Proofs.Lemmas Proofs.InvWf
  Proofs.InvBank Proofs.InvIndex Proofs.InvEarn Proofs.InvSched Proofs.InvCtx
  Proofs.InvEscrow Proofs.InvReq Proofs.InvWd.
Import ListNotations.
Open Scope Z_scope.

Theorem Inv_init cfg h0 t0 f :
  1 <= h0 -> 0 <= t0 -> wf_funding f -> Inv cfg (init h0 t0 f).
Proof.
  intros H1 H2 H3. constructor.
  - apply I_wf_init.
  - now apply I_bank_init.
  - now apply I_deposit_init.
  - apply I_escrow_init.
  - now apply I_earn_init.
  - now apply I_min_init.
  - now apply I_index_init.
  - now apply I_sched_init.
  - now apply I_ctx_init.
  - apply I_req_init.
  - now apply I_time_init.
  - now apply I_wd_init.
Qed.

Theorem Inv_msg cfg s o s' :
  wf_cfg cfg -> Inv cfg s -> wf_op s o -> (forall dt, o <> OEndBlock dt) ->
  handle cfg s o = Ok s' -> Inv cfg s'.
Proof.
  intros Hc Hi Ho Hn H. constructor.
  - eapply wf_msg; eauto. apply Hi.
  - eapply I_bank_msg; eauto.
  - eapply I_deposit_msg; eauto.
  - eapply I_escrow_msg; eauto.
  - eapply I_earn_msg; eauto.
  - eapply I_min_msg; eauto.
  - eapply I_index_msg; eauto.
  - eapply I_sched_msg; eauto.
  - eapply I_ctx_msg; eauto.
  - eapply I_req_msg; eauto.
  - eapply I_time_msg; eauto.
  - eapply I_wd_msg; eauto.
Qed.

Theorem Inv_expire_one cfg s c :
  wf_cfg cfg -> Inv cfg s -> In (height s, c) (expq s) -> height s < HEIGHT_BOUND ->
  Inv cfg (expire_one cfg s c).
Proof.
  intros Hc Hi Hd Hb. constructor.
  - apply wf_expire_one. apply Hi.
  - now apply I_bank_expire_one.
  - now apply I_deposit_expire_one.
  - now apply I_escrow_expire_one.
  - now apply I_earn_expire_one.
  - now apply I_min_expire_one.
  - now apply I_index_expire_one.
  - now apply I_sched_expire_one.
  - now apply I_ctx_expire_one.
  - now apply I_req_expire_one.
  - now apply I_time_expire_one.
  - now apply I_wd_expire_one.
Qed.

Theorem Inv_new_one cfg s c :
  wf_cfg cfg -> Inv cfg s -> In (height s, c) (newq s) -> height s < HEIGHT_BOUND ->
  Inv cfg (new_one cfg s c).
Proof.
  intros Hc Hi Hd Hb. constructor.
  - apply wf_new_one. apply Hi.
  - now apply I_bank_new_one.
  - now apply I_deposit_new_one.
  - now apply I_escrow_new_one.
  - now apply I_earn_new_one.
  - now apply I_min_new_one.
  - now apply I_index_new_one.
  - now apply I_sched_new_one.
  - now apply I_ctx_new_one.
  - now apply I_req_new_one.
  - now apply I_time_new_one.
  - now apply I_wd_new_one.
Qed.

(* ---- the two phases of EndBlock ---- *)

Lemma In_due (q : list (Z * CtxId)) h c : In c (due q h) <-> In (h, c) q.
Proof.
  unfold due. rewrite isort_In, in_map_iff. split.
  - intros ([h' c'] & E & Hin). cbn [snd] in E. subst c'. apply filter_In in Hin.
    destruct Hin as [Hin Hf]. cbn [fst] in Hf. apply Z.eqb_eq in Hf. now subst h'.
  - intros Hin. exists (h, c). split; [reflexivity|]. apply filter_In. split; [assumption|].
    cbn [fst]. apply Z.eqb_refl.
Qed.

Lemma NoDup_due (q : list (Z * CtxId)) h : NoDup q -> NoDup (due q h).
Proof.
  intros Hn. unfold due. apply isort_NoDup.
  induction q as [|[a b] t IH]; cbn [filter map]; [constructor|].
  inversion Hn as [|? ? Hni Hn']; subst. cbn [fst].
  destruct (Z.eqb_spec a h) as [->|]; [|auto].
  cbn [map snd]. constructor; [|auto].
  intros Hin. apply Hni. apply in_map_iff in Hin. destruct Hin as ([h' c'] & E & Hin).
  cbn [snd] in E. subst c'. apply filter_In in Hin. destruct Hin as [Hin Hf].
  cbn [fst] in Hf. apply Z.eqb_eq in Hf. now subst h'.
Qed.

Lemma fold_expire_phase cfg l s :
  wf_cfg cfg -> Inv cfg s -> height s < HEIGHT_BOUND -> NoDup l ->
  (forall c, In c l -> In (height s, c) (expq s)) ->
  let s' := fold_left (expire_one cfg) l s in
  Inv cfg s' /\ height s' = height s /\ time s' = time s
  /\ (forall h c, In (h, c) (expq s') <-> (In (h, c) (expq s) /\ ~ In c l)).
Proof.
  intros Hcfg. revert s. induction l as [|a l IH]; intros s Hi Hb Hn Hl; cbn [fold_left]; cbv zeta.
  - split; [exact Hi|]. split; [reflexivity|]. split; [reflexivity|]. intros h c. cbn [In]. tauto.
  - inversion Hn as [|? ? Hna Hn']; subst.
    assert (Hda : In (height s, a) (expq s)) by (apply Hl; now left).
    pose proof (Inv_expire_one cfg s a Hcfg Hi Hda Hb) as Hi1.
    pose proof (height_expire_one cfg s a Hcfg Hi Hda Hb) as Eh.
    pose proof (time_expire_one cfg s a Hcfg Hi Hda Hb) as Et.
    pose proof (expq_after_expire_one cfg s a Hcfg Hi Hda Hb) as Eq.
    destruct (IH (expire_one cfg s a) Hi1) as (I' & H' & T' & Q'); try assumption.
    + now rewrite Eh.
    + intros c Hc. rewrite Eh. apply Eq. split; [apply Hl; now right|]. intros ->. contradiction.
    + split; [assumption|]. split; [congruence|]. split; [congruence|].
      intros h c. rewrite Q', Eq. cbn [In]. split.
      * intros [[H1 H2] H3]. split; [assumption|]. intros [E|E]; [congruence|contradiction].
      * intros [H1 H2]. split; [split; [assumption|]|]; intros E; apply H2; [left; congruence|now right].
Qed.

Lemma fold_new_phase cfg l s :
  wf_cfg cfg -> Inv cfg s -> height s < HEIGHT_BOUND -> NoDup l ->
  (forall c, In c l -> In (height s, c) (newq s)) ->
  let s' := fold_left (new_one cfg) l s in
  Inv cfg s' /\ height s' = height s /\ time s' = time s
  /\ (forall h c, In (h, c) (newq s') <-> (In (h, c) (newq s) /\ ~ In c l))
  /\ (forall h c, In (h, c) (expq s') -> In (h, c) (expq s) \/ height s < h).
Proof.
  intros Hcfg. revert s. induction l as [|a l IH]; intros s Hi Hb Hn Hl; cbn [fold_left]; cbv zeta.
  - split; [exact Hi|]. split; [reflexivity|]. split; [reflexivity|]. split; [intros h c; cbn [In]; tauto|]. intros h c Hin. now left.
  - inversion Hn as [|? ? Hna Hn']; subst.
    assert (Hda : In (height s, a) (newq s)) by (apply Hl; now left).
    pose proof (Inv_new_one cfg s a Hcfg Hi Hda Hb) as Hi1.
    pose proof (height_new_one cfg s a Hcfg Hi Hda Hb) as Eh.
    pose proof (time_new_one cfg s a Hcfg Hi Hda Hb) as Et.
    pose proof (newq_after_new_one cfg s a Hcfg Hi Hda Hb) as Eq.
    pose proof (expq_after_new_one cfg s a Hcfg Hi Hda Hb) as Ee.
    destruct (IH (new_one cfg s a) Hi1) as (I' & H' & T' & Q' & E'); try assumption.
    + now rewrite Eh.
    + intros c Hc. rewrite Eh. apply Eq. split; [apply Hl; now right|]. intros ->. contradiction.
    + split; [assumption|]. split; [congruence|]. split; [congruence|]. split.
      * intros h c. rewrite Q', Eq. cbn [In]. split.
        -- intros [[H1 H2] H3]. split; [assumption|]. intros [E|E]; [congruence|contradiction].
        -- intros [H1 H2]. split; [split; [assumption|]|]; intros E; apply H2; [left; congruence|now right].
      * intros h c Hin. apply E' in Hin. rewrite Eh in Hin. destruct Hin as [Hin|Hlt]; [|now right].
        apply Ee in Hin. destruct Hin as [Hin|[_ Hlt]]; [now left|now right].
Qed.

Theorem Inv_end_block cfg s dt :
  wf_cfg cfg -> Inv cfg s -> 0 <= dt -> height s < HEIGHT_BOUND ->
  Inv cfg (end_block cfg s dt).
Proof.
  intros Hcfg Hi Hdt Hb. unfold end_block, end_blocker.
  set (l1 := due (expq s) (height s)).
  assert (Hn1 : NoDup l1) by (apply NoDup_due; apply (inv_wf _ _ Hi)).
  assert (Hl1 : forall c, In c l1 -> In (height s, c) (expq s)) by (intros c; apply In_due).
  destruct (fold_expire_phase cfg l1 s Hcfg Hi Hb Hn1 Hl1) as (I1 & H1 & T1 & Q1).
  set (s1 := fold_left (expire_one cfg) l1 s) in *.
  set (l2 := due (newq s1) (height s1)).
  assert (Hn2 : NoDup l2) by (apply NoDup_due; apply (inv_wf _ _ I1)).
  assert (Hl2 : forall c, In c l2 -> In (height s1, c) (newq s1)) by (intros c; apply In_due).
  assert (Hb1 : height s1 < HEIGHT_BOUND) by now rewrite H1.
  destruct (fold_new_phase cfg l2 s1 Hcfg I1 Hb1 Hn2 Hl2) as (I2 & H2 & T2 & Q2 & E2).
  set (s2 := fold_left (new_one cfg) l2 s1) in *.
  destruct (inv_sched _ _ I2) as (S1 & S2 & _ & _ & S5 & S6 & _).
  assert (Hexp : forall c h, get c (expq_h s2) = Some h -> height s2 < h).
  { intros c h G. pose proof (S5 _ _ G) as Hle. apply S1 in G.
    destruct (Z.eq_dec h (height s2)) as [->|]; [|lia]. exfalso.
    apply E2 in G. destruct G as [G|G]; [|lia].
    apply Q1 in G. destruct G as [G Hni]. apply Hni. apply In_due. rewrite H2, H1 in G. exact G. }
  assert (Hnew : forall c h, get c (newq_h s2) = Some h -> height s2 < h).
  { intros c h G. pose proof (S6 _ _ G) as Hle. apply S2 in G.
    destruct (Z.eq_dec h (height s2)) as [->|]; [|lia]. exfalso.
    apply Q2 in G. destruct G as [G Hni]. apply Hni. apply In_due. rewrite H2 in G. exact G. }
  constructor.
  - pose proof (inv_wf _ _ I2) as W. unfold I_wf in *. exact W.
  - apply I_bank_tick; [apply I2|assumption].
  - apply I_deposit_tick; [apply I2|assumption].
  - apply I_escrow_tick, I2.
  - apply I_earn_tick; [apply I2|assumption].
  - apply I_min_tick; [apply I2|assumption].
  - apply I_index_tick; [apply I2|assumption].
  - apply I_sched_tick; [exact Hexp|exact Hnew|apply I2].
  - apply I_ctx_tick; [apply I2|assumption].
  - apply I_req_tick, I2.
  - apply I_time_tick; [apply I2|assumption].
  - apply I_wd_tick, I2.
Qed.

Theorem Inv_step cfg s o :
  wf_cfg cfg -> Inv cfg s -> wf_op s o -> Inv cfg (fst (step cfg s o)).
Proof.
  intros Hcfg Hi Ho. unfold step. destruct (handle cfg s o) as [s'| |] eqn:E; cbn [fst]; try assumption.
  destruct o; try (eapply Inv_msg; [exact Hcfg|exact Hi|exact Ho|discriminate|exact E]).
  cbn [handle] in E. injection E as <-. cbn [wf_op] in Ho. destruct Ho. now apply Inv_end_block.
Qed.

Theorem Reach_Inv cfg s : wf_cfg cfg -> Reach cfg s -> Inv cfg s.
Proof.
  intros Hcfg H. induction H as [h0 t0 f H1 H2 H3|s o H IH Ho].
  - now apply Inv_init.
  - now apply Inv_step.
Qed.

Lemma NoDup_app_remove_r' {A} (l l' : list A) : NoDup (l ++ l') -> NoDup l.
Proof.
  induction l as [|a l IH]; cbn [app]; intros H; [constructor|].
  inversion H as [|? ? Hni Hn]; subst. constructor; [|auto].
  intros Hin. apply Hni. apply in_or_app. now left.
Qed.

(* every intermediate state inside EndBlock satisfies the invariant as well *)
Theorem Inv_inside_end_block cfg s :
  wf_cfg cfg -> Inv cfg s -> height s < HEIGHT_BOUND ->
  forall k, Inv cfg (fold_left (expire_one cfg) (firstn k (due (expq s) (height s))) s).
Proof.
  intros Hcfg Hi Hb k.
  set (l := firstn k (due (expq s) (height s))).
  assert (Hn : NoDup l).
  { unfold l. assert (Hq : NoDup (expq s)) by apply (inv_wf _ _ Hi).
    pose proof (NoDup_due (expq s) (height s) Hq) as Hd.
    rewrite <- (firstn_skipn k (due (expq s) (height s))) in Hd. now apply NoDup_app_remove_r' in Hd. }
  assert (Hl : forall c, In c l -> In (height s, c) (expq s)).
  { intros c Hc. apply In_due. unfold l in Hc.
    rewrite <- (firstn_skipn k (due (expq s) (height s))). apply in_or_app. now left. }
  exact (proj1 (fold_expire_phase cfg l s Hcfg Hi Hb Hn Hl)).
Qed.
