(* C18 gap closing (audit build/audit/C18.md):
   A. store keys: earned-fee keys with one denom are injective in the provider for all
      lengths (facet 8); PARSE-BACK of scanned keys, exactly as the keeper slices them
      (facet 9: binding.go:393-396, fees.go:171, fees.go:200, key[1:] sites);
   B. the position of a request in its batch's issue event is the index stored in its id
      (facet 5): shape of the log written by issue_all / initiate_requests / new_one;
   C. the tuple identifiers of the state machine encode injectively into the 40/58-byte
      identifiers of Model/Ids.v (facet 6; the ranges are proved for reachable states in
      Proofs/GapC18Trace.v).
   The byte order of the keys (facet 12) is in Proofs/GapC18Order.v. *)
From Coq Require Import List NArith ZArith Bool Lia.
From SVC Require Import Base.Bytes gen.KeysGen Model.Ids Proofs.IdsProofs Proofs.KProofs.
From SVC Require Import Base.AMap Base.Res Base.Dec Model.Types Model.Pricing
  Model.Handlers Model.EndBlock Model.Step Proofs.Inv Proofs.Lemmas Proofs.ReqLemmas
  Proofs.CtxOps Proofs.InvAll Proofs.ReachRun Proofs.StepSpecs_batch.
Import ListNotations.

(* ================================================================== *)
(* A. store keys *)

Open Scope nat_scope.

(* one denom (the module's single base denom): injective in the provider, any lengths *)
Theorem K_inj_earned_same_denom : forall p p' d : bytes,
  GetEarnedFeesKey p d = GetEarnedFeesKey p' d -> p = p'.
Proof.
  intros p p' d H. kred_in H. apply cons_eq_tail in H. apply app_inv_tail in H. exact H.
Qed.

(* bytes.Index(l, []byte{x}): position of the first x *)
Fixpoint index_of (x : byte) (l : bytes) : option nat :=
  match l with
  | [] => None
  | y :: t => if N.eqb y x then Some O else option_map S (index_of x t)
  end.

Lemma index_of_sep : forall a b, zero_free a -> index_of 0%N (a ++ 0%N :: b) = Some (length a).
Proof.
  induction a as [|x a IH]; intros b Hz; cbn [app index_of length].
  - reflexivity.
  - apply zero_free_cons in Hz. destruct Hz as [Hx Ha].
    destruct (N.eqb_spec x 0%N) as [E|_]; [contradiction|]. rewrite (IH b Ha). reflexivity.
Qed.

Lemma index_of_none : forall x l, index_of x l = None <-> ~ In x l.
Proof.
  intros x. induction l as [|y t IH]; cbn [index_of In]; [tauto|].
  destruct (N.eqb_spec y x) as [E|E].
  - split; [discriminate|intros H; exfalso; apply H; now left].
  - destruct (index_of x t); cbn [option_map].
    + split; [discriminate|]. intros H. exfalso. apply H. right.
      destruct IH as [_ IH']. destruct (in_dec N.eq_dec x t) as [Hin|Hni]; [exact Hin|].
      specialize (IH' Hni). discriminate.
    + split; [|reflexivity]. intros _ [H|H]; [contradiction|]. now apply (proj1 IH).
Qed.

Lemma skipn_app_exact : forall (a b : bytes) n, length a = n -> skipn n (a ++ b) = b.
Proof.
  intros a b n <-. rewrite skipn_app, skipn_all, Nat.sub_diag. reflexivity.
Qed.

Lemma firstn_app_exact : forall (a b : bytes) n, length a = n -> firstn n (a ++ b) = a.
Proof.
  intros a b n <-. rewrite firstn_app, firstn_all, Nat.sub_diag. cbn [firstn]. apply app_nil_r.
Qed.

(* binding.go:393-396 GetOwnerServiceBindings:
     bindingKey := iterator.Key()[sdk.AddrLen+1:]
     sepIndex   := bytes.Index(bindingKey, EmptyByte)
     serviceName := bindingKey[0:sepIndex];  provider := bindingKey[sepIndex+1:]
   general form: the slice starts after the owner *)
Theorem K_parse_owner_binding_gen : forall o sn p : bytes,
  zero_free sn ->
  let k := skipn (S (length o)) (GetOwnerServiceBindingKey o sn p) in
  index_of 0%N k = Some (length sn) /\ firstn (length sn) k = sn /\ skipn (S (length sn)) k = p.
Proof.
  intros o sn p Hz k. subst k. kred. cbn [skipn].
  rewrite (skipn_app_exact o _ (length o) eq_refl).
  split; [apply index_of_sep; exact Hz|]. split.
  - apply firstn_app_exact. reflexivity.
  - change (sn ++ 0%N :: p) with (sn ++ [0%N] ++ p). rewrite app_assoc.
    apply (skipn_app_exact (sn ++ [0%N]) p (S (length sn))).
    rewrite app_length. cbn [length]. lia.
Qed.

(* with sdk.AddrLen = 20 *)
Theorem K_parse_owner_binding : forall o sn p : bytes,
  length o = 20 -> zero_free sn ->
  let k := skipn 21 (GetOwnerServiceBindingKey o sn p) in
  exists i, index_of 0%N k = Some i /\ firstn i k = sn /\ skipn (S i) k = p.
Proof.
  intros o sn p Hl Hz k. exists (length sn).
  pose proof (K_parse_owner_binding_gen o sn p Hz) as H. cbv zeta in H. rewrite Hl in H. exact H.
Qed.

(* K5: for an owner that is not 20 bytes long the slice [AddrLen+1:] is misplaced and the
   code recovers another (service, provider) pair *)
Theorem K_parse_owner_binding_refuted : exists o sn p : bytes,
  length o = 21 /\ zero_free sn /\
  let k := skipn 21 (GetOwnerServiceBindingKey o sn p) in
  exists i, index_of 0%N k = Some i /\ (firstn i k <> sn \/ skipn (S i) k <> p).
Proof.
  exists (repeat 1%N 21), [5%N], [9%N]. split; [reflexivity|]. split.
  - intros [H|[]]. discriminate.
  - cbv zeta. exists 2. split; [vm_compute; reflexivity|]. left. vm_compute. discriminate.
Qed.

(* fees.go:171 WithdrawEarnedFees: provider := iterator.Key()[sdk.AddrLen+1:] *)
Theorem K_parse_owner_provider_gen : forall o p : bytes,
  skipn (S (length o)) (GetOwnerProviderKey o p) = p.
Proof. intros o p. kred. cbn [skipn]. apply skipn_app_exact. reflexivity. Qed.

Theorem K_parse_owner_provider : forall o p : bytes,
  length o = 20 -> skipn 21 (GetOwnerProviderKey o p) = p.
Proof.
  intros o p Hl. pose proof (K_parse_owner_provider_gen o p) as H. rewrite Hl in H. exact H.
Qed.

(* fees.go:200 RefundEarnedFees (repair D8):
     provider := key[1 : len(key)-len(earnedFee.Denom)]
   where the stored coin has the denom the key was built with *)
Theorem K_parse_earned : forall p d : bytes,
  let k := GetEarnedFeesKey p d in
  firstn (length k - length d - 1) (skipn 1 k) = p.
Proof.
  intros p d k. subst k. kred. cbn [skipn length]. rewrite app_length.
  replace (S (length p + length d) - length d - 1) with (length p) by lia.
  apply firstn_app_exact. reflexivity.
Qed.

(* key[1:] : binding.go:537 (0x07), invocation.go:363 (0x08), invocation.go:541,
   grpc_query.go:147, querier.go:250, state_change.go:48 (0x13), invocation.go:976 (0x16) *)
Theorem K_parse_tail_withdraw_addr : forall o : bytes, skipn 1 (GetWithdrawAddrKey o) = o.
Proof. intros o. kred. reflexivity. Qed.
Theorem K_parse_tail_request_context : forall c : bytes, skipn 1 (GetRequestContextKey c) = c.
Proof. intros c. kred. reflexivity. Qed.
Theorem K_parse_tail_request : forall r : bytes, skipn 1 (GetRequestKey r) = r.
Proof. intros r. kred. reflexivity. Qed.
Theorem K_parse_tail_response : forall r : bytes, skipn 1 (GetResponseKey r) = r.
Proof. intros r. kred. reflexivity. Qed.
Theorem K_parse_tail_active_by_id : forall r : bytes, skipn 1 (GetActiveRequestKeyByID r) = r.
Proof. intros r. kred. reflexivity. Qed.

(* the scans that feed key[1:] into SplitRequestID: a key of the (context, batch) request
   sub-space parses back to the request id it was built from, and that id splits into the
   scanned context and batch *)
Theorem K_parse_request_scan : forall (c : bytes) (b : N) (h i : Z),
  length c = 40 -> is_uint64 b -> is_int64 h -> is_int16 i ->
  let k := GetRequestKey (gen_request_id c b h i) in
  is_prefix (GetRequestSubspaceByReqCtx c b) k
  /\ split_request_id (skipn 1 k) = Some (c, b, h, i).
Proof.
  intros c b h i Hc Hb Hh Hi k. subst k. split.
  - apply (K_scan_exact_requests_by_ctx_batch c b c b h i eq_refl Hb Hb). split; reflexivity.
  - rewrite K_parse_tail_request. apply reqid_roundtrip; assumption.
Qed.

(* ================================================================== *)
(* B. position in the issue event = index in the id *)

Open Scope Z_scope.

(* the issue events of a batch, oldest first *)
Fixpoint issue_events (s : State) (c : CtxId) (rc : Ctx) (n i : Z) (provs : list Z) : list Event :=
  match provs with
  | [] => []
  | p :: t => EvIssue (c, n, height s, i) p (c_cons rc) (fee_of s rc p)
              :: issue_events s c rc n (i + 1) t
  end.

Lemma fee_of_stable_pos s s1 rc prov :
  time s1 = time s -> pricing s1 = pricing s -> vols s1 = vols s ->
  fee_of s1 rc prov = fee_of s rc prov.
Proof. intros H2 H3 H4. unfold fee_of, pricing_of, vol_of. now rewrite H2, H3, H4. Qed.

Lemma issue_events_stable s s1 c rc n i provs :
  height s1 = height s -> time s1 = time s -> pricing s1 = pricing s -> vols s1 = vols s ->
  issue_events s1 c rc n i provs = issue_events s c rc n i provs.
Proof.
  intros H1 H2 H3 H4. revert i. induction provs as [|p t IH]; intros i; cbn [issue_events]; [reflexivity|].
  now rewrite IH, H1, (fee_of_stable_pos s s1) by assumption.
Qed.

Lemma issue_events_length s c rc n i provs : length (issue_events s c rc n i provs) = length provs.
Proof. revert i. induction provs as [|p t IH]; intros i; cbn [issue_events length]; [reflexivity|]. now rewrite IH. Qed.

(* the k-th event carries index i + k and the k-th provider *)
Lemma issue_events_nth s c rc n i provs k :
  nth_error (issue_events s c rc n i provs) k
  = option_map (fun p => EvIssue (c, n, height s, i + Z.of_nat k) p (c_cons rc) (fee_of s rc p))
      (nth_error provs k).
Proof.
  revert i k. induction provs as [|p t IH]; intros i k; cbn [issue_events].
  - destruct k; reflexivity.
  - destruct k as [|k]; cbn [nth_error option_map].
    + now rewrite Z.add_0_r.
    + rewrite IH. destruct (nth_error t k); cbn [option_map]; [|reflexivity].
      do 3 f_equal. lia.
Qed.

(* the log written by issue_all: the issue events, newest first, on top of the old log *)
Lemma issue_all_log_events s c rc n i provs :
  log (issue_all s c rc n i provs) = rev (issue_events s c rc n i provs) ++ log s.
Proof.
  revert s i. induction provs as [|p t IH]; intros s i; cbn [issue_all issue_events rev app]; [reflexivity|].
  set (s1 := issue_one s c rc n i p).
  pose proof (issue_one_frame s c rc n i p) as F. fold s1 in F.
  destruct F as (F1 & F2 & _ & _ & F5 & _ & _ & _ & _ & _ & _ & _ & _ & _ & _ & F16 & _).
  rewrite IH, (issue_events_stable s s1) by assumption.
  rewrite <- app_assoc. cbn [app]. reflexivity.
Qed.

Lemma combine_seq_shift {B} (g : Z -> Z -> B) a len (t : list Z) :
  map (fun jp => g (Z.of_nat (fst jp)) (snd jp)) (combine (seq (S a) len) t)
  = map (fun jp => g (Z.of_nat (fst jp) + 1) (snd jp)) (combine (seq a len) t).
Proof.
  revert a t. induction len as [|len IH]; intros a t; cbn [seq combine map]; [reflexivity|].
  destruct t as [|p t]; cbn [combine map fst snd]; [reflexivity|].
  rewrite IH. f_equal. f_equal. lia.
Qed.

Lemma issue_events_combine s c rc n i provs :
  issue_events s c rc n i provs
  = map (fun jp => EvIssue (c, n, height s, i + Z.of_nat (fst jp)) (snd jp) (c_cons rc)
                     (fee_of s rc (snd jp)))
      (combine (seq 0 (length provs)) provs).
Proof.
  revert i. induction provs as [|p t IH]; intros i; cbn [issue_events length seq combine map fst snd]; [reflexivity|].
  rewrite Z.add_0_r. f_equal. rewrite IH.
  rewrite (combine_seq_shift (fun j p => EvIssue (c, n, height s, i + j) p (c_cons rc) (fee_of s rc p))).
  apply map_ext. intros [j q]. cbn [fst snd]. do 2 f_equal. lia.
Qed.

(* the statement of the audit, (d)1 *)
Lemma issue_all_log_pos s c rc n i provs :
  log (issue_all s c rc n i provs) =
    rev (map (fun jp => EvIssue (c, n, height s, i + Z.of_nat (fst jp)) (snd jp) (c_cons rc)
                          (fee_of s rc (snd jp)))
           (combine (seq 0 (length provs)) provs)) ++ log s.
Proof. rewrite issue_all_log_events, issue_events_combine. reflexivity. Qed.

(* keeper.InitiateRequests: one batch-start event on top of the issue events; the k-th
   issue event (in issue order) carries index k and the k-th provider, and the record
   stored under that id is the request to that provider *)
Theorem initiate_requests_event_index s c provs :
  let rc := ctx_or_zero s c in
  let n := c_counter rc + 1 in
  exists evs,
    log (initiate_requests s c provs) = EvBatchStart c n (height s) (len provs) :: evs ++ log s
    /\ length evs = length provs
    /\ forall k p, nth_error provs k = Some p ->
         nth_error (rev evs) k
           = Some (EvIssue (c, n, height s, Z.of_nat k) p (c_cons rc) (fee_of s rc p))
         /\ get (c, n, height s, Z.of_nat k) (reqs (initiate_requests s c provs))
            = Some (new_req s rc p).
Proof.
  intros rc n. exists (rev (issue_events s c rc n 0 provs)).
  split; [|split].
  - unfold initiate_requests. fold rc. fold n. sproj. rewrite issue_all_log_events. reflexivity.
  - rewrite rev_length. apply issue_events_length.
  - intros k p Hk. split.
    + rewrite rev_involutive, issue_events_nth, Hk. reflexivity.
    + unfold initiate_requests. fold rc. fold n. sproj.
      pose proof (issue_all_nth s c rc n 0 provs k p Hk) as G. rewrite Z.add_0_l in G. exact G.
Qed.

(* the new-batch handler, issuing branch (C06_batch_spec (e)) *)
Theorem reqid_event_index cfg s c :
  wf_cfg cfg -> Inv cfg s -> In (height s, c) (newq s) -> height s < HEIGHT_BOUND ->
  exists rc, get c (ctxs s) = Some rc /\
    let E := filter_providers s rc (c_provs rc) in
    let n := c_counter rc + 1 in
    (c_state rc = Running -> d5 rc = false -> 0 < len E -> c_thr rc <= len E ->
     c_super rc = true \/ sum_prices E <= bal s (User (c_cons rc)) ->
     exists evs,
       log (new_one cfg s c)
       = EvBatchStart c n (height s) (len E) :: evs
         ++ (if c_super rc then [] else [EvDebit c (c_cons rc) (sum_prices E)]) ++ log s
       /\ length evs = length E
       /\ forall k p price, nth_error E k = Some (p, price) ->
            let fee := if c_super rc then 0 else price in
            nth_error (rev evs) k = Some (EvIssue (c, n, height s, Z.of_nat k) p (c_cons rc) fee)
            /\ get (c, n, height s, Z.of_nat k) (reqs (new_one cfg s c))
               = Some (mkReq p fee (height s + c_timeout rc) true)).
Proof.
  intros Hcfg Hinv Hdue Hh.
  destruct (C06_batch_spec cfg s c Hcfg Hinv Hdue Hh) as (rc & Grc & HS). cbv zeta in HS.
  destruct HS as (_ & _ & _ & _ & He).
  exists rc. split; [exact Grc|]. intros E n Hst Hd H0 Hthr Hpay.
  specialize (He Hst Hd H0 Hthr Hpay). fold E in He. destruct He as (I1 & _).
  (* the log *)
  assert (Hlog : exists sp,
     log sp = (if c_super rc then [] else [EvDebit c (c_cons rc) (sum_prices E)]) ++ log s
     /\ height sp = height s /\ time sp = time s /\ pricing sp = pricing s /\ vols sp = vols s
     /\ ctxs sp = ctxs s
     /\ new_one cfg s c
        = del_newq (add_expq (initiate_requests sp c (map fst E)) c (height s + c_timeout rc)) c (height s)).
  { rewrite (new_one_eq cfg s c rc Grc). fold E. cbv zeta. rewrite Hd.
    apply is_state_true in Hst. rewrite Hst.
    assert (Hb : (0 <? len E) && (c_thr rc <=? len E) = true).
    { apply andb_true_intro. split; [apply Z.ltb_lt|apply Z.leb_le]; assumption. }
    rewrite Hb. unfold paid_state.
    destruct (c_super rc) eqn:Hsup.
    - exists s. repeat split.
    - destruct Hpay as [Hx|Hpay]; [discriminate|].
      pose proof (sum_prices_nonneg s rc (c_provs rc)) as Hnn. fold E in Hnn.
      destruct (transfer (User (c_cons rc)) Escrow (sum_prices E) s) as [x|] eqn:Et.
      2:{ exfalso. unfold transfer in Et.
          destruct ((sum_prices E <? 0) || (bal s (User (c_cons rc)) <? sum_prices E)) eqn:Eb; [|discriminate].
          apply orb_true_iff in Eb. destruct Eb; b2p; lia. }
      pose proof (transfer_frame _ _ _ _ _ Et) as Hf.
      exists (emit (EvDebit c (c_cons rc) (sum_prices E)) x).
      rewrite Hf. sproj. repeat split. }
  destruct Hlog as (sp & Lsp & Hsp & Tsp & Psp & Vsp & Csp & Enew).
  assert (Ez : ctx_or_zero sp c = rc) by (unfold ctx_or_zero; now rewrite Csp, Grc).
  destruct (initiate_requests_event_index sp c (map fst E)) as (evs & L1 & L2 & L3).
  cbv zeta in L1, L2, L3. rewrite Ez, Hsp in *. fold n in L1, L3.
  exists evs. split; [|split].
  - rewrite Enew. sproj. rewrite L1, Lsp, len_map. reflexivity.
  - now rewrite L2, map_length.
  - intros k p price Hk fee.
    assert (Hm : nth_error (map fst E) k = Some p) by (apply nth_error_map_fst; eauto).
    destruct (L3 k p Hm) as (L3a & _). split.
    + rewrite L3a. do 2 f_equal. rewrite (fee_of_stable_pos s sp) by assumption.
      destruct (nth_filter_providers _ _ _ _ _ _ Hk) as (_ & Hel).
      exact (fee_of_eligible _ _ _ _ Hel).
    + exact (I1 k (p, price) Hk).
Qed.

(* the theorem and the lemma it rests on, on the concrete reachable state of
   StepSpecs_batch.ExB (context c1: providers 7 and 11 eligible at prices 10 and 30) *)
Module ExIdx.
  Import ExB.

  Example reqid_event_index_ex :
    hyps s_a c1
    /\ log (new_one cfg s_a c1)
       = EvBatchStart c1 1 1 2
         :: [EvIssue (c1, 1, 1, 1) 11 50 30; EvIssue (c1, 1, 1, 0) 7 50 10]
         ++ [EvDebit c1 50 40] ++ log s_a
    /\ get (c1, 1, 1, 0) (reqs (new_one cfg s_a c1)) = Some (mkReq 7 10 21 true)
    /\ get (c1, 1, 1, 1) (reqs (new_one cfg s_a c1)) = Some (mkReq 11 30 21 true).
  Proof. split; [ExB.hyps_tac reach_a|]. vm_compute. auto. Qed.

  (* the hypotheses of the theorem hold of that state and its conclusion is the computed one *)
  Example reqid_event_index_applies :
    exists rc, get c1 (ctxs s_a) = Some rc
      /\ filter_providers s_a rc (c_provs rc) = [(7, 10); (11, 30)]
      /\ exists evs,
           log (new_one cfg s_a c1)
           = EvBatchStart c1 (c_counter rc + 1) (height s_a) 2 :: evs ++ [EvDebit c1 50 40] ++ log s_a
           /\ nth_error (rev evs) 1 = Some (EvIssue (c1, c_counter rc + 1, height s_a, 1) 11 50 30)
           /\ get (c1, c_counter rc + 1, height s_a, 1) (reqs (new_one cfg s_a c1))
              = Some (mkReq 11 30 (height s_a + c_timeout rc) true).
  Proof.
    destruct reqid_event_index_ex as ((H1 & H2 & H3 & H4) & _).
    destruct (reqid_event_index cfg s_a c1 H1 (Reach_Inv _ _ H1 H2) H3 H4) as (rc & Grc & HS).
    cbv zeta in HS.
    assert (Erc : Some rc = Some (mkCtx 1 [7; 8; 9; 10; 11; 12] 50 0 50 20 false false 0 0 0 0 0 0 true Running 0 0)).
    { rewrite <- Grc. vm_compute. reflexivity. }
    injection Erc as Erc.
    assert (EE : filter_providers s_a rc (c_provs rc) = [(7, 10); (11, 30)]) by (rewrite Erc; vm_compute; reflexivity).
    exists rc. split; [exact Grc|]. split; [exact EE|].
    rewrite EE in HS.
    destruct HS as (evs & L1 & L2 & L3).
    - rewrite Erc. reflexivity.
    - rewrite Erc. reflexivity.
    - reflexivity.
    - rewrite Erc. vm_compute. discriminate.
    - right. rewrite Erc. vm_compute. discriminate.
    - exists evs. destruct (L3 1%nat 11 30 eq_refl) as (A & B). cbv zeta in A, B.
      assert (Es : c_super rc = false) by (rewrite Erc; reflexivity).
      assert (Ec : c_cons rc = 50) by (rewrite Erc; reflexivity).
      rewrite Es, Ec in *. cbn [sum_prices fold_right snd] in L1.
      split; [exact L1|]. split; [exact A|exact B].
  Qed.
End ExIdx.

(* ================================================================== *)
(* C. tuple identifiers -> byte identifiers *)

(* the first component of a CtxId is the transaction hash read as a big-endian integer
   (Model/Types.v): 32 bytes *)
Definition hash_ok (a : Z) : Prop := 0 <= a < 2 ^ 256.

Definition cid_ok (c : CtxId) : Prop := hash_ok (fst c) /\ is_int64 (snd c).

Definition rid_ok (r : ReqId) : Prop :=
  cid_ok (rid_ctx r) /\ 0 <= rid_batch r < 2 ^ 64 /\ is_int64 (rid_height r) /\ is_int16 (rid_index r).

Section Enc.
  (* the 32 bytes of a hash value *)
  Variable hb : Z -> bytes.
  Hypothesis hb_len : forall a, hash_ok a -> length (hb a) = 32%nat.
  Hypothesis hb_inj : forall a b, hash_ok a -> hash_ok b -> hb a = hb b -> a = b.

  Definition enc_ctx (c : CtxId) : bytes := gen_ctx_id (hb (fst c)) (snd c).

  Definition enc_rid (r : ReqId) : bytes :=
    gen_request_id (enc_ctx (rid_ctx r)) (Z.to_N (rid_batch r)) (rid_height r) (rid_index r).

  Lemma enc_ctx_len c : cid_ok c -> length (enc_ctx c) = 40%nat.
  Proof. intros (Hh & _). apply ctxid_len, hb_len, Hh. Qed.

  Lemma enc_rid_len r : rid_ok r -> length (enc_rid r) = 58%nat.
  Proof. intros (Hc & _). apply reqid_len, enc_ctx_len, Hc. Qed.

  Theorem enc_ctx_inj c c' : cid_ok c -> cid_ok c' -> enc_ctx c = enc_ctx c' -> c = c'.
  Proof.
    destruct c as [a i], c' as [a' i']. intros (Hh & Hi) (Hh' & Hi') H. cbn [fst snd] in *.
    unfold enc_ctx in H. cbn [fst snd] in H.
    destruct (ctxid_inj _ _ _ _ (eq_trans (hb_len _ Hh) (eq_sym (hb_len _ Hh'))) Hi Hi' H) as [E1 E2].
    f_equal; [now apply hb_inj|exact E2].
  Qed.

  Theorem enc_ctx_split c : cid_ok c -> split_ctx_id (enc_ctx c) = Some (hb (fst c), snd c).
  Proof. intros (Hh & Hi). apply ctxid_roundtrip; [apply hb_len, Hh|exact Hi]. Qed.

  Lemma batch_uint64 b : 0 <= b < 2 ^ 64 -> is_uint64 (Z.to_N b).
  Proof. intros Hb. unfold is_uint64. change (2 ^ 64)%N with (Z.to_N (2 ^ 64)). lia. Qed.

  Theorem enc_rid_inj r r' : rid_ok r -> rid_ok r' -> enc_rid r = enc_rid r' -> r = r'.
  Proof.
    destruct r as [[[c b] h] i], r' as [[[c' b'] h'] i'].
    unfold rid_ok, enc_rid, rid_ctx, rid_batch, rid_height, rid_index. cbn [fst snd].
    intros (Hc & Hb & Hh & Hi) (Hc' & Hb' & Hh' & Hi') H.
    destruct (reqid_inj _ _ _ _ _ _ _ _
                (eq_trans (enc_ctx_len _ Hc) (eq_sym (enc_ctx_len _ Hc')))
                (batch_uint64 _ Hb) Hh Hi (batch_uint64 _ Hb') Hh' Hi' H) as (E1 & E2 & E3 & E4).
    apply (enc_ctx_inj _ _ Hc Hc') in E1. subst. repeat f_equal. lia.
  Qed.

  Theorem enc_rid_split r : rid_ok r ->
    split_request_id (enc_rid r)
    = Some (enc_ctx (rid_ctx r), Z.to_N (rid_batch r), rid_height r, rid_index r).
  Proof.
    intros (Hc & Hb & Hh & Hi). apply reqid_roundtrip; auto using enc_ctx_len, batch_uint64.
  Qed.

  (* distinct tuple ids never share a request key, an active-marker key or a response key *)
  Theorem enc_rid_key_inj r r' : rid_ok r -> rid_ok r' ->
    GetRequestKey (enc_rid r) = GetRequestKey (enc_rid r') -> r = r'.
  Proof. intros Hr Hr' H. apply K_inj_request in H. now apply enc_rid_inj. Qed.
End Enc.

(* the hash value as 32 big-endian bytes satisfies both hypotheses *)
Definition hash_bytes (a : Z) : bytes := be 32 (Z.to_N a).

Lemma hash_bytes_len a : hash_ok a -> length (hash_bytes a) = 32%nat.
Proof. intros _. apply be_length. Qed.

Lemma pow256_32 : (256 ^ N.of_nat 32 = Z.to_N (2 ^ 256))%N.
Proof. reflexivity. Qed.

Lemma hash_bytes_inj a b : hash_ok a -> hash_ok b -> hash_bytes a = hash_bytes b -> a = b.
Proof.
  unfold hash_ok, hash_bytes. intros Ha Hb H.
  apply be_inj in H; [lia| |]; rewrite pow256_32; lia.
Qed.

Theorem enc_rid_inj_hash r r' : rid_ok r -> rid_ok r' ->
  enc_rid hash_bytes r = enc_rid hash_bytes r' -> r = r'.
Proof. exact (enc_rid_inj hash_bytes hash_bytes_len hash_bytes_inj r r'). Qed.
