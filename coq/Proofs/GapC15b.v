(* C15, listing at the byte level: "over service names that are prefixes of one another".
   The model's atoms cannot be prefixes of one another; the byte keys can.  With the generic bridge
   of Proofs/GapC13.v (scan_render) and the key theorems of Proofs/KProofs.v (0x00 separators):
   the subspace scan of GetServiceBindings over the rendered binding records is the rendering of
   the model's bindings_of_service, for service names of any shape free of 0x00 -- in particular
   prefix-related ones; and the scan of GetOwnerServiceBindings over the rendered owner index
   selects exactly the index entries bindings_of_owner looks up (20-byte owners, K5). *)
From Coq Require Import List NArith ZArith Bool Lia.
From SVC Require Import Base.AMap Base.Bytes gen.KeysGen Proofs.KProofs
  Base.Res Base.Dec Model.Types Model.Pricing Model.Handlers Model.EndBlock Model.Step Model.Queries
  Proofs.Inv Proofs.GapC13.
Import ListNotations.

Section Listing.
  (* byte renderings of service names, addresses, and the bech32 text of an address *)
  Variable name : Z -> bytes.
  Variable addr : Z -> bytes.
  Variable bech : bytes -> bytes.
  Hypothesis name_inj : forall a b, name a = name b -> a = b.
  Hypothesis name_zero_free : forall a, zero_free (name a).
  Hypothesis addr_inj : forall a b, addr a = addr b -> a = b.
  Hypothesis bech_inj : forall a b, bech a = bech b -> a = b.

  Definition bind_key (k : BKey) : bytes := GetServiceBindingKey bech (name (fst k)) (addr (snd k)).

  (* GetServiceBindings(service): service names may be byte-prefixes of one another *)
  Theorem scan_bindings_by_service (s : State) (svc : Z) :
    scan (GetBindingsSubspace (name svc)) (fun _ _ => true) (render bind_key (binds s))
    = render bind_key (bindings_of_service s svc).
  Proof using name addr bech name_inj name_zero_free.
    unfold bindings_of_service.
    assert (Hsel : forall (k : BKey) (v : Binding), In (k, v) (binds s) ->
              is_prefixb (GetBindingsSubspace (name svc)) (bind_key k) && true = Z.eqb (fst k) svc).
    { intros k v _. rewrite andb_true_r. unfold bind_key.
      destruct (Z.eqb_spec (fst k) svc) as [->|Hne].
      - apply is_prefixb_spec. apply K_scan_exact_bindings_by_service; [apply name_zero_free|apply name_zero_free|reflexivity].
      - apply not_true_iff_false. intros E. apply is_prefixb_spec in E.
        apply K_scan_exact_bindings_by_service in E; [|apply name_zero_free|apply name_zero_free].
        apply Hne, name_inj. now symmetry. }
    exact (proj1 (scan_render bind_key (GetBindingsSubspace (name svc)) (fun _ (_ : Binding) => true)
                    (fun k => Z.eqb (fst k) svc) (binds s) Hsel)).
  Qed.

  (* the rendered binding store has no duplicate keys *)
  Theorem binding_store_keys_NoDup (m : amap BKey Binding) : wf m -> NoDup (map fst (render bind_key m)).
  Proof.
    intros Hw. apply render_keys_NoDup; [|exact Hw]. intros [sv p] [sv' p'] _ _ E. unfold bind_key in E.
    cbn [fst snd] in E. apply (K_inj_binding bech bech_inj) in E; auto. destruct E as (E1 & E2).
    apply name_inj in E1. apply addr_inj in E2. congruence.
  Qed.

  Definition ob_key (e : Z * Z * Z) : bytes :=
    GetOwnerServiceBindingKey (addr (fst (fst e))) (name (snd (fst e))) (addr (snd e)).

  (* GetOwnerServiceBindings(owner, service): the scan of the owner index selects exactly the entries
     of (owner, service) -- those that bindings_of_owner then looks up in the binding records *)
  Theorem scan_bindings_by_owner_service (l : list (Z * Z * Z)) (owner svc : Z) :
    length (addr owner) = 20%nat -> (forall e, In e l -> length (addr (fst (fst e))) = 20%nat) ->
    scan (GetOwnerBindingsSubspace (addr owner) (name svc)) (fun _ _ => true)
         (render ob_key (map (fun e => (e, tt)) l))
    = render ob_key (map (fun e => (e, tt))
        (filter (fun e => Z.eqb (fst (fst e)) owner && Z.eqb (snd (fst e)) svc) l)).
  Proof using name addr name_inj name_zero_free addr_inj.
    intros Hl Hall.
    destruct (scan_render ob_key (GetOwnerBindingsSubspace (addr owner) (name svc)) (fun _ (_ : unit) => true)
                (fun e => Z.eqb (fst (fst e)) owner && Z.eqb (snd (fst e)) svc)
                (map (fun e => (e, tt)) l)) as (S1 & _).
    { intros e v Hin. rewrite andb_true_r. unfold ob_key.
      assert (Hle : length (addr (fst (fst e))) = 20%nat).
      { apply in_map_iff in Hin. destruct Hin as (e' & E & Hin). injection E as <- _. now apply Hall. }
      pose proof (fun o' (H' : length (addr o') = 20%nat) sn' p' =>
                    K_scan_exact_bindings_by_owner_service_20 (addr owner) (name svc) (addr o') (name sn') p'
                      Hl H' (name_zero_free svc) (name_zero_free sn')) as KS.
      destruct (Z.eqb_spec (fst (fst e)) owner) as [Eo|Hne]; cbn [andb].
      - destruct (Z.eqb_spec (snd (fst e)) svc) as [Es|Hne].
        + apply is_prefixb_spec. apply (KS _ Hle). rewrite Eo, Es. split; reflexivity.
        + apply not_true_iff_false. intros E. apply is_prefixb_spec in E.
          apply (KS _ Hle) in E. destruct E as (_ & E). apply Hne, name_inj. now symmetry.
      - apply not_true_iff_false. intros E. apply is_prefixb_spec in E.
        apply (KS _ Hle) in E. destruct E as (E & _). apply Hne, addr_inj. now symmetry. }
    rewrite S1. f_equal. clear. induction l as [|e t IH]; [reflexivity|]. cbn [map filter fst snd].
    destruct (Z.eqb (fst (fst e)) owner && Z.eqb (snd (fst e)) svc); cbn [map]; now rewrite IH.
  Qed.
End Listing.

(* service names that are prefixes of one another are told apart: "ab" and "abc" *)
Example prefix_names_ex :
  let name := fun a : Z => if Z.eqb a 1 then [97; 98]%N else [97; 98; 99]%N in
  let addr := fun a : Z => repeat (Z.to_N a) 20 in
  let bech := fun b : bytes => b in
  let s := mkState 1 0 [] [((1, 7), mkBinding 5 (mkRaw 1 [] []) 1 true 0 9); ((2, 8), mkBinding 6 (mkRaw 1 [] []) 1 true 0 9)]%Z
             [] [] [] [] [] [] [] [] [] [] [] [] [] [] [] [] 0 [] in
  map fst (scan (GetBindingsSubspace (name 1%Z)) (fun _ _ => true) (render (bind_key name addr bech) (binds s)))
  = [bind_key name addr bech (1, 7)%Z].
Proof. vm_compute. reflexivity. Qed.
