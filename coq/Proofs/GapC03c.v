(* Gap closing for C03, part 3: the complete ledger of the recorded deposits.
   Every ledger event has a fixed effect on the deposit recorded on binding k:
       EvDepositIn  k owner a   +a     (bind / update / enable: the owner pays a in)
       EvDepositOut k owner a   -a     (refund of the whole deposit to the owner)
       EvSlash      _ k a       -a     (slash: burned)
   For EVERY successful operation the recorded deposit of every binding moves by exactly the sum
   of the effects of the events the step appended, and therefore in every reachable state the
   deposit recorded on a binding is the sum of the effects of the whole history:
       deposit(k) = paid in for k - refunded for k - slashed from k.
   A deposit grows only by payments, shrinks only by a refund or a slash. *)
From Coq Require Import List ZArith Bool Lia.
From SVC Require Import Base.AMap Base.Res Base.Dec Model.Types Model.Pricing
  Model.Handlers Model.EndBlock Model.Step Proofs.Inv Proofs.Lemmas Proofs.ReqLemmas
  Proofs.CtxOps Proofs.BankLemmas Proofs.InvBank Proofs.PFrame Proofs.StepSpecs_deposit
  Proofs.InvAll Proofs.ReachRun Proofs.TraceLemmas Proofs.TraceSettle Proofs.GapC02 Proofs.GapC03.
Import ListNotations.
Open Scope Z_scope.

Definition dep_delta (k : BKey) (e : Event) : Z :=
  match e with
  | EvDepositIn k' _ a => if eqb k' k then a else 0
  | EvDepositOut k' _ a => if eqb k' k then - a else 0
  | EvSlash _ k' a => if eqb k' k then - a else 0
  | _ => 0
  end.
Definition deps_delta (k : BKey) (d : list Event) : Z := fold_right (fun e z => dep_delta k e + z) 0 d.

Lemma deps_delta_cons k e d : deps_delta k (e :: d) = dep_delta k e + deps_delta k d.
Proof. reflexivity. Qed.
Lemma deps_delta_app k d1 d2 : deps_delta k (d1 ++ d2) = deps_delta k d1 + deps_delta k d2.
Proof. induction d1 as [|e d IH]; [reflexivity|]. cbn [app]. rewrite !deps_delta_cons, IH. lia. Qed.

Lemma inert_deps k d : Forall inert d -> deps_delta k d = 0.
Proof.
  induction 1 as [|e d (H1 & H2) Hd IH]; [reflexivity|]. rewrite deps_delta_cons, IH.
  destruct e; cbn in *; try reflexivity; discriminate.
Qed.

Lemma slash_ok_deps k d : Forall slash_ok d -> deps_delta k d = - slashed k d.
Proof.
  induction 1 as [|e d (_ & H2) Hd IH]; [reflexivity|]. rewrite deps_delta_cons, slashed_cons, IH.
  destruct e; cbn [dep_delta slash_amt is_dep_move] in *; try lia; try discriminate.
  destruct (eqb k0 k); lia.
Qed.

(* the relation *)
Definition DL (s s' : State) : Prop :=
  exists d, log s' = d ++ log s /\ (forall k, dep_at s' k = dep_at s k + deps_delta k d)
    /\ supply s' = supply s - slashed_all d.

Lemma DL_refl s : DL s s.
Proof. exists []. split; [reflexivity|]. split; [intros k|]; cbn; lia. Qed.

Lemma DL_trans s1 s2 s3 : DL s1 s2 -> DL s2 s3 -> DL s1 s3.
Proof.
  intros (d1 & E1 & D1 & S1) (d2 & E2 & D2 & S2). exists (d2 ++ d1).
  split; [now rewrite E2, E1, app_assoc|].
  split; [intros k; rewrite D2, D1, deps_delta_app; lia|]. rewrite S2, S1, slashed_all_app. lia.
Qed.

Lemma DS_DL s s' : DS s s' -> DL s s'.
Proof.
  intros (d & El & Hd & Hk & Hs & _). exists d. split; [exact El|]. split; [|exact Hs].
  intros k. rewrite Hk, (slash_ok_deps k d Hd). lia.
Qed.

Lemma DL_same s s' :
  binds s' = binds s -> supply s' = supply s -> ext inert (log s) (log s') -> DL s s'.
Proof.
  intros Eb Es (d & El & Hd). exists d. split; [exact El|]. split.
  - intros k. unfold dep_at. rewrite Eb, (inert_deps k d Hd). lia.
  - rewrite (proj2 (inert_sums d Hd)). lia.
Qed.

(* one binding written, its deposit moved by x, the events account for x on that key only *)
Lemma DL_set s s' k0 b' x d :
  binds s' = set k0 b' (binds s) -> b_deposit b' = dep_at s k0 + x -> log s' = d ++ log s ->
  (forall k, deps_delta k d = if eqb k0 k then x else 0) ->
  supply s' = supply s -> slashed_all d = 0 -> DL s s'.
Proof.
  intros Eb Ed El Hd Es Hz. exists d. split; [exact El|]. split; [|lia]. intros k. rewrite Hd.
  unfold dep_at at 1. unfold fget. rewrite Eb, get_set.
  destruct (eqb_spec k k0) as [->|Hn].
  - rewrite eqb_refl. unfold dep_of. lia.
  - rewrite (neq_eqb _ _ (not_eq_sym Hn)). unfold dep_at, fget. lia.
Qed.

(* an optional payment: no coins, no event; else one EvDepositIn of the amount *)
Lemma opt_pay_ledger s k owner (dep : Coins) amt s1 :
  (if coins_empty dep then Ok 0 else one_base_coin dep) = Ok amt ->
  (if coins_empty dep then Ok s else pay_deposit s k owner amt) = Ok s1 ->
  binds s1 = binds s /\ supply s1 = supply s
  /\ exists d, log s1 = d ++ log s /\ slashed_all d = 0
       /\ forall k', deps_delta k' d = if eqb k k' then amt else 0.
Proof.
  intros Ha Hs. destruct (coins_empty dep).
  - inv_ok Ha. inv_ok Hs. subst. split; [reflexivity|]. split; [reflexivity|].
    exists []. split; [reflexivity|]. split; [reflexivity|].
    intros k'. cbn [deps_delta fold_right]. now destruct (eqb k k').
  - apply pay_deposit_inv in Hs. destruct Hs as (s0 & Et & ->).
    pose proof (transfer_frame _ _ _ _ _ Et) as Hf. rewrite Hf. split; [reflexivity|]. split; [reflexivity|].
    exists [EvDepositIn k owner amt]. split; [reflexivity|]. split; [reflexivity|]. intros k'.
    cbn [deps_delta fold_right dep_delta]. destruct (eqb k k'); lia.
Qed.

Theorem deposit_ledger_step cfg s o s' :
  handle cfg s o = Ok s' ->
  exists d, log s' = d ++ log s /\ (forall k, dep_at s' k = dep_at s k + deps_delta k d)
    /\ supply s' = supply s - slashed_all d.
Proof.
  intros H. change (DL s s').
  destruct o; cbn [handle] in H.
  - (* define *) unfold h_define in H. inv_ok H. destruct (get svc (defs s)); inv_ok H. subst.
    apply DL_same; [reflexivity|reflexivity|ie_auto].
  - (* bind *) unfold h_bind in H. inv_ok H. rename a into amt, a0 into raw.
    apply pay_deposit_inv in Ha2. destruct Ha2 as (s0 & Et & ->).
    pose proof (transfer_frame _ _ _ _ _ Et) as Hf. rewrite Hf in H. sproj.
    apply (DL_set s s' (svc, prov) (mkBinding amt raw qos true TIME0 owner) amt [EvDepositIn (svc, prov) owner amt]).
    + destruct (get prov (owner_of s)); inv_ok H; subst s'; reflexivity.
    + cbn [b_deposit]. unfold dep_at. rewrite fget_dep_of_none; [lia|]. now apply negb_true_iff.
    + destruct (get prov (owner_of s)); inv_ok H; subst s'; reflexivity.
    + intros k. cbn [deps_delta fold_right dep_delta]. match goal with |- context [if ?c then _ else _] => destruct c end; lia.
    + destruct (get prov (owner_of s)); inv_ok H; subst s'; reflexivity.
    + reflexivity.
  - (* update *) unfold h_update in H. inv_ok H.
    rename a into b, a0 into amt, a1 into newp, a3 into s1. apply opt_amt_bridge in Ha0.
    destruct (opt_pay_ledger _ _ _ _ _ _ Ha0 Ha3) as (Ei0 & Es0 & d & El & Hz & Hd).
    set (b1 := if qos =? 0 then b else setb_qos b qos) in *.
    assert (Hb1 : b_deposit b1 = b_deposit b) by (subst b1; destruct (qos =? 0); auto).
    destruct (negb (qos =? 0) || negb (coins_empty dep) || match pr with Some _ => true | None => false end) eqn:Eu.
    + assert (Hex : exists x, binds s' = set (svc, prov) x (binds s) /\ b_deposit x = b_deposit b + amt
                      /\ log s' = log s1 /\ supply s' = supply s1).
      { destruct newp as [[raw p]|]; inv_ok H; subst s'; eexists; sproj; rewrite Ei0;
          (split; [reflexivity|]); cbn [b_deposit setb_raw setb_deposit];
          (split; [lia|split; reflexivity]). }
      destruct Hex as (x & Eb & Hx & Elx & Esx).
      apply (DL_set s s' (svc, prov) x amt d); try assumption.
      * rewrite Hx. unfold dep_at. rewrite (fget_dep_of _ _ _ Ha). lia.
      * now rewrite Elx.
      * now rewrite Esx.
    + inv_ok H. subst s'.
      assert (Ece : coins_empty dep = true).
      { destruct (coins_empty dep); [reflexivity|]. rewrite orb_true_r in Eu. discriminate. }
      rewrite Ece in Ha3. inv_ok Ha3. subst s1. apply DL_refl.
  - (* disable *) unfold h_disable in H. inv_ok H. subst s'. rename a into b.
    apply (DL_set s _ (svc, prov) (setb_dtime (setb_avail b false) (time s)) 0 []); try reflexivity.
    + cbn [b_deposit setb_dtime setb_avail]. unfold dep_at. rewrite (fget_dep_of _ _ _ Ha). lia.
    + intros k. cbn [deps_delta fold_right].
      match goal with |- context [if ?c then _ else _] => destruct c end; reflexivity.
  - (* enable *) unfold h_enable in H. inv_ok H. subst s'.
    rename a into b, a0 into amt, a1 into md, a2 into s1. apply opt_amt_bridge in Ha0.
    destruct (opt_pay_ledger _ _ _ _ _ _ Ha0 Ha2) as (Ei0 & Es0 & d & El & Hz & Hd).
    apply (DL_set s _ (svc, prov) (setb_dtime (setb_avail (setb_deposit b (b_deposit b + amt)) true) TIME0) amt d).
    + sproj. now rewrite Ei0.
    + cbn [b_deposit setb_dtime setb_avail setb_deposit]. unfold dep_at. rewrite (fget_dep_of _ _ _ Ha). lia.
    + exact El.
    + exact Hd.
    + exact Es0.
    + exact Hz.
  - (* refund *) unfold h_refund_deposit in H. inv_ok H. subst s'. rename a into b, a0 into s1.
    pose proof (transfer_frame _ _ _ _ _ Ha0) as Hf. rewrite Hf.
    apply (DL_set s _ (svc, prov) (setb_deposit b 0) (- b_deposit b)
             [EvDepositOut (svc, prov) (b_owner b) (b_deposit b)]); try reflexivity.
    + cbn [b_deposit setb_deposit]. unfold dep_at. rewrite (fget_dep_of _ _ _ Ha). lia.
    + intros k. cbn [deps_delta fold_right dep_delta]. match goal with |- context [if ?c then _ else _] => destruct c end; lia.
  - (* set withdraw *) unfold h_set_withdraw in H. inv_ok H. subst. apply DL_same; [reflexivity|reflexivity|ie_auto].
  - (* call *) unfold h_call, create_context in H. inv_ok H. subst. apply DL_same; [reflexivity|reflexivity|ie_auto].
  - (* modcall *) unfold create_context in H. inv_ok H. subst. apply DL_same; [reflexivity|reflexivity|ie_auto].
  - (* respond *) apply DS_DL. eapply DS_respond; eauto.
  - (* pause *) unfold h_pause, authorized in H. inv_ok H. subst. apply DL_same; [reflexivity|reflexivity|ie_auto].
  - (* start *) unfold h_start, authorized in H. inv_ok H.
    match type of H with (if ?b then _ else _) = _ => destruct b end; inv_ok H; subst;
      (apply DL_same; [reflexivity|reflexivity|ie_auto]).
  - (* kill *) unfold h_kill, authorized in H. inv_ok H. subst. apply DL_same; [reflexivity|reflexivity|ie_auto].
  - (* update ctx *) unfold h_update_ctx, update_ctx_tail, authorized in H. inv_ok H. subst.
    apply DL_same; [reflexivity|reflexivity|ie_auto].
  - (* withdraw *) unfold h_withdraw in H. inv_ok H.
    destruct (prov =? 0).
    + inv_ok H. subst. pose proof (transfer_frame _ _ _ _ _ Ha) as Hf. rewrite Hf.
      apply DL_same; [reflexivity|reflexivity|ie_auto].
    + inv_ok H. subst. pose proof (transfer_frame _ _ _ _ _ Ha0) as Hf. rewrite Hf.
      destruct (get0 prov (earned s) =? get0 owner (own_earned s)); [|destruct (_ <? 0)]; inv_ok Ha; subst;
        (apply DL_same; [reflexivity|reflexivity|ie_auto]).
  - (* transfer *) unfold h_transfer in H. inv_ok H.
    pose proof (transfer_frame _ _ _ _ _ H) as Hf. rewrite Hf. apply DL_same; [reflexivity|reflexivity|ie_auto].
  - (* end block *) injection H as <-. apply DS_DL, DS_end_block.
  - (* module update *) mod_shape H; (apply DL_same; [reflexivity|reflexivity|ie_auto]).
  - (* module pause *) mod_shape H; (apply DL_same; [reflexivity|reflexivity|ie_auto]).
  - (* module start *) mod_shape H; (apply DL_same; [reflexivity|reflexivity|ie_auto]).
  - (* module kill *) mod_shape H; (apply DL_same; [reflexivity|reflexivity|ie_auto]).
Qed.

(* history level: the recorded deposit is the ledger of the whole log *)
Theorem deposit_ledger cfg s : wf_cfg cfg -> Reach cfg s ->
  forall k, dep_at s k = deps_delta k (log s).
Proof.
  intros Hcfg HR. induction HR as [h0 t0 f H1 H2 H3|s o HR IH Ho]; intros k.
  - reflexivity.
  - unfold step. destruct (handle cfg s o) as [s'| |] eqn:E; cbn [fst]; try apply IH.
    destruct (deposit_ledger_step cfg s o s' E) as (d & El & Hd & _).
    rewrite Hd, El, deps_delta_app, IH. lia.
Qed.

(* history level: total supply is what was funded at the start minus everything slashed *)
Theorem supply_ledger cfg h0 t0 f ops :
  let s := run cfg (init h0 t0 f) ops in
  supply s = supply (init h0 t0 f) - slashed_all (log s).
Proof.
  cbv zeta. unfold run.
  assert (G : forall l s0, supply (fold_left (fun st o => fst (step cfg st o)) l s0)
                 - supply s0 = - (slashed_all (log (fold_left (fun st o => fst (step cfg st o)) l s0))
                                   - slashed_all (log s0))).
  { induction l as [|o l IH]; intros s0; cbn [fold_left]; [lia|].
    specialize (IH (fst (step cfg s0 o))).
    assert (Hs : supply (fst (step cfg s0 o)) - supply s0
                 = - (slashed_all (log (fst (step cfg s0 o))) - slashed_all (log s0))).
    { unfold step. destruct (handle cfg s0 o) as [s'| |] eqn:E; cbn [fst]; try lia.
      destruct (deposit_ledger_step cfg s0 o s' E) as (d & El & _ & Hsup).
      rewrite Hsup, El, slashed_all_app. lia. }
    lia. }
  specialize (G ops (init h0 t0 f)). change (slashed_all (log (init h0 t0 f))) with 0 in G. lia.
Qed.

(* on the example history of Proofs/TraceSettle.v: binding (1,12): 400 paid in, slashed 100 and 75 *)
Example tx_ledger :
  dep_at tx_s (1, 12) = 225 /\ deps_delta (1, 12) (log tx_s) = 400 - 100 - 75
  /\ dep_at tx_s (1, 11) = 300 /\ deps_delta (1, 11) (log tx_s) = 400 - 100
  /\ supply tx_s0 = 2000 /\ slashed_all (log tx_s) = 275 /\ supply tx_s = 1725.
Proof. vm_compute. repeat split. Qed.
