(* Concrete reachable histories used by the Examples of C10 / C12 / C16:
   - a one-shot MODULE context c1 (threshold 2, three providers): one valid and one
     malformed response, the third request expires; the callback fires at expiry;
   - a repeated MODULE context c2 (frequency 10, timeout 5, total 3) of a consumer
     whose requests all expire (refunded): cadence 1, 11, 21; before 21 he moves his
     funds away: state callback at 21;
   - a repeated context c3 with total 1 paused during its batch and restarted after
     the expiry (the D5 branch of new_one). *)
From Coq Require Import List ZArith Bool Lia.
From SVC Require Import Base.AMap Base.Res Base.Dec Model.Types Model.Pricing
  Model.Handlers Model.EndBlock Model.Step Proofs.Inv Proofs.ReachRun.
Import ListNotations.
Open Scope Z_scope.

Module BEx.
  Definition cfg0 : Params := mkParams 100 2 10 0 0 0 0 99 77.
  Definition c1 : CtxId := (1, 0).
  Definition c2 : CtxId := (2, 0).
  Definition c3 : CtxId := (3, 0).
  Definition funding : list (Z * Z) := [(2, 1000); (3, 5); (7, 1000)].
  Definition s_init : State := init 1 0 funding.

  Definition nblocks (n : nat) : list Op := repeat (OEndBlock 1) n.

  Definition ops_setup : list Op :=
    [ODefine 5 1 true;
     OBind 5 10 (CBase 100) (Some (mkRaw 10 [] [])) 5 7 true;
     OBind 5 11 (CBase 100) (Some (mkRaw 10 [] [])) 5 7 true;
     OBind 5 12 (CBase 100) (Some (mkRaw 10 [] [])) 5 7 true].
  (* height 1: both module contexts created, new-batch entries at 1 *)
  Definition ops_c : list Op := ops_setup ++
    [OModCall c1 5 [10; 11; 12] 2 0 (CBase 50) 5 false false 0 0 2 77 true;
     OModCall c2 5 [10; 11] 3 0 (CBase 50) 5 false true 10 3 1 77 true].
  (* height 2: batch 1 of both in flight, expiry entries at 6 *)
  Definition ops_b : list Op := ops_c ++ [OEndBlock 1].
  (* one valid response, one malformed (slash + refund) *)
  Definition ops_r1 : list Op := ops_b ++ [ORespond (c1, 1, 1, 0) 10 200 1 true true].
  Definition ops_r : list Op := ops_r1 ++ [ORespond (c1, 1, 1, 1) 11 200 2 false true].
  (* height 6: the expiry entries are due *)
  Definition ops_e : list Op := ops_r ++ nblocks 4.
  (* height 7: after the expiry *)
  Definition ops_x : list Op := ops_e ++ [OEndBlock 1].
  (* height 11: second batch of c2 due;  height 12: started *)
  Definition ops_n2 : list Op := ops_x ++ nblocks 4.
  Definition ops_b2 : list Op := ops_n2 ++ [OEndBlock 1].
  (* height 21: third batch of c2 due, the consumer (refunded twice) has moved his funds
     away and cannot pay;  height 22: paused *)
  Definition ops_n3 : list Op := ops_b2 ++ nblocks 9 ++ [OTransfer 3 2 4].
  Definition ops_p3 : list Op := ops_n3 ++ [OEndBlock 1].

  Definition s_c : State := run cfg0 s_init ops_c.
  Definition s_b : State := run cfg0 s_init ops_b.
  Definition s_r1 : State := run cfg0 s_init ops_r1.
  Definition s_r : State := run cfg0 s_init ops_r.
  Definition s_e : State := run cfg0 s_init ops_e.
  Definition s_x : State := run cfg0 s_init ops_x.
  Definition s_n2 : State := run cfg0 s_init ops_n2.
  Definition s_b2 : State := run cfg0 s_init ops_b2.
  Definition s_n3 : State := run cfg0 s_init ops_n3.
  Definition s_p3 : State := run cfg0 s_init ops_p3.

  (* D5: repeated, total 1, paused during batch 1, started after its expiry *)
  Definition ops_d5 : list Op := ops_setup ++
    [OCall c3 5 [10] 2 0 (CBase 50) 5 false true 10 1 true true; OEndBlock 1; OPause c3 2 true]
    ++ nblocks 5 ++ [OStart c3 2 true].
  Definition s_d5 : State := run cfg0 s_init ops_d5.

  Ltac comp := vm_compute; repeat split; try reflexivity; try discriminate;
               try (intuition discriminate).

  Lemma wf_cfg0 : wf_cfg cfg0.
  Proof. comp. Qed.

  Lemma wf_fund : wf_funding funding.
  Proof. unfold funding. wf_funding_tac. Qed.

  Ltac reach_tac := apply reach_init_run; [lia|lia|exact wf_fund|comp].

  Lemma reach_c : Reach cfg0 s_c. Proof. reach_tac. Qed.
  Lemma reach_b : Reach cfg0 s_b. Proof. reach_tac. Qed.
  Lemma reach_r1 : Reach cfg0 s_r1. Proof. reach_tac. Qed.
  Lemma reach_r : Reach cfg0 s_r. Proof. reach_tac. Qed.
  Lemma reach_e : Reach cfg0 s_e. Proof. reach_tac. Qed.
  Lemma reach_x : Reach cfg0 s_x. Proof. reach_tac. Qed.
  Lemma reach_n2 : Reach cfg0 s_n2. Proof. reach_tac. Qed.
  Lemma reach_b2 : Reach cfg0 s_b2. Proof. reach_tac. Qed.
  Lemma reach_n3 : Reach cfg0 s_n3. Proof. reach_tac. Qed.
  Lemma reach_p3 : Reach cfg0 s_p3. Proof. reach_tac. Qed.
  Lemma reach_d5 : Reach cfg0 s_d5. Proof. reach_tac. Qed.

  (* sanity: the shapes claimed in the comments above *)
  Example shape_b : height s_b = 2 /\ expq s_b = [(6, c1); (6, c2)] /\ newq s_b = [].
  Proof. comp. Qed.
  Example shape_e : height s_e = 6 /\ expq s_e = [(6, c1); (6, c2)].
  Proof. comp. Qed.
  Example shape_x : height s_x = 7 /\ expq s_x = [] /\ newq s_x = [(11, c2)]
    /\ get c1 (ctxs s_x) = None /\ reqs s_x = [] /\ resps s_x = [].
  Proof. comp. Qed.
  Example shape_n3 : height s_n3 = 21 /\ newq s_n3 = [(21, c2)] /\ bal s_n3 (User 3) = 1.
  Proof. comp. Qed.
  Example shape_d5 : height s_d5 = 7 /\ newq s_d5 = [(7, c3)] /\ expq s_d5 = [].
  Proof. comp. Qed.
End BEx.
