(* Gap closing for C04, trace level: the binding named by a slash event of the log belongs to
   the provider the request was issued to (the provider component of the key of EvSlash r k _
   is the provider of the unique EvIssue r _ _ _), in every reachable state. *)
From Coq Require Import List ZArith Bool Lia.
From SVC Require Import Base.AMap Base.Res Base.Dec Model.Types Model.Pricing
  Model.Handlers Model.EndBlock Model.Step Proofs.Inv Proofs.Lemmas Proofs.InvAll
  Proofs.ReachRun Proofs.TraceLemmas Proofs.TraceSettle Proofs.TraceMoney
  Proofs.GapC01 Proofs.GapC02c.
Import ListNotations.
Open Scope Z_scope.

(* a request id has one issue event *)
Lemma issue_unique cfg s r p c f p' c' f' :
  T cfg s -> In (EvIssue r p c f) (log s) -> In (EvIssue r p' c' f') (log s) ->
  p = p' /\ c = c' /\ f = f'.
Proof.
  intros HT H1 H2. apply In_issue_tr in H1. apply In_issue_tr in H2.
  pose proof (shapes cfg s r HT) as H.
  shape_cases H E; rewrite E in H1, H2; in_cases H1; in_cases H2;
    injection H1 as <- <- <-; injection H2 as <- <- <-; auto.
Qed.

Definition SK (s : State) : Prop :=
  forall r k amt, In (EvSlash r k amt) (log s) ->
    exists p c f, In (EvIssue r p c f) (log s) /\ snd k = p.

Theorem Reach_SK cfg s : wf_cfg cfg -> Reach cfg s -> SK s.
Proof.
  intros Hcfg HR. induction HR as [h0 t0 f H1 H2 H3|s o HR IH Ho].
  - intros r k amt [].
  - pose proof (Reach_Inv cfg s Hcfg HR) as HI.
    unfold step. destruct (handle cfg s o) as [s'| |] eqn:H; cbn [fst]; try assumption.
    destruct (MV_any cfg s o s' (inv_wd _ _ HI) H) as (d & El & _).
    intros r k amt Hin. rewrite El in Hin |- *. apply in_app_or in Hin. destruct Hin as [Hin|Hin].
    + assert (Hst : forall q rc, get r (reqs s) = Some q -> get (rid_ctx r) (ctxs s) = Some rc ->
                 k = (c_svc rc, r_prov q) ->
                 exists p c f, In (EvIssue r p c f) (d ++ log s) /\ snd k = p).
      { intros q rc G Grc ->.
        destruct (stored_issued cfg s r q Hcfg HR G) as (rc' & _ & Hiss & _).
        do 3 eexists. split; [apply in_or_app; right; exact Hiss|reflexivity]. }
      destruct (step_request_events cfg s o s' d _ r Hcfg HR Ho H El Hin eq_refl)
        as [(_ & [(p & c & f & E & _)|(q & rc & G & _ & _ & Grc & Hev)])
           |(w & c & out & v & _ & q & rc & G & _ & Grc & Hev)].
      * discriminate E.
      * destruct Hev as [E|(_ & [E|(amt' & E)])]; try discriminate E.
        injection E as -> _. eapply Hst; eauto.
      * destruct Hev as [E|Hev]; [discriminate E|].
        destruct (negb (out =? 0) && negb v); destruct Hev as [E|E]; try discriminate E.
        injection E as -> _. eapply Hst; eauto.
    + destruct (IH r k amt Hin) as (p & c & f & Hi & Hk).
      exists p, c, f. split; [apply in_or_app; now right|exact Hk].
Qed.

Theorem slash_names_issued_provider cfg s r k amt p c f :
  wf_cfg cfg -> Reach cfg s ->
  In (EvSlash r k amt) (log s) -> In (EvIssue r p c f) (log s) -> snd k = p.
Proof.
  intros Hcfg HR Hs Hi. destruct (Reach_SK cfg s Hcfg HR r k amt Hs) as (p' & c' & f' & Hi' & Hk).
  destruct (issue_unique cfg s r p c f p' c' f' (Reach_T cfg s Hcfg HR) Hi Hi') as (-> & _). exact Hk.
Qed.

Example tx_slash_provider :
  In (EvSlash tx_r4 (1, 12) 75) (log tx_s) /\ In (EvIssue tx_r4 12 20 100) (log tx_s).
Proof. vm_compute. auto 30. Qed.
