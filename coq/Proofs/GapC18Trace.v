(* C18 gap closing, reachable states (audit C18 facets 5 and 6):
   - at most one batch of a context is started per block: the client's recovery of a request
     from (context, height, index) (client/utils/query.go QueryRequestByTxQuery takes the
     first new_batch_request event of the context in the block) is unambiguous;
   - the ranges of the fields of every request id of a reachable state, as far as they are
     derivable: 1 <= batch <= height < 2^62, 0 <= index < number of requests of the batch.
   New trace invariants, proved with Proofs/TraceBase.v Reach_ind_inv. *)
From Coq Require Import List ZArith Bool Lia Permutation.
From SVC Require Import Base.AMap Base.Res Base.Dec Model.Types Model.Pricing
  Model.Handlers Model.EndBlock Model.Step Proofs.Inv Proofs.Lemmas Proofs.ReqLemmas
  Proofs.CtxOps Proofs.InvSched Proofs.InvCtx Proofs.InvEscrow Proofs.InvReq Proofs.InvAll
  Proofs.StepSpecs_ctx Proofs.TraceBase Proofs.C16Proofs Proofs.InvCount Proofs.C10Proofs
  Proofs.TraceBatch Proofs.StepSpecs_batch Proofs.StepSpecs_window.
Import ListNotations.
Open Scope Z_scope.

(* ================================================================== *)
(* what a message does to the fields the invariants below read *)

Definition is_startb (e : Event) : bool :=
  match e with EvBatchStart _ _ _ _ => true | _ => false end.

Lemma done_events_no_start c rc outs e : In e (done_events c rc outs) -> is_startb e = false.
Proof.
  unfold done_events. intros [<-|Hin]; [reflexivity|].
  destruct (c_mod rc =? 0); [destruct Hin|]. destruct Hin as [<-|[]]. reflexivity.
Qed.

(* what a message may do to an existing context record / what a new record looks like *)
Definition ctx_step (rc rc' : Ctx) : Prop :=
  c_counter rc' = c_counter rc /\ c_breq rc' = c_breq rc
  /\ (c_provs rc' = c_provs rc \/ len (c_provs rc') <= 10).

Definition ctx_new (rc' : Ctx) : Prop :=
  c_counter rc' = 0 /\ c_breq rc' = 0 /\ len (c_provs rc') <= 10.

Lemma ctx_step_refl rc : ctx_step rc rc.
Proof. repeat split; auto. Qed.

Lemma valid_request_len provs timeout rep freq total :
  valid_request provs timeout rep freq total = true -> len provs <= 10.
Proof.
  unfold valid_request. intros H.
  repeat (apply andb_prop in H; destruct H as [H ?]). b2p. lia.
Qed.

Lemma valid_update_len provs timeout freq total :
  valid_update provs timeout freq total = true -> len provs <= 10.
Proof.
  unfold valid_update. intros H.
  repeat (apply andb_prop in H; destruct H as [H ?]). b2p. lia.
Qed.

Lemma upd_ctx_provs rc provs capo timeout freq total :
  c_provs (upd_ctx rc provs capo timeout freq total)
  = match provs with [] => c_provs rc | _ => provs end.
Proof.
  unfold upd_ctx. destruct capo, provs, (total =? 0);
  repeat match goal with |- context [if ?b then _ else _] => destruct b end; reflexivity.
Qed.

Lemma upd_ctx_step rc rc0 provs capo timeout freq total :
  len provs <= 10 -> c_counter rc0 = c_counter rc -> c_breq rc0 = c_breq rc -> c_provs rc0 = c_provs rc ->
  ctx_step rc (upd_ctx rc0 provs capo timeout freq total).
Proof.
  intros Hl E1 E2 E3.
  pose proof (upd_ctx_fixed rc0 provs capo timeout freq total) as Hf. cbv zeta in Hf.
  destruct Hf as (_ & _ & _ & _ & _ & F6 & F7 & _).
  unfold ctx_step. rewrite F6, F7, upd_ctx_provs, E1, E2, E3.
  split; [reflexivity|]. split; [reflexivity|].
  destruct provs; [left; reflexivity|right; exact Hl].
Qed.

Lemma msg_frame cfg s o s' :
  wf_cfg cfg -> Inv cfg s -> wf_op s o -> (forall dt, o <> OEndBlock dt) ->
  handle cfg s o = Ok s' ->
  height s' = height s /\ expq_h s' = expq_h s
  /\ (exists l, blog s' = l ++ blog s /\ forall e, In e l -> is_startb e = false)
  /\ (forall c rc', get c (ctxs s') = Some rc' ->
        (exists rc, get c (ctxs s) = Some rc /\ ctx_step rc rc')
        \/ (get c (ctxs s) = None /\ ctx_new rc')).
Proof.
  intros Hcfg HI Hwf Hne H.
  (* the batch-level log *)
  assert (Hlog : exists l, blog s' = l ++ blog s /\ forall e, In e l -> is_startb e = false).
  { destruct o; try (destruct (C12_callback_msg_other _ _ _ _ Hcfg HI Hwf Hne H) as [E|(c1 & E)];
                     [intros; discriminate
                     |exists []; split; [exact E|intros e []]
                     |exists [EvCtxCreated c1]; split; [exact E|intros e [<-|[]]; reflexivity]]).
    cbn [handle] in H. destruct (respond_blog _ _ _ _ _ _ _ _ _ Hcfg HI H) as (rc & _ & E).
      eexists. split; [exact E|]. intros e Hin.
      destruct (_ =? _); [eapply done_events_no_start; eauto|destruct Hin]. }
  set (Goal := height s' = height s /\ expq_h s' = expq_h s
     /\ (exists l, blog s' = l ++ blog s /\ forall e, In e l -> is_startb e = false)
     /\ (forall c rc', get c (ctxs s') = Some rc' ->
           (exists rc, get c (ctxs s) = Some rc /\ ctx_step rc rc')
           \/ (get c (ctxs s) = None /\ ctx_new rc'))).
  (* a context record rewritten *)
  assert (Hput : forall c0 rc0 rc1, get c0 (ctxs s) = Some rc0 ->
            height s' = height s -> expq_h s' = expq_h s -> ctxs s' = set c0 rc1 (ctxs s) ->
            ctx_step rc0 rc1 -> Goal).
  { intros c0 rc0 rc1 G0 Eh Ee Ec Est. split; [exact Eh|]. split; [exact Ee|]. split; [exact Hlog|].
    intros c rc' G. rewrite Ec, get_set in G. destruct (eqb_spec c c0) as [->|Hn].
    - injection G as <-. left. eauto.
    - left. exists rc'. split; [exact G|apply ctx_step_refl]. }
  assert (Hsimple : SEq s s' -> Goal).
  { intros [Eh _ Ec _ Ee _ _ _]. split; [exact Eh|]. split; [exact Ee|]. split; [exact Hlog|].
    intros c rc' G. rewrite Ec in G. left. exists rc'. split; [exact G|apply ctx_step_refl]. }
  assert (Hcreate : forall c0 rc0, ctx_fresh s c0 -> s' = created s c0 rc0 -> ctx_new rc0 -> Goal).
  { intros c0 rc0 Hf E Hc0. destruct (fresh_none _ _ _ HI Hf) as (Ex & _).
    split; [now subst s'|]. split; [now subst s'|]. split; [exact Hlog|].
    intros c rc' G. subst s'. unfold created in G. sproj. rewrite get_set in G.
    destruct (eqb_spec c c0) as [->|Hn]; [injection G as <-; right; auto|].
    left. exists rc'. split; [exact G|apply ctx_step_refl]. }
  destruct o; try (apply Hsimple; eapply msg_SEq; [exact H|reflexivity]);
    cbn [handle] in H; cbn [wf_op] in Hwf.
  - unfold h_call in H. inv_ok H. apply create_context_spec in H.
    destruct H as (capv & _ & _ & _ & E). eapply Hcreate; [|exact E|]; [tauto|].
    repeat split. cbn. eapply valid_request_len; eauto.
  - apply create_context_spec in H.
    destruct H as (capv & _ & _ & Hmd & E). eapply Hcreate; [|exact E|]; [tauto|].
    repeat split. cbn. destruct Hmd as [Hmd|(_ & Hv)]; [exfalso; tauto|]. eapply valid_request_len; eauto.
  - (* respond *)
    destruct (respond_exact _ _ _ _ _ _ _ _ _ Hcfg HI H)
      as (q & rc & _ & _ & _ & Grc & _ & _ & _ & _ & _ & _ & Ee & Ec).
    destruct (respond_spec _ _ _ _ _ _ _ _ _ H) as (q' & rc0 & sm & rc1 & _ & _ & Hsm & -> & _).
    eapply (Hput (rid_ctx r) rc (responded rc) Grc); [sproj; apply (se_height _ _ Hsm)|exact Ee|exact Ec|].
    unfold responded, ctx_step. destruct (_ =? _); repeat split; auto.
  - apply h_pause_spec in H. destruct H as (rc & Erc & _ & _ & _ & _ & ->).
    eapply (Hput c rc); try exact Erc; try reflexivity. repeat split; auto.
  - apply h_start_spec in H. destruct H as (rc & Erc & _ & _ & _ & ->).
    eapply (Hput c rc (setc_state rc Running)); try exact Erc; try (repeat split; auto; fail);
      unfold started; destruct (negb _ && negb _); reflexivity.
  - apply h_kill_spec in H. destruct H as (rc & Erc & _ & _ & _ & ->).
    eapply (Hput c rc); try exact Erc; try reflexivity. repeat split; auto.
  - assert (Hl : len provs <= 10).
    { pose proof H as H0. unfold h_update_ctx in H0. inv_ok H0. eapply valid_update_len; eauto. }
    apply h_update_ctx_spec in H.
    destruct H as (rc & capo & Erc & _ & _ & _ & _ & _ & _ & _ & _ & ->).
    eapply (Hput c rc); try exact Erc; try reflexivity. now apply upd_ctx_step.
  - exfalso. eapply Hne. reflexivity.
  - destruct Hwf as (_ & Hown).
    assert (Hl : len provs <= 10).
    { pose proof H as H0. unfold h_mod_update in H0. inv_ok H0.
      apply authorized_mod_spec in Ha. destruct Ha as (E & _). specialize (Hown _ E).
      destruct (c_mod a =? 0) eqn:Em; [b2p; contradiction|]. inv_ok Ha0.
      eapply valid_update_len; eauto. }
    apply h_mod_update_gen in H. destruct H as (rc & t & capo & Erc & _ & _ & ->).
    eapply (Hput c rc); try exact Erc; try reflexivity.
    destruct (with_thr_fixed rc t) as (_ & F2 & _ & _ & _ & _ & _ & _ & _ & _ & F11 & F12 & _).
    now apply upd_ctx_step.
  - apply h_mod_pause_spec in H. destruct H as (rc & Erc & _ & _ & _ & ->).
    eapply (Hput c rc); try exact Erc; try reflexivity. repeat split; auto.
  - apply h_mod_start_spec in H. destruct H as (rc & Erc & _ & _ & ->).
    eapply (Hput c rc (setc_state rc Running)); try exact Erc; try (repeat split; auto; fail);
      unfold started; destruct (negb _ && negb _); reflexivity.
  - apply h_mod_kill_spec in H. destruct H as (rc & Erc & _ & _ & ->).
    eapply (Hput c rc); try exact Erc; try reflexivity. repeat split; auto.
Qed.

(* ================================================================== *)
(* at most one batch start per context and block *)

Lemma In_start_blog c n h k s :
  In (EvBatchStart c n h k) (log s) <-> In (EvBatchStart c n h k) (blog s).
Proof. unfold blog. rewrite filter_In. cbn [tracked]. tauto. Qed.

(* a start event of this block belongs to a context whose expiry is still ahead *)
Definition VS (s : State) : Prop :=
  forall c n h k, In (EvBatchStart c n h k) (blog s) ->
    h < height s \/ (h = height s /\ exists e, get c (expq_h s) = Some e /\ height s < e).

Definition US (s : State) : Prop :=
  forall c n n' h k k', In (EvBatchStart c n h k) (blog s) -> In (EvBatchStart c n' h k') (blog s) ->
    n = n' /\ k = k'.

Definition PS (s : State) : Prop := VS s /\ US s.

(* a step that starts no batch and keeps the pending expiries that lie ahead *)
Lemma PS_quiet s s' l :
  PS s -> blog s' = l ++ blog s -> (forall e, In e l -> is_startb e = false) ->
  height s' = height s ->
  (forall c e, get c (expq_h s) = Some e -> height s < e -> get c (expq_h s') = Some e) ->
  PS s'.
Proof.
  intros (HV & HU) Eb Hl Eh He.
  assert (Hold : forall c n h k, In (EvBatchStart c n h k) (blog s') -> In (EvBatchStart c n h k) (blog s)).
  { intros c n h k Hin. rewrite Eb in Hin. apply in_app_or in Hin. destruct Hin as [Hin|Hin]; [|exact Hin].
    apply Hl in Hin. discriminate. }
  split.
  - intros c n h k Hin. apply Hold in Hin. rewrite Eh.
    destruct (HV _ _ _ _ Hin) as [Hlt|(-> & e & Ge & Hlt)]; [left; exact Hlt|right].
    split; [reflexivity|]. exists e. split; [apply He; assumption|exact Hlt].
  - intros c n n' h k k' H1 H2. apply Hold in H1, H2. eapply HU; eauto.
Qed.

Lemma PS_msg cfg s o s' :
  wf_cfg cfg -> Inv cfg s -> PS s -> wf_op s o -> (forall dt, o <> OEndBlock dt) ->
  handle cfg s o = Ok s' -> PS s'.
Proof.
  intros Hcfg HI HP Hwf Hne H.
  destruct (msg_frame cfg s o s' Hcfg HI Hwf Hne H) as (Eh & Ee & (l & Eb & Hl) & _).
  apply (PS_quiet s s' l HP Eb Hl Eh). intros c e G _. now rewrite Ee.
Qed.

Lemma PS_expire_one cfg s c :
  wf_cfg cfg -> Inv cfg s -> PS s -> In (height s, c) (expq s) -> height s < HEIGHT_BOUND ->
  PS (expire_one cfg s c).
Proof.
  intros Hcfg HI HP Hdue Hb.
  destruct (expire_one_spec cfg s c Hcfg HI Hdue Hb)
    as (rc & rc1 & Erc & Ee & _ & _ & Ht & _ & _ & _ & _).
  pose proof (expire_one_blog cfg s c rc HI Erc) as Eb. rewrite app_assoc in Eb.
  apply (PS_quiet s _ _ HP Eb).
  - intros e Hin. apply in_app_or in Hin. destruct Hin as [Hin|Hin].
    + destruct (fin_b rc); [destruct Hin as [<-|[]]; reflexivity|destruct Hin].
    + destruct (c_bdone rc); [destruct Hin|]. eapply done_events_no_start; eauto.
  - apply (t_height _ _ _ Ht).
  - intros c' e G Hlt. destruct (eqb_spec c' c) as [->|Hn].
    + rewrite Ee in G. injection G as <-. lia.
    + now rewrite (t_expq_h _ _ _ Ht c' Hn).
Qed.

Lemma PS_new_one cfg s c :
  wf_cfg cfg -> Inv cfg s -> PS s -> In (height s, c) (newq s) -> height s < HEIGHT_BOUND ->
  PS (new_one cfg s c).
Proof.
  intros Hcfg HI HP Hdue Hb.
  destruct (new_one_spec cfg s c HI Hdue) as (rc & Erc & _ & Ee & Ht & _ & _ & _ & Hcase).
  assert (Hkeep : forall c' e, get c' (expq_h s) = Some e -> height s < e ->
                    get c' (expq_h (new_one cfg s c)) = Some e).
  { intros c' e G _. destruct (eqb_spec c' c) as [->|Hn]; [congruence|].
    now rewrite (t_expq_h _ _ _ Ht c' Hn). }
  pose proof (t_height _ _ _ Ht) as Eh.
  destruct (new_one_blog cfg s c rc Erc)
    as [(Hd & Eb)|[(Hd & Hr & n & Eb & Ex)|[(Hd & Hr & Eb & Ex)|(Hr & Eb & Ex)]]].
  - apply (PS_quiet s _ [EvCtxRemoved c] HP Eb); [|exact Eh|exact Hkeep].
    intros e [<-|[]]. reflexivity.
  - (* the batch is started *)
    destruct HP as (HV & HU).
    assert (Hexp : get c (expq_h (new_one cfg s c)) = Some (height s + c_timeout rc)).
    { destruct Hcase as [(Hx & _)|[(_ & _ & Hx & _)|[(_ & _ & _ & Hx)|(Hx & _)]]]; try congruence.
      exfalso. assert (Es : c_state (paused_ctx rc) = c_state (bump rc n)) by congruence.
      cbn in Es. rewrite Hr in Es. discriminate. }
    assert (Hto : 1 <= c_timeout rc).
    { destruct (I_ctx_get _ _ _ _ (inv_ctx _ _ HI) Erc) as ((Hx & _) & _). lia. }
    (* an earlier start of c lies in an earlier block *)
    assert (Hearlier : forall n' h k, In (EvBatchStart c n' h k) (blog s) -> h < height s).
    { intros n' h k Hin. destruct (HV _ _ _ _ Hin) as [Hlt|(_ & e & Ge & _)]; [exact Hlt|congruence]. }
    split.
    + intros c' n' h k Hin. rewrite Eb in Hin. rewrite Eh. destruct Hin as [E|Hin].
      * injection E as <- <- <- <-. right. split; [reflexivity|].
        exists (height s + c_timeout rc). split; [exact Hexp|lia].
      * destruct (HV _ _ _ _ Hin) as [Hlt|(-> & e & Ge & Hlt)]; [left; exact Hlt|right].
        split; [reflexivity|]. exists e. split; [now apply Hkeep|exact Hlt].
    + intros c' n1 n2 h k1 k2 H1 H2. rewrite Eb in H1, H2.
      destruct H1 as [E1|H1], H2 as [E2|H2].
      * injection E1 as <- <- <- <-. injection E2 as <- <-. auto.
      * injection E1 as <- <- <- <-. apply Hearlier in H2. lia.
      * injection E2 as <- <- <- <-. apply Hearlier in H1. lia.
      * eapply HU; eauto.
  - apply (PS_quiet s _ _ HP Eb); [|exact Eh|exact Hkeep].
    intros e Hin. destruct (c_mod rc =? 0); [destruct Hin|destruct Hin as [<-|[]]; reflexivity].
  - apply (PS_quiet s _ [] HP Eb); [|exact Eh|exact Hkeep]. intros e [].
Qed.

Lemma PS_tick s dt : PS s -> PS (tick s dt).
Proof.
  intros (HV & HU). split.
  - intros c n h k Hin. change (blog (tick s dt)) with (blog s) in Hin.
    change (height (tick s dt)) with (height s + 1).
    left. destruct (HV _ _ _ _ Hin) as [Hlt|(-> & _)]; lia.
  - exact HU.
Qed.

Theorem Reach_PS cfg s : wf_cfg cfg -> Reach cfg s -> PS s.
Proof.
  intros Hcfg. apply (Reach_ind_inv cfg PS Hcfg).
  - intros h0 t0 f _ _ _. split; [intros c n h k []|intros c n n' h k k' []].
  - intros s0 o s' HI HP Hwf Hne H. eapply PS_msg; eauto.
  - intros s0 c HI HP Hd Hb. now apply PS_expire_one.
  - intros s0 c HI HP Hd Hb. now apply PS_new_one.
  - intros s0 dt _ HP _ _ _. now apply PS_tick.
Qed.

(* the client's recovery is unambiguous: a context starts at most one batch in a block *)
Theorem one_batch_start_per_block cfg s c n n' h k k' :
  wf_cfg cfg -> Reach cfg s ->
  In (EvBatchStart c n h k) (log s) -> In (EvBatchStart c n' h k') (log s) ->
  n = n' /\ k = k'.
Proof.
  intros Hcfg Hr H1 H2. destruct (Reach_PS cfg s Hcfg Hr) as (_ & HU).
  apply In_start_blog in H1, H2. eapply HU; eauto.
Qed.

(* between blocks every batch start in the log belongs to an earlier block *)
Theorem batch_start_height cfg s c n h k :
  wf_cfg cfg -> Reach cfg s -> In (EvBatchStart c n h k) (log s) -> h <= height s.
Proof.
  intros Hcfg Hr H1. destruct (Reach_PS cfg s Hcfg Hr) as (HV & _).
  apply In_start_blog in H1. destruct (HV _ _ _ _ H1) as [Hlt|(-> & _)]; lia.
Qed.

(* ================================================================== *)
(* ranges of the fields of request ids in reachable states *)

(* the batch counter of a context never runs ahead of the block height: a context starts at
   most one batch per block *)
Definition CN (s : State) : Prop :=
  forall c rc, get c (ctxs s) = Some rc ->
    c_counter rc < height s
    \/ (c_counter rc <= height s /\ exists e, get c (expq_h s) = Some e /\ height s < e).

(* a request id carries a batch number and an issue height in range *)
Definition RH (s : State) : Prop :=
  forall r q, get r (reqs s) = Some q ->
    1 <= rid_batch r <= rid_height r /\ rid_height r <= height s /\ rid_height r < HEIGHT_BOUND.

Definition PR (s : State) : Prop := CN s /\ RH s.

Lemma PR_msg cfg s o s' :
  wf_cfg cfg -> Inv cfg s -> PR s -> wf_op s o -> (forall dt, o <> OEndBlock dt) ->
  handle cfg s o = Ok s' -> PR s'.
Proof.
  intros Hcfg HI (HC & HR) Hwf Hne H.
  destruct (msg_frame cfg s o s' Hcfg HI Hwf Hne H) as (Eh & Ee & _ & Hctx).
  pose proof (inv_time _ _ HI) as [Hh _].
  split.
  - intros c rc' G. rewrite Eh, Ee.
    destruct (Hctx c rc' G) as [(rc & G0 & (E1 & _))|(_ & (E1 & _))].
    + rewrite E1. exact (HC c rc G0).
    + left. lia.
  - intros r q G. rewrite Eh.
    destruct (msg_reqs cfg s o s' H Hne) as [E|(r0 & who & code & out & ov & q0 & _ & Hq0 & _ & _ & E)].
    + rewrite E in G. exact (HR r q G).
    + rewrite E, get_set in G. destruct (eqb_spec r r0) as [->|Hn]; [exact (HR r0 q0 Hq0)|exact (HR r q G)].
Qed.

Lemma PR_expire_one cfg s c :
  wf_cfg cfg -> Inv cfg s -> PR s -> In (height s, c) (expq s) -> height s < HEIGHT_BOUND ->
  PR (expire_one cfg s c).
Proof.
  intros Hcfg HI (HC & HR) Hdue Hb.
  destruct (expire_one_spec cfg s c Hcfg HI Hdue Hb)
    as (rc & rc1 & Erc & Ee & _ & Hrc1 & Ht & _ & _ & Ee' & Hcase).
  pose proof (t_height _ _ _ Ht) as Eh.
  split.
  - intros c' rc' G. rewrite Eh. destruct (eqb_spec c' c) as [->|Hn].
    + assert (Ecnt : c_counter rc' = c_counter rc).
      { assert (rc' = rc1) by (destruct Hcase as [(Hx & _)|[(Hx & _)|(Hx & _)]]; congruence). subst rc'.
        destruct Hrc1 as [->|(_ & ->)]; reflexivity. }
      left. rewrite Ecnt. destruct (HC c rc Erc) as [Hlt|(_ & e & Ge & Hlt)]; [exact Hlt|].
      rewrite Ee in Ge. injection Ge as <-. lia.
    + rewrite (t_ctxs _ _ _ Ht c' Hn) in G. rewrite (t_expq_h _ _ _ Ht c' Hn). exact (HC c' rc' G).
  - intros r q G. rewrite Eh. destruct (eqb_spec (rid_ctx r) c) as [Ec|Hn].
    + destruct (C08_gone_after_expiry cfg s c r Hcfg HI Hdue Hb Ec) as (Gn & _). congruence.
    + destruct (expire_one_other cfg s c r Hcfg HI Hdue Hb Hn) as (Eg & _). rewrite Eg in G.
      exact (HR r q G).
Qed.

Lemma PR_new_one cfg s c :
  wf_cfg cfg -> Inv cfg s -> PR s -> In (height s, c) (newq s) -> height s < HEIGHT_BOUND ->
  PR (new_one cfg s c).
Proof.
  intros Hcfg HI (HC & HR) Hdue Hb.
  destruct (new_one_spec cfg s c HI Hdue) as (rc & Erc & _ & Ee & Ht & _ & _ & _ & Hcase).
  pose proof (t_height _ _ _ Ht) as Eh.
  pose proof (inv_time _ _ HI) as [Hh _].
  assert (Hcnt : 0 <= c_counter rc < height s).
  { split; [eapply counter_nonneg; eauto|].
    destruct (HC c rc Erc) as [Hlt|(_ & e & Ge & _)]; [exact Hlt|congruence]. }
  assert (Hto : 1 <= c_timeout rc).
  { destruct (I_ctx_get _ _ _ _ (inv_ctx _ _ HI) Erc) as ((Hx & _) & _). lia. }
  split.
  - intros c' rc' G. rewrite Eh. destruct (eqb_spec c' c) as [->|Hn].
    + destruct Hcase as [(_ & Gx & _)|[(_ & _ & Ge & n & Gx)|[(_ & _ & _ & Gx)|(_ & _ & Gx)]]].
      * congruence.
      * assert (rc' = bump rc n) by congruence. subst rc'. right. cbn [bump c_counter setc_bthr setc_breq setc_bresp setc_bdone setc_counter].
        split; [lia|]. exists (height s + c_timeout rc). split; [exact Ge|lia].
      * assert (rc' = paused_ctx rc) by congruence. subst rc'. left. cbn. lia.
      * assert (rc' = rc) by congruence. subst rc'. left. lia.
    + rewrite (t_ctxs _ _ _ Ht c' Hn) in G. rewrite (t_expq_h _ _ _ Ht c' Hn). exact (HC c' rc' G).
  - intros r q G. rewrite Eh. destruct (get r (reqs s)) as [q0|] eqn:G0.
    + exact (HR r q0 G0).
    + destruct (C06_new_request cfg s c r q Hcfg HI Hdue Hb G0 G)
        as (rc0 & k & p & price & Grc0 & _ & -> & _).
      assert (rc0 = rc) by congruence. subst rc0.
      unfold rid_batch, rid_height. cbn [fst snd]. lia.
Qed.

Lemma PR_tick s dt : PR s -> PR (tick s dt).
Proof.
  intros (HC & HR). split.
  - intros c rc G. change (ctxs (tick s dt)) with (ctxs s) in G.
    change (height (tick s dt)) with (height s + 1).
    left. destruct (HC c rc G) as [Hlt|(Hle & _)]; lia.
  - intros r q G. change (reqs (tick s dt)) with (reqs s) in G.
    change (height (tick s dt)) with (height s + 1).
    destruct (HR r q G) as (A & B & C). repeat split; lia.
Qed.

Theorem Reach_PR cfg s : wf_cfg cfg -> Reach cfg s -> PR s.
Proof.
  intros Hcfg. apply (Reach_ind_inv cfg PR Hcfg).
  - intros h0 t0 f _ _ _. split; [intros c rc G; discriminate|intros r q G; discriminate].
  - intros s0 o s' HI HP Hwf Hne H. eapply PR_msg; eauto.
  - intros s0 c HI HP Hd Hb. now apply PR_expire_one.
  - intros s0 c HI HP Hd Hb. now apply PR_new_one.
  - intros s0 dt _ HP _ _ _. now apply PR_tick.
Qed.

(* ---- at most 10 providers, hence at most 10 requests per batch ---- *)

Definition PV (s : State) : Prop :=
  forall c rc, get c (ctxs s) = Some rc -> len (c_provs rc) <= 10 /\ c_breq rc <= 10.

Lemma len_filter_providers s rc provs : len (filter_providers s rc provs) <= len provs.
Proof.
  unfold len. induction provs as [|p t IH]; cbn [filter_providers length]; [lia|].
  destruct (eligible s rc p); cbn [length]; lia.
Qed.

Lemma PV_msg cfg s o s' :
  wf_cfg cfg -> Inv cfg s -> PV s -> wf_op s o -> (forall dt, o <> OEndBlock dt) ->
  handle cfg s o = Ok s' -> PV s'.
Proof.
  intros Hcfg HI HP Hwf Hne H.
  destruct (msg_frame cfg s o s' Hcfg HI Hwf Hne H) as (_ & _ & _ & Hctx).
  intros c rc' G. destruct (Hctx c rc' G) as [(rc & G0 & (_ & E2 & E3))|(_ & (_ & E2 & E3))].
  - destruct (HP c rc G0) as (A & B). rewrite E2. split; [|exact B].
    destruct E3 as [->|E3]; assumption.
  - rewrite E2. split; [exact E3|lia].
Qed.

Lemma PV_expire_one cfg s c :
  wf_cfg cfg -> Inv cfg s -> PV s -> In (height s, c) (expq s) -> height s < HEIGHT_BOUND ->
  PV (expire_one cfg s c).
Proof.
  intros Hcfg HI HP Hdue Hb.
  destruct (expire_one_spec cfg s c Hcfg HI Hdue Hb)
    as (rc & rc1 & Erc & _ & _ & Hrc1 & Ht & _ & _ & _ & Hcase).
  intros c' rc' G. destruct (eqb_spec c' c) as [->|Hn].
  - assert (rc' = rc1) by (destruct Hcase as [(Hx & _)|[(Hx & _)|(Hx & _)]]; congruence). subst rc'.
    destruct (HP c rc Erc) as (A & B). destruct Hrc1 as [->|(_ & ->)]; auto.
  - rewrite (t_ctxs _ _ _ Ht c' Hn) in G. exact (HP c' rc' G).
Qed.

Lemma PV_new_one cfg s c :
  wf_cfg cfg -> Inv cfg s -> PV s -> In (height s, c) (newq s) -> height s < HEIGHT_BOUND ->
  PV (new_one cfg s c).
Proof.
  intros Hcfg HI HP Hdue Hb.
  destruct (C06_batch_spec cfg s c Hcfg HI Hdue Hb) as (rc & Grc & HS). cbv zeta in HS.
  destruct HS as (Ha & Hb' & Hc & Hd & He).
  destruct (new_one_spec cfg s c HI Hdue) as (rc0 & Erc & _ & _ & Ht & _).
  assert (rc0 = rc) by congruence. subst rc0.
  destruct (HP c rc Grc) as (A & B).
  set (E := filter_providers s rc (c_provs rc)) in *.
  pose proof (len_filter_providers s rc (c_provs rc)) as HlE. fold E in HlE.
  intros c' rc' G. destruct (eqb_spec c' c) as [->|Hn].
  2:{ rewrite (t_ctxs _ _ _ Ht c' Hn) in G. exact (HP c' rc' G). }
  assert (Hres : rc' = rc \/ rc' = bump rc 0 \/ rc' = paused_ctx rc \/ rc' = bump rc (len E)).
  { destruct (d5 rc) eqn:Ed5; [destruct (Hb' eq_refl) as (_ & Gx & _); congruence|].
    destruct (is_state rc Running) eqn:Est.
    2:{ apply is_state_false in Est. destruct (Ha Est) as (_ & Gx & _). left. congruence. }
    apply is_state_true in Est.
    destruct (Z_lt_le_dec 0 (len E)) as [H0|H0].
    2:{ destruct (Hc Est eq_refl) as (_ & Gx & _); [left; unfold len in *; lia|]. right; left. congruence. }
    destruct (Z_lt_le_dec (len E) (c_thr rc)) as [Hthr|Hthr].
    { destruct (Hc Est eq_refl) as (_ & Gx & _); [now right|]. right; left. congruence. }
    assert (Hiss : issued c rc E s (new_one cfg s c) -> rc' = bump rc (len E)).
    { intros (_ & _ & _ & _ & _ & _ & _ & _ & _ & _ & Gx & _). congruence. }
    destruct (c_super rc) eqn:Esup; [right; right; right; apply Hiss, He; auto|].
    destruct (Z_lt_le_dec (bal s (User (c_cons rc))) (sum_prices E)) as [Hbal|Hbal].
    - destruct (Hd Est eq_refl H0 Hthr eq_refl Hbal) as (_ & Gx & _). right; right; left. congruence.
    - right; right; right. apply Hiss, He; auto. }
  destruct Hres as [-> | [-> | [-> | ->]]]; cbn; split; try assumption; lia.
Qed.

Theorem Reach_PV cfg s : wf_cfg cfg -> Reach cfg s -> PV s.
Proof.
  intros Hcfg. apply (Reach_ind_inv cfg PV Hcfg).
  - intros h0 t0 f _ _ _ c rc G. discriminate.
  - intros s0 o s' HI HP Hwf Hne H. eapply PV_msg; eauto.
  - intros s0 c HI HP Hd Hb. now apply PV_expire_one.
  - intros s0 c HI HP Hd Hb. now apply PV_new_one.
  - intros s0 dt _ HP _ _ _. exact HP.
Qed.

(* ---- the derivable ranges, together ---- *)

Theorem reachable_rid_ranges cfg s r q :
  wf_cfg cfg -> Reach cfg s -> get r (reqs s) = Some q ->
  1 <= rid_batch r <= rid_height r
  /\ 1 <= rid_height r <= height s /\ rid_height r < HEIGHT_BOUND
  /\ 0 <= rid_index r < 10
  /\ exists rc, get (rid_ctx r) (ctxs s) = Some rc
       /\ rid_batch r = c_counter rc /\ 0 <= rid_index r < c_breq rc /\ c_breq rc <= 10.
Proof.
  intros Hcfg Hr G. pose proof (Reach_Inv cfg s Hcfg Hr) as HI.
  destruct (Reach_PR cfg s Hcfg Hr) as (_ & HR). destruct (HR r q G) as (A & B & C).
  destruct (inv_req _ _ HI) as (R1 & _).
  destruct (R1 _ _ (get_In _ _ _ G)) as (rc & Grc & Eb & _ & _ & Hi & _).
  destruct (Reach_PV cfg s Hcfg Hr _ _ Grc) as (_ & Hq).
  split; [exact A|]. split; [lia|]. split; [exact C|]. split; [lia|].
  exists rc. auto.
Qed.

Theorem reachable_counter_le_height cfg s c rc :
  wf_cfg cfg -> Reach cfg s -> get c (ctxs s) = Some rc -> 0 <= c_counter rc <= height s.
Proof.
  intros Hcfg Hr G. pose proof (Reach_Inv cfg s Hcfg Hr) as HI.
  destruct (Reach_PR cfg s Hcfg Hr) as (HC & _).
  split; [eapply counter_nonneg; eauto|]. destruct (HC c rc G) as [H|(H & _)]; lia.
Qed.

(* ================================================================== *)
(* consequences for the byte identifiers (Proofs/GapC18.v) and the store order
   (Proofs/GapC18Order.v).  What is NOT derivable from reachability is the shape of the
   context id itself: the transaction hash and the message index are handed in by the host
   (H-txid), so [cid_ok] / [nn_cid] of the context id stay hypotheses. *)
From SVC Require Import Base.Bytes gen.KeysGen Model.Ids Proofs.GapC18 Proofs.GapC18Order.

Theorem reachable_rid_ok cfg s r q :
  wf_cfg cfg -> Reach cfg s -> get r (reqs s) = Some q -> cid_ok (rid_ctx r) -> rid_ok r.
Proof.
  intros Hcfg Hr G Hc.
  destruct (reachable_rid_ranges cfg s r q Hcfg Hr G) as (A & B & C & D & _).
  unfold rid_ok, is_int64, is_int16. unfold HEIGHT_BOUND in C.
  change (2 ^ 64) with 18446744073709551616. change (2 ^ 63) with 9223372036854775808.
  change (2 ^ 15) with 32768.
  split; [exact Hc|]. repeat split; lia.
Qed.

Theorem reachable_nn_rid cfg s r q :
  wf_cfg cfg -> Reach cfg s -> get r (reqs s) = Some q -> nn_cid (rid_ctx r) -> nn_rid r.
Proof.
  intros Hcfg Hr G Hc.
  destruct (reachable_rid_ranges cfg s r q Hcfg Hr G) as (A & B & C & D & _).
  unfold nn_rid. unfold HEIGHT_BOUND in C.
  change (2 ^ 64) with 18446744073709551616. change (2 ^ 63) with 9223372036854775808.
  change (2 ^ 15) with 32768.
  split; [exact Hc|]. repeat split; lia.
Qed.

(* two request records of a reachable state never share a store key *)
Theorem reachable_enc_rid_inj cfg s (hb : Z -> bytes) r q r' q' :
  (forall a, hash_ok a -> length (hb a) = 32%nat) ->
  (forall a b, hash_ok a -> hash_ok b -> hb a = hb b -> a = b) ->
  wf_cfg cfg -> Reach cfg s -> get r (reqs s) = Some q -> get r' (reqs s) = Some q' ->
  cid_ok (rid_ctx r) -> cid_ok (rid_ctx r') ->
  GetRequestKey (enc_rid hb r) = GetRequestKey (enc_rid hb r') -> r = r'.
Proof.
  intros Hl Hi Hcfg Hr G G' Hc Hc' E.
  apply (enc_rid_key_inj hb Hl Hi); eauto using reachable_rid_ok.
Qed.

(* the model's order of the request records of a reachable state is the store's order *)
Theorem reachable_request_order cfg s (hb : Z -> bytes) r q r' q' :
  (forall a, hash_ok a -> length (hb a) = 32%nat) ->
  (forall a b, hash_ok a -> hash_ok b -> a < b -> blt (hb a) (hb b)) ->
  wf_cfg cfg -> Reach cfg s -> get r (reqs s) = Some q -> get r' (reqs s) = Some q' ->
  nn_cid (rid_ctx r) -> nn_cid (rid_ctx r') ->
  (rid_leb r r' = true <-> ble (GetRequestKey (enc_rid hb r)) (GetRequestKey (enc_rid hb r'))).
Proof.
  intros Hl Hm Hcfg Hr G G' Hc Hc'.
  apply (K_order_request hb Hl Hm); eauto using reachable_nn_rid.
Qed.


(* ================================================================== *)
(* the reachable-state theorems on a concrete history: StepSpecs_batch.ExB followed by one
   EndBlock (contexts 1001 and 1006 issue two requests each, 1002 and 1004 skip a batch) *)
Module ExT.
  Import ExB.
  Definition s_e : State := fst (step cfg s_a (OEndBlock 1)).

  Example reach_e : Reach cfg s_e.
  Proof.
    apply Reach_step; [exact reach_a|]. cbn [wf_op]. split; [lia|vm_compute; reflexivity].
  Qed.

  Example starts_e :
    filter is_startb (log s_e)
    = [EvBatchStart (1006, 0) 1 1 2; EvBatchStart (1004, 0) 1 1 0;
       EvBatchStart (1002, 0) 1 1 0; EvBatchStart (1001, 0) 1 1 2]
    /\ height s_e = 2
    /\ map fst (reqs s_e) = [(c1, 1, 1, 0); (c1, 1, 1, 1); (c6, 1, 1, 0); (c6, 1, 1, 1)].
  Proof. vm_compute. auto. Qed.

  Example reachable_rid_ranges_ex :
    get (c1, 1, 1, 1) (reqs s_e) = Some (mkReq 11 30 21 true)
    /\ rid_ok (c1, 1, 1, 1) /\ nn_rid (c1, 1, 1, 1).
  Proof.
    assert (G : get (c1, 1, 1, 1) (reqs s_e) = Some (mkReq 11 30 21 true)) by (vm_compute; reflexivity).
    assert (Hc : nn_cid (rid_ctx (c1, 1, 1, 1))).
    { unfold nn_cid, hash_ok, rid_ctx, c1. cbn [fst snd]. change (2 ^ 63) with 9223372036854775808.
      change (2 ^ 256) with (Z.pow_pos 2 256). split; [split; [lia|reflexivity]|lia]. }
    split; [exact G|]. split.
    - exact (reachable_rid_ok cfg s_e _ _ wf_cfg_ex reach_e G (nn_cid_ok _ Hc)).
    - exact (reachable_nn_rid cfg s_e _ _ wf_cfg_ex reach_e G Hc).
  Qed.
End ExT.
