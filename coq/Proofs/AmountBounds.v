(* "Safe because backed by the supply": every stored amount and every amount that a successful
   bank movement carries is between 0 and the supply, and the supply never exceeds that of the
   genesis state (Proofs/SupplyMono.v).  With a genesis supply below 2^255 no sdk.Int addition
   or subtraction between such amounts can overflow.

     amounts_below s L     every balance, every binding deposit, every earned-fee record
                           (per provider and per owner), the stored fee of every ACTIVE request,
                           the amount of every transfer that succeeds in s, and every partial
                           sum of the prices that new_one charges a non-super consumer when
                           that payment succeeds, is in [0, L)
     Inv_amounts_below     Inv cfg s -> supply s < L -> amounts_below s L
     C20_amounts_bounded   reachable from a genesis state with supply S0 < INT_LIMIT:
                           amounts_below s INT_LIMIT
     C20_amounts_bounded_endblock
                           the same for the states in which EndBlock runs expire_one for the
                           k-th due context and new_one for the k-th due context
     C20_amounts_bounded_expire_loop
                           the same for the states between two expire_req of the loop over
                           the requests of one expiring batch (there the full Inv does not
                           hold; BDM, J and I_earn do)
   The fee of an INACTIVE request is not bounded by anything (it has been
   paid out or refunded, the record is only kept for queries until the batch is cleaned). *)
From Coq Require Import List ZArith Bool Lia.
From SVC Require Import Base.AMap Base.Res Base.Dec Model.Types Model.Pricing
  Model.Handlers Model.EndBlock Model.Step Proofs.Inv Proofs.Lemmas Proofs.InvWf
  Proofs.BankLemmas Proofs.PFrame Proofs.InvBank Proofs.InvEarn Proofs.InvEscrow Proofs.InvAll
  Proofs.ReqLemmas Proofs.PricingProofs Proofs.SupplyMono.
From SVC Require Proofs.NoPanic.
Import ListNotations.
Open Scope Z_scope.

Lemma msum_le {K V} (f g : K -> V -> Z) (m : amap K V) :
  (forall k v, In (k, v) m -> f k v <= g k v) -> msum f m <= msum g m.
Proof.
  induction m as [|[k0 v0] t IH]; cbn [msum]; intros H; [lia|].
  assert (f k0 v0 <= g k0 v0) by (apply H; now left).
  assert (msum f t <= msum g t) by (apply IH; intros; apply H; now right). lia.
Qed.

(* ------------------------------------------------------------------ *)
(* the escrow side: bal Escrow = active fees + earned fees, all summands non-negative *)

Lemma J_escrow_parts s :
  J s -> 0 <= msum fee_active (reqs s) /\ 0 <= msum vid (earned s)
         /\ bal s Escrow = msum fee_active (reqs s) + msum vid (earned s).
Proof.
  intros (_ & _ & He & Hf & Hea & _). split; [|split; [|exact He]].
  - apply msum_nonneg. intros r q Hin. unfold fee_active. destruct (r_active q); [eauto|lia].
  - apply msum_nonneg. exact Hea.
Qed.

Lemma J_earned_le_escrow s p : J s -> 0 <= get0 p (earned s) <= bal s Escrow.
Proof.
  intros HJ. pose proof (J_escrow_parts s HJ) as (H1 & H2 & H3).
  destruct HJ as (_ & _ & _ & _ & Hea & _). split.
  - now apply get0_nonneg.
  - pose proof (get0_le_msum p (earned s) Hea). lia.
Qed.

Lemma J_active_fee_le_escrow s r q :
  J s -> get r (reqs s) = Some q -> r_active q = true -> 0 <= r_fee q <= bal s Escrow.
Proof.
  intros HJ G Hact. pose proof (J_escrow_parts s HJ) as (H1 & H2 & H3).
  destruct HJ as (_ & _ & _ & Hf & _ & _).
  pose proof (fee_active_le_sum s r q Hf G) as Hle. unfold fee_active at 1 in Hle. rewrite Hact in Hle.
  split; [apply (Hf r), get_In, G|lia].
Qed.

(* an owner's record is the sum of the records of the providers it owns *)
Lemma own_earned_le_earned s o :
  I_earn s -> 0 <= get0 o (own_earned s) <= msum vid (earned s).
Proof.
  intros (E1 & _ & E3). rewrite E3. split.
  - apply msum_nonneg. intros p e Hin. destruct (E1 p e Hin) as [He _].
    unfold owned_by. destruct (get p (owner_of s)) as [o'|]; [destruct (o' =? o)|]; lia.
  - apply msum_le. intros p e Hin. destruct (E1 p e Hin) as [He _].
    unfold owned_by, vid. destruct (get p (owner_of s)) as [o'|]; [destruct (o' =? o)|]; lia.
Qed.

(* ------------------------------------------------------------------ *)
(* the prices charged by new_one: every one is at least 1, so every partial sum of the
   coin addition is between 0 and the total *)

Lemma eligible_price_pos s rc p price : eligible s rc p = Some price -> 1 <= price.
Proof.
  unfold eligible. destruct (get (c_svc rc, p) (binds s)) as [b|]; [|discriminate].
  destruct (b_avail b && (b_qos b <=? c_timeout rc)); [|discriminate].
  destruct (_ <=? c_cap rc); [|discriminate]. intros E. injection E as <-.
  rewrite C07_charged_is_stored. apply C07_fee_ge_1.
Qed.

Lemma filter_providers_pos s rc provs x : In x (filter_providers s rc provs) -> 1 <= snd x.
Proof.
  induction provs as [|p t IH]; cbn [filter_providers]; [intros []|].
  destruct (eligible s rc p) as [price|] eqn:E; [|exact IH].
  intros [<-|Hin]; [cbn [snd]; eapply eligible_price_pos; eauto|auto].
Qed.

Lemma sum_prices_app l1 l2 : sum_prices (l1 ++ l2) = sum_prices l1 + sum_prices l2.
Proof.
  unfold sum_prices. induction l1 as [|a l1 IH]; cbn [app fold_right]; [lia|]. rewrite IH. lia.
Qed.

Lemma sum_prices_nonneg l : (forall x, In x l -> 1 <= snd x) -> 0 <= sum_prices l.
Proof.
  unfold sum_prices. induction l as [|a l IH]; cbn [fold_right]; intros H; [lia|].
  assert (1 <= snd a) by (apply H; now left).
  assert (0 <= fold_right (fun x a0 => snd x + a0) 0 l) by (apply IH; intros; apply H; now right). lia.
Qed.

Lemma filter_providers_parts s rc provs l1 l2 :
  filter_providers s rc provs = l1 ++ l2 ->
  0 <= sum_prices l1 /\ 0 <= sum_prices l2
  /\ sum_prices l1 + sum_prices l2 = sum_prices (filter_providers s rc provs).
Proof.
  intros E. rewrite E, sum_prices_app.
  split; [|split; [|reflexivity]]; apply sum_prices_nonneg; intros x Hx;
    apply (filter_providers_pos s rc provs); rewrite E; apply in_or_app; auto.
Qed.

(* ------------------------------------------------------------------ *)
(* the predicate *)

Definition amounts_below (s : State) (L : Z) : Prop :=
  (forall a, 0 <= bal s a < L)
  /\ (forall k b, get k (binds s) = Some b -> 0 <= b_deposit b < L)
  /\ (forall p, 0 <= get0 p (earned s) < L)
  /\ (forall o, 0 <= get0 o (own_earned s) < L)
  /\ (forall r q, get r (reqs s) = Some q -> r_active q = true -> 0 <= r_fee q < L)
  /\ (forall a b amt x, transfer a b amt s = Some x -> 0 <= amt < L)
  /\ (forall c x l1 l2,
        let rc := ctx_or_zero s c in
        let el := filter_providers s rc (c_provs rc) in
        transfer (User (c_cons rc)) Escrow (sum_prices el) s = Some x ->
        el = l1 ++ l2 ->
        0 <= sum_prices l1 < L /\ 0 <= sum_prices l2 < L /\ 0 <= sum_prices el < L).

Lemma amounts_below_mono s L L' : L <= L' -> amounts_below s L -> amounts_below s L'.
Proof.
  intros Hle (A1 & A2 & A3 & A4 & A5 & A6 & A7).
  split; [intros a; specialize (A1 a); lia|].
  split; [intros k b G; specialize (A2 k b G); lia|].
  split; [intros p; specialize (A3 p); lia|].
  split; [intros o; specialize (A4 o); lia|].
  split; [intros r q G Ha; specialize (A5 r q G Ha); lia|].
  split; [intros a b amt x E; specialize (A6 a b amt x E); lia|].
  intros c x l1 l2. cbv zeta. intros Et El. specialize (A7 c x l1 l2 Et El). cbv zeta in A7. lia.
Qed.

(* what the parts need: the deposit side (BDM), the escrow side (J), I_earn *)
Lemma parts_amounts_below cfg s L :
  BDM cfg s -> J s -> I_earn s -> supply s < L -> amounts_below s L.
Proof.
  intros HB HJ HE HL.
  assert (Hbal : forall a, 0 <= bal s a <= supply s) by (intros a; now apply (BDM_bal_le_supply cfg)).
  pose proof (Hbal Escrow) as Hesc.
  pose proof (J_escrow_parts s HJ) as (P1 & P2 & P3).
  assert (Htr : forall a b amt x, transfer a b amt s = Some x -> 0 <= amt <= supply s).
  { intros a b amt x E. apply transfer_some in E. destruct E as (H0 & H1 & _).
    specialize (Hbal a). lia. }
  split; [intros a; specialize (Hbal a); lia|].
  split; [intros k b G; pose proof (BDM_deposit_le_supply cfg s k b HB G); lia|].
  split; [intros p; pose proof (J_earned_le_escrow s p HJ); lia|].
  split; [intros o; pose proof (own_earned_le_earned s o HE); lia|].
  split; [intros r q G Ha; pose proof (J_active_fee_le_escrow s r q HJ G Ha); lia|].
  split; [intros a b amt x E; specialize (Htr a b amt x E); lia|].
  intros c x l1 l2. cbv zeta. intros Et El.
  apply Htr in Et. destruct (filter_providers_parts _ _ _ _ _ El) as (Q1 & Q2 & Q3). lia.
Qed.

Theorem Inv_amounts_below cfg s L : Inv cfg s -> supply s < L -> amounts_below s L.
Proof.
  intros HI. apply (parts_amounts_below cfg); [now apply Inv_BDM|now apply (Inv_J cfg)|apply HI].
Qed.

(* every reachable state, genesis supply below 2^255 *)
Theorem C20_amounts_bounded cfg S0 s :
  wf_cfg cfg -> ReachS cfg S0 s -> S0 < INT_LIMIT -> amounts_below s INT_LIMIT.
Proof.
  intros Hcfg Hr HS. pose proof (ReachS_supply_le _ _ _ Hr) as Hle.
  apply (Inv_amounts_below cfg); [|lia]. apply Reach_Inv; [assumption|eapply ReachS_Reach; eauto].
Qed.

(* ------------------------------------------------------------------ *)
(* inside EndBlock *)

Lemma supply_fold_expire_one cfg l s : supply (fold_left (expire_one cfg) l s) <= supply s.
Proof. apply (sle_fold (expire_one cfg)). intros. apply sle_expire_one. Qed.

Lemma supply_fold_new_one cfg l s : supply (fold_left (new_one cfg) l s) <= supply s.
Proof. apply (sle_fold (new_one cfg)). intros. apply sle_new_one. Qed.

(* the states in which new_one runs satisfy the invariant (cf. InvAll.Inv_inside_end_block
   for the expiry phase) *)
Theorem Inv_inside_new_phase cfg s :
  wf_cfg cfg -> Inv cfg s -> height s < HEIGHT_BOUND ->
  forall k, Inv cfg (fold_left (new_one cfg) (firstn k (due (newq s) (height s))) s).
Proof.
  intros Hcfg Hi Hb k.
  set (l := firstn k (due (newq s) (height s))).
  assert (Hn : NoDup l).
  { unfold l. assert (Hq : NoDup (newq s)) by apply (inv_wf _ _ Hi).
    pose proof (NoDup_due (newq s) (height s) Hq) as Hd.
    rewrite <- (firstn_skipn k (due (newq s) (height s))) in Hd. now apply NoDup_app_remove_r' in Hd. }
  assert (Hl : forall c, In c l -> In (height s, c) (newq s)).
  { intros c Hc. apply In_due. unfold l in Hc.
    rewrite <- (firstn_skipn k (due (newq s) (height s))). apply in_or_app. now left. }
  exact (proj1 (fold_new_phase cfg l s Hcfg Hi Hb Hn Hl)).
Qed.

Theorem C20_amounts_bounded_endblock cfg S0 s :
  wf_cfg cfg -> ReachS cfg S0 s -> S0 < INT_LIMIT -> height s < HEIGHT_BOUND ->
  let s1 := fold_left (expire_one cfg) (due (expq s) (height s)) s in
  (forall k, amounts_below
               (fold_left (expire_one cfg) (firstn k (due (expq s) (height s))) s) INT_LIMIT)
  /\ (forall k, amounts_below
               (fold_left (new_one cfg) (firstn k (due (newq s1) (height s1))) s1) INT_LIMIT).
Proof.
  intros Hcfg Hr HS Hb. cbv zeta.
  pose proof (ReachS_supply_le _ _ _ Hr) as Hle.
  assert (HI : Inv cfg s) by (apply Reach_Inv; [assumption|eapply ReachS_Reach; eauto]).
  split; intros k.
  - apply (Inv_amounts_below cfg); [now apply Inv_inside_end_block|].
    pose proof (supply_fold_expire_one cfg (firstn k (due (expq s) (height s))) s). lia.
  - set (l1 := due (expq s) (height s)).
    assert (Hn1 : NoDup l1) by (apply NoDup_due; apply (inv_wf _ _ HI)).
    assert (Hl1 : forall c, In c l1 -> In (height s, c) (expq s)) by (intros c; apply In_due).
    destruct (fold_expire_phase cfg l1 s Hcfg HI Hb Hn1 Hl1) as (I1 & H1 & _).
    set (s1 := fold_left (expire_one cfg) l1 s) in *.
    apply (Inv_amounts_below cfg); [apply Inv_inside_new_phase; [assumption|assumption|now rewrite H1]|].
    pose proof (supply_fold_new_one cfg (firstn k (due (newq s1) (height s1))) s1) as Hs2.
    pose proof (supply_fold_expire_one cfg l1 s) as Hs1. fold s1 in Hs1. lia.
Qed.

(* the loop over the requests of one expiring batch: the full Inv does not hold between two
   expire_req (the batch counters are being rebuilt), but the deposit side (BDM), the escrow
   side (J) and I_earn do (NoPanic.loop_inv), and they are all amounts_below needs *)
Lemma loop_inv_prefix cfg l1 l2 s :
  0 <= p_slash cfg <= ONE -> NoDup (l1 ++ l2) -> NoPanic.loop_inv cfg s (l1 ++ l2) ->
  NoPanic.loop_inv cfg (fold_left (expire_req cfg) l1 s) l2.
Proof.
  intros Hsl. revert s. induction l1 as [|a l1 IH]; intros s Hn HL; cbn [fold_left app] in *; [exact HL|].
  destruct (NoPanic.loop_inv_step cfg s a (l1 ++ l2) Hsl Hn HL) as (_ & HL').
  apply IH; [now inversion Hn|exact HL'].
Qed.

Theorem C20_amounts_bounded_expire_loop cfg S0 s c n l1 l2 :
  wf_cfg cfg -> ReachS cfg S0 s -> S0 < INT_LIMIT -> active_rids s c n = l1 ++ l2 ->
  amounts_below (fold_left (expire_req cfg) l1 s) INT_LIMIT.
Proof.
  intros Hcfg Hr HS El.
  pose proof (ReachS_supply_le _ _ _ Hr) as Hle.
  assert (HI : Inv cfg s) by (apply Reach_Inv; [assumption|eapply ReachS_Reach; eauto]).
  assert (HL : NoPanic.loop_inv cfg (fold_left (expire_req cfg) l1 s) l2).
  { apply loop_inv_prefix; [apply Hcfg| |].
    - rewrite <- El. apply NoDup_active_rids, (inv_wf _ _ HI).
    - rewrite <- El. now apply NoPanic.Inv_loop_inv. }
  destruct HL as (HB & HJ & _).
  assert (Hs : supply (fold_left (expire_req cfg) l1 s) <= supply s).
  { apply (sle_fold (expire_req cfg)). intros. apply sle_expire_req. }
  apply (parts_amounts_below cfg); [exact HB|exact HJ| |lia].
  apply (earn_fframe s); [|apply HI].
  apply (ff_fold (expire_req cfg)). intros. apply ff_expire_req.
Qed.
