(* C12, history level.
   A. counts tied to the trace: for every existing context the recorded request / response counts
      are the numbers of EvIssue / EvRespond events of the CURRENT batch in the log (also after the
      records have been cleaned and when the context is paused for funds), the batch start event
      carries the request count, and no event of a later batch exists (Reach_CT, counts_trace).
   B. the cause of the state callback: exactly the consumer's funds being short (state_callback_cause).
   C. messages other than a response leave the batch bookkeeping alone (msg_keeps_bookkeeping). *)
From Coq Require Import List ZArith Bool Lia Permutation.
From SVC Require Import Base.AMap Base.Res Base.Dec Model.Types Model.Pricing
  Model.Handlers Model.EndBlock Model.Step Proofs.Inv Proofs.Lemmas Proofs.ReqLemmas
  Proofs.CtxOps Proofs.InvSched Proofs.InvCtx Proofs.InvEscrow Proofs.InvReq Proofs.InvAll
  Proofs.StepSpecs_ctx Proofs.StepSpecs_batch Proofs.C16Proofs Proofs.InvCount Proofs.C10Proofs
  Proofs.TraceLemmas Proofs.TraceSettle Proofs.TraceBase Proofs.TraceBatch.
Import ListNotations.
Open Scope Z_scope.

(* TraceBase.count (Z-valued, any element type) is the `count` of this file *)
Notation count := TraceBase.count.

(* ------------------------------------------------------------------ *)
(* A. issue / respond events per batch *)

Definition issue_in (c : CtxId) (n : Z) (e : Event) : bool :=
  match e with EvIssue r _ _ _ => in_batch c n r | _ => false end.
Definition respond_in (c : CtxId) (n : Z) (e : Event) : bool :=
  match e with EvRespond r => in_batch c n r | _ => false end.

Definition nissue (c : CtxId) (n : Z) (s : State) : Z := count (issue_in c n) (log s).
Definition nresp (c : CtxId) (n : Z) (s : State) : Z := count (respond_in c n) (log s).

(* neither an issue nor a response *)
Definition nir (e : Event) : Prop :=
  match e with EvIssue _ _ _ _ | EvRespond _ => False | _ => True end.

Lemma quiet_nir e : quiet e -> nir e.
Proof. destruct e; cbn; intros H; try exact I; discriminate H. Qed.

Lemma count_nir (f : Event -> bool) d :
  (forall e, f e = true -> ~ nir e) -> Forall nir d -> count f d = 0.
Proof.
  intros Hf Hd. apply count_zero_notIn. intros e Hin. rewrite Forall_forall in Hd.
  destruct (f e) eqn:E; [|reflexivity]. exfalso. exact (Hf e E (Hd e Hin)).
Qed.

Lemma issue_in_not_nir c n e : issue_in c n e = true -> ~ nir e.
Proof. destruct e; cbn; intros H; try discriminate H; auto. Qed.
Lemma respond_in_not_nir c n e : respond_in c n e = true -> ~ nir e.
Proof. destruct e; cbn; intros H; try discriminate H; auto. Qed.

Lemma counts_ext_nir s s' : ext nir (log s) (log s') ->
  forall c n, nissue c n s' = nissue c n s /\ nresp c n s' = nresp c n s.
Proof.
  intros (d & E & Hd) c n. unfold nissue, nresp. rewrite E, !count_app.
  rewrite (count_nir (issue_in c n) d (issue_in_not_nir c n) Hd).
  rewrite (count_nir (respond_in c n) d (respond_in_not_nir c n) Hd). lia.
Qed.

Lemma ext_quiet_nir l0 l : ext quiet l0 l -> ext nir l0 l.
Proof. apply ext_weaken. exact quiet_nir. Qed.

(* ---- what each operation appends ---- *)

Lemma msg_nir cfg s o s' :
  handle cfg s o = Ok s' -> (forall dt, o <> OEndBlock dt) ->
  (forall r who code out ov ok, o <> ORespond r who code out ov ok) ->
  ext nir (log s) (log s').
Proof.
  intros H Hne Hnr. apply ext_quiet_nir.
  destruct o;
    try (exact (msg_Q _ _ _ _ H eq_refl));
    try (exact (proj1 (ctxmsg_Q _ _ _ _ H I))).
  - exfalso. eapply Hnr. reflexivity.
  - exfalso. eapply Hne. reflexivity.
Qed.

(* an accepted response appends its EvRespond and otherwise neither issues nor responses *)
Lemma respond_log cfg s r who code out ov ok s' :
  h_respond cfg s r who code out ov ok = Ok s' ->
  exists d1 d2, log s' = d1 ++ EvRespond r :: d2 ++ log s /\ Forall nir d1 /\ Forall nir d2.
Proof.
  intros H. apply respond_inv in H.
  destruct H as (q & rc0 & s1 & rc & _ & Hq & Hrc0 & Hwho & Hact & Hset & Hrc & ->).
  set (sm := resp_mid s1 r who rc0 code out) in *.
  destruct (TraceLemmas.Q_resp_finish sm (rid_ctx r) rc) as (d1 & E1 & Hd1).
  pose proof (log_resp_mid s1 r who rc0 code out) as Lm. fold sm in Lm.
  assert (H1 : exists d2, log s1 = d2 ++ log s /\ Forall nir d2).
  { destruct Hset as [[_ (sa & Es & Er)]|[_ Ea]].
    - apply slash_shape in Es.
      destruct Es as (q' & rc' & b & amt & b2 & _ & _ & _ & _ & _ & _ & _ & _ & _ & _ & _ & ->).
      apply refund_shape in Er. destruct Er as (_ & _ & ->).
      eexists [_; _]. split; [reflexivity|]. repeat constructor.
    - apply add_earned_shape in Ea. destruct Ea as (o & s0 & Et & _ & _ & ->). cbv zeta.
      sproj. eexists [_; _]. split; [reflexivity|]. repeat constructor. }
  destruct H1 as (d2 & E2 & Hd2).
  exists d1, d2. split; [rewrite E1, Lm, E2; reflexivity|]. split; [|exact Hd2].
  eapply Forall_impl; [|exact Hd1]. exact quiet_nir.
Qed.

Lemma nir_slash cfg s r s1 : slash cfg s r = Ok s1 -> ext nir (log s) (log s1).
Proof.
  intros H. apply slash_shape in H.
  destruct H as (q & rc & b & amt & b2 & _ & _ & _ & _ & _ & _ & _ & _ & _ & _ & _ & ->).
  sproj. apply ext_cons; [exact I|apply ext_refl].
Qed.

Lemma nir_refund s r cons fee s1 : refund_fee s r cons fee = Some s1 -> ext nir (log s) (log s1).
Proof.
  intros H. apply refund_shape in H. destruct H as (_ & _ & ->).
  sproj. apply ext_cons; [exact I|apply ext_refl].
Qed.

Lemma nir_expire_req cfg s r : ext nir (log s) (log (expire_req cfg s r)).
Proof.
  unfold expire_req.
  destruct (get r (reqs s)) as [q|]; [|apply ext_refl].
  destruct (get (rid_ctx r) (ctxs s)) as [rc|]; [|apply ext_refl].
  sproj. apply ext_cons; [exact I|]. rewrite log_deactivate.
  destruct (c_super rc); [apply ext_refl|].
  assert (Hsa : ext nir (log s) (log (match slash cfg s r with Ok x => x | _ => s end))).
  { destruct (slash cfg s r) eqn:Es; try apply ext_refl. eapply nir_slash; eauto. }
  destruct (refund_fee _ r (c_cons rc) (r_fee q)) eqn:Er; [|assumption].
  eapply ext_trans; [exact Hsa|]. eapply nir_refund; eauto.
Qed.

Lemma nir_expire_one cfg s c : ext nir (log s) (log (expire_one cfg s c)).
Proof.
  unfold expire_one. set (rc := ctx_or_zero s c).
  assert (Hp : ext nir (log s) (log (fst (if c_bdone rc then (s, rc)
             else complete_batch (fold_left (expire_req cfg) (active_rids s c (c_counter rc)) s) c rc)))).
  { destruct (c_bdone rc); cbn [fst]; [apply ext_refl|].
    eapply ext_trans; [|apply ext_quiet_nir, TraceLemmas.Q_complete_batch].
    generalize (active_rids s c (c_counter rc)). intros l. generalize s. clear.
    induction l as [|a l IH]; intros s; cbn [fold_left]; [apply ext_refl|].
    eapply ext_trans; [apply nir_expire_req|apply IH]. }
  destruct (if c_bdone rc then (s, rc) else _) as [s1 rc1]. cbn [fst] in Hp.
  eapply ext_trans; [exact Hp|]. eapply ext_trans; [|apply ext_quiet_nir, TraceLemmas.Q_clean_batch].
  destruct (c_state rc1); [destruct (c_rep rc1 && _)| |]; sproj;
    repeat (apply ext_cons; [exact I|]); apply ext_refl.
Qed.

(* the issue events of a batch start *)
Lemma count_issue_evs c' n' s c rc n i provs :
  count (issue_in c' n') (issue_evs s c rc n i provs)
  = if eqb c c' && (n =? n') then len provs else 0.
Proof.
  revert i. induction provs as [|p t IH]; intros i; cbn [issue_evs].
  - rewrite count_nil. now destruct (eqb c c' && (n =? n')).
  - rewrite count_app, IH, count_cons, count_nil. cbn [issue_in].
    unfold in_batch, rid_ctx, rid_batch. cbn [fst snd].
    unfold len. cbn [length]. destruct (eqb c c' && (n =? n')); lia.
Qed.

Lemma count_respond_issue_evs c' n' s c rc n i provs :
  count (respond_in c' n') (issue_evs s c rc n i provs) = 0.
Proof.
  revert i. induction provs as [|p t IH]; intros i; cbn [issue_evs]; [reflexivity|].
  rewrite count_app, IH, count_cons, count_nil. cbn [respond_in]. lia.
Qed.

(* the new-batch handler, log and record together: nothing issued (removed, not running, paused
   for funds), or one batch of k >= 0 requests (k = 0: skipped) *)
Lemma new_one_full cfg s c rc : wf (ctxs s) -> get c (ctxs s) = Some rc ->
  (ext nir (log s) (log (new_one cfg s c))
   /\ forall rc', get c (ctxs (new_one cfg s c)) = Some rc' -> rc' = rc \/ rc' = paused_ctx rc)
  \/ (exists sp provs, ext nir (log s) (log sp) /\
        log (new_one cfg s c)
        = EvBatchStart c (c_counter rc + 1) (height s) (len provs)
            :: issue_evs sp c rc (c_counter rc + 1) 0 provs ++ log sp
        /\ get c (ctxs (new_one cfg s c)) = Some (bump rc (len provs))).
Proof.
  intros Hwf Grc. unfold new_one, ctx_or_zero. rewrite Grc.
  destruct (is_state rc Running && c_rep rc && (0 <? c_total rc) && (c_total rc <=? c_counter rc)).
  { left. split; [sproj; apply ext_cons; [exact I|apply ext_refl]|].
    intros rc' G. sproj. rewrite get_del_eq in G by assumption. discriminate. }
  destruct (is_state rc Running).
  2:{ left. split; [apply ext_refl|]. intros rc' G. sproj. left. congruence. }
  set (el := filter_providers s rc (c_provs rc)).
  assert (Hinit : forall sp, ctxs sp = ctxs s -> height sp = height s ->
     log (del_newq (add_expq (initiate_requests sp c (map fst el)) c (height s + c_timeout rc)) c (height s))
     = EvBatchStart c (c_counter rc + 1) (height s) (len (map fst el))
         :: issue_evs sp c rc (c_counter rc + 1) 0 (map fst el) ++ log sp
     /\ get c (ctxs (del_newq (add_expq (initiate_requests sp c (map fst el)) c (height s + c_timeout rc)) c (height s)))
        = Some (bump rc (len (map fst el)))).
  { intros sp Ec Eh. unfold initiate_requests, ctx_or_zero. rewrite Ec, Grc. sproj.
    rewrite issue_all_log, Eh. split; [reflexivity|]. now rewrite get_set_eq. }
  destruct ((0 <? len el) && (c_thr rc <=? len el)).
  2:{ right. exists s, []. split; [apply ext_refl|]. unfold skip_batch. sproj.
      split; [reflexivity|]. now rewrite get_set_eq. }
  destruct (c_super rc).
  - right. exists s, (map fst el). split; [apply ext_refl|]. apply Hinit; reflexivity.
  - destruct (transfer (User (c_cons rc)) Escrow (sum_prices el) s) as [x|] eqn:Et.
    + right. pose proof (transfer_frame _ _ _ _ _ Et) as Hf.
      exists (emit (EvDebit c (c_cons rc) (sum_prices el)) x), (map fst el). split.
      * sproj. rewrite Hf. sproj. apply ext_cons; [exact I|apply ext_refl].
      * apply Hinit; sproj; now rewrite Hf.
    + left. unfold on_paused. destruct (c_mod rc =? 0); sproj.
      * split; [apply ext_refl|]. intros rc' G. rewrite get_set_eq in G. right. now injection G as <-.
      * split; [apply ext_cons; [exact I|apply ext_refl]|]. intros rc' G. rewrite get_set_eq in G.
        right. now injection G as <-.
Qed.

(* ------------------------------------------------------------------ *)
(* the instrumented invariant *)

Definition CT (s : State) : Prop :=
  (forall c, ~ In (EvCtxCreated c) (log s) -> forall n, nissue c n s = 0 /\ nresp c n s = 0)
  /\ (forall c rc, get c (ctxs s) = Some rc ->
        nissue c (c_counter rc) s = c_breq rc /\ nresp c (c_counter rc) s = c_bresp rc
        /\ (forall n, c_counter rc < n -> nissue c n s = 0 /\ nresp c n s = 0)
        /\ (1 <= c_counter rc -> exists h, In (EvBatchStart c (c_counter rc) h (c_breq rc)) (log s))).

(* a step that appends neither issues nor responses and keeps the batch bookkeeping of every
   record (new records start at zero, under a fresh id) *)
Lemma CT_nir s s' : CT s -> ext nir (log s) (log s') ->
  (forall c rc', get c (ctxs s') = Some rc' ->
     (exists rc, get c (ctxs s) = Some rc /\ c_counter rc' = c_counter rc
                 /\ c_breq rc' = c_breq rc /\ c_bresp rc' = c_bresp rc)
     \/ (~ In (EvCtxCreated c) (log s) /\ c_counter rc' = 0 /\ c_breq rc' = 0 /\ c_bresp rc' = 0)) ->
  CT s'.
Proof.
  intros (C1 & C2) He Hrec. pose proof (counts_ext_nir s s' He) as S.
  pose proof (ext_incl _ _ _ He) as Hincl.
  split.
  - intros c Hn n. destruct (S c n) as (-> & ->). apply C1. intros Hin. apply Hn, Hincl, Hin.
  - intros c rc' G. destruct (Hrec c rc' G) as [(rc & G0 & E1 & E2 & E3)|(Hf & E1 & E2 & E3)].
    + destruct (C2 c rc G0) as (A1 & A2 & A3 & A4). rewrite E1, E2, E3.
      destruct (S c (c_counter rc)) as (-> & ->). split; [exact A1|]. split; [exact A2|]. split.
      * intros n Hn. destruct (S c n) as (-> & ->). now apply A3.
      * intros Hc. destruct (A4 Hc) as (h & Hin). exists h. apply Hincl, Hin.
    + rewrite E1, E2, E3. destruct (S c 0) as (-> & ->). destruct (C1 c Hf 0) as (Z1 & Z2).
      split; [exact Z1|]. split; [exact Z2|]. split; [|lia].
      intros n _. destruct (S c n) as (-> & ->). apply C1, Hf.
Qed.

(* a record that appears in a message step starts at zero *)
Lemma msg_new_ctx_zero cfg s o s' c rc' :
  wf_cfg cfg -> Inv cfg s -> wf_op s o -> (forall dt, o <> OEndBlock dt) ->
  handle cfg s o = Ok s' ->
  get c (ctxs s) = None -> get c (ctxs s') = Some rc' ->
  c_counter rc' = 0 /\ c_breq rc' = 0 /\ c_bresp rc' = 0.
Proof.
  intros Hcfg HI Hwf Hne H Enone Erc'.
  destruct (ctx_op o) eqn:Hk.
  2:{ rewrite (se_ctxs _ _ (msg_SEq _ _ _ _ H Hk)) in Erc'. congruence. }
  assert (Hcreate : forall c0 rc0, c_counter rc0 = 0 /\ c_breq rc0 = 0 /\ c_bresp rc0 = 0 ->
            s' = created s c0 rc0 -> c_counter rc' = 0 /\ c_breq rc' = 0 /\ c_bresp rc' = 0).
  { intros c0 rc0 Hz ->. unfold created in Erc'. sproj. rewrite get_set in Erc'.
    destruct (eqb_spec c c0) as [->|Hn]; [injection Erc' as <-; exact Hz|congruence]. }
  assert (Hput : forall sm c0 rc0 rc1, SEq s sm -> get c0 (ctxs s) = Some rc0 ->
             ctxs s' = set c0 rc1 (ctxs sm) -> False).
  { intros sm c0 rc0 rc1 Hsm G0 E. rewrite E, get_set, (se_ctxs _ _ Hsm) in Erc'.
    destruct (eqb_spec c c0) as [->|Hn]; congruence. }
  destruct o; cbn [ctx_op] in Hk; try discriminate; cbn [handle] in H; cbn [wf_op] in Hwf.
  - unfold h_call in H. inv_ok H. apply create_context_spec in H.
    destruct H as (capv & _ & _ & _ & E). eapply Hcreate; [|exact E]. cbn. auto.
  - apply create_context_spec in H.
    destruct H as (capv & _ & _ & _ & E). eapply Hcreate; [|exact E]. cbn. auto.
  - apply respond_spec in H.
    destruct H as (q & rc0 & sm & rc0' & Eq & Erc0 & Hsm & -> & Hrc').
    exfalso. eapply (Hput sm); eauto. reflexivity.
  - apply h_pause_spec in H. destruct H as (rc0 & Erc0 & _ & _ & _ & _ & ->).
    exfalso. eapply (Hput s); eauto using SEq_refl. reflexivity.
  - apply h_start_spec in H. destruct H as (rc0 & Erc0 & _ & _ & _ & ->).
    exfalso. eapply (Hput s); eauto using SEq_refl. apply ctxs_started.
  - apply h_kill_spec in H. destruct H as (rc0 & Erc0 & _ & _ & _ & ->).
    exfalso. eapply (Hput s); eauto using SEq_refl. reflexivity.
  - apply h_update_ctx_spec in H.
    destruct H as (rc0 & capo & Erc0 & _ & _ & _ & _ & _ & _ & _ & _ & ->).
    exfalso. eapply (Hput s); eauto using SEq_refl. reflexivity.
  - exfalso. eapply Hne. reflexivity.
  - apply h_mod_update_gen in H. destruct H as (rc0 & t & capo & Erc0 & _ & _ & ->).
    exfalso. eapply (Hput s); eauto using SEq_refl. reflexivity.
  - apply h_mod_pause_spec in H. destruct H as (rc0 & Erc0 & _ & _ & _ & ->).
    exfalso. eapply (Hput s); eauto using SEq_refl. reflexivity.
  - apply h_mod_start_spec in H. destruct H as (rc0 & Erc0 & _ & _ & ->).
    exfalso. eapply (Hput s); eauto using SEq_refl. apply ctxs_started.
  - apply h_mod_kill_spec in H. destruct H as (rc0 & Erc0 & _ & _ & ->).
    exfalso. eapply (Hput s); eauto using SEq_refl. reflexivity.
Qed.

(* C: a message other than a response leaves the bookkeeping of every existing record alone *)
Theorem msg_keeps_bookkeeping cfg s o s' c rc rc' :
  wf_cfg cfg -> Inv cfg s -> wf_op s o -> (forall dt, o <> OEndBlock dt) ->
  handle cfg s o = Ok s' ->
  (forall r who code out ov ok, o <> ORespond r who code out ov ok) ->
  get c (ctxs s) = Some rc -> get c (ctxs s') = Some rc' ->
  c_counter rc' = c_counter rc /\ c_breq rc' = c_breq rc /\ c_bresp rc' = c_bresp rc
  /\ c_bthr rc' = c_bthr rc /\ c_bdone rc' = c_bdone rc.
Proof.
  intros Hcfg HI Hwf Hne H Hnr Erc Erc'.
  destruct (msg_ctx_change _ _ _ _ _ _ _ Hcfg HI Hwf Hne H Erc Erc')
    as [->|who ok _ _ _ _ _ ->|who ok _ _ _ _ ->|who ok _ _ _ _ ->
        |who provs cap timeout freq total ok capo _ _ _ _ ->|r who code out ov ok q -> Hc Hq Hrc'
        |who provs thr cap timeout freq total capo _ _ _ _ _ ->
        |who _ _ _ _ _ ->|who _ _ _ _ ->|who _ _ _ _ ->];
    try (cbn; auto 10; fail).
  - pose proof (upd_ctx_fixed rc provs capo timeout freq total) as Hf. cbv zeta in Hf. tauto.
  - exfalso. eapply Hnr. reflexivity.
  - pose proof (upd_thr_fixed rc (if thr =? 0 then c_thr rc else thr) provs capo timeout freq total) as Hf.
    cbv zeta in Hf. tauto.
Qed.

Lemma in_batch_true c n r : in_batch c n r = true <-> rid_ctx r = c /\ rid_batch r = n.
Proof.
  unfold in_batch. rewrite andb_true_iff, Z.eqb_eq. split; intros (A & B); split; auto.
  - now apply eqb_true in A.
  - subst. apply eqb_refl.
Qed.

Lemma CT_msg cfg s o s' :
  wf_cfg cfg -> Inv cfg s -> CT s -> wf_op s o -> (forall dt, o <> OEndBlock dt) ->
  handle cfg s o = Ok s' -> CT s'.
Proof.
  intros Hcfg HI HC Hwf Hne H.
  assert (Hother : (forall r who code out ov ok, o <> ORespond r who code out ov ok) -> CT s').
  { intros Hnr. apply (CT_nir s s' HC (msg_nir _ _ _ _ H Hne Hnr)).
    intros c rc' G'. destruct (get c (ctxs s)) as [rc|] eqn:G.
    - left. exists rc. split; [reflexivity|].
      destruct (msg_keeps_bookkeeping _ _ _ _ _ _ _ Hcfg HI Hwf Hne H Hnr G G') as (A & B & C & _). auto.
    - right. split; [eapply msg_new_ctx_fresh; eauto|]. eapply msg_new_ctx_zero; eauto. }
  destruct o; try (apply Hother; intros; discriminate).
  (* a response: one more EvRespond of the current batch of its context *)
  cbn [handle] in H.
  destruct (respond_exact _ _ _ _ _ _ _ _ _ Hcfg HI H)
    as (q & rc & Gq & _ & _ & Grc & _ & _ & _ & _ & _ & _ & _ & Ec).
  destruct (respond_log _ _ _ _ _ _ _ _ _ H) as (d1 & d2 & El & Hd1 & Hd2).
  destruct (inv_req _ _ HI) as (R1 & _).
  destruct (R1 _ _ (get_In _ _ _ Gq)) as (rc0 & Grc0 & Eb & _).
  assert (rc0 = rc) by congruence. subst rc0.
  destruct HC as (C1 & C2).
  assert (SI : forall c n, nissue c n s' = nissue c n s).
  { intros c n. unfold nissue. rewrite El, count_app, count_cons, count_app.
    rewrite (count_nir _ d1 (issue_in_not_nir c n) Hd1), (count_nir _ d2 (issue_in_not_nir c n) Hd2).
    cbn [issue_in]. lia. }
  assert (SR : forall c n, nresp c n s' = (if in_batch c n r then 1 else 0) + nresp c n s).
  { intros c n. unfold nresp. rewrite El, count_app, count_cons, count_app.
    rewrite (count_nir _ d1 (respond_in_not_nir c n) Hd1), (count_nir _ d2 (respond_in_not_nir c n) Hd2).
    cbn [respond_in]. lia. }
  assert (Hincl : incl (log s) (log s')).
  { rewrite El. intros e Hin. apply in_or_app. right. right. apply in_or_app. now right. }
  assert (Hcr : In (EvCtxCreated (rid_ctx r)) (log s)) by apply (I_ctx_get _ _ _ _ (inv_ctx _ _ HI) Grc).
  split.
  - intros c Hn n. rewrite SI, SR.
    assert (Hne' : c <> rid_ctx r) by (intros ->; apply Hn, Hincl, Hcr).
    assert (Eb' : in_batch c n r = false).
    { destruct (in_batch c n r) eqn:E; [|reflexivity]. apply in_batch_true in E. destruct E. congruence. }
    rewrite Eb'. destruct (C1 c (fun Hin => Hn (Hincl _ Hin)) n). lia.
  - intros c rc' G'. rewrite Ec, get_set in G'.
    destruct (eqb_spec c (rid_ctx r)) as [->|Hn].
    + injection G' as <-. destruct (C2 _ _ Grc) as (A1 & A2 & A3 & A4).
      assert (F : c_counter (responded rc) = c_counter rc /\ c_breq (responded rc) = c_breq rc
                  /\ c_bresp (responded rc) = c_bresp rc + 1).
      { unfold responded. cbn [c_bresp c_breq setc_bresp].
        destruct (c_bresp rc + 1 =? c_breq rc); cbn; auto. }
      destruct F as (F1 & F2 & F3). rewrite F1, F2, F3, SI, SR.
      assert (E1 : in_batch (rid_ctx r) (c_counter rc) r = true) by (apply in_batch_true; auto).
      rewrite E1. split; [exact A1|]. split; [lia|]. split.
      * intros n Hlt. rewrite SI, SR.
        assert (E2 : in_batch (rid_ctx r) n r = false).
        { destruct (in_batch (rid_ctx r) n r) eqn:E; [|reflexivity]. apply in_batch_true in E. lia. }
        rewrite E2. destruct (A3 n Hlt). lia.
      * intros Hc. destruct (A4 Hc) as (h & Hin). exists h. apply Hincl, Hin.
    + destruct (C2 _ _ G') as (A1 & A2 & A3 & A4).
      assert (E0 : forall n, in_batch c n r = false).
      { intros n. destruct (in_batch c n r) eqn:E; [|reflexivity]. apply in_batch_true in E. destruct E. congruence. }
      rewrite SI, SR, E0. split; [exact A1|]. split; [lia|]. split.
      * intros n Hlt. rewrite SI, SR, E0. destruct (A3 n Hlt). lia.
      * intros Hc. destruct (A4 Hc) as (h & Hin). exists h. apply Hincl, Hin.
Qed.

Lemma CT_expire_one cfg s c :
  wf_cfg cfg -> Inv cfg s -> CT s -> In (height s, c) (expq s) -> height s < HEIGHT_BOUND ->
  CT (expire_one cfg s c).
Proof.
  intros Hcfg HI HC Hdue Hb.
  apply (CT_nir s _ HC (nir_expire_one cfg s c)).
  intros c' rc' G'. left.
  destruct (expire_one_spec cfg s c Hcfg HI Hdue Hb)
    as (rc & rc1 & Erc & _ & _ & Hrc1 & Ht & _ & _ & _ & Hcase).
  destruct (eqb_spec c' c) as [->|Hn].
  - exists rc. split; [exact Erc|].
    assert (rc' = rc1) by (destruct Hcase as [(Ex & _)|[(Ex & _)|(Ex & _)]]; congruence). subst rc'.
    destruct Hrc1 as [->|[_ ->]]; cbn; auto.
  - exists rc'. rewrite (t_ctxs _ _ _ Ht) in G' by assumption. auto.
Qed.

Lemma CT_new_one cfg s c :
  wf_cfg cfg -> Inv cfg s -> CT s -> In (height s, c) (newq s) -> height s < HEIGHT_BOUND ->
  CT (new_one cfg s c).
Proof.
  intros Hcfg HI HC Hdue Hb.
  destruct (new_one_spec cfg s c HI Hdue) as (rc & Erc & _ & _ & Ht & _).
  destruct (Inv_wf_sched _ _ HI) as (Wc & _).
  destruct (new_one_full cfg s c rc Wc Erc) as [(He & Hrec)|(sp & provs & Hsp & El & Grec)].
  - apply (CT_nir s _ HC He). intros c' rc' G'. left.
    destruct (eqb_spec c' c) as [->|Hn].
    + exists rc. split; [exact Erc|]. destruct (Hrec rc' G') as [->| ->]; cbn; auto.
    + exists rc'. rewrite (t_ctxs _ _ _ Ht) in G' by assumption. auto.
  - set (n := c_counter rc + 1) in *. set (s' := new_one cfg s c) in *.
    pose proof (counts_ext_nir s sp Hsp) as S.
    assert (SI : forall c' n', nissue c' n' s' = (if eqb c c' && (n =? n') then len provs else 0) + nissue c' n' s).
    { intros c' n'. unfold nissue. rewrite El, count_cons, count_app, count_issue_evs.
      cbn [issue_in]. fold (nissue c' n' sp). destruct (S c' n') as (-> & _). unfold nissue. lia. }
    assert (SR : forall c' n', nresp c' n' s' = nresp c' n' s).
    { intros c' n'. unfold nresp. rewrite El, count_cons, count_app, count_respond_issue_evs.
      cbn [respond_in]. fold (nresp c' n' sp). destruct (S c' n') as (_ & ->). unfold nresp. lia. }
    assert (Hincl : incl (log s) (log s')).
    { rewrite El. intros e Hin. right. apply in_or_app. right. exact (ext_incl _ _ _ Hsp e Hin). }
    assert (Hcr : In (EvCtxCreated c) (log s)) by apply (I_ctx_get _ _ _ _ (inv_ctx _ _ HI) Erc).
    destruct HC as (C1 & C2). split.
    + intros c' Hn n'. rewrite SI, SR.
      assert (Hne' : c <> c') by (intros <-; apply Hn, Hincl, Hcr).
      destruct (eqb_spec c c'); [contradiction|]. cbn [andb].
      destruct (C1 c' (fun Hin => Hn (Hincl _ Hin)) n'). lia.
    + intros c' rc' G'. destruct (eqb_spec c' c) as [->|Hn].
      * assert (rc' = bump rc (len provs)) by congruence. subst rc'.
        destruct (C2 _ _ Erc) as (A1 & A2 & A3 & A4).
        unfold bump. cbn [c_counter c_breq c_bresp setc_bthr setc_breq setc_bresp setc_bdone setc_counter].
        fold n. rewrite SI, SR, eqb_refl, Z.eqb_refl. cbn [andb].
        destruct (A3 n ltac:(unfold n; lia)) as (Z1 & Z2). split; [lia|]. split; [lia|]. split.
        -- intros n' Hlt. rewrite SI, SR, eqb_refl. cbn [andb].
           destruct (Z.eqb_spec n n'); [lia|]. apply A3. unfold n in Hlt. lia.
        -- intros _. exists (height s). rewrite El. now left.
      * rewrite (t_ctxs _ _ _ Ht) in G' by assumption.
        destruct (C2 _ _ G') as (A1 & A2 & A3 & A4).
        assert (E0 : eqb c c' = false) by (destruct (eqb_spec c c'); [congruence|reflexivity]).
        rewrite SI, SR, E0. cbn [andb]. split; [lia|]. split; [exact A2|]. split.
        -- intros n' Hlt. rewrite SI, SR, E0. cbn [andb]. destruct (A3 n' Hlt). lia.
        -- intros Hc. destruct (A4 Hc) as (h & Hin). exists h. apply Hincl, Hin.
Qed.

Lemma CT_init h0 t0 f : CT (init h0 t0 f).
Proof. split; [intros c _ n; split; reflexivity|intros c rc G; discriminate]. Qed.

Theorem Reach_CT cfg s : wf_cfg cfg -> Reach cfg s -> CT s.
Proof.
  intros Hcfg. apply (Reach_ind_inv cfg CT Hcfg).
  - intros. apply CT_init.
  - intros s0 o s' HI HP Hwf Hne H. eapply CT_msg; eauto.
  - intros s0 c HI HP Hd Hb. now apply CT_expire_one.
  - intros s0 c HI HP Hd Hb. now apply CT_new_one.
  - intros s0 dt _ HP _ _ _. exact HP.
Qed.

(* C12_counts_trace *)
Theorem counts_trace cfg s c rc : wf_cfg cfg -> Reach cfg s -> get c (ctxs s) = Some rc ->
  c_breq rc = count (issue_in c (c_counter rc)) (log s)
  /\ c_bresp rc = count (respond_in c (c_counter rc)) (log s)
  /\ (forall n, c_counter rc < n ->
        count (issue_in c n) (log s) = 0 /\ count (respond_in c n) (log s) = 0)
  /\ (1 <= c_counter rc -> exists h, In (EvBatchStart c (c_counter rc) h (c_breq rc)) (log s)).
Proof.
  intros Hcfg Hr G. destruct (Reach_CT cfg s Hcfg Hr) as (_ & C2).
  destruct (C2 c rc G) as (A1 & A2 & A3 & A4). unfold nissue, nresp in *. auto.
Qed.

(* a context id never used has no issue and no response event *)
Theorem fresh_no_events cfg s c : wf_cfg cfg -> Reach cfg s -> ctx_fresh s c ->
  forall n, count (issue_in c n) (log s) = 0 /\ count (respond_in c n) (log s) = 0.
Proof. intros Hcfg Hr Hf. destruct (Reach_CT cfg s Hcfg Hr) as (C1 & _). exact (C1 c Hf). Qed.

(* ------------------------------------------------------------------ *)
(* B. the cause of the state callback *)

(* the consumer cannot pay for the batch the handler is about to issue *)
Definition funds_short (s : State) (rc : Ctx) : bool :=
  let el := filter_providers s rc (c_provs rc) in
  (0 <? len el) && (c_thr rc <=? len el) && negb (c_super rc)
  && (bal s (User (c_cons rc)) <? sum_prices el).

Definition is_cbstate_any (e : Event) : bool := match e with EvCbState _ => true | _ => false end.

Lemma no_cbstate_issue_evs s c rc n i provs e :
  In e (issue_evs s c rc n i provs) -> is_cbstate_any e = false.
Proof. intros Hin. apply In_issue_evs in Hin. destruct Hin as (j & p & -> & _). reflexivity. Qed.

(* the new-batch handler on a running context below its total: it pauses the context -- and, for a
   module context, invokes the state callback, once -- exactly when the consumer's balance is
   below the sum of the prices of the eligible providers (enough of them, not super mode);
   otherwise it starts (or skips) batch counter + 1, the context stays running, no state callback *)
Theorem state_callback_cause cfg s c rc :
  get c (ctxs s) = Some rc -> c_state rc = Running -> d5 rc = false ->
  if funds_short s rc
  then get c (ctxs (new_one cfg s c)) = Some (paused_ctx rc)
       /\ log (new_one cfg s c) = (if c_mod rc =? 0 then [] else [EvCbState c]) ++ log s
       /\ bank (new_one cfg s c) = bank s
  else exists k d, get c (ctxs (new_one cfg s c)) = Some (bump rc k)
       /\ log (new_one cfg s c) = d ++ log s /\ (forall e, In e d -> is_cbstate_any e = false).
Proof.
  intros Grc Hr Hd. unfold new_one, ctx_or_zero, funds_short. rewrite Grc.
  change (is_state rc Running && c_rep rc && (0 <? c_total rc) && (c_total rc <=? c_counter rc))
    with (d5 rc). rewrite Hd.
  apply is_state_true in Hr. rewrite Hr.
  set (el := filter_providers s rc (c_provs rc)).
  pose proof (sum_prices_nonneg s rc (c_provs rc)) as Hnn. fold el in Hnn.
  assert (Hinit : forall sp dd, ctxs sp = ctxs s -> height sp = height s -> log sp = dd ++ log s ->
     (forall e, In e dd -> is_cbstate_any e = false) ->
     exists k d,
       get c (ctxs (del_newq (add_expq (initiate_requests sp c (map fst el)) c (height s + c_timeout rc)) c (height s)))
        = Some (bump rc k)
       /\ log (del_newq (add_expq (initiate_requests sp c (map fst el)) c (height s + c_timeout rc)) c (height s))
          = d ++ log s /\ (forall e, In e d -> is_cbstate_any e = false)).
  { intros sp dd Ec Eh El Hdd. exists (len (map fst el)).
    exists (EvBatchStart c (c_counter rc + 1) (height s) (len (map fst el))
              :: issue_evs sp c rc (c_counter rc + 1) 0 (map fst el) ++ dd).
    unfold initiate_requests, ctx_or_zero. rewrite Ec, Grc. sproj.
    rewrite issue_all_log, Eh, El. split; [now rewrite get_set_eq|]. split.
    - cbn [app]. now rewrite app_assoc.
    - intros e [<-|Hin]; [reflexivity|]. apply in_app_or in Hin. destruct Hin as [Hin|Hin].
      + eapply no_cbstate_issue_evs; eauto.
      + now apply Hdd. }
  destruct ((0 <? len el) && (c_thr rc <=? len el)) eqn:Ecnt; cbn [andb].
  2:{ exists 0, [EvBatchStart c (c_counter rc + 1) (height s) 0]. unfold skip_batch. sproj.
      split; [now rewrite get_set_eq|]. split; [reflexivity|].
      intros e [<-|[]]. reflexivity. }
  destruct (c_super rc) eqn:Es; cbn [negb andb].
  - apply (Hinit s []); try reflexivity. intros e [].
  - unfold transfer. fold (bal s (User (c_cons rc))).
    assert (E0 : (sum_prices el <? 0) = false) by (apply Z.ltb_ge; lia). rewrite E0. cbn [orb].
    destruct (bal s (User (c_cons rc)) <? sum_prices el) eqn:Eb.
    + unfold on_paused. destruct (c_mod rc =? 0); sproj; rewrite get_set_eq; auto.
    + apply (Hinit _ [EvDebit c (c_cons rc) (sum_prices el)]); try reflexivity.
      intros e [<-|[]]. reflexivity.
Qed.

(* in terms of the number of state callbacks in the log *)
Corollary state_callback_iff_funds_short cfg s c rc :
  get c (ctxs s) = Some rc -> c_state rc = Running -> d5 rc = false ->
  forall c', ncbstate c' (new_one cfg s c)
             = ncbstate c' s + (if eqb c' c && funds_short s rc && negb (c_mod rc =? 0) then 1 else 0).
Proof.
  intros Grc Hr Hd c'. pose proof (state_callback_cause cfg s c rc Grc Hr Hd) as H.
  unfold ncbstate. destruct (funds_short s rc).
  - destruct H as (_ & -> & _). rewrite count_app. destruct (c_mod rc =? 0); cbn [negb].
    + rewrite count_nil, andb_false_r. lia.
    + rewrite count_cons, count_nil. cbn [is_cbstate]. rewrite andb_true_r, andb_true_r.
      destruct (eqb_spec c c'), (eqb_spec c' c); try congruence; lia.
  - destruct H as (k & d & _ & -> & Hd'). rewrite count_app, andb_false_r. cbn [andb].
    assert (Z0 : count (is_cbstate c') d = 0).
    { apply count_zero_notIn. intros e Hin. specialize (Hd' e Hin). destruct e; try reflexivity. discriminate. }
    lia.
Qed.

(* ------------------------------------------------------------------ *)
(* D. the arguments of every response callback found in the log *)

From SVC Require Import Proofs.C12Proofs.

(* the outputs handed to the callback, unfolded: the non-empty outputs of the stored responses
   of the batch *)
Lemma batch_outputs_In s c n o : wf (resps s) ->
  In o (batch_outputs s c n) <->
  o <> 0 /\ exists r x, get r (resps s) = Some x /\ in_batch c n r = true /\ rs_out x = o.
Proof.
  intros Hw. unfold batch_outputs. rewrite filter_In, in_map_iff. split.
  - intros ((r & E & Hin) & Hnz). apply negb_true_iff, Z.eqb_neq in Hnz. split; [exact Hnz|].
    apply isort_In, filter_In in Hin. destruct Hin as (Hk & Hb).
    destruct (in_keys_get _ _ Hk) as (x & G). rewrite G in E. exists r, x. auto.
  - intros (Hnz & r & x & G & Hb & E). split.
    + exists r. rewrite G. split; [exact E|]. apply isort_In, filter_In. split; [|exact Hb].
      eapply get_Some_in; eauto.
    + apply negb_true_iff, Z.eqb_neq. exact Hnz.
Qed.

Lemma len_filter_le {A} (f : A -> bool) l : len (filter f l) <= len l.
Proof. unfold len. induction l as [|a t IH]; cbn [filter length]; [lia|]. destruct (f a); cbn [length]; lia. Qed.

(* at most one output per stored response of the batch *)
Lemma len_batch_outputs_le s c n :
  len (batch_outputs s c n) <= len (filter (in_batch c n) (keys (resps s))).
Proof.
  unfold batch_outputs. eapply Z.le_trans; [apply len_filter_le|].
  unfold len. rewrite map_length. rewrite (Permutation_length (isort_perm rid_leb _)). lia.
Qed.

Lemma stored_resps_count cfg s c rc : Inv cfg s -> I_cnt s -> get c (ctxs s) = Some rc ->
  has c (expq_h s) = true ->
  len (filter (in_batch c (c_counter rc)) (keys (resps s))) = c_bresp rc.
Proof.
  intros HI Hc Grc He. destruct (Hc _ _ Grc He) as (_ & A2).
  destruct (inv_req _ _ HI) as (R1 & R2 & _).
  rewrite len_filter_keys, <- A2. apply msum_ext. intros r x Hin. unfold of_ctx.
  destruct (R2 _ _ Hin) as (q & Gq & _). apply get_In in Gq.
  unfold in_batch. destruct (eqb_spec (rid_ctx r) c) as [E|]; [|reflexivity].
  destruct (R1 _ _ Gq) as (rc' & G & Eb & _). rewrite E in G.
  assert (rc' = rc) by congruence. subst rc'. rewrite Eb. cbn [andb]. now rewrite Z.eqb_refl.
Qed.

(* what is known about the moment a response callback was made: s0 is the state (satisfying the
   invariant) in which the completing operation started -- the last response of the batch, or the
   expiry handler of the context --, rc the record of the context then, d the events since *)
Definition cb_witness (cfg : Params) (l : list Event) (c : CtxId) (n : Z) (outs : list Z) (err : bool) : Prop :=
  exists s0 rc d,
    Inv cfg s0 /\ l = d ++ log s0
    /\ get c (ctxs s0) = Some rc /\ c_counter rc = n /\ 1 <= n /\ c_mod rc <> 0 /\ c_bdone rc = false
    /\ has c (expq_h s0) = true
    (* the batch was started with c_breq rc requests, all issued *)
    /\ (exists h, In (EvBatchStart c n h (c_breq rc)) (log s0))
    /\ c_breq rc = count (issue_in c n) (log s0)
    (* the responses accepted so far for this batch are all stored, and counted *)
    /\ len (filter (in_batch c n) (keys (resps s0))) = c_bresp rc
    /\ c_bresp rc = count (respond_in c n) (log s0)
    (* the error flag: fewer outputs than the threshold copied when the batch started *)
    /\ err = (len outs <? c_bthr rc)
    /\ ((* the last response arrives: its output is included *)
        (exists r q who code out,
           get r (reqs s0) = Some q /\ r_active q = true /\ who = r_prov q
           /\ in_batch c n r = true /\ get r (resps s0) = None
           /\ c_bresp rc + 1 = c_breq rc /\ In (EvRespond r) d
           /\ outs = batch_outputs (set_resps s0 (set r (mkResp who (c_cons rc) code out) (resps s0))) c n)
        \/ (* the batch expires *)
        (In (height s0, c) (expq s0) /\ outs = batch_outputs s0 c n)).

Lemma cb_witness_mono cfg l d' c n outs err :
  cb_witness cfg l c n outs err -> cb_witness cfg (d' ++ l) c n outs err.
Proof.
  intros (s0 & rc & d & A1 & -> & A3 & A4 & A5 & A6 & A7 & A8 & A9 & A10 & A11 & A12 & A13 & A).
  exists s0, rc, (d' ++ d). split; [exact A1|]. split; [now rewrite app_assoc|].
  do 11 (split; [assumption|]).
  destruct A as [(r & q & who & code & out & B1 & B2 & B3 & B4 & B5 & B6 & B7 & B8)|B]; [left|right; exact B].
  exists r, q, who, code, out. repeat (split; [assumption|]). split; [|exact B8].
  apply in_or_app. now right.
Qed.

Definition CB (cfg : Params) (s : State) : Prop :=
  forall c n outs err, In (EvCbResp c n outs err) (log s) -> cb_witness cfg (log s) c n outs err.

Definition PB (cfg : Params) (s : State) : Prop := I_started s /\ I_cnt s /\ CT s /\ CB cfg s.

Lemma In_blog e s : tracked e = true -> (In e (log s) <-> In e (blog s)).
Proof. intros Ht. unfold blog. rewrite filter_In. tauto. Qed.

Lemma In_done_events_cb c0 rc0 outs0 c n outs err :
  In (EvCbResp c n outs err) (done_events c0 rc0 outs0) ->
  c = c0 /\ n = c_counter rc0 /\ outs = outs0 /\ err = (len outs0 <? c_bthr rc0) /\ c_mod rc0 <> 0.
Proof.
  unfold done_events. intros [E|Hin]; [discriminate E|].
  destruct (c_mod rc0 =? 0) eqn:Em; [destruct Hin|].
  destruct Hin as [E|[]]. injection E as <- <- <- <-. apply Z.eqb_neq in Em. auto.
Qed.

(* the facts of the witness that only depend on the pre-state *)
Lemma witness_core cfg s c rc :
  Inv cfg s -> I_started s -> I_cnt s -> CT s -> get c (ctxs s) = Some rc -> has c (expq_h s) = true ->
  1 <= c_counter rc
  /\ (exists h, In (EvBatchStart c (c_counter rc) h (c_breq rc)) (log s))
  /\ c_breq rc = count (issue_in c (c_counter rc)) (log s)
  /\ len (filter (in_batch c (c_counter rc)) (keys (resps s))) = c_bresp rc
  /\ c_bresp rc = count (respond_in c (c_counter rc)) (log s).
Proof.
  intros HI Hst Hcnt (_ & C2) Grc He. pose proof (Hst _ _ Grc He) as H1.
  destruct (C2 _ _ Grc) as (A1 & A2 & _ & A4).
  split; [exact H1|]. split; [exact (A4 H1)|]. split; [symmetry; exact A1|].
  split; [eapply stored_resps_count; eauto|symmetry; exact A2].
Qed.

Lemma CB_msg cfg s o s' :
  wf_cfg cfg -> Inv cfg s -> PB cfg s -> wf_op s o -> (forall dt, o <> OEndBlock dt) ->
  handle cfg s o = Ok s' -> CB cfg s'.
Proof.
  intros Hcfg HI (Hst & Hcnt & HC & HB) Hwf Hne H c n outs err Hin.
  assert (Hold : forall d, log s' = d ++ log s -> In (EvCbResp c n outs err) (log s) ->
                 cb_witness cfg (log s') c n outs err).
  { intros d E Hin0. rewrite E. apply cb_witness_mono. now apply HB. }
  apply (In_blog (EvCbResp c n outs err) s' eq_refl) in Hin.
  assert (Hother : (forall r who code out ov ok, o <> ORespond r who code out ov ok) ->
                   cb_witness cfg (log s') c n outs err).
  { intros Hnr. destruct (msg_nir _ _ _ _ H Hne Hnr) as (d & E & _).
    apply (Hold d E), (In_blog (EvCbResp c n outs err) s eq_refl).
    destruct (C12_callback_msg_other _ _ _ _ Hcfg HI Hwf Hne H Hnr) as [Eb|(c1 & Eb)]; rewrite Eb in Hin.
    - exact Hin.
    - destruct Hin as [E1|Hin]; [discriminate E1|exact Hin]. }
  destruct o; try (apply Hother; intros; discriminate).
  cbn [handle] in H.
  destruct (respond_log _ _ _ _ _ _ _ _ _ H) as (d1 & d2 & El & _ & _).
  destruct (respond_blog _ _ _ _ _ _ _ _ _ Hcfg HI H) as (rc & Grc & Eb).
  rewrite Eb in Hin. apply in_app_or in Hin. destruct Hin as [Hin|Hin].
  2:{ apply (Hold (d1 ++ EvRespond r :: d2)); [rewrite El, <- app_assoc; reflexivity|].
      apply (In_blog (EvCbResp c n outs err) s eq_refl), Hin. }
  destruct (c_bresp rc + 1 =? c_breq rc) eqn:Ecomp; [|destruct Hin].
  apply In_done_events_cb in Hin. destruct Hin as (-> & -> & -> & -> & Hm).
  destruct (respond_exact _ _ _ _ _ _ _ _ _ Hcfg HI H)
    as (q & rc0 & Gq & Hact & Hwho & Grc0 & Gexp & Hnd & Hb & Gnone & _).
  assert (rc0 = rc) by congruence. subst rc0.
  destruct (inv_req _ _ HI) as (R1 & _).
  destruct (R1 _ _ (get_In _ _ _ Gq)) as (rc0 & Grc0' & Ebt & _).
  assert (rc0 = rc) by congruence. subst rc0.
  assert (He : has (rid_ctx r) (expq_h s) = true) by (unfold has; now rewrite Gexp).
  destruct (witness_core cfg s _ rc HI Hst Hcnt HC Grc He) as (W1 & W2 & W3 & W4 & W5).
  exists s, rc, (d1 ++ EvRespond r :: d2). split; [exact HI|].
  split; [rewrite El, <- app_assoc; reflexivity|]. split; [exact Grc|].
  split; [reflexivity|]. split; [exact W1|]. split; [exact Hm|]. split; [exact Hnd|]. split; [exact He|].
  split; [exact W2|]. split; [exact W3|]. split; [exact W4|]. split; [exact W5|].
  split; [reflexivity|]. left. exists r, q, who, code, out.
  split; [exact Gq|]. split; [exact Hact|]. split; [exact Hwho|].
  split; [apply in_batch_true; auto|]. split; [exact Gnone|]. split; [now apply Z.eqb_eq|].
  split; [apply in_or_app; right; now left|reflexivity].
Qed.

Lemma CB_expire_one cfg s c0 :
  wf_cfg cfg -> Inv cfg s -> PB cfg s -> In (height s, c0) (expq s) -> height s < HEIGHT_BOUND ->
  CB cfg (expire_one cfg s c0).
Proof.
  intros Hcfg HI (Hst & Hcnt & HC & HB) Hdue Hb c n outs err Hin.
  destruct (expire_one_spec cfg s c0 Hcfg HI Hdue Hb) as (rc & rc1 & Grc & Gexp & _).
  destruct (nir_expire_one cfg s c0) as (d & El & _).
  assert (Hold : In (EvCbResp c n outs err) (log s) -> cb_witness cfg (log (expire_one cfg s c0)) c n outs err).
  { intros Hin0. rewrite El. apply cb_witness_mono. now apply HB. }
  apply (In_blog (EvCbResp c n outs err) _ eq_refl) in Hin. rewrite (expire_one_blog cfg s c0 rc HI Grc) in Hin.
  apply in_app_or in Hin. destruct Hin as [Hin|Hin].
  { destruct (fin_b rc); [destruct Hin as [E|[]]; discriminate E|destruct Hin]. }
  apply in_app_or in Hin. destruct Hin as [Hin|Hin]; [|apply Hold, (In_blog (EvCbResp c n outs err) s eq_refl), Hin].
  destruct (c_bdone rc) eqn:Hnd; [destruct Hin|].
  apply In_done_events_cb in Hin. destruct Hin as (-> & -> & -> & -> & Hm).
  assert (He : has c0 (expq_h s) = true) by (unfold has; now rewrite Gexp).
  destruct (witness_core cfg s _ rc HI Hst Hcnt HC Grc He) as (W1 & W2 & W3 & W4 & W5).
  exists s, rc, d. split; [exact HI|]. split; [exact El|]. split; [exact Grc|].
  split; [reflexivity|]. split; [exact W1|]. split; [exact Hm|]. split; [exact Hnd|]. split; [exact He|].
  split; [exact W2|]. split; [exact W3|]. split; [exact W4|]. split; [exact W5|].
  split; [reflexivity|]. right. auto.
Qed.

Lemma new_one_suffix cfg s c rc : wf (ctxs s) -> get c (ctxs s) = Some rc ->
  exists d, log (new_one cfg s c) = d ++ log s.
Proof.
  intros Wc Grc. destruct (new_one_full cfg s c rc Wc Grc) as [((d & E & _) & _)|(sp & provs & (d & E & _) & El & _)].
  - now exists d.
  - eexists. rewrite El, E, app_comm_cons, app_assoc. reflexivity.
Qed.

Lemma CB_new_one cfg s c0 :
  wf_cfg cfg -> Inv cfg s -> PB cfg s -> In (height s, c0) (newq s) -> height s < HEIGHT_BOUND ->
  CB cfg (new_one cfg s c0).
Proof.
  intros Hcfg HI (Hst & Hcnt & HC & HB) Hdue Hb c n outs err Hin.
  destruct (new_one_spec cfg s c0 HI Hdue) as (rc & Grc & _).
  destruct (Inv_wf_sched _ _ HI) as (Wc & _).
  destruct (new_one_suffix cfg s c0 rc Wc Grc) as (d & El).
  rewrite El. apply cb_witness_mono. apply HB.
  apply (In_blog (EvCbResp c n outs err) _ eq_refl) in Hin. apply (In_blog (EvCbResp c n outs err) s eq_refl).
  destruct (new_one_blog cfg s c0 rc Grc)
    as [(_ & Eb)|[(_ & _ & k & Eb & _)|[(_ & _ & Eb & _)|(_ & Eb & _)]]]; rewrite Eb in Hin.
  - destruct Hin as [E|Hin]; [discriminate E|exact Hin].
  - destruct Hin as [E|Hin]; [discriminate E|exact Hin].
  - apply in_app_or in Hin. destruct Hin as [Hin|Hin]; [|exact Hin].
    destruct (c_mod rc =? 0); [destruct Hin|destruct Hin as [E|[]]; discriminate E].
  - exact Hin.
Qed.

Theorem Reach_PB cfg s : wf_cfg cfg -> Reach cfg s -> PB cfg s.
Proof.
  intros Hcfg. apply (Reach_ind_inv cfg (PB cfg) Hcfg).
  - intros h0 t0 f _ _ _. split; [intros c rc G; discriminate|]. split; [apply I_cnt_init|].
    split; [apply CT_init|]. intros c n outs err [].
  - intros s0 o s' HI HP Hwf Hne H. pose proof HP as (P0 & P1 & P2 & P3).
    split; [eapply I_started_msg; eauto|]. split; [eapply I_cnt_msg; eauto|].
    split; [eapply CT_msg; eauto|eapply CB_msg; eauto].
  - intros s0 c HI HP Hd Hb. pose proof HP as (P0 & P1 & P2 & P3).
    split; [now apply I_started_expire_one|]. split; [now apply I_cnt_expire_one|].
    split; [now apply CT_expire_one|now apply CB_expire_one].
  - intros s0 c HI HP Hd Hb. pose proof HP as (P0 & P1 & P2 & P3).
    split; [now apply I_started_new_one|]. split; [now apply I_cnt_new_one|].
    split; [now apply CT_new_one|now apply CB_new_one].
  - intros s0 dt _ HP _ _ _. exact HP.
Qed.

(* C12_callback_args *)
Theorem callback_args cfg s c n outs err : wf_cfg cfg -> Reach cfg s ->
  In (EvCbResp c n outs err) (log s) -> cb_witness cfg (log s) c n outs err.
Proof. intros Hcfg Hr. destruct (Reach_PB cfg s Hcfg Hr) as (_ & _ & _ & HB). apply HB. Qed.

Lemma count_In_pos {A} (f : A -> bool) l a : In a l -> f a = true -> 1 <= count f l.
Proof. intros Hin Hf. apply count_pos_In. eauto. Qed.

(* consequences that do not mention the witness state: the callback of batch n of context c comes
   after the start of batch n, which announced k requests; it carries only non-empty outputs, at
   most one per response accepted for the batch and hence at most k, and k requests had been
   issued *)
Theorem callback_args_log cfg s c n outs err : wf_cfg cfg -> Reach cfg s ->
  In (EvCbResp c n outs err) (log s) ->
  (forall o, In o outs -> o <> 0)
  /\ len outs <= count (respond_in c n) (log s)
  /\ exists h k, In (EvBatchStart c n h k) (log s)
       /\ len outs <= k /\ k <= count (issue_in c n) (log s).
Proof.
  intros Hcfg Hr Hin.
  destruct (callback_args cfg s c n outs err Hcfg Hr Hin)
    as (s0 & rc & d & HI & El & Grc & En & Hn1 & Hm & Hnd & He & (h & Hst) & Hiss & Hsto & Hre & Herr & Hcase).
  pose proof (inv_wf _ _ HI) as W. assert (Wp : wf (resps s0)) by apply W.
  destruct (inv_req _ _ HI) as (_ & _ & R3). destruct (R3 _ _ Grc) as (B1 & _).
  assert (Hmono : forall f, count f (log s0) <= count f (log s)).
  { intros f. rewrite El, count_app. pose proof (count_nonneg f d). lia. }
  assert (Hmain : (forall o, In o outs -> o <> 0)
                  /\ len outs <= count (respond_in c n) (log s) /\ len outs <= c_breq rc).
  { destruct Hcase as [(r & q & who & code & out & G1 & G2 & G3 & G4 & G5 & G6 & G7 & ->)|(_ & ->)].
    - set (sx := set_resps s0 (set r (mkResp who (c_cons rc) code out) (resps s0))).
      assert (Wx : wf (resps sx)) by (unfold sx; sproj; now apply wf_set).
      split; [intros o Ho; apply (batch_outputs_In sx c n o Wx) in Ho; tauto|].
      assert (Hlen : len (batch_outputs sx c n) <= c_bresp rc + 1).
      { eapply Z.le_trans; [apply len_batch_outputs_le|]. unfold sx. sproj.
        rewrite keys_set_notin by (apply get_None_notin; exact G5).
        rewrite filter_app. unfold len in *. rewrite app_length. cbn [filter]. rewrite G4. cbn [length]. lia. }
      split; [|lia].
      rewrite El, count_app.
      pose proof (count_In_pos (respond_in c n) d (EvRespond r) G7 G4). unfold len in *. lia.
    - split; [intros o Ho; apply (batch_outputs_In s0 c n o Wp) in Ho; tauto|].
      pose proof (len_batch_outputs_le s0 c n). pose proof (Hmono (respond_in c n)). split; lia. }
  destruct Hmain as (M1 & M2 & M3).
  split; [exact M1|]. split; [exact M2|]. exists h, (c_breq rc).
  split; [rewrite El; apply in_or_app; now right|]. split; [exact M3|].
  rewrite Hiss. apply Hmono.
Qed.

(* ------------------------------------------------------------------ *)
(* the hypotheses are satisfiable: the histories of Proofs/BatchEx.v *)
From SVC Require Import Proofs.ReachRun Proofs.BatchEx.

Module ExG.
  Import BEx.

  (* s_x: after the expiry block of height 6; the callback of c1's batch 1 is in the log *)
  Example callback_in_log : In (EvCbResp c1 1 [1; 2] false) (log s_x).
  Proof. vm_compute. auto 20. Qed.

  Example callback_args_ex : cb_witness cfg0 (log s_x) c1 1 [1; 2] false.
  Proof. exact (callback_args cfg0 s_x c1 1 [1; 2] false wf_cfg0 reach_x callback_in_log). Qed.

  (* s_e: batch 1 of c1 in flight, 3 requests issued, 2 answered *)
  Example counts_trace_ex :
    exists rc, get c1 (ctxs s_e) = Some rc /\ c_counter rc = 1 /\ c_breq rc = 3 /\ c_bresp rc = 2
      /\ count (issue_in c1 1) (log s_e) = 3 /\ count (respond_in c1 1) (log s_e) = 2.
  Proof. eexists. split; [vm_compute; reflexivity|]. repeat split; vm_compute; reflexivity. Qed.

  (* s_n3: the consumer of the module context c2 cannot pay for batch 3 *)
  Example funds_short_ex :
    exists rc, get c2 (ctxs s_n3) = Some rc /\ c_state rc = Running /\ d5 rc = false
      /\ funds_short s_n3 rc = true /\ c_mod rc <> 0.
  Proof. eexists. split; [vm_compute; reflexivity|]. repeat split; try (vm_compute; reflexivity). discriminate. Qed.
End ExG.
