(* C13, the bridge from byte keys to the model's exact maps.
   The model keys `earned`, `own_earned` by address atoms and keeps `own_prov` as a list of
   (owner, provider) pairs: every read is an exact lookup / filter.  The code stores these records
   under byte keys (types/keys.go) and reads them back with PREFIX SCANS (keeper/fees.go,
   keeper/binding.go).  This file states once, generically, when a prefix scan over the byte
   rendering of an atom-keyed map is the rendering of a filter of the map (scan_render), and
   instantiates it with the generated key functions (gen/KeysGen.v) and the key theorems of
   Proofs/KProofs.v (C18) for the three reads of WithdrawEarnedFees:
     - earned fees of a provider   (0x18 || provider || denom; subspace scan + exact-key filter);
     - providers of an owner       (0x05 || owner || provider; subspace scan, key[21:] = provider);
     - earned fees of an owner     (0x19 || owner; subspace scan).
   The side conditions are the ones of C18 and are visible in the statements: one denomination,
   an injective rendering of addresses, and 20-byte OWNER addresses (K5) for the two owner scans;
   PROVIDER addresses may have any lengths, one may be a byte-prefix of another. *)
From Coq Require Import List NArith ZArith Bool Lia.
From SVC Require Import Base.AMap Base.Bytes gen.KeysGen Proofs.KProofs
  Base.Res Base.Dec Model.Types Model.Pricing Model.Handlers Model.EndBlock Model.Step
  Proofs.Inv Proofs.Lemmas Proofs.InvAll.
Import ListNotations.

(* ------------------------------------------------------------------ *)
(* byte-string equality *)

Fixpoint bytes_eqb (a b : bytes) : bool :=
  match a, b with
  | [], [] => true
  | x :: a', y :: b' => N.eqb x y && bytes_eqb a' b'
  | _, _ => false
  end.

Lemma bytes_eqb_spec a b : bytes_eqb a b = true <-> a = b.
Proof.
  revert b. induction a as [|x a IH]; intros [|y b]; cbn [bytes_eqb]; try (split; [discriminate|discriminate]).
  - split; reflexivity.
  - rewrite andb_true_iff, N.eqb_eq, IH. split; [intros [-> ->]; reflexivity|intros E; injection E; auto].
Qed.

(* ------------------------------------------------------------------ *)
(* the generic bridge *)

Section Bridge.
  Context {K V : Type}.
  Variable enc : K -> bytes.

  (* the byte store holding the records of m under rendered keys *)
  Definition render (m : list (K * V)) : list (bytes * V) := map (fun kv => (enc (fst kv), snd kv)) m.

  (* a prefix scan that keeps the records accepted by `acc` (e.g. the exact-key filter of GetEarnedFees) *)
  Definition scan (pre : bytes) (acc : bytes -> V -> bool) (st : list (bytes * V)) : list (bytes * V) :=
    filter (fun kv => is_prefixb pre (fst kv) && acc (fst kv) (snd kv)) st.

  (* what is left when every scanned record is deleted (store keys are unique: render_keys_NoDup) *)
  Definition unscanned (pre : bytes) (acc : bytes -> V -> bool) (st : list (bytes * V)) : list (bytes * V) :=
    filter (fun kv => negb (is_prefixb pre (fst kv) && acc (fst kv) (snd kv))) st.

  (* if, on the records of m, "has the prefix and is accepted" is the atom-level predicate sel,
     the scan is the rendering of the filter *)
  Theorem scan_render pre acc (sel : K -> bool) m :
    (forall k v, In (k, v) m -> is_prefixb pre (enc k) && acc (enc k) v = sel k) ->
    scan pre acc (render m) = render (filter (fun kv => sel (fst kv)) m)
    /\ unscanned pre acc (render m) = render (filter (fun kv => negb (sel (fst kv))) m).
  Proof.
    unfold scan, unscanned, render. induction m as [|[k v] t IH]; intros Hs; [split; reflexivity|].
    cbn [map filter fst snd]. rewrite (Hs k v) by now left.
    destruct IH as (IH1 & IH2); [intros k' v' Hin; apply Hs; now right|].
    destruct (sel k); cbn [negb map fst snd]; rewrite IH1, IH2; split; reflexivity.
  Qed.

  (* an injective rendering of the keys of a map gives a byte store without duplicate keys *)
  Theorem render_keys_NoDup m :
    (forall k k', In k (map fst m) -> In k' (map fst m) -> enc k = enc k' -> k = k') ->
    NoDup (map fst m) -> NoDup (map fst (render m)).
  Proof.
    unfold render. rewrite map_map. cbn [fst].
    induction m as [|[k v] t IH]; cbn [map fst]; intros Hinj Hn; [constructor|].
    inversion Hn as [|? ? Hni Hn']; subst. constructor.
    - intros Hin. apply in_map_iff in Hin. destruct Hin as ([k' v'] & E & Hin). cbn [fst] in E.
      apply Hni. assert (k' = k).
      { apply Hinj; [right; apply in_map_iff; exists (k', v'); auto|now left|exact E]. }
      subst k'. apply in_map_iff. exists (k, v'). auto.
    - apply IH; [|exact Hn']. intros a b Ha Hb. apply Hinj; now right.
  Qed.
End Bridge.

(* exact lookups and deletions of an association map, as filters *)
Lemma filter_key_none {K V} `{EqDec K} (p : K) (m : amap K V) :
  ~ In p (keys m) -> filter (fun kv => eqb (fst kv) p) m = [].
Proof.
  induction m as [|[k v] t IH]; cbn [filter keys map fst]; intros Hn; [reflexivity|].
  destruct (eqb_spec k p) as [->|Hne]; [exfalso; apply Hn; now left|].
  apply IH. intros Hin. apply Hn. now right.
Qed.

Lemma filter_key_get {K V} `{EqDec K} (p : K) (m : amap K V) : wf m ->
  filter (fun kv => eqb (fst kv) p) m = match get p m with Some v => [(p, v)] | None => [] end.
Proof.
  induction m as [|[k v] t IH]; intros Hw; [reflexivity|]. cbn [filter get fst].
  inversion Hw as [|? ? Hni Hn]; subst.
  destruct (eqb_spec k p) as [->|Hne].
  - rewrite eqb_refl. now rewrite (filter_key_none p t Hni).
  - destruct (eqb_spec p k) as [E|_]; [congruence|]. now apply IH.
Qed.

Lemma filter_notkey_all {K V} `{EqDec K} (p : K) (m : amap K V) :
  ~ In p (keys m) -> filter (fun kv => negb (eqb (fst kv) p)) m = m.
Proof.
  induction m as [|[k v] t IH]; cbn [filter keys map fst]; intros Hn; [reflexivity|].
  destruct (eqb_spec k p) as [->|Hne]; [exfalso; apply Hn; now left|]. cbn [negb].
  f_equal. apply IH. intros Hin. apply Hn. now right.
Qed.

Lemma filter_notkey_del {K V} `{EqDec K} (p : K) (m : amap K V) : wf m ->
  filter (fun kv => negb (eqb (fst kv) p)) m = del p m.
Proof.
  induction m as [|[k v] t IH]; intros Hw; [reflexivity|]. cbn [filter del fst].
  inversion Hw as [|? ? Hni Hn]; subst.
  destruct (eqb_spec k p) as [->|Hne]; cbn [negb].
  - rewrite eqb_refl. now apply filter_notkey_all.
  - destruct (eqb_spec p k) as [E|_]; [congruence|]. now rewrite IH.
Qed.

(* ------------------------------------------------------------------ *)
(* instance 1: the earned fees of a provider (GetEarnedFees / DeleteEarnedFees of keeper/fees.go) *)

Section Earned.
  (* the byte address of an address atom; the single fee denomination *)
  Variable addr : Z -> bytes.
  Variable denom : bytes.
  Hypothesis addr_inj : forall a b, addr a = addr b -> a = b.

  Definition earned_key (p : Z) : bytes := GetEarnedFeesKey (addr p) denom.
  (* the filter of the loop body: the key equals the key of this provider for the record's denom *)
  Definition earned_acc (p : Z) (key : bytes) (_ : Z) : bool := bytes_eqb key (GetEarnedFeesKey (addr p) denom).

  Lemma earned_sel p k v :
    is_prefixb (GetEarnedFeesSubspace (addr p)) (earned_key k) && earned_acc p (earned_key k) v = eqb k p.
  Proof.
    unfold earned_key, earned_acc.
    destruct (eqb_spec k p) as [->|Hne].
    - apply andb_true_intro. split; [apply is_prefixb_spec|now apply bytes_eqb_spec].
      apply (K_scan_exact_earned (addr p) (addr p) denom). reflexivity.
    - apply andb_false_iff. right. apply not_true_iff_false. intros E. apply bytes_eqb_spec in E.
      apply Hne, addr_inj. symmetry.
      apply (K_scan_exact_earned (addr p) (addr k) denom). split; [|exact E].
      rewrite E. apply (K_scan_exact_earned (addr p) (addr p) denom). reflexivity.
  Qed.

  (* provider addresses of ANY lengths, prefix-related or not: the scan of the provider's subspace
     with the exact-key filter reads exactly the provider's record, and deleting what it reads
     deletes exactly that record *)
  Theorem scan_is_lookup_earned (m : amap Z Z) p : wf m ->
    scan (GetEarnedFeesSubspace (addr p)) (earned_acc p) (render earned_key m)
    = match get p m with Some v => [(earned_key p, v)] | None => [] end
    /\ unscanned (GetEarnedFeesSubspace (addr p)) (earned_acc p) (render earned_key m)
       = render earned_key (del p m).
  Proof.
    intros Hw.
    destruct (scan_render earned_key (GetEarnedFeesSubspace (addr p)) (earned_acc p)
                (fun k => eqb k p) m) as (S1 & S2); [intros k v _; apply earned_sel|].
    rewrite S1, S2, (filter_key_get p m Hw), (filter_notkey_del p m Hw).
    split; [destruct (get p m); reflexivity|reflexivity].
  Qed.

  (* the byte store is a map: no two providers share a key (one denomination) *)
  Theorem earned_store_keys_NoDup (m : amap Z Z) : wf m -> NoDup (map fst (render earned_key m)).
  Proof.
    intros Hw. apply render_keys_NoDup; [|exact Hw]. intros k k' _ _ E. unfold earned_key in E.
    apply addr_inj. symmetry.
    apply (K_scan_exact_earned (addr k') (addr k) denom). split; [|exact E].
    rewrite E. apply (K_scan_exact_earned (addr k') (addr k') denom). reflexivity.
  Qed.
End Earned.

(* without the exact-key filter the scan is NOT a lookup when one provider address is a prefix of
   another: the raw subspace scan of the shorter address also returns the longer one's record
   (this was defect D6 of the code, repaired by the filter) *)
Theorem scan_earned_raw_refuted :
  exists (addr : Z -> bytes) (denom : bytes) (m : amap Z Z) (p : Z),
    (forall a b, In a (keys m) -> In b (keys m) -> addr a = addr b -> a = b) /\ wf m
    /\ scan (GetEarnedFeesSubspace (addr p)) (fun _ _ => true)
         (render (fun q => GetEarnedFeesKey (addr q) denom) m)
       <> match get p m with
          | Some v => [(GetEarnedFeesKey (addr p) denom, v)]
          | None => []
          end.
Proof.
  exists (fun a => if Z.eqb a 1 then repeat 7%N 19%nat else repeat 7%N 20%nat), [115%N], [(1%Z, 5%Z); (2%Z, 6%Z)], 1%Z.
  split.
  { intros a b Ha Hb E. cbn in Ha, Hb.
    destruct Ha as [<-|[<-|[]]], Hb as [<-|[<-|[]]]; try reflexivity; vm_compute in E; discriminate E. }
  split; [repeat constructor; cbn; intuition discriminate|].
  vm_compute. discriminate.
Qed.

(* ------------------------------------------------------------------ *)
(* instance 2: the providers of an owner (OwnerProvidersIterator; key[AddrLen+1:] is the provider) *)

Section OwnerProviders.
  Variable addr : Z -> bytes.
  Hypothesis addr_inj : forall a b, addr a = addr b -> a = b.

  Definition op_key (op : Z * Z) : bytes := GetOwnerProviderKey (addr (fst op)) (addr (snd op)).

  (* K5: owner addresses are 20 bytes; provider addresses are arbitrary *)
  Lemma op_sel o (op : Z * Z) :
    length (addr o) = 20%nat -> length (addr (fst op)) = 20%nat ->
    is_prefixb (GetOwnerProvidersSubspace (addr o)) (op_key op) = Z.eqb (fst op) o.
  Proof.
    intros Hl Hl'. unfold op_key. destruct (Z.eqb_spec (fst op) o) as [->|Hne].
    - apply is_prefixb_spec. apply (K_scan_exact_owner_providers_20 _ _ _ Hl Hl). reflexivity.
    - apply not_true_iff_false. intros E. apply is_prefixb_spec in E.
      apply (K_scan_exact_owner_providers_20 _ _ _ Hl Hl') in E. apply Hne, addr_inj. now symmetry.
  Qed.

  (* the provider is recovered by dropping the family byte and the 20 bytes of the owner *)
  Lemma op_key_decode (op : Z * Z) : length (addr (fst op)) = 20%nat -> skipn 21%nat (op_key op) = addr (snd op).
  Proof.
    intros Hl. unfold op_key. kred. change 21%nat with (S 20). rewrite skipn_cons.
    rewrite skipn_app, <- Hl, skipn_all, Nat.sub_diag. reflexivity.
  Qed.

  (* the scan of the owner's subspace over the rendered index yields, after decoding, exactly the
     byte addresses of  map snd (filter (fun op => fst op =? owner) own_prov)  -- the provider list
     h_withdraw uses (Handlers.v) *)
  Theorem scan_owner_providers (l : list (Z * Z)) owner :
    length (addr owner) = 20%nat -> (forall op, In op l -> length (addr (fst op)) = 20%nat) ->
    map (fun kv => skipn 21%nat (fst kv))
        (scan (GetOwnerProvidersSubspace (addr owner)) (fun _ _ => true)
              (render op_key (map (fun op => (op, tt)) l)))
    = map addr (map snd (filter (fun op => Z.eqb (fst op) owner) l)).
  Proof.
    intros Hl Hall.
    destruct (scan_render op_key (GetOwnerProvidersSubspace (addr owner)) (fun _ (_ : unit) => true)
                (fun op => Z.eqb (fst op) owner) (map (fun op => (op, tt)) l)) as (S1 & _).
    { intros op v Hin. rewrite andb_true_r. apply op_sel; [exact Hl|].
      apply in_map_iff in Hin. destruct Hin as (op' & E & Hin). injection E as <- _. now apply Hall. }
    rewrite S1. clear S1. induction l as [|op t IH]; [reflexivity|]. cbn [map filter fst snd].
    destruct (Z.eqb (fst op) owner) eqn:E; cbn [map fst snd render].
    - unfold render in IH. rewrite IH by (intros; apply Hall; now right).
      rewrite op_key_decode by (apply Hall; now left). reflexivity.
    - apply IH. intros; apply Hall; now right.
  Qed.
End OwnerProviders.

(* the K5 hypothesis is needed: with an owner address that is a byte-prefix of another owner's,
   the subspace scan of the shorter one also returns the entries of the longer one *)
Theorem scan_owner_providers_refuted :
  exists (addr : Z -> bytes) (l : list (Z * Z)) (owner : Z),
    (forall a b, a <> b -> In a [1%Z; 2%Z; 3%Z] -> In b [1%Z; 2%Z; 3%Z] -> addr a <> addr b)
    /\ length (scan (GetOwnerProvidersSubspace (addr owner)) (fun _ _ => true)
                 (render (fun op => GetOwnerProviderKey (addr (fst op)) (addr (snd op)))
                    (map (fun op => (op, tt)) l)))
       <> length (filter (fun op => Z.eqb (fst op) owner) l).
Proof.
  exists (fun a => if Z.eqb a 1 then repeat 7%N 19%nat else if Z.eqb a 2 then repeat 7%N 20%nat else repeat 9%N 20%nat),
         [(1%Z, 3%Z); (2%Z, 3%Z)], 1%Z.
  split.
  - intros a b Hne Ha Hb E. cbn in Ha, Hb.
    destruct Ha as [<-|[<-|[<-|[]]]], Hb as [<-|[<-|[<-|[]]]]; try (now apply Hne); vm_compute in E; discriminate E.
  - vm_compute. discriminate.
Qed.

(* ------------------------------------------------------------------ *)
(* instance 3: the earned fees of an owner (GetOwnerEarnedFees / DeleteOwnerEarnedFees) *)

Section OwnerEarned.
  Variable addr : Z -> bytes.
  Variable denom : bytes.
  Hypothesis addr_inj : forall a b, addr a = addr b -> a = b.

  (* the key ignores the denomination (C18_K_owner_earned_ignores_denom): one record per owner *)
  Definition oe_key (o : Z) : bytes := GetOwnerEarnedFeesKey (addr o) denom.

  Theorem scan_is_lookup_owner_earned (m : amap Z Z) o :
    wf m -> length (addr o) = 20%nat -> (forall k v, In (k, v) m -> length (addr k) = 20%nat) ->
    scan (GetOwnerEarnedFeesSubspace (addr o)) (fun _ _ => true) (render oe_key m)
    = match get o m with Some v => [(oe_key o, v)] | None => [] end
    /\ unscanned (GetOwnerEarnedFeesSubspace (addr o)) (fun _ _ => true) (render oe_key m)
       = render oe_key (del o m).
  Proof.
    intros Hw Hl Hall.
    destruct (scan_render oe_key (GetOwnerEarnedFeesSubspace (addr o)) (fun _ (_ : Z) => true)
                (fun k => eqb k o) m) as (S1 & S2).
    { intros k v Hin. rewrite andb_true_r. unfold oe_key. destruct (eqb_spec k o) as [->|Hne].
      - apply is_prefixb_spec. apply (K_scan_exact_owner_earned_20 _ _ denom Hl Hl). reflexivity.
      - apply not_true_iff_false. intros E. apply is_prefixb_spec in E.
        apply (K_scan_exact_owner_earned_20 _ _ denom Hl (Hall k v Hin)) in E.
        apply Hne, addr_inj. now symmetry. }
    rewrite S1, S2, (filter_key_get o m Hw), (filter_notkey_del o m Hw).
    split; [destruct (get o m); reflexivity|reflexivity].
  Qed.
End OwnerEarned.

(* ------------------------------------------------------------------ *)
(* the three reads of WithdrawEarnedFees on a reachable state *)

Theorem withdraw_reads_exact cfg s (addr : Z -> bytes) (denom : bytes) owner prov :
  wf_cfg cfg -> Reach cfg s ->
  (forall a b, addr a = addr b -> a = b) -> (forall a, length (addr a) = 20%nat) ->
  (* GetEarnedFees(provider) = the model's  get prov (earned s) *)
  scan (GetEarnedFeesSubspace (addr prov)) (earned_acc addr denom prov) (render (earned_key addr denom) (earned s))
  = match get prov (earned s) with Some v => [(earned_key addr denom prov, v)] | None => [] end
  (* DeleteEarnedFees(provider) = the model's  del prov (earned s) *)
  /\ unscanned (GetEarnedFeesSubspace (addr prov)) (earned_acc addr denom prov) (render (earned_key addr denom) (earned s))
     = render (earned_key addr denom) (del prov (earned s))
  (* OwnerProvidersIterator(owner), decoded = the provider list of the model *)
  /\ map (fun kv => skipn 21%nat (fst kv))
         (scan (GetOwnerProvidersSubspace (addr owner)) (fun _ _ => true)
               (render (op_key addr) (map (fun op => (op, tt)) (own_prov s))))
     = map addr (map snd (filter (fun op => Z.eqb (fst op) owner) (own_prov s)))
  (* GetOwnerEarnedFees(owner) = the model's  get owner (own_earned s) *)
  /\ scan (GetOwnerEarnedFeesSubspace (addr owner)) (fun _ _ => true) (render (oe_key addr denom) (own_earned s))
     = match get owner (own_earned s) with Some v => [(oe_key addr denom owner, v)] | None => [] end
  (* DeleteOwnerEarnedFees(owner) = the model's  del owner (own_earned s) *)
  /\ unscanned (GetOwnerEarnedFeesSubspace (addr owner)) (fun _ _ => true) (render (oe_key addr denom) (own_earned s))
     = render (oe_key addr denom) (del owner (own_earned s)).
Proof.
  intros Hcfg Hr Hinj Hlen. pose proof (inv_wf _ _ (Reach_Inv cfg s Hcfg Hr)) as W.
  assert (We : wf (earned s)) by apply W. assert (Wo : wf (own_earned s)) by apply W.
  destruct (scan_is_lookup_earned addr denom Hinj (earned s) prov We) as (A1 & A2).
  destruct (scan_is_lookup_owner_earned addr denom Hinj (own_earned s) owner Wo (Hlen owner)) as (C1 & C2);
    [intros; apply Hlen|].
  split; [exact A1|]. split; [exact A2|]. split; [|split; [exact C1|exact C2]].
  apply scan_owner_providers; [exact Hinj|apply Hlen|intros; apply Hlen].
Qed.

(* ------------------------------------------------------------------ *)
(* EndBlock leaves every earnings record, owner index and withdrawal address alone; history level *)
From SVC Require Import Proofs.PFrame Proofs.ReachProps Proofs.ReachRun Proofs.StepSpecs_earn.
Open Scope Z_scope.

Theorem end_block_earn_frame cfg s dt :
  earned (end_block cfg s dt) = earned s /\ own_earned (end_block cfg s dt) = own_earned s
  /\ owner_of (end_block cfg s dt) = owner_of s /\ own_prov (end_block cfg s dt) = own_prov s
  /\ wdaddr (end_block cfg s dt) = wdaddr s.
Proof.
  destruct (ff_end_block cfg s dt) as [[F1 F2 F3 F4 F5 F6 Fb] [G1 G2]]. auto.
Qed.

Theorem handlers_earn_frame cfg s c :
  (earned (expire_one cfg s c) = earned s /\ own_earned (expire_one cfg s c) = own_earned s
   /\ wdaddr (expire_one cfg s c) = wdaddr s)
  /\ (earned (new_one cfg s c) = earned s /\ own_earned (new_one cfg s c) = own_earned s
      /\ wdaddr (new_one cfg s c) = wdaddr s).
Proof.
  destruct (ff_expire_one cfg s c) as [[_ _ _ _ _ F6 _] [G1 G2]].
  destruct (ff_new_one cfg s c) as [[_ _ _ _ _ F6' _] [G1' G2']]. auto.
Qed.

Lemma run_cons cfg s o t : run cfg s (o :: t) = run cfg (fst (step cfg s o)) t.
Proof. reflexivity. Qed.

Lemma option_eq_dec_Z (a b : option Z) : {a = b} + {a <> b}.
Proof. decide equality. apply Z.eq_dec. Qed.

(* the owner sum after any history *)
Theorem owner_sum_run cfg s ops : wf_cfg cfg -> Reach cfg s -> wf_run cfg s ops ->
  let s' := run cfg s ops in
  (forall p e, get p (earned s') = Some e -> 0 < e /\ exists o, get p (owner_of s') = Some o)
  /\ (forall o e, get o (own_earned s') = Some e -> 0 < e)
  /\ (forall o, get0 o (own_earned s') = msum (owned_by s' o) (earned s')).
Proof. intros Hcfg Hr Hw. exact (owner_earnings_sum cfg _ Hcfg (reach_run cfg s ops Hr Hw)). Qed.

(* "only the owner's own message changes its withdrawal address", over histories: if the address
   of owner a differs between the start and the end of a history, the history contains a valid
   MsgSetWithdrawAddress of a *)
Theorem wdaddr_run cfg ops : forall s a,
  get a (wdaddr (run cfg s ops)) <> get a (wdaddr s) -> exists addr, In (OSetWd a addr true) ops.
Proof.
  induction ops as [|o t IH]; intros s a Hne.
  - exfalso. apply Hne. reflexivity.
  - rewrite run_cons in Hne.
    destruct (option_eq_dec_Z (get a (wdaddr (fst (step cfg s o)))) (get a (wdaddr s))) as [E|Hd].
    + rewrite <- E in Hne. destruct (IH _ a Hne) as (addr & Hin). exists addr. now right.
    + destruct (C13_wdaddr_frame cfg s o a Hd) as (addr & -> & _). exists addr. now left.
Qed.

(* and the last such message decides: after a history whose last SetWithdrawAddress of a carries
   addr, ... (per step: C13_wdaddr_set) *)

(* a withdrawal for a provider that belongs to somebody else, or to nobody, is rejected *)
Theorem withdraw_foreign_rejected cfg s owner prov ok :
  prov <> 0 -> get prov (owner_of s) <> Some owner ->
  handle cfg s (OWithdraw owner prov ok) = Err /\ step cfg s (OWithdraw owner prov ok) = (s, RErr).
Proof.
  intros Hp Hn.
  assert (E : handle cfg s (OWithdraw owner prov ok) = Err).
  { cbn [handle]. unfold h_withdraw. destruct ok; [|reflexivity]. cbn [guard].
    apply Z.eqb_neq in Hp. rewrite Hp. cbn [orb].
    destruct (get prov (owner_of s)) as [o|]; [|reflexivity].
    destruct (Z.eqb_spec o owner) as [->|]; [exfalso; now apply Hn|reflexivity]. }
  split; [exact E|]. unfold step. now rewrite E.
Qed.

Example withdraw_foreign_rejected_ex :
  get 9 (owner_of ex_s) = Some 43 /\ step ex_cfg ex_s (OWithdraw 42 9 true) = (ex_s, RErr).
Proof. split; [vm_compute; reflexivity|]. apply withdraw_foreign_rejected; [lia|vm_compute; discriminate]. Qed.

(* the bridge on the example state: three providers with earnings, two owners *)
Example bridge_ex :
  let addr := fun a : Z => repeat (Z.to_N a) 20 in
  scan (GetEarnedFeesSubspace (addr 8)) (earned_acc addr [115%N] 8) (render (earned_key addr [115%N]) (earned ex_s))
  = [(earned_key addr [115%N] 8, 95)].
Proof. vm_compute. reflexivity. Qed.

(* ------------------------------------------------------------------ *)
(* conservation over the whole history, in money terms.
   Every event has a fixed effect on the balances (TraceMoney.ev_delta); the module accounts start
   empty and are not touched by plain bank sends; so the balance of a module account in a reachable
   state is the sum of the effects of ALL events of the log.  With C01 (escrow = fees in flight +
   recorded earnings) this is "everything earned is either still recorded or was withdrawn":
     recorded earnings + fees of active requests = debits - taxes - refunds - withdrawals. *)
From SVC Require Import Proofs.TraceMoney.

Definition module_acct (x : Acct) : Prop := match x with User _ => False | _ => True end.

Lemma init_module_balance h0 t0 f x : module_acct x -> bal (init h0 t0 f) x = 0.
Proof.
  intros Hx. unfold init, bal. cbn [bank].
  assert (G : forall l m, get0 x m = 0 ->
            get0 x (fold_left (fun m af => set (User (fst af)) (get0 (User (fst af)) m + snd af) m) l m) = 0).
  { induction l as [|[a v] t IH]; intros m Hm; cbn [fold_left fst snd]; [exact Hm|].
    apply IH. unfold get0. rewrite get_set_neq; [exact Hm|]. intros ->. exact Hx. }
  apply G. reflexivity.
Qed.

Theorem module_ledger cfg s x : wf_cfg cfg -> Reach cfg s -> module_acct x ->
  bal s x = evs_delta (log s) x.
Proof.
  intros Hcfg Hr Hx. induction Hr as [h0 t0 f H1 H2 H3|s o Hr IH Ho].
  - rewrite init_module_balance by assumption. reflexivity.
  - pose proof (inv_wd _ _ (Reach_Inv cfg s Hcfg Hr)) as Hwd.
    unfold step. destruct (handle cfg s o) as [s'| |] eqn:E; cbn [fst]; try exact IH.
    destruct (match o with OTransfer _ _ _ => true | _ => false end) eqn:K.
    + destruct o; try discriminate. destruct (transfer_moves _ _ _ _ _ _ E) as (Hl & Hb).
      rewrite Hl, Hb, IH. unfold into.
      destruct x; try contradiction; cbn [eqb EqDec_Acct acct_eqb]; lia.
    + destruct (only_events_move_money cfg s o s' Hwd E) as (d & Hd & Hb).
      * intros f t a ->. discriminate K.
      * rewrite Hd, Hb, evs_delta_app, IH. lia.
Qed.

(* C13_conservation *)
Theorem conservation cfg s : wf_cfg cfg -> Reach cfg s ->
  msum vid (earned s) + msum fee_active (reqs s) = evs_delta (log s) Escrow
  /\ bal s FeeColl = evs_delta (log s) FeeColl
  /\ (forall o, get0 o (own_earned s) = msum (owned_by s o) (earned s)).
Proof.
  intros Hcfg Hr. split; [|split].
  - rewrite <- (module_ledger cfg s Escrow Hcfg Hr I). rewrite (escrow_backed cfg s Hcfg Hr). lia.
  - exact (module_ledger cfg s FeeColl Hcfg Hr I).
  - exact (proj2 (proj2 (owner_earnings_sum cfg s Hcfg Hr))).
Qed.

Example conservation_ex : evs_delta (log ex_s) Escrow = 285 /\ msum vid (earned ex_s) = 285.
Proof. vm_compute. split; reflexivity. Qed.
