(* Gap closing for C02 / C04, part 2 (liveness): a request that is still active when the
   EndBlock of its expiry height runs is expired THERE: it gets its EvExpire, and unless the
   context is in super mode the binding (service of the context, provider of the request) is
   slashed and the whole fee is refunded to the consumer of the context; afterwards the record
   is gone, so nothing can settle it a second time (C02_request_trace).
   "Times out" is defined here by heights (r_exp q = height s), not by the ghost event. *)
From Coq Require Import List ZArith Bool Lia Permutation.
From SVC Require Import Base.AMap Base.Res Base.Dec Model.Types Model.Pricing
  Model.Handlers Model.EndBlock Model.Step Proofs.Inv Proofs.Lemmas Proofs.ReqLemmas
  Proofs.CtxOps Proofs.BankLemmas Proofs.InvBank Proofs.InvSched Proofs.InvEscrow Proofs.InvReq
  Proofs.InvAll Proofs.ReachRun Proofs.StepSpecs_window Proofs.TraceLemmas Proofs.TraceSettle Proofs.TraceMoney.
Import ListNotations.
Open Scope Z_scope.

Lemma MV_incl s s' : MV s s' -> incl (log s) (log s').
Proof. intros (d & -> & _). apply incl_appr, incl_refl. Qed.

(* ------------------------------------------------------------------ *)
(* what the invariant says about a stored active request *)

Lemma active_req_facts cfg s r q rc :
  Inv cfg s -> get r (reqs s) = Some q -> r_active q = true ->
  get (rid_ctx r) (ctxs s) = Some rc ->
  c_bdone rc = false /\ rid_batch r = c_counter rc
  /\ has (c_svc rc, r_prov q) (binds s) = true
  /\ (c_super rc = true -> r_fee q = 0) /\ 0 <= r_fee q
  /\ get (rid_ctx r) (expq_h s) = Some (r_exp q).
Proof.
  intros HI G Ha Grc. destruct (inv_req _ _ HI) as (R1 & _ & R3).
  destruct (R1 _ _ (get_In _ _ _ G)) as (rc' & Grc' & Hb & Ge & Hf & _ & _ & _ & Hbd & Hs).
  rewrite Grc in Grc'. injection Grc' as <-.
  split; [|auto 6].
  destruct (R3 _ _ Grc) as (_ & Hsum & _).
  destruct (c_bdone rc); [|reflexivity]. exfalso.
  rewrite andb_false_r in Hsum.
  assert (Hle : fget (active_in (rid_ctx r)) r (reqs s) <= msum (active_in (rid_ctx r)) (reqs s)).
  { apply msum_ge_fget. intros k v _. unfold active_in. destruct (_ && _); lia. }
  unfold fget in Hle. rewrite G in Hle. unfold active_in at 1 in Hle.
  rewrite eqb_refl, Ha in Hle. cbn [andb] in Hle. lia.
Qed.

(* ------------------------------------------------------------------ *)
(* the expiry loop reaches every request of its list *)

Lemma fold_expire_hits cfg l : forall s r q rc,
  wf_cfg cfg -> NoDup l -> LI cfg s ->
  (forall r', In r' l -> exists q' rc', get r' (reqs s) = Some q' /\ r_active q' = true
      /\ get (rid_ctx r') (ctxs s) = Some rc' /\ (c_super rc' = true -> r_fee q' = 0)
      /\ has (c_svc rc', r_prov q') (binds s) = true) ->
  In r l -> get r (reqs s) = Some q -> get (rid_ctx r) (ctxs s) = Some rc ->
  In (EvExpire r) (log (fold_left (expire_req cfg) l s))
  /\ (c_super rc = false ->
        In (EvRefund r (c_cons rc) (r_fee q)) (log (fold_left (expire_req cfg) l s))
        /\ exists amt, In (EvSlash r (c_svc rc, r_prov q) amt) (log (fold_left (expire_req cfg) l s))).
Proof.
  induction l as [|a l IH]; intros s r q rc Hcfg Hn HL Hl Hin G Grc; [destruct Hin|].
  cbn [fold_left]. inversion Hn as [|? ? Hni Hn']; subst.
  destruct (Hl a (or_introl eq_refl)) as (qa & rca & Ga & Haa & Grca & Hsa & Hba).
  destruct Hin as [->|Hin].
  - rewrite G in Ga. injection Ga as <-. rewrite Grc in Grca. injection Grca as <-.
    destruct HL as (_ & Hbdm & Hidx & HJ & _).
    pose proof (expire_req_log cfg s r q rc Hcfg Hbdm Hidx HJ G Haa Grc Hba) as Hlog.
    pose proof (NI_incl _ _ (NI_fold_expire cfg l (expire_req cfg s r))) as Hincl.
    destruct (c_super rc) eqn:Es.
    + split; [apply Hincl; rewrite Hlog; now left|]. discriminate.
    + destruct Hlog as (k & amt & sa & Esl & Elsa & Hlog).
      apply slash_inv in Esl. destruct Esl as (q2 & rc2 & b & Hq2 & Hrc2 & _ & _ & _ & _ & Esa).
      rewrite G in Hq2. injection Hq2 as <-. rewrite Grc in Hrc2. injection Hrc2 as <-.
      rewrite Esa in Elsa. sproj. injection Elsa as Ek Eamt. subst k.
      split; [apply Hincl; rewrite Hlog; cbn; auto|]. intros _.
      split; [apply Hincl; rewrite Hlog; cbn; auto|].
      exists amt. apply Hincl. rewrite Hlog. cbn. auto.
  - assert (Hne : r <> a) by (intros ->; contradiction).
    pose proof (expire_req_core cfg s a) as C. cbv zeta in C. destruct C as (_ & C2 & _).
    apply IH; try assumption.
    + eapply expire_req_LI; eauto.
    + intros r' Hr'. destruct (Hl r' (or_intror Hr')) as (q' & rc' & G1' & Ha' & G2' & Hs' & Hb').
      exists q', rc'. rewrite C2, expire_req_reqs, Ga, Grca.
      rewrite get_set_neq; [|intros ->; contradiction].
      repeat split; auto. now apply has_binds_expire_req.
    + rewrite expire_req_reqs, Ga, Grca. now rewrite get_set_neq.
    + now rewrite C2.
Qed.

(* the rest of expire_one only appends to the log *)
Lemma expire_one_log_from cfg s c rc :
  get c (ctxs s) = Some rc -> c_bdone rc = false ->
  incl (log (fold_left (expire_req cfg) (active_rids s c (c_counter rc)) s)) (log (expire_one cfg s c)).
Proof.
  intros G Hb. unfold expire_one, ctx_or_zero. rewrite G, Hb.
  set (sf := fold_left (expire_req cfg) (active_rids s c (c_counter rc)) s).
  pose proof (Q_complete_batch sf c rc) as Hq.
  destruct (complete_batch sf c rc) as [s1 rc1]. cbn [fst] in Hq.
  eapply incl_tran; [apply (Q_incl _ _ Hq)|].
  eapply incl_tran; [|apply (Q_incl _ _ (Q_clean_batch _ c (c_counter rc1)))].
  apply Q_incl.
  destruct (c_state rc1); [destruct (c_rep rc1 && _)| |]; ext_auto.
Qed.

(* the expiry handlers of other contexts leave a context record alone *)
Lemma fold_expire_ctx_other cfg l : forall s c,
  wf_cfg cfg -> Inv cfg s -> height s < HEIGHT_BOUND -> NoDup l ->
  (forall c', In c' l -> In (height s, c') (expq s)) -> ~ In c l ->
  get c (ctxs (fold_left (expire_one cfg) l s)) = get c (ctxs s).
Proof.
  induction l as [|a l IH]; intros s c Hcfg Hi Hb Hn Hl Hni; cbn [fold_left]; [reflexivity|].
  inversion Hn as [|? ? Hna Hn']; subst.
  assert (Hda : In (height s, a) (expq s)) by (apply Hl; now left).
  pose proof (Inv_expire_one cfg s a Hcfg Hi Hda Hb) as Hi1.
  pose proof (height_expire_one cfg s a Hcfg Hi Hda Hb) as Eh.
  pose proof (expq_after_expire_one cfg s a Hcfg Hi Hda Hb) as Eq.
  rewrite IH; try assumption.
  - destruct (expire_one_spec cfg s a Hcfg Hi Hda Hb) as (rc & rc1 & _ & _ & _ & _ & Ht & _).
    apply (t_ctxs _ _ _ Ht). intros ->. apply Hni. now left.
  - now rewrite Eh.
  - intros c' Hc'. rewrite Eh. apply Eq. split; [apply Hl; now right|]. intros ->. contradiction.
  - intros Hin. apply Hni. now right.
Qed.

(* ------------------------------------------------------------------ *)
(* the theorem *)

Theorem timeout_settled cfg s dt r q rc :
  wf_cfg cfg -> Reach cfg s -> wf_op s (OEndBlock dt) ->
  get r (reqs s) = Some q -> r_active q = true -> r_exp q = height s ->
  get (rid_ctx r) (ctxs s) = Some rc ->
  let s' := end_block cfg s dt in
  Reach cfg s'
  /\ get r (reqs s') = None
  /\ In (EvIssue r (r_prov q) (c_cons rc) (r_fee q)) (log s)
  /\ (exists d, log s' = d ++ log s /\ In (EvExpire r) d)
  /\ (c_super rc = true -> r_fee q = 0 /\ counts r (log s') = (1, 0, 0, 0, 0, 0, 1)%nat)
  /\ (c_super rc = false ->
        0 < r_fee q /\ counts r (log s') = (1, 0, 0, 0, 1, 1, 1)%nat
        /\ In (EvRefund r (c_cons rc) (r_fee q)) (log s')
        /\ exists amt, In (EvSlash r (c_svc rc, r_prov q) amt) (log s')).
Proof.
  intros Hcfg HR Hwf G Ha He Grc s'. destruct Hwf as (Hdt & Hb).
  pose proof (Reach_Inv cfg s Hcfg HR) as HI. pose proof (Reach_T cfg s Hcfg HR) as HT.
  assert (HR' : Reach cfg s').
  { change s' with (fst (step cfg s (OEndBlock dt))). apply Reach_step; [exact HR|]. split; assumption. }
  destruct (active_req_facts cfg s r q rc HI G Ha Grc) as (_ & _ & _ & Hsup & Hfee & Gexp).
  destruct (T_active cfg s r q rc HT G Ha Grc) as (Etr & Hsf & _).
  assert (Hiss : In (EvIssue r (r_prov q) (c_cons rc) (r_fee q)) (log s)).
  { apply In_issue_tr. rewrite Etr. now left. }
  set (c := rid_ctx r) in *.
  assert (Hdue : In (height s, c) (expq s)).
  { destruct (inv_sched _ _ HI) as (S1 & _). apply S1. now rewrite Gexp, He. }
  (* the expiry phase up to the context of r *)
  assert (Hc1 : In c (due (expq s) (height s))) by (apply In_due, Hdue).
  destruct (in_split _ _ Hc1) as (la & lb & El1).
  assert (Hn1 : NoDup (due (expq s) (height s))) by (apply NoDup_due; apply (inv_wf _ _ HI)).
  rewrite El1 in Hn1.
  assert (Hnla : NoDup la) by (eapply NoDup_app_remove_r'; exact Hn1).
  assert (Hcla : ~ In c la).
  { intros Hin. apply NoDup_remove_2 in Hn1. apply Hn1. apply in_or_app. now left. }
  assert (Hla : forall c', In c' la -> In (height s, c') (expq s)).
  { intros c' Hc'. apply In_due. rewrite El1. apply in_or_app. now left. }
  destruct (fold_expire_phase cfg la s Hcfg HI Hb Hnla Hla) as (Ia & Eha & _ & Qa).
  pose proof (fold_expire_phase_T cfg la s Hcfg HI HT Hb Hnla Hla) as Ta.
  destruct (fold_expire_records cfg la s r Hcfg HI Hb Hnla Hla) as (P1 & _).
  pose proof (fold_expire_ctx_other cfg la s c Hcfg HI Hb Hnla Hla Hcla) as Eca.
  set (sa := fold_left (expire_one cfg) la s) in *.
  destruct (P1 Hcla) as (Gra & _). rewrite G in Gra. rewrite Grc in Eca.
  destruct (active_req_facts cfg sa r q rc Ia Gra Ha Eca) as (Hbd & Hbt & _ & _ & _ & _).
  (* the loop over the active requests of the batch *)
  pose proof (inv_wf _ _ Ia) as Hwfa. assert (Hwr : wf (reqs sa)) by apply Hwfa.
  destruct (inv_req _ _ Ia) as (R1 & _).
  assert (Hrl : In r (active_rids sa c (c_counter rc))).
  { apply In_active_rids; [assumption|]. exists q. auto. }
  assert (Hall : forall r', In r' (active_rids sa c (c_counter rc)) ->
            exists q' rc', get r' (reqs sa) = Some q' /\ r_active q' = true
              /\ get (rid_ctx r') (ctxs sa) = Some rc' /\ (c_super rc' = true -> r_fee q' = 0)
              /\ has (c_svc rc', r_prov q') (binds sa) = true).
  { intros r' Hr'. apply In_active_rids in Hr'; [|assumption].
    destruct Hr' as (q' & G' & _ & _ & Ha'). exists q'.
    destruct (R1 _ _ (get_In _ _ _ G')) as (rc' & G2 & _ & _ & _ & _ & _ & _ & Hb' & Hs').
    exists rc'. repeat split; assumption. }
  pose proof (fold_expire_hits cfg _ sa r q rc Hcfg (NoDup_active_rids sa c (c_counter rc) Hwr)
                (Inv_LI cfg sa Ia Ta) Hall Hrl Gra Eca) as (Hexp & Hsl).
  pose proof (expire_one_log_from cfg sa c rc Eca Hbd) as Hin1.
  (* the rest of the block only appends *)
  assert (Hrest : incl (log (expire_one cfg sa c)) (log s')).
  { unfold s', end_block, end_blocker. rewrite El1, fold_left_app. cbn [fold_left]. fold sa.
    apply MV_incl. eapply MV_trans; cycle 1; [apply MV_tick|].
    eapply MV_trans; cycle 1; [apply MV_fold; intros; apply MV_new_one|].
    apply MV_fold. intros; apply MV_expire_one. }
  assert (Hexp' : In (EvExpire r) (log s')) by (apply Hrest, Hin1, Hexp).
  assert (Hiss' : In (EvIssue r (r_prov q) (c_cons rc) (r_fee q)) (log s')).
  { apply (MV_incl _ _ (MV_end_block cfg s dt)). exact Hiss. }
  destruct (expiry_slashes cfg s' r _ _ _ Hcfg HR' Hexp' Hiss') as (Kpos & Kzero).
  split; [exact HR'|].
  split; [exact (proj1 (C08_end_block_expires cfg s dt r q Hcfg HI Hb G He))|].
  split; [exact Hiss|].
  split.
  { destruct (MV_end_block cfg s dt) as (d & Ed & _). exists d. split; [exact Ed|].
    fold s' in Ed. rewrite Ed in Hexp'. apply in_app_or in Hexp'. destruct Hexp' as [Hd|Hold]; [exact Hd|].
    exfalso. pose proof (active_unsettled cfg s r q Hcfg HR G Ha) as Hc.
    assert (Hp : (0 < count (is_expire r) (log s))%nat).
    { eapply In_count_pos; [exact Hold|]. cbn [is_expire]. apply eqb_refl. }
    unfold counts in Hc. injection Hc; intros; lia. }
  split.
  - intros Es. pose proof (proj1 Hsf Es) as Hz. split; [exact Hz|]. now apply Kzero.
  - intros Es. assert (Hpos : 0 < r_fee q).
    { assert (r_fee q <> 0) by (intros E; apply Hsf in E; congruence). lia. }
    destruct (Kpos Hpos) as (_ & Hrf & Hcnt). destruct (Hsl Es) as (_ & amt & Hs1).
    split; [exact Hpos|]. split; [exact Hcnt|]. split; [exact Hrf|].
    exists amt. apply Hrest, Hin1, Hs1.
Qed.

(* a stored request is never overdue *)
Theorem active_not_overdue cfg s r q :
  wf_cfg cfg -> Reach cfg s -> get r (reqs s) = Some q ->
  height s <= r_exp q /\ In (r_exp q, rid_ctx r) (expq s).
Proof.
  intros Hcfg HR G. pose proof (Reach_Inv cfg s Hcfg HR) as HI.
  destruct (C08_window_inv cfg s r q HI G) as (A & _ & B). auto.
Qed.

(* instance: the open batch of the example history of Proofs/TraceSettle.v; r3 (provider 11,
   fee 100, expiry height 21) is still active when the EndBlock of height 21 runs *)
Definition tx_due : State := run tx_cfg tx_s0 (firstn 26 tx_ops).

Example tx_due_reach : Reach tx_cfg tx_due.
Proof.
  apply reach_init_run; [lia|lia|wf_funding_tac|].
  unfold tx_ops. cbn [repeat app firstn]. wf_run_tac.
Qed.

Example tx_due_facts :
  height tx_due = 21 /\ get tx_r3 (reqs tx_due) = Some (mkReq 11 100 21 true)
  /\ c_super (ctx_or_zero tx_due tx_c) = false /\ c_cons (ctx_or_zero tx_due tx_c) = 20
  /\ c_svc (ctx_or_zero tx_due tx_c) = 1 /\ get tx_c (ctxs tx_due) = Some (ctx_or_zero tx_due tx_c).
Proof. vm_compute. repeat split. Qed.

Example tx_due_hyps :
  wf_op tx_due (OEndBlock 5)
  /\ get tx_r3 (reqs tx_due) = Some (mkReq 11 100 21 true)
  /\ r_exp (mkReq 11 100 21 true) = height tx_due
  /\ get (rid_ctx tx_r3) (ctxs tx_due) = Some (ctx_or_zero tx_due tx_c).
Proof. vm_compute. repeat split; congruence. Qed.

(* the theorem applies (all hypotheses hold) ... *)
Example tx_timeout_settled :=
  timeout_settled tx_cfg tx_due 5 tx_r3 (mkReq 11 100 21 true) (ctx_or_zero tx_due tx_c)
    tx_cfg_wf tx_due_reach (proj1 tx_due_hyps) (proj1 (proj2 tx_due_hyps)) eq_refl
    (proj1 (proj2 (proj2 tx_due_hyps))) (proj2 (proj2 (proj2 tx_due_hyps))).

(* ... and this is what it says on the instance *)
Example tx_timeout_values :
  counts tx_r3 (log (end_block tx_cfg tx_due 5)) = (1, 0, 0, 0, 1, 1, 1)%nat
  /\ firstn 3 (tr tx_r3 (log (end_block tx_cfg tx_due 5)))
     = [EvExpire tx_r3; EvRefund tx_r3 20 100; EvSlash tx_r3 (1, 11) 100]
  /\ get tx_r3 (reqs (end_block tx_cfg tx_due 5)) = None.
Proof. vm_compute. repeat split. Qed.
