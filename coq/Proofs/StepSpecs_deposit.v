(* Per-step specifications for the deposit properties:
   C03 (deposits stay in custody: who can take them out, who can put them in),
   C14 (minimum deposit enforced when a binding is or becomes available),
   C04 (the exact effect of a slash).
   None of them needs more of the invariant than BDM (Proofs/InvBank.v); most need nothing. *)
From Coq Require Import List ZArith Bool Lia.
From SVC Require Import Base.AMap Base.Res Base.Dec Model.Types Model.Pricing
  Model.Handlers Model.EndBlock Model.Step Proofs.Inv Proofs.Lemmas Proofs.InvWf
  Proofs.DecProofs Proofs.BankLemmas Proofs.InvBank Proofs.CtxOps Proofs.InvWd.
Import ListNotations.
Open Scope Z_scope.

(* ------------------------------------------------------------------ *)
(* a concrete history used by the Examples *)

Definition exd_cfg : Params :=
  mkParams 100 (* max timeout *) 2 (* multiple *) 150 (* min deposit *)
           (ONE / 10) (* tax 0.1 *) (ONE / 4) (* slash 0.25 *)
           30 (* arbitration *) 20 (* complaint *) 999 (* module service *) 77 (* callback module *).

Definition ex_raw : RawPricing := mkRaw (100 * ONE) [] [].     (* price 100 *)
Definition ex_ctx : CtxId := (4242, 0).

(* owner 10 binds provider 11 to service 1 with deposit 240 (minimum: max(100*2,150) = 200) *)
Definition ex_ops_bound : list Op :=
  [ ODefine 1 7 true;
    OBind 1 11 (CBase 240) (Some ex_raw) 5 10 true ].

Definition ex_s0 : State := init 1 1000 [(10, 1000); (20, 1000)].
Definition ex_bound : State := run exd_cfg ex_s0 ex_ops_bound.

(* ... then disables it and lets 60 seconds pass *)
Definition ex_disabled : State :=
  run exd_cfg ex_bound [ ODisable 1 11 10 true; OEndBlock 60 ].

(* ... or: consumer 20 calls the service; EndBlock issues request ex_rid *)
Definition ex_called : State :=
  run exd_cfg ex_bound
    [ OCall ex_ctx 1 [11] 20 0 (CBase 500) 10 false false 0 0 true true; OEndBlock 5 ].
Definition ex_rid : ReqId := (ex_ctx, 1, 1, 0).

Lemma BDM_run cfg ops s : I_wd s -> BDM cfg s -> BDM cfg (run cfg s ops).
Proof.
  intros Hwd HB. unfold run.
  apply (fold_inv (fun s => I_wd s /\ BDM cfg s)); [|split; assumption].
  intros s0 o [H1 H2]. split; [now apply I_wd_step|now apply BDM_step].
Qed.

Lemma ex_s0_BDM : BDM exd_cfg ex_s0.
Proof. apply BDM_init. intros a v [E|[E|[]]]; injection E as _ <-; lia. Qed.

Lemma ex_s0_wd : I_wd ex_s0.
Proof. apply I_wd_init; [lia|lia|]. intros a v [E|[E|[]]]; injection E as _ <-; lia. Qed.
Lemma ex_bound_wd : I_wd ex_bound.
Proof. apply I_wd_run, ex_s0_wd. Qed.

Example ex_bound_BDM : BDM exd_cfg ex_bound.
Proof. apply BDM_run; [apply ex_s0_wd|apply ex_s0_BDM]. Qed.
Example ex_disabled_BDM : BDM exd_cfg ex_disabled.
Proof. apply BDM_run; [apply ex_bound_wd|apply ex_bound_BDM]. Qed.
Example ex_called_BDM : BDM exd_cfg ex_called.
Proof. apply BDM_run; [apply ex_bound_wd|apply ex_bound_BDM]. Qed.

Example ex_bound_facts :
  get (1, 11) (binds ex_bound) = Some (mkBinding 240 ex_raw 5 true TIME0 10)
  /\ bal ex_bound Deposit = 240 /\ bal ex_bound (User 10) = 760
  /\ min_dep_val exd_cfg (pricing_of ex_bound (1, 11)) = 200.
Proof. vm_compute. repeat split. Qed.

Example ex_disabled_facts :
  get (1, 11) (binds ex_disabled) = Some (mkBinding 240 ex_raw 5 false 1000 10)
  /\ time ex_disabled = 1060 /\ bal ex_disabled Deposit = 240.
Proof. vm_compute. repeat split. Qed.

Example ex_called_facts :
  get ex_rid (reqs ex_called) = Some (mkReq 11 100 11 true)
  /\ bal ex_called Escrow = 100 /\ bal ex_called (User 20) = 900.
Proof. vm_compute. repeat split. Qed.

(* ------------------------------------------------------------------ *)
(* C03: refund of a deposit *)

Lemma transfer_ok a b amt s : 0 <= amt -> amt <= bal s a -> exists s1, transfer a b amt s = Some s1.
Proof.
  intros H0 H1. unfold transfer.
  assert (E : (amt <? 0) || (bal s a <? amt) = false) by (apply orb_false_intro; apply Z.ltb_ge; lia).
  rewrite E. eauto.
Qed.

(* exactly when MsgRefundServiceDeposit succeeds *)
Theorem C03_refund_iff_BDM cfg s svc prov owner : BDM cfg s ->
  (exists s', h_refund_deposit cfg s svc prov owner true = Ok s') <->
  exists b, get (svc, prov) (binds s) = Some b /\ b_owner b = owner /\ b_avail b = false
    /\ b_deposit b <> 0 /\ b_dtime b + p_arb cfg + p_compl cfg <= time s.
Proof.
  intros HB. split.
  - intros (s' & H). unfold h_refund_deposit in H. inv_ok H. b2p. eauto 10.
  - intros (b & Hb & Ho & Hav & Hd & Ht).
    unfold h_refund_deposit. cbn [guard]. rewrite Hb. cbn [of_opt bind].
    apply Z.eqb_eq in Ho. rewrite Ho, Hav. cbn [negb guard].
    apply Z.eqb_neq in Hd. rewrite Hd. cbn [negb guard].
    apply Z.leb_le in Ht. rewrite Ht. cbn [guard].
    destruct (transfer_ok Deposit (User (b_owner b)) (b_deposit b) s) as (s1 & ->).
    + eapply BDM_dep_nonneg; eauto.
    + eapply BDM_dep_le_custody; eauto.
    + cbn [of_opt bind]. eauto.
Qed.

Theorem C03_refund_iff cfg s svc prov owner : Inv cfg s ->
  (exists s', h_refund_deposit cfg s svc prov owner true = Ok s') <->
  exists b, get (svc, prov) (binds s) = Some b /\ b_owner b = owner /\ b_avail b = false
    /\ b_deposit b <> 0 /\ b_dtime b + p_arb cfg + p_compl cfg <= time s.
Proof. intros HI. apply C03_refund_iff_BDM. now apply Inv_BDM. Qed.

(* 1060 >= 1000 + 30 + 20: the owner may take the deposit back; at time 1000 + 49 he may not *)
Example ex_refund_iff :
  (exists s', h_refund_deposit exd_cfg ex_disabled 1 11 10 true = Ok s')
  /\ ~ (exists s', h_refund_deposit exd_cfg (set_time ex_disabled 1049) 1 11 10 true = Ok s').
Proof.
  split.
  - apply (C03_refund_iff_BDM _ _ _ _ _ ex_disabled_BDM).
    eexists. split; [apply ex_disabled_facts|]. vm_compute. repeat split; discriminate.
  - intros H. apply (C03_refund_iff_BDM exd_cfg) in H; [|exact ex_disabled_BDM].
    destruct H as (b & Hb & _ & _ & _ & Ht).
    assert (E : b = mkBinding 240 ex_raw 5 false 1000 10) by (vm_compute in Hb; injection Hb as <-; reflexivity).
    subst b. vm_compute in Ht. apply Ht. reflexivity.
Qed.

(* what a successful refund does *)
Theorem C03_refund_effect cfg s svc prov owner ok s' :
  h_refund_deposit cfg s svc prov owner ok = Ok s' ->
  exists b, get (svc, prov) (binds s) = Some b /\ b_owner b = owner
    /\ bal s' (User owner) = bal s (User owner) + b_deposit b
    /\ bal s' Deposit = bal s Deposit - b_deposit b
    /\ (forall a, a <> User owner -> a <> Deposit -> bal s' a = bal s a)
    /\ binds s' = set (svc, prov) (setb_deposit b 0) (binds s)
    /\ get (svc, prov) (binds s') = Some (setb_deposit b 0)
    /\ (forall k, k <> (svc, prov) -> get k (binds s') = get k (binds s))
    /\ supply s' = supply s /\ pricing s' = pricing s
    /\ In (EvDepositOut (svc, prov) owner (b_deposit b)) (log s').
Proof.
  intros H. unfold h_refund_deposit in H. inv_ok H. rename a into b, a0 into s1. b2p.
  subst owner s'. exists b.
  pose proof (transfer_core _ _ _ _ _ Ha0) as (Esu & Ei & Ep & _).
  assert (Hbal : forall x, bal (emit (EvDepositOut (svc, prov) (b_owner b) (b_deposit b))
                            (put_binding s1 (svc, prov) (setb_deposit b 0))) x = bal s1 x) by reflexivity.
  repeat split; try assumption.
  - rewrite Hbal, (transfer_bal _ _ _ _ _ _ Ha0). cbn [eqb EqDec_Acct acct_eqb]. rewrite Z.eqb_refl. lia.
  - rewrite Hbal, (transfer_bal _ _ _ _ _ _ Ha0). cbn [eqb EqDec_Acct acct_eqb]. lia.
  - intros x Hx1 Hx2. rewrite Hbal, (transfer_bal _ _ _ _ _ _ Ha0).
    destruct (eqb_spec x Deposit), (eqb_spec x (User (b_owner b))); try congruence. lia.
  - sproj. now rewrite Ei.
  - sproj. now rewrite get_set_eq.
  - intros k Hk. sproj. rewrite get_set_neq by assumption. now rewrite Ei.
  - sproj. now left.
Qed.

Example ex_refund_effect :
  exists s', h_refund_deposit exd_cfg ex_disabled 1 11 10 true = Ok s'
    /\ bal s' (User 10) = 1000 /\ bal s' Deposit = 0
    /\ get (1, 11) (binds s') = Some (mkBinding 0 ex_raw 5 false 1000 10).
Proof. eexists. split; [vm_compute; reflexivity|]. vm_compute. repeat split. Qed.

(* ------------------------------------------------------------------ *)
(* C03: a deposit only grows by its owner paying in *)

Lemma get_has {K V} `{EqDec K} (k : K) (m : amap K V) v : get k m = Some v -> has k m = true.
Proof. unfold has. now intros ->. Qed.

Definition dep_at (s : State) (k : BKey) : Z := fget dep_of k (binds s).

Lemma opt_pay_bal s k owner (dep : Coins) amt s1 :
  (if coins_empty dep then Ok 0 else one_base_coin dep) = Ok amt ->
  (if coins_empty dep then Ok s else pay_deposit s k owner amt) = Ok s1 ->
  0 <= amt /\ forall x, bal s1 x = bal s x - (if eqb x (User owner) then amt else 0)
                                   + (if eqb x Deposit then amt else 0).
Proof.
  intros Ea Es. split; [eapply opt_amt_nonneg; eauto|].
  destruct (coins_empty dep).
  - inv_ok Ea. inv_ok Es. subst. intros x. destruct (eqb x (User owner)), (eqb x Deposit); lia.
  - apply pay_deposit_inv in Es. destruct Es as (s0 & Et & ->). intros x.
    change (bal (emit (EvDepositIn k owner amt) s0) x) with (bal s0 x).
    apply (transfer_bal _ _ _ _ _ _ Et).
Qed.

(* one binding replaced, credited with amt paid by owner *)
Lemma grow_case s s' k0 b' amt k :
  binds s' = set k0 b' (binds s) ->
  b_deposit b' = dep_at s k0 + amt -> 0 <= amt ->
  bal s' (User (b_owner b')) = bal s (User (b_owner b')) - amt ->
  dep_at s k <= dep_at s' k
  /\ (forall a, 0 < a -> dep_at s' k = dep_at s k + a ->
        k = k0 /\ a = amt /\ get k (binds s') = Some b'
        /\ bal s' (User (b_owner b')) = bal s (User (b_owner b')) - a).
Proof.
  intros Ei Ed H0 Hbal.
  assert (Hk0 : dep_at s' k0 = b_deposit b')
    by (unfold dep_at, fget; rewrite Ei, get_set_eq; reflexivity).
  assert (Hne : k <> k0 -> dep_at s' k = dep_at s k)
    by (intros Hn; unfold dep_at, fget; rewrite Ei, get_set_neq by assumption; reflexivity).
  destruct (eqb_spec k k0) as [->|Hn].
  - rewrite Hk0. split; [lia|]. intros a Ha E. assert (a = amt) by lia. subst a.
    repeat split; try assumption. rewrite Ei. apply get_set_eq.
  - rewrite Hne by assumption. split; [lia|]. intros a Ha E. lia.
Qed.

Lemma same_binds_case s s' k :
  binds s' = binds s ->
  dep_at s k <= dep_at s' k /\ (forall a, 0 < a -> dep_at s' k = dep_at s k + a -> False).
Proof. intros Ei. unfold dep_at. rewrite Ei. split; [lia|]. intros a Ha E. lia. Qed.

Theorem C03_deposit_only_grows_by_owner cfg s o s' k :
  handle cfg s o = Ok s' ->
  (forall dt, o <> OEndBlock dt) ->
  (forall svc prov owner ok, o <> ORefundDep svc prov owner ok) ->
  (forall r who code out v ok, o <> ORespond r who code out v ok) ->
  dep_at s k <= dep_at s' k
  /\ (forall b, get k (binds s) = Some b ->
        exists b', get k (binds s') = Some b' /\ b_owner b' = b_owner b)
  /\ (forall a, 0 < a -> dep_at s' k = dep_at s k + a ->
        exists b', get k (binds s') = Some b'
          /\ bal s' (User (b_owner b')) = bal s (User (b_owner b')) - a
          /\ ((exists dep pr qos ok, o = OBind (fst k) (snd k) dep pr qos (b_owner b') ok)
              \/ (exists dep pr qos ok, o = OUpdate (fst k) (snd k) dep pr qos (b_owner b') ok)
              \/ (exists dep ok, o = OEnable (fst k) (snd k) dep (b_owner b') ok))).
Proof.
  intros H Hne Hnr Hnp.
  assert (Hsame : binds s' = binds s ->
    dep_at s k <= dep_at s' k
    /\ (forall b, get k (binds s) = Some b ->
          exists b', get k (binds s') = Some b' /\ b_owner b' = b_owner b)
    /\ (forall a, 0 < a -> dep_at s' k = dep_at s k + a ->
          exists b', get k (binds s') = Some b'
            /\ bal s' (User (b_owner b')) = bal s (User (b_owner b')) - a
            /\ ((exists dep pr qos ok, o = OBind (fst k) (snd k) dep pr qos (b_owner b') ok)
                \/ (exists dep pr qos ok, o = OUpdate (fst k) (snd k) dep pr qos (b_owner b') ok)
                \/ (exists dep ok, o = OEnable (fst k) (snd k) dep (b_owner b') ok)))).
  { intros Ei. destruct (same_binds_case s s' k Ei) as [G1 G2]. split; [exact G1|]. split.
    - intros b Hb. rewrite Ei. eauto.
    - intros a Ha E. destruct (G2 a Ha E). }
  destruct o; cbn [handle] in H;
    try (exfalso; eapply Hne; reflexivity);
    try (exfalso; eapply Hnr; reflexivity);
    try (exfalso; eapply Hnp; reflexivity).
  - (* define *) apply Hsame. unfold h_define in H. inv_ok H. destruct (get svc (defs s)); inv_ok H. now subst.
  - (* bind *) unfold h_bind in H. inv_ok H. sproj.
    match goal with Hp : pay_deposit _ _ _ _ = Ok ?x |- _ => rename Hp into Hpay; rename x into sp end.
    rename a into amt. b2p.
    match type of H with match _ with Some _ => Ok ?t | None => _ end = _ => set (s4 := t) in * end.
    assert (Ec : binds s' = binds s4 /\ bank s' = bank s4)
      by (destruct (get prov (owner_of sp)); inv_ok H; subst s'; split; reflexivity).
    destruct Ec as [Ei' Eb'].
    pose proof (pay_deposit_frame _ _ _ _ _ Hpay) as (_ & Ei0 & _ & _).
    pose proof (one_base_coin_pos _ _ Ha) as Hpos.
    assert (Hbal : bal s' (User owner) = bal s (User owner) - amt).
    { unfold bal. rewrite Eb'. subst s4. sproj.
      apply pay_deposit_inv in Hpay. destruct Hpay as (s0 & Et & ->). sproj.
      pose proof (transfer_bal _ _ _ _ _ (User owner) Et) as Hb.
      cbn [eqb EqDec_Acct acct_eqb] in Hb. rewrite Z.eqb_refl in Hb. unfold bal in Hb. lia. }
    destruct (grow_case s s' (svc, prov) (mkBinding amt a0 qos true TIME0 owner) amt k) as [G1 G2].
    + rewrite Ei'. subst s4. sproj. now rewrite Ei0.
    + cbn [b_deposit]. unfold dep_at. rewrite fget_dep_of_none by assumption. lia.
    + lia.
    + exact Hbal.
    + split; [exact G1|]. split.
      * intros b Hb. rewrite Ei'. subst s4. sproj. rewrite Ei0, get_set.
        destruct (eqb_spec k (svc, prov)) as [->|_]; [|eauto].
        exfalso. exact (eq_true_false_abs _ (get_has _ _ _ Hb) Hc2).
      * intros x Hx E. destruct (G2 x Hx E) as (-> & -> & Hg & Hb).
        eexists. split; [exact Hg|]. split; [exact Hb|]. left. cbn [fst snd b_owner]. eauto.
  - (* update *) unfold h_update in H. inv_ok H.
    rename a into b, a0 into amt, a1 into newp, a3 into s1.
    rename Ha into Hb, Ha0 into Hamt, Ha1 into Hnewp, Ha2 into Hchk, Ha3 into Hpay. apply opt_amt_bridge in Hamt.
    set (b1 := if qos =? 0 then b else setb_qos b qos) in *.
    assert (Hb1 : b_deposit b1 = b_deposit b /\ b_owner b1 = b_owner b)
      by (subst b1; destruct (qos =? 0); auto).
    destruct Hb1 as [Hb1d Hb1o].
    pose proof (opt_pay_frame _ _ _ _ _ _ Hpay) as (_ & Ei0 & _ & _).
    pose proof (opt_pay_bal _ _ _ _ _ _ Hamt Hpay) as (Hamt0 & Hbal).
    specialize (Hbal (User owner)). cbn [eqb EqDec_Acct acct_eqb] in Hbal. rewrite Z.eqb_refl in Hbal.
    b2p. subst owner.
    match type of H with (if ?u then _ else _) = _ => destruct u end.
    2:{ inv_ok H. subst s'. apply Hsame. assumption. }
    assert (Hex : exists b', b_deposit b' = b_deposit b + amt /\ b_owner b' = b_owner b
                   /\ binds s' = set (svc, prov) b' (binds s) /\ bank s' = bank s1).
    { destruct newp as [[raw p]|]; inv_ok H; subst s'; eexists; sproj; rewrite Ei0;
        (split; [|split; [|split; reflexivity]]);
        cbn [b_deposit b_owner setb_raw setb_deposit]; lia || assumption. }
    destruct Hex as (b' & Hd' & Ho' & Ei' & Eb').
    destruct (grow_case s s' (svc, prov) b' amt k) as [G1 G2]; try assumption.
    + unfold dep_at. rewrite (fget_dep_of _ _ _ Hb). lia.
    + rewrite Ho'. unfold bal at 1. rewrite Eb'. fold (bal s1 (User (b_owner b))). lia.
    + split; [exact G1|]. split.
      * intros b0 Hb0. rewrite Ei', get_set.
        destruct (eqb_spec k (svc, prov)) as [->|_]; [|eauto].
        injection (eq_trans (eq_sym Hb0) Hb) as ->. eauto.
      * intros x Hx E. destruct (G2 x Hx E) as (-> & -> & Hg & Hbl).
        eexists. split; [exact Hg|]. split; [exact Hbl|]. right. left. cbn [fst snd]. rewrite Ho'. eauto.
  - (* disable *) unfold h_disable in H. inv_ok H. subst s'. rename a into b.
    destruct (grow_case s (put_binding s (svc, prov) (setb_dtime (setb_avail b false) (time s)))
                (svc, prov) (setb_dtime (setb_avail b false) (time s)) 0 k) as [G1 G2]; try reflexivity.
    + cbn [b_deposit setb_dtime setb_avail]. unfold dep_at. rewrite (fget_dep_of _ _ _ Ha). lia.
    + unfold bal. sproj. lia.
    + split; [exact G1|]. split.
      * intros b0 Hb0. sproj. rewrite get_set.
        destruct (eqb_spec k (svc, prov)) as [->|_]; [|eauto].
        injection (eq_trans (eq_sym Hb0) Ha) as ->. eauto.
      * intros x Hx E. destruct (G2 x Hx E) as (_ & -> & _). lia.
  - (* enable *) unfold h_enable in H. inv_ok H. subst s'.
    rename a into b, a0 into amt, a1 into md, a2 into s1.
    rename Ha into Hb, Ha0 into Hamt, Ha1 into Hmd, Ha2 into Hpay. apply opt_amt_bridge in Hamt.
    pose proof (opt_pay_frame _ _ _ _ _ _ Hpay) as (_ & Ei0 & _ & _).
    pose proof (opt_pay_bal _ _ _ _ _ _ Hamt Hpay) as (Hamt0 & Hbal).
    specialize (Hbal (User owner)). cbn [eqb EqDec_Acct acct_eqb] in Hbal. rewrite Z.eqb_refl in Hbal.
    b2p. subst owner.
    match goal with |- context [put_binding s1 _ ?bb] => set (b' := bb) end.
    destruct (grow_case s (put_binding s1 (svc, prov) b') (svc, prov) b' amt k) as [G1 G2]; try assumption.
    + sproj. now rewrite Ei0.
    + subst b'. cbn [b_deposit setb_deposit setb_dtime setb_avail]. unfold dep_at.
      rewrite (fget_dep_of _ _ _ Hb). lia.
    + subst b'. cbn [b_owner setb_deposit setb_dtime setb_avail].
      change (bal (put_binding s1 (svc, prov) _) (User (b_owner b))) with (bal s1 (User (b_owner b))). lia.
    + split; [exact G1|]. split.
      * intros b0 Hb0. sproj. rewrite Ei0, get_set.
        destruct (eqb_spec k (svc, prov)) as [->|_]; [|eauto].
        injection (eq_trans (eq_sym Hb0) Hb) as ->. eauto.
      * intros x Hx E. destruct (G2 x Hx E) as (-> & -> & Hg & Hbl).
        eexists. split; [exact Hg|]. split; [exact Hbl|]. right. right. cbn [fst snd]. eauto.
  - (* set withdraw *) apply Hsame. unfold h_set_withdraw in H. inv_ok H. now subst.
  - (* call *) apply Hsame. unfold h_call, create_context in H. inv_ok H. now subst.
  - (* modcall *) apply Hsame. unfold create_context in H. inv_ok H. now subst.
  - (* pause *) apply Hsame. unfold h_pause, authorized in H. inv_ok H. now subst.
  - (* start *) apply Hsame. unfold h_start, authorized in H. inv_ok H.
    match type of H with (if ?b then _ else _) = _ => destruct b end; inv_ok H; now subst.
  - (* kill *) apply Hsame. unfold h_kill, authorized in H. inv_ok H. now subst.
  - (* update ctx *) apply Hsame. unfold h_update_ctx, update_ctx_tail, authorized in H. inv_ok H. now subst.
  - (* withdraw *) apply Hsame. unfold h_withdraw in H. inv_ok H.
    destruct (prov =? 0).
    + inv_ok H. subst. sproj. apply transfer_core in Ha. destruct Ha as (_ & -> & _). reflexivity.
    + inv_ok H. subst. sproj. apply transfer_core in Ha0. destruct Ha0 as (_ & -> & _).
      destruct (get0 prov (earned s) =? get0 owner (own_earned s)); [|destruct (_ <? 0)]; inv_ok Ha; now subst.
  - (* transfer *) apply Hsame. unfold h_transfer in H. inv_ok H.
    apply transfer_core in H. tauto.
  - (* module update *) apply Hsame. mod_shape H; reflexivity.
  - (* module pause *) apply Hsame. mod_shape H; reflexivity.
  - (* module start *) apply Hsame. mod_shape H; reflexivity.
  - (* module kill *) apply Hsame. mod_shape H; reflexivity.
Qed.

(* the owner tops up by 60 while updating: the deposit grows by 60 and he pays 60 *)
Example ex_grow :
  exists s', handle exd_cfg ex_bound (OUpdate 1 11 (CBase 60) None 0 10 true) = Ok s'
    /\ dep_at s' (1, 11) = dep_at ex_bound (1, 11) + 60
    /\ bal s' (User 10) = bal ex_bound (User 10) - 60.
Proof. eexists. split; [vm_compute; reflexivity|]. vm_compute. split; reflexivity. Qed.

(* ------------------------------------------------------------------ *)
(* C14: the minimum deposit is enforced *)

Theorem C14_reject_bind cfg s svc prov dep pr qos owner ok amt raw s' :
  one_base_coin dep = Ok amt -> pr = Some raw ->
  amt < min_dep_val cfg (parse_pricing raw) ->
  h_bind cfg s svc prov dep pr qos owner ok <> Ok s'.
Proof.
  intros Hd Hp Hlt H. unfold h_bind in H. inv_ok H. subst pr.
  match goal with Hm : min_deposit _ _ = Ok _ |- _ => apply min_deposit_ok in Hm; rename Hm into Hmd end.
  match goal with E : Some _ = Some _ |- _ => injection E as -> end.
  b2p. rewrite Hd in Ha. injection Ha as <-. lia.
Qed.

(* a binding is created available, so the converse reading: success implies the minimum *)
Theorem C14_bind_ok cfg s svc prov dep pr qos owner ok s' :
  h_bind cfg s svc prov dep pr qos owner ok = Ok s' ->
  exists amt raw, dep = CBase amt /\ pr = Some raw
    /\ get (svc, prov) (binds s') = Some (mkBinding amt raw qos true TIME0 owner)
    /\ pricing_of s' (svc, prov) = parse_pricing raw
    /\ min_dep_val cfg (parse_pricing raw) <= amt.
Proof.
  intros H. unfold h_bind in H. inv_ok H. sproj. subst pr.
  match goal with Hm : min_deposit _ _ = Ok _ |- _ => apply min_deposit_ok in Hm; rename Hm into Hmd end.
  b2p. exists a, a0.
  assert (Hdep : dep = CBase a).
  { destruct dep; cbn in Ha; try discriminate. destruct (0 <? amt); [|discriminate]. now injection Ha as ->. }
  repeat split; try assumption; try lia.
  - destruct (get prov (owner_of a2)); inv_ok H; subst s'; sproj; apply get_set_eq.
  - unfold pricing_of. destruct (get prov (owner_of a2)); inv_ok H; subst s'; sproj; now rewrite get_set_eq.
Qed.

Example ex_reject_bind s' :
  h_bind exd_cfg ex_bound 1 12 (CBase 199) (Some ex_raw) 5 10 true <> Ok s'.
Proof. apply (C14_reject_bind _ _ _ _ _ _ _ _ _ 199 ex_raw); [reflexivity|reflexivity|vm_compute; reflexivity]. Qed.

(* the price terms after an update *)
Definition price_after_update (s : State) (k : BKey) (pr : option (option RawPricing)) : Pricing :=
  match pr with Some (Some raw) => parse_pricing raw | _ => pricing_of s k end.

Definition is_update (dep : Coins) (pr : option (option RawPricing)) (qos : Z) : bool :=
  negb (qos =? 0) || negb (coins_empty dep) || match pr with Some _ => true | None => false end.

(* without any invariant: an update that changes something *)
Theorem C14_reject_update_changed cfg s svc prov dep pr qos owner ok b amt s' :
  get (svc, prov) (binds s) = Some b -> b_avail b = true ->
  (if coins_empty dep then Ok 0 else one_base_coin dep) = Ok amt ->
  is_update dep pr qos = true ->
  b_deposit b + amt < min_dep_val cfg (price_after_update s (svc, prov) pr) ->
  h_update cfg s svc prov dep pr qos owner ok <> Ok s'.
Proof.
  intros Hb Hav Hamt Hupd Hlt H. unfold h_update in H. inv_ok H.
  rewrite Hb in Ha. injection Ha as <-.
  apply opt_amt_bridge in Ha0. rewrite Hamt in Ha0. injection Ha0 as <-.
  fold (is_update dep pr qos) in Ha2. rewrite Hupd, Hav in Ha2. cbn [andb] in Ha2.
  inv_ok Ha2.
  match goal with Hm : min_deposit _ _ = Ok _ |- _ => apply min_deposit_ok in Hm; rename Hm into Hmd end.
  b2p.
  match goal with Hle : _ <= b_deposit (setb_deposit _ _) |- _ =>
    cbn [b_deposit setb_deposit] in Hle; rename Hle into Hle' end.
  assert (Hd1 : b_deposit (if qos =? 0 then b else setb_qos b qos) = b_deposit b) by (destruct (qos =? 0); reflexivity).
  rewrite Hd1 in Hle'.
  assert (Hp : match a1 with Some (_, p) => p | None => pricing_of s (svc, prov) end
               = price_after_update s (svc, prov) pr).
  { unfold price_after_update. destruct pr as [[raw|]|]; inv_ok Ha1; subst; reflexivity. }
  rewrite Hp in Hmd. lia.
Qed.

(* with I_min of the start state the "changes something" side condition disappears *)
Theorem C14_reject_update_BDM cfg s svc prov dep pr qos owner ok b amt s' :
  BDM cfg s ->
  get (svc, prov) (binds s) = Some b -> b_avail b = true ->
  (if coins_empty dep then Ok 0 else one_base_coin dep) = Ok amt ->
  b_deposit b + amt < min_dep_val cfg (price_after_update s (svc, prov) pr) ->
  h_update cfg s svc prov dep pr qos owner ok <> Ok s'.
Proof.
  intros HB Hb Hav Hamt Hlt.
  destruct (is_update dep pr qos) eqn:Hupd; [eapply C14_reject_update_changed; eauto|].
  exfalso. unfold is_update in Hupd. b2p.
  match goal with Hce : coins_empty dep = true |- _ => rewrite Hce in Hamt end.
  injection Hamt as <-.
  destruct pr; [discriminate|]. cbn [price_after_update] in Hlt.
  pose proof (BDM_min _ _ _ _ HB Hb Hav). lia.
Qed.

Theorem C14_reject_update cfg s svc prov dep pr qos owner ok b amt s' :
  Inv cfg s ->
  get (svc, prov) (binds s) = Some b -> b_avail b = true ->
  (if coins_empty dep then Ok 0 else one_base_coin dep) = Ok amt ->
  b_deposit b + amt < min_dep_val cfg (price_after_update s (svc, prov) pr) ->
  h_update cfg s svc prov dep pr qos owner ok <> Ok s'.
Proof. intros HI. apply C14_reject_update_BDM. now apply Inv_BDM. Qed.

(* raising the price to 130 needs a deposit of 260: 240 + 19 is rejected *)
Example ex_reject_update s' :
  h_update exd_cfg ex_bound 1 11 (CBase 19) (Some (Some (mkRaw (130 * ONE) [] []))) 0 10 true <> Ok s'.
Proof.
  eapply (C14_reject_update_BDM _ _ _ _ _ _ _ _ _ _ 19 _ ex_bound_BDM).
  - apply ex_bound_facts.
  - reflexivity.
  - reflexivity.
  - vm_compute. reflexivity.
Qed.
(* ... while 240 + 20 is accepted *)
Example ex_accept_update :
  is_ok (h_update exd_cfg ex_bound 1 11 (CBase 20) (Some (Some (mkRaw (130 * ONE) [] []))) 0 10 true) = true.
Proof. vm_compute. reflexivity. Qed.

Theorem C14_reject_enable cfg s svc prov dep owner ok b amt s' :
  get (svc, prov) (binds s) = Some b ->
  (if coins_empty dep then Ok 0 else one_base_coin dep) = Ok amt ->
  b_deposit b + amt < min_dep_val cfg (pricing_of s (svc, prov)) ->
  h_enable cfg s svc prov dep owner ok <> Ok s'.
Proof.
  intros Hb Hamt Hlt H. unfold h_enable in H. inv_ok H.
  rewrite Hb in Ha. injection Ha as <-.
  apply opt_amt_bridge in Ha0. rewrite Hamt in Ha0. injection Ha0 as <-.
  apply min_deposit_ok in Ha1. subst a1. b2p.
  cbn [b_deposit setb_deposit] in *. lia.
Qed.

(* a disabled binding whose deposit was taken back cannot be enabled with less than 200 *)
Definition ex_refunded : State := fst (step exd_cfg ex_disabled (ORefundDep 1 11 10 true)).
Example ex_reject_enable s' :
  h_enable exd_cfg ex_refunded 1 11 (CBase 199) 10 true <> Ok s'.
Proof.
  eapply (C14_reject_enable _ _ _ _ _ _ _ (mkBinding 0 ex_raw 5 false 1000 10) 199).
  - vm_compute. reflexivity.
  - reflexivity.
  - vm_compute. reflexivity.
Qed.
Example ex_accept_enable :
  is_ok (h_enable exd_cfg ex_refunded 1 11 (CBase 200) 10 true) = true.
Proof. vm_compute. reflexivity. Qed.

(* ------------------------------------------------------------------ *)
(* C04: the exact effect of a slash; C14: it disables an under-funded binding *)

Theorem C04_slash_effect cfg s r s1 :
  slash cfg s r = Ok s1 ->
  exists q rc b,
    get r (reqs s) = Some q /\ get (rid_ctx r) (ctxs s) = Some rc
    /\ get (c_svc rc, r_prov q) (binds s) = Some b
    /\ 0 <= mul_trunc (b_deposit b) (p_slash cfg) <= b_deposit b
    /\ mul_trunc (b_deposit b) (p_slash cfg) <= bal s Deposit
    /\ (b_avail b = true -> pr_price (pricing_of s (c_svc rc, r_prov q)) * p_multiple cfg < INT_LIMIT)
    /\ s1 = emit (EvSlash r (c_svc rc, r_prov q) (mul_trunc (b_deposit b) (p_slash cfg)))
             (put_binding
                (set_supply
                   (set_bank s (set Deposit (bal s Deposit - mul_trunc (b_deposit b) (p_slash cfg)) (bank s)))
                   (supply s - mul_trunc (b_deposit b) (p_slash cfg)))
                (c_svc rc, r_prov q)
                (slashed_binding cfg s (c_svc rc, r_prov q) b)).
Proof. apply slash_inv. Qed.

(* the same, field by field *)
Theorem C04_slash_fields cfg s r s1 :
  slash cfg s r = Ok s1 ->
  exists q rc b b',
    let k := (c_svc rc, r_prov q) in
    let amt := mul_trunc (b_deposit b) (p_slash cfg) in
    get r (reqs s) = Some q /\ get (rid_ctx r) (ctxs s) = Some rc
    /\ get k (binds s) = Some b /\ get k (binds s1) = Some b'
    /\ 0 <= amt <= b_deposit b
    /\ b_deposit b' = b_deposit b - amt
    /\ b_owner b' = b_owner b /\ b_raw b' = b_raw b /\ b_qos b' = b_qos b
    /\ bal s1 Deposit = bal s Deposit - amt
    /\ (forall a, a <> Deposit -> bal s1 a = bal s a)
    /\ supply s1 = supply s - amt
    /\ (forall k', k' <> k -> get k' (binds s1) = get k' (binds s))
    /\ pricing s1 = pricing s /\ reqs s1 = reqs s /\ ctxs s1 = ctxs s
    /\ time s1 = time s /\ height s1 = height s
    /\ log s1 = EvSlash r k amt :: log s.
Proof.
  intros H. apply slash_inv in H. destruct H as (q & rc & b & Hq & Hrc & Hb & Hamt & Hbal & _ & ->).
  pose proof (slashed_binding_fields cfg s (c_svc rc, r_prov q) b) as (Fd & Fo & Fr & Fq & _ & _).
  exists q, rc, b, (slashed_binding cfg s (c_svc rc, r_prov q) b). cbn zeta.
  repeat split; try assumption; try lia; sproj; try reflexivity.
  - now rewrite get_set_eq.
  - unfold bal. sproj. rewrite get0_set. cbn [eqb EqDec_Acct acct_eqb]. reflexivity.
  - intros a Ha. unfold bal. sproj. rewrite get0_set. now rewrite (neq_eqb _ _ Ha).
  - intros k' Hk'. now rewrite get_set_neq.
Qed.

Theorem C14_slash_disables cfg s r s1 :
  slash cfg s r = Ok s1 ->
  exists q rc b b',
    let k := (c_svc rc, r_prov q) in
    get r (reqs s) = Some q /\ get (rid_ctx r) (ctxs s) = Some rc
    /\ get k (binds s) = Some b /\ get k (binds s1) = Some b'
    /\ b_deposit b' = b_deposit b - mul_trunc (b_deposit b) (p_slash cfg)
    /\ (b_avail b' = true <->
          b_avail b = true /\ min_dep_val cfg (pricing_of s1 k) <= b_deposit b')
    /\ (b_avail b = true -> b_avail b' = false -> b_dtime b' = time s)
    /\ (b_avail b' = b_avail b -> b_dtime b' = b_dtime b).
Proof.
  intros H. apply slash_inv in H. destruct H as (q & rc & b & Hq & Hrc & Hb & Hamt & Hbal & _ & ->).
  pose proof (slashed_binding_fields cfg s (c_svc rc, r_prov q) b) as (Fd & _ & _ & _ & Fa & Ft).
  exists q, rc, b, (slashed_binding cfg s (c_svc rc, r_prov q) b). cbn zeta.
  assert (Ep : forall k, pricing_of (emit (EvSlash r (c_svc rc, r_prov q) (mul_trunc (b_deposit b) (p_slash cfg)))
             (put_binding (set_supply (set_bank s
                (set Deposit (bal s Deposit - mul_trunc (b_deposit b) (p_slash cfg)) (bank s)))
                (supply s - mul_trunc (b_deposit b) (p_slash cfg))) (c_svc rc, r_prov q)
                (slashed_binding cfg s (c_svc rc, r_prov q) b))) k = pricing_of s k) by reflexivity.
  rewrite Ep, Fd.
  split; [assumption|]. split; [assumption|]. split; [assumption|].
  split; [sproj; now rewrite get_set_eq|]. split; [reflexivity|].
  rewrite Fa, Ft.
  destruct (b_avail b); cbn [andb];
    destruct (b_deposit b - mul_trunc (b_deposit b) (p_slash cfg) <? min_dep_val cfg (pricing_of s (c_svc rc, r_prov q))) eqn:E;
    cbn [negb]; b2p; repeat split; try tauto; try congruence; try lia;
    try (intros [? ?]; (discriminate || lia)).
Qed.

(* slash fraction 0.25 of 240 = 60: 180 < 200, the binding is disabled at the block time *)
Example ex_slash :
  exists s1, slash exd_cfg ex_called ex_rid = Ok s1
    /\ get (1, 11) (binds s1) = Some (mkBinding 180 ex_raw 5 false (time ex_called) 10)
    /\ bal s1 Deposit = 180 /\ supply s1 = supply ex_called - 60.
Proof. eexists. split; [vm_compute; reflexivity|]. vm_compute. repeat split. Qed.
(* with a deposit of 400 the same slash (100) leaves 300 >= 200 and the binding stays available *)
Example ex_slash_stays :
  let s := run exd_cfg ex_s0
     [ ODefine 1 7 true; OBind 1 11 (CBase 400) (Some ex_raw) 5 10 true;
       OCall ex_ctx 1 [11] 20 0 (CBase 500) 10 false false 0 0 true true; OEndBlock 5 ] in
  exists s1, slash exd_cfg s ex_rid = Ok s1
    /\ get (1, 11) (binds s1) = Some (mkBinding 300 ex_raw 5 true TIME0 10).
Proof. eexists. split; [vm_compute; reflexivity|]. vm_compute. reflexivity. Qed.

(* the hypotheses of slash_ok (Proofs/BankLemmas.v) hold for the issued request *)
Example ex_slash_ok : exists s1, slash exd_cfg ex_called ex_rid = Ok s1.
Proof.
  apply (slash_ok exd_cfg ex_called ex_rid (mkReq 11 100 11 true)
           (ctx_or_zero ex_called ex_ctx) (mkBinding 240 ex_raw 5 true TIME0 10)).
  - vm_compute. split; discriminate.
  - apply ex_called_facts.
  - vm_compute. reflexivity.
  - vm_compute. reflexivity.
  - vm_compute. discriminate.
  - vm_compute. discriminate.
  - intros _. vm_compute. reflexivity.
Qed.

(* C14_bind_ok on the binding of the example history *)
Example ex_bind_ok :
  exists s', h_bind exd_cfg (run exd_cfg ex_s0 [ODefine 1 7 true]) 1 11 (CBase 240) (Some ex_raw) 5 10 true = Ok s'
    /\ min_dep_val exd_cfg (pricing_of s' (1, 11)) = 200.
Proof. eexists. split; [vm_compute; reflexivity|]. vm_compute. reflexivity. Qed.
