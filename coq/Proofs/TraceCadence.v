(* C10 cadence as a trace theorem.  Anchor: a reachable state in which the context c has a
   pending expiry entry at E (its batch `counter` is in flight).  Along any run in which, at
   every operation boundary, c is Running with the same timeout t and frequency f, the NEXT
   batch (counter + 1), if it is started at all, is started at exactly E - t + f; so for a
   batch started at H with timeout t (E = H + t, lemma L1) consecutive starts are f apart.
   (Pauses and updates emit no event, so "no pause/update in between" is expressed on the
   states of the run, not on the log.) *)
From Coq Require Import List ZArith Bool Lia Permutation.
From SVC Require Import Base.AMap Base.Res Base.Dec Model.Types Model.Pricing
  Model.Handlers Model.EndBlock Model.Step Proofs.Inv Proofs.Lemmas Proofs.ReqLemmas
  Proofs.CtxOps Proofs.InvSched Proofs.InvCtx Proofs.InvEscrow Proofs.InvReq Proofs.InvAll
  Proofs.StepSpecs_ctx Proofs.TraceBase Proofs.C16Proofs Proofs.InvCount Proofs.C10Proofs
  Proofs.TraceBatch Proofs.ReachRun.
Import ListNotations.
Open Scope Z_scope.

Lemma count_le1_unique {A} (f : A -> bool) l a b :
  count f l <= 1 -> In a l -> In b l -> f a = true -> f b = true -> a = b.
Proof.
  induction l as [|x l IH]; [intros _ []|]. rewrite count_cons. intros Hc Ha Hb Fa Fb.
  pose proof (count_nonneg f l) as Hn.
  destruct Ha as [->|Ha], Hb as [->|Hb]; [reflexivity| | |].
  - rewrite Fa in Hc. assert (1 <= count f l) by (apply count_pos_In; eauto). lia.
  - rewrite Fb in Hc. assert (1 <= count f l) by (apply count_pos_In; eauto). lia.
  - apply IH; auto. destruct (f x); lia.
Qed.

Section Cadence.
  Variable cfg : Params.
  Hypothesis Hcfg : wf_cfg cfg.
  Variable c : CtxId.
  Variables m E t f : Z.      (* m: index of the next batch; E: pending expiry height *)

  Definition qrec (rc : Ctx) : Prop := c_state rc = Running /\ c_timeout rc = t /\ c_freq rc = f.
  Definition quiet_at (s : State) : Prop := exists rc, get c (ctxs s) = Some rc /\ qrec rc.

  Definition Sd (s : State) : Prop := exists k, In (EvBatchStart c m (E - t + f) k) (blog s).
  Definition Dd (s : State) : Prop :=
    nstart c m s = 0 /\ ~ (exists rc, get c (ctxs s) = Some rc /\ c_state rc = Running).
  Definition AB (s : State) : Prop :=
    nstart c m s = 0 /\ exists rc, get c (ctxs s) = Some rc /\ qrec rc /\ c_counter rc + 1 = m
      /\ (get c (expq_h s) = Some E
          \/ (get c (expq_h s) = None /\ get c (newq_h s) = Some (E - t + f))).
  Definition M (s : State) : Prop := Sd s \/ Dd s \/ AB s.

  Lemma Sd_grow s s' l : blog s' = l ++ blog s -> Sd s -> Sd s'.
  Proof. intros Eb (k & Hin). exists k. rewrite Eb. apply in_or_app. now right. Qed.

  Lemma nstart_keep s s' l : blog s' = l ++ blog s -> count (is_start c m) l = 0 ->
    nstart c m s' = nstart c m s.
  Proof. intros Eb Hz. rewrite (nstart_app _ _ _ _ _ Eb). lia. Qed.

  Lemma count_start_done c0 rc outs : count (is_start c m) (done_events c0 rc outs) = 0.
  Proof.
    unfold done_events. rewrite count_cons. cbn [is_start].
    destruct (c_mod rc =? 0); rewrite ?count_cons, ?count_nil; cbn [is_start]; lia.
  Qed.

  (* the batch-level events of expire_one contain no start *)
  Lemma expire_one_nostart s c0 rc0 : Inv cfg s -> get c0 (ctxs s) = Some rc0 ->
    exists l, blog (expire_one cfg s c0) = l ++ blog s /\ count (is_start c m) l = 0.
  Proof.
    intros HI G. eexists. split; [rewrite (expire_one_blog cfg s c0 rc0 HI G), app_assoc; reflexivity|].
    rewrite count_app. destruct (fin_b rc0), (c_bdone rc0); rewrite ?count_start_done; reflexivity.
  Qed.

  Lemma M_expire_one s c0 :
    Inv cfg s -> M s -> In (height s, c0) (expq s) -> height s < HEIGHT_BOUND -> M (expire_one cfg s c0).
  Proof.
    intros HI HM Hdue Hb.
    destruct (expire_one_spec cfg s c0 Hcfg HI Hdue Hb)
      as (rc0 & rc1 & Erc0 & Ee0 & En0 & Hrc1 & Ht & _ & _ & Ee' & Hcase).
    destruct (expire_one_nostart s c0 rc0 HI Erc0) as (l & Eb & Hz).
    pose proof (nstart_keep _ _ _ Eb Hz) as Hns.
    assert (Est : c_state rc1 = c_state rc0 /\ c_timeout rc1 = c_timeout rc0 /\ c_freq rc1 = c_freq rc0
                  /\ c_counter rc1 = c_counter rc0)
      by (destruct Hrc1 as [->|[_ ->]]; repeat split).
    destruct Est as (Est & Eti & Efr & Ecn).
    destruct HM as [HS|[(Hn0 & HD)|(Hn0 & rc & Grc & Hq & Hm & Hent)]].
    - left. eapply Sd_grow; eauto.
    - right; left. split; [congruence|]. intros (rcx & Gx & Hr). apply HD.
      destruct (eqb_spec c c0) as [->|Hne].
      + assert (rcx = rc1) by (destruct Hcase as [(Ex & _)|[(Ex & _)|(Ex & _)]]; congruence). subst rcx.
        exists rc0. split; [exact Erc0|congruence].
      + rewrite (t_ctxs _ _ _ Ht) in Gx by assumption. eauto.
    - destruct (eqb_spec c c0) as [<-|Hne].
      + assert (rc0 = rc) by congruence. subst rc0. destruct Hq as (Q1 & Q2 & Q3).
        assert (HE : height s = E) by (destruct Hent as [He|[He _]]; congruence).
        destruct Hcase as [(Ex & _)|[(Ex & En' & _)|(_ & _ & Hp)]]; [| |congruence].
        * right; left. split; [congruence|]. intros (rcx & Gx & _). congruence.
        * right; right. split; [congruence|]. exists rc1. split; [exact Ex|].
          split; [unfold qrec; repeat split; congruence|]. split; [congruence|].
          right. split; [exact Ee'|]. rewrite En', Q2, Q3, HE. reflexivity.
      + right; right. split; [congruence|]. exists rc.
        rewrite (t_ctxs _ _ _ Ht), (t_expq_h _ _ _ Ht), (t_newq_h _ _ _ Ht) by assumption. auto.
  Qed.

  Lemma M_new_one s c0 :
    Inv cfg s -> M s -> In (height s, c0) (newq s) -> height s < HEIGHT_BOUND -> M (new_one cfg s c0).
  Proof.
    intros HI HM Hdue Hb.
    destruct (new_one_spec cfg s c0 HI Hdue) as (rc0 & Erc0 & En0 & Ee0 & Ht & _ & _ & En' & Hcase).
    pose proof (new_one_blog cfg s c0 rc0 Erc0) as Hblog.
    (* every case: blog s' = l ++ blog s *)
    assert (Hl : exists l, blog (new_one cfg s c0) = l ++ blog s
                 /\ (c <> c0 -> count (is_start c m) l = 0)).
    { destruct Hblog as [(_ & ->)|[(_ & _ & n & -> & _)|[(_ & _ & -> & _)|(_ & -> & _)]]].
      - exists [EvCtxRemoved c0]. split; [reflexivity|reflexivity].
      - eexists [_]. split; [reflexivity|]. intros Hne. rewrite count_cons, count_nil. cbn [is_start].
        destruct (eqb_spec c0 c); [congruence|]. reflexivity.
      - eexists. split; [reflexivity|]. intros _. destruct (c_mod rc0 =? 0); reflexivity.
      - exists []. split; reflexivity. }
    destruct Hl as (l & Eb & Hz).
    destruct HM as [HS|[(Hn0 & HD)|(Hn0 & rc & Grc & Hq & Hm & Hent)]].
    - left. eapply Sd_grow; eauto.
    - destruct (eqb_spec c c0) as [<-|Hne].
      + (* c itself is due but not running: nothing happens to it *)
        assert (Hnr : c_state rc0 <> Running) by (intros Hr; apply HD; eauto).
        destruct Hblog as [(Hd & _)|[(_ & Hr & _)|[(_ & Hr & _)|(_ & Eb' & Ex)]]]; try congruence.
        * unfold d5 in Hd. apply is_state_false in Hnr. rewrite Hnr in Hd. discriminate.
        * right; left. split; [unfold nstart in *; now rewrite Eb'|].
          intros (rcx & Gx & Hr). assert (rcx = rc0) by congruence. subst. contradiction.
      + right; left. split; [rewrite (nstart_keep _ _ _ Eb (Hz Hne)); exact Hn0|].
        intros (rcx & Gx & Hr). apply HD. rewrite (t_ctxs _ _ _ Ht) in Gx by assumption. eauto.
    - destruct (eqb_spec c c0) as [<-|Hne].
      + assert (rc0 = rc) by congruence. subst rc0. destruct Hq as (Q1 & Q2 & Q3).
        assert (HE : height s = E - t + f) by (destruct Hent as [He|[_ He]]; congruence).
        destruct Hblog as [(Hd & Eb')|[(_ & _ & n & Eb' & _)|[(_ & _ & Eb' & Ex)|(Hr & _)]]]; [| | |congruence].
        * right; left. split.
          { rewrite (nstart_keep _ _ [EvCtxRemoved c] Eb' eq_refl). exact Hn0. }
          intros (rcx & Gx & _).
          destruct Hcase as [(_ & Ex & _)|[(Hx & _)|[(Hx & _)|(Hx & _)]]]; congruence.
        * left. exists n. rewrite Eb', <- Hm, <- HE. now left.
        * right; left. split.
          { rewrite (nstart_keep _ _ _ Eb'); [exact Hn0|]. destruct (c_mod rc =? 0); reflexivity. }
          intros (rcx & Gx & Hr). rewrite Ex in Gx. injection Gx as <-. discriminate Hr.
      + right; right. split; [rewrite (nstart_keep _ _ _ Eb (Hz Hne)); exact Hn0|]. exists rc.
        rewrite (t_ctxs _ _ _ Ht), (t_expq_h _ _ _ Ht), (t_newq_h _ _ _ Ht) by assumption. auto.
  Qed.

  Lemma M_tick s dt : M s -> M (tick s dt).
  Proof. intros H. exact H. Qed.

  (* a message: batch-level log grows by events that are not starts *)
  Lemma msg_nostart s o s' :
    Inv cfg s -> wf_op s o -> (forall dt, o <> OEndBlock dt) -> handle cfg s o = Ok s' ->
    exists l, blog s' = l ++ blog s /\ count (is_start c m) l = 0.
  Proof.
    intros HI Hwf Hne H.
    assert (Hother : (forall r who code out ov ok, o <> ORespond r who code out ov ok) ->
              exists l, blog s' = l ++ blog s /\ count (is_start c m) l = 0).
    { intros Hnr. destruct (C12_callback_msg_other _ _ _ _ Hcfg HI Hwf Hne H Hnr) as [Eb|(c1 & Eb)].
      - exists []. split; [exact Eb|reflexivity].
      - exists [EvCtxCreated c1]. split; [exact Eb|reflexivity]. }
    destruct o; try (apply Hother; intros; discriminate).
    cbn [handle] in H. destruct (respond_blog _ _ _ _ _ _ _ _ _ Hcfg HI H) as (rc & _ & Eb).
    eexists. split; [exact Eb|]. destruct (_ =? _); [apply count_start_done|reflexivity].
  Qed.

  Lemma M_msg s o s' :
    Inv cfg s -> M s -> wf_op s o -> (forall dt, o <> OEndBlock dt) -> handle cfg s o = Ok s' ->
    quiet_at s -> quiet_at s' -> M s'.
  Proof.
    intros HI HM Hwf Hne H (rcq & Gq & Hq) (rcq' & Gq' & Hq').
    destruct (msg_nostart s o s' HI Hwf Hne H) as (l & Eb & Hz).
    destruct HM as [HS|[(Hn0 & HD)|(Hn0 & rc & Grc & _ & Hm & Hent)]].
    - left. eapply Sd_grow; eauto.
    - exfalso. apply HD. exists rcq. split; [exact Gq|apply Hq].
    - right; right. split; [rewrite (nstart_keep _ _ _ Eb Hz); exact Hn0|].
      exists rcq'. split; [exact Gq'|]. split; [exact Hq'|].
      split; [rewrite (C10_counter_msg _ _ _ _ _ _ _ Hcfg HI Hwf Hne H Grc Gq'); exact Hm|].
      destruct (C10_L4_msg_queues _ _ _ _ Hcfg HI Hwf Hne H) as (_ & _ & Eqh & Hnq).
      rewrite Eqh. destruct (Hnq c) as [(En & _)|(_ & En & Ee & _)].
      + rewrite En. exact Hent.
      + destruct Hent as [He|[_ He]]; congruence.
  Qed.

  (* ---- runs ---- *)

  Fixpoint quiet_run (s : State) (ops : list Op) : Prop :=
    match ops with
    | [] => True
    | o :: r => quiet_at (fst (step cfg s o)) /\ quiet_run (fst (step cfg s o)) r
    end.

  Lemma M_step s o :
    Inv cfg s -> M s -> wf_op s o -> quiet_at s -> quiet_at (fst (step cfg s o)) ->
    M (fst (step cfg s o)).
  Proof.
    intros HI HM Hwf Hq Hq'. unfold step in *.
    destruct (handle cfg s o) as [s'| |] eqn:Eh; cbn [fst] in *; try exact HM.
    destruct o; try (eapply M_msg; [exact HI|exact HM|exact Hwf|discriminate|exact Eh|exact Hq|exact Hq']).
    cbn [handle] in Eh. injection Eh as <-. cbn [wf_op] in Hwf. destruct Hwf as (Hdt & Hb).
    assert (P1 : forall s c0, Inv cfg s -> M s -> In (height s, c0) (expq s) ->
              height s < HEIGHT_BOUND -> M (expire_one cfg s c0)) by (intros; now apply M_expire_one).
    assert (P2 : forall s c0, Inv cfg s -> M s -> In (height s, c0) (newq s) ->
              height s < HEIGHT_BOUND -> M (new_one cfg s c0)) by (intros; now apply M_new_one).
    destruct (end_blocker_P cfg M Hcfg P1 P2 s HI HM Hb) as (_ & HM2 & _). exact HM2.
  Qed.

  Lemma M_run ops : forall s,
    Reach cfg s -> M s -> quiet_at s -> wf_run cfg s ops -> quiet_run s ops ->
    Reach cfg (run cfg s ops) /\ M (run cfg s ops).
  Proof.
    induction ops as [|o r IH]; intros s Hr HM Hq Hw Hqr; [split; assumption|].
    destruct Hw as (Hwo & Hwr). destruct Hqr as (Hq1 & Hqr).
    unfold run. cbn [fold_left]. apply IH; try assumption.
    - now apply Reach_step.
    - apply M_step; try assumption. now apply Reach_Inv.
  Qed.
End Cadence.

(* the trace theorem *)
Theorem C10_cadence cfg s c rc E ops H' k :
  wf_cfg cfg -> Reach cfg s ->
  get c (ctxs s) = Some rc -> get c (expq_h s) = Some E ->
  wf_run cfg s ops ->
  quiet_at c (c_timeout rc) (c_freq rc) s ->
  quiet_run cfg c (c_timeout rc) (c_freq rc) s ops ->
  In (EvBatchStart c (c_counter rc + 1) H' k) (log (run cfg s ops)) ->
  H' = E - c_timeout rc + c_freq rc.
Proof.
  intros Hcfg Hr Grc Ge Hw Hq Hqr Hin.
  set (m := c_counter rc + 1). set (t := c_timeout rc). set (f := c_freq rc).
  assert (HM : M c m E t f s).
  { right; right. destruct (C12_callback_once cfg s Hcfg Hr c) as (_ & _ & B).
    destruct (B rc Grc) as (_ & _ & B3 & _). split.
    - unfold nstart. rewrite <- (count_blog c) by apply about_start. rewrite B3.
      replace (m <=? c_counter rc) with false by (symmetry; apply Z.leb_gt; unfold m; lia).
      now rewrite andb_false_r.
    - exists rc. destruct Hq as (rcq & Gq & Hqq). assert (rcq = rc) by congruence. subst rcq.
      repeat split; try apply Hqq; auto. }
  destruct (M_run cfg Hcfg c m E t f ops s Hr HM Hq Hw Hqr) as (Hr' & HM').
  set (s' := run cfg s ops) in *.
  destruct (C12_callback_once cfg s' Hcfg Hr' c) as (A & _).
  destruct (A m) as (_ & _ & A3).
  assert (Hc1 : 1 <= count (is_start c m) (log s')) by (apply start_count_In; eauto).
  destruct HM' as [(k0 & Hk0)|[(Hn0 & _)|(Hn0 & _)]].
  - assert (Hk0' : In (EvBatchStart c m (E - t + f) k0) (log s')).
    { unfold blog in Hk0. apply filter_In in Hk0. tauto. }
    assert (Eq : EvBatchStart c m H' k = EvBatchStart c m (E - t + f) k0).
    { apply (count_le1_unique (is_start c m) (log s')); auto; cbn [is_start];
        now rewrite eqb_refl, Z.eqb_refl. }
    now injection Eq.
  - unfold nstart in Hn0. rewrite <- (count_blog c) in Hn0 by apply about_start. lia.
  - unfold nstart in Hn0. rewrite <- (count_blog c) in Hn0 by apply about_start. lia.
Qed.

(* consecutive starts: batch n started in the EndBlock of height H (timeout t, frequency f);
   if the context stays Running with timeout t and frequency f at every operation boundary
   afterwards, batch n + 1 starts at exactly H + f *)
Theorem C10_cadence_consecutive cfg s0 c rc0 dt ops H' k :
  wf_cfg cfg -> Reach cfg s0 -> height s0 < HEIGHT_BOUND -> 0 <= dt ->
  In (height s0, c) (newq s0) -> get c (ctxs s0) = Some rc0 ->
  c_state rc0 = Running -> d5 rc0 = false ->
  let s1 := end_block cfg s0 dt in
  (* the batch was started (not paused for insufficient funds) *)
  has c (expq_h s1) = true ->
  wf_run cfg s1 ops ->
  quiet_at c (c_timeout rc0) (c_freq rc0) s1 ->
  quiet_run cfg c (c_timeout rc0) (c_freq rc0) s1 ops ->
  In (EvBatchStart c (c_counter rc0 + 2) H' k) (log (run cfg s1 ops)) ->
  H' = height s0 + c_freq rc0.
Proof.
  intros Hcfg Hr Hb Hdt Hdue Grc Hrun Hd s1 He Hw Hq Hqr Hin.
  pose proof (Reach_Inv cfg s0 Hcfg Hr) as HI.
  destruct (C10_first_batch cfg s0 c rc0 dt Hcfg HI Hb Hdue Grc Hrun Hd) as (_ & _ & Hcase).
  fold s1 in Hcase.
  destruct Hcase as [(n & G1 & E1)|(_ & E1)]; [|unfold has in He; rewrite E1 in He; discriminate].
  assert (Hr1 : Reach cfg s1).
  { change s1 with (fst (step cfg s0 (OEndBlock dt))). apply Reach_step; [exact Hr|]. cbn. auto. }
  assert (X : H' = (height s0 + c_timeout rc0) - c_timeout (bump rc0 n) + c_freq (bump rc0 n)).
  { eapply (C10_cadence cfg s1 c (bump rc0 n)); eauto.
    replace (c_counter (bump rc0 n) + 1) with (c_counter rc0 + 2) by (cbn; lia). exact Hin. }
  cbn in X. lia.
Qed.

(* ------------------------------------------------------------------ *)
(* Example: the repeated module context c2 of Proofs/BatchEx.v (timeout 5, frequency 10).
   Anchor: s_b (height 2; batch 1 started at height 1, expiry entry at 6).  Along the run to
   height 12 (two responses to another context, ten EndBlocks) c2 stays Running with the
   same terms, and batch 2 is started at 11 = 6 - 5 + 10 = 1 + 10. *)
From SVC Require Import Proofs.BatchEx.

Module ExC.
  Import BEx.

  Definition ops_tail : list Op :=
    [ORespond (c1, 1, 1, 0) 10 200 1 true true; ORespond (c1, 1, 1, 1) 11 200 2 false true;
     OEndBlock 1; OEndBlock 1; OEndBlock 1; OEndBlock 1; OEndBlock 1;
     OEndBlock 1; OEndBlock 1; OEndBlock 1; OEndBlock 1; OEndBlock 1].

  Example run_tail : run cfg0 s_b ops_tail = s_b2.
  Proof. vm_compute. reflexivity. Qed.

  Ltac quiet_tac :=
    repeat match goal with
    | |- _ /\ _ => split
    | |- True => exact I
    | |- quiet_at _ _ _ _ => eexists; split; [vm_compute; reflexivity|repeat split]
    end.

  Example C10_cadence_ex :
    exists rc, get c2 (ctxs s_b) = Some rc /\ get c2 (expq_h s_b) = Some 6
      /\ c_timeout rc = 5 /\ c_freq rc = 10 /\ c_counter rc = 1
      /\ Reach cfg0 s_b /\ wf_run cfg0 s_b ops_tail
      /\ quiet_at c2 (c_timeout rc) (c_freq rc) s_b
      /\ quiet_run cfg0 c2 (c_timeout rc) (c_freq rc) s_b ops_tail
      /\ In (EvBatchStart c2 (c_counter rc + 1) 11 2) (log (run cfg0 s_b ops_tail))
      /\ 11 = 6 - c_timeout rc + c_freq rc.
  Proof.
    eexists. split; [vm_compute; reflexivity|]. split; [reflexivity|]. split; [reflexivity|].
    split; [reflexivity|]. split; [reflexivity|]. split; [exact reach_b|]. split; [comp|].
    split; [quiet_tac|]. split; [unfold ops_tail; cbn [quiet_run]; quiet_tac|].
    split; [vm_compute; auto 20|reflexivity].
  Qed.

  (* the hypothesis is needed: after an update of the timeout (5 -> 8) during batch 1 the
     next batch starts at 6 - 8 + 10 = 8, not at 11 (the context is a non-module one here,
     since only the consumer of a non-module context may update it) *)
  Definition ops_u : list Op := ops_setup ++
    [OCall c3 5 [10] 2 0 (CBase 50) 5 false true 10 3 true true; OEndBlock 1;
     OUpdateCtx c3 2 [] CEmpty 8 0 0 true]
    ++ nblocks 7.
  Example C10_cadence_needs_quiet :
    In (EvBatchStart c3 1 1 1) (log (run cfg0 s_init ops_u))
    /\ In (EvBatchStart c3 2 8 1) (log (run cfg0 s_init ops_u)).
  Proof. split; vm_compute; auto 30. Qed.
End ExC.
