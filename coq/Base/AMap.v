(* Association maps with decidable keys: the only container of the model.
   Stdlib only, so that extraction stays plain. *)
From Coq Require Import List ZArith Bool Lia Permutation.
Import ListNotations.
Open Scope Z_scope.

Class EqDec (K : Type) := {
  eqb : K -> K -> bool;
  eqb_spec : forall a b, reflect (a = b) (eqb a b)
}.

Lemma eqb_refl {K} `{EqDec K} (a : K) : eqb a a = true.
Proof. destruct (eqb_spec a a); congruence. Qed.

Lemma eqb_eq {K} `{EqDec K} (a b : K) : eqb a b = true <-> a = b.
Proof. destruct (eqb_spec a b); split; congruence. Qed.

Lemma eqb_neq {K} `{EqDec K} (a b : K) : eqb a b = false <-> a <> b.
Proof. destruct (eqb_spec a b); split; congruence. Qed.

Lemma eqb_true {K} `{EqDec K} (a b : K) : eqb a b = true -> a = b.
Proof. apply eqb_eq. Qed.

Lemma neq_eqb {K} `{EqDec K} (a b : K) : a <> b -> eqb a b = false.
Proof. apply eqb_neq. Qed.

#[export] Instance EqDec_Z : EqDec Z := {| eqb := Z.eqb; eqb_spec := Z.eqb_spec |}.

#[export] Instance EqDec_bool : EqDec bool.
Proof.
  refine {| eqb := Bool.eqb |}.
  intros [] []; constructor; congruence.
Defined.

#[export] Instance EqDec_pair {A B} `{EqDec A} `{EqDec B} : EqDec (A * B).
Proof.
  refine {| eqb := fun x y => eqb (fst x) (fst y) && eqb (snd x) (snd y) |}.
  intros [a b] [a' b']; cbn [fst snd].
  destruct (eqb_spec a a'), (eqb_spec b b'); constructor; congruence.
Defined.

Section AMap.
  Context {K V : Type} `{EqDec K}.

  Definition amap := list (K * V).

  Fixpoint get (k : K) (m : amap) : option V :=
    match m with
    | [] => None
    | (k', v) :: t => if eqb k k' then Some v else get k t
    end.

  Fixpoint set (k : K) (v : V) (m : amap) : amap :=
    match m with
    | [] => [(k, v)]
    | (k', v') :: t => if eqb k k' then (k, v) :: t else (k', v') :: set k v t
    end.

  Fixpoint del (k : K) (m : amap) : amap :=
    match m with
    | [] => []
    | (k', v') :: t => if eqb k k' then t else (k', v') :: del k t
    end.

  Definition keys (m : amap) : list K := map fst m.
  Definition has (k : K) (m : amap) : bool :=
    match get k m with Some _ => true | None => false end.
  Definition wf (m : amap) : Prop := NoDup (keys m).

  Lemma get_set_eq k v m : get k (set k v m) = Some v.
  Proof.
    induction m as [|[k' v'] t IH]; cbn [set get].
    - now rewrite eqb_refl.
    - destruct (eqb k k') eqn:E; cbn [get]; [now rewrite eqb_refl | now rewrite E].
  Qed.

  Lemma get_set_neq k k' v m : k' <> k -> get k' (set k v m) = get k' m.
  Proof.
    intros Hn. induction m as [|[k0 v0] t IH]; cbn [set get].
    - apply neq_eqb in Hn. now rewrite Hn.
    - destruct (eqb k k0) eqn:E; cbn [get].
      + apply eqb_true in E; subst k0. apply neq_eqb in Hn. now rewrite Hn.
      + now rewrite IH.
  Qed.

  Lemma get_set k k' v m :
    get k' (set k v m) = if eqb k' k then Some v else get k' m.
  Proof.
    destruct (eqb_spec k' k) as [->|Hn]; [apply get_set_eq | now apply get_set_neq].
  Qed.

  Lemma get_del_neq k k' m : k' <> k -> get k' (del k m) = get k' m.
  Proof.
    intros Hn. induction m as [|[k0 v0] t IH]; cbn [del get]; [reflexivity|].
    destruct (eqb k k0) eqn:E; cbn [get].
    - apply eqb_true in E; subst k0. apply neq_eqb in Hn. now rewrite Hn.
    - now rewrite IH.
  Qed.

  Lemma get_In k v m : get k m = Some v -> In (k, v) m.
  Proof.
    induction m as [|[k0 v0] t IH]; cbn [get]; [discriminate|].
    destruct (eqb_spec k k0) as [->|Hn]; intros E.
    - injection E as ->. now left.
    - right. auto.
  Qed.

  Lemma get_None_notin k m : get k m = None <-> ~ In k (keys m).
  Proof.
    unfold keys. induction m as [|[k0 v0] t IH]; cbn [get map fst In]; [tauto|].
    destruct (eqb_spec k k0) as [->|Hn].
    - split; [discriminate|]. intros Hc. exfalso. apply Hc. now left.
    - rewrite IH. split.
      + intros Hni [E|Hin]; [congruence|tauto].
      + intros Hni Hin. apply Hni. now right.
  Qed.

  Lemma get_Some_in k v m : get k m = Some v -> In k (keys m).
  Proof. intros E. apply get_In in E. unfold keys. now apply (in_map fst) in E. Qed.

  Lemma in_keys_get k m : In k (keys m) -> exists v, get k m = Some v.
  Proof.
    intros Hin. destruct (get k m) eqn:E; [eauto|].
    apply get_None_notin in E. contradiction.
  Qed.

  Lemma In_get k v m : wf m -> In (k, v) m -> get k m = Some v.
  Proof.
    unfold wf, keys. induction m as [|[k0 v0] t IH]; cbn [get map fst In]; [tauto|].
    intros Hnd [E|Hin].
    - injection E as -> ->. now rewrite eqb_refl.
    - inversion Hnd as [|? ? Hni Hnd']; subst.
      destruct (eqb_spec k k0) as [->|Hn]; [|auto].
      exfalso. apply Hni. now apply (in_map fst) in Hin.
  Qed.

  Lemma get_del_eq k m : wf m -> get k (del k m) = None.
  Proof.
    unfold wf, keys. induction m as [|[k0 v0] t IH]; cbn [del get map fst]; [reflexivity|].
    intros Hnd. inversion Hnd as [|? ? Hni Hnd']; subst.
    destruct (eqb_spec k k0) as [->|Hn].
    - now apply get_None_notin.
    - cbn [get]. apply neq_eqb in Hn. rewrite Hn. auto.
  Qed.

  Lemma get_del k k' m : wf m ->
    get k' (del k m) = if eqb k' k then None else get k' m.
  Proof.
    intros Hw. destruct (eqb_spec k' k) as [->|Hn]; [now apply get_del_eq | now apply get_del_neq].
  Qed.

  Lemma keys_set_in k v m : In k (keys m) -> keys (set k v m) = keys m.
  Proof.
    unfold keys. induction m as [|[k0 v0] t IH]; cbn [set map fst In]; [tauto|].
    intros Hin. destruct (eqb_spec k k0) as [->|Hn]; cbn [map fst]; [reflexivity|].
    f_equal. apply IH. destruct Hin; congruence.
  Qed.

  Lemma keys_set_notin k v m : ~ In k (keys m) -> keys (set k v m) = keys m ++ [k].
  Proof.
    unfold keys. induction m as [|[k0 v0] t IH]; cbn [set map fst In app]; [reflexivity|].
    intros Hni. destruct (eqb_spec k k0) as [->|Hn]; [tauto|].
    cbn [map fst]. f_equal. apply IH. tauto.
  Qed.

  Lemma in_keys_set k k' v m : In k' (keys (set k v m)) <-> k' = k \/ In k' (keys m).
  Proof.
    destruct (in_dec (fun a b => reflect_dec _ _ (eqb_spec a b)) k (keys m)) as [Hin|Hni].
    - rewrite keys_set_in by assumption. split; [tauto|]. intros [->|]; assumption.
    - rewrite keys_set_notin by assumption. rewrite in_app_iff. cbn [In]. intuition.
  Qed.

  Lemma wf_set k v m : wf m -> wf (set k v m).
  Proof.
    unfold wf. intros Hw.
    destruct (in_dec (fun a b => reflect_dec _ _ (eqb_spec a b)) k (keys m)) as [Hin|Hni].
    - now rewrite keys_set_in.
    - rewrite keys_set_notin by assumption.
      apply (Permutation_NoDup (l := k :: keys m)).
      + apply Permutation_cons_append.
      + now constructor.
  Qed.

  Lemma in_keys_del k k' m : wf m -> In k' (keys (del k m)) <-> k' <> k /\ In k' (keys m).
  Proof.
    unfold wf, keys. induction m as [|[k0 v0] t IH]; cbn [del map fst In]; [tauto|].
    intros Hnd. inversion Hnd as [|? ? Hni Hnd']; subst.
    destruct (eqb_spec k k0) as [->|Hn].
    - split.
      + intros Hin. split; [|now right]. intros ->. contradiction.
      + intros [Hne [E|Hin]]; [congruence|assumption].
    - cbn [map fst In]. rewrite IH by assumption. split.
      + intros [E|[Hne Hin]]; [subst; split; [congruence|now left] | split; [assumption|now right]].
      + intros [Hne [E|Hin]]; [now left | right; tauto].
  Qed.

  Lemma wf_del k m : wf m -> wf (del k m).
  Proof.
    unfold wf, keys. induction m as [|[k0 v0] t IH]; cbn [del map fst]; [auto|].
    intros Hnd. inversion Hnd as [|? ? Hni Hnd']; subst.
    destruct (eqb_spec k k0) as [->|Hn]; [assumption|].
    cbn [map fst]. constructor; [|auto].
    intros Hin. apply Hni.
    apply (in_keys_del k k0 t Hnd') in Hin. tauto.
  Qed.

  Lemma del_notin k m : get k m = None -> del k m = m.
  Proof.
    induction m as [|[k0 v0] t IH]; cbn [del get]; [reflexivity|].
    destruct (eqb k k0); [discriminate|]. intros E. now rewrite IH.
  Qed.

  Lemma wf_nil : wf [].
  Proof. constructor. Qed.

  (* sums over a map *)
  Fixpoint msum (f : K -> V -> Z) (m : amap) : Z :=
    match m with
    | [] => 0
    | (k, v) :: t => f k v + msum f t
    end.

  Definition fget (f : K -> V -> Z) (k : K) (m : amap) : Z :=
    match get k m with Some v => f k v | None => 0 end.

  Lemma msum_set f k v m : msum f (set k v m) = msum f m - fget f k m + f k v.
  Proof.
    unfold fget. induction m as [|[k0 v0] t IH]; cbn [set msum get]; [lia|].
    destruct (eqb_spec k k0) as [->|Hn]; cbn [msum]; [lia|].
    rewrite IH. lia.
  Qed.

  Lemma msum_del f k m : msum f (del k m) = msum f m - fget f k m.
  Proof.
    unfold fget. induction m as [|[k0 v0] t IH]; cbn [del msum get]; [lia|].
    destruct (eqb_spec k k0) as [->|Hn]; cbn [msum]; [lia|].
    rewrite IH. lia.
  Qed.

  Lemma msum_ext f g m :
    (forall k v, In (k, v) m -> f k v = g k v) -> msum f m = msum g m.
  Proof.
    induction m as [|[k0 v0] t IH]; cbn [msum]; [reflexivity|].
    intros Hfg. rewrite IH, (Hfg k0 v0); [reflexivity|now left|].
    intros k v Hin. apply Hfg. now right.
  Qed.

  Lemma msum_nonneg f m :
    (forall k v, In (k, v) m -> 0 <= f k v) -> 0 <= msum f m.
  Proof.
    induction m as [|[k0 v0] t IH]; cbn [msum]; [lia|].
    intros Hf. assert (0 <= f k0 v0) by (apply Hf; now left).
    assert (0 <= msum f t) by (apply IH; intros; apply Hf; now right). lia.
  Qed.

  Lemma msum_ge_fget f k m :
    (forall k v, In (k, v) m -> 0 <= f k v) -> fget f k m <= msum f m.
  Proof.
    unfold fget. induction m as [|[k0 v0] t IH]; cbn [msum get]; [lia|].
    intros Hf. assert (0 <= f k0 v0) by (apply Hf; now left).
    assert (0 <= msum f t) by (apply msum_nonneg; intros; apply Hf; now right).
    destruct (eqb_spec k k0) as [->|Hn]; [lia|].
    assert (match get k t with Some v => f k v | None => 0 end <= msum f t)
      by (apply IH; intros; apply Hf; now right).
    lia.
  Qed.

  Lemma msum_zero f m : (forall k v, In (k, v) m -> f k v = 0) -> msum f m = 0.
  Proof.
    induction m as [|[k0 v0] t IH]; cbn [msum]; [reflexivity|].
    intros Hf. rewrite IH, (Hf k0 v0); [reflexivity|now left|].
    intros; apply Hf; now right.
  Qed.

  Lemma msum_add f g m : msum (fun k v => f k v + g k v) m = msum f m + msum g m.
  Proof. induction m as [|[k0 v0] t IH]; cbn [msum]; lia. Qed.

  Lemma In_set_inv k v k' v' m : wf m ->
    In (k', v') (set k v m) -> (k' = k /\ v' = v) \/ (k' <> k /\ In (k', v') m).
  Proof.
    intros Hw Hin.
    assert (Hw' : wf (set k v m)) by now apply wf_set.
    apply In_get in Hin; [|assumption].
    rewrite get_set in Hin.
    destruct (eqb_spec k' k) as [->|Hn].
    - injection Hin as <-. now left.
    - right. split; [assumption|]. now apply get_In.
  Qed.

  Lemma In_del_inv k k' v' m : wf m ->
    In (k', v') (del k m) -> k' <> k /\ In (k', v') m.
  Proof.
    intros Hw Hin.
    assert (Hw' : wf (del k m)) by now apply wf_del.
    apply In_get in Hin; [|assumption].
    rewrite get_del in Hin by assumption.
    destruct (eqb_spec k' k) as [->|Hn]; [discriminate|].
    split; [assumption|]. now apply get_In.
  Qed.

End AMap.

Arguments amap : clear implicits.

(* duplicate-free lists used as sets (index entries, queue entries) *)
Section LSet.
  Context {A : Type} `{EqDec A}.

  Fixpoint mem (a : A) (l : list A) : bool :=
    match l with [] => false | b :: t => if eqb a b then true else mem a t end.

  Definition ladd (a : A) (l : list A) : list A := if mem a l then l else l ++ [a].

  Fixpoint lrem (a : A) (l : list A) : list A :=
    match l with [] => [] | b :: t => if eqb a b then lrem a t else b :: lrem a t end.

  Lemma mem_In a l : mem a l = true <-> In a l.
  Proof.
    induction l as [|b t IH]; cbn [mem In]; [split; [discriminate|tauto]|].
    destruct (eqb_spec a b) as [->|Hn]; [tauto|].
    rewrite IH. split; [tauto|]. intros [E|Hin]; [congruence|assumption].
  Qed.

  Lemma mem_nIn a l : mem a l = false <-> ~ In a l.
  Proof. rewrite <- mem_In. destruct (mem a l); split; congruence. Qed.

  Lemma In_ladd a b l : In b (ladd a l) <-> b = a \/ In b l.
  Proof.
    unfold ladd. destruct (mem a l) eqn:E.
    - apply mem_In in E. split; [tauto|]. intros [->|]; assumption.
    - rewrite in_app_iff. cbn [In]. intuition.
  Qed.

  Lemma In_lrem a b l : In b (lrem a l) <-> b <> a /\ In b l.
  Proof.
    induction l as [|c t IH]; cbn [lrem In]; [tauto|].
    destruct (eqb_spec a c) as [->|Hn]; cbn [In]; rewrite IH.
    - split; [tauto|]. intros [Hne [E|Hin]]; [congruence|tauto].
    - split; [intros [E|[? ?]]; [subst; split; [congruence|now left]|tauto] | tauto].
  Qed.

  Lemma NoDup_ladd a l : NoDup l -> NoDup (ladd a l).
  Proof.
    unfold ladd. intros Hn. destruct (mem a l) eqn:E; [assumption|].
    apply mem_nIn in E.
    apply (Permutation_NoDup (l := a :: l)).
    - apply Permutation_cons_append.
    - now constructor.
  Qed.

  Lemma NoDup_lrem a l : NoDup l -> NoDup (lrem a l).
  Proof.
    induction l as [|c t IH]; cbn [lrem]; [auto|].
    intros Hn. inversion Hn; subst.
    destruct (eqb a c); [auto|]. constructor; [|auto].
    rewrite In_lrem. tauto.
  Qed.
End LSet.
