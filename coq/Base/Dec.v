(* sdk.Dec: 18-digit fixed point on big integers, as implemented in
   cosmos-sdk types/decimal.go (Mul = multiply then chopPrecisionAndRound with
   banker's rounding; TruncateInt = Quo by 10^18, truncating toward zero). *)
From Coq Require Import ZArith Lia.
Open Scope Z_scope.

Definition PREC : Z := 1000000000000000000.
Definition HALF : Z := 500000000000000000.

Definition chop_round_nn (d : Z) : Z :=
  let q := d / PREC in
  let r := d mod PREC in
  if r =? 0 then q
  else if r <? HALF then q
  else if HALF <? r then q + 1
  else if Z.even q then q else q + 1.

Definition chop_round (d : Z) : Z :=
  if d <? 0 then - chop_round_nn (- d) else chop_round_nn d.

Definition dmul (a b : Z) : Z := chop_round (a * b).
Definition dtrunc (a : Z) : Z := Z.quot a PREC.
Definition dec_of_int (n : Z) : Z := n * PREC.
Definition ONE : Z := PREC.

(* floor(n * r) for an integer amount n and a rate r: the code's
   NewDecFromInt(n).Mul(r).TruncateInt() *)
Definition mul_trunc (n r : Z) : Z := dtrunc (dmul (dec_of_int n) r).
