(* Outcome of a handler: success with a value, a returned error (the message is
   rolled back by the caller) or a Go runtime panic. *)
Inductive Res (A : Type) : Type :=
| Ok (a : A)
| Err
| Panic.
Arguments Ok {A} a.
Arguments Err {A}.
Arguments Panic {A}.

Definition bind {A B} (r : Res A) (f : A -> Res B) : Res B :=
  match r with Ok a => f a | Err => Err | Panic => Panic end.

Definition guard {B} (b : bool) (k : Res B) : Res B := if b then k else Err.

Declare Scope res_scope.
Notation "x <- r ;; k" := (bind r (fun x => k))
  (at level 61, r at next level, right associativity) : res_scope.
Notation "'check' b ;; k" := (guard b k)
  (at level 61, b at next level, right associativity) : res_scope.

Definition is_ok {A} (r : Res A) : bool := match r with Ok _ => true | _ => false end.
Definition is_panic {A} (r : Res A) : bool := match r with Panic => true | _ => false end.
