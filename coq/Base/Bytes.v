(* Byte strings for the key layer (K) and the identifier models.
   Standard library only.  A byte is an [N]; the range condition [b < 256] is
   carried explicitly ([wf_bytes]) and only where a theorem needs it (decoding
   followed by re-encoding).  Everything here is total and executable, so it
   extracts with ExtrOcamlBasic only. *)
From Coq Require Import List NArith ZArith Lia Bool.
From Coq Require Import ZifyN ZifyNat ZifyBool.
Import ListNotations.
Ltac Zify.zify_post_hook ::= Z.div_mod_to_equations.

Definition byte := N.
Definition bytes := list byte.

Definition wf_byte (b : byte) : Prop := (b < 256)%N.
Definition wf_bytes (l : bytes) : Prop := Forall wf_byte l.

(* "the byte 0x00 does not occur in l" : service names, bech32 text *)
Definition zero_free (l : bytes) : Prop := ~ In 0%N l.

(* ------------------------------------------------------------------ *)
(* prefixes                                                            *)

Definition is_prefix (p l : bytes) : Prop := exists r, l = p ++ r.

Fixpoint is_prefixb (p l : bytes) : bool :=
  match p, l with
  | [], _ => true
  | _ :: _, [] => false
  | a :: p', b :: l' => N.eqb a b && is_prefixb p' l'
  end.

Lemma is_prefixb_spec : forall p l, is_prefixb p l = true <-> is_prefix p l.
Proof.
  induction p as [|a p IH]; intros l; cbn [is_prefixb].
  - split; [intros _; exists l; reflexivity | reflexivity].
  - destruct l as [|b l].
    + split; [discriminate | intros [r Hr]; discriminate].
    + rewrite andb_true_iff, N.eqb_eq, IH. split.
      * intros [-> [r ->]]. exists r. reflexivity.
      * intros [r Hr]. cbn [app] in Hr. injection Hr as -> ->. split; [reflexivity | exists r; reflexivity].
Qed.

Lemma is_prefix_refl : forall l, is_prefix l l.
Proof. intros l. exists []. symmetry. apply app_nil_r. Qed.

Lemma is_prefix_nil : forall l, is_prefix [] l.
Proof. intros l. exists l. reflexivity. Qed.

Lemma is_prefix_app : forall p r, is_prefix p (p ++ r).
Proof. intros p r. exists r. reflexivity. Qed.

Lemma is_prefix_trans : forall a b c, is_prefix a b -> is_prefix b c -> is_prefix a c.
Proof. intros a b c [r ->] [r' ->]. exists (r ++ r'). symmetry. apply app_assoc. Qed.

Lemma is_prefix_cons : forall a b p l, is_prefix (a :: p) (b :: l) <-> a = b /\ is_prefix p l.
Proof.
  intros a b p l. split.
  - intros [r Hr]. cbn [app] in Hr. injection Hr as -> ->. split; [reflexivity | exists r; reflexivity].
  - intros [-> [r ->]]. exists r. reflexivity.
Qed.

Lemma is_prefix_app_head : forall h p l, is_prefix (h ++ p) (h ++ l) <-> is_prefix p l.
Proof.
  induction h as [|a h IH]; intros p l; cbn [app].
  - reflexivity.
  - rewrite is_prefix_cons, IH. split; [intros [_ H]; exact H | intros H; split; [reflexivity | exact H]].
Qed.

Lemma is_prefix_length : forall p l, is_prefix p l -> length p <= length l.
Proof. intros p l [r ->]. rewrite app_length. lia. Qed.

Lemma is_prefix_same_length : forall p l, is_prefix p l -> length p = length l -> p = l.
Proof.
  intros p l [r ->] H. rewrite app_length in H.
  destruct r; [symmetry; apply app_nil_r | cbn [length] in H; lia].
Qed.

Lemma is_prefix_firstn : forall p l, is_prefix p l <-> firstn (length p) l = p.
Proof.
  intros p l. split.
  - intros [r ->]. rewrite firstn_app, Nat.sub_diag, firstn_all. cbn [firstn]. apply app_nil_r.
  - intros H. exists (skipn (length p) l). rewrite <- H at 1. symmetry. apply firstn_skipn.
Qed.

(* ------------------------------------------------------------------ *)
(* The two list lemmas every key theorem needs                         *)

(* fixed-width first field *)
Lemma len_inj : forall (a a' b b' : bytes),
  length a = length a' -> a ++ b = a' ++ b' -> a = a' /\ b = b'.
Proof.
  induction a as [|x a IH]; intros [|x' a'] b b' Hl H; cbn [length] in Hl; try discriminate.
  - split; [reflexivity | exact H].
  - cbn [app] in H. injection H as -> H. injection Hl as Hl.
    destruct (IH a' b b' Hl H) as [-> ->]. split; reflexivity.
Qed.

(* first field terminated by a 0x00 that does not occur inside it *)
Lemma sep_inj : forall (a a' b b' : bytes),
  zero_free a -> zero_free a' ->
  a ++ 0%N :: b = a' ++ 0%N :: b' -> a = a' /\ b = b'.
Proof.
  unfold zero_free.
  induction a as [|x a IH]; intros [|x' a'] b b' Ha Ha' H; cbn [app] in H.
  - injection H as ->. split; reflexivity.
  - injection H as H _. exfalso. apply Ha'. left. symmetry. exact H.
  - injection H as H _. exfalso. apply Ha. left. exact H.
  - injection H as -> H.
    destruct (IH a' b b') as [-> ->]; [ | | exact H | split; reflexivity].
    + intros Hin. apply Ha. right. exact Hin.
    + intros Hin. apply Ha'. right. exact Hin.
Qed.

(* prefix forms of the same two lemmas *)
Lemma len_prefix : forall (a a' b' : bytes),
  length a = length a' -> is_prefix a (a' ++ b') -> a = a'.
Proof.
  intros a a' b' Hl [r Hr]. symmetry in Hr.
  destruct (len_inj a a' r b' Hl Hr) as [H _]. exact H.
Qed.

Lemma len_prefix_app : forall (a a' b b' : bytes),
  length a = length a' -> (is_prefix (a ++ b) (a' ++ b') <-> a = a' /\ is_prefix b b').
Proof.
  intros a a' b b' Hl. split.
  - intros [r Hr]. rewrite <- app_assoc in Hr. symmetry in Hr.
    destruct (len_inj a a' (b ++ r) b' Hl Hr) as [-> <-]. split; [reflexivity | apply is_prefix_app].
  - intros [-> H]. apply is_prefix_app_head. exact H.
Qed.

Lemma sep_prefix : forall (a a' b b' : bytes),
  zero_free a -> zero_free a' ->
  (is_prefix (a ++ 0%N :: b) (a' ++ 0%N :: b') <-> a = a' /\ is_prefix b b').
Proof.
  intros a a' b b' Ha Ha'. split.
  - intros [r Hr]. rewrite <- app_assoc in Hr. cbn [app] in Hr. symmetry in Hr.
    destruct (sep_inj a a' (b ++ r) b' Ha Ha' Hr) as [-> <-]. split; [reflexivity | apply is_prefix_app].
  - intros [-> H]. apply is_prefix_app_head. apply is_prefix_cons. split; [reflexivity | exact H].
Qed.

Lemma zero_free_app : forall a b, zero_free (a ++ b) <-> zero_free a /\ zero_free b.
Proof.
  unfold zero_free. intros a b. rewrite in_app_iff. tauto.
Qed.

Lemma zero_free_nil : zero_free [].
Proof. intros H. exact H. Qed.

Lemma zero_free_cons : forall x a, zero_free (x :: a) <-> x <> 0%N /\ zero_free a.
Proof.
  unfold zero_free. intros x a. cbn [In]. split.
  - intros H. split; [intros E; apply H; left; exact E | intros I; apply H; right; exact I].
  - intros [H1 H2] [E | I]; [exact (H1 E) | exact (H2 I)].
Qed.

(* ------------------------------------------------------------------ *)
(* big-endian fixed-width integers                                     *)

(* [be k n] : the k low-order base-256 digits of n, most significant first
   (binary.BigEndian.PutUintXX on a value already reduced to the width;
   higher digits are dropped, i.e. be k n = be k (n mod 256^k)). *)
Fixpoint be (k : nat) (n : N) : bytes :=
  match k with
  | O => []
  | S k' => be k' (n / 256) ++ [n mod 256]
  end%N.

Definition be64 (n : N) : bytes := be 8 n.
Definition be16 (n : N) : bytes := be 2 n.

(* big-endian decoding of a byte list of any length (binary.BigEndian.UintXX) *)
Definition de (l : bytes) : N := fold_left (fun acc b => acc * 256 + b)%N l 0%N.

(* the Go conversions uint64(int64), uint16(int16) and back *)
Definition u64 (z : Z) : N := Z.to_N (z mod 2 ^ 64).
Definition u16 (z : Z) : N := Z.to_N (z mod 2 ^ 16).
Definition i64 (n : N) : Z :=
  let z := (Z.of_N n mod 2 ^ 64)%Z in if (z <? 2 ^ 63)%Z then z else (z - 2 ^ 64)%Z.
Definition i16 (n : N) : Z :=
  let z := (Z.of_N n mod 2 ^ 16)%Z in if (z <? 2 ^ 15)%Z then z else (z - 2 ^ 16)%Z.

Definition is_int64 (z : Z) : Prop := (- 2 ^ 63 <= z < 2 ^ 63)%Z.
Definition is_int16 (z : Z) : Prop := (- 2 ^ 15 <= z < 2 ^ 15)%Z.
Definition is_uint64 (n : N) : Prop := (n < 2 ^ 64)%N.
Definition is_uint16 (n : N) : Prop := (n < 2 ^ 16)%N.

Lemma be_length : forall k n, length (be k n) = k.
Proof.
  induction k as [|k IH]; intros n; cbn [be]; [reflexivity|].
  rewrite app_length, IH. cbn [length]. lia.
Qed.

Lemma be64_length : forall n, length (be64 n) = 8.
Proof. intros n. apply be_length. Qed.

Lemma be16_length : forall n, length (be16 n) = 2.
Proof. intros n. apply be_length. Qed.

Lemma be_wf : forall k n, wf_bytes (be k n).
Proof.
  unfold wf_bytes. induction k as [|k IH]; intros n; cbn [be]; [constructor|].
  apply Forall_app. split; [apply IH|].
  constructor; [|constructor]. unfold wf_byte. apply N.mod_lt. discriminate.
Qed.

Lemma de_app : forall l l', de (l ++ l') = fold_left (fun acc b => acc * 256 + b)%N l' (de l).
Proof. intros l l'. unfold de. apply fold_left_app. Qed.

Lemma de_snoc : forall l b, de (l ++ [b]) = (de l * 256 + b)%N.
Proof. intros l b. rewrite de_app. reflexivity. Qed.

Lemma pow256_succ : forall k, (256 ^ N.of_nat (S k) = 256 * 256 ^ N.of_nat k)%N.
Proof. intros k. rewrite Nat2N.inj_succ, N.pow_succ_r'. reflexivity. Qed.

Lemma de_be : forall k n, de (be k n) = (n mod 256 ^ N.of_nat k)%N.
Proof.
  induction k as [|k IH]; intros n.
  - cbn [be]. change (256 ^ N.of_nat 0)%N with 1%N. rewrite N.mod_1_r. reflexivity.
  - cbn [be]. rewrite de_snoc, IH, pow256_succ.
    rewrite N.mod_mul_r by (try discriminate; apply N.pow_nonzero; discriminate).
    lia.
Qed.

Lemma be_de : forall l, wf_bytes l -> be (length l) (de l) = l.
Proof.
  unfold wf_bytes. induction l as [|b l IH] using rev_ind; intros Hwf.
  - reflexivity.
  - apply Forall_app in Hwf. destruct Hwf as [Hl Hb].
    assert (Hb' : (b < 256)%N) by (inversion Hb; assumption).
    rewrite app_length. cbn [length]. rewrite Nat.add_1_r. cbn [be]. rewrite de_snoc.
    replace ((de l * 256 + b) / 256)%N with (de l) by lia.
    replace ((de l * 256 + b) mod 256)%N with b by lia.
    rewrite (IH Hl). reflexivity.
Qed.

Lemma de_lt : forall l, wf_bytes l -> (de l < 256 ^ N.of_nat (length l))%N.
Proof.
  intros l Hwf. rewrite <- (be_de l Hwf) at 1. rewrite de_be.
  apply N.mod_lt. apply N.pow_nonzero. discriminate.
Qed.

Lemma be_inj : forall k n m,
  (n < 256 ^ N.of_nat k)%N -> (m < 256 ^ N.of_nat k)%N -> be k n = be k m -> n = m.
Proof.
  intros k n m Hn Hm H.
  assert (E : de (be k n) = de (be k m)) by (rewrite H; reflexivity).
  rewrite !de_be in E. rewrite !N.mod_small in E by assumption. exact E.
Qed.

Lemma pow256_8 : (256 ^ N.of_nat 8 = 2 ^ 64)%N.
Proof. reflexivity. Qed.
Lemma pow256_2 : (256 ^ N.of_nat 2 = 2 ^ 16)%N.
Proof. reflexivity. Qed.

Lemma be64_inj : forall n m, is_uint64 n -> is_uint64 m -> be64 n = be64 m -> n = m.
Proof. unfold is_uint64, be64. intros n m Hn Hm. apply be_inj; rewrite pow256_8; assumption. Qed.

Lemma be16_inj : forall n m, is_uint16 n -> is_uint16 m -> be16 n = be16 m -> n = m.
Proof. unfold is_uint16, be16. intros n m Hn Hm. apply be_inj; rewrite pow256_2; assumption. Qed.

Lemma de_be64 : forall n, is_uint64 n -> de (be64 n) = n.
Proof. unfold is_uint64, be64. intros n Hn. rewrite de_be, pow256_8. apply N.mod_small. exact Hn. Qed.

Lemma de_be16 : forall n, is_uint16 n -> de (be16 n) = n.
Proof. unfold is_uint16, be16. intros n Hn. rewrite de_be, pow256_2. apply N.mod_small. exact Hn. Qed.

Lemma be64_de : forall l, wf_bytes l -> length l = 8 -> be64 (de l) = l.
Proof. intros l Hwf Hl. unfold be64. rewrite <- Hl. apply be_de. exact Hwf. Qed.

Lemma be16_de : forall l, wf_bytes l -> length l = 2 -> be16 (de l) = l.
Proof. intros l Hwf Hl. unfold be16. rewrite <- Hl. apply be_de. exact Hwf. Qed.

Lemma de_lt64 : forall l, wf_bytes l -> length l = 8 -> is_uint64 (de l).
Proof. intros l Hwf Hl. unfold is_uint64. rewrite <- pow256_8, <- Hl. apply de_lt. exact Hwf. Qed.

Lemma de_lt16 : forall l, wf_bytes l -> length l = 2 -> is_uint16 (de l).
Proof. intros l Hwf Hl. unfold is_uint16. rewrite <- pow256_2, <- Hl. apply de_lt. exact Hwf. Qed.

(* casts *)
Lemma u64_lt : forall z, is_uint64 (u64 z).
Proof.
  intros z. unfold is_uint64, u64.
  assert (0 <= z mod 2 ^ 64 < 2 ^ 64)%Z by (apply Z.mod_pos_bound; reflexivity).
  change (2 ^ 64)%N with (Z.to_N (2 ^ 64)). lia.
Qed.

Lemma u16_lt : forall z, is_uint16 (u16 z).
Proof.
  intros z. unfold is_uint16, u16.
  assert (0 <= z mod 2 ^ 16 < 2 ^ 16)%Z by (apply Z.mod_pos_bound; reflexivity).
  change (2 ^ 16)%N with (Z.to_N (2 ^ 16)). lia.
Qed.

Lemma i64_u64 : forall z, is_int64 z -> i64 (u64 z) = z.
Proof.
  intros z Hz. unfold is_int64 in Hz. unfold i64, u64.
  assert (Hb : (0 <= z mod 2 ^ 64 < 2 ^ 64)%Z) by (apply Z.mod_pos_bound; reflexivity).
  rewrite Z2N.id by lia. rewrite Z.mod_mod by discriminate.
  change (2 ^ 64)%Z with 18446744073709551616%Z in *.
  change (2 ^ 63)%Z with 9223372036854775808%Z in *.
  destruct (Z.ltb_spec (z mod 18446744073709551616) 9223372036854775808); lia.
Qed.

Lemma i16_u16 : forall z, is_int16 z -> i16 (u16 z) = z.
Proof.
  intros z Hz. unfold is_int16 in Hz. unfold i16, u16.
  assert (Hb : (0 <= z mod 2 ^ 16 < 2 ^ 16)%Z) by (apply Z.mod_pos_bound; reflexivity).
  rewrite Z2N.id by lia. rewrite Z.mod_mod by discriminate.
  change (2 ^ 16)%Z with 65536%Z in *.
  change (2 ^ 15)%Z with 32768%Z in *.
  destruct (Z.ltb_spec (z mod 65536) 32768); lia.
Qed.

Lemma u64_i64 : forall n, is_uint64 n -> u64 (i64 n) = n.
Proof.
  intros n Hn. unfold is_uint64 in Hn. unfold i64, u64.
  change (2 ^ 64)%N with 18446744073709551616%N in *.
  change (2 ^ 64)%Z with 18446744073709551616%Z in *.
  change (2 ^ 63)%Z with 9223372036854775808%Z in *.
  rewrite (Z.mod_small (Z.of_N n)) by lia.
  destruct (Z.ltb_spec (Z.of_N n) 9223372036854775808); lia.
Qed.

Lemma u16_i16 : forall n, is_uint16 n -> u16 (i16 n) = n.
Proof.
  intros n Hn. unfold is_uint16 in Hn. unfold i16, u16.
  change (2 ^ 16)%N with 65536%N in *.
  change (2 ^ 16)%Z with 65536%Z in *.
  change (2 ^ 15)%Z with 32768%Z in *.
  rewrite (Z.mod_small (Z.of_N n)) by lia.
  destruct (Z.ltb_spec (Z.of_N n) 32768); lia.
Qed.

Lemma i64_range : forall n, is_int64 (i64 n).
Proof.
  intros n. unfold is_int64, i64.
  assert (Hb : (0 <= Z.of_N n mod 2 ^ 64 < 2 ^ 64)%Z) by (apply Z.mod_pos_bound; reflexivity).
  change (2 ^ 64)%Z with 18446744073709551616%Z in *.
  change (2 ^ 63)%Z with 9223372036854775808%Z in *.
  destruct (Z.ltb_spec (Z.of_N n mod 18446744073709551616) 9223372036854775808); lia.
Qed.

Lemma i16_range : forall n, is_int16 (i16 n).
Proof.
  intros n. unfold is_int16, i16.
  assert (Hb : (0 <= Z.of_N n mod 2 ^ 16 < 2 ^ 16)%Z) by (apply Z.mod_pos_bound; reflexivity).
  change (2 ^ 16)%Z with 65536%Z in *.
  change (2 ^ 15)%Z with 32768%Z in *.
  destruct (Z.ltb_spec (Z.of_N n mod 65536) 32768); lia.
Qed.

Lemma u64_inj : forall z z', is_int64 z -> is_int64 z' -> u64 z = u64 z' -> z = z'.
Proof.
  intros z z' Hz Hz' H. rewrite <- (i64_u64 z Hz), <- (i64_u64 z' Hz'), H. reflexivity.
Qed.

Lemma u16_inj : forall z z', is_int16 z -> is_int16 z' -> u16 z = u16 z' -> z = z'.
Proof.
  intros z z' Hz Hz' H. rewrite <- (i16_u16 z Hz), <- (i16_u16 z' Hz'), H. reflexivity.
Qed.

(* the composite the key builders use: 8 bytes of an int64 *)
Lemma be64_u64_inj : forall z z', is_int64 z -> is_int64 z' -> be64 (u64 z) = be64 (u64 z') -> z = z'.
Proof.
  intros z z' Hz Hz' H. apply u64_inj; try assumption.
  apply be64_inj; [apply u64_lt | apply u64_lt | exact H].
Qed.

(* wf is preserved by the list operations used below *)
Lemma wf_bytes_app : forall a b, wf_bytes (a ++ b) <-> wf_bytes a /\ wf_bytes b.
Proof. intros a b. unfold wf_bytes. apply Forall_app. Qed.

Lemma wf_bytes_firstn : forall n l, wf_bytes l -> wf_bytes (firstn n l).
Proof.
  intros n l H. rewrite <- (firstn_skipn n l) in H. apply wf_bytes_app in H. tauto.
Qed.

Lemma wf_bytes_skipn : forall n l, wf_bytes l -> wf_bytes (skipn n l).
Proof.
  intros n l H. rewrite <- (firstn_skipn n l) in H. apply wf_bytes_app in H. tauto.
Qed.
