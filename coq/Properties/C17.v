(* Property C17 "Queries return exactly the stored state": the statements.
   Every proof is `exact` of the lemma of the same name in Proofs/QueryProofs.v;
   the query functions and the two index-consistency predicates
   (idx_own_bind_ok, reqs_have_ctx) are defined in Model/Queries.v. *)
From Coq Require Import List ZArith Bool Permutation Sorted.
From SVC Require Import Base.AMap Base.Res Base.Dec Model.Types Model.Pricing Model.Handlers
  Model.Queries.
From SVC Require Proofs.QueryProofs Proofs.Inv Proofs.ReachProps.
From SVC Require Model.EndBlock Model.Step Proofs.ReachRun Proofs.GapC17.
From SVC Require Base.Bytes gen.KeysGen Proofs.GapC17K.
Import ListNotations.
Open Scope Z_scope.


Theorem C17_q_definition : forall s svc,
  wf (defs s) ->
  (forall d, q_definition s svc = AOk d <-> In (svc, d) (defs s)) /\
  (q_definition s svc = ANotFound <-> ~ In svc (keys (defs s))) /\
  q_definition s svc <> AErr.
Proof. exact QueryProofs.C17_q_definition. Qed.
Print Assumptions C17_q_definition.

Theorem C17_q_binding : forall s svc prov,
  wf (binds s) ->
  (forall b, q_binding s svc prov = AOk b <-> In ((svc, prov), b) (binds s)) /\
  (q_binding s svc prov = ANotFound <-> ~ In (svc, prov) (keys (binds s))) /\
  q_binding s svc prov <> AErr.
Proof. exact QueryProofs.C17_q_binding. Qed.
Print Assumptions C17_q_binding.

Theorem C17_q_request_context : forall s c,
  wf (ctxs s) ->
  (forall rc, q_request_context s c = AOk rc <-> In (c, rc) (ctxs s)) /\
  (q_request_context s c = ANotFound <-> ~ In c (keys (ctxs s))) /\
  q_request_context s c <> AErr.
Proof. exact QueryProofs.C17_q_request_context. Qed.
Print Assumptions C17_q_request_context.

Theorem C17_q_response : forall s r,
  wf (resps s) ->
  (forall x, q_response s r = AOk x <-> In (r, x) (resps s)) /\
  (q_response s r = ANotFound <-> ~ In r (keys (resps s))) /\
  q_response s r <> AErr.
Proof. exact QueryProofs.C17_q_response. Qed.
Print Assumptions C17_q_response.

Theorem C17_q_withdraw_address : forall s owner,
  wf (wdaddr s) ->
  exists a, q_withdraw_address s owner = AOk a /\
            (forall a', In (owner, a') (wdaddr s) -> a = a') /\
            (~ In owner (keys (wdaddr s)) -> a = owner) /\
            (a = owner \/ In (owner, a) (wdaddr s)).
Proof. exact QueryProofs.C17_q_withdraw_address. Qed.
Print Assumptions C17_q_withdraw_address.

Theorem C17_request_reconstruction : forall s r,
  (forall fr, get_request s r = Some fr <->
              exists q rc, get r (reqs s) = Some q /\ get (rid_ctx r) (ctxs s) = Some rc /\
                           fr = join_request r q rc) /\
  (reqs_have_ctx s ->
   forall q, get r (reqs s) = Some q ->
             exists rc, get (rid_ctx r) (ctxs s) = Some rc /\
                        get_request s r = Some (join_request r q rc)).
Proof. exact QueryProofs.C17_request_reconstruction. Qed.
Print Assumptions C17_request_reconstruction.

Theorem C17_q_request : forall s r,
  wf (reqs s) -> wf (ctxs s) -> reqs_have_ctx s ->
  (forall fr, q_request s r = AOk fr <->
              exists q rc, In (r, q) (reqs s) /\ In (rid_ctx r, rc) (ctxs s) /\
                           fr = join_request r q rc) /\
  (q_request s r = ANotFound <-> ~ In r (keys (reqs s))) /\
  q_request s r <> AErr.
Proof. exact QueryProofs.C17_q_request. Qed.
Print Assumptions C17_q_request.

Theorem C17_absent_is_notfound : forall s,
  (forall svc, get svc (defs s) = None -> q_definition s svc = ANotFound) /\
  (forall svc prov, get (svc, prov) (binds s) = None -> q_binding s svc prov = ANotFound) /\
  (forall c, get c (ctxs s) = None -> q_request_context s c = ANotFound) /\
  (forall r, get r (reqs s) = None -> q_request s r = ANotFound) /\
  (forall r, get r (resps s) = None -> q_response s r = ANotFound) /\
  (forall r fr, q_request s r = AOk fr -> exists q, get r (reqs s) = Some q) /\
  (forall c rc, q_request_context s c = AOk rc -> get c (ctxs s) = Some rc) /\
  (forall r x, q_response s r = AOk x -> get r (resps s) = Some x).
Proof. exact QueryProofs.C17_absent_is_notfound. Qed.
Print Assumptions C17_absent_is_notfound.

Theorem C17_q_bindings : forall s svc,
  exists l, q_bindings s svc 0 = AOk l /\
            l = QueryProofs.spec_bindings s svc /\
            (forall k b, In (k, b) l <-> In (k, b) (binds s) /\ fst k = svc) /\
            (wf (binds s) -> NoDup l).
Proof. exact QueryProofs.C17_q_bindings. Qed.
Print Assumptions C17_q_bindings.

Theorem C17_q_bindings_owner : forall s svc owner,
  owner <> 0 -> wf (binds s) -> NoDup (own_bind s) -> idx_own_bind_ok s ->
  exists l, q_bindings s svc owner = AOk l /\
            (forall k b, In (k, b) l <->
                         In (k, b) (binds s) /\ fst k = svc /\ b_owner b = owner) /\
            NoDup l /\
            Permutation l (QueryProofs.spec_bindings_owner s svc owner).
Proof. exact QueryProofs.C17_q_bindings_owner. Qed.
Print Assumptions C17_q_bindings_owner.

Theorem C17_q_requests : forall s svc prov,
  wf (reqs s) ->
  exists l, q_requests s svc prov = AOk l /\
            Permutation l (QueryProofs.spec_requests s svc prov) /\
            (forall fr, In fr l <->
                        exists r q rc, In (r, q) (reqs s) /\ get (rid_ctx r) (ctxs s) = Some rc /\
                                       r_active q = true /\ r_prov q = prov /\ c_svc rc = svc /\
                                       fr = join_request r q rc).
Proof. exact QueryProofs.C17_q_requests. Qed.
Print Assumptions C17_q_requests.

Theorem C17_q_requests_order : forall s svc prov,
  Sorted (QueryProofs.le_of act_leb) (active_requests_of_binding s svc prov) /\
  (forall kv, In kv (active_requests_of_binding s svc prov) <->
              In kv (reqs s) /\ is_active_of s svc prov kv = true).
Proof. exact QueryProofs.C17_q_requests_order. Qed.
Print Assumptions C17_q_requests_order.

Theorem C17_q_requests_by_ctx : forall s c batch,
  wf (reqs s) -> reqs_have_ctx s ->
  exists l, q_requests_by_ctx s c batch = AOk l /\
            Permutation l (QueryProofs.spec_requests_by_ctx s c batch) /\
            (forall fr, In fr l <->
                        exists r q rc, In (r, q) (reqs s) /\ get (rid_ctx r) (ctxs s) = Some rc /\
                                       rid_ctx r = c /\ rid_batch r = batch /\
                                       fr = join_request r q rc) /\
            length l = length (filter (fun kv => in_batch c batch (fst kv)) (reqs s)).
Proof. exact QueryProofs.C17_q_requests_by_ctx. Qed.
Print Assumptions C17_q_requests_by_ctx.

Theorem C17_q_requests_by_ctx_order : forall s c batch,
  Sorted (QueryProofs.le_of rid_leb) (batch_rids s c batch) /\
  (forall r, In r (batch_rids s c batch) <->
             In r (keys (reqs s)) /\ rid_ctx r = c /\ rid_batch r = batch).
Proof. exact QueryProofs.C17_q_requests_by_ctx_order. Qed.
Print Assumptions C17_q_requests_by_ctx_order.

Theorem C17_q_responses : forall s c batch,
  exists l, q_responses s c batch = AOk l /\
            Permutation l (QueryProofs.spec_responses s c batch) /\
            (forall r x, In (r, x) l <->
                         In (r, x) (resps s) /\ rid_ctx r = c /\ rid_batch r = batch) /\
            Sorted (QueryProofs.le_of resp_leb) l /\
            (wf (resps s) -> NoDup l).
Proof. exact QueryProofs.C17_q_responses. Qed.
Print Assumptions C17_q_responses.

Theorem C17_q_earned_fees : forall s prov,
  wf (earned s) ->
  exists l, q_earned_fees s prov = AOk l /\
            (forall v, In v l <-> In (prov, v) (earned s)) /\
            (length l <= 1)%nat.
Proof. exact QueryProofs.C17_q_earned_fees. Qed.
Print Assumptions C17_q_earned_fees.

Theorem C17_q_schema : forall name,
  (name = 1 -> q_schema name = AOk 1) /\ (name = 2 -> q_schema name = AOk 2) /\
  (name <> 1 -> name <> 2 -> q_schema name = ANotFound).
Proof. exact QueryProofs.C17_q_schema. Qed.
Print Assumptions C17_q_schema.

Theorem C17_same_answers : forall cfg s,
  (forall svc, lq_definition s svc = q_definition s svc) /\
  (forall svc prov, lq_binding true s svc prov = q_binding s svc prov) /\
  (forall svc owner, lq_bindings true s svc owner = q_bindings s svc owner) /\
  (forall owner, lq_withdraw_address true s owner = q_withdraw_address s owner) /\
  (forall c, lq_request_context s c = q_request_context s c) /\
  (forall r, lq_request s r = q_request s r) /\
  (forall svc prov, lq_requests true s svc prov = q_requests s svc prov) /\
  (forall c b, lq_requests_by_ctx s c b = q_requests_by_ctx s c b) /\
  (forall r, lq_response s r = q_response s r) /\
  (forall c b, lq_responses s c b = q_responses s c b) /\
  (forall prov, lq_earned_fees true s prov = q_earned_fees s prov) /\
  (forall n, lq_schema n = q_schema n) /\
  lq_params cfg = q_params cfg.
Proof. exact QueryProofs.C17_same_answers. Qed.
Print Assumptions C17_same_answers.

Theorem C17_q_params : forall cfg, q_params cfg = AOk cfg.
Proof. exact QueryProofs.C17_q_params. Qed.
Print Assumptions C17_q_params.

(* the hypotheses of the theorems above hold in every reachable state *)
Theorem C17_hypotheses_hold :
  forall (cfg : Types.Params) (s : State),
    SVC.Proofs.Inv.wf_cfg cfg -> SVC.Proofs.Inv.Reach cfg s ->
    idx_own_bind_ok s /\ reqs_have_ctx s
    /\ wf (defs s) /\ wf (binds s) /\ wf (ctxs s) /\ wf (reqs s) /\ wf (resps s)
    /\ wf (wdaddr s) /\ wf (earned s) /\ NoDup (own_bind s).
Proof. exact SVC.Proofs.ReachProps.query_hypotheses. Qed.
Print Assumptions C17_hypotheses_hold.

(* ------------------------------------------------------------------ *)
(* Over reachable states (Proofs/GapC17.v): the theorems above with their hypotheses
   discharged by C17_hypotheses_hold, one by one. *)
Notation wf_cfg := SVC.Proofs.Inv.wf_cfg.
Notation Reach := SVC.Proofs.Inv.Reach.

Theorem C17_reach_q_definition : forall cfg s svc, wf_cfg cfg -> Reach cfg s ->
  (forall d, q_definition s svc = AOk d <-> In (svc, d) (defs s)) /\
  (q_definition s svc = ANotFound <-> ~ In svc (keys (defs s))) /\
  q_definition s svc <> AErr.
Proof. intros cfg s svc Hc Hr. exact (GapC17.reach_q_definition cfg s Hc Hr svc). Qed.
Print Assumptions C17_reach_q_definition.

Theorem C17_reach_q_binding : forall cfg s svc prov, wf_cfg cfg -> Reach cfg s ->
  (forall b, q_binding s svc prov = AOk b <-> In ((svc, prov), b) (binds s)) /\
  (q_binding s svc prov = ANotFound <-> ~ In (svc, prov) (keys (binds s))) /\
  q_binding s svc prov <> AErr.
Proof. intros cfg s svc prov Hc Hr. exact (GapC17.reach_q_binding cfg s Hc Hr svc prov). Qed.
Print Assumptions C17_reach_q_binding.

Theorem C17_reach_q_bindings : forall cfg s svc, wf_cfg cfg -> Reach cfg s ->
  exists l, q_bindings s svc 0 = AOk l /\
            (forall k b, In (k, b) l <-> In (k, b) (binds s) /\ fst k = svc) /\ NoDup l.
Proof. intros cfg s svc Hc Hr. exact (GapC17.reach_q_bindings cfg s Hc Hr svc). Qed.
Print Assumptions C17_reach_q_bindings.

Theorem C17_reach_q_bindings_owner : forall cfg s svc owner, wf_cfg cfg -> Reach cfg s ->
  owner <> 0 ->
  exists l, q_bindings s svc owner = AOk l /\
            (forall k b, In (k, b) l <->
                         In (k, b) (binds s) /\ fst k = svc /\ b_owner b = owner) /\
            NoDup l.
Proof. intros cfg s svc owner Hc Hr. exact (GapC17.reach_q_bindings_owner cfg s Hc Hr svc owner). Qed.
Print Assumptions C17_reach_q_bindings_owner.

Theorem C17_reach_q_withdraw_address : forall cfg s owner, wf_cfg cfg -> Reach cfg s ->
  exists a, q_withdraw_address s owner = AOk a /\
            (forall a', In (owner, a') (wdaddr s) -> a = a') /\
            (~ In owner (keys (wdaddr s)) -> a = owner) /\
            (a = owner \/ In (owner, a) (wdaddr s)).
Proof. intros cfg s owner Hc Hr. exact (GapC17.reach_q_withdraw_address cfg s Hc Hr owner). Qed.
Print Assumptions C17_reach_q_withdraw_address.

Theorem C17_reach_q_request_context : forall cfg s c, wf_cfg cfg -> Reach cfg s ->
  (forall rc, q_request_context s c = AOk rc <-> In (c, rc) (ctxs s)) /\
  (q_request_context s c = ANotFound <-> ~ In c (keys (ctxs s))) /\
  q_request_context s c <> AErr.
Proof. intros cfg s c Hc Hr. exact (GapC17.reach_q_request_context cfg s Hc Hr c). Qed.
Print Assumptions C17_reach_q_request_context.

Theorem C17_reach_q_request : forall cfg s r, wf_cfg cfg -> Reach cfg s ->
  (forall fr, q_request s r = AOk fr <->
              exists q rc, In (r, q) (reqs s) /\ In (rid_ctx r, rc) (ctxs s) /\
                           fr = join_request r q rc) /\
  (q_request s r = ANotFound <-> ~ In r (keys (reqs s))) /\
  q_request s r <> AErr.
Proof. intros cfg s r Hc Hr. exact (GapC17.reach_q_request cfg s Hc Hr r). Qed.
Print Assumptions C17_reach_q_request.

Theorem C17_reach_q_response : forall cfg s r, wf_cfg cfg -> Reach cfg s ->
  (forall x, q_response s r = AOk x <-> In (r, x) (resps s)) /\
  (q_response s r = ANotFound <-> ~ In r (keys (resps s))) /\
  q_response s r <> AErr.
Proof. intros cfg s r Hc Hr. exact (GapC17.reach_q_response cfg s Hc Hr r). Qed.
Print Assumptions C17_reach_q_response.

(* the two request listings: exactly the stored records, joined with their contexts, and no
   fabricated (zero) entry *)
Theorem C17_reach_q_requests : forall cfg s svc prov, wf_cfg cfg -> Reach cfg s ->
  exists l, q_requests s svc prov = AOk l /\
            (forall fr, In fr l <->
                        exists r q rc, In (r, q) (reqs s) /\ get (rid_ctx r) (ctxs s) = Some rc /\
                                       r_active q = true /\ r_prov q = prov /\ c_svc rc = svc /\
                                       fr = join_request r q rc) /\
            ~ In zero_request l.
Proof. intros cfg s svc prov Hc Hr. exact (GapC17.reach_q_requests cfg s Hc Hr svc prov). Qed.
Print Assumptions C17_reach_q_requests.

Theorem C17_reach_q_requests_by_ctx : forall cfg s c batch, wf_cfg cfg -> Reach cfg s ->
  exists l, q_requests_by_ctx s c batch = AOk l /\
            (forall fr, In fr l <->
                        exists r q rc, In (r, q) (reqs s) /\ get (rid_ctx r) (ctxs s) = Some rc /\
                                       rid_ctx r = c /\ rid_batch r = batch /\
                                       fr = join_request r q rc) /\
            length l = length (filter (fun kv => in_batch c batch (fst kv)) (reqs s)) /\
            ~ In zero_request l.
Proof. intros cfg s c batch Hc Hr. exact (GapC17.reach_q_requests_by_ctx cfg s Hc Hr c batch). Qed.
Print Assumptions C17_reach_q_requests_by_ctx.

Theorem C17_reach_q_responses : forall cfg s c batch, wf_cfg cfg -> Reach cfg s ->
  exists l, q_responses s c batch = AOk l /\
            (forall r x, In (r, x) l <->
                         In (r, x) (resps s) /\ rid_ctx r = c /\ rid_batch r = batch) /\
            Sorted (QueryProofs.le_of resp_leb) l /\ NoDup l.
Proof. intros cfg s c batch Hc Hr. exact (GapC17.reach_q_responses cfg s Hc Hr c batch). Qed.
Print Assumptions C17_reach_q_responses.

Theorem C17_reach_q_earned_fees : forall cfg s prov, wf_cfg cfg -> Reach cfg s ->
  exists l, q_earned_fees s prov = AOk l /\
            (forall v, In v l <-> In (prov, v) (earned s)) /\ (length l <= 1)%nat.
Proof. intros cfg s prov Hc Hr. exact (GapC17.reach_q_earned_fees cfg s Hc Hr prov). Qed.
Print Assumptions C17_reach_q_earned_fees.

(* "each request reconstructed from its context correctly": the joined fields are those in
   force when the request was issued - over any run, a request stored at both ends shows the
   same service, provider, consumer, input, fee, super mode and expiration height (its id is
   never re-used: C17_issued_before) *)
Theorem C17_issued_before : forall cfg s r q, wf_cfg cfg -> Reach cfg s ->
  get r (reqs s) = Some q -> rid_height r < height s.
Proof. intros cfg s r q Hc Hr. exact (GapC17.Reach_issued_before cfg s Hc Hr r q). Qed.
Print Assumptions C17_issued_before.

Theorem C17_reconstruction_stable : forall cfg s ops r q q' rc rc',
  wf_cfg cfg -> Reach cfg s -> SVC.Proofs.ReachRun.wf_run cfg s ops ->
  get r (reqs s) = Some q -> get (rid_ctx r) (ctxs s) = Some rc ->
  get r (reqs (Step.run cfg s ops)) = Some q' ->
  get (rid_ctx r) (ctxs (Step.run cfg s ops)) = Some rc' ->
  let a := join_request r q rc in let b := join_request r q' rc' in
  fr_svc b = fr_svc a /\ fr_prov b = fr_prov a /\ fr_cons b = fr_cons a /\ fr_input b = fr_input a
  /\ fr_fee b = fr_fee a /\ fr_super b = fr_super a /\ fr_exp b = fr_exp a
  /\ fr_height b = fr_height a /\ fr_ctx b = fr_ctx a /\ fr_batch b = fr_batch a.
Proof. exact GapC17.C17_reconstruction_stable. Qed.
Print Assumptions C17_reconstruction_stable.

(* The legacy interface decodes address arguments from amino JSON, which accepts the empty
   address or exactly 20 bytes (AccAddress.UnmarshalJSON -> VerifyAddressFormat); the gRPC
   request carries raw bytes of any length.  For every byte-length assignment `alen` the two
   interfaces agree on the decodable addresses and the legacy one fails on all others. *)
Theorem C17_same_answers_addr : forall (alen : Z -> Z) s,
  (forall svc prov, GapC17.json_addr_ok alen prov = true ->
     lq_binding (GapC17.json_addr_ok alen prov) s svc prov = q_binding s svc prov)
  /\ (forall svc owner, GapC17.json_addr_ok alen owner = true ->
     lq_bindings (GapC17.json_addr_ok alen owner) s svc owner = q_bindings s svc owner)
  /\ (forall owner, GapC17.json_addr_ok alen owner = true ->
     lq_withdraw_address (GapC17.json_addr_ok alen owner) s owner = q_withdraw_address s owner)
  /\ (forall svc prov, GapC17.json_addr_ok alen prov = true ->
     lq_requests (GapC17.json_addr_ok alen prov) s svc prov = q_requests s svc prov)
  /\ (forall prov, GapC17.json_addr_ok alen prov = true ->
     lq_earned_fees (GapC17.json_addr_ok alen prov) s prov = q_earned_fees s prov).
Proof. exact GapC17.same_answers_addr. Qed.
Print Assumptions C17_same_answers_addr.

Theorem C17_json_addr_ok_def : forall alen a,
  GapC17.json_addr_ok alen a = ((a =? 0) || (alen a =? 20)).
Proof. reflexivity. Qed.
Print Assumptions C17_json_addr_ok_def.

Theorem C17_legacy_rejects_other_lengths : forall (alen : Z -> Z) s,
  (forall svc prov, GapC17.json_addr_ok alen prov = false ->
     lq_binding (GapC17.json_addr_ok alen prov) s svc prov = AErr)
  /\ (forall svc owner, GapC17.json_addr_ok alen owner = false ->
     lq_bindings (GapC17.json_addr_ok alen owner) s svc owner = AErr)
  /\ (forall owner, GapC17.json_addr_ok alen owner = false ->
     lq_withdraw_address (GapC17.json_addr_ok alen owner) s owner = AErr)
  /\ (forall svc prov, GapC17.json_addr_ok alen prov = false ->
     lq_requests (GapC17.json_addr_ok alen prov) s svc prov = AErr)
  /\ (forall prov, GapC17.json_addr_ok alen prov = false ->
     lq_earned_fees (GapC17.json_addr_ok alen prov) s prov = AErr).
Proof. exact GapC17.legacy_rejects_other_lengths. Qed.
Print Assumptions C17_legacy_rejects_other_lengths.

(* hence "gRPC and legacy give the same answers" is false for such arguments, on a reachable
   state: gRPC answers, legacy fails *)
Theorem C17_same_answers_refuted :
  exists cfg s svc prov b, wf_cfg cfg /\ Reach cfg s
    /\ q_binding s svc prov = AOk b /\ lq_binding false s svc prov = AErr
    /\ (exists l, q_requests s svc prov = AOk l) /\ lq_requests false s svc prov = AErr
    /\ (exists l, q_earned_fees s prov = AOk l) /\ lq_earned_fees false s prov = AErr.
Proof. exact GapC17.C17_same_answers_refuted. Qed.
Print Assumptions C17_same_answers_refuted.

(* Bridge to the key layer (C18): the prefix scans behind the two binding listings select exactly
   what the model's atom-level filters select, for any injective zero-free byte form of the
   service names (so also for names that are prefixes of one another) and 20-byte owners. *)
Theorem C17_bindings_scan_is_filter :
  forall (bech : Bytes.bytes -> Bytes.bytes) (nb ab : Z -> Bytes.bytes),
    (forall a b, nb a = nb b -> a = b) -> (forall a, Bytes.zero_free (nb a)) ->
    forall (s : State) svc k b, In (k, b) (binds s) ->
      (Bytes.is_prefix (KeysGen.GetBindingsSubspace (nb svc))
                       (KeysGen.GetServiceBindingKey bech (nb (fst k)) (ab (snd k)))
       <-> In (k, b) (bindings_of_service s svc)).
Proof. exact GapC17K.bindings_scan_is_filter. Qed.
Print Assumptions C17_bindings_scan_is_filter.

Theorem C17_owner_bindings_scan_is_filter :
  forall (nb ab : Z -> Bytes.bytes),
    (forall a b, nb a = nb b -> a = b) -> (forall a, Bytes.zero_free (nb a)) ->
    (forall a b, ab a = ab b -> a = b) ->
    forall owner svc o sv p, length (ab owner) = 20%nat -> length (ab o) = 20%nat ->
      (Bytes.is_prefix (KeysGen.GetOwnerBindingsSubspace (ab owner) (nb svc))
                       (KeysGen.GetOwnerServiceBindingKey (ab o) (nb sv) (ab p))
       <-> ((o =? owner) && (sv =? svc) = true)).
Proof. exact GapC17K.owner_bindings_scan_is_filter. Qed.
Print Assumptions C17_owner_bindings_scan_is_filter.
