(* C16  Finished batches and contexts leave nothing behind.
   Statements only; the proofs are in Proofs/C16Proofs.v (on top of Reach_Inv).
   In the model the "pending-request markers" of the implementation are the
   `r_active` flag of the request record (one flag stands for both marker indexes:
   their agreement is part of the correspondence check, group `req`), so "no marker
   without its request" holds by construction.
   Note O1 (DESIGN 6.3): a repeated context killed BETWEEN batches stays in the store
   as `Completed` (no event is pending that would remove it); C16_finished_removed
   speaks of contexts whose in-flight batch expires. *)
From Coq Require Import List ZArith Bool.
From SVC Require Import Base.AMap Model.Types Model.Handlers Model.EndBlock Model.Step
  Proofs.Inv Proofs.CtxOps Proofs.C16Proofs.
Import ListNotations.
Open Scope Z_scope.

(* at every reachable state: no request/response record outside the current batch of an
   existing context with a pending expiry; no response without its (inactive) request;
   a context without pending expiry has no record at all; queue entries and pointers
   only for existing contexts *)
Theorem C16_no_orphans : forall cfg s, wf_cfg cfg -> Reach cfg s ->
  (forall r q, In (r, q) (reqs s) ->
     exists rc, get (rid_ctx r) (ctxs s) = Some rc /\ rid_batch r = c_counter rc
       /\ get (rid_ctx r) (expq_h s) = Some (r_exp q)
       /\ In (r_exp q, rid_ctx r) (expq s))
  /\ (forall r x, In (r, x) (resps s) ->
        exists q, get r (reqs s) = Some q /\ r_active q = false)
  /\ (forall c r, get c (expq_h s) = None -> rid_ctx r = c ->
        get r (reqs s) = None /\ get r (resps s) = None)
  /\ (forall h c, In (h, c) (expq s) \/ In (h, c) (newq s) -> has c (ctxs s) = true)
  /\ (forall c, has c (expq_h s) = true \/ has c (newq_h s) = true -> has c (ctxs s) = true).
Proof. exact C16Proofs.C16_no_orphans. Qed.
Print Assumptions C16_no_orphans.

(* the expiry handler of a context removes every request and response record of the
   context, its expiry entry and pointer, and no record of any other context *)
Theorem C16_cleanup : forall cfg s c,
  wf_cfg cfg -> Inv cfg s -> In (height s, c) (expq s) -> height s < HEIGHT_BOUND ->
  let s' := expire_one cfg s c in
  (forall r, rid_ctx r = c -> get r (reqs s') = None /\ get r (resps s') = None)
  /\ get c (expq_h s') = None /\ (forall h, ~ In (h, c) (expq s'))
  /\ (forall r, rid_ctx r <> c ->
        get r (reqs s') = get r (reqs s) /\ get r (resps s') = get r (resps s)).
Proof. exact C16Proofs.C16_cleanup. Qed.
Print Assumptions C16_cleanup.

(* after it, the context is absent (record, both pointers; EvCtxRemoved logged) exactly if
   it was completed (killed), or running and exhausted (one-shot, or total reached) *)
Theorem C16_finished_removed : forall cfg s c rc,
  wf_cfg cfg -> Inv cfg s -> In (height s, c) (expq s) -> height s < HEIGHT_BOUND ->
  get c (ctxs s) = Some rc ->
  let fin :=
    c_state rc = Completed
    \/ (c_state rc = Running
        /\ (c_rep rc = false \/ (0 <= c_total rc /\ c_total rc <= c_counter rc))) in
  let s' := expire_one cfg s c in
  (fin ->
     get c (ctxs s') = None /\ get c (expq_h s') = None /\ get c (newq_h s') = None
     /\ In (EvCtxRemoved c) (log s'))
  /\ (~ fin -> exists rc', get c (ctxs s') = Some rc' /\ c_state rc' = c_state rc).
Proof. exact C16Proofs.C16_finished_removed. Qed.
Print Assumptions C16_finished_removed.

(* D5: the new-batch handler removes a running repeated context whose positive total is
   already reached *)
Theorem C16_total_reached_removed : forall cfg s c rc,
  Inv cfg s -> In (height s, c) (newq s) -> get c (ctxs s) = Some rc ->
  c_state rc = Running -> c_rep rc = true -> 0 < c_total rc -> c_total rc <= c_counter rc ->
  let s' := new_one cfg s c in
  get c (ctxs s') = None /\ get c (expq_h s') = None /\ get c (newq_h s') = None
  /\ In (EvCtxRemoved c) (log s').
Proof. exact C16Proofs.C16_total_reached_removed. Qed.
Print Assumptions C16_total_reached_removed.

(* the hypotheses `Inv cfg s` above are those of every state inside EndBlock:
   Proofs/InvAll.v Reach_Inv, Inv_inside_end_block, fold_expire_phase, fold_new_phase *)
