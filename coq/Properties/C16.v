(* C16  Finished batches and contexts leave nothing behind.
   Statements only; the proofs are in Proofs/C16Proofs.v (on top of Reach_Inv).
   In the model the "pending-request markers" of the implementation are the
   `r_active` flag of the request record (one flag stands for both marker indexes:
   their agreement is part of the correspondence check, group `req`), so "no marker
   without its request" holds by construction.
   Note O1 (DESIGN 6.3): a repeated context killed BETWEEN batches stays in the store
   as `Completed` (no event is pending that would remove it); C16_finished_removed
   speaks of contexts whose in-flight batch expires. *)
From Coq Require Import List ZArith Bool.
From SVC Require Import Base.AMap Model.Types Model.Handlers Model.EndBlock Model.Step
  Proofs.Inv Proofs.CtxOps Proofs.C16Proofs.
From SVC Require Import Proofs.StepSpecs_ctx Proofs.GapC16.
From SVC Require Import Model.ParamStep Proofs.ParamChange Proofs.ReachPProps.
Import ListNotations.
Open Scope Z_scope.

(* at every reachable state: no request/response record outside the current batch of an
   existing context with a pending expiry; no response without its (inactive) request;
   a context without pending expiry has no record at all; queue entries and pointers
   only for existing contexts *)
Theorem C16_no_orphans : forall cfg s, wf_cfg cfg -> Reach cfg s ->
  (forall r q, In (r, q) (reqs s) ->
     exists rc, get (rid_ctx r) (ctxs s) = Some rc /\ rid_batch r = c_counter rc
       /\ get (rid_ctx r) (expq_h s) = Some (r_exp q)
       /\ In (r_exp q, rid_ctx r) (expq s))
  /\ (forall r x, In (r, x) (resps s) ->
        exists q, get r (reqs s) = Some q /\ r_active q = false)
  /\ (forall c r, get c (expq_h s) = None -> rid_ctx r = c ->
        get r (reqs s) = None /\ get r (resps s) = None)
  /\ (forall h c, In (h, c) (expq s) \/ In (h, c) (newq s) -> has c (ctxs s) = true)
  /\ (forall c, has c (expq_h s) = true \/ has c (newq_h s) = true -> has c (ctxs s) = true).
Proof. exact C16Proofs.C16_no_orphans. Qed.
Print Assumptions C16_no_orphans.

(* the expiry handler of a context removes every request and response record of the
   context, its expiry entry and pointer, and no record of any other context *)
Theorem C16_cleanup : forall cfg s c,
  wf_cfg cfg -> Inv cfg s -> In (height s, c) (expq s) -> height s < HEIGHT_BOUND ->
  let s' := expire_one cfg s c in
  (forall r, rid_ctx r = c -> get r (reqs s') = None /\ get r (resps s') = None)
  /\ get c (expq_h s') = None /\ (forall h, ~ In (h, c) (expq s'))
  /\ (forall r, rid_ctx r <> c ->
        get r (reqs s') = get r (reqs s) /\ get r (resps s') = get r (resps s)).
Proof. exact C16Proofs.C16_cleanup. Qed.
Print Assumptions C16_cleanup.

(* after it, the context is absent (record, both pointers; EvCtxRemoved logged) exactly if
   it was completed (killed), or running and exhausted (one-shot, or total reached) *)
Theorem C16_finished_removed : forall cfg s c rc,
  wf_cfg cfg -> Inv cfg s -> In (height s, c) (expq s) -> height s < HEIGHT_BOUND ->
  get c (ctxs s) = Some rc ->
  let fin :=
    c_state rc = Completed
    \/ (c_state rc = Running
        /\ (c_rep rc = false \/ (0 <= c_total rc /\ c_total rc <= c_counter rc))) in
  let s' := expire_one cfg s c in
  (fin ->
     get c (ctxs s') = None /\ get c (expq_h s') = None /\ get c (newq_h s') = None
     /\ In (EvCtxRemoved c) (log s'))
  /\ (~ fin -> exists rc', get c (ctxs s') = Some rc' /\ c_state rc' = c_state rc).
Proof. exact C16Proofs.C16_finished_removed. Qed.
Print Assumptions C16_finished_removed.

(* D5: the new-batch handler removes a running repeated context whose positive total is
   already reached *)
Theorem C16_total_reached_removed : forall cfg s c rc,
  Inv cfg s -> In (height s, c) (newq s) -> get c (ctxs s) = Some rc ->
  c_state rc = Running -> c_rep rc = true -> 0 < c_total rc -> c_total rc <= c_counter rc ->
  let s' := new_one cfg s c in
  get c (ctxs s') = None /\ get c (expq_h s') = None /\ get c (newq_h s') = None
  /\ In (EvCtxRemoved c) (log s').
Proof. exact C16Proofs.C16_total_reached_removed. Qed.
Print Assumptions C16_total_reached_removed.

(* the hypotheses `Inv cfg s` above are those of every state inside EndBlock:
   Proofs/InvAll.v Reach_Inv, Inv_inside_end_block, fold_expire_phase, fold_new_phase *)

(* ------------------------------------------------------------------ *)
(* Block level, over reachable states (Proofs/GapC16.v) *)

(* after the EndBlock in which the expiry of a context's batch is due, no request and no
   response record of that batch (or an older one) remains - also when the next batch of the
   same context is issued in the same block (frequency = timeout: the new records carry the
   next batch number), and whatever other contexts expire or start in that block *)
Theorem C16_end_block_cleanup : forall cfg s dt c rc r,
  wf_cfg cfg -> Reach cfg s -> wf_op s (OEndBlock dt) ->
  In (height s, c) (expq s) -> get c (ctxs s) = Some rc ->
  rid_ctx r = c -> rid_batch r <= c_counter rc ->
  get r (reqs (end_block cfg s dt)) = None /\ get r (resps (end_block cfg s dt)) = None.
Proof. exact GapC16.C16_end_block_cleanup. Qed.
Print Assumptions C16_end_block_cleanup.

(* a finished context whose batch expires in this block is gone after the block: record, both
   queue pointers, every request and response record; an unfinished one is still there with
   the same static fields *)
Theorem C16_end_block_finished_removed : forall cfg s dt c rc,
  wf_cfg cfg -> Reach cfg s -> wf_op s (OEndBlock dt) ->
  In (height s, c) (expq s) -> get c (ctxs s) = Some rc ->
  let fin :=
    c_state rc = Completed
    \/ (c_state rc = Running
        /\ (c_rep rc = false \/ (0 <= c_total rc /\ c_total rc <= c_counter rc))) in
  let s' := end_block cfg s dt in
  (fin ->
     get c (ctxs s') = None /\ get c (expq_h s') = None /\ get c (newq_h s') = None
     /\ In (EvCtxRemoved c) (log s')
     /\ (forall r, rid_ctx r = c -> get r (reqs s') = None /\ get r (resps s') = None))
  /\ (~ fin -> exists rc', get c (ctxs s') = Some rc'
        /\ c_svc rc' = c_svc rc /\ c_cons rc' = c_cons rc /\ c_input rc' = c_input rc
        /\ c_super rc' = c_super rc /\ c_rep rc' = c_rep rc /\ c_mod rc' = c_mod rc).
Proof. exact GapC16.C16_end_block_finished_removed. Qed.
Print Assumptions C16_end_block_finished_removed.

(* a paused context whose batch expires stays, whatever its total (it is removed when it is
   started again - C16_total_reached_removed - or killed) *)
Theorem C16_paused_kept : forall cfg s dt c rc,
  wf_cfg cfg -> Reach cfg s -> wf_op s (OEndBlock dt) ->
  In (height s, c) (expq s) -> get c (ctxs s) = Some rc -> c_state rc = Paused ->
  exists rc', get c (ctxs (end_block cfg s dt)) = Some rc'
    /\ c_svc rc' = c_svc rc /\ c_cons rc' = c_cons rc /\ c_input rc' = c_input rc
    /\ c_super rc' = c_super rc /\ c_rep rc' = c_rep rc /\ c_mod rc' = c_mod rc.
Proof. exact GapC16.C16_paused_kept. Qed.
Print Assumptions C16_paused_kept.

(* "at all times": the no-orphans statement also holds between the per-context handlers of
   the expiry phase and of the new-batch phase *)
Theorem C16_no_orphans_inside_end_block : forall cfg s,
  wf_cfg cfg -> Reach cfg s -> height s < HEIGHT_BOUND ->
  (forall k, C16Proofs.no_orphans
               (fold_left (expire_one cfg) (firstn k (due (expq s) (height s))) s))
  /\ (let sx := fold_left (expire_one cfg) (due (expq s) (height s)) s in
      forall k, C16Proofs.no_orphans
                  (fold_left (new_one cfg) (firstn k (due (newq sx) (height sx))) sx)).
Proof. exact GapC16.C16_no_orphans_inside_end_block. Qed.
Print Assumptions C16_no_orphans_inside_end_block.

(* The pending-request markers.  In the model both marker indexes are the flag r_active of the
   request record.  CleanBatch of the implementation does not delete markers; the model deletes
   the flag with the record.  The two agree because no request of the context is active when
   CleanBatch runs: *)
(* (i) batch already complete (the branch that skips the expiry loop) *)
Theorem C16_no_marker_when_batch_done : forall cfg s c rc r q,
  Inv cfg s -> get c (ctxs s) = Some rc -> c_bdone rc = true ->
  In (r, q) (reqs s) -> rid_ctx r = c -> r_active q = false.
Proof. exact GapC16.C16_no_marker_when_batch_done. Qed.
Print Assumptions C16_no_marker_when_batch_done.

(* (ii) after the expiry loop of the other branch *)
Theorem C16_markers_cleared_before_clean : forall cfg s c,
  wf_cfg cfg -> Inv cfg s -> In (height s, c) (expq s) ->
  let rc := ctx_or_zero s c in
  let s1 := fold_left (expire_req cfg) (active_rids s c (c_counter rc)) s in
  forall r q, In (r, q) (reqs s1) -> rid_ctx r = c -> r_active q = false.
Proof. exact GapC16.C16_markers_cleared_before_clean. Qed.
Print Assumptions C16_markers_cleared_before_clean.

(* DeleteActiveRequest rebuilds the by-binding marker key from the service name of the context
   and the provider / expiration height of the compact request; AddActiveRequest used the
   values at issue.  They are the same: none of these fields changes in any step while the
   record exists *)
Theorem C16_marker_key_stable : forall cfg s o r q q' rc rc',
  wf_cfg cfg -> Inv cfg s -> wf_op s o ->
  get r (reqs s) = Some q -> get r (reqs (fst (step cfg s o))) = Some q' ->
  get (rid_ctx r) (ctxs s) = Some rc -> get (rid_ctx r) (ctxs (fst (step cfg s o))) = Some rc' ->
  r_prov q' = r_prov q /\ r_exp q' = r_exp q /\ r_fee q' = r_fee q /\ c_svc rc' = c_svc rc.
Proof. exact GapC16.C16_marker_key_stable. Qed.
Print Assumptions C16_marker_key_stable.

(* ------------------------------------------------------------------------------------------
   Known finding K3 inside the model (DESIGN.md 12.10). `XCallMod` (Model/ModSvc.v) is the
   module-service branch of MsgCallService, executed by `xstep` on top of `pstep`; exclusion
   X-K3 is "the history contains no XCallMod" (`k3_free`).  The statements below are refuted /
   proved in Proofs/K3.v on concrete reachable witnesses (corpus history W10) by vm_compute. *)
From Coq Require Import List ZArith Bool Lia.
From SVC Require Import Base.AMap Base.Res Base.Dec Model.Types Model.Pricing Model.Handlers Model.EndBlock Model.Step Model.ParamStep Model.ModSvc Model.Genesis Proofs.Inv Proofs.ParamChange Proofs.K3.
Import ListNotations.
Open Scope Z_scope.

Theorem C16_K3_records_left_refuted :
  exists
           (cfg : Params) (s : State) (o : XOp) (ebs : list XOp) (cfg' : Params) (s' : State) 
         (r : ReqId) (q : Req) (x : Resp),
           wf_cfg cfg /\
           Reach cfg s /\
           is_callmod o = true /\
           k3_free ebs = true /\
           xrun (cfg, s) (o :: ebs) = (cfg', s') /\
           get r (reqs s') = Some q /\
           get r (resps s') = Some x /\
           r_exp q < height s' /\
           get (rid_ctx r) (ctxs s') = None /\
           get (rid_ctx r) (expq_h s') = None /\ get (rid_ctx r) (newq_h s') = None /\ ~ I_req s'.
Proof. exact K3.K3_records_left_refuted. Qed.
Print Assumptions C16_K3_records_left_refuted.

(* ---- governance parameter changes inside a history (Model/ParamStep.v, Proofs/ParamChange.v,
   Proofs/ReachPProps.v) ----
   The state-invariant statements above, with `wf_cfg cfg -> Reach cfg s` (parameters fixed along
   the history) replaced by `ReachP cfg s`: initial state; operations under the parameters in
   force; changes to a well-formed parameter set that does not raise the minimum-deposit terms
   nor lower the maximum request timeout (tax, slash fraction, arbitration and complaint periods
   change freely).  cfg is the parameter set in force in s.  Same conclusions. *)

Theorem C16_no_orphans_param_changes :
  forall cfg s, ReachP cfg s ->
  (forall r q, In (r, q) (reqs s) ->
     exists rc, get (rid_ctx r) (ctxs s) = Some rc /\ rid_batch r = c_counter rc
       /\ get (rid_ctx r) (expq_h s) = Some (r_exp q)
       /\ In (r_exp q, rid_ctx r) (expq s))
  /\ (forall r x, In (r, x) (resps s) ->
        exists q, get r (reqs s) = Some q /\ r_active q = false)
  /\ (forall c r, get c (expq_h s) = None -> rid_ctx r = c ->
        get r (reqs s) = None /\ get r (resps s) = None)
  /\ (forall h c, In (h, c) (expq s) \/ In (h, c) (newq s) -> has c (ctxs s) = true)
  /\ (forall c, has c (expq_h s) = true \/ has c (newq_h s) = true -> has c (ctxs s) = true).
Proof. exact ReachPProps.no_orphans_P. Qed.
Print Assumptions C16_no_orphans_param_changes.

Theorem C16_request_records_sound_param_changes :
  forall cfg s, ReachP cfg s ->
  (forall r q, get r (reqs s) = Some q ->
     exists rc, get (rid_ctx r) (ctxs s) = Some rc
       /\ rid_batch r = c_counter rc
       /\ get (rid_ctx r) (expq_h s) = Some (r_exp q)
       /\ 0 <= r_fee q /\ 0 <= rid_index r < c_breq rc /\ rid_height r < r_exp q
       /\ has (r_prov q) (owner_of s) = true
       /\ has (c_svc rc, r_prov q) (binds s) = true
       /\ (c_super rc = true -> r_fee q = 0))
  /\ (forall r x, get r (resps s) = Some x ->
        exists q, get r (reqs s) = Some q /\ r_active q = false)
  /\ (forall c rc, get c (ctxs s) = Some rc ->
        0 <= c_bresp rc <= c_breq rc
        /\ msum (active_in c) (reqs s)
           = (if has c (expq_h s) && negb (c_bdone rc) then c_breq rc - c_bresp rc else 0)
        /\ (has c (expq_h s) = true -> c_bdone rc = true -> 1 <= c_breq rc /\ c_bresp rc = c_breq rc)
        /\ (has c (expq_h s) = false -> c_bdone rc = true)).
Proof. exact ReachPProps.request_records_sound_P. Qed.
Print Assumptions C16_request_records_sound_param_changes.

Theorem C16_no_orphans_inside_end_block_param_changes : forall cfg s,
  ReachP cfg s -> height s < HEIGHT_BOUND ->
  (forall k, C16Proofs.no_orphans
               (fold_left (expire_one cfg) (firstn k (due (expq s) (height s))) s))
  /\ (let sx := fold_left (expire_one cfg) (due (expq s) (height s)) s in
      forall k, C16Proofs.no_orphans
                  (fold_left (new_one cfg) (firstn k (due (newq sx) (height sx))) sx)).
Proof. exact ReachPProps.no_orphans_inside_end_block_P. Qed.
Print Assumptions C16_no_orphans_inside_end_block_param_changes.
