(* C06  Requests go only to eligible providers, within the consumer's fee cap.
   Statements only; the proofs are in Proofs/StepSpecs_batch.v and StepSpecs_batch_block.v.
   [new_one cfg s c] is abci.go newRequestBatchHandler for the context c; its input state s is
   the state after the expiry phase of the same EndBlocker (Model/EndBlock.v end_blocker,
   Proofs/InvAll.v fold_new_phase), so bindings disabled by a slash earlier in the same
   end-of-block are already disabled in s.  [Inv cfg s] holds in every reachable state and in
   every intermediate state of EndBlock (Proofs/InvAll.v Reach_Inv, Inv_inside_end_block).
   Abbreviations (Proofs/CtxOps.v):
     d5 rc         = running, repeated, 0 < total <= counter  (the fix-D5 guard)
     bump rc n     = rc with counter + 1, n requests, 0 responses, batch running, threshold
     paused_ctx rc = rc with state Paused and the batch marked completed *)
From Coq Require Import List ZArith Bool.
From SVC Require Import Base.AMap Base.Res Base.Dec Model.Types Model.Pricing
  Model.Handlers Model.EndBlock Model.Step Proofs.Inv Proofs.CtxOps Proofs.StepSpecs_batch
  Proofs.StepSpecs_batch_block Proofs.ThrProofs Proofs.GapC06.
Import ListNotations.
Open Scope Z_scope.

(* FilterServiceProviders, one provider: bound, available, fast enough, not above the cap *)
Theorem C06_eligible_spec : forall s rc p price,
  eligible s rc p = Some price <->
  exists b, get (c_svc rc, p) (binds s) = Some b /\ b_avail b = true /\ b_qos b <= c_timeout rc
    /\ price = exchanged_price (pricing_of s (c_svc rc, p)) (time s)
                 (vol_of s (c_cons rc) (c_svc rc) p)
    /\ price <= c_cap rc.
Proof. exact eligible_spec. Qed.
Print Assumptions C06_eligible_spec.

(* the eligible set is the sub-list of the named providers, in the order given *)
Theorem C06_filter_providers_spec : forall s rc provs,
  map fst (filter_providers s rc provs) = filter (fun p => is_some (eligible s rc p)) provs.
Proof. exact filter_providers_spec. Qed.
Print Assumptions C06_filter_providers_spec.

Theorem C06_filter_providers_In : forall s rc provs p price,
  In (p, price) (filter_providers s rc provs) <-> In p provs /\ eligible s rc p = Some price.
Proof. exact In_filter_providers_iff. Qed.
Print Assumptions C06_filter_providers_In.

(* the exact case analysis of the new-batch handler *)
Theorem C06_batch_spec : forall cfg s c,
  wf_cfg cfg -> Inv cfg s -> In (height s, c) (newq s) -> height s < HEIGHT_BOUND ->
  exists rc, get c (ctxs s) = Some rc /\
    let E := filter_providers s rc (c_provs rc) in
    let s' := new_one cfg s c in
    let charge := if c_super rc then 0 else sum_prices E in
    let untouched :=
      reqs s' = reqs s /\ resps s' = resps s /\ bank s' = bank s /\ supply s' = supply s
      /\ binds s' = binds s /\ vols s' = vols s
      /\ (forall c', c' <> c -> get c' (ctxs s') = get c' (ctxs s)) in
    (* (a) not running: nothing happens *)
    (c_state rc <> Running ->
       untouched /\ get c (ctxs s') = Some rc /\ get c (expq_h s') = None)
    (* (b) repeated context whose total was reached: the context is removed, nothing else *)
    /\ (d5 rc = true ->
          untouched /\ get c (ctxs s') = None /\ get c (expq_h s') = None)
    (* (c) no eligible provider, or fewer than the threshold: skipped, no request, no charge *)
    /\ (c_state rc = Running -> d5 rc = false -> len E = 0 \/ len E < c_thr rc ->
          untouched /\ get c (ctxs s') = Some (bump rc 0)
          /\ get c (expq_h s') = Some (height s + c_timeout rc))
    (* (d) the consumer cannot pay the total: paused, no request, no charge *)
    /\ (c_state rc = Running -> d5 rc = false -> 0 < len E -> c_thr rc <= len E ->
        c_super rc = false -> bal s (User (c_cons rc)) < sum_prices E ->
          untouched /\ get c (ctxs s') = Some (paused_ctx rc) /\ get c (expq_h s') = None)
    (* (e) otherwise issued: exactly one request per eligible provider, in order *)
    /\ (c_state rc = Running -> d5 rc = false -> 0 < len E -> c_thr rc <= len E ->
        c_super rc = true \/ sum_prices E <= bal s (User (c_cons rc)) ->
          (forall k p price, nth_error E k = Some (p, price) ->
             get (c, c_counter rc + 1, height s, Z.of_nat k) (reqs s')
             = Some (mkReq p (if c_super rc then 0 else price) (height s + c_timeout rc) true))
          /\ (forall r q, get r (reqs s') = Some q ->
                get r (reqs s) = Some q
                \/ exists k p price, nth_error E k = Some (p, price)
                     /\ r = (c, c_counter rc + 1, height s, Z.of_nat k)
                     /\ q = mkReq p (if c_super rc then 0 else price) (height s + c_timeout rc) true)
          /\ (forall r q, get r (reqs s) = Some q -> get r (reqs s') = Some q)
          /\ (forall a, bal s' a = bal s a - (if eqb a (User (c_cons rc)) then charge else 0)
                                           + (if eqb a Escrow then charge else 0))
          /\ 0 <= charge <= bal s (User (c_cons rc))
          /\ supply s' = supply s /\ resps s' = resps s /\ binds s' = binds s /\ vols s' = vols s
          /\ (forall c', c' <> c -> get c' (ctxs s') = get c' (ctxs s))
          /\ get c (ctxs s') = Some (bump rc (len E))
          /\ get c (expq_h s') = Some (height s + c_timeout rc)).
Proof. exact C06_batch_spec_flat. Qed.
Print Assumptions C06_batch_spec.

(* every request record added by the handler is the k-th request of the batch it issues *)
Theorem C06_new_request : forall cfg s c r q,
  wf_cfg cfg -> Inv cfg s -> In (height s, c) (newq s) -> height s < HEIGHT_BOUND ->
  get r (reqs s) = None -> get r (reqs (new_one cfg s c)) = Some q ->
  exists rc k p price,
    get c (ctxs s) = Some rc
    /\ nth_error (filter_providers s rc (c_provs rc)) k = Some (p, price)
    /\ r = (c, c_counter rc + 1, height s, Z.of_nat k)
    /\ q = mkReq p (if c_super rc then 0 else price) (height s + c_timeout rc) true
    /\ In p (c_provs rc) /\ eligible s rc p = Some price.
Proof. exact StepSpecs_batch.C06_new_request. Qed.
Print Assumptions C06_new_request.

(* no request carries a fee above the cap in force when it was issued *)
Theorem C06_fee_le_cap : forall cfg s c r q,
  wf_cfg cfg -> Inv cfg s -> In (height s, c) (newq s) -> height s < HEIGHT_BOUND ->
  get r (reqs s) = None -> get r (reqs (new_one cfg s c)) = Some q ->
  exists rc, get c (ctxs s) = Some rc /\ rid_ctx r = c /\ 0 <= r_fee q <= c_cap rc.
Proof. exact StepSpecs_batch.C06_fee_le_cap. Qed.
Print Assumptions C06_fee_le_cap.

(* a request goes only to a provider named in the context that is eligible at that block *)
Theorem C06_provider_in_list : forall cfg s c r q,
  wf_cfg cfg -> Inv cfg s -> In (height s, c) (newq s) -> height s < HEIGHT_BOUND ->
  get r (reqs s) = None -> get r (reqs (new_one cfg s c)) = Some q ->
  exists rc b, get c (ctxs s) = Some rc /\ In (r_prov q) (c_provs rc)
    /\ get (c_svc rc, r_prov q) (binds s) = Some b /\ b_avail b = true /\ b_qos b <= c_timeout rc
    /\ exchanged_price (pricing_of s (c_svc rc, r_prov q)) (time s)
         (vol_of s (c_cons rc) (c_svc rc) (r_prov q)) <= c_cap rc
    /\ r_fee q = (if c_super rc then 0
                  else get_price (pricing_of s (c_svc rc, r_prov q)) (time s)
                         (vol_of s (c_cons rc) (c_svc rc) (r_prov q)))
    /\ r_exp q = height s + c_timeout rc /\ rid_height r = height s /\ r_active q = true.
Proof. exact StepSpecs_batch.C06_provider_in_list. Qed.
Print Assumptions C06_provider_in_list.

(* the same for a whole EndBlock: every request record that appears during an EndBlocker is the
   k-th request of a batch of its context, for the k-th provider found eligible against the
   context record and the bindings, prices, volumes and time of the state sx after the expiry
   phase of that EndBlocker; its fee is within the cap of that record *)
Theorem C06_end_block : forall cfg s dt r q,
  wf_cfg cfg -> Inv cfg s -> height s < HEIGHT_BOUND ->
  get r (reqs s) = None -> get r (reqs (end_block cfg s dt)) = Some q ->
  let sx := fold_left (expire_one cfg) (due (expq s) (height s)) s in
  let c := rid_ctx r in
  exists rc k p price,
    In (height s, c) (newq sx) /\ get c (ctxs sx) = Some rc
    /\ nth_error (filter_providers sx rc (c_provs rc)) k = Some (p, price)
    /\ r = (c, c_counter rc + 1, height s, Z.of_nat k)
    /\ q = mkReq p (if c_super rc then 0 else price) (height s + c_timeout rc) true
    /\ In p (c_provs rc) /\ eligible sx rc p = Some price /\ 0 <= r_fee q <= c_cap rc.
Proof. exact StepSpecs_batch_block.C06_end_block. Qed.
Print Assumptions C06_end_block.

(* conversely, what an EndBlock leaves of a context c that is due for a new batch after the
   expiry phase: its record and its request records are exactly those produced by the handler
   of c (C06_batch_spec) from an intermediate state s1 that satisfies the invariant and shows
   the same context record, bindings, prices, volumes and time as the post-expiry state sx;
   only the bank of s1 may differ, by the debits of the contexts handled before c *)
Theorem C06_end_block_handler : forall cfg s dt c,
  wf_cfg cfg -> Inv cfg s -> height s < HEIGHT_BOUND ->
  let sx := fold_left (expire_one cfg) (due (expq s) (height s)) s in
  let sf := end_block cfg s dt in
  In (height s, c) (newq sx) ->
  exists s1, Inv cfg s1 /\ In (height s1, c) (newq s1) /\ height s1 = height s
    /\ time s1 = time sx /\ binds s1 = binds sx /\ pricing s1 = pricing sx /\ vols s1 = vols sx
    /\ get c (ctxs s1) = get c (ctxs sx)
    /\ (forall r, rid_ctx r = c -> get r (reqs sf) = get r (reqs (new_one cfg s1 c)))
    /\ get c (ctxs sf) = get c (ctxs (new_one cfg s1 c)).
Proof. exact StepSpecs_batch_block.C06_end_block_handler. Qed.
Print Assumptions C06_end_block_handler.

(* the threshold that decides between issuing and skipping is the CURRENT response threshold of the stored
   record (c_thr, which the owning module may have changed since the previous batch through
   keeper.UpdateRequestContext), not the copy kept for the previous batch (c_bthr); whenever a batch is
   started -- issued or skipped -- that threshold becomes the new batch's own *)
Theorem C06_batch_threshold : forall cfg s c,
  wf_cfg cfg -> Inv cfg s -> In (height s, c) (newq s) -> height s < HEIGHT_BOUND ->
  exists rc, get c (ctxs s) = Some rc /\
    let E := filter_providers s rc (c_provs rc) in
    forall rc', get c (ctxs (new_one cfg s c)) = Some rc' -> c_counter rc' <> c_counter rc ->
      c_counter rc' = c_counter rc + 1 /\ c_thr rc' = c_thr rc /\ c_bthr rc' = c_thr rc
      /\ c_bresp rc' = 0 /\ c_bdone rc' = false
      /\ (   ((len E = 0 \/ len E < c_thr rc) /\ c_breq rc' = 0)
          \/ (0 < len E /\ c_thr rc <= len E /\ c_breq rc' = len E)).
Proof. exact ThrProofs.C06_batch_threshold. Qed.
Print Assumptions C06_batch_threshold.

(* ------------------------------------------------------------------ *)
(* Block level with the consumer's balance pinned, and the history-level statement
   (Proofs/GapC06.v).

   NOTE: the price compared with the cap and charged ([exchanged_price], via [eligible] and
   [sum_prices]) and the fee stored on the request ([get_price]) are the same term in the model
   (Model/Pricing.v); in Go they are two functions whose agreement is tied by the correspondence,
   not by a Coq theorem (see the note in Properties/C07.v).

   [new_outcome s rc] is the decision of abci.go newRequestBatchHandler as a function of what it
   reads in s: ONotRunning (state not Running) / ORemoved (running, repeated, 0 < total <= counter)
   / OSkipped (no eligible provider, or fewer than the threshold) / OPausedFunds (not super mode and
   balance of the consumer < total price of the eligible providers) / OIssued (otherwise). *)

(* the handler, read as a function of the decision *)
Theorem C06_new_one_by_outcome : forall cfg s c,
  wf_cfg cfg -> Inv cfg s -> In (height s, c) (newq s) -> height s < HEIGHT_BOUND ->
  exists rc, get c (ctxs s) = Some rc /\
    let E := filter_providers s rc (c_provs rc) in
    let s' := new_one cfg s c in
    let charge := if c_super rc then 0 else sum_prices E in
    match new_outcome s rc with
    | ONotRunning => get c (ctxs s') = Some rc /\ reqs s' = reqs s /\ bank s' = bank s
    | ORemoved => get c (ctxs s') = None /\ reqs s' = reqs s /\ bank s' = bank s
    | OSkipped => get c (ctxs s') = Some (bump rc 0) /\ reqs s' = reqs s /\ bank s' = bank s
    | OPausedFunds => get c (ctxs s') = Some (paused_ctx rc) /\ reqs s' = reqs s /\ bank s' = bank s
    | OIssued =>
        get c (ctxs s') = Some (bump rc (len E))
        /\ (forall k p price, nth_error E k = Some (p, price) ->
              get (c, c_counter rc + 1, height s, Z.of_nat k) (reqs s')
              = Some (mkReq p (if c_super rc then 0 else price) (height s + c_timeout rc) true))
        /\ (forall a, bal s' a = bal s a - (if eqb a (User (c_cons rc)) then charge else 0)
                                         + (if eqb a Escrow then charge else 0))
        /\ 0 <= charge <= bal s (User (c_cons rc))
    end.
Proof. exact GapC06.new_one_by_outcome. Qed.
Print Assumptions C06_new_one_by_outcome.

(* the handler of a context moves no balance but its own consumer's and the escrow's *)
Theorem C06_new_one_bal_other : forall cfg s c,
  wf_cfg cfg -> Inv cfg s -> In (height s, c) (newq s) -> height s < HEIGHT_BOUND ->
  exists rc, get c (ctxs s) = Some rc
    /\ forall a, a <> User (c_cons rc) -> a <> Escrow -> bal (new_one cfg s c) a = bal s a.
Proof. exact GapC06.new_one_bal_other. Qed.
Print Assumptions C06_new_one_bal_other.

(* ONE WHOLE EndBlock, a context c due for a new batch after the expiry phase, whose consumer has
   no other context due in this block.  The outcome is DECIDED by [new_outcome] on the post-expiry
   state sx (record, bindings, prices, volumes, time AND the consumer's balance there); in each case
   the record of c, its request records and the consumer's balance after the whole EndBlock:
   no requests and NO CHARGE when not running / removed / skipped / paused for funds; when issued,
   exactly one request per eligible provider in order and a charge of exactly the sum of their
   prices (0 in super mode), which the consumer could pay.
   (With several due contexts of one consumer the deciding balance is the post-expiry balance minus
   the charges of those handled earlier, in id order: C06_end_block_handler + C06_new_one_by_outcome
   + C06_new_one_bal_other give it one handler at a time.) *)
Theorem C06_end_block_outcome : forall cfg s dt c rc,
  wf_cfg cfg -> Inv cfg s -> height s < HEIGHT_BOUND ->
  let sx := fold_left (expire_one cfg) (due (expq s) (height s)) s in
  let sf := end_block cfg s dt in
  In (height s, c) (newq sx) -> get c (ctxs sx) = Some rc ->
  (forall c' rc', In (height s, c') (newq sx) -> c' <> c -> get c' (ctxs sx) = Some rc' ->
                  c_cons rc' <> c_cons rc) ->
  let E := filter_providers sx rc (c_provs rc) in
  let charge := if c_super rc then 0 else sum_prices E in
  let kept := (forall r, rid_ctx r = c -> get r (reqs sf) = get r (reqs sx))
              /\ bal sf (User (c_cons rc)) = bal sx (User (c_cons rc)) in
  match new_outcome sx rc with
  | ONotRunning => get c (ctxs sf) = Some rc /\ kept
  | ORemoved => get c (ctxs sf) = None /\ kept
  | OSkipped => get c (ctxs sf) = Some (bump rc 0) /\ kept
  | OPausedFunds => get c (ctxs sf) = Some (paused_ctx rc) /\ kept
  | OIssued =>
      get c (ctxs sf) = Some (bump rc (len E))
      /\ (forall k p price, nth_error E k = Some (p, price) ->
            get (c, c_counter rc + 1, height s, Z.of_nat k) (reqs sf)
            = Some (mkReq p (if c_super rc then 0 else price) (height s + c_timeout rc) true))
      /\ bal sf (User (c_cons rc)) = bal sx (User (c_cons rc)) - charge
      /\ 0 <= charge <= bal sx (User (c_cons rc))
  end.
Proof. exact GapC06.end_block_outcome. Qed.
Print Assumptions C06_end_block_outcome.

(* over histories: EVERY request record stored in ANY reachable state went, when it was issued
   (by the EndBlock of the earlier reachable state s0 of height rid_height r), to a provider named
   in its context and eligible against the post-expiry state of that block, for a fee within the
   cap then in force; provider, fee and expiry height have not changed since *)
Theorem C06_request_eligible_reach : forall cfg s r q,
  wf_cfg cfg -> Reach cfg s -> get r (reqs s) = Some q ->
  exists s0 rc0 price,
    Reach cfg s0 /\ height s0 = rid_height r /\ height s0 < height s
    /\ let sx0 := fold_left (expire_one cfg) (due (expq s0) (height s0)) s0 in
       get (rid_ctx r) (ctxs sx0) = Some rc0
       /\ In (r_prov q) (c_provs rc0)
       /\ eligible sx0 rc0 (r_prov q) = Some price
       /\ r_fee q = (if c_super rc0 then 0 else price)
       /\ 0 <= r_fee q <= c_cap rc0
       /\ r_exp q = rid_height r + c_timeout rc0.
Proof. exact GapC06.request_eligible_reach. Qed.
Print Assumptions C06_request_eligible_reach.

(* satisfiable: in the EndBlock of ExB.s_a (seven contexts due) c3 is the only due context of
   its consumer, who cannot pay: paused, balance untouched; c6 is the only due context of its
   consumer, super mode: issued, balance untouched *)
Theorem C06_end_block_outcome_example :
  (exists rc3, get ExB.c3 (ctxs ExB.s_a) = Some rc3
     /\ get ExB.c3 (ctxs (end_block ExB.cfg ExB.s_a 1)) = Some (paused_ctx rc3)
     /\ bal (end_block ExB.cfg ExB.s_a 1) (User (c_cons rc3)) = bal ExB.s_a (User (c_cons rc3)))
  /\ (exists rc6, get ExB.c6 (ctxs ExB.s_a) = Some rc6
        /\ bal (end_block ExB.cfg ExB.s_a 1) (User (c_cons rc6)) = bal ExB.s_a (User (c_cons rc6))).
Proof. exact GapC06.ExO.outcome_applies. Qed.
Print Assumptions C06_end_block_outcome_example.
