(* C19  State survives export and re-import; zero-height export returns all escrow.
   Statements only; the proofs are in Proofs/GenesisProofs.v, the functions in
   Model/Genesis.v. Covered by the correspondence check only (group gen): bech32 /
   hex key syntax, the JSON codec, InitGenesis into a second application. *)
From Coq Require Import List ZArith Bool.
From SVC Require Import Base.AMap Base.Res Model.Types Model.Pricing Model.Handlers Model.Genesis
  Proofs.GenesisProofs.
From SVC Require Import Model.EndBlock Model.Step Proofs.Inv Proofs.GapC19 Proofs.GapC19b.
Import ListNotations.
Open Scope Z_scope.

(* every pending fee goes to its consumer, every earning to its provider, nobody
   else's balance moves, deposits / collected tax / supply are untouched *)
Theorem C19_prep_refunds : forall s s', prep_zero_height s = Some s' ->
  (forall a, bal s' (User a) = bal s (User a) + pending_of s a + earned_of s a)
  /\ bal s' Deposit = bal s Deposit
  /\ bal s' FeeColl = bal s FeeColl
  /\ supply s' = supply s.
Proof. exact GenesisProofs.C19_prep_refunds. Qed.
Print Assumptions C19_prep_refunds.

Theorem C19_prep_escrow_empty : forall s s',
  escrow_backed s -> active_has_ctx s -> prep_zero_height s = Some s' -> bal s' Escrow = 0.
Proof. exact GenesisProofs.C19_prep_escrow_empty. Qed.
Print Assumptions C19_prep_escrow_empty.

Theorem C19_prep_succeeds : forall s,
  escrow_backed s -> active_has_ctx s -> fees_nonneg s -> exists s', prep_zero_height s = Some s'.
Proof. exact GenesisProofs.C19_prep_succeeds. Qed.
Print Assumptions C19_prep_succeeds.

Theorem C19_prep_contexts : forall s s', prep_zero_height s = Some s' ->
  ctxs s' = map (fun kv => (fst kv, reset_ctx (snd kv))) (ctxs s)
  /\ (forall c, get c (ctxs s') = option_map reset_ctx (get c (ctxs s)))
  /\ (forall c rc', In (c, rc') (ctxs s') ->
        c_state rc' = Paused /\ c_bdone rc' = true /\ c_breq rc' = 0 /\ c_bresp rc' = 0).
Proof. exact GenesisProofs.C19_prep_contexts. Qed.
Print Assumptions C19_prep_contexts.

Theorem C19_export_valid : forall cfg s s',
  params_ok cfg -> bindings_ok s -> contexts_ok s ->
  prep_zero_height s = Some s' -> validate_genesis (export_genesis cfg s') = true.
Proof. exact GenesisProofs.C19_export_valid. Qed.
Print Assumptions C19_export_valid.

Theorem C19_roundtrip : forall cfg h t s, state_wf_exported s ->
  export_genesis cfg (import_genesis h t (export_genesis cfg s)) = export_genesis cfg s.
Proof. exact GenesisProofs.C19_roundtrip. Qed.
Print Assumptions C19_roundtrip.

Theorem C19_import_export : forall h t g, genesis_wf g ->
  export_genesis (g_params g) (import_genesis h t g) = g.
Proof. exact GenesisProofs.C19_import_export. Qed.
Print Assumptions C19_import_export.

Theorem C19_zero_height_roundtrip : forall cfg h t s s',
  params_ok cfg -> bindings_ok s -> contexts_ok s -> state_wf_exported s ->
  prep_zero_height s = Some s' ->
  exists si, init_genesis h t (export_genesis cfg s') = Ok si
             /\ export_genesis cfg si = export_genesis cfg s'.
Proof. exact GenesisProofs.C19_zero_height_roundtrip. Qed.
Print Assumptions C19_zero_height_roundtrip.

Theorem C19_import_indexes : forall h t g, genesis_wf g -> single_owner g ->
  index_consistent (import_genesis h t g).
Proof. exact GenesisProofs.C19_import_indexes. Qed.
Print Assumptions C19_import_indexes.


(* ------------------------------------------------------------------ *)
(* Over reachable states (Proofs/GapC19.v, GapC19b.v).

   The money hypotheses of the theorems above follow from the invariant, so they hold in every
   reachable state; the zero-height preparation of every reachable state succeeds, empties the
   request escrow and leaves every context paused with no batch in flight. *)
Theorem C19_reach_hyps : forall cfg s, wf_cfg cfg -> Reach cfg s ->
  escrow_backed s /\ active_has_ctx s /\ fees_nonneg s /\ state_wf_exported s
  /\ single_owner (export_genesis cfg s).
Proof. exact GapC19.C19_reach_hyps. Qed.
Print Assumptions C19_reach_hyps.

Theorem C19_reach_prep : forall cfg s, wf_cfg cfg -> Reach cfg s ->
  exists s', prep_zero_height s = Some s' /\ bal s' Escrow = 0
    /\ (forall a, bal s' (User a) = bal s (User a) + pending_of s a + earned_of s a)
    /\ bal s' Deposit = bal s Deposit /\ bal s' FeeColl = bal s FeeColl /\ supply s' = supply s
    /\ (forall c rc', In (c, rc') (ctxs s') ->
          c_state rc' = Paused /\ c_bdone rc' = true /\ c_breq rc' = 0 /\ c_bresp rc' = 0)
    /\ state_wf_exported s'.
Proof. exact GapC19.C19_reach_prep. Qed.
Print Assumptions C19_reach_prep.

Theorem C19_reach_roundtrip : forall cfg h t s, wf_cfg cfg -> Reach cfg s ->
  export_genesis cfg (import_genesis h t (export_genesis cfg s)) = export_genesis cfg s
  /\ index_consistent (import_genesis h t (export_genesis cfg s)).
Proof. exact GapC19.C19_reach_roundtrip. Qed.
Print Assumptions C19_reach_roundtrip.

(* the rebuilt price terms and ownership indexes EQUAL those of the exporting state *)
Theorem C19_indexes_rebuilt : forall cfg h t s, wf_cfg cfg -> Reach cfg s ->
  let si := import_genesis h t (export_genesis cfg s) in
  (forall k, get k (pricing si) = get k (pricing s))
  /\ (forall p, get p (owner_of si) = get p (owner_of s))
  /\ (forall e, In e (own_bind si) <-> In e (own_bind s))
  /\ (forall e, In e (own_prov si) <-> In e (own_prov s)).
Proof. exact GapC19b.C19_indexes_rebuilt. Qed.
Print Assumptions C19_indexes_rebuilt.

(* "The exported genesis always validates" needs the stateless validation of the messages to be
   tied to their arguments: args_valid (qos > 0, provider / owner / consumer present for the
   operations whose ValidateBasic flag is set; consumer present for the keeper call).  ReachV is
   Reach restricted to such operations.  params_ok is Params.Validate (strictly positive
   complaint retrospect and arbitration limit), which wf_cfg does not imply. *)
Theorem C19_args_valid_def : forall o, args_valid o <->
  match o with
  | OBind _ prov _ _ qos owner ok => ok = true -> 0 < qos /\ prov <> 0 /\ owner <> 0
  | OUpdate _ _ _ _ qos _ ok => ok = true -> 0 <= qos
  | OCall _ _ _ cs _ _ _ _ _ _ _ _ ok => ok = true -> cs <> 0
  | OModCall _ _ _ cs _ _ _ _ _ _ _ _ _ _ => cs <> 0
  | _ => True
  end.
Proof. exact GapC19b.args_valid_def. Qed.
Print Assumptions C19_args_valid_def.

Theorem C19_reachV_reach : forall cfg s, ReachV cfg s -> Reach cfg s.
Proof. exact GapC19.ReachV_Reach. Qed.
Print Assumptions C19_reachV_reach.

Theorem C19_reachV_records_ok : forall cfg s, wf_cfg cfg -> ReachV cfg s ->
  bindings_ok s /\ contexts_ok s.
Proof. exact GapC19.C19_reachV_records_ok. Qed.
Print Assumptions C19_reachV_records_ok.

Theorem C19_reach_export_valid : forall cfg s s',
  wf_cfg cfg -> params_ok cfg -> ReachV cfg s ->
  prep_zero_height s = Some s' -> validate_genesis (export_genesis cfg s') = true.
Proof. exact GapC19.C19_reach_export_valid. Qed.
Print Assumptions C19_reach_export_valid.

Theorem C19_reach_zero_height_roundtrip : forall cfg h t s,
  wf_cfg cfg -> params_ok cfg -> ReachV cfg s ->
  exists s' si, prep_zero_height s = Some s' /\ bal s' Escrow = 0
    /\ init_genesis h t (export_genesis cfg s') = Ok si
    /\ export_genesis cfg si = export_genesis cfg s' /\ index_consistent si.
Proof. exact GapC19.C19_reach_zero_height_roundtrip. Qed.
Print Assumptions C19_reach_zero_height_roundtrip.

(* without args_valid the facet is false of the model: a reachable state whose prepared export
   is rejected (binding with qos 0; context without consumer) *)
Theorem C19_export_valid_refuted :
  exists cfg s s', wf_cfg cfg /\ params_ok cfg /\ Reach cfg s
    /\ prep_zero_height s = Some s' /\ validate_genesis (export_genesis cfg s') = false
    /\ ~ bindings_ok s.
Proof. exact GapC19b.C19_export_valid_refuted. Qed.
Print Assumptions C19_export_valid_refuted.

Theorem C19_export_valid_refuted_ctx :
  exists cfg s s', wf_cfg cfg /\ params_ok cfg /\ Reach cfg s
    /\ prep_zero_height s = Some s' /\ validate_genesis (export_genesis cfg s') = false
    /\ bindings_ok s /\ ~ contexts_ok s.
Proof. exact GapC19b.C19_export_valid_refuted_ctx. Qed.
Print Assumptions C19_export_valid_refuted_ctx.

Theorem C19_params_ok_of_wf : forall cfg,
  wf_cfg cfg -> 0 < p_arb cfg -> 0 < p_compl cfg -> params_ok cfg.
Proof. exact GapC19.params_ok_of_wf. Qed.
Print Assumptions C19_params_ok_of_wf.

Theorem C19_params_ok_needs_positive_refuted : exists cfg, wf_cfg cfg /\ params_valid cfg = false.
Proof. exact GapC19.C19_params_ok_needs_positive_refuted. Qed.
Print Assumptions C19_params_ok_needs_positive_refuted.

(* the genesis of a live chain (a context not paused, or a batch in flight) is rejected as it is *)
Theorem C19_plain_export_rejected : forall cfg s c rc, In (c, rc) (ctxs s) ->
  (c_state rc <> Paused \/ c_bdone rc = false) -> validate_genesis (export_genesis cfg s) = false.
Proof. exact GapC19b.C19_plain_export_rejected. Qed.
Print Assumptions C19_plain_export_rejected.

(* the refunds of the preparation may be made in any order (the code walks the by-binding marker
   index, the model the request ids): same success, same balances *)
Theorem C19_refund_order_irrelevant : forall cfg s l', wf_cfg cfg -> Reach cfg s ->
  Permutation.Permutation (refund_list s ++ earned_list s) l' ->
  exists s1 s1', pay_all (refund_list s ++ earned_list s) s = Some s1 /\ pay_all l' s = Some s1'
    /\ forall x, bal s1' x = bal s1 x.
Proof. exact GapC19b.C19_refund_order_irrelevant. Qed.
Print Assumptions C19_refund_order_irrelevant.

(* What does not survive a zero-height export (title facet "State survives"): the preparation
   pauses EVERY context and forgets the batch in flight but keeps the batch counter.
   (i) a killed context (Completed) comes back Paused, i.e. startable; *)
Theorem C19_prep_unkills : forall s s' c rc, prep_zero_height s = Some s' ->
  get c (ctxs s) = Some rc -> c_state rc = Completed ->
  exists rc', get c (ctxs s') = Some rc' /\ c_state rc' = Paused /\ c_counter rc' = c_counter rc.
Proof. exact GapC19b.C19_prep_unkills. Qed.
Print Assumptions C19_prep_unkills.

(* (ii) a one-shot context whose batch was in flight comes back Paused with counter 1 and no pending
   expiry: the imported state (continued with the prepared bank) violates the context-shape
   conjunct I_ctx of the invariant, the consumer can start the context and the next EndBlock issues
   a second batch for it.  Witness on the example history of Proofs/GenesisProofs.v. *)
Theorem C19_oneshot_not_preserved_by_import :
  ReachV ex_cfg ex_state /\ prep_zero_height ex_state = Some ex_prep
  /\ init_genesis 20 0 (export_genesis ex_cfg ex_prep) = Ok GapC19b.ex_si
  /\ (exists rc, get (78, 0) (ctxs ex_state) = Some rc /\ c_rep rc = false /\ c_counter rc = 1
        /\ c_state rc = Running)
  /\ (exists rc, get (78, 0) (ctxs GapC19b.ex_si) = Some rc /\ c_rep rc = false /\ c_counter rc = 1
        /\ c_state rc = Paused /\ has (78, 0) (expq_h GapC19b.ex_si) = false)
  /\ ~ I_ctx ex_cfg GapC19b.ex_resumed
  /\ keys (reqs (run ex_cfg GapC19b.ex_resumed [OStart (78, 0) 112 true; OEndBlock 1]))
     = [((78, 0), 2, 20, 0)].
Proof. exact GapC19b.C19_oneshot_not_preserved_by_import. Qed.
Print Assumptions C19_oneshot_not_preserved_by_import.

(* ------------------------------------------------------------------ *)
(* C19, "state survives": the new chain (Proofs/Restart.v, Proofs/RestartEx.v).

   restart cfg s' h t  is the state a new chain starts in: the service store is
   import_genesis h t (export_genesis cfg s'), s' the prepared state of the old
   chain; the bank (balances, supply) is carried over by the bank module's own
   genesis (MODELLED, not proved); the ghost log restarts with one EvCtxCreated per
   imported context. *)
From SVC Require Import Model.EndBlock Model.Step Proofs.Inv Proofs.Restart Proofs.RestartEx.



(* what the new chain starts with *)
Theorem C19_restart_state : forall cfg s s' h t,
  wf_cfg cfg -> Reach cfg s -> prep_zero_height s = Some s' ->
  let R := restart cfg s' h t in
  height R = h /\ time R = t
  /\ defs R = defs s /\ binds R = binds s /\ wdaddr R = wdaddr s
  /\ ctxs R = map (fun kv => (fst kv, reset_ctx (snd kv))) (ctxs s)
  /\ (forall k, get k (pricing R) = get k (pricing s))
  /\ (forall e, In e (own_bind R) <-> In e (own_bind s))
  /\ (forall o p, In (o, p) (own_prov R) <-> get p (owner_of R) = Some o)
  /\ (forall p o, get p (owner_of R) = Some o
        <-> exists svc b, get (svc, p) (binds s) = Some b /\ b_owner b = o)
  /\ expq R = [] /\ newq R = [] /\ expq_h R = [] /\ newq_h R = []
  /\ reqs R = [] /\ resps R = [] /\ vols R = [] /\ earned R = [] /\ own_earned R = []
  /\ bal R Escrow = 0 /\ bal R Deposit = bal s Deposit /\ bal R FeeColl = bal s FeeColl
  /\ (forall a, bal R (User a) = bal s (User a) + pending_of s a + earned_of s a)
  /\ supply R = supply s
  /\ (forall c, In (EvCtxCreated c) (log R) <-> has c (ctxs s) = true).
Proof. exact Restart.restart_state. Qed.
Print Assumptions C19_restart_state.

(* the id of an imported context is refused on the new chain (H-txid), no other is *)
Theorem C19_restart_ctx_fresh : forall cfg s s' h t,
  state_wf_exported s -> prep_zero_height s = Some s' ->
  forall c, ctx_fresh (restart cfg s' h t) c <-> get c (ctxs s) = None.
Proof. exact Restart.restart_ctx_fresh. Qed.
Print Assumptions C19_restart_ctx_fresh.

(* every conjunct of the global invariant except the one-shot clause of I_ctx
   holds of the restarted state, whatever the export point *)
Theorem C19_restart_Inv_partial : forall cfg s s' h t,
  wf_cfg cfg -> Reach cfg s -> prep_zero_height s = Some s' -> 1 <= h -> 0 <= t ->
  Inv_partial cfg (restart cfg s' h t).
Proof. exact Restart.restart_Inv_partial. Qed.
Print Assumptions C19_restart_Inv_partial.

Theorem C19_Inv_split : forall cfg s, Inv cfg s <-> Inv_partial cfg s /\ I_ctx_oneshot s.
Proof. exact Restart.Inv_split. Qed.
Print Assumptions C19_Inv_split.

(* the full invariant holds exactly when no one-shot context had its batch in flight *)
Theorem C19_restart_Inv_iff : forall cfg s s' h t,
  wf_cfg cfg -> Reach cfg s -> prep_zero_height s = Some s' -> 1 <= h -> 0 <= t ->
  (Inv cfg (restart cfg s' h t) <-> no_oneshot_inflight s).
Proof. exact Restart.restart_Inv_iff_reach. Qed.
Print Assumptions C19_restart_Inv_iff.

Theorem C19_restart_Inv : forall cfg s s' h t,
  wf_cfg cfg -> Reach cfg s -> prep_zero_height s = Some s' -> no_oneshot_inflight s ->
  1 <= h -> 0 <= t -> Inv cfg (restart cfg s' h t).
Proof. exact Restart.restart_Inv. Qed.
Print Assumptions C19_restart_Inv.

(* the invariant is kept from any start state that has it *)
Theorem C19_ReachFrom_Inv : forall cfg s0 s,
  wf_cfg cfg -> Inv cfg s0 -> ReachFrom cfg s0 s -> Inv cfg s.
Proof. exact Restart.ReachFrom_Inv. Qed.
Print Assumptions C19_ReachFrom_Inv.

Theorem C19_Reach_ReachFrom : forall cfg s, Reach cfg s ->
  exists h0 t0 f, 1 <= h0 /\ 0 <= t0 /\ wf_funding f /\ ReachFrom cfg (init h0 t0 f) s.
Proof. exact Restart.Reach_ReachFrom. Qed.
Print Assumptions C19_Reach_ReachFrom.

(* every state of the new chain satisfies the global invariant *)
Theorem C19_restart_reach_Inv : forall cfg s s' h t s2,
  wf_cfg cfg -> Reach cfg s -> prep_zero_height s = Some s' -> no_oneshot_inflight s ->
  1 <= h -> 0 <= t -> ReachFrom cfg (restart cfg s' h t) s2 -> Inv cfg s2.
Proof. exact Restart.restart_reach_Inv. Qed.
Print Assumptions C19_restart_reach_Inv.

Theorem C19_restart_reach_props : forall cfg s s' h t s2,
  wf_cfg cfg -> Reach cfg s -> prep_zero_height s = Some s' -> no_oneshot_inflight s ->
  1 <= h -> 0 <= t -> ReachFrom cfg (restart cfg s' h t) s2 ->
  (* C01 *) bal s2 Escrow = msum fee_active (reqs s2) + msum vid (earned s2)
  (* C03 *) /\ bal s2 Deposit = msum dep_of (binds s2)
  (* C11 *) /\ (forall c rc, get c (ctxs s2) = Some rc -> c_state rc = Running ->
                 has c (expq_h s2) = true \/ has c (newq_h s2) = true)
  (* C13 *) /\ (forall o, get0 o (own_earned s2) = msum (owned_by s2 o) (earned s2))
  (* C14 *) /\ (forall k b, In (k, b) (binds s2) -> b_avail b = true ->
                 min_dep_val cfg (pricing_of s2 k) <= b_deposit b)
  (* C15 *) /\ I_index cfg s2
  (* C16 *) /\ I_req s2.
Proof. exact Restart.restart_reach_props. Qed.
Print Assumptions C19_restart_reach_props.

(* ... and so does every state of a chain restarted any number of times *)
Theorem C19_restarts_Inv : forall cfg s, wf_cfg cfg -> ReachR cfg s -> Inv cfg s.
Proof. exact Restart.ReachR_Inv. Qed.
Print Assumptions C19_restarts_Inv.

(* the side condition cannot be dropped: a reachable export point for which the
   restarted state violates I_ctx ... *)
Theorem C19_restart_Inv_refuted :
  exists cfg s s' h t, wf_cfg cfg /\ Reach cfg s /\ prep_zero_height s = Some s' /\ 1 <= h /\ 0 <= t
    /\ ~ I_ctx cfg (restart cfg s' h t) /\ ~ Inv cfg (restart cfg s' h t).
Proof. exact RestartEx.restart_Inv_refuted. Qed.
Print Assumptions C19_restart_Inv_refuted.

(* ... and on that new chain the one-shot context is started again and issues a
   second batch (C10 "a one-shot context never gets more than one batch" does not
   survive the restart) *)
Theorem C19_restart_oneshot_second_batch :
  exists cfg s s' h t s2, wf_cfg cfg /\ Reach cfg s /\ prep_zero_height s = Some s' /\ 1 <= h /\ 0 <= t
    /\ ReachFrom cfg (restart cfg s' h t) s2
    /\ exists c rc0 rc r q, get c (ctxs s) = Some rc0 /\ c_rep rc0 = false /\ c_counter rc0 = 1
         /\ get c (ctxs s2) = Some rc /\ c_rep rc = false /\ c_counter rc = 2
         /\ get r (reqs s2) = Some q /\ rid_ctx r = c /\ rid_batch r = 2 /\ r_active q = true.
Proof. exact RestartEx.restart_oneshot_second_batch. Qed.
Print Assumptions C19_restart_oneshot_second_batch.

(* a context killed with its batch in flight is a paused context of the new chain
   and runs again (C09 "completed is final" does not survive the restart) *)
Theorem C19_restart_killed_resurrected :
  exists cfg s s' h t s2 c rc0 rc,
    wf_cfg cfg /\ Reach cfg s /\ prep_zero_height s = Some s' /\ no_oneshot_inflight s
    /\ 1 <= h /\ 0 <= t /\ Inv cfg (restart cfg s' h t)
    /\ get c (ctxs s) = Some rc0 /\ c_state rc0 = Completed
    /\ ReachFrom cfg (restart cfg s' h t) s2
    /\ get c (ctxs s2) = Some rc /\ c_state rc = Running /\ c_counter rc = c_counter rc0 + 1
    /\ has c (expq_h s2) = true.
Proof. exact RestartEx.restart_killed_resurrected. Qed.
Print Assumptions C19_restart_killed_resurrected.

(* the hypotheses of C19_restart_reach_Inv are satisfiable: a concrete reachable
   state with bindings, a context in its second batch, two pending requests and an
   earning; the restarted state has the invariant and six further operations run *)
Theorem C19_restart_instance :
  Reach ex_cfg rx_state /\ prep_zero_height rx_state = Some rx_prep /\ no_oneshot_inflight rx_state
  /\ Inv ex_cfg (restart ex_cfg rx_prep 1 0)
  /\ ReachFrom ex_cfg (restart ex_cfg rx_prep 1 0) rx_end /\ Inv ex_cfg rx_end.
Proof.
  exact (conj RestartEx.rx_reach (conj RestartEx.rx_prep_eq (conj RestartEx.rx_no_oneshot
    (conj RestartEx.rx_new_Inv (conj (Restart.ReachFrom_run _ _ _ RestartEx.rx_more_wf) RestartEx.rx_end_Inv))))).
Qed.
Print Assumptions C19_restart_instance.

(* ------------------------------------------------------------------------------------------
   Known finding K3 inside the model (DESIGN.md 12.10). `XCallMod` (Model/ModSvc.v) is the
   module-service branch of MsgCallService, executed by `xstep` on top of `pstep`; exclusion
   X-K3 is "the history contains no XCallMod" (`k3_free`).  The statements below are refuted /
   proved in Proofs/K3.v on concrete reachable witnesses (corpus history W10) by vm_compute. *)
From Coq Require Import List ZArith Bool Lia.
From SVC Require Import Base.AMap Base.Res Base.Dec Model.Types Model.Pricing Model.Handlers Model.EndBlock Model.Step Model.ParamStep Model.ModSvc Model.Genesis Proofs.Inv Proofs.ParamChange Proofs.K3.
Import ListNotations.
Open Scope Z_scope.

Theorem C19_K3_zero_height_export_fails_refuted :
  exists (cfg : Params) (s : State) (o : XOp) (s' : State),
           wf_cfg cfg /\
           Reach cfg s /\
           is_callmod o = true /\
           xstep (cfg, s) o = (cfg, s', ROk) /\
           prep_zero_height s <> None /\ prep_zero_height s' = None /\ zero_height_export cfg s' = None.
Proof. exact K3.K3_zero_height_export_fails_refuted. Qed.
Print Assumptions C19_K3_zero_height_export_fails_refuted.
