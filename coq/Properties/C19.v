(* C19  State survives export and re-import; zero-height export returns all escrow.
   Statements only; the proofs are in Proofs/GenesisProofs.v, the functions in
   Model/Genesis.v. Covered by the correspondence check only (group gen): bech32 /
   hex key syntax, the JSON codec, InitGenesis into a second application. *)
From Coq Require Import List ZArith Bool.
From SVC Require Import Base.AMap Base.Res Model.Types Model.Pricing Model.Handlers Model.Genesis
  Proofs.GenesisProofs.
From SVC Require Import Model.EndBlock Model.Step Proofs.Inv Proofs.GapC19 Proofs.GapC19b.
Import ListNotations.
Open Scope Z_scope.

(* every pending fee goes to its consumer, every earning to its provider, nobody
   else's balance moves, deposits / collected tax / supply are untouched *)
Theorem C19_prep_refunds : forall s s', prep_zero_height s = Some s' ->
  (forall a, bal s' (User a) = bal s (User a) + pending_of s a + earned_of s a)
  /\ bal s' Deposit = bal s Deposit
  /\ bal s' FeeColl = bal s FeeColl
  /\ supply s' = supply s.
Proof. exact GenesisProofs.C19_prep_refunds. Qed.

Theorem C19_prep_escrow_empty : forall s s',
  escrow_backed s -> active_has_ctx s -> prep_zero_height s = Some s' -> bal s' Escrow = 0.
Proof. exact GenesisProofs.C19_prep_escrow_empty. Qed.

Theorem C19_prep_succeeds : forall s,
  escrow_backed s -> active_has_ctx s -> fees_nonneg s -> exists s', prep_zero_height s = Some s'.
Proof. exact GenesisProofs.C19_prep_succeeds. Qed.

Theorem C19_prep_contexts : forall s s', prep_zero_height s = Some s' ->
  ctxs s' = map (fun kv => (fst kv, reset_ctx (snd kv))) (ctxs s)
  /\ (forall c, get c (ctxs s') = option_map reset_ctx (get c (ctxs s)))
  /\ (forall c rc', In (c, rc') (ctxs s') ->
        c_state rc' = Paused /\ c_bdone rc' = true /\ c_breq rc' = 0 /\ c_bresp rc' = 0).
Proof. exact GenesisProofs.C19_prep_contexts. Qed.

Theorem C19_export_valid : forall cfg s s',
  params_ok cfg -> bindings_ok s -> contexts_ok s ->
  prep_zero_height s = Some s' -> validate_genesis (export_genesis cfg s') = true.
Proof. exact GenesisProofs.C19_export_valid. Qed.

Theorem C19_roundtrip : forall cfg h t s, state_wf_exported s ->
  export_genesis cfg (import_genesis h t (export_genesis cfg s)) = export_genesis cfg s.
Proof. exact GenesisProofs.C19_roundtrip. Qed.

Theorem C19_import_export : forall h t g, genesis_wf g ->
  export_genesis (g_params g) (import_genesis h t g) = g.
Proof. exact GenesisProofs.C19_import_export. Qed.

Theorem C19_zero_height_roundtrip : forall cfg h t s s',
  params_ok cfg -> bindings_ok s -> contexts_ok s -> state_wf_exported s ->
  prep_zero_height s = Some s' ->
  exists si, init_genesis h t (export_genesis cfg s') = Ok si
             /\ export_genesis cfg si = export_genesis cfg s'.
Proof. exact GenesisProofs.C19_zero_height_roundtrip. Qed.

Theorem C19_import_indexes : forall h t g, genesis_wf g -> single_owner g ->
  index_consistent (import_genesis h t g).
Proof. exact GenesisProofs.C19_import_indexes. Qed.

Print Assumptions C19_prep_refunds.
Print Assumptions C19_prep_escrow_empty.
Print Assumptions C19_prep_succeeds.
Print Assumptions C19_prep_contexts.
Print Assumptions C19_export_valid.
Print Assumptions C19_roundtrip.
Print Assumptions C19_import_export.
Print Assumptions C19_zero_height_roundtrip.
Print Assumptions C19_import_indexes.

(* ------------------------------------------------------------------ *)
(* Over reachable states (Proofs/GapC19.v, GapC19b.v).

   The money hypotheses of the theorems above follow from the invariant, so they hold in every
   reachable state; the zero-height preparation of every reachable state succeeds, empties the
   request escrow and leaves every context paused with no batch in flight. *)
Theorem C19_reach_hyps : forall cfg s, wf_cfg cfg -> Reach cfg s ->
  escrow_backed s /\ active_has_ctx s /\ fees_nonneg s /\ state_wf_exported s
  /\ single_owner (export_genesis cfg s).
Proof. exact GapC19.C19_reach_hyps. Qed.
Print Assumptions C19_reach_hyps.

Theorem C19_reach_prep : forall cfg s, wf_cfg cfg -> Reach cfg s ->
  exists s', prep_zero_height s = Some s' /\ bal s' Escrow = 0
    /\ (forall a, bal s' (User a) = bal s (User a) + pending_of s a + earned_of s a)
    /\ bal s' Deposit = bal s Deposit /\ bal s' FeeColl = bal s FeeColl /\ supply s' = supply s
    /\ (forall c rc', In (c, rc') (ctxs s') ->
          c_state rc' = Paused /\ c_bdone rc' = true /\ c_breq rc' = 0 /\ c_bresp rc' = 0)
    /\ state_wf_exported s'.
Proof. exact GapC19.C19_reach_prep. Qed.
Print Assumptions C19_reach_prep.

Theorem C19_reach_roundtrip : forall cfg h t s, wf_cfg cfg -> Reach cfg s ->
  export_genesis cfg (import_genesis h t (export_genesis cfg s)) = export_genesis cfg s
  /\ index_consistent (import_genesis h t (export_genesis cfg s)).
Proof. exact GapC19.C19_reach_roundtrip. Qed.
Print Assumptions C19_reach_roundtrip.

(* the rebuilt price terms and ownership indexes EQUAL those of the exporting state *)
Theorem C19_indexes_rebuilt : forall cfg h t s, wf_cfg cfg -> Reach cfg s ->
  let si := import_genesis h t (export_genesis cfg s) in
  (forall k, get k (pricing si) = get k (pricing s))
  /\ (forall p, get p (owner_of si) = get p (owner_of s))
  /\ (forall e, In e (own_bind si) <-> In e (own_bind s))
  /\ (forall e, In e (own_prov si) <-> In e (own_prov s)).
Proof. exact GapC19b.C19_indexes_rebuilt. Qed.
Print Assumptions C19_indexes_rebuilt.

(* "The exported genesis always validates" needs the stateless validation of the messages to be
   tied to their arguments: args_valid (qos > 0, provider / owner / consumer present for the
   operations whose ValidateBasic flag is set; consumer present for the keeper call).  ReachV is
   Reach restricted to such operations.  params_ok is Params.Validate (strictly positive
   complaint retrospect and arbitration limit), which wf_cfg does not imply. *)
Theorem C19_args_valid_def : forall o, args_valid o <->
  match o with
  | OBind _ prov _ _ qos owner ok => ok = true -> 0 < qos /\ prov <> 0 /\ owner <> 0
  | OUpdate _ _ _ _ qos _ ok => ok = true -> 0 <= qos
  | OCall _ _ _ cs _ _ _ _ _ _ _ _ ok => ok = true -> cs <> 0
  | OModCall _ _ _ cs _ _ _ _ _ _ _ _ _ _ => cs <> 0
  | _ => True
  end.
Proof. intros o. destruct o; cbn [args_valid]; tauto. Qed.
Print Assumptions C19_args_valid_def.

Theorem C19_reachV_reach : forall cfg s, ReachV cfg s -> Reach cfg s.
Proof. exact GapC19.ReachV_Reach. Qed.
Print Assumptions C19_reachV_reach.

Theorem C19_reachV_records_ok : forall cfg s, wf_cfg cfg -> ReachV cfg s ->
  bindings_ok s /\ contexts_ok s.
Proof. exact GapC19.C19_reachV_records_ok. Qed.
Print Assumptions C19_reachV_records_ok.

Theorem C19_reach_export_valid : forall cfg s s',
  wf_cfg cfg -> params_ok cfg -> ReachV cfg s ->
  prep_zero_height s = Some s' -> validate_genesis (export_genesis cfg s') = true.
Proof. exact GapC19.C19_reach_export_valid. Qed.
Print Assumptions C19_reach_export_valid.

Theorem C19_reach_zero_height_roundtrip : forall cfg h t s,
  wf_cfg cfg -> params_ok cfg -> ReachV cfg s ->
  exists s' si, prep_zero_height s = Some s' /\ bal s' Escrow = 0
    /\ init_genesis h t (export_genesis cfg s') = Ok si
    /\ export_genesis cfg si = export_genesis cfg s' /\ index_consistent si.
Proof. exact GapC19.C19_reach_zero_height_roundtrip. Qed.
Print Assumptions C19_reach_zero_height_roundtrip.

(* without args_valid the facet is false of the model: a reachable state whose prepared export
   is rejected (binding with qos 0; context without consumer) *)
Theorem C19_export_valid_refuted :
  exists cfg s s', wf_cfg cfg /\ params_ok cfg /\ Reach cfg s
    /\ prep_zero_height s = Some s' /\ validate_genesis (export_genesis cfg s') = false
    /\ ~ bindings_ok s.
Proof. exact GapC19b.C19_export_valid_refuted. Qed.
Print Assumptions C19_export_valid_refuted.

Theorem C19_export_valid_refuted_ctx :
  exists cfg s s', wf_cfg cfg /\ params_ok cfg /\ Reach cfg s
    /\ prep_zero_height s = Some s' /\ validate_genesis (export_genesis cfg s') = false
    /\ bindings_ok s /\ ~ contexts_ok s.
Proof. exact GapC19b.C19_export_valid_refuted_ctx. Qed.
Print Assumptions C19_export_valid_refuted_ctx.

Theorem C19_params_ok_of_wf : forall cfg,
  wf_cfg cfg -> 0 < p_arb cfg -> 0 < p_compl cfg -> params_ok cfg.
Proof. exact GapC19.params_ok_of_wf. Qed.
Print Assumptions C19_params_ok_of_wf.

Theorem C19_params_ok_needs_positive_refuted : exists cfg, wf_cfg cfg /\ params_valid cfg = false.
Proof. exact GapC19.C19_params_ok_needs_positive_refuted. Qed.
Print Assumptions C19_params_ok_needs_positive_refuted.

(* the genesis of a live chain (a context not paused, or a batch in flight) is rejected as it is *)
Theorem C19_plain_export_rejected : forall cfg s c rc, In (c, rc) (ctxs s) ->
  (c_state rc <> Paused \/ c_bdone rc = false) -> validate_genesis (export_genesis cfg s) = false.
Proof. exact GapC19b.C19_plain_export_rejected. Qed.
Print Assumptions C19_plain_export_rejected.

(* the refunds of the preparation may be made in any order (the code walks the by-binding marker
   index, the model the request ids): same success, same balances *)
Theorem C19_refund_order_irrelevant : forall cfg s l', wf_cfg cfg -> Reach cfg s ->
  Permutation.Permutation (refund_list s ++ earned_list s) l' ->
  exists s1 s1', pay_all (refund_list s ++ earned_list s) s = Some s1 /\ pay_all l' s = Some s1'
    /\ forall x, bal s1' x = bal s1 x.
Proof. exact GapC19b.C19_refund_order_irrelevant. Qed.
Print Assumptions C19_refund_order_irrelevant.

(* What does not survive a zero-height export (title facet "State survives"): the preparation
   pauses EVERY context and forgets the batch in flight but keeps the batch counter.
   (i) a killed context (Completed) comes back Paused, i.e. startable; *)
Theorem C19_prep_unkills : forall s s' c rc, prep_zero_height s = Some s' ->
  get c (ctxs s) = Some rc -> c_state rc = Completed ->
  exists rc', get c (ctxs s') = Some rc' /\ c_state rc' = Paused /\ c_counter rc' = c_counter rc.
Proof. exact GapC19b.C19_prep_unkills. Qed.
Print Assumptions C19_prep_unkills.

(* (ii) a one-shot context whose batch was in flight comes back Paused with counter 1 and no pending
   expiry: the imported state (continued with the prepared bank) violates the context-shape
   conjunct I_ctx of the invariant, the consumer can start the context and the next EndBlock issues
   a second batch for it.  Witness on the example history of Proofs/GenesisProofs.v. *)
Theorem C19_oneshot_not_preserved_by_import :
  ReachV ex_cfg ex_state /\ prep_zero_height ex_state = Some ex_prep
  /\ init_genesis 20 0 (export_genesis ex_cfg ex_prep) = Ok GapC19b.ex_si
  /\ (exists rc, get (78, 0) (ctxs ex_state) = Some rc /\ c_rep rc = false /\ c_counter rc = 1
        /\ c_state rc = Running)
  /\ (exists rc, get (78, 0) (ctxs GapC19b.ex_si) = Some rc /\ c_rep rc = false /\ c_counter rc = 1
        /\ c_state rc = Paused /\ has (78, 0) (expq_h GapC19b.ex_si) = false)
  /\ ~ I_ctx ex_cfg GapC19b.ex_resumed
  /\ keys (reqs (run ex_cfg GapC19b.ex_resumed [OStart (78, 0) 112 true; OEndBlock 1]))
     = [((78, 0), 2, 20, 0)].
Proof. exact GapC19b.C19_oneshot_not_preserved_by_import. Qed.
Print Assumptions C19_oneshot_not_preserved_by_import.
