(* C19  State survives export and re-import; zero-height export returns all escrow.
   Statements only; the proofs are in Proofs/GenesisProofs.v, the functions in
   Model/Genesis.v. Covered by the correspondence check only (group gen): bech32 /
   hex key syntax, the JSON codec, InitGenesis into a second application. *)
From Coq Require Import List ZArith Bool.
From SVC Require Import Base.AMap Base.Res Model.Types Model.Pricing Model.Handlers Model.Genesis
  Proofs.GenesisProofs.
Import ListNotations.
Open Scope Z_scope.

(* every pending fee goes to its consumer, every earning to its provider, nobody
   else's balance moves, deposits / collected tax / supply are untouched *)
Theorem C19_prep_refunds : forall s s', prep_zero_height s = Some s' ->
  (forall a, bal s' (User a) = bal s (User a) + pending_of s a + earned_of s a)
  /\ bal s' Deposit = bal s Deposit
  /\ bal s' FeeColl = bal s FeeColl
  /\ supply s' = supply s.
Proof. exact GenesisProofs.C19_prep_refunds. Qed.

Theorem C19_prep_escrow_empty : forall s s',
  escrow_backed s -> active_has_ctx s -> prep_zero_height s = Some s' -> bal s' Escrow = 0.
Proof. exact GenesisProofs.C19_prep_escrow_empty. Qed.

Theorem C19_prep_succeeds : forall s,
  escrow_backed s -> active_has_ctx s -> fees_nonneg s -> exists s', prep_zero_height s = Some s'.
Proof. exact GenesisProofs.C19_prep_succeeds. Qed.

Theorem C19_prep_contexts : forall s s', prep_zero_height s = Some s' ->
  ctxs s' = map (fun kv => (fst kv, reset_ctx (snd kv))) (ctxs s)
  /\ (forall c, get c (ctxs s') = option_map reset_ctx (get c (ctxs s)))
  /\ (forall c rc', In (c, rc') (ctxs s') ->
        c_state rc' = Paused /\ c_bdone rc' = true /\ c_breq rc' = 0 /\ c_bresp rc' = 0).
Proof. exact GenesisProofs.C19_prep_contexts. Qed.

Theorem C19_export_valid : forall cfg s s',
  params_ok cfg -> bindings_ok s -> contexts_ok s ->
  prep_zero_height s = Some s' -> validate_genesis (export_genesis cfg s') = true.
Proof. exact GenesisProofs.C19_export_valid. Qed.

Theorem C19_roundtrip : forall cfg h t s, state_wf_exported s ->
  export_genesis cfg (import_genesis h t (export_genesis cfg s)) = export_genesis cfg s.
Proof. exact GenesisProofs.C19_roundtrip. Qed.

Theorem C19_import_export : forall h t g, genesis_wf g ->
  export_genesis (g_params g) (import_genesis h t g) = g.
Proof. exact GenesisProofs.C19_import_export. Qed.

Theorem C19_zero_height_roundtrip : forall cfg h t s s',
  params_ok cfg -> bindings_ok s -> contexts_ok s -> state_wf_exported s ->
  prep_zero_height s = Some s' ->
  exists si, init_genesis h t (export_genesis cfg s') = Ok si
             /\ export_genesis cfg si = export_genesis cfg s'.
Proof. exact GenesisProofs.C19_zero_height_roundtrip. Qed.

Theorem C19_import_indexes : forall h t g, genesis_wf g -> single_owner g ->
  index_consistent (import_genesis h t g).
Proof. exact GenesisProofs.C19_import_indexes. Qed.

Print Assumptions C19_prep_refunds.
Print Assumptions C19_prep_escrow_empty.
Print Assumptions C19_prep_succeeds.
Print Assumptions C19_prep_contexts.
Print Assumptions C19_export_valid.
Print Assumptions C19_roundtrip.
Print Assumptions C19_import_export.
Print Assumptions C19_zero_height_roundtrip.
Print Assumptions C19_import_indexes.
