(* C18  Identifiers and store keys are unambiguous.
   Only restatements: each theorem is closed by [exact] of the lemma proved in
   Proofs/IdsProofs.v (identifier models of Model/Ids.v) or Proofs/KProofs.v (over the
   definitions GENERATED from /repo/types/keys.go into gen/KeysGen.v), followed by its
   Print Assumptions, which must answer "Closed under the global context".
   [bech] stands for the text of sdk.AccAddress.String(); its two hypotheses (injective,
   free of 0x00) appear exactly in the theorems that need them. *)
From Coq Require Import List NArith ZArith.
From SVC Require Import Base.Bytes gen.KeysGen Model.Ids Proofs.IdsProofs Proofs.KProofs.
Import ListNotations.

(* ------------------------------------------------------------------ *)
(* identifiers (types/invocation.go) *)

Theorem C18_ctxid_len :
  forall (h : list byte) (i : Z), length h = 32 -> length (gen_ctx_id h i) = 40.
Proof. exact ctxid_len. Qed.
Print Assumptions C18_ctxid_len.

Theorem C18_ctxid_roundtrip :
  forall (h : list byte) (i : Z),
    length h = 32 -> is_int64 i -> split_ctx_id (gen_ctx_id h i) = Some (h, i).
Proof. exact ctxid_roundtrip. Qed.
Print Assumptions C18_ctxid_roundtrip.

Theorem C18_ctxid_inj :
  forall (h : list byte) (i : Z) (h' : list byte) (i' : Z),
    length h = length h' ->
    is_int64 i -> is_int64 i' -> gen_ctx_id h i = gen_ctx_id h' i' -> h = h' /\ i = i'.
Proof. exact ctxid_inj. Qed.
Print Assumptions C18_ctxid_inj.

Theorem C18_ctxid_split_gen :
  forall (id h : bytes) (i : Z),
    wf_bytes id ->
    split_ctx_id id = Some (h, i) -> gen_ctx_id h i = id /\ length h = 32 /\ is_int64 i.
Proof. exact ctxid_split_gen. Qed.
Print Assumptions C18_ctxid_split_gen.

Theorem C18_ctxid_split_none :
  forall id : bytes, split_ctx_id id = None <-> length id <> 40.
Proof. exact ctxid_split_none. Qed.
Print Assumptions C18_ctxid_split_none.

Theorem C18_reqid_len :
  forall (c : list byte) (b : N) (h i : Z),
    length c = 40 -> length (gen_request_id c b h i) = 58.
Proof. exact reqid_len. Qed.
Print Assumptions C18_reqid_len.

Theorem C18_reqid_roundtrip :
  forall (c : list byte) (b : N) (h i : Z),
    length c = 40 ->
    is_uint64 b ->
    is_int64 h ->
    is_int16 i -> split_request_id (gen_request_id c b h i) = Some (c, b, h, i).
Proof. exact reqid_roundtrip. Qed.
Print Assumptions C18_reqid_roundtrip.

Theorem C18_reqid_inj :
  forall (c : list byte) (b : N) (h i : Z) (c' : list byte) (b' : N) (h' i' : Z),
    length c = length c' ->
    is_uint64 b ->
    is_int64 h ->
    is_int16 i ->
    is_uint64 b' ->
    is_int64 h' ->
    is_int16 i' ->
    gen_request_id c b h i = gen_request_id c' b' h' i' ->
    c = c' /\ b = b' /\ h = h' /\ i = i'.
Proof. exact reqid_inj. Qed.
Print Assumptions C18_reqid_inj.

Theorem C18_reqid_split_gen :
  forall (id c : bytes) (b : N) (h i : Z),
    wf_bytes id ->
    split_request_id id = Some (c, b, h, i) ->
    gen_request_id c b h i = id /\ length c = 40 /\ is_uint64 b /\ is_int64 h /\ is_int16 i.
Proof. exact reqid_split_gen. Qed.
Print Assumptions C18_reqid_split_gen.

Theorem C18_reqid_split_none :
  forall id : bytes, split_request_id id = None <-> length id <> 58.
Proof. exact reqid_split_none. Qed.
Print Assumptions C18_reqid_split_none.

(* ------------------------------------------------------------------ *)
(* store keys (types/keys.go, generated) *)

Theorem C18_K_families_disjoint :
  forall (bech : bytes -> bytes) (f f' : family) (k : bytes),
    key_of bech f k -> key_of bech f' k -> f = f'.
Proof. exact K_families_disjoint. Qed.
Print Assumptions C18_K_families_disjoint.

Theorem C18_K_scan_whole :
  forall (bech : bytes -> bytes) (f f' : family) (k : bytes),
    key_of bech f k -> is_prefix (fam_prefix f') k <-> f' = f.
Proof. exact K_scan_whole. Qed.
Print Assumptions C18_K_scan_whole.

Theorem C18_K_scan_stays_in_family :
  forall (bech : bytes -> bytes) (f f' : family) (s k : bytes),
    scan_of bech f' s -> key_of bech f k -> is_prefix s k -> f = f'.
Proof. exact K_scan_stays_in_family. Qed.
Print Assumptions C18_K_scan_stays_in_family.

Theorem C18_K_inj_definition :
  forall sn sn' : bytes,
    GetServiceDefinitionKey sn = GetServiceDefinitionKey sn' -> sn = sn'.
Proof. exact K_inj_definition. Qed.
Print Assumptions C18_K_inj_definition.

Theorem C18_K_inj_owner :
  forall p p' : bytes, GetOwnerKey p = GetOwnerKey p' -> p = p'.
Proof. exact K_inj_owner. Qed.
Print Assumptions C18_K_inj_owner.

Theorem C18_K_inj_withdraw_addr :
  forall o o' : bytes, GetWithdrawAddrKey o = GetWithdrawAddrKey o' -> o = o'.
Proof. exact K_inj_withdraw_addr. Qed.
Print Assumptions C18_K_inj_withdraw_addr.

Theorem C18_K_inj_request_context :
  forall c c' : bytes, GetRequestContextKey c = GetRequestContextKey c' -> c = c'.
Proof. exact K_inj_request_context. Qed.
Print Assumptions C18_K_inj_request_context.

Theorem C18_K_inj_expired_batch_height :
  forall c c' : bytes,
    GetExpiredRequestBatchHeightKey c = GetExpiredRequestBatchHeightKey c' -> c = c'.
Proof. exact K_inj_expired_batch_height. Qed.
Print Assumptions C18_K_inj_expired_batch_height.

Theorem C18_K_inj_new_batch_height :
  forall c c' : bytes,
    GetNewRequestBatchHeightKey c = GetNewRequestBatchHeightKey c' -> c = c'.
Proof. exact K_inj_new_batch_height. Qed.
Print Assumptions C18_K_inj_new_batch_height.

Theorem C18_K_inj_request :
  forall r r' : bytes, GetRequestKey r = GetRequestKey r' -> r = r'.
Proof. exact K_inj_request. Qed.
Print Assumptions C18_K_inj_request.

Theorem C18_K_inj_active_request_by_id :
  forall r r' : bytes, GetActiveRequestKeyByID r = GetActiveRequestKeyByID r' -> r = r'.
Proof. exact K_inj_active_request_by_id. Qed.
Print Assumptions C18_K_inj_active_request_by_id.

Theorem C18_K_inj_response :
  forall r r' : bytes, GetResponseKey r = GetResponseKey r' -> r = r'.
Proof. exact K_inj_response. Qed.
Print Assumptions C18_K_inj_response.

Theorem C18_K_inj_binding :
  forall bech : bytes -> bytes,
    (forall a b : bytes, bech a = bech b -> a = b) ->
    forall sn p sn' p' : bytes,
    zero_free sn ->
    zero_free sn' ->
    GetServiceBindingKey bech sn p = GetServiceBindingKey bech sn' p' -> sn = sn' /\ p = p'.
Proof. exact K_inj_binding. Qed.
Print Assumptions C18_K_inj_binding.

Theorem C18_K_inj_pricing :
  forall bech : bytes -> bytes,
    (forall a b : bytes, bech a = bech b -> a = b) ->
    forall sn p sn' p' : bytes,
    zero_free sn ->
    zero_free sn' ->
    GetPricingKey bech sn p = GetPricingKey bech sn' p' -> sn = sn' /\ p = p'.
Proof. exact K_inj_pricing. Qed.
Print Assumptions C18_K_inj_pricing.

Theorem C18_K_inj_owner_binding :
  forall (o : list byte) (sn p : bytes) (o' : list byte) (sn' p' : bytes),
    length o = length o' ->
    zero_free sn ->
    zero_free sn' ->
    GetOwnerServiceBindingKey o sn p = GetOwnerServiceBindingKey o' sn' p' ->
    o = o' /\ sn = sn' /\ p = p'.
Proof. exact K_inj_owner_binding. Qed.
Print Assumptions C18_K_inj_owner_binding.

Theorem C18_K_inj_owner_binding_20 :
  forall (o : list byte) (sn p : bytes) (o' : list byte) (sn' p' : bytes),
    length o = 20 ->
    length o' = 20 ->
    zero_free sn ->
    zero_free sn' ->
    GetOwnerServiceBindingKey o sn p = GetOwnerServiceBindingKey o' sn' p' ->
    o = o' /\ sn = sn' /\ p = p'.
Proof. exact K_inj_owner_binding_20. Qed.
Print Assumptions C18_K_inj_owner_binding_20.

Theorem C18_K_inj_owner_provider :
  forall (o : list byte) (p : bytes) (o' : list byte) (p' : bytes),
    length o = length o' ->
    GetOwnerProviderKey o p = GetOwnerProviderKey o' p' -> o = o' /\ p = p'.
Proof. exact K_inj_owner_provider. Qed.
Print Assumptions C18_K_inj_owner_provider.

Theorem C18_K_inj_owner_provider_20 :
  forall (o : list byte) (p : bytes) (o' : list byte) (p' : bytes),
    length o = 20 ->
    length o' = 20 ->
    GetOwnerProviderKey o p = GetOwnerProviderKey o' p' -> o = o' /\ p = p'.
Proof. exact K_inj_owner_provider_20. Qed.
Print Assumptions C18_K_inj_owner_provider_20.

Theorem C18_K_inj_expired_batch :
  forall (c : bytes) (h : Z) (c' : bytes) (h' : Z),
    is_int64 h ->
    is_int64 h' ->
    GetExpiredRequestBatchKey c h = GetExpiredRequestBatchKey c' h' -> c = c' /\ h = h'.
Proof. exact K_inj_expired_batch. Qed.
Print Assumptions C18_K_inj_expired_batch.

Theorem C18_K_inj_new_batch :
  forall (c : bytes) (h : Z) (c' : bytes) (h' : Z),
    is_int64 h ->
    is_int64 h' ->
    GetNewRequestBatchKey c h = GetNewRequestBatchKey c' h' -> c = c' /\ h = h'.
Proof. exact K_inj_new_batch. Qed.
Print Assumptions C18_K_inj_new_batch.

Theorem C18_K_inj_active_request :
  forall bech : bytes -> bytes,
    (forall a b : bytes, bech a = bech b -> a = b) ->
    (forall a : bytes, zero_free (bech a)) ->
    forall (sn p : bytes) (h : Z) (r sn' p' : bytes) (h' : Z) (r' : bytes),
    zero_free sn ->
    zero_free sn' ->
    is_int64 h ->
    is_int64 h' ->
    GetActiveRequestKey bech sn p h r = GetActiveRequestKey bech sn' p' h' r' ->
    sn = sn' /\ p = p' /\ h = h' /\ r = r'.
Proof. exact K_inj_active_request. Qed.
Print Assumptions C18_K_inj_active_request.

Theorem C18_K_inj_request_volume :
  forall bech : bytes -> bytes,
    (forall a b : bytes, bech a = bech b -> a = b) ->
    (forall a : bytes, zero_free (bech a)) ->
    forall c sn p c' sn' p' : bytes,
    zero_free sn ->
    zero_free sn' ->
    GetRequestVolumeKey bech c sn p = GetRequestVolumeKey bech c' sn' p' ->
    c = c' /\ sn = sn' /\ p = p'.
Proof. exact K_inj_request_volume. Qed.
Print Assumptions C18_K_inj_request_volume.

Theorem C18_K_inj_earned :
  forall (p : list byte) (d : bytes) (p' : list byte) (d' : bytes),
    length p = length p' ->
    GetEarnedFeesKey p d = GetEarnedFeesKey p' d' -> p = p' /\ d = d'.
Proof. exact K_inj_earned. Qed.
Print Assumptions C18_K_inj_earned.

Theorem C18_K_inj_earned_20 :
  forall (p : list byte) (d : bytes) (p' : list byte) (d' : bytes),
    length p = 20 ->
    length p' = 20 -> GetEarnedFeesKey p d = GetEarnedFeesKey p' d' -> p = p' /\ d = d'.
Proof. exact K_inj_earned_20. Qed.
Print Assumptions C18_K_inj_earned_20.

Theorem C18_K_inj_earned_same_provider :
  forall p d d' : bytes, GetEarnedFeesKey p d = GetEarnedFeesKey p d' -> d = d'.
Proof. exact K_inj_earned_same_provider. Qed.
Print Assumptions C18_K_inj_earned_same_provider.

Theorem C18_K_inj_owner_earned :
  forall o d o' d' : bytes,
    GetOwnerEarnedFeesKey o d = GetOwnerEarnedFeesKey o' d' -> o = o'.
Proof. exact K_inj_owner_earned. Qed.
Print Assumptions C18_K_inj_owner_earned.

Theorem C18_K_owner_earned_ignores_denom :
  forall o d d' : bytes, GetOwnerEarnedFeesKey o d = GetOwnerEarnedFeesKey o d'.
Proof. exact K_owner_earned_ignores_denom. Qed.
Print Assumptions C18_K_owner_earned_ignores_denom.

Theorem C18_K_scan_exact_bindings_by_service :
  forall (bech : bytes -> bytes) (sn sn' p' : bytes),
    zero_free sn ->
    zero_free sn' ->
    is_prefix (GetBindingsSubspace sn) (GetServiceBindingKey bech sn' p') <-> sn = sn'.
Proof. exact K_scan_exact_bindings_by_service. Qed.
Print Assumptions C18_K_scan_exact_bindings_by_service.

Theorem C18_K_scan_exact_bindings_by_owner_service :
  forall (o : list byte) (sn : bytes) (o' : list byte) (sn' p' : bytes),
    length o = length o' ->
    zero_free sn ->
    zero_free sn' ->
    is_prefix (GetOwnerBindingsSubspace o sn) (GetOwnerServiceBindingKey o' sn' p') <->
    o = o' /\ sn = sn'.
Proof. exact K_scan_exact_bindings_by_owner_service. Qed.
Print Assumptions C18_K_scan_exact_bindings_by_owner_service.

Theorem C18_K_scan_exact_bindings_by_owner_service_20 :
  forall (o : list byte) (sn : bytes) (o' : list byte) (sn' p' : bytes),
    length o = 20 ->
    length o' = 20 ->
    zero_free sn ->
    zero_free sn' ->
    is_prefix (GetOwnerBindingsSubspace o sn) (GetOwnerServiceBindingKey o' sn' p') <->
    o = o' /\ sn = sn'.
Proof. exact K_scan_exact_bindings_by_owner_service_20. Qed.
Print Assumptions C18_K_scan_exact_bindings_by_owner_service_20.

Theorem C18_K_scan_exact_owner_providers :
  forall (o o' : list byte) (p' : bytes),
    length o = length o' ->
    is_prefix (GetOwnerProvidersSubspace o) (GetOwnerProviderKey o' p') <-> o = o'.
Proof. exact K_scan_exact_owner_providers. Qed.
Print Assumptions C18_K_scan_exact_owner_providers.

Theorem C18_K_scan_exact_owner_providers_20 :
  forall (o o' : list byte) (p' : bytes),
    length o = 20 ->
    length o' = 20 ->
    is_prefix (GetOwnerProvidersSubspace o) (GetOwnerProviderKey o' p') <-> o = o'.
Proof. exact K_scan_exact_owner_providers_20. Qed.
Print Assumptions C18_K_scan_exact_owner_providers_20.

Theorem C18_K_scan_exact_expired_batch_by_height :
  forall (h : Z) (c' : bytes) (h' : Z),
    is_int64 h ->
    is_int64 h' ->
    is_prefix (GetExpiredRequestBatchSubspace h) (GetExpiredRequestBatchKey c' h') <->
    h = h'.
Proof. exact K_scan_exact_expired_batch_by_height. Qed.
Print Assumptions C18_K_scan_exact_expired_batch_by_height.

Theorem C18_K_scan_exact_new_batch_by_height :
  forall (h : Z) (c' : bytes) (h' : Z),
    is_int64 h ->
    is_int64 h' ->
    is_prefix (GetNewRequestBatchSubspace h) (GetNewRequestBatchKey c' h') <-> h = h'.
Proof. exact K_scan_exact_new_batch_by_height. Qed.
Print Assumptions C18_K_scan_exact_new_batch_by_height.

Theorem C18_K_scan_exact_requests_by_ctx_batch :
  forall (c : list byte) (b : N) (c' : list byte) (b' : N) (h' i' : Z),
    length c = length c' ->
    is_uint64 b ->
    is_uint64 b' ->
    is_prefix (GetRequestSubspaceByReqCtx c b) (GetRequestKey (gen_request_id c' b' h' i')) <->
    c = c' /\ b = b'.
Proof. exact K_scan_exact_requests_by_ctx_batch. Qed.
Print Assumptions C18_K_scan_exact_requests_by_ctx_batch.

Theorem C18_K_scan_exact_markers_by_ctx_batch :
  forall (c : list byte) (b : N) (c' : list byte) (b' : N) (h' i' : Z),
    length c = length c' ->
    is_uint64 b ->
    is_uint64 b' ->
    is_prefix (GetActiveRequestSubspaceByReqCtx c b)
      (GetActiveRequestKeyByID (gen_request_id c' b' h' i')) <-> 
    c = c' /\ b = b'.
Proof. exact K_scan_exact_markers_by_ctx_batch. Qed.
Print Assumptions C18_K_scan_exact_markers_by_ctx_batch.

Theorem C18_K_scan_exact_responses_by_ctx_batch :
  forall (c : list byte) (b : N) (c' : list byte) (b' : N) (h' i' : Z),
    length c = length c' ->
    is_uint64 b ->
    is_uint64 b' ->
    is_prefix (GetResponseSubspaceByReqCtx c b)
      (GetResponseKey (gen_request_id c' b' h' i')) <-> c = c' /\ b = b'.
Proof. exact K_scan_exact_responses_by_ctx_batch. Qed.
Print Assumptions C18_K_scan_exact_responses_by_ctx_batch.

Theorem C18_K_scan_exact_by_ctx_batch_split :
  forall (c : list byte) (b : N) (r c' : bytes) (b' : N) (h' i' : Z),
    length c = 40 ->
    is_uint64 b ->
    wf_bytes r ->
    split_request_id r = Some (c', b', h', i') ->
    (is_prefix (GetRequestSubspaceByReqCtx c b) (GetRequestKey r) <-> c = c' /\ b = b') /\
    (is_prefix (GetActiveRequestSubspaceByReqCtx c b) (GetActiveRequestKeyByID r) <->
     c = c' /\ b = b') /\
    (is_prefix (GetResponseSubspaceByReqCtx c b) (GetResponseKey r) <-> c = c' /\ b = b').
Proof. exact K_scan_exact_by_ctx_batch_split. Qed.
Print Assumptions C18_K_scan_exact_by_ctx_batch_split.

Theorem C18_K_scan_exact_markers_by_binding :
  forall bech : bytes -> bytes,
    (forall a b : bytes, bech a = bech b -> a = b) ->
    (forall a : bytes, zero_free (bech a)) ->
    forall (sn p sn' p' : bytes) (h' : Z) (r' : bytes),
    zero_free sn ->
    zero_free sn' ->
    is_prefix (GetActiveRequestSubspace bech sn p) (GetActiveRequestKey bech sn' p' h' r') <->
    sn = sn' /\ p = p'.
Proof. exact K_scan_exact_markers_by_binding. Qed.
Print Assumptions C18_K_scan_exact_markers_by_binding.

Theorem C18_K_scan_exact_earned :
  forall p p' d' : bytes, earned_scan_accepts p p' d' <-> p = p'.
Proof. exact K_scan_exact_earned. Qed.
Print Assumptions C18_K_scan_exact_earned.

Theorem C18_K_scan_exact_earned_raw_same_length :
  forall (p p' : list byte) (d' : bytes),
    length p = length p' ->
    is_prefix (GetEarnedFeesSubspace p) (GetEarnedFeesKey p' d') <-> p = p'.
Proof. exact K_scan_exact_earned_raw_same_length. Qed.
Print Assumptions C18_K_scan_exact_earned_raw_same_length.

Theorem C18_K_earned_raw_prefix_matches_extensions :
  forall (p : bytes) (x : list byte) (d : bytes),
    is_prefix (GetEarnedFeesSubspace p) (GetEarnedFeesKey (p ++ x) d).
Proof. exact K_earned_raw_prefix_matches_extensions. Qed.
Print Assumptions C18_K_earned_raw_prefix_matches_extensions.

Theorem C18_K_scan_exact_owner_earned :
  forall (o o' : list byte) (d' : bytes),
    length o = length o' ->
    is_prefix (GetOwnerEarnedFeesSubspace o) (GetOwnerEarnedFeesKey o' d') <-> o = o'.
Proof. exact K_scan_exact_owner_earned. Qed.
Print Assumptions C18_K_scan_exact_owner_earned.

Theorem C18_K_scan_exact_owner_earned_20 :
  forall (o o' : list byte) (d' : bytes),
    length o = 20 ->
    length o' = 20 ->
    is_prefix (GetOwnerEarnedFeesSubspace o) (GetOwnerEarnedFeesKey o' d') <-> o = o'.
Proof. exact K_scan_exact_owner_earned_20. Qed.
Print Assumptions C18_K_scan_exact_owner_earned_20.

Theorem C18_K_earned_raw_prefix_refuted :
  exists (p p' : list byte) (d' : bytes),
      length p' = 20 /\
      length p = 19 /\
      is_prefix (GetEarnedFeesSubspace p) (GetEarnedFeesKey p' d') /\ p <> p'.
Proof. exact K_earned_raw_prefix_refuted. Qed.
Print Assumptions C18_K_earned_raw_prefix_refuted.

Theorem C18_K_earned_raw_prefix_refuted_20 :
  exists (p : list byte) (p' d' : bytes),
      length p = 20 /\
      is_prefix (GetEarnedFeesSubspace p) (GetEarnedFeesKey p' d') /\ p <> p'.
Proof. exact K_earned_raw_prefix_refuted_20. Qed.
Print Assumptions C18_K_earned_raw_prefix_refuted_20.

Theorem C18_K_inj_earned_refuted :
  exists p d p' d' : bytes,
      GetEarnedFeesKey p d = GetEarnedFeesKey p' d' /\ p <> p' /\ d <> d'.
Proof. exact K_inj_earned_refuted. Qed.
Print Assumptions C18_K_inj_earned_refuted.

Theorem C18_K_owner_scan_refuted :
  exists (o sn : bytes) (o' : list byte) (sn' p' : bytes),
      zero_free sn /\
      zero_free sn' /\
      length o' = 20 /\
      is_prefix (GetOwnerBindingsSubspace o sn) (GetOwnerServiceBindingKey o' sn' p') /\
      ~ (o = o' /\ sn = sn').
Proof. exact K_owner_scan_refuted. Qed.
Print Assumptions C18_K_owner_scan_refuted.

Theorem C18_K_owner_providers_scan_refuted :
  exists (o : bytes) (o' : list byte) (p' : bytes),
      length o' = 20 /\
      is_prefix (GetOwnerProvidersSubspace o) (GetOwnerProviderKey o' p') /\ o <> o'.
Proof. exact K_owner_providers_scan_refuted. Qed.
Print Assumptions C18_K_owner_providers_scan_refuted.

Theorem C18_K_owner_earned_scan_refuted :
  exists (o : bytes) (o' : list byte) (d' : bytes),
      length o' = 20 /\
      is_prefix (GetOwnerEarnedFeesSubspace o) (GetOwnerEarnedFeesKey o' d') /\ o <> o'.
Proof. exact K_owner_earned_scan_refuted. Qed.
Print Assumptions C18_K_owner_earned_scan_refuted.
