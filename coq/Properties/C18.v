(* C18  Identifiers and store keys are unambiguous.
   Only restatements: each theorem is closed by [exact] of the lemma proved in
   Proofs/IdsProofs.v (identifier models of Model/Ids.v) or Proofs/KProofs.v (over the
   definitions GENERATED from /repo/types/keys.go into gen/KeysGen.v), followed by its
   Print Assumptions, which must answer "Closed under the global context".
   [bech] stands for the text of sdk.AccAddress.String(); its two hypotheses (injective,
   free of 0x00) appear exactly in the theorems that need them. *)
From Coq Require Import List NArith ZArith.
From SVC Require Import Base.Bytes gen.KeysGen Model.Ids Proofs.IdsProofs Proofs.KProofs.
(* gap closing (audit C18): loaded here, imported where its theorems are restated (end of file) *)
From SVC Require Proofs.GapC18.
Import ListNotations.

(* ------------------------------------------------------------------ *)
(* identifiers (types/invocation.go) *)

Theorem C18_ctxid_len :
  forall (h : list byte) (i : Z), length h = 32 -> length (gen_ctx_id h i) = 40.
Proof. exact ctxid_len. Qed.
Print Assumptions C18_ctxid_len.

Theorem C18_ctxid_roundtrip :
  forall (h : list byte) (i : Z),
    length h = 32 -> is_int64 i -> split_ctx_id (gen_ctx_id h i) = Some (h, i).
Proof. exact ctxid_roundtrip. Qed.
Print Assumptions C18_ctxid_roundtrip.

Theorem C18_ctxid_inj :
  forall (h : list byte) (i : Z) (h' : list byte) (i' : Z),
    length h = length h' ->
    is_int64 i -> is_int64 i' -> gen_ctx_id h i = gen_ctx_id h' i' -> h = h' /\ i = i'.
Proof. exact ctxid_inj. Qed.
Print Assumptions C18_ctxid_inj.

Theorem C18_ctxid_split_gen :
  forall (id h : bytes) (i : Z),
    wf_bytes id ->
    split_ctx_id id = Some (h, i) -> gen_ctx_id h i = id /\ length h = 32 /\ is_int64 i.
Proof. exact ctxid_split_gen. Qed.
Print Assumptions C18_ctxid_split_gen.

Theorem C18_ctxid_split_none :
  forall id : bytes, split_ctx_id id = None <-> length id <> 40.
Proof. exact ctxid_split_none. Qed.
Print Assumptions C18_ctxid_split_none.

Theorem C18_reqid_len :
  forall (c : list byte) (b : N) (h i : Z),
    length c = 40 -> length (gen_request_id c b h i) = 58.
Proof. exact reqid_len. Qed.
Print Assumptions C18_reqid_len.

Theorem C18_reqid_roundtrip :
  forall (c : list byte) (b : N) (h i : Z),
    length c = 40 ->
    is_uint64 b ->
    is_int64 h ->
    is_int16 i -> split_request_id (gen_request_id c b h i) = Some (c, b, h, i).
Proof. exact reqid_roundtrip. Qed.
Print Assumptions C18_reqid_roundtrip.

Theorem C18_reqid_inj :
  forall (c : list byte) (b : N) (h i : Z) (c' : list byte) (b' : N) (h' i' : Z),
    length c = length c' ->
    is_uint64 b ->
    is_int64 h ->
    is_int16 i ->
    is_uint64 b' ->
    is_int64 h' ->
    is_int16 i' ->
    gen_request_id c b h i = gen_request_id c' b' h' i' ->
    c = c' /\ b = b' /\ h = h' /\ i = i'.
Proof. exact reqid_inj. Qed.
Print Assumptions C18_reqid_inj.

Theorem C18_reqid_split_gen :
  forall (id c : bytes) (b : N) (h i : Z),
    wf_bytes id ->
    split_request_id id = Some (c, b, h, i) ->
    gen_request_id c b h i = id /\ length c = 40 /\ is_uint64 b /\ is_int64 h /\ is_int16 i.
Proof. exact reqid_split_gen. Qed.
Print Assumptions C18_reqid_split_gen.

Theorem C18_reqid_split_none :
  forall id : bytes, split_request_id id = None <-> length id <> 58.
Proof. exact reqid_split_none. Qed.
Print Assumptions C18_reqid_split_none.

(* ------------------------------------------------------------------ *)
(* store keys (types/keys.go, generated) *)

Theorem C18_K_families_disjoint :
  forall (bech : bytes -> bytes) (f f' : family) (k : bytes),
    key_of bech f k -> key_of bech f' k -> f = f'.
Proof. exact K_families_disjoint. Qed.
Print Assumptions C18_K_families_disjoint.

Theorem C18_K_scan_whole :
  forall (bech : bytes -> bytes) (f f' : family) (k : bytes),
    key_of bech f k -> is_prefix (fam_prefix f') k <-> f' = f.
Proof. exact K_scan_whole. Qed.
Print Assumptions C18_K_scan_whole.

Theorem C18_K_scan_stays_in_family :
  forall (bech : bytes -> bytes) (f f' : family) (s k : bytes),
    scan_of bech f' s -> key_of bech f k -> is_prefix s k -> f = f'.
Proof. exact K_scan_stays_in_family. Qed.
Print Assumptions C18_K_scan_stays_in_family.

Theorem C18_K_inj_definition :
  forall sn sn' : bytes,
    GetServiceDefinitionKey sn = GetServiceDefinitionKey sn' -> sn = sn'.
Proof. exact K_inj_definition. Qed.
Print Assumptions C18_K_inj_definition.

Theorem C18_K_inj_owner :
  forall p p' : bytes, GetOwnerKey p = GetOwnerKey p' -> p = p'.
Proof. exact K_inj_owner. Qed.
Print Assumptions C18_K_inj_owner.

Theorem C18_K_inj_withdraw_addr :
  forall o o' : bytes, GetWithdrawAddrKey o = GetWithdrawAddrKey o' -> o = o'.
Proof. exact K_inj_withdraw_addr. Qed.
Print Assumptions C18_K_inj_withdraw_addr.

Theorem C18_K_inj_request_context :
  forall c c' : bytes, GetRequestContextKey c = GetRequestContextKey c' -> c = c'.
Proof. exact K_inj_request_context. Qed.
Print Assumptions C18_K_inj_request_context.

Theorem C18_K_inj_expired_batch_height :
  forall c c' : bytes,
    GetExpiredRequestBatchHeightKey c = GetExpiredRequestBatchHeightKey c' -> c = c'.
Proof. exact K_inj_expired_batch_height. Qed.
Print Assumptions C18_K_inj_expired_batch_height.

Theorem C18_K_inj_new_batch_height :
  forall c c' : bytes,
    GetNewRequestBatchHeightKey c = GetNewRequestBatchHeightKey c' -> c = c'.
Proof. exact K_inj_new_batch_height. Qed.
Print Assumptions C18_K_inj_new_batch_height.

Theorem C18_K_inj_request :
  forall r r' : bytes, GetRequestKey r = GetRequestKey r' -> r = r'.
Proof. exact K_inj_request. Qed.
Print Assumptions C18_K_inj_request.

Theorem C18_K_inj_active_request_by_id :
  forall r r' : bytes, GetActiveRequestKeyByID r = GetActiveRequestKeyByID r' -> r = r'.
Proof. exact K_inj_active_request_by_id. Qed.
Print Assumptions C18_K_inj_active_request_by_id.

Theorem C18_K_inj_response :
  forall r r' : bytes, GetResponseKey r = GetResponseKey r' -> r = r'.
Proof. exact K_inj_response. Qed.
Print Assumptions C18_K_inj_response.

Theorem C18_K_inj_binding :
  forall bech : bytes -> bytes,
    (forall a b : bytes, bech a = bech b -> a = b) ->
    forall sn p sn' p' : bytes,
    zero_free sn ->
    zero_free sn' ->
    GetServiceBindingKey bech sn p = GetServiceBindingKey bech sn' p' -> sn = sn' /\ p = p'.
Proof. exact K_inj_binding. Qed.
Print Assumptions C18_K_inj_binding.

Theorem C18_K_inj_pricing :
  forall bech : bytes -> bytes,
    (forall a b : bytes, bech a = bech b -> a = b) ->
    forall sn p sn' p' : bytes,
    zero_free sn ->
    zero_free sn' ->
    GetPricingKey bech sn p = GetPricingKey bech sn' p' -> sn = sn' /\ p = p'.
Proof. exact K_inj_pricing. Qed.
Print Assumptions C18_K_inj_pricing.

Theorem C18_K_inj_owner_binding :
  forall (o : list byte) (sn p : bytes) (o' : list byte) (sn' p' : bytes),
    length o = length o' ->
    zero_free sn ->
    zero_free sn' ->
    GetOwnerServiceBindingKey o sn p = GetOwnerServiceBindingKey o' sn' p' ->
    o = o' /\ sn = sn' /\ p = p'.
Proof. exact K_inj_owner_binding. Qed.
Print Assumptions C18_K_inj_owner_binding.

Theorem C18_K_inj_owner_binding_20 :
  forall (o : list byte) (sn p : bytes) (o' : list byte) (sn' p' : bytes),
    length o = 20 ->
    length o' = 20 ->
    zero_free sn ->
    zero_free sn' ->
    GetOwnerServiceBindingKey o sn p = GetOwnerServiceBindingKey o' sn' p' ->
    o = o' /\ sn = sn' /\ p = p'.
Proof. exact K_inj_owner_binding_20. Qed.
Print Assumptions C18_K_inj_owner_binding_20.

Theorem C18_K_inj_owner_provider :
  forall (o : list byte) (p : bytes) (o' : list byte) (p' : bytes),
    length o = length o' ->
    GetOwnerProviderKey o p = GetOwnerProviderKey o' p' -> o = o' /\ p = p'.
Proof. exact K_inj_owner_provider. Qed.
Print Assumptions C18_K_inj_owner_provider.

Theorem C18_K_inj_owner_provider_20 :
  forall (o : list byte) (p : bytes) (o' : list byte) (p' : bytes),
    length o = 20 ->
    length o' = 20 ->
    GetOwnerProviderKey o p = GetOwnerProviderKey o' p' -> o = o' /\ p = p'.
Proof. exact K_inj_owner_provider_20. Qed.
Print Assumptions C18_K_inj_owner_provider_20.

Theorem C18_K_inj_expired_batch :
  forall (c : bytes) (h : Z) (c' : bytes) (h' : Z),
    is_int64 h ->
    is_int64 h' ->
    GetExpiredRequestBatchKey c h = GetExpiredRequestBatchKey c' h' -> c = c' /\ h = h'.
Proof. exact K_inj_expired_batch. Qed.
Print Assumptions C18_K_inj_expired_batch.

Theorem C18_K_inj_new_batch :
  forall (c : bytes) (h : Z) (c' : bytes) (h' : Z),
    is_int64 h ->
    is_int64 h' ->
    GetNewRequestBatchKey c h = GetNewRequestBatchKey c' h' -> c = c' /\ h = h'.
Proof. exact K_inj_new_batch. Qed.
Print Assumptions C18_K_inj_new_batch.

Theorem C18_K_inj_active_request :
  forall bech : bytes -> bytes,
    (forall a b : bytes, bech a = bech b -> a = b) ->
    (forall a : bytes, zero_free (bech a)) ->
    forall (sn p : bytes) (h : Z) (r sn' p' : bytes) (h' : Z) (r' : bytes),
    zero_free sn ->
    zero_free sn' ->
    is_int64 h ->
    is_int64 h' ->
    GetActiveRequestKey bech sn p h r = GetActiveRequestKey bech sn' p' h' r' ->
    sn = sn' /\ p = p' /\ h = h' /\ r = r'.
Proof. exact K_inj_active_request. Qed.
Print Assumptions C18_K_inj_active_request.

Theorem C18_K_inj_request_volume :
  forall bech : bytes -> bytes,
    (forall a b : bytes, bech a = bech b -> a = b) ->
    (forall a : bytes, zero_free (bech a)) ->
    forall c sn p c' sn' p' : bytes,
    zero_free sn ->
    zero_free sn' ->
    GetRequestVolumeKey bech c sn p = GetRequestVolumeKey bech c' sn' p' ->
    c = c' /\ sn = sn' /\ p = p'.
Proof. exact K_inj_request_volume. Qed.
Print Assumptions C18_K_inj_request_volume.

Theorem C18_K_inj_earned :
  forall (p : list byte) (d : bytes) (p' : list byte) (d' : bytes),
    length p = length p' ->
    GetEarnedFeesKey p d = GetEarnedFeesKey p' d' -> p = p' /\ d = d'.
Proof. exact K_inj_earned. Qed.
Print Assumptions C18_K_inj_earned.

Theorem C18_K_inj_earned_20 :
  forall (p : list byte) (d : bytes) (p' : list byte) (d' : bytes),
    length p = 20 ->
    length p' = 20 -> GetEarnedFeesKey p d = GetEarnedFeesKey p' d' -> p = p' /\ d = d'.
Proof. exact K_inj_earned_20. Qed.
Print Assumptions C18_K_inj_earned_20.

Theorem C18_K_inj_earned_same_provider :
  forall p d d' : bytes, GetEarnedFeesKey p d = GetEarnedFeesKey p d' -> d = d'.
Proof. exact K_inj_earned_same_provider. Qed.
Print Assumptions C18_K_inj_earned_same_provider.

Theorem C18_K_inj_owner_earned :
  forall o d o' d' : bytes,
    GetOwnerEarnedFeesKey o d = GetOwnerEarnedFeesKey o' d' -> o = o'.
Proof. exact K_inj_owner_earned. Qed.
Print Assumptions C18_K_inj_owner_earned.

Theorem C18_K_owner_earned_ignores_denom :
  forall o d d' : bytes, GetOwnerEarnedFeesKey o d = GetOwnerEarnedFeesKey o d'.
Proof. exact K_owner_earned_ignores_denom. Qed.
Print Assumptions C18_K_owner_earned_ignores_denom.

Theorem C18_K_scan_exact_bindings_by_service :
  forall (bech : bytes -> bytes) (sn sn' p' : bytes),
    zero_free sn ->
    zero_free sn' ->
    is_prefix (GetBindingsSubspace sn) (GetServiceBindingKey bech sn' p') <-> sn = sn'.
Proof. exact K_scan_exact_bindings_by_service. Qed.
Print Assumptions C18_K_scan_exact_bindings_by_service.

Theorem C18_K_scan_exact_bindings_by_owner_service :
  forall (o : list byte) (sn : bytes) (o' : list byte) (sn' p' : bytes),
    length o = length o' ->
    zero_free sn ->
    zero_free sn' ->
    is_prefix (GetOwnerBindingsSubspace o sn) (GetOwnerServiceBindingKey o' sn' p') <->
    o = o' /\ sn = sn'.
Proof. exact K_scan_exact_bindings_by_owner_service. Qed.
Print Assumptions C18_K_scan_exact_bindings_by_owner_service.

Theorem C18_K_scan_exact_bindings_by_owner_service_20 :
  forall (o : list byte) (sn : bytes) (o' : list byte) (sn' p' : bytes),
    length o = 20 ->
    length o' = 20 ->
    zero_free sn ->
    zero_free sn' ->
    is_prefix (GetOwnerBindingsSubspace o sn) (GetOwnerServiceBindingKey o' sn' p') <->
    o = o' /\ sn = sn'.
Proof. exact K_scan_exact_bindings_by_owner_service_20. Qed.
Print Assumptions C18_K_scan_exact_bindings_by_owner_service_20.

Theorem C18_K_scan_exact_owner_providers :
  forall (o o' : list byte) (p' : bytes),
    length o = length o' ->
    is_prefix (GetOwnerProvidersSubspace o) (GetOwnerProviderKey o' p') <-> o = o'.
Proof. exact K_scan_exact_owner_providers. Qed.
Print Assumptions C18_K_scan_exact_owner_providers.

Theorem C18_K_scan_exact_owner_providers_20 :
  forall (o o' : list byte) (p' : bytes),
    length o = 20 ->
    length o' = 20 ->
    is_prefix (GetOwnerProvidersSubspace o) (GetOwnerProviderKey o' p') <-> o = o'.
Proof. exact K_scan_exact_owner_providers_20. Qed.
Print Assumptions C18_K_scan_exact_owner_providers_20.

Theorem C18_K_scan_exact_expired_batch_by_height :
  forall (h : Z) (c' : bytes) (h' : Z),
    is_int64 h ->
    is_int64 h' ->
    is_prefix (GetExpiredRequestBatchSubspace h) (GetExpiredRequestBatchKey c' h') <->
    h = h'.
Proof. exact K_scan_exact_expired_batch_by_height. Qed.
Print Assumptions C18_K_scan_exact_expired_batch_by_height.

Theorem C18_K_scan_exact_new_batch_by_height :
  forall (h : Z) (c' : bytes) (h' : Z),
    is_int64 h ->
    is_int64 h' ->
    is_prefix (GetNewRequestBatchSubspace h) (GetNewRequestBatchKey c' h') <-> h = h'.
Proof. exact K_scan_exact_new_batch_by_height. Qed.
Print Assumptions C18_K_scan_exact_new_batch_by_height.

Theorem C18_K_scan_exact_requests_by_ctx_batch :
  forall (c : list byte) (b : N) (c' : list byte) (b' : N) (h' i' : Z),
    length c = length c' ->
    is_uint64 b ->
    is_uint64 b' ->
    is_prefix (GetRequestSubspaceByReqCtx c b) (GetRequestKey (gen_request_id c' b' h' i')) <->
    c = c' /\ b = b'.
Proof. exact K_scan_exact_requests_by_ctx_batch. Qed.
Print Assumptions C18_K_scan_exact_requests_by_ctx_batch.

Theorem C18_K_scan_exact_markers_by_ctx_batch :
  forall (c : list byte) (b : N) (c' : list byte) (b' : N) (h' i' : Z),
    length c = length c' ->
    is_uint64 b ->
    is_uint64 b' ->
    is_prefix (GetActiveRequestSubspaceByReqCtx c b)
      (GetActiveRequestKeyByID (gen_request_id c' b' h' i')) <-> 
    c = c' /\ b = b'.
Proof. exact K_scan_exact_markers_by_ctx_batch. Qed.
Print Assumptions C18_K_scan_exact_markers_by_ctx_batch.

Theorem C18_K_scan_exact_responses_by_ctx_batch :
  forall (c : list byte) (b : N) (c' : list byte) (b' : N) (h' i' : Z),
    length c = length c' ->
    is_uint64 b ->
    is_uint64 b' ->
    is_prefix (GetResponseSubspaceByReqCtx c b)
      (GetResponseKey (gen_request_id c' b' h' i')) <-> c = c' /\ b = b'.
Proof. exact K_scan_exact_responses_by_ctx_batch. Qed.
Print Assumptions C18_K_scan_exact_responses_by_ctx_batch.

Theorem C18_K_scan_exact_by_ctx_batch_split :
  forall (c : list byte) (b : N) (r c' : bytes) (b' : N) (h' i' : Z),
    length c = 40 ->
    is_uint64 b ->
    wf_bytes r ->
    split_request_id r = Some (c', b', h', i') ->
    (is_prefix (GetRequestSubspaceByReqCtx c b) (GetRequestKey r) <-> c = c' /\ b = b') /\
    (is_prefix (GetActiveRequestSubspaceByReqCtx c b) (GetActiveRequestKeyByID r) <->
     c = c' /\ b = b') /\
    (is_prefix (GetResponseSubspaceByReqCtx c b) (GetResponseKey r) <-> c = c' /\ b = b').
Proof. exact K_scan_exact_by_ctx_batch_split. Qed.
Print Assumptions C18_K_scan_exact_by_ctx_batch_split.

Theorem C18_K_scan_exact_markers_by_binding :
  forall bech : bytes -> bytes,
    (forall a b : bytes, bech a = bech b -> a = b) ->
    (forall a : bytes, zero_free (bech a)) ->
    forall (sn p sn' p' : bytes) (h' : Z) (r' : bytes),
    zero_free sn ->
    zero_free sn' ->
    is_prefix (GetActiveRequestSubspace bech sn p) (GetActiveRequestKey bech sn' p' h' r') <->
    sn = sn' /\ p = p'.
Proof. exact K_scan_exact_markers_by_binding. Qed.
Print Assumptions C18_K_scan_exact_markers_by_binding.

Theorem C18_K_scan_exact_earned :
  forall p p' d' : bytes, earned_scan_accepts p p' d' <-> p = p'.
Proof. exact K_scan_exact_earned. Qed.
Print Assumptions C18_K_scan_exact_earned.

Theorem C18_K_scan_exact_earned_raw_same_length :
  forall (p p' : list byte) (d' : bytes),
    length p = length p' ->
    is_prefix (GetEarnedFeesSubspace p) (GetEarnedFeesKey p' d') <-> p = p'.
Proof. exact K_scan_exact_earned_raw_same_length. Qed.
Print Assumptions C18_K_scan_exact_earned_raw_same_length.

Theorem C18_K_earned_raw_prefix_matches_extensions :
  forall (p : bytes) (x : list byte) (d : bytes),
    is_prefix (GetEarnedFeesSubspace p) (GetEarnedFeesKey (p ++ x) d).
Proof. exact K_earned_raw_prefix_matches_extensions. Qed.
Print Assumptions C18_K_earned_raw_prefix_matches_extensions.

Theorem C18_K_scan_exact_owner_earned :
  forall (o o' : list byte) (d' : bytes),
    length o = length o' ->
    is_prefix (GetOwnerEarnedFeesSubspace o) (GetOwnerEarnedFeesKey o' d') <-> o = o'.
Proof. exact K_scan_exact_owner_earned. Qed.
Print Assumptions C18_K_scan_exact_owner_earned.

Theorem C18_K_scan_exact_owner_earned_20 :
  forall (o o' : list byte) (d' : bytes),
    length o = 20 ->
    length o' = 20 ->
    is_prefix (GetOwnerEarnedFeesSubspace o) (GetOwnerEarnedFeesKey o' d') <-> o = o'.
Proof. exact K_scan_exact_owner_earned_20. Qed.
Print Assumptions C18_K_scan_exact_owner_earned_20.

Theorem C18_K_earned_raw_prefix_refuted :
  exists (p p' : list byte) (d' : bytes),
      length p' = 20 /\
      length p = 19 /\
      is_prefix (GetEarnedFeesSubspace p) (GetEarnedFeesKey p' d') /\ p <> p'.
Proof. exact K_earned_raw_prefix_refuted. Qed.
Print Assumptions C18_K_earned_raw_prefix_refuted.

Theorem C18_K_earned_raw_prefix_refuted_20 :
  exists (p : list byte) (p' d' : bytes),
      length p = 20 /\
      is_prefix (GetEarnedFeesSubspace p) (GetEarnedFeesKey p' d') /\ p <> p'.
Proof. exact K_earned_raw_prefix_refuted_20. Qed.
Print Assumptions C18_K_earned_raw_prefix_refuted_20.

Theorem C18_K_inj_earned_refuted :
  exists p d p' d' : bytes,
      GetEarnedFeesKey p d = GetEarnedFeesKey p' d' /\ p <> p' /\ d <> d'.
Proof. exact K_inj_earned_refuted. Qed.
Print Assumptions C18_K_inj_earned_refuted.

Theorem C18_K_owner_scan_refuted :
  exists (o sn : bytes) (o' : list byte) (sn' p' : bytes),
      zero_free sn /\
      zero_free sn' /\
      length o' = 20 /\
      is_prefix (GetOwnerBindingsSubspace o sn) (GetOwnerServiceBindingKey o' sn' p') /\
      ~ (o = o' /\ sn = sn').
Proof. exact K_owner_scan_refuted. Qed.
Print Assumptions C18_K_owner_scan_refuted.

Theorem C18_K_owner_providers_scan_refuted :
  exists (o : bytes) (o' : list byte) (p' : bytes),
      length o' = 20 /\
      is_prefix (GetOwnerProvidersSubspace o) (GetOwnerProviderKey o' p') /\ o <> o'.
Proof. exact K_owner_providers_scan_refuted. Qed.
Print Assumptions C18_K_owner_providers_scan_refuted.

Theorem C18_K_owner_earned_scan_refuted :
  exists (o : bytes) (o' : list byte) (d' : bytes),
      length o' = 20 /\
      is_prefix (GetOwnerEarnedFeesSubspace o) (GetOwnerEarnedFeesKey o' d') /\ o <> o'.
Proof. exact K_owner_earned_scan_refuted. Qed.
Print Assumptions C18_K_owner_earned_scan_refuted.

(* ================================================================== *)
(* Gap closing (build/audit/C18.md): proofs in Proofs/GapC18.v, GapC18Order.v, GapC18Trace.v.
   From here on the state-machine model is in scope; integer literals are in Z unless marked. *)
From Coq Require Import Bool.
From SVC Require Import Base.AMap Base.Res Base.Dec Model.Types Model.Pricing
  Model.Handlers Model.EndBlock Model.Step Proofs.Inv Proofs.ReqLemmas Proofs.CtxOps
  Proofs.StepSpecs_batch Proofs.GapC18.
Open Scope Z_scope.

(* ------------------------------------------------------------------ *)
(* facet 8: one denom => earned-fee keys injective in the provider, all lengths *)

Theorem C18_K_inj_earned_same_denom :
  forall p p' d : bytes, GetEarnedFeesKey p d = GetEarnedFeesKey p' d -> p = p'.
Proof. exact K_inj_earned_same_denom. Qed.
Print Assumptions C18_K_inj_earned_same_denom.

(* ------------------------------------------------------------------ *)
(* facet 9: parse-back of scanned keys, as the keeper slices them.
   [index_of x l] is bytes.Index(l, []byte{x}). *)

(* binding.go:393-396: key[AddrLen+1:], split at the first 0x00 *)
Theorem C18_K_parse_owner_binding :
  forall o sn p : bytes,
    length o = 20%nat -> zero_free sn ->
    let k := skipn 21 (GetOwnerServiceBindingKey o sn p) in
    exists i : nat, index_of 0%N k = Some i /\ firstn i k = sn /\ skipn (S i) k = p.
Proof. exact K_parse_owner_binding. Qed.
Print Assumptions C18_K_parse_owner_binding.

Theorem C18_K_parse_owner_binding_gen :
  forall o sn p : bytes,
    zero_free sn ->
    let k := skipn (S (length o)) (GetOwnerServiceBindingKey o sn p) in
    index_of 0%N k = Some (length sn) /\ firstn (length sn) k = sn /\ skipn (S (length sn)) k = p.
Proof. exact K_parse_owner_binding_gen. Qed.
Print Assumptions C18_K_parse_owner_binding_gen.

(* K5 again: an owner that is not 20 bytes long is parsed back wrongly *)
Theorem C18_K_parse_owner_binding_refuted :
  exists o sn p : bytes,
    length o = 21%nat /\ zero_free sn /\
    let k := skipn 21 (GetOwnerServiceBindingKey o sn p) in
    exists i : nat, index_of 0%N k = Some i /\ (firstn i k <> sn \/ skipn (S i) k <> p).
Proof. exact K_parse_owner_binding_refuted. Qed.
Print Assumptions C18_K_parse_owner_binding_refuted.

(* fees.go:171: key[AddrLen+1:] *)
Theorem C18_K_parse_owner_provider :
  forall o p : bytes, length o = 20%nat -> skipn 21 (GetOwnerProviderKey o p) = p.
Proof. exact K_parse_owner_provider. Qed.
Print Assumptions C18_K_parse_owner_provider.

Theorem C18_K_parse_owner_provider_gen :
  forall o p : bytes, skipn (S (length o)) (GetOwnerProviderKey o p) = p.
Proof. exact K_parse_owner_provider_gen. Qed.
Print Assumptions C18_K_parse_owner_provider_gen.

(* fees.go:200 (repair D8): key[1 : len(key)-len(denom)] *)
Theorem C18_K_parse_earned :
  forall p d : bytes,
    let k := GetEarnedFeesKey p d in
    firstn (length k - length d - 1) (skipn 1 k) = p.
Proof. exact K_parse_earned. Qed.
Print Assumptions C18_K_parse_earned.

(* key[1:] *)
Theorem C18_K_parse_tail_withdraw_addr :
  forall o : bytes, skipn 1 (GetWithdrawAddrKey o) = o.
Proof. exact K_parse_tail_withdraw_addr. Qed.
Print Assumptions C18_K_parse_tail_withdraw_addr.

Theorem C18_K_parse_tail_request_context :
  forall c : bytes, skipn 1 (GetRequestContextKey c) = c.
Proof. exact K_parse_tail_request_context. Qed.
Print Assumptions C18_K_parse_tail_request_context.

Theorem C18_K_parse_tail_request :
  forall r : bytes, skipn 1 (GetRequestKey r) = r.
Proof. exact K_parse_tail_request. Qed.
Print Assumptions C18_K_parse_tail_request.

Theorem C18_K_parse_tail_response :
  forall r : bytes, skipn 1 (GetResponseKey r) = r.
Proof. exact K_parse_tail_response. Qed.
Print Assumptions C18_K_parse_tail_response.

Theorem C18_K_parse_tail_active_by_id :
  forall r : bytes, skipn 1 (GetActiveRequestKeyByID r) = r.
Proof. exact K_parse_tail_active_by_id. Qed.
Print Assumptions C18_K_parse_tail_active_by_id.

(* a key found by the (context, batch) scan parses back to the id it was built from *)
Theorem C18_K_parse_request_scan :
  forall (c : bytes) (b : N) (h i : Z),
    length c = 40%nat -> is_uint64 b -> is_int64 h -> is_int16 i ->
    let k := GetRequestKey (gen_request_id c b h i) in
    is_prefix (GetRequestSubspaceByReqCtx c b) k
    /\ split_request_id (skipn 1 k) = Some (c, b, h, i).
Proof. exact K_parse_request_scan. Qed.
Print Assumptions C18_K_parse_request_scan.

(* ------------------------------------------------------------------ *)
(* facet 5: the position of a request in its batch's issue event is the index in its id.
   The model logs one EvIssue per request, newest first, then one EvBatchStart
   (Go: one new_batch_request event carrying the requests in provider order). *)

Theorem C18_issue_all_log :
  forall (s : State) (c : CtxId) (rc : Ctx) (n i : Z) (provs : list Z),
    log (issue_all s c rc n i provs) =
      rev (map (fun jp : nat * Z =>
                  EvIssue (c, n, height s, i + Z.of_nat (fst jp)) (snd jp) (c_cons rc)
                    (fee_of s rc (snd jp)))
             (combine (seq 0 (length provs)) provs)) ++ log s.
Proof. exact issue_all_log_pos. Qed.
Print Assumptions C18_issue_all_log.

Theorem C18_initiate_requests_event_index :
  forall (s : State) (c : CtxId) (provs : list Z),
    let rc := ctx_or_zero s c in
    let n := c_counter rc + 1 in
    exists evs : list Event,
      log (initiate_requests s c provs) = EvBatchStart c n (height s) (len provs) :: evs ++ log s
      /\ length evs = length provs
      /\ forall (k : nat) (p : Z), nth_error provs k = Some p ->
           nth_error (rev evs) k
             = Some (EvIssue (c, n, height s, Z.of_nat k) p (c_cons rc) (fee_of s rc p))
           /\ get (c, n, height s, Z.of_nat k) (reqs (initiate_requests s c provs))
              = Some (new_req s rc p).
Proof. exact initiate_requests_event_index. Qed.
Print Assumptions C18_initiate_requests_event_index.

(* the new-batch handler on a state satisfying the invariant, issuing branch:
   the log grows by [EvBatchStart c n h (len E) :: evs ++ debit], the k-th issue event
   (in issue order) carries the id (c, n, h, k) and the k-th eligible provider, and the
   record stored under that id is the request to that provider *)
Theorem C18_reqid_event_index :
  forall (cfg : Params) (s : State) (c : CtxId),
    wf_cfg cfg -> Inv cfg s -> In (height s, c) (newq s) -> height s < HEIGHT_BOUND ->
    exists rc : Ctx, get c (ctxs s) = Some rc /\
      let E := filter_providers s rc (c_provs rc) in
      let n := c_counter rc + 1 in
      (c_state rc = Running -> d5 rc = false -> 0 < len E -> c_thr rc <= len E ->
       c_super rc = true \/ sum_prices E <= bal s (User (c_cons rc)) ->
       exists evs : list Event,
         log (new_one cfg s c)
         = EvBatchStart c n (height s) (len E) :: evs
           ++ (if c_super rc then [] else [EvDebit c (c_cons rc) (sum_prices E)]) ++ log s
         /\ length evs = length E
         /\ forall (k : nat) (p price : Z), nth_error E k = Some (p, price) ->
              let fee := if c_super rc then 0 else price in
              nth_error (rev evs) k = Some (EvIssue (c, n, height s, Z.of_nat k) p (c_cons rc) fee)
              /\ get (c, n, height s, Z.of_nat k) (reqs (new_one cfg s c))
                 = Some (mkReq p fee (height s + c_timeout rc) true)).
Proof. exact reqid_event_index. Qed.
Print Assumptions C18_reqid_event_index.

(* on the reachable example state of Proofs/StepSpecs_batch.v (ExB: context c1 = (1001, 0),
   providers 7 and 11 eligible at prices 10 and 30, consumer 50) *)
Theorem C18_reqid_event_index_ex :
  ExB.hyps ExB.s_a ExB.c1
  /\ log (new_one ExB.cfg ExB.s_a ExB.c1)
     = EvBatchStart ExB.c1 1 1 2
       :: [EvIssue (ExB.c1, 1, 1, 1) 11 50 30; EvIssue (ExB.c1, 1, 1, 0) 7 50 10]
       ++ [EvDebit ExB.c1 50 40] ++ log ExB.s_a
  /\ get (ExB.c1, 1, 1, 0) (reqs (new_one ExB.cfg ExB.s_a ExB.c1)) = Some (mkReq 7 10 21 true)
  /\ get (ExB.c1, 1, 1, 1) (reqs (new_one ExB.cfg ExB.s_a ExB.c1)) = Some (mkReq 11 30 21 true).
Proof. exact ExIdx.reqid_event_index_ex. Qed.
Print Assumptions C18_reqid_event_index_ex.

(* ------------------------------------------------------------------ *)
(* facet 6: the tuple identifiers of the state machine encode injectively.
   [hb] : the 32 bytes of a transaction hash given as an integer (CtxId = hash, msg index);
   hash_ok a = 0 <= a < 2^256;  cid_ok c = hash_ok (fst c) /\ is_int64 (snd c);
   rid_ok r = cid_ok (rid_ctx r) /\ 0 <= rid_batch r < 2^64 /\ is_int64 (rid_height r)
              /\ is_int16 (rid_index r).
   Which of these ranges hold in reachable states: Proofs/GapC18Trace.v, below. *)

Theorem C18_enc_ctx_inj :
  forall hb : Z -> bytes,
    (forall a : Z, hash_ok a -> length (hb a) = 32%nat) ->
    (forall a b : Z, hash_ok a -> hash_ok b -> hb a = hb b -> a = b) ->
    forall c c' : CtxId, cid_ok c -> cid_ok c' -> enc_ctx hb c = enc_ctx hb c' -> c = c'.
Proof. exact enc_ctx_inj. Qed.
Print Assumptions C18_enc_ctx_inj.

Theorem C18_enc_rid_inj :
  forall hb : Z -> bytes,
    (forall a : Z, hash_ok a -> length (hb a) = 32%nat) ->
    (forall a b : Z, hash_ok a -> hash_ok b -> hb a = hb b -> a = b) ->
    forall r r' : ReqId, rid_ok r -> rid_ok r' -> enc_rid hb r = enc_rid hb r' -> r = r'.
Proof. exact enc_rid_inj. Qed.
Print Assumptions C18_enc_rid_inj.

Theorem C18_enc_rid_len :
  forall hb : Z -> bytes,
    (forall a : Z, hash_ok a -> length (hb a) = 32%nat) ->
    forall r : ReqId, rid_ok r -> length (enc_rid hb r) = 58%nat.
Proof. exact enc_rid_len. Qed.
Print Assumptions C18_enc_rid_len.

Theorem C18_enc_rid_split :
  forall hb : Z -> bytes,
    (forall a : Z, hash_ok a -> length (hb a) = 32%nat) ->
    (forall a b : Z, hash_ok a -> hash_ok b -> hb a = hb b -> a = b) ->
    forall r : ReqId, rid_ok r ->
      split_request_id (enc_rid hb r)
      = Some (enc_ctx hb (rid_ctx r), Z.to_N (rid_batch r), rid_height r, rid_index r).
Proof. exact enc_rid_split. Qed.
Print Assumptions C18_enc_rid_split.

Theorem C18_enc_rid_key_inj :
  forall hb : Z -> bytes,
    (forall a : Z, hash_ok a -> length (hb a) = 32%nat) ->
    (forall a b : Z, hash_ok a -> hash_ok b -> hb a = hb b -> a = b) ->
    forall r r' : ReqId, rid_ok r -> rid_ok r' ->
      GetRequestKey (enc_rid hb r) = GetRequestKey (enc_rid hb r') -> r = r'.
Proof. exact enc_rid_key_inj. Qed.
Print Assumptions C18_enc_rid_key_inj.

(* with the hash written as 32 big-endian bytes ([hash_bytes a = be 32 (Z.to_N a)]) both
   hypotheses hold *)
Theorem C18_enc_rid_inj_hash :
  forall r r' : ReqId, rid_ok r -> rid_ok r' ->
    enc_rid hash_bytes r = enc_rid hash_bytes r' -> r = r'.
Proof. exact enc_rid_inj_hash. Qed.
Print Assumptions C18_enc_rid_inj_hash.

(* ------------------------------------------------------------------ *)
(* facet 12: ORDER.  The store iterates keys in lexicographic byte order; the state machine
   sorts identifiers field by field ([ctxid_leb], [rid_leb], [act_leb]).  Proofs/GapC18Order.v:
     blt a b / ble a b : bytes.Compare(a, b) < 0 / <= 0  (boolean functions bltb, bleb);
     nn_cid c = hash_ok (fst c) /\ 0 <= snd c < 2^63;
     nn_rid r = nn_cid (rid_ctx r) /\ 0 <= rid_batch r < 2^64 /\ 0 <= rid_height r < 2^63
                /\ 0 <= rid_index r < 2^15;
     [hb] monotone: the hash bytes read as a big-endian integer.
   The two orders agree on this domain and DISAGREE for negative signed fields. *)
From Coq Require Import Sorting.Sorted.
From SVC Require Import Model.Queries Proofs.GapC18Order.

Theorem C18_blt_strict_total_order :
  (forall a : bytes, ~ blt a a)
  /\ (forall a b c : bytes, blt a b -> blt b c -> blt a c)
  /\ (forall a b : bytes, blt a b \/ a = b \/ blt b a).
Proof. exact blt_strict_total_order. Qed.
Print Assumptions C18_blt_strict_total_order.

Theorem C18_ble_iff : forall a b : bytes, ble a b <-> blt a b \/ a = b.
Proof. exact ble_iff. Qed.
Print Assumptions C18_ble_iff.

Theorem C18_blt_app_prefix :
  forall p a b : bytes, blt (p ++ a) (p ++ b) <-> blt a b.
Proof. exact blt_app_prefix. Qed.
Print Assumptions C18_blt_app_prefix.

Theorem C18_blt_app_len :
  forall a a' b b' : bytes,
    length a = length a' ->
    (blt (a ++ b) (a' ++ b') <-> blt a a' \/ (a = a' /\ blt b b')).
Proof. exact blt_app_len. Qed.
Print Assumptions C18_blt_app_len.

(* big-endian fixed width: byte order = numeric order *)
Theorem C18_be_lt_iff :
  forall (k : nat) (n m : N),
    (n < 256 ^ N.of_nat k)%N -> (m < 256 ^ N.of_nat k)%N ->
    (blt (be k n) (be k m) <-> (n < m)%N).
Proof. exact be_lt_iff. Qed.
Print Assumptions C18_be_lt_iff.

Theorem C18_be64_u64_lt_iff :
  forall a b : Z,
    0 <= a < 2 ^ 63 -> 0 <= b < 2 ^ 63 ->
    (blt (be64 (u64 a)) (be64 (u64 b)) <-> a < b).
Proof. exact be64_u64_lt_iff. Qed.
Print Assumptions C18_be64_u64_lt_iff.

Theorem C18_be64_u64_order_refuted :
  exists a b : Z, is_int64 a /\ is_int64 b /\ a < b /\ blt (be64 (u64 b)) (be64 (u64 a)).
Proof. exact be64_u64_order_refuted. Qed.
Print Assumptions C18_be64_u64_order_refuted.

(* context ids *)
Theorem C18_enc_ctx_le :
  forall hb : Z -> bytes,
    (forall a : Z, hash_ok a -> length (hb a) = 32%nat) ->
    (forall a b : Z, hash_ok a -> hash_ok b -> a < b -> blt (hb a) (hb b)) ->
    forall c c' : CtxId, nn_cid c -> nn_cid c' ->
      (ctxid_leb c c' = true <-> ble (enc_ctx hb c) (enc_ctx hb c')).
Proof. exact enc_ctx_le. Qed.
Print Assumptions C18_enc_ctx_le.

Theorem C18_K_order_request_context :
  forall hb : Z -> bytes,
    (forall a : Z, hash_ok a -> length (hb a) = 32%nat) ->
    (forall a b : Z, hash_ok a -> hash_ok b -> a < b -> blt (hb a) (hb b)) ->
    forall c c' : CtxId, nn_cid c -> nn_cid c' ->
      (ctxid_leb c c' = true
       <-> ble (GetRequestContextKey (enc_ctx hb c)) (GetRequestContextKey (enc_ctx hb c'))).
Proof. exact K_order_request_context. Qed.
Print Assumptions C18_K_order_request_context.

Theorem C18_K_order_expired_batch :
  forall hb : Z -> bytes,
    (forall a : Z, hash_ok a -> length (hb a) = 32%nat) ->
    (forall a b : Z, hash_ok a -> hash_ok b -> a < b -> blt (hb a) (hb b)) ->
    forall (c c' : CtxId) (h : Z), nn_cid c -> nn_cid c' ->
      (ctxid_leb c c' = true
       <-> ble (GetExpiredRequestBatchKey (enc_ctx hb c) h)
               (GetExpiredRequestBatchKey (enc_ctx hb c') h)).
Proof. exact K_order_expired_batch. Qed.
Print Assumptions C18_K_order_expired_batch.

Theorem C18_K_order_new_batch :
  forall hb : Z -> bytes,
    (forall a : Z, hash_ok a -> length (hb a) = 32%nat) ->
    (forall a b : Z, hash_ok a -> hash_ok b -> a < b -> blt (hb a) (hb b)) ->
    forall (c c' : CtxId) (h : Z), nn_cid c -> nn_cid c' ->
      (ctxid_leb c c' = true
       <-> ble (GetNewRequestBatchKey (enc_ctx hb c) h)
               (GetNewRequestBatchKey (enc_ctx hb c') h)).
Proof. exact K_order_new_batch. Qed.
Print Assumptions C18_K_order_new_batch.

(* across heights the expiry queue sorts by height first *)
Theorem C18_K_order_expired_batch_heights :
  forall hb : Z -> bytes,
    (forall a : Z, hash_ok a -> length (hb a) = 32%nat) ->
    (forall a b : Z, hash_ok a -> hash_ok b -> a < b -> blt (hb a) (hb b)) ->
    forall (c c' : CtxId) (h h' : Z),
      0 <= h < 2 ^ 63 -> 0 <= h' < 2 ^ 63 ->
      (blt (GetExpiredRequestBatchKey (enc_ctx hb c) h)
           (GetExpiredRequestBatchKey (enc_ctx hb c') h')
       <-> h < h' \/ (h = h' /\ blt (enc_ctx hb c) (enc_ctx hb c'))).
Proof. exact K_order_expired_batch_heights. Qed.
Print Assumptions C18_K_order_expired_batch_heights.

(* request ids *)
Theorem C18_enc_rid_le :
  forall hb : Z -> bytes,
    (forall a : Z, hash_ok a -> length (hb a) = 32%nat) ->
    (forall a b : Z, hash_ok a -> hash_ok b -> a < b -> blt (hb a) (hb b)) ->
    forall r r' : ReqId, nn_rid r -> nn_rid r' ->
      (rid_leb r r' = true <-> ble (enc_rid hb r) (enc_rid hb r')).
Proof. exact enc_rid_le. Qed.
Print Assumptions C18_enc_rid_le.

Theorem C18_K_order_request :
  forall hb : Z -> bytes,
    (forall a : Z, hash_ok a -> length (hb a) = 32%nat) ->
    (forall a b : Z, hash_ok a -> hash_ok b -> a < b -> blt (hb a) (hb b)) ->
    forall r r' : ReqId, nn_rid r -> nn_rid r' ->
      (rid_leb r r' = true
       <-> ble (GetRequestKey (enc_rid hb r)) (GetRequestKey (enc_rid hb r'))).
Proof. exact K_order_request. Qed.
Print Assumptions C18_K_order_request.

Theorem C18_K_order_active_by_id :
  forall hb : Z -> bytes,
    (forall a : Z, hash_ok a -> length (hb a) = 32%nat) ->
    (forall a b : Z, hash_ok a -> hash_ok b -> a < b -> blt (hb a) (hb b)) ->
    forall r r' : ReqId, nn_rid r -> nn_rid r' ->
      (rid_leb r r' = true
       <-> ble (GetActiveRequestKeyByID (enc_rid hb r)) (GetActiveRequestKeyByID (enc_rid hb r'))).
Proof. exact K_order_active_by_id. Qed.
Print Assumptions C18_K_order_active_by_id.

Theorem C18_K_order_response :
  forall hb : Z -> bytes,
    (forall a : Z, hash_ok a -> length (hb a) = 32%nat) ->
    (forall a b : Z, hash_ok a -> hash_ok b -> a < b -> blt (hb a) (hb b)) ->
    forall r r' : ReqId, nn_rid r -> nn_rid r' ->
      (rid_leb r r' = true
       <-> ble (GetResponseKey (enc_rid hb r)) (GetResponseKey (enc_rid hb r'))).
Proof. exact K_order_response. Qed.
Print Assumptions C18_K_order_response.

(* active markers of one binding: expiration height, then request id *)
Theorem C18_K_order_active_request :
  forall hb : Z -> bytes,
    (forall a : Z, hash_ok a -> length (hb a) = 32%nat) ->
    (forall a b : Z, hash_ok a -> hash_ok b -> a < b -> blt (hb a) (hb b)) ->
    forall (bech : bytes -> bytes) (sn p : bytes) (a b : ReqId * Req),
      nn_rid (fst a) -> nn_rid (fst b) ->
      0 <= r_exp (snd a) < 2 ^ 63 -> 0 <= r_exp (snd b) < 2 ^ 63 ->
      (act_leb a b = true
       <-> ble (GetActiveRequestKey bech sn p (r_exp (snd a)) (enc_rid hb (fst a)))
               (GetActiveRequestKey bech sn p (r_exp (snd b)) (enc_rid hb (fst b)))).
Proof. exact K_order_active_request. Qed.
Print Assumptions C18_K_order_active_request.

(* with the hash written as 32 big-endian bytes: no hypothesis on the encoding left *)
Theorem C18_K_order_expired_batch_hash :
  forall (c c' : CtxId) (h : Z), nn_cid c -> nn_cid c' ->
    (ctxid_leb c c' = true
     <-> ble (GetExpiredRequestBatchKey (enc_ctx hash_bytes c) h)
             (GetExpiredRequestBatchKey (enc_ctx hash_bytes c') h)).
Proof. exact K_order_expired_batch_hash. Qed.
Print Assumptions C18_K_order_expired_batch_hash.

Theorem C18_K_order_new_batch_hash :
  forall (c c' : CtxId) (h : Z), nn_cid c -> nn_cid c' ->
    (ctxid_leb c c' = true
     <-> ble (GetNewRequestBatchKey (enc_ctx hash_bytes c) h)
             (GetNewRequestBatchKey (enc_ctx hash_bytes c') h)).
Proof. exact K_order_new_batch_hash. Qed.
Print Assumptions C18_K_order_new_batch_hash.

Theorem C18_K_order_request_hash :
  forall r r' : ReqId, nn_rid r -> nn_rid r' ->
    (rid_leb r r' = true
     <-> ble (GetRequestKey (enc_rid hash_bytes r)) (GetRequestKey (enc_rid hash_bytes r'))).
Proof. exact K_order_request_hash. Qed.
Print Assumptions C18_K_order_request_hash.

(* a negative message index: the model puts (1, -1) before (1, 0), the store after *)
Theorem C18_ctxid_order_refuted :
  exists c c' : CtxId,
    cid_ok c /\ cid_ok c' /\ ctxid_leb c c' = true
    /\ blt (GetNewRequestBatchKey (enc_ctx hash_bytes c') 1)
           (GetNewRequestBatchKey (enc_ctx hash_bytes c) 1).
Proof. exact ctxid_order_refuted. Qed.
Print Assumptions C18_ctxid_order_refuted.

(* the order in which EndBlock handles the due contexts is the order of their queue keys *)
Theorem C18_due_new_in_store_order :
  forall hb : Z -> bytes,
    (forall a : Z, hash_ok a -> length (hb a) = 32%nat) ->
    (forall a b : Z, hash_ok a -> hash_ok b -> a < b -> blt (hb a) (hb b)) ->
    forall (q : list (Z * CtxId)) (h : Z),
      (forall e : Z * CtxId, In e q -> nn_cid (snd e)) ->
      Sorted (fun c c' : CtxId => ble (GetNewRequestBatchKey (enc_ctx hb c) h)
                                      (GetNewRequestBatchKey (enc_ctx hb c') h)) (due q h).
Proof. exact due_new_in_store_order. Qed.
Print Assumptions C18_due_new_in_store_order.

Theorem C18_due_expired_in_store_order :
  forall hb : Z -> bytes,
    (forall a : Z, hash_ok a -> length (hb a) = 32%nat) ->
    (forall a b : Z, hash_ok a -> hash_ok b -> a < b -> blt (hb a) (hb b)) ->
    forall (q : list (Z * CtxId)) (h : Z),
      (forall e : Z * CtxId, In e q -> nn_cid (snd e)) ->
      Sorted (fun c c' : CtxId => ble (GetExpiredRequestBatchKey (enc_ctx hb c) h)
                                      (GetExpiredRequestBatchKey (enc_ctx hb c') h)) (due q h).
Proof. exact due_expired_in_store_order. Qed.
Print Assumptions C18_due_expired_in_store_order.

(* ------------------------------------------------------------------ *)
(* reachable states (Proofs/GapC18Trace.v: new trace invariants over Reach) *)
From SVC Require Import Proofs.GapC18Trace.

(* facet 5, client side (client/utils/query.go QueryRequestByTxQuery takes the first
   new_batch_request event of the context in the block): a context starts at most one batch
   per block, so (context, height) determines the batch *)
Theorem C18_one_batch_start_per_block :
  forall (cfg : Params) (s : State) (c : CtxId) (n n' h k k' : Z),
    wf_cfg cfg -> Reach cfg s ->
    In (EvBatchStart c n h k) (log s) -> In (EvBatchStart c n' h k') (log s) ->
    n = n' /\ k = k'.
Proof. exact one_batch_start_per_block. Qed.
Print Assumptions C18_one_batch_start_per_block.

Theorem C18_batch_start_height :
  forall (cfg : Params) (s : State) (c : CtxId) (n h k : Z),
    wf_cfg cfg -> Reach cfg s -> In (EvBatchStart c n h k) (log s) -> h <= height s.
Proof. exact batch_start_height. Qed.
Print Assumptions C18_batch_start_height.

(* facet 6: the ranges of the fields of every stored request id.  HEIGHT_BOUND = 2^62. *)
Theorem C18_reachable_rid_ranges :
  forall (cfg : Params) (s : State) (r : ReqId) (q : Req),
    wf_cfg cfg -> Reach cfg s -> get r (reqs s) = Some q ->
    1 <= rid_batch r <= rid_height r
    /\ 1 <= rid_height r <= height s /\ rid_height r < HEIGHT_BOUND
    /\ 0 <= rid_index r < 10
    /\ exists rc : Ctx, get (rid_ctx r) (ctxs s) = Some rc
         /\ rid_batch r = c_counter rc /\ 0 <= rid_index r < c_breq rc /\ c_breq rc <= 10.
Proof. exact reachable_rid_ranges. Qed.
Print Assumptions C18_reachable_rid_ranges.

Theorem C18_reachable_counter_le_height :
  forall (cfg : Params) (s : State) (c : CtxId) (rc : Ctx),
    wf_cfg cfg -> Reach cfg s -> get c (ctxs s) = Some rc -> 0 <= c_counter rc <= height s.
Proof. exact reachable_counter_le_height. Qed.
Print Assumptions C18_reachable_counter_le_height.

(* the context id itself (transaction hash, message index) is handed in by the host: its
   shape stays a hypothesis; everything else of rid_ok / nn_rid holds by reachability *)
Theorem C18_reachable_rid_ok :
  forall (cfg : Params) (s : State) (r : ReqId) (q : Req),
    wf_cfg cfg -> Reach cfg s -> get r (reqs s) = Some q -> cid_ok (rid_ctx r) -> rid_ok r.
Proof. exact reachable_rid_ok. Qed.
Print Assumptions C18_reachable_rid_ok.

Theorem C18_reachable_nn_rid :
  forall (cfg : Params) (s : State) (r : ReqId) (q : Req),
    wf_cfg cfg -> Reach cfg s -> get r (reqs s) = Some q -> nn_cid (rid_ctx r) -> nn_rid r.
Proof. exact reachable_nn_rid. Qed.
Print Assumptions C18_reachable_nn_rid.

Theorem C18_reachable_enc_rid_inj :
  forall (cfg : Params) (s : State) (hb : Z -> bytes) (r : ReqId) (q : Req) (r' : ReqId) (q' : Req),
    (forall a : Z, hash_ok a -> length (hb a) = 32%nat) ->
    (forall a b : Z, hash_ok a -> hash_ok b -> hb a = hb b -> a = b) ->
    wf_cfg cfg -> Reach cfg s -> get r (reqs s) = Some q -> get r' (reqs s) = Some q' ->
    cid_ok (rid_ctx r) -> cid_ok (rid_ctx r') ->
    GetRequestKey (enc_rid hb r) = GetRequestKey (enc_rid hb r') -> r = r'.
Proof. exact reachable_enc_rid_inj. Qed.
Print Assumptions C18_reachable_enc_rid_inj.

Theorem C18_reachable_request_order :
  forall (cfg : Params) (s : State) (hb : Z -> bytes) (r : ReqId) (q : Req) (r' : ReqId) (q' : Req),
    (forall a : Z, hash_ok a -> length (hb a) = 32%nat) ->
    (forall a b : Z, hash_ok a -> hash_ok b -> a < b -> blt (hb a) (hb b)) ->
    wf_cfg cfg -> Reach cfg s -> get r (reqs s) = Some q -> get r' (reqs s) = Some q' ->
    nn_cid (rid_ctx r) -> nn_cid (rid_ctx r') ->
    (rid_leb r r' = true
     <-> ble (GetRequestKey (enc_rid hb r)) (GetRequestKey (enc_rid hb r'))).
Proof. exact reachable_request_order. Qed.
Print Assumptions C18_reachable_request_order.

(* on a concrete reachable state (ExB.s_a followed by one EndBlock) *)
Theorem C18_reachable_rid_ranges_ex :
  get (ExB.c1, 1, 1, 1) (reqs ExT.s_e) = Some (mkReq 11 30 21 true)
  /\ rid_ok (ExB.c1, 1, 1, 1) /\ nn_rid (ExB.c1, 1, 1, 1).
Proof. exact ExT.reachable_rid_ranges_ex. Qed.
Print Assumptions C18_reachable_rid_ranges_ex.

(* ---- governance parameter changes inside a history (Model/ParamStep.v, Proofs/ParamChange.v,
   Proofs/ReachPProps.v) ----
   The state-invariant statements above, with `wf_cfg cfg -> Reach cfg s` (parameters fixed along
   the history) replaced by `ReachP cfg s`: initial state; operations under the parameters in
   force; changes to a well-formed parameter set that does not raise the minimum-deposit terms
   nor lower the maximum request timeout (tax, slash fraction, arbitration and complaint periods
   change freely).  cfg is the parameter set in force in s.  Same conclusions. *)
From SVC Require Import Model.ParamStep Proofs.ParamChange Proofs.ReachPProps.

Theorem C18_reachable_rid_ranges_param_changes :
  forall (cfg : Params) (s : State),
    ReachP cfg s -> forall (r : ReqId) (q : Req), get r (reqs s) = Some q ->
    1 <= rid_batch r <= rid_height r
    /\ 1 <= rid_height r <= height s /\ rid_height r < HEIGHT_BOUND
    /\ 0 <= rid_index r < 10
    /\ exists rc : Ctx, get (rid_ctx r) (ctxs s) = Some rc
         /\ rid_batch r = c_counter rc /\ 0 <= rid_index r < c_breq rc /\ c_breq rc <= 10.
Proof. exact ReachPProps.rid_ranges_P. Qed.
Print Assumptions C18_reachable_rid_ranges_param_changes.

Theorem C18_reachable_counter_le_height_param_changes :
  forall (cfg : Params) (s : State),
    ReachP cfg s -> forall (c : CtxId) (rc : Ctx),
    get c (ctxs s) = Some rc -> 0 <= c_counter rc <= height s.
Proof. exact ReachPProps.counter_le_height_P. Qed.
Print Assumptions C18_reachable_counter_le_height_param_changes.

Theorem C18_reachable_rid_ok_param_changes :
  forall (cfg : Params) (s : State) (r : ReqId) (q : Req),
    ReachP cfg s -> get r (reqs s) = Some q -> cid_ok (rid_ctx r) -> rid_ok r.
Proof. exact ReachPProps.rid_ok_P. Qed.
Print Assumptions C18_reachable_rid_ok_param_changes.

Theorem C18_reachable_nn_rid_param_changes :
  forall (cfg : Params) (s : State) (r : ReqId) (q : Req),
    ReachP cfg s -> get r (reqs s) = Some q -> nn_cid (rid_ctx r) -> nn_rid r.
Proof. exact ReachPProps.nn_rid_P. Qed.
Print Assumptions C18_reachable_nn_rid_param_changes.

Theorem C18_reachable_enc_rid_inj_param_changes :
  forall (cfg : Params) (s : State) (hb : Z -> bytes) (r : ReqId) (q : Req) (r' : ReqId) (q' : Req),
    (forall a : Z, hash_ok a -> length (hb a) = 32%nat) ->
    (forall a b : Z, hash_ok a -> hash_ok b -> hb a = hb b -> a = b) ->
    ReachP cfg s -> get r (reqs s) = Some q -> get r' (reqs s) = Some q' ->
    cid_ok (rid_ctx r) -> cid_ok (rid_ctx r') ->
    GetRequestKey (enc_rid hb r) = GetRequestKey (enc_rid hb r') -> r = r'.
Proof. exact ReachPProps.enc_rid_inj_P. Qed.
Print Assumptions C18_reachable_enc_rid_inj_param_changes.

Theorem C18_reachable_request_order_param_changes :
  forall (cfg : Params) (s : State) (hb : Z -> bytes) (r : ReqId) (q : Req) (r' : ReqId) (q' : Req),
    (forall a : Z, hash_ok a -> length (hb a) = 32%nat) ->
    (forall a b : Z, hash_ok a -> hash_ok b -> a < b -> blt (hb a) (hb b)) ->
    ReachP cfg s -> get r (reqs s) = Some q -> get r' (reqs s) = Some q' ->
    nn_cid (rid_ctx r) -> nn_cid (rid_ctx r') ->
    (rid_leb r r' = true
     <-> ble (GetRequestKey (enc_rid hb r)) (GetRequestKey (enc_rid hb r'))).
Proof. exact ReachPProps.request_order_P. Qed.
Print Assumptions C18_reachable_request_order_param_changes.
