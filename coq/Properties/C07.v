(* C07  The fee charged follows the provider's published pricing.
   Statements only; the proofs are in Proofs/PricingProofs.v and
   Proofs/DecProofs.v.  (The state-level parts of C07 -- fee 0 in super mode,
   the volume moved by accepted responses -- are stated over the handlers.) *)
From Coq Require Import List ZArith Bool.
From SVC Require Import Base.AMap Base.Res Base.Dec Model.Types Model.Pricing Model.Handlers
  Model.EndBlock Model.Step Proofs.Inv Proofs.DecProofs Proofs.PricingProofs
  Proofs.GapOrigin Proofs.GapC07.
Import ListNotations.
Open Scope Z_scope.

(* the fee of a non-super request: two sdk.Dec multiplications, truncate, at least 1 *)
Theorem C07_fee_formula : forall p t v,
  get_price p t v =
  Z.max 1 (dtrunc (dmul (dmul (pr_price p * PREC) (disc_time (pr_time p) t))
                        (disc_vol (pr_vol p) v))).
Proof. exact PricingProofs.C07_fee_formula_expanded. Qed.
Print Assumptions C07_fee_formula.

(* the consumer is charged exactly the fee stored on the request *)
Theorem C07_charged_is_stored : forall p t v, exchanged_price p t v = get_price p t v.
Proof. exact PricingProofs.C07_charged_is_stored. Qed.
Print Assumptions C07_charged_is_stored.

(* the time discount is that of THE window containing the block time, else 1 *)
Theorem C07_time_spec : forall l t, valid_time None l = true ->
  (forall w, In w l -> pt_start w <= t < pt_end w ->
     disc_time l t = pt_disc w
     /\ (forall w', In w' l -> pt_start w' <= t < pt_end w' -> w' = w))
  /\ ((~ exists w, In w l /\ pt_start w <= t < pt_end w) -> disc_time l t = ONE).
Proof. exact PricingProofs.C07_time_spec. Qed.
Print Assumptions C07_time_spec.

(* the volume discount is that of the last tier with volume_i <= v, else 1 *)
Theorem C07_volume_spec : forall l v, valid_vol None l = true ->
  ((forall w, In w l -> v < pv_vol w) -> disc_vol l v = ONE)
  /\ (forall i d, (i < length l)%nat ->
        pv_vol (nth i l d) <= v ->
        (forall j, (i < j < length l)%nat -> v < pv_vol (nth j l d)) ->
        disc_vol l v = pv_disc (nth i l d)).
Proof. exact PricingProofs.C07_volume_spec. Qed.
Print Assumptions C07_volume_spec.

(* the two cases of C07_volume_spec cover every list and volume *)
Theorem C07_volume_cases : forall l v d,
  (forall w, In w l -> v < pv_vol w)
  \/ (exists i, (i < length l)%nat /\ pv_vol (nth i l d) <= v
        /\ forall j, (i < j < length l)%nat -> v < pv_vol (nth j l d)).
Proof. exact PricingProofs.volume_tier_cases. Qed.
Print Assumptions C07_volume_cases.

Theorem C07_fee_bounds : forall p t v, schema_pricing p = true ->
  1 <= get_price p t v <= Z.max (pr_price p) 1.
Proof. exact PricingProofs.C07_fee_bounds. Qed.
Print Assumptions C07_fee_bounds.

Theorem C07_fee_le : forall p t v, schema_pricing p = true ->
  get_price p t v <= Z.max (pr_price p) 1.
Proof. exact PricingProofs.C07_fee_le. Qed.
Print Assumptions C07_fee_le.

(* no discount in effect: the fee is the base price *)
Theorem C07_exact_no_discount : forall p t v,
  disc_time (pr_time p) t = ONE -> disc_vol (pr_vol p) v = ONE -> 1 <= pr_price p ->
  get_price p t v = pr_price p.
Proof. exact PricingProofs.C07_exact_no_discount_pos. Qed.
Print Assumptions C07_exact_no_discount.

(* X = base*dT*dV scaled by 10^36 is the exact product.  The fee is the floor of
   the exact product unless that product is within 5*10^-19 below an integer;
   then (and only then) it is one more: the whole effect of 18-digit rounding *)
Theorem C07_exact_floor : forall p t v, schema_pricing p = true ->
  let X := pr_price p * disc_time (pr_time p) t * disc_vol (pr_vol p) v in
  X mod (PREC * PREC) < PREC * PREC - HALF ->
  get_price p t v = Z.max 1 (X / (PREC * PREC)).
Proof. exact PricingProofs.C07_exact_floor. Qed.
Print Assumptions C07_exact_floor.

Theorem C07_exact_floor_up : forall p t v, schema_pricing p = true ->
  let X := pr_price p * disc_time (pr_time p) t * disc_vol (pr_vol p) v in
  PREC * PREC - HALF <= X mod (PREC * PREC) ->
  get_price p t v = Z.max 1 (X / (PREC * PREC) + 1).
Proof. exact PricingProofs.C07_exact_floor_up. Qed.
Print Assumptions C07_exact_floor_up.

Theorem C07_fee_within_1 : forall p t v, schema_pricing p = true ->
  let X := pr_price p * disc_time (pr_time p) t * disc_vol (pr_vol p) v in
  Z.max 1 (X / (PREC * PREC)) <= get_price p t v <= Z.max 1 (X / (PREC * PREC)) + 1.
Proof. exact PricingProofs.C07_fee_within_1. Qed.
Print Assumptions C07_fee_within_1.

(* ------------------------------------------------------------------ *)
(* State level (Proofs/GapC07.v, Proofs/GapOrigin.v).

   NOTE on C07_charged_is_stored above: [exchanged_price] (the price compared with the cap and
   summed into the consumer's debit) and [get_price] (the fee stored on the request) are the SAME
   term in the model (Model/Pricing.v), so that theorem is true by reflexivity; in Go they are two
   functions (GetExchangedPrice / GetPrice) and their agreement is tied by the correspondence
   (pure price stream), not by a Coq theorem.  The state-level theorems below that equate the
   fee charged with the fee stored rely on this modelling choice. *)

(* the fee of every request issued by the new-batch handler is the formula evaluated on the
   binding's PUBLISHED pricing text, the block time and the consumer's recorded volume with that
   provider for that service; 0 in super mode; within the cap and within max(base price, 1) *)
Theorem C07_request_fee_new_one : forall cfg s c r q,
  wf_cfg cfg -> Inv cfg s -> In (height s, c) (newq s) -> height s < HEIGHT_BOUND ->
  get r (reqs s) = None -> get r (reqs (new_one cfg s c)) = Some q ->
  exists rc b, get c (ctxs s) = Some rc /\ rid_ctx r = c /\ In (r_prov q) (c_provs rc)
    /\ get (c_svc rc, r_prov q) (binds s) = Some b /\ b_avail b = true
    /\ let p := parse_pricing (b_raw b) in
       validate_pricing p = true /\ schema_pricing p = true
       /\ r_fee q = (if c_super rc then 0
                     else get_price p (time s) (vol_of s (c_cons rc) (c_svc rc) (r_prov q)))
       /\ 0 <= r_fee q <= c_cap rc /\ r_fee q <= Z.max (pr_price p) 1.
Proof. exact GapC07.request_fee_new_one. Qed.
Print Assumptions C07_request_fee_new_one.

(* the same for a whole EndBlock: pricing text of the binding as it stood at the START of the
   EndBlock (b; the expiry phase may slash the binding, bx, but never changes its text), block
   time and volume at the start of the EndBlock; the context record is the one after the expiry
   phase *)
Theorem C07_request_fee : forall cfg s dt r q,
  wf_cfg cfg -> Inv cfg s -> height s < HEIGHT_BOUND ->
  get r (reqs s) = None -> get r (reqs (end_block cfg s dt)) = Some q ->
  let sx := fold_left (expire_one cfg) (due (expq s) (height s)) s in
  exists rc b bx, get (rid_ctx r) (ctxs sx) = Some rc
    /\ get (c_svc rc, r_prov q) (binds s) = Some b
    /\ get (c_svc rc, r_prov q) (binds sx) = Some bx /\ b_raw bx = b_raw b /\ b_avail bx = true
    /\ In (r_prov q) (c_provs rc)
    /\ let p := parse_pricing (b_raw b) in
       validate_pricing p = true /\ schema_pricing p = true
       /\ r_fee q = (if c_super rc then 0
                     else get_price p (time s) (vol_of s (c_cons rc) (c_svc rc) (r_prov q)))
       /\ 0 <= r_fee q <= c_cap rc /\ r_fee q <= Z.max (pr_price p) 1
       /\ r_exp q = height s + c_timeout rc /\ rid_height r = height s.
Proof. exact GapC07.request_fee_end_block. Qed.
Print Assumptions C07_request_fee.

(* over histories: EVERY request record stored in ANY reachable state carries the fee given by
   the formula at the EndBlock (of an earlier reachable state s0, at height rid_height r) that
   issued it, and has kept it since *)
Theorem C07_request_fee_reach : forall cfg s r q,
  wf_cfg cfg -> Reach cfg s -> get r (reqs s) = Some q ->
  exists s0 rc b,
    Reach cfg s0 /\ height s0 = rid_height r /\ height s0 < height s
    /\ get (rid_ctx r) (ctxs (fold_left (expire_one cfg) (due (expq s0) (height s0)) s0)) = Some rc
    /\ get (c_svc rc, r_prov q) (binds s0) = Some b
    /\ In (r_prov q) (c_provs rc)
    /\ let p := parse_pricing (b_raw b) in
       validate_pricing p = true /\ schema_pricing p = true
       /\ r_fee q = (if c_super rc then 0
                     else get_price p (time s0) (vol_of s0 (c_cons rc) (c_svc rc) (r_prov q)))
       /\ 0 <= r_fee q <= c_cap rc /\ r_fee q <= Z.max (pr_price p) 1
       /\ r_exp q = rid_height r + c_timeout rc.
Proof. exact GapC07.request_fee_reach. Qed.
Print Assumptions C07_request_fee_reach.

(* every stored request was created by the EndBlock of an earlier reachable state and has kept
   its provider, fee and expiry height *)
Theorem C07_request_origin : forall cfg s r q,
  wf_cfg cfg -> Reach cfg s -> get r (reqs s) = Some q ->
  exists s0 dt q0,
    Reach cfg s0 /\ 0 <= dt /\ height s0 < HEIGHT_BOUND
    /\ get r (reqs s0) = None /\ get r (reqs (end_block cfg s0 dt)) = Some q0
    /\ (r_prov q0 = r_prov q /\ r_fee q0 = r_fee q /\ r_exp q0 = r_exp q)
    /\ height s0 < height s.
Proof. exact GapOrigin.request_origin. Qed.
Print Assumptions C07_request_origin.

(* super mode: a stored request of a reachable state carries no fee exactly when its context is
   in super mode; otherwise its fee is at least 1.  (That the consumer is then charged nothing:
   C06_batch_spec (e) / C06_end_block_outcome, charge = 0 when c_super.) *)
Theorem C07_super_fee_zero : forall cfg s r q rc,
  wf_cfg cfg -> Reach cfg s -> get r (reqs s) = Some q -> get (rid_ctx r) (ctxs s) = Some rc ->
  (c_super rc = true <-> r_fee q = 0) /\ (c_super rc = false -> 1 <= r_fee q).
Proof. exact GapC07.super_fee_zero. Qed.
Print Assumptions C07_super_fee_zero.

(* C07_volume_moves, step level.  An accepted response adds exactly one to the volume of
   (consumer of the context, service of the context, provider of the request) -- also when the
   output is malformed and the fee refunded -- and leaves every other volume alone *)
Theorem C07_volume_respond : forall cfg s r who code out ov ok s' q rc,
  handle cfg s (ORespond r who code out ov ok) = Ok s' ->
  get r (reqs s) = Some q -> get (rid_ctx r) (ctxs s) = Some rc ->
  who = r_prov q
  /\ forall k, get0 k (vols s') =
       get0 k (vols s) + (if eqb k (c_cons rc, c_svc rc, r_prov q) then 1 else 0).
Proof. exact GapC07.volume_respond. Qed.
Print Assumptions C07_volume_respond.

(* no other message moves a volume *)
Theorem C07_volume_frame_msg : forall cfg s o s',
  handle cfg s o = Ok s' -> (forall dt, o <> OEndBlock dt) ->
  (forall r w c o' v k, o <> ORespond r w c o' v k) -> vols s' = vols s.
Proof. exact GapC07.volume_frame_msg_nonresp. Qed.
Print Assumptions C07_volume_frame_msg.

(* nor does EndBlock (expiry phase, new-batch phase, tick) *)
Theorem C07_volume_frame_end_block : forall cfg s dt, vols (end_block cfg s dt) = vols s.
Proof. exact GapC07.volume_frame_end_block. Qed.
Print Assumptions C07_volume_frame_end_block.

(* one step of the machine, any operation, accepted or rejected: the volume of k moves by
   [counts_for cfg s o k] = 1 if o is a response accepted in s whose request and context name
   the triple k, else 0 *)
Theorem C07_volume_step : forall cfg s o k,
  get0 k (vols (fst (step cfg s o))) = get0 k (vols s) + counts_for cfg s o k.
Proof. exact GapC07.volume_step. Qed.
Print Assumptions C07_volume_step.

(* C07_volume_moves, history level: along ANY history the volume of a triple grows by exactly the
   number of accepted responses for it ([responses_for] sums [counts_for] along the run); from
   genesis the volume IS that number.  (The log events do not carry the service name, so the
   count is taken over the operations of the history rather than over [log s].) *)
Theorem C07_volume_run : forall cfg s ops k,
  get0 k (vols (run cfg s ops)) = get0 k (vols s) + responses_for cfg s ops k.
Proof. exact GapC07.volume_run. Qed.
Print Assumptions C07_volume_run.

Theorem C07_volume_counts_responses : forall cfg h0 t0 f ops cons svc prov,
  vol_of (run cfg (init h0 t0 f) ops) cons svc prov
  = responses_for cfg (init h0 t0 f) ops (cons, svc, prov).
Proof. exact GapC07.volume_counts_responses. Qed.
Print Assumptions C07_volume_counts_responses.

(* every reachable state is such a run, so the statement covers every reachable state *)
Theorem C07_reach_is_run : forall cfg s, Reach cfg s ->
  exists h0 t0 f ops, 1 <= h0 /\ 0 <= t0 /\ wf_funding f
    /\ ReachRun.wf_run cfg (init h0 t0 f) ops /\ s = run cfg (init h0 t0 f) ops.
Proof. exact GapOrigin.Reach_is_run. Qed.
Print Assumptions C07_reach_is_run.

Theorem C07_volume_monotone : forall cfg s ops k,
  get0 k (vols s) <= get0 k (vols (run cfg s ops)).
Proof. exact GapC07.volume_monotone. Qed.
Print Assumptions C07_volume_monotone.

(* the hypotheses are satisfiable: two accepted responses (one malformed) in a concrete history *)
Theorem C07_volume_example :
  Reach BatchEx.BEx.cfg0 BatchEx.BEx.s_r
  /\ vol_of BatchEx.BEx.s_r 2 5 10 = 1 /\ vol_of BatchEx.BEx.s_r 2 5 11 = 1
  /\ vol_of BatchEx.BEx.s_r 2 5 12 = 0
  /\ responses_for BatchEx.BEx.cfg0 BatchEx.BEx.s_init BatchEx.BEx.ops_r (2, 5, 10) = 1
  /\ responses_for BatchEx.BEx.cfg0 BatchEx.BEx.s_init BatchEx.BEx.ops_r (2, 5, 11) = 1
  /\ responses_for BatchEx.BEx.cfg0 BatchEx.BEx.s_init BatchEx.BEx.ops_r (2, 5, 12) = 0.
Proof. exact GapC07.ExV.volume_ex. Qed.
Print Assumptions C07_volume_example.

(* ------------------------------------------------------------------------------------------
   Known finding K3 inside the model (DESIGN.md 12.10). `XCallMod` (Model/ModSvc.v) is the
   module-service branch of MsgCallService, executed by `xstep` on top of `pstep`; exclusion
   X-K3 is "the history contains no XCallMod" (`k3_free`).  The statements below are refuted /
   proved in Proofs/K3.v on concrete reachable witnesses (corpus history W10) by vm_compute. *)
From Coq Require Import List ZArith Bool Lia.
From SVC Require Import Base.AMap Base.Res Base.Dec Model.Types Model.Pricing Model.Handlers Model.EndBlock Model.Step Model.ParamStep Model.ModSvc Model.Genesis Proofs.Inv Proofs.ParamChange Proofs.K3.
Import ListNotations.
Open Scope Z_scope.

Theorem C07_K3_fee_without_pricing_refuted :
  exists (cfg : Params) (s : State) (o : XOp) (s' : State) (c : CtxId) (r : ReqId) 
         (q : Req) (rc : Ctx),
           wf_cfg cfg /\
           Reach cfg s /\
           is_callmod o = true /\
           xstep (cfg, s) o = (cfg, s', ROk) /\
           get r (reqs s') = Some q /\
           rid_ctx r = c /\
           get c (ctxs s') = Some rc /\
           r_fee q = 1 /\
           get (c_svc rc, r_prov q) (binds s') = None /\
           get (c_svc rc, r_prov q) (pricing s') = None /\
           sum_prices (filter_providers s' rc (c_provs rc)) = 0 /\ In (EvDebit c (c_cons rc) 0) (log s').
Proof. exact K3.K3_fee_without_pricing_refuted. Qed.
Print Assumptions C07_K3_fee_without_pricing_refuted.
