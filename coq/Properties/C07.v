(* C07  The fee charged follows the provider's published pricing.
   Statements only; the proofs are in Proofs/PricingProofs.v and
   Proofs/DecProofs.v.  (The state-level parts of C07 -- fee 0 in super mode,
   the volume moved by accepted responses -- are stated over the handlers.) *)
From Coq Require Import List ZArith.
From SVC Require Import Base.Dec Model.Types Model.Pricing Proofs.DecProofs Proofs.PricingProofs.
Open Scope Z_scope.

(* the fee of a non-super request: two sdk.Dec multiplications, truncate, at least 1 *)
Theorem C07_fee_formula : forall p t v,
  get_price p t v =
  Z.max 1 (dtrunc (dmul (dmul (pr_price p * PREC) (disc_time (pr_time p) t))
                        (disc_vol (pr_vol p) v))).
Proof. exact PricingProofs.C07_fee_formula_expanded. Qed.
Print Assumptions C07_fee_formula.

(* the consumer is charged exactly the fee stored on the request *)
Theorem C07_charged_is_stored : forall p t v, exchanged_price p t v = get_price p t v.
Proof. exact PricingProofs.C07_charged_is_stored. Qed.
Print Assumptions C07_charged_is_stored.

(* the time discount is that of THE window containing the block time, else 1 *)
Theorem C07_time_spec : forall l t, valid_time None l = true ->
  (forall w, In w l -> pt_start w <= t < pt_end w ->
     disc_time l t = pt_disc w
     /\ (forall w', In w' l -> pt_start w' <= t < pt_end w' -> w' = w))
  /\ ((~ exists w, In w l /\ pt_start w <= t < pt_end w) -> disc_time l t = ONE).
Proof. exact PricingProofs.C07_time_spec. Qed.
Print Assumptions C07_time_spec.

(* the volume discount is that of the last tier with volume_i <= v, else 1 *)
Theorem C07_volume_spec : forall l v, valid_vol None l = true ->
  ((forall w, In w l -> v < pv_vol w) -> disc_vol l v = ONE)
  /\ (forall i d, (i < length l)%nat ->
        pv_vol (nth i l d) <= v ->
        (forall j, (i < j < length l)%nat -> v < pv_vol (nth j l d)) ->
        disc_vol l v = pv_disc (nth i l d)).
Proof. exact PricingProofs.C07_volume_spec. Qed.
Print Assumptions C07_volume_spec.

(* the two cases of C07_volume_spec cover every list and volume *)
Theorem C07_volume_cases : forall l v d,
  (forall w, In w l -> v < pv_vol w)
  \/ (exists i, (i < length l)%nat /\ pv_vol (nth i l d) <= v
        /\ forall j, (i < j < length l)%nat -> v < pv_vol (nth j l d)).
Proof. exact PricingProofs.volume_tier_cases. Qed.
Print Assumptions C07_volume_cases.

Theorem C07_fee_bounds : forall p t v, schema_pricing p = true ->
  1 <= get_price p t v <= Z.max (pr_price p) 1.
Proof. exact PricingProofs.C07_fee_bounds. Qed.
Print Assumptions C07_fee_bounds.

Theorem C07_fee_le : forall p t v, schema_pricing p = true ->
  get_price p t v <= Z.max (pr_price p) 1.
Proof. exact PricingProofs.C07_fee_le. Qed.
Print Assumptions C07_fee_le.

(* no discount in effect: the fee is the base price *)
Theorem C07_exact_no_discount : forall p t v,
  disc_time (pr_time p) t = ONE -> disc_vol (pr_vol p) v = ONE -> 1 <= pr_price p ->
  get_price p t v = pr_price p.
Proof. exact PricingProofs.C07_exact_no_discount_pos. Qed.
Print Assumptions C07_exact_no_discount.

(* X = base*dT*dV scaled by 10^36 is the exact product.  The fee is the floor of
   the exact product unless that product is within 5*10^-19 below an integer;
   then (and only then) it is one more: the whole effect of 18-digit rounding *)
Theorem C07_exact_floor : forall p t v, schema_pricing p = true ->
  let X := pr_price p * disc_time (pr_time p) t * disc_vol (pr_vol p) v in
  X mod (PREC * PREC) < PREC * PREC - HALF ->
  get_price p t v = Z.max 1 (X / (PREC * PREC)).
Proof. exact PricingProofs.C07_exact_floor. Qed.
Print Assumptions C07_exact_floor.

Theorem C07_exact_floor_up : forall p t v, schema_pricing p = true ->
  let X := pr_price p * disc_time (pr_time p) t * disc_vol (pr_vol p) v in
  PREC * PREC - HALF <= X mod (PREC * PREC) ->
  get_price p t v = Z.max 1 (X / (PREC * PREC) + 1).
Proof. exact PricingProofs.C07_exact_floor_up. Qed.
Print Assumptions C07_exact_floor_up.

Theorem C07_fee_within_1 : forall p t v, schema_pricing p = true ->
  let X := pr_price p * disc_time (pr_time p) t * disc_vol (pr_vol p) v in
  Z.max 1 (X / (PREC * PREC)) <= get_price p t v <= Z.max 1 (X / (PREC * PREC)) + 1.
Proof. exact PricingProofs.C07_fee_within_1. Qed.
Print Assumptions C07_fee_within_1.
