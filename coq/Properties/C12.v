(* C12  Batch bookkeeping and module callbacks are exact.
   Statements only; proofs in Proofs/InvCount.v, Proofs/C12Proofs.v (counts, completion)
   and Proofs/TraceBatch.v (callbacks, over the event log: `log s` is the whole history's
   log, newest first).  The callback of the implementation is modelled as a recorder
   (events EvCbResp / EvCbState); a callback that itself mutates service state is outside
   the model. *)
From Coq Require Import List ZArith Bool.
From SVC Require Import Base.AMap Base.Res Model.Types Model.Handlers Model.EndBlock Model.Step
  Proofs.Inv Proofs.CtxOps Proofs.TraceBase Proofs.C12Proofs Proofs.TraceBatch Proofs.ThrProofs
  Proofs.GapC12 Proofs.GapC12b
  Model.ParamStep Proofs.ParamChange Proofs.ReachPProps.
Import ListNotations.
Open Scope Z_scope.

(* ---- counts ---- *)

(* while a batch's expiry is pending the recorded request / response counts are the numbers
   of stored request / response records of (context, counter), and the number of requests
   still active is their difference; afterwards the records are gone, the batch is completed
   and the counts keep describing the finished batch *)
Theorem C12_counts : forall cfg s c rc,
  wf_cfg cfg -> Reach cfg s -> get c (ctxs s) = Some rc ->
  0 <= c_bresp rc <= c_breq rc
  /\ (has c (expq_h s) = true ->
        len (batch_rids s c (c_counter rc)) = c_breq rc
        /\ len (filter (in_batch c (c_counter rc)) (keys (resps s))) = c_bresp rc
        /\ len (active_rids s c (c_counter rc)) = c_breq rc - c_bresp rc)
  /\ (has c (expq_h s) = false ->
        c_bdone rc = true
        /\ forall r, rid_ctx r = c -> get r (reqs s) = None /\ get r (resps s) = None).
Proof. exact C12Proofs.C12_counts. Qed.
Print Assumptions C12_counts.

(* ---- completion ---- *)

(* a message changes a batch state only by completing it, and only the response that makes
   responses = requests (>= 1) does; every accepted response finds the batch running, below
   its request count, and adds exactly one *)
Theorem C12_completion_msg : forall cfg s o s' c rc rc',
  wf_cfg cfg -> Inv cfg s -> wf_op s o -> (forall dt, o <> OEndBlock dt) ->
  handle cfg s o = Ok s' ->
  get c (ctxs s) = Some rc -> get c (ctxs s') = Some rc' ->
  (c_bdone rc' <> c_bdone rc ->
     c_bdone rc = false /\ c_bdone rc' = true
     /\ 1 <= c_breq rc' /\ c_bresp rc' = c_breq rc' /\ c_bresp rc' = c_bresp rc + 1
     /\ exists r who code out ov ok, o = ORespond r who code out ov ok /\ rid_ctx r = c)
  /\ (forall r who code out ov ok, o = ORespond r who code out ov ok -> rid_ctx r = c ->
        c_bdone rc = false /\ c_bresp rc < c_breq rc /\ c_bresp rc' = c_bresp rc + 1
        /\ c_breq rc' = c_breq rc /\ c_counter rc' = c_counter rc
        /\ (c_bdone rc' = true <-> c_bresp rc + 1 = c_breq rc)).
Proof. exact C12Proofs.C12_completion_msg. Qed.
Print Assumptions C12_completion_msg.

(* else at the expiry: the expiry handler leaves the batch of its context completed, changes
   no other batch state, and no count *)
Theorem C12_completion_expire_one : forall cfg s c,
  wf_cfg cfg -> Inv cfg s -> In (height s, c) (expq s) -> height s < HEIGHT_BOUND ->
  let s' := expire_one cfg s c in
  (forall rc', get c (ctxs s') = Some rc' -> c_bdone rc' = true)
  /\ (forall c' rc rc', get c' (ctxs s) = Some rc -> get c' (ctxs s') = Some rc' ->
        c_bdone rc' <> c_bdone rc -> c' = c /\ c_bdone rc = false /\ c_bdone rc' = true)
  /\ (forall c' rc rc', get c' (ctxs s) = Some rc -> get c' (ctxs s') = Some rc' ->
        c_counter rc' = c_counter rc /\ c_breq rc' = c_breq rc /\ c_bresp rc' = c_bresp rc).
Proof. exact C12Proofs.C12_completion_expire_one. Qed.
Print Assumptions C12_completion_expire_one.

(* a batch is (re)opened only by the new-batch handler, for its own context, only when the
   previous one is completed and nothing is pending; counter + 1, zero responses *)
Theorem C12_completion_new_one : forall cfg s c,
  wf_cfg cfg -> Inv cfg s -> In (height s, c) (newq s) -> height s < HEIGHT_BOUND ->
  let s' := new_one cfg s c in
  forall c' rc rc', get c' (ctxs s) = Some rc -> get c' (ctxs s') = Some rc' ->
    (c_bdone rc' <> c_bdone rc \/ c_counter rc' <> c_counter rc ->
       c' = c /\ has c (expq_h s) = false /\ c_bdone rc = true /\ c_bdone rc' = false
       /\ c_counter rc' = c_counter rc + 1 /\ c_bresp rc' = 0 /\ 0 <= c_breq rc'
       /\ c_bthr rc' = c_thr rc /\ has c (expq_h s') = true)
    /\ (c_bdone rc' = c_bdone rc ->
          c_counter rc' = c_counter rc /\ c_breq rc' = c_breq rc /\ c_bresp rc' = c_bresp rc).
Proof. exact C12Proofs.C12_completion_new_one. Qed.
Print Assumptions C12_completion_new_one.

(* ---- callbacks (trace) ---- *)
(* is_start c n / is_done c n / is_cbresp c n recognise EvBatchStart c n _ _ / EvBatchDone c n /
   EvCbResp c n _ _;  count f l = number of elements of l satisfying f. *)

(* in every reachable state, for every context id (existing or already removed) and batch n:
   at most one start, at most one completion and only of a started batch, at most one
   response callback and only at a completion; per context, either every completion has its
   callback or none has.  For an existing context: callback = completion iff it is a module
   context (none at all otherwise); exactly the batches 1..counter have been started, the
   batches below the counter are completed, the current one iff the record says so. *)
Theorem C12_callback_once : forall cfg s, wf_cfg cfg -> Reach cfg s ->
  forall c,
    (forall n, 0 <= count (is_cbresp c n) (log s) <= count (is_done c n) (log s)
               /\ count (is_done c n) (log s) <= count (is_start c n) (log s)
               /\ count (is_start c n) (log s) <= 1)
    /\ ((forall n, count (is_cbresp c n) (log s) = count (is_done c n) (log s))
        \/ (forall n, count (is_cbresp c n) (log s) = 0))
    /\ (forall rc, get c (ctxs s) = Some rc ->
          (c_mod rc <> 0 -> forall n, count (is_cbresp c n) (log s) = count (is_done c n) (log s))
          /\ (c_mod rc = 0 -> forall n, count (is_cbresp c n) (log s) = 0)
          /\ (forall n, count (is_start c n) (log s)
                        = if (1 <=? n) && (n <=? c_counter rc) then 1 else 0)
          /\ (forall n, 1 <= n < c_counter rc -> count (is_done c n) (log s) = 1)
          /\ (1 <= c_counter rc ->
                count (is_done c (c_counter rc)) (log s) = if c_bdone rc then 1 else 0)).
Proof. exact TraceBatch.C12_callback_once. Qed.
Print Assumptions C12_callback_once.

Theorem C12_callback_iff_done : forall cfg s c rc n, wf_cfg cfg -> Reach cfg s ->
  get c (ctxs s) = Some rc -> c_mod rc <> 0 ->
  ((exists outs err, In (EvCbResp c n outs err) (log s)) <-> In (EvBatchDone c n) (log s))
  /\ count (is_cbresp c n) (log s) <= 1.
Proof. exact TraceBatch.C12_callback_iff_done. Qed.
Print Assumptions C12_callback_iff_done.

Theorem C12_no_callback_nonmodule : forall cfg s c rc, wf_cfg cfg -> Reach cfg s ->
  get c (ctxs s) = Some rc -> c_mod rc = 0 ->
  forall n outs err, ~ In (EvCbResp c n outs err) (log s).
Proof. exact TraceBatch.C12_no_callback_nonmodule. Qed.
Print Assumptions C12_no_callback_nonmodule.

(* what each handler emits, exactly (blog s = the batch-level events of log s, newest first;
   done_events c rc outs = EvBatchDone c (counter) followed, for a module context, by
   EvCbResp c (counter) outs (|outs| < batch threshold)).
   A response: the completion and its callback exactly when responses + 1 = requests; the
   outputs are the non-empty outputs of the batch's responses in request-id order, the
   response just accepted included. *)
Theorem C12_callback_respond : forall cfg s r who code out ov ok s',
  wf_cfg cfg -> Inv cfg s -> h_respond cfg s r who code out ov ok = Ok s' ->
  exists rc, get (rid_ctx r) (ctxs s) = Some rc /\
    blog s' =
    (if c_bresp rc + 1 =? c_breq rc
     then (EvBatchDone (rid_ctx r) (c_counter rc)
           :: (if c_mod rc =? 0 then []
               else let outs := batch_outputs
                                  (set_resps s (set r (mkResp who (c_cons rc) code out) (resps s)))
                                  (rid_ctx r) (c_counter rc) in
                    [EvCbResp (rid_ctx r) (c_counter rc) outs (len outs <? c_bthr rc)]))
     else []) ++ blog s.
Proof. exact TraceBatch.C12_callback_respond. Qed.
Print Assumptions C12_callback_respond.

(* the expiry handler: exactly when the batch is not yet completed, with the outputs of the
   responses stored at that moment; plus EvCtxRemoved when the context is finished *)
Theorem C12_callback_expire_one : forall cfg s c rc,
  Inv cfg s -> get c (ctxs s) = Some rc ->
  blog (expire_one cfg s c)
  = (if fin_b rc then [EvCtxRemoved c] else [])
    ++ (if c_bdone rc then []
        else EvBatchDone c (c_counter rc)
             :: (if c_mod rc =? 0 then []
                 else let outs := batch_outputs s c (c_counter rc) in
                      [EvCbResp c (c_counter rc) outs (len outs <? c_bthr rc)]))
    ++ blog s.
Proof. exact TraceBatch.C12_callback_expire_one. Qed.
Print Assumptions C12_callback_expire_one.

(* no other message emits a batch-level event, except the creation event *)
Theorem C12_callback_msg_other : forall cfg s o s',
  wf_cfg cfg -> Inv cfg s -> wf_op s o -> (forall dt, o <> OEndBlock dt) ->
  handle cfg s o = Ok s' ->
  (forall r who code out ov ok, o <> ORespond r who code out ov ok) ->
  blog s' = blog s
  \/ exists c, blog s' = EvCtxCreated c :: blog s.
Proof. exact TraceBatch.C12_callback_msg_other. Qed.
Print Assumptions C12_callback_msg_other.

(* the new-batch handler: removal (total reached), or one EvBatchStart, or the pause for
   insufficient funds with the state callback iff module context, or nothing *)
Theorem C12_callback_new_one : forall cfg s c rc, get c (ctxs s) = Some rc ->
  (d5 rc = true /\ blog (new_one cfg s c) = EvCtxRemoved c :: blog s)
  \/ (d5 rc = false /\ c_state rc = Running /\ exists n,
        blog (new_one cfg s c) = EvBatchStart c (c_counter rc + 1) (height s) n :: blog s
        /\ get c (ctxs (new_one cfg s c)) = Some (bump rc n))
  \/ (d5 rc = false /\ c_state rc = Running
      /\ blog (new_one cfg s c) = (if c_mod rc =? 0 then [] else [EvCbState c]) ++ blog s
      /\ get c (ctxs (new_one cfg s c)) = Some (paused_ctx rc))
  \/ (c_state rc <> Running /\ blog (new_one cfg s c) = blog s
      /\ get c (ctxs (new_one cfg s c)) = Some rc).
Proof. exact TraceBatch.C12_callback_new_one. Qed.
Print Assumptions C12_callback_new_one.

(* the state callback (ncbstate c s = number of EvCbState c in log s) is emitted exactly when
   the new-batch handler pauses a running MODULE context (for insufficient funds: the only
   transition Running -> Paused it makes), once; by no message and not by the expiry handler *)
Theorem C12_state_callback : forall cfg,
  wf_cfg cfg ->
  (forall s o s' c, Inv cfg s -> wf_op s o -> (forall dt, o <> OEndBlock dt) ->
     handle cfg s o = Ok s' -> ncbstate c s' = ncbstate c s)
  /\ (forall s c0 c, Inv cfg s -> In (height s, c0) (expq s) -> height s < HEIGHT_BOUND ->
        ncbstate c (expire_one cfg s c0) = ncbstate c s)
  /\ (forall s c0 rc c, Inv cfg s -> In (height s, c0) (newq s) -> get c0 (ctxs s) = Some rc ->
        let s' := new_one cfg s c0 in
        let paused_now :=
          is_state rc Running
          && match get c0 (ctxs s') with Some rc' => is_state rc' Paused | None => false end in
        ncbstate c s' = ncbstate c s
                        + (if eqb c c0 && paused_now && negb (c_mod rc =? 0) then 1 else 0)).
Proof. exact TraceBatch.C12_state_callback. Qed.
Print Assumptions C12_state_callback.

(* ---- the threshold a response callback is judged by ----
   The callback's error flag is `len outs <? c_bthr rc` (C12_callback_respond, C12_callback_expire_one):
   the PER-BATCH threshold.  It is written only when a batch starts, as a copy of the context's threshold
   in force then (C12_completion_new_one, C06_batch_threshold); nothing else touches it, while the
   context's own threshold changes only by the owning module's keeper.UpdateRequestContext. *)

(* no message and no keeper call changes the per-batch threshold; only OModUpdate changes the
   context's threshold: to the positive value asked for, at most the number of providers afterwards *)
Theorem C12_batch_threshold_msg : forall cfg s o s' c rc rc',
  wf_cfg cfg -> Inv cfg s -> wf_op s o -> (forall dt, o <> OEndBlock dt) ->
  handle cfg s o = Ok s' ->
  get c (ctxs s) = Some rc -> get c (ctxs s') = Some rc' ->
  c_bthr rc' = c_bthr rc
  /\ (c_thr rc' <> c_thr rc ->
        exists provs thr cap timeout freq total,
          o = OModUpdate c (c_cons rc) provs thr cap timeout freq total /\ c_mod rc <> 0
          /\ c_thr rc' = thr /\ 1 <= thr <= len (c_provs rc')).
Proof. exact ThrProofs.C12_batch_threshold_msg. Qed.
Print Assumptions C12_batch_threshold_msg.

(* the expiry handler (which emits the callback of a batch that times out) touches neither threshold *)
Theorem C12_batch_threshold_expire_one : forall cfg s c c' rc rc',
  wf_cfg cfg -> Inv cfg s -> In (height s, c) (expq s) -> height s < HEIGHT_BOUND ->
  get c' (ctxs s) = Some rc -> get c' (ctxs (expire_one cfg s c)) = Some rc' ->
  c_thr rc' = c_thr rc /\ c_bthr rc' = c_bthr rc.
Proof. exact ThrProofs.C12_batch_threshold_expire_one. Qed.
Print Assumptions C12_batch_threshold_expire_one.

(* the new-batch handler never changes the context's threshold, and rewrites the per-batch one only
   for the context it starts a batch of: to the context's current threshold *)
Theorem C12_threshold_new_one : forall cfg s c c' rc rc',
  wf_cfg cfg -> Inv cfg s -> In (height s, c) (newq s) -> height s < HEIGHT_BOUND ->
  get c' (ctxs s) = Some rc -> get c' (ctxs (new_one cfg s c)) = Some rc' ->
  c_thr rc' = c_thr rc
  /\ (c_bthr rc' <> c_bthr rc -> c' = c /\ c_counter rc' = c_counter rc + 1 /\ c_bthr rc' = c_thr rc).
Proof. exact ThrProofs.C12_threshold_new_one. Qed.
Print Assumptions C12_threshold_new_one.

(* ------------------------------------------------------------------------------------------
   History level (Proofs/GapC12.v).
     issue_in c n e / respond_in c n e   e is an EvIssue / EvRespond of a request of batch n of c
     count f l                           number of elements of l satisfying f (TraceBase.count)
   ------------------------------------------------------------------------------------------ *)

(* ---- counts tied to the trace ----
   "the recorded request count equals the number of requests issued and the recorded response
   count equals the number of responses accepted": for every existing context -- while the batch
   is in flight, after its records have been cleaned, and when the context was paused for funds
   (counter not advanced) -- the counts of the record are the numbers of issue / response events
   of the CURRENT batch in the log of the whole history; no event of a later batch exists; the
   batch start event announces the request count *)
Theorem C12_counts_trace : forall cfg s c rc,
  wf_cfg cfg -> Reach cfg s -> get c (ctxs s) = Some rc ->
  c_breq rc = count (issue_in c (c_counter rc)) (log s)
  /\ c_bresp rc = count (respond_in c (c_counter rc)) (log s)
  /\ (forall n, c_counter rc < n ->
        count (issue_in c n) (log s) = 0 /\ count (respond_in c n) (log s) = 0)
  /\ (1 <= c_counter rc -> exists h, In (EvBatchStart c (c_counter rc) h (c_breq rc)) (log s)).
Proof. exact GapC12.counts_trace. Qed.
Print Assumptions C12_counts_trace.

(* a context id the host never handed out has no issue and no response event *)
Theorem C12_fresh_no_events : forall cfg s c, wf_cfg cfg -> Reach cfg s -> ctx_fresh s c ->
  forall n, count (issue_in c n) (log s) = 0 /\ count (respond_in c n) (log s) = 0.
Proof. exact GapC12.fresh_no_events. Qed.
Print Assumptions C12_fresh_no_events.

(* messages other than a response leave the batch bookkeeping of every context alone
   (corollary of C09_transition_msg, restated here so that the counts facet is self-contained) *)
Theorem C12_msg_keeps_bookkeeping : forall cfg s o s' c rc rc',
  wf_cfg cfg -> Inv cfg s -> wf_op s o -> (forall dt, o <> OEndBlock dt) ->
  handle cfg s o = Ok s' ->
  (forall r who code out ov ok, o <> ORespond r who code out ov ok) ->
  get c (ctxs s) = Some rc -> get c (ctxs s') = Some rc' ->
  c_counter rc' = c_counter rc /\ c_breq rc' = c_breq rc /\ c_bresp rc' = c_bresp rc
  /\ c_bthr rc' = c_bthr rc /\ c_bdone rc' = c_bdone rc.
Proof. exact GapC12.msg_keeps_bookkeeping. Qed.
Print Assumptions C12_msg_keeps_bookkeeping.

(* ---- the arguments of the response callback, for every callback event of a reachable log ----
   EvRespond events do not carry the output, so the outputs cannot be read off the log alone.  The
   theorem produces the moment of the callback instead: a state s0 satisfying the invariant, whose
   log is a suffix of the final log, in which the completing operation started -- either the last
   response r of the batch (accepted in s0: stored, active, sent by its provider; responses + 1 =
   requests; its EvRespond follows in the log) or the expiry handler of c (entry due in s0) -- with
   the record rc of the context then:
     - batch n is the current, unfinished batch of a module context, expiry pending, n >= 1;
     - it was started with c_breq rc requests (the EvBatchStart event), all of them issued;
     - the responses accepted so far for it are exactly the ones stored in s0, c_bresp rc of them,
       one per EvRespond event of the batch;
     - outs = the non-empty outputs (batch_outputs: request-id order) of the stored responses of
       the batch, the one just arriving included;
     - err <-> fewer outputs than the per-batch threshold c_bthr rc (the copy of the context's
       threshold taken when the batch started: C12_threshold_new_one, C12_batch_threshold_msg) *)
Theorem C12_callback_args : forall cfg s c n outs err,
  wf_cfg cfg -> Reach cfg s -> In (EvCbResp c n outs err) (log s) ->
  exists s0 rc d,
    Inv cfg s0 /\ log s = d ++ log s0
    /\ get c (ctxs s0) = Some rc /\ c_counter rc = n /\ 1 <= n /\ c_mod rc <> 0 /\ c_bdone rc = false
    /\ has c (expq_h s0) = true
    /\ (exists h, In (EvBatchStart c n h (c_breq rc)) (log s0))
    /\ c_breq rc = count (issue_in c n) (log s0)
    /\ len (filter (in_batch c n) (keys (resps s0))) = c_bresp rc
    /\ c_bresp rc = count (respond_in c n) (log s0)
    /\ err = (len outs <? c_bthr rc)
    /\ ((exists r q who code out,
           get r (reqs s0) = Some q /\ r_active q = true /\ who = r_prov q
           /\ in_batch c n r = true /\ get r (resps s0) = None
           /\ c_bresp rc + 1 = c_breq rc /\ In (EvRespond r) d
           /\ outs = batch_outputs (set_resps s0 (set r (mkResp who (c_cons rc) code out) (resps s0))) c n)
        \/ (In (height s0, c) (expq s0) /\ outs = batch_outputs s0 c n)).
Proof. exact GapC12.callback_args. Qed.
Print Assumptions C12_callback_args.

(* batch_outputs unfolded: an output is handed over iff it is the non-empty output of a stored
   response of the batch; at most one output per stored response *)
Theorem C12_batch_outputs_spec : forall s c n o, wf (resps s) ->
  In o (batch_outputs s c n) <->
  o <> 0 /\ exists r x, get r (resps s) = Some x /\ in_batch c n r = true /\ rs_out x = o.
Proof. exact GapC12.batch_outputs_In. Qed.
Print Assumptions C12_batch_outputs_spec.

Theorem C12_batch_outputs_length : forall s c n,
  len (batch_outputs s c n) <= len (filter (in_batch c n) (keys (resps s))).
Proof. exact GapC12.len_batch_outputs_le. Qed.
Print Assumptions C12_batch_outputs_length.

(* what follows for the log alone: only non-empty outputs, at most one per response accepted for
   the batch, at most as many as the batch start announced, which were all issued *)
Theorem C12_callback_args_log : forall cfg s c n outs err,
  wf_cfg cfg -> Reach cfg s -> In (EvCbResp c n outs err) (log s) ->
  (forall o, In o outs -> o <> 0)
  /\ len outs <= count (respond_in c n) (log s)
  /\ exists h k, In (EvBatchStart c n h k) (log s)
       /\ len outs <= k /\ k <= count (issue_in c n) (log s).
Proof. exact GapC12.callback_args_log. Qed.
Print Assumptions C12_callback_args_log.

(* ---- the cause of the state callback ----
   funds_short s rc :=  let el := filter_providers s rc (c_provs rc) in
       (0 <? len el) && (c_thr rc <=? len el) && negb (c_super rc) && (bal s (User (c_cons rc)) <? sum_prices el)
   i.e. enough eligible providers (>= 1 and >= the threshold), not super mode, and the consumer's
   balance is below the sum of their prices; is_cbstate_any e: e is an EvCbState event.  The new-batch handler, run for a RUNNING
   context below its total (d5 rc = false), pauses the context -- and emits the state callback iff
   it is a module context -- exactly in that case, moving no money; otherwise it starts (or skips)
   batch counter + 1 and emits no state callback *)
Theorem C12_state_callback_cause : forall cfg s c rc,
  get c (ctxs s) = Some rc -> c_state rc = Running -> d5 rc = false ->
  if funds_short s rc
  then get c (ctxs (new_one cfg s c)) = Some (paused_ctx rc)
       /\ log (new_one cfg s c) = (if c_mod rc =? 0 then [] else [EvCbState c]) ++ log s
       /\ bank (new_one cfg s c) = bank s
  else exists k d, get c (ctxs (new_one cfg s c)) = Some (bump rc k)
       /\ log (new_one cfg s c) = d ++ log s /\ (forall e, In e d -> is_cbstate_any e = false).
Proof. exact GapC12.state_callback_cause. Qed.
Print Assumptions C12_state_callback_cause.

Theorem C12_state_callback_iff_funds_short : forall cfg s c rc,
  get c (ctxs s) = Some rc -> c_state rc = Running -> d5 rc = false ->
  forall c', ncbstate c' (new_one cfg s c)
             = ncbstate c' s + (if eqb c' c && funds_short s rc && negb (c_mod rc =? 0) then 1 else 0).
Proof. exact GapC12.state_callback_iff_funds_short. Qed.
Print Assumptions C12_state_callback_iff_funds_short.

(* ---- exactly once, for FINISHED contexts ----
   C12_callback_once compares the batch events with the record of an existing context.  A context
   that was removed (one-shot batch over, total reached, killed) has no record left: it stays
   removed (context ids are never reused), every batch it ever started was completed, exactly
   once, and its response callbacks are one per completion -- or none at all: the log does not say
   whether the context belonged to a module (EvCtxCreated carries no module name) *)
Theorem C12_finished_context_complete : forall cfg s c,
  wf_cfg cfg -> Reach cfg s -> In (EvCtxRemoved c) (log s) ->
  get c (ctxs s) = None
  /\ In (EvCtxCreated c) (log s)
  /\ (forall n, count (is_start c n) (log s) = count (is_done c n) (log s)
                /\ count (is_done c n) (log s) <= 1)
  /\ ((forall n, count (is_cbresp c n) (log s) = count (is_done c n) (log s))
      \/ (forall n, count (is_cbresp c n) (log s) = 0)).
Proof. exact GapC12b.finished_context_complete. Qed.
Print Assumptions C12_finished_context_complete.

(* ---- governance parameter changes inside a history (Model/ParamStep.v, Proofs/ParamChange.v,
   Proofs/ReachPProps.v) ----
   The state-invariant statements above, with `wf_cfg cfg -> Reach cfg s` (parameters fixed along
   the history) replaced by `ReachP cfg s`: initial state; operations under the parameters in
   force; changes to a well-formed parameter set that does not raise the minimum-deposit terms
   nor lower the maximum request timeout (tax, slash fraction, arbitration and complaint periods
   change freely).  cfg is the parameter set in force in s.  Same conclusions. *)

Theorem C12_counts_param_changes :
  forall cfg s, ReachP cfg s -> forall c rc,
  get c (ctxs s) = Some rc ->
  0 <= c_bresp rc <= c_breq rc
  /\ (has c (expq_h s) = true ->
        len (batch_rids s c (c_counter rc)) = c_breq rc
        /\ len (filter (in_batch c (c_counter rc)) (keys (resps s))) = c_bresp rc
        /\ len (active_rids s c (c_counter rc)) = c_breq rc - c_bresp rc)
  /\ (has c (expq_h s) = false ->
        c_bdone rc = true
        /\ forall r, rid_ctx r = c -> get r (reqs s) = None /\ get r (resps s) = None).
Proof. exact ReachPProps.counts_P. Qed.
Print Assumptions C12_counts_param_changes.
