(* C12  Batch bookkeeping and module callbacks are exact.
   Statements only; proofs in Proofs/InvCount.v, Proofs/C12Proofs.v (counts, completion)
   and Proofs/TraceBatch.v (callbacks, over the event log: `log s` is the whole history's
   log, newest first).  The callback of the implementation is modelled as a recorder
   (events EvCbResp / EvCbState); a callback that itself mutates service state is outside
   the model. *)
From Coq Require Import List ZArith Bool.
From SVC Require Import Base.AMap Base.Res Model.Types Model.Handlers Model.EndBlock Model.Step
  Proofs.Inv Proofs.CtxOps Proofs.TraceBase Proofs.C12Proofs.
Import ListNotations.
Open Scope Z_scope.

(* ---- counts ---- *)

(* while a batch's expiry is pending the recorded request / response counts are the numbers
   of stored request / response records of (context, counter), and the number of requests
   still active is their difference; afterwards the records are gone, the batch is completed
   and the counts keep describing the finished batch *)
Theorem C12_counts : forall cfg s c rc,
  wf_cfg cfg -> Reach cfg s -> get c (ctxs s) = Some rc ->
  0 <= c_bresp rc <= c_breq rc
  /\ (has c (expq_h s) = true ->
        len (batch_rids s c (c_counter rc)) = c_breq rc
        /\ len (filter (in_batch c (c_counter rc)) (keys (resps s))) = c_bresp rc
        /\ len (active_rids s c (c_counter rc)) = c_breq rc - c_bresp rc)
  /\ (has c (expq_h s) = false ->
        c_bdone rc = true
        /\ forall r, rid_ctx r = c -> get r (reqs s) = None /\ get r (resps s) = None).
Proof. exact C12Proofs.C12_counts. Qed.
Print Assumptions C12_counts.

(* ---- completion ---- *)

(* a message changes a batch state only by completing it, and only the response that makes
   responses = requests (>= 1) does; every accepted response finds the batch running, below
   its request count, and adds exactly one *)
Theorem C12_completion_msg : forall cfg s o s' c rc rc',
  wf_cfg cfg -> Inv cfg s -> wf_op s o -> (forall dt, o <> OEndBlock dt) ->
  handle cfg s o = Ok s' ->
  get c (ctxs s) = Some rc -> get c (ctxs s') = Some rc' ->
  (c_bdone rc' <> c_bdone rc ->
     c_bdone rc = false /\ c_bdone rc' = true
     /\ 1 <= c_breq rc' /\ c_bresp rc' = c_breq rc' /\ c_bresp rc' = c_bresp rc + 1
     /\ exists r who code out ov ok, o = ORespond r who code out ov ok /\ rid_ctx r = c)
  /\ (forall r who code out ov ok, o = ORespond r who code out ov ok -> rid_ctx r = c ->
        c_bdone rc = false /\ c_bresp rc < c_breq rc /\ c_bresp rc' = c_bresp rc + 1
        /\ c_breq rc' = c_breq rc /\ c_counter rc' = c_counter rc
        /\ (c_bdone rc' = true <-> c_bresp rc + 1 = c_breq rc)).
Proof. exact C12Proofs.C12_completion_msg. Qed.
Print Assumptions C12_completion_msg.

(* else at the expiry: the expiry handler leaves the batch of its context completed, changes
   no other batch state, and no count *)
Theorem C12_completion_expire_one : forall cfg s c,
  wf_cfg cfg -> Inv cfg s -> In (height s, c) (expq s) -> height s < HEIGHT_BOUND ->
  let s' := expire_one cfg s c in
  (forall rc', get c (ctxs s') = Some rc' -> c_bdone rc' = true)
  /\ (forall c' rc rc', get c' (ctxs s) = Some rc -> get c' (ctxs s') = Some rc' ->
        c_bdone rc' <> c_bdone rc -> c' = c /\ c_bdone rc = false /\ c_bdone rc' = true)
  /\ (forall c' rc rc', get c' (ctxs s) = Some rc -> get c' (ctxs s') = Some rc' ->
        c_counter rc' = c_counter rc /\ c_breq rc' = c_breq rc /\ c_bresp rc' = c_bresp rc).
Proof. exact C12Proofs.C12_completion_expire_one. Qed.
Print Assumptions C12_completion_expire_one.

(* a batch is (re)opened only by the new-batch handler, for its own context, only when the
   previous one is completed and nothing is pending; counter + 1, zero responses *)
Theorem C12_completion_new_one : forall cfg s c,
  wf_cfg cfg -> Inv cfg s -> In (height s, c) (newq s) -> height s < HEIGHT_BOUND ->
  let s' := new_one cfg s c in
  forall c' rc rc', get c' (ctxs s) = Some rc -> get c' (ctxs s') = Some rc' ->
    (c_bdone rc' <> c_bdone rc \/ c_counter rc' <> c_counter rc ->
       c' = c /\ has c (expq_h s) = false /\ c_bdone rc = true /\ c_bdone rc' = false
       /\ c_counter rc' = c_counter rc + 1 /\ c_bresp rc' = 0 /\ 0 <= c_breq rc'
       /\ c_bthr rc' = c_thr rc /\ has c (expq_h s') = true)
    /\ (c_bdone rc' = c_bdone rc ->
          c_counter rc' = c_counter rc /\ c_breq rc' = c_breq rc /\ c_bresp rc' = c_bresp rc).
Proof. exact C12Proofs.C12_completion_new_one. Qed.
Print Assumptions C12_completion_new_one.
