(* C12  Batch bookkeeping and module callbacks are exact.
   Statements only; proofs in Proofs/InvCount.v, Proofs/C12Proofs.v (counts, completion)
   and Proofs/TraceBatch.v (callbacks, over the event log: `log s` is the whole history's
   log, newest first).  The callback of the implementation is modelled as a recorder
   (events EvCbResp / EvCbState); a callback that itself mutates service state is outside
   the model. *)
From Coq Require Import List ZArith Bool.
From SVC Require Import Base.AMap Base.Res Model.Types Model.Handlers Model.EndBlock Model.Step
  Proofs.Inv Proofs.CtxOps Proofs.TraceBase Proofs.C12Proofs Proofs.TraceBatch Proofs.ThrProofs.
Import ListNotations.
Open Scope Z_scope.

(* ---- counts ---- *)

(* while a batch's expiry is pending the recorded request / response counts are the numbers
   of stored request / response records of (context, counter), and the number of requests
   still active is their difference; afterwards the records are gone, the batch is completed
   and the counts keep describing the finished batch *)
Theorem C12_counts : forall cfg s c rc,
  wf_cfg cfg -> Reach cfg s -> get c (ctxs s) = Some rc ->
  0 <= c_bresp rc <= c_breq rc
  /\ (has c (expq_h s) = true ->
        len (batch_rids s c (c_counter rc)) = c_breq rc
        /\ len (filter (in_batch c (c_counter rc)) (keys (resps s))) = c_bresp rc
        /\ len (active_rids s c (c_counter rc)) = c_breq rc - c_bresp rc)
  /\ (has c (expq_h s) = false ->
        c_bdone rc = true
        /\ forall r, rid_ctx r = c -> get r (reqs s) = None /\ get r (resps s) = None).
Proof. exact C12Proofs.C12_counts. Qed.
Print Assumptions C12_counts.

(* ---- completion ---- *)

(* a message changes a batch state only by completing it, and only the response that makes
   responses = requests (>= 1) does; every accepted response finds the batch running, below
   its request count, and adds exactly one *)
Theorem C12_completion_msg : forall cfg s o s' c rc rc',
  wf_cfg cfg -> Inv cfg s -> wf_op s o -> (forall dt, o <> OEndBlock dt) ->
  handle cfg s o = Ok s' ->
  get c (ctxs s) = Some rc -> get c (ctxs s') = Some rc' ->
  (c_bdone rc' <> c_bdone rc ->
     c_bdone rc = false /\ c_bdone rc' = true
     /\ 1 <= c_breq rc' /\ c_bresp rc' = c_breq rc' /\ c_bresp rc' = c_bresp rc + 1
     /\ exists r who code out ov ok, o = ORespond r who code out ov ok /\ rid_ctx r = c)
  /\ (forall r who code out ov ok, o = ORespond r who code out ov ok -> rid_ctx r = c ->
        c_bdone rc = false /\ c_bresp rc < c_breq rc /\ c_bresp rc' = c_bresp rc + 1
        /\ c_breq rc' = c_breq rc /\ c_counter rc' = c_counter rc
        /\ (c_bdone rc' = true <-> c_bresp rc + 1 = c_breq rc)).
Proof. exact C12Proofs.C12_completion_msg. Qed.
Print Assumptions C12_completion_msg.

(* else at the expiry: the expiry handler leaves the batch of its context completed, changes
   no other batch state, and no count *)
Theorem C12_completion_expire_one : forall cfg s c,
  wf_cfg cfg -> Inv cfg s -> In (height s, c) (expq s) -> height s < HEIGHT_BOUND ->
  let s' := expire_one cfg s c in
  (forall rc', get c (ctxs s') = Some rc' -> c_bdone rc' = true)
  /\ (forall c' rc rc', get c' (ctxs s) = Some rc -> get c' (ctxs s') = Some rc' ->
        c_bdone rc' <> c_bdone rc -> c' = c /\ c_bdone rc = false /\ c_bdone rc' = true)
  /\ (forall c' rc rc', get c' (ctxs s) = Some rc -> get c' (ctxs s') = Some rc' ->
        c_counter rc' = c_counter rc /\ c_breq rc' = c_breq rc /\ c_bresp rc' = c_bresp rc).
Proof. exact C12Proofs.C12_completion_expire_one. Qed.
Print Assumptions C12_completion_expire_one.

(* a batch is (re)opened only by the new-batch handler, for its own context, only when the
   previous one is completed and nothing is pending; counter + 1, zero responses *)
Theorem C12_completion_new_one : forall cfg s c,
  wf_cfg cfg -> Inv cfg s -> In (height s, c) (newq s) -> height s < HEIGHT_BOUND ->
  let s' := new_one cfg s c in
  forall c' rc rc', get c' (ctxs s) = Some rc -> get c' (ctxs s') = Some rc' ->
    (c_bdone rc' <> c_bdone rc \/ c_counter rc' <> c_counter rc ->
       c' = c /\ has c (expq_h s) = false /\ c_bdone rc = true /\ c_bdone rc' = false
       /\ c_counter rc' = c_counter rc + 1 /\ c_bresp rc' = 0 /\ 0 <= c_breq rc'
       /\ c_bthr rc' = c_thr rc /\ has c (expq_h s') = true)
    /\ (c_bdone rc' = c_bdone rc ->
          c_counter rc' = c_counter rc /\ c_breq rc' = c_breq rc /\ c_bresp rc' = c_bresp rc).
Proof. exact C12Proofs.C12_completion_new_one. Qed.
Print Assumptions C12_completion_new_one.

(* ---- callbacks (trace) ---- *)
(* is_start c n / is_done c n / is_cbresp c n recognise EvBatchStart c n _ _ / EvBatchDone c n /
   EvCbResp c n _ _;  count f l = number of elements of l satisfying f. *)

(* in every reachable state, for every context id (existing or already removed) and batch n:
   at most one start, at most one completion and only of a started batch, at most one
   response callback and only at a completion; per context, either every completion has its
   callback or none has.  For an existing context: callback = completion iff it is a module
   context (none at all otherwise); exactly the batches 1..counter have been started, the
   batches below the counter are completed, the current one iff the record says so. *)
Theorem C12_callback_once : forall cfg s, wf_cfg cfg -> Reach cfg s ->
  forall c,
    (forall n, 0 <= count (is_cbresp c n) (log s) <= count (is_done c n) (log s)
               /\ count (is_done c n) (log s) <= count (is_start c n) (log s)
               /\ count (is_start c n) (log s) <= 1)
    /\ ((forall n, count (is_cbresp c n) (log s) = count (is_done c n) (log s))
        \/ (forall n, count (is_cbresp c n) (log s) = 0))
    /\ (forall rc, get c (ctxs s) = Some rc ->
          (c_mod rc <> 0 -> forall n, count (is_cbresp c n) (log s) = count (is_done c n) (log s))
          /\ (c_mod rc = 0 -> forall n, count (is_cbresp c n) (log s) = 0)
          /\ (forall n, count (is_start c n) (log s)
                        = if (1 <=? n) && (n <=? c_counter rc) then 1 else 0)
          /\ (forall n, 1 <= n < c_counter rc -> count (is_done c n) (log s) = 1)
          /\ (1 <= c_counter rc ->
                count (is_done c (c_counter rc)) (log s) = if c_bdone rc then 1 else 0)).
Proof. exact TraceBatch.C12_callback_once. Qed.
Print Assumptions C12_callback_once.

Theorem C12_callback_iff_done : forall cfg s c rc n, wf_cfg cfg -> Reach cfg s ->
  get c (ctxs s) = Some rc -> c_mod rc <> 0 ->
  ((exists outs err, In (EvCbResp c n outs err) (log s)) <-> In (EvBatchDone c n) (log s))
  /\ count (is_cbresp c n) (log s) <= 1.
Proof. exact TraceBatch.C12_callback_iff_done. Qed.
Print Assumptions C12_callback_iff_done.

Theorem C12_no_callback_nonmodule : forall cfg s c rc, wf_cfg cfg -> Reach cfg s ->
  get c (ctxs s) = Some rc -> c_mod rc = 0 ->
  forall n outs err, ~ In (EvCbResp c n outs err) (log s).
Proof. exact TraceBatch.C12_no_callback_nonmodule. Qed.
Print Assumptions C12_no_callback_nonmodule.

(* what each handler emits, exactly (blog s = the batch-level events of log s, newest first;
   done_events c rc outs = EvBatchDone c (counter) followed, for a module context, by
   EvCbResp c (counter) outs (|outs| < batch threshold)).
   A response: the completion and its callback exactly when responses + 1 = requests; the
   outputs are the non-empty outputs of the batch's responses in request-id order, the
   response just accepted included. *)
Theorem C12_callback_respond : forall cfg s r who code out ov ok s',
  wf_cfg cfg -> Inv cfg s -> h_respond cfg s r who code out ov ok = Ok s' ->
  exists rc, get (rid_ctx r) (ctxs s) = Some rc /\
    blog s' =
    (if c_bresp rc + 1 =? c_breq rc
     then (EvBatchDone (rid_ctx r) (c_counter rc)
           :: (if c_mod rc =? 0 then []
               else let outs := batch_outputs
                                  (set_resps s (set r (mkResp who (c_cons rc) code out) (resps s)))
                                  (rid_ctx r) (c_counter rc) in
                    [EvCbResp (rid_ctx r) (c_counter rc) outs (len outs <? c_bthr rc)]))
     else []) ++ blog s.
Proof. exact TraceBatch.C12_callback_respond. Qed.
Print Assumptions C12_callback_respond.

(* the expiry handler: exactly when the batch is not yet completed, with the outputs of the
   responses stored at that moment; plus EvCtxRemoved when the context is finished *)
Theorem C12_callback_expire_one : forall cfg s c rc,
  Inv cfg s -> get c (ctxs s) = Some rc ->
  blog (expire_one cfg s c)
  = (if fin_b rc then [EvCtxRemoved c] else [])
    ++ (if c_bdone rc then []
        else EvBatchDone c (c_counter rc)
             :: (if c_mod rc =? 0 then []
                 else let outs := batch_outputs s c (c_counter rc) in
                      [EvCbResp c (c_counter rc) outs (len outs <? c_bthr rc)]))
    ++ blog s.
Proof. exact TraceBatch.C12_callback_expire_one. Qed.
Print Assumptions C12_callback_expire_one.

(* no other message emits a batch-level event, except the creation event *)
Theorem C12_callback_msg_other : forall cfg s o s',
  wf_cfg cfg -> Inv cfg s -> wf_op s o -> (forall dt, o <> OEndBlock dt) ->
  handle cfg s o = Ok s' ->
  (forall r who code out ov ok, o <> ORespond r who code out ov ok) ->
  blog s' = blog s
  \/ exists c, blog s' = EvCtxCreated c :: blog s.
Proof. exact TraceBatch.C12_callback_msg_other. Qed.
Print Assumptions C12_callback_msg_other.

(* the new-batch handler: removal (total reached), or one EvBatchStart, or the pause for
   insufficient funds with the state callback iff module context, or nothing *)
Theorem C12_callback_new_one : forall cfg s c rc, get c (ctxs s) = Some rc ->
  (d5 rc = true /\ blog (new_one cfg s c) = EvCtxRemoved c :: blog s)
  \/ (d5 rc = false /\ c_state rc = Running /\ exists n,
        blog (new_one cfg s c) = EvBatchStart c (c_counter rc + 1) (height s) n :: blog s
        /\ get c (ctxs (new_one cfg s c)) = Some (bump rc n))
  \/ (d5 rc = false /\ c_state rc = Running
      /\ blog (new_one cfg s c) = (if c_mod rc =? 0 then [] else [EvCbState c]) ++ blog s
      /\ get c (ctxs (new_one cfg s c)) = Some (paused_ctx rc))
  \/ (c_state rc <> Running /\ blog (new_one cfg s c) = blog s
      /\ get c (ctxs (new_one cfg s c)) = Some rc).
Proof. exact TraceBatch.C12_callback_new_one. Qed.
Print Assumptions C12_callback_new_one.

(* the state callback (ncbstate c s = number of EvCbState c in log s) is emitted exactly when
   the new-batch handler pauses a running MODULE context (for insufficient funds: the only
   transition Running -> Paused it makes), once; by no message and not by the expiry handler *)
Theorem C12_state_callback : forall cfg,
  wf_cfg cfg ->
  (forall s o s' c, Inv cfg s -> wf_op s o -> (forall dt, o <> OEndBlock dt) ->
     handle cfg s o = Ok s' -> ncbstate c s' = ncbstate c s)
  /\ (forall s c0 c, Inv cfg s -> In (height s, c0) (expq s) -> height s < HEIGHT_BOUND ->
        ncbstate c (expire_one cfg s c0) = ncbstate c s)
  /\ (forall s c0 rc c, Inv cfg s -> In (height s, c0) (newq s) -> get c0 (ctxs s) = Some rc ->
        let s' := new_one cfg s c0 in
        let paused_now :=
          is_state rc Running
          && match get c0 (ctxs s') with Some rc' => is_state rc' Paused | None => false end in
        ncbstate c s' = ncbstate c s
                        + (if eqb c c0 && paused_now && negb (c_mod rc =? 0) then 1 else 0)).
Proof. exact TraceBatch.C12_state_callback. Qed.
Print Assumptions C12_state_callback.

(* ---- the threshold a response callback is judged by ----
   The callback's error flag is `len outs <? c_bthr rc` (C12_callback_respond, C12_callback_expire_one):
   the PER-BATCH threshold.  It is written only when a batch starts, as a copy of the context's threshold
   in force then (C12_completion_new_one, C06_batch_threshold); nothing else touches it, while the
   context's own threshold changes only by the owning module's keeper.UpdateRequestContext. *)

(* no message and no keeper call changes the per-batch threshold; only OModUpdate changes the
   context's threshold: to the positive value asked for, at most the number of providers afterwards *)
Theorem C12_batch_threshold_msg : forall cfg s o s' c rc rc',
  wf_cfg cfg -> Inv cfg s -> wf_op s o -> (forall dt, o <> OEndBlock dt) ->
  handle cfg s o = Ok s' ->
  get c (ctxs s) = Some rc -> get c (ctxs s') = Some rc' ->
  c_bthr rc' = c_bthr rc
  /\ (c_thr rc' <> c_thr rc ->
        exists provs thr cap timeout freq total,
          o = OModUpdate c (c_cons rc) provs thr cap timeout freq total /\ c_mod rc <> 0
          /\ c_thr rc' = thr /\ 1 <= thr <= len (c_provs rc')).
Proof. exact ThrProofs.C12_batch_threshold_msg. Qed.
Print Assumptions C12_batch_threshold_msg.

(* the expiry handler (which emits the callback of a batch that times out) touches neither threshold *)
Theorem C12_batch_threshold_expire_one : forall cfg s c c' rc rc',
  wf_cfg cfg -> Inv cfg s -> In (height s, c) (expq s) -> height s < HEIGHT_BOUND ->
  get c' (ctxs s) = Some rc -> get c' (ctxs (expire_one cfg s c)) = Some rc' ->
  c_thr rc' = c_thr rc /\ c_bthr rc' = c_bthr rc.
Proof. exact ThrProofs.C12_batch_threshold_expire_one. Qed.
Print Assumptions C12_batch_threshold_expire_one.

(* the new-batch handler never changes the context's threshold, and rewrites the per-batch one only
   for the context it starts a batch of: to the context's current threshold *)
Theorem C12_threshold_new_one : forall cfg s c c' rc rc',
  wf_cfg cfg -> Inv cfg s -> In (height s, c) (newq s) -> height s < HEIGHT_BOUND ->
  get c' (ctxs s) = Some rc -> get c' (ctxs (new_one cfg s c)) = Some rc' ->
  c_thr rc' = c_thr rc
  /\ (c_bthr rc' <> c_bthr rc -> c' = c /\ c_counter rc' = c_counter rc + 1 /\ c_bthr rc' = c_thr rc).
Proof. exact ThrProofs.C12_threshold_new_one. Qed.
Print Assumptions C12_threshold_new_one.
