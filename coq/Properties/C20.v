(* Property C20 "Block processing is deterministic and cannot crash the chain": the statements.
   Every proof is `exact` of the lemma of the same name in Proofs/NoPanic.v, where the
   predicates used here are defined:
     k1_bound cfg p        pr_price p * p_multiple cfg < INT_LIMIT   (INT_LIMIT = 2^255)
     k1_op cfg s o         exclusion X-K1 for the message o executed in state s
                           (Bind / Update: the price carried; Enable: the stored price)
     k1_in cfg o           X-K1 as a condition on inputs only (Bind / Update)
     I_k1 cfg s            every stored price is k1_bound
     ReachK1 cfg s         reachable through operations that all satisfy wf_op and k1_in
     k1_run, outcomes      side conditions / step outcomes collected along a history
     expire_req_clean cfg s r, expire_loop_clean cfg l s
                           the iteration(s) of EndBlock's expiry loop find the request and its
                           context, slash returns Ok and refund_fee returns Some (nothing is
                           dropped), each iteration taken in the state it actually runs in.
   Known finding K1 is recorded by the three *_refuted theorems: without X-K1 the message
   theorem is false.  EndBlock needs no exclusion.  Byte-level determinism across processes
   is outside Gallina (harness double replay); what is expressible is at the end. *)
From Coq Require Import List ZArith Bool Permutation Sorted.
From SVC Require Import Base.AMap Base.Res Base.Dec Model.Types Model.Pricing Model.Handlers
  Model.EndBlock Model.Step Proofs.Inv.
From SVC Require Proofs.NoPanic.
Import ListNotations.
Open Scope Z_scope.

(* ---- messages ---- *)

Theorem C20_no_panic_msg : forall cfg s o,
  wf_cfg cfg -> Inv cfg s -> wf_op s o -> NoPanic.k1_op cfg s o -> handle cfg s o <> Panic.
Proof. exact NoPanic.C20_no_panic_msg. Qed.
Print Assumptions C20_no_panic_msg.

Theorem C20_no_panic_reach : forall cfg s o,
  wf_cfg cfg -> Reach cfg s -> wf_op s o -> NoPanic.k1_op cfg s o -> snd (step cfg s o) <> RPanic.
Proof. exact NoPanic.C20_no_panic_reach. Qed.
Print Assumptions C20_no_panic_reach.

(* only Bind, Update-with-pricing and Enable need the exclusion *)
Theorem C20_no_panic_no_pricing : forall cfg s o,
  wf_cfg cfg -> Reach cfg s -> wf_op s o ->
  match o with
  | OBind _ _ _ _ _ _ _ | OUpdate _ _ _ (Some _) _ _ _ | OEnable _ _ _ _ _ => False
  | _ => True
  end ->
  snd (step cfg s o) <> RPanic.
Proof. exact NoPanic.C20_no_panic_no_pricing. Qed.
Print Assumptions C20_no_panic_no_pricing.

Theorem C20_I_k1_step : forall cfg s o,
  NoPanic.k1_in cfg o -> NoPanic.I_k1 cfg s -> NoPanic.I_k1 cfg (fst (step cfg s o)).
Proof. exact NoPanic.I_k1_step. Qed.
Print Assumptions C20_I_k1_step.

Theorem C20_ReachK1_I_k1 : forall cfg s, NoPanic.ReachK1 cfg s -> NoPanic.I_k1 cfg s.
Proof. exact NoPanic.ReachK1_I_k1. Qed.
Print Assumptions C20_ReachK1_I_k1.

Theorem C20_ReachK1_Reach : forall cfg s, NoPanic.ReachK1 cfg s -> Reach cfg s.
Proof. exact NoPanic.ReachK1_Reach. Qed.
Print Assumptions C20_ReachK1_Reach.

Theorem C20_k1_in_op : forall cfg s o,
  NoPanic.I_k1 cfg s -> NoPanic.k1_in cfg o -> NoPanic.k1_op cfg s o.
Proof. exact NoPanic.k1_in_op. Qed.
Print Assumptions C20_k1_in_op.

Theorem C20_no_panic_reachK1 : forall cfg s o,
  wf_cfg cfg -> NoPanic.ReachK1 cfg s -> wf_op s o -> NoPanic.k1_in cfg o ->
  snd (step cfg s o) <> RPanic.
Proof. exact NoPanic.C20_no_panic_reachK1. Qed.
Print Assumptions C20_no_panic_reachK1.

Theorem C20_no_panic_run : forall cfg s ops,
  wf_cfg cfg -> NoPanic.ReachK1 cfg s -> NoPanic.k1_run cfg s ops ->
  ~ In RPanic (NoPanic.outcomes cfg s ops) /\ NoPanic.ReachK1 cfg (run cfg s ops).
Proof. exact NoPanic.C20_no_panic_run. Qed.
Print Assumptions C20_no_panic_run.

(* ---- EndBlock ---- *)

Theorem C20_expire_loop_clean : forall cfg s c n,
  wf_cfg cfg -> Inv cfg s -> NoPanic.expire_loop_clean cfg (active_rids s c n) s.
Proof. exact NoPanic.C20_expire_loop_clean. Qed.
Print Assumptions C20_expire_loop_clean.

Theorem C20_no_panic_endblock : forall cfg s,
  wf_cfg cfg -> Inv cfg s -> height s < HEIGHT_BOUND ->
  forall k c, nth_error (due (expq s) (height s)) k = Some c ->
    let sk := fold_left (expire_one cfg) (firstn k (due (expq s) (height s))) s in
    Inv cfg sk
    /\ In (height sk, c) (expq sk)
    /\ NoPanic.expire_loop_clean cfg (active_rids sk c (c_counter (ctx_or_zero sk c))) sk.
Proof. exact NoPanic.C20_no_panic_endblock. Qed.
Print Assumptions C20_no_panic_endblock.

Theorem C20_endblock_slash_ok : forall cfg s,
  wf_cfg cfg -> Inv cfg s -> height s < HEIGHT_BOUND ->
  forall k c l1 r l2, nth_error (due (expq s) (height s)) k = Some c ->
    let sk := fold_left (expire_one cfg) (firstn k (due (expq s) (height s))) s in
    active_rids sk c (c_counter (ctx_or_zero sk c)) = l1 ++ r :: l2 ->
    let si := fold_left (expire_req cfg) l1 sk in
    exists q rc, get r (reqs si) = Some q /\ r_active q = true /\ get (rid_ctx r) (ctxs si) = Some rc
      /\ (c_super rc = false ->
          exists sa sb, slash cfg si r = Ok sa /\ refund_fee sa r (c_cons rc) (r_fee q) = Some sb).
Proof. exact NoPanic.C20_endblock_slash_ok. Qed.
Print Assumptions C20_endblock_slash_ok.

Theorem C20_endblock_slash_no_panic : forall cfg s c n l1 l2 r,
  wf_cfg cfg -> Inv cfg s -> active_rids s c n = l1 ++ l2 ->
  slash cfg (fold_left (expire_req cfg) l1 s) r <> Panic.
Proof. exact NoPanic.C20_endblock_slash_no_panic. Qed.
Print Assumptions C20_endblock_slash_no_panic.

(* what a clean iteration computes *)
Theorem C20_expire_req_clean_eq : forall cfg s r,
  NoPanic.expire_req_clean cfg s r ->
  exists q rc, get r (reqs s) = Some q /\ get (rid_ctx r) (ctxs s) = Some rc
    /\ ((c_super rc = true /\ expire_req cfg s r = emit (EvExpire r) (deactivate s r))
        \/ (c_super rc = false /\ exists sa sb,
              slash cfg s r = Ok sa /\ refund_fee sa r (c_cons rc) (r_fee q) = Some sb
              /\ expire_req cfg s r = emit (EvExpire r) (deactivate sb r))).
Proof. exact NoPanic.expire_req_clean_eq. Qed.
Print Assumptions C20_expire_req_clean_eq.

(* EndBlock with error propagation (NoPanic.expire_req_strict, expire_one_strict,
   end_block_strict, handle_strict: every lookup, slash and refund of the expiry loop bound in
   the Res monad instead of dropped) returns Ok of exactly the model's EndBlock *)
Theorem C20_end_block_strict : forall cfg s dt,
  wf_cfg cfg -> Inv cfg s -> height s < HEIGHT_BOUND ->
  NoPanic.end_block_strict cfg s dt = Ok (end_block cfg s dt).
Proof. exact NoPanic.C20_end_block_strict. Qed.
Print Assumptions C20_end_block_strict.

Theorem C20_handle_strict : forall cfg s o,
  wf_cfg cfg -> Inv cfg s -> wf_op s o -> NoPanic.handle_strict cfg s o = handle cfg s o.
Proof. exact NoPanic.C20_handle_strict. Qed.
Print Assumptions C20_handle_strict.

Theorem C20_no_panic_strict : forall cfg s o,
  wf_cfg cfg -> Reach cfg s -> wf_op s o -> NoPanic.k1_op cfg s o ->
  NoPanic.handle_strict cfg s o <> Panic.
Proof. exact NoPanic.C20_no_panic_strict. Qed.
Print Assumptions C20_no_panic_strict.

Theorem C20_end_block_never_fails : forall cfg s dt,
  wf_cfg cfg -> Reach cfg s -> wf_op s (OEndBlock dt) ->
  NoPanic.handle_strict cfg s (OEndBlock dt) = Ok (end_block cfg s dt).
Proof. exact NoPanic.C20_end_block_never_fails. Qed.
Print Assumptions C20_end_block_never_fails.

(* ---- known finding K1: the exclusion is necessary ---- *)

Theorem C20_K1_bind_refuted :
  exists cfg s o, wf_cfg cfg /\ Reach cfg s /\ wf_op s o /\ handle cfg s o = Panic.
Proof. exact NoPanic.C20_K1_bind_refuted. Qed.
Print Assumptions C20_K1_bind_refuted.

Theorem C20_K1_bind_witness :
  wf_cfg K1Enable.k1_cfg /\ NoPanic.ReachK1 K1Enable.k1_cfg NoPanic.k1b_s
  /\ wf_op NoPanic.k1b_s NoPanic.k1b_op
  /\ ~ NoPanic.k1_op K1Enable.k1_cfg NoPanic.k1b_s NoPanic.k1b_op
  /\ snd (step K1Enable.k1_cfg NoPanic.k1b_s NoPanic.k1b_op) = RPanic.
Proof. exact NoPanic.C20_K1_bind_witness. Qed.
Print Assumptions C20_K1_bind_witness.

Theorem C20_K1_update_refuted :
  exists cfg s o, wf_cfg cfg /\ Reach cfg s /\ wf_op s o /\ handle cfg s o = Panic.
Proof. exact NoPanic.C20_K1_update_refuted. Qed.
Print Assumptions C20_K1_update_refuted.

Theorem C20_K1_enable_refuted :
  exists cfg s o, wf_cfg cfg /\ Reach cfg s /\ wf_op s o /\ handle cfg s o = Panic.
Proof. exact NoPanic.C20_K1_enable_refuted. Qed.
Print Assumptions C20_K1_enable_refuted.

Theorem C20_K1_enable_witness :
  Reach K1Enable.k1_cfg K1Enable.k1_s /\ ~ NoPanic.I_k1 K1Enable.k1_cfg K1Enable.k1_s
  /\ ~ NoPanic.k1_op K1Enable.k1_cfg K1Enable.k1_s (OEnable 1 7 CEmpty 42 true)
  /\ NoPanic.k1_in K1Enable.k1_cfg (OEnable 1 7 CEmpty 42 true)
  /\ snd (step K1Enable.k1_cfg K1Enable.k1_s (OEnable 1 7 CEmpty 42 true)) = RPanic.
Proof. exact NoPanic.C20_K1_enable_witness. Qed.
Print Assumptions C20_K1_enable_witness.

(* ---- determinism, as far as Gallina can say it ---- *)

Theorem C20_step_deterministic : forall cfg s o r1 r2,
  step cfg s o = r1 -> step cfg s o = r2 -> r1 = r2.
Proof. exact NoPanic.C20_step_deterministic. Qed.
Print Assumptions C20_step_deterministic.

Theorem C20_run_deterministic : forall cfg s ops s1 s2,
  run cfg s ops = s1 -> run cfg s ops = s2 -> s1 = s2.
Proof. exact NoPanic.C20_run_deterministic. Qed.
Print Assumptions C20_run_deterministic.

Theorem C20_due_sorted_perm : forall (q : list (Z * CtxId)) h,
  Permutation (due q h) (map snd (filter (fun e => fst e =? h) q)).
Proof. exact NoPanic.C20_due_sorted_perm. Qed.
Print Assumptions C20_due_sorted_perm.

Theorem C20_due_sorted : forall (q : list (Z * CtxId)) h,
  Sorted (fun a b => ctxid_leb a b = true) (due q h).
Proof. exact NoPanic.C20_due_sorted. Qed.
Print Assumptions C20_due_sorted.

(* the processing order depends only on which entries are queued *)
Theorem C20_due_canonical : forall (q q' : list (Z * CtxId)) h,
  Permutation q q' -> due q h = due q' h.
Proof. exact NoPanic.C20_due_canonical. Qed.
Print Assumptions C20_due_canonical.
