(* Property C20 "Block processing is deterministic and cannot crash the chain": the statements.
   Every proof is `exact` of the lemma of the same name in Proofs/NoPanic.v, where the
   predicates used here are defined:
     k1_bound cfg p        pr_price p * p_multiple cfg < INT_LIMIT   (INT_LIMIT = 2^255)
     k1_op cfg s o         exclusion X-K1 for the message o executed in state s
                           (Bind / Update: the price carried; Enable: the stored price)
     k1_in cfg o           X-K1 as a condition on inputs only (Bind / Update)
     I_k1 cfg s            every stored price is k1_bound
     ReachK1 cfg s         reachable through operations that all satisfy wf_op and k1_in
     k6_op s o             exclusion X-K6 for the message o executed in state s: for
                           Update / Enable of binding (svc, prov) carrying the coins dep,
                             forall b a, get (svc, prov) (binds s) = Some b ->
                               one_base_coin dep = Ok a -> b_deposit b + a < INT_LIMIT
                           (the stored deposit plus the top-up fits an sdk.Int); True otherwise
     k6_in S0 o            X-K6 as a condition on inputs only: for Update / Enable,
                             forall a, one_base_coin dep = Ok a -> S0 + a < INT_LIMIT
                           where S0 is the supply of the genesis state
     ReachS cfg S0 s       (Proofs/SupplyMono.v) Reach that remembers the genesis supply S0
     ReachK1S cfg S0 s     ReachK1 that remembers the genesis supply S0
     k1_run, k16_run, outcomes
                           side conditions / step outcomes collected along a history
     expire_req_clean cfg s r, expire_loop_clean cfg l s
                           the iteration(s) of EndBlock's expiry loop find the request and its
                           context, slash returns Ok and refund_fee returns Some (nothing is
                           dropped), each iteration taken in the state it actually runs in.
   Known finding K1 is recorded by the three C20_K1_*_refuted theorems: without X-K1 the message
   theorem is false.  Known finding K6 (binding.Deposit.Add(deposit...) in UpdateServiceBinding
   and EnableServiceBinding overflows before the owner pays) is recorded by C20_K6_*_refuted /
   C20_K6_*_witness: without X-K6 the message theorem is false, for messages that satisfy X-K1;
   C20_k6_update_sharp / C20_k6_enable_sharp say k6_op is the weakest exclusion.  X-K6 in its
   input form rests on C20_supply_step_le (no operation increases the supply) and on the
   deposits being backed by the supply.  EndBlock needs no exclusion.
   The last section (Proofs/AmountBounds.v) is the support for the census reason "safe because
   backed by the supply": AmountBounds.amounts_below s L (spelled out in C20_amounts_bounded)
   says that every balance, binding deposit, earned-fee record, fee of an active request,
   amount of a successful transfer and partial sum of the prices new_one charges is in [0, L);
   it holds with L = 2^255 in every state reachable from a genesis supply below 2^255,
   including the states inside EndBlock.  Byte-level determinism across processes
   is outside Gallina (harness double replay); what is expressible is at the end. *)
From Coq Require Import List ZArith Bool Permutation Sorted.
From SVC Require Import Base.AMap Base.Res Base.Dec Model.Types Model.Pricing Model.Handlers
  Model.EndBlock Model.Step Proofs.Inv.
From SVC Require Proofs.NoPanic Proofs.SupplyMono Proofs.AmountBounds.
Import ListNotations.
Open Scope Z_scope.

(* ---- messages ---- *)

Theorem C20_no_panic_msg : forall cfg s o,
  wf_cfg cfg -> Inv cfg s -> wf_op s o -> NoPanic.k1_op cfg s o -> NoPanic.k6_op s o ->
  handle cfg s o <> Panic.
Proof. exact NoPanic.C20_no_panic_msg. Qed.
Print Assumptions C20_no_panic_msg.

Theorem C20_no_panic_reach : forall cfg s o,
  wf_cfg cfg -> Reach cfg s -> wf_op s o -> NoPanic.k1_op cfg s o -> NoPanic.k6_op s o ->
  snd (step cfg s o) <> RPanic.
Proof. exact NoPanic.C20_no_panic_reach. Qed.
Print Assumptions C20_no_panic_reach.

(* only Bind, Enable, and an Update that carries a pricing (X-K1) or a deposit top-up (X-K6)
   need an exclusion *)
Theorem C20_no_panic_no_pricing : forall cfg s o,
  wf_cfg cfg -> Reach cfg s -> wf_op s o ->
  match o with
  | OBind _ _ _ _ _ _ _ | OUpdate _ _ _ (Some _) _ _ _ | OEnable _ _ _ _ _ => False
  | OUpdate _ _ dep None _ _ _ => coins_empty dep = true
  | _ => True
  end ->
  snd (step cfg s o) <> RPanic.
Proof. exact NoPanic.C20_no_panic_no_pricing. Qed.
Print Assumptions C20_no_panic_no_pricing.

(* without a top-up X-K6 holds trivially, X-K1 alone suffices *)
Theorem C20_k6_op_no_topup : forall s o,
  match o with
  | OUpdate _ _ dep _ _ _ _ => coins_empty dep = true
  | OEnable _ _ dep _ _ => coins_empty dep = true
  | _ => True
  end -> NoPanic.k6_op s o.
Proof. exact NoPanic.k6_op_no_topup. Qed.
Print Assumptions C20_k6_op_no_topup.

Theorem C20_no_panic_no_topup : forall cfg s o,
  wf_cfg cfg -> Reach cfg s -> wf_op s o -> NoPanic.k1_op cfg s o ->
  match o with
  | OUpdate _ _ dep _ _ _ _ => coins_empty dep = true
  | OEnable _ _ dep _ _ => coins_empty dep = true
  | _ => True
  end ->
  snd (step cfg s o) <> RPanic.
Proof. exact NoPanic.C20_no_panic_no_topup. Qed.
Print Assumptions C20_no_panic_no_topup.

Theorem C20_I_k1_step : forall cfg s o,
  NoPanic.k1_in cfg o -> NoPanic.I_k1 cfg s -> NoPanic.I_k1 cfg (fst (step cfg s o)).
Proof. exact NoPanic.I_k1_step. Qed.
Print Assumptions C20_I_k1_step.

Theorem C20_ReachK1_I_k1 : forall cfg s, NoPanic.ReachK1 cfg s -> NoPanic.I_k1 cfg s.
Proof. exact NoPanic.ReachK1_I_k1. Qed.
Print Assumptions C20_ReachK1_I_k1.

Theorem C20_ReachK1_Reach : forall cfg s, NoPanic.ReachK1 cfg s -> Reach cfg s.
Proof. exact NoPanic.ReachK1_Reach. Qed.
Print Assumptions C20_ReachK1_Reach.

Theorem C20_k1_in_op : forall cfg s o,
  NoPanic.I_k1 cfg s -> NoPanic.k1_in cfg o -> NoPanic.k1_op cfg s o.
Proof. exact NoPanic.k1_in_op. Qed.
Print Assumptions C20_k1_in_op.

Theorem C20_no_panic_reachK1 : forall cfg s o,
  wf_cfg cfg -> NoPanic.ReachK1 cfg s -> wf_op s o -> NoPanic.k1_in cfg o -> NoPanic.k6_op s o ->
  snd (step cfg s o) <> RPanic.
Proof. exact NoPanic.C20_no_panic_reachK1. Qed.
Print Assumptions C20_no_panic_reachK1.

(* ---- X-K6 as a condition on inputs: the supply backs every deposit and never grows ---- *)

Theorem C20_supply_step_le : forall cfg s o, supply (fst (step cfg s o)) <= supply s.
Proof. exact SupplyMono.supply_step_le. Qed.
Print Assumptions C20_supply_step_le.

Theorem C20_Inv_supply_step_le : forall cfg s o,
  wf_cfg cfg -> Inv cfg s -> wf_op s o -> supply (fst (step cfg s o)) <= supply s.
Proof. exact SupplyMono.Inv_supply_step_le. Qed.
Print Assumptions C20_Inv_supply_step_le.

Theorem C20_ReachS_Reach : forall cfg S0 s, SupplyMono.ReachS cfg S0 s -> Reach cfg s.
Proof. exact SupplyMono.ReachS_Reach. Qed.
Print Assumptions C20_ReachS_Reach.

Theorem C20_Reach_ReachS : forall cfg s, Reach cfg s -> exists S0, SupplyMono.ReachS cfg S0 s.
Proof. exact SupplyMono.Reach_ReachS. Qed.
Print Assumptions C20_Reach_ReachS.

Theorem C20_ReachS_supply_le : forall cfg S0 s, SupplyMono.ReachS cfg S0 s -> supply s <= S0.
Proof. exact SupplyMono.ReachS_supply_le. Qed.
Print Assumptions C20_ReachS_supply_le.

Theorem C20_Inv_bal_le_supply : forall cfg s a, Inv cfg s -> 0 <= bal s a <= supply s.
Proof. exact SupplyMono.Inv_bal_le_supply. Qed.
Print Assumptions C20_Inv_bal_le_supply.

Theorem C20_Inv_deposit_le_supply : forall cfg s k b,
  Inv cfg s -> get k (binds s) = Some b ->
  0 <= b_deposit b <= bal s Deposit /\ bal s Deposit <= supply s.
Proof. exact SupplyMono.Inv_deposit_le_supply. Qed.
Print Assumptions C20_Inv_deposit_le_supply.

Theorem C20_k6_in_op : forall cfg S0 s o,
  SupplyMono.ReachS cfg S0 s -> NoPanic.k6_in S0 o -> NoPanic.k6_op s o.
Proof. exact NoPanic.k6_in_op. Qed.
Print Assumptions C20_k6_in_op.

Theorem C20_ReachK1S_ReachK1 : forall cfg S0 s, NoPanic.ReachK1S cfg S0 s -> NoPanic.ReachK1 cfg s.
Proof. exact NoPanic.ReachK1S_ReachK1. Qed.
Print Assumptions C20_ReachK1S_ReachK1.

Theorem C20_ReachK1S_ReachS : forall cfg S0 s,
  NoPanic.ReachK1S cfg S0 s -> SupplyMono.ReachS cfg S0 s.
Proof. exact NoPanic.ReachK1S_ReachS. Qed.
Print Assumptions C20_ReachK1S_ReachS.

Theorem C20_ReachK1_ReachK1S : forall cfg s,
  NoPanic.ReachK1 cfg s -> exists S0, NoPanic.ReachK1S cfg S0 s.
Proof. exact NoPanic.ReachK1_ReachK1S. Qed.
Print Assumptions C20_ReachK1_ReachK1S.

(* both exclusions as conditions on the inputs *)
Theorem C20_no_panic_reachK1S : forall cfg S0 s o,
  wf_cfg cfg -> NoPanic.ReachK1S cfg S0 s -> wf_op s o -> NoPanic.k1_in cfg o ->
  NoPanic.k6_in S0 o -> snd (step cfg s o) <> RPanic.
Proof. exact NoPanic.C20_no_panic_reachK1S. Qed.
Print Assumptions C20_no_panic_reachK1S.

Theorem C20_ReachK1_run : forall cfg s ops,
  NoPanic.ReachK1 cfg s -> NoPanic.k1_run cfg s ops -> NoPanic.ReachK1 cfg (run cfg s ops).
Proof. exact NoPanic.ReachK1_run. Qed.
Print Assumptions C20_ReachK1_run.

Theorem C20_no_panic_run : forall cfg S0 s ops,
  wf_cfg cfg -> NoPanic.ReachK1S cfg S0 s -> NoPanic.k16_run cfg S0 s ops ->
  ~ In RPanic (NoPanic.outcomes cfg s ops) /\ NoPanic.ReachK1S cfg S0 (run cfg s ops).
Proof. exact NoPanic.C20_no_panic_run. Qed.
Print Assumptions C20_no_panic_run.

(* ---- EndBlock ---- *)

Theorem C20_expire_loop_clean : forall cfg s c n,
  wf_cfg cfg -> Inv cfg s -> NoPanic.expire_loop_clean cfg (active_rids s c n) s.
Proof. exact NoPanic.C20_expire_loop_clean. Qed.
Print Assumptions C20_expire_loop_clean.

Theorem C20_no_panic_endblock : forall cfg s,
  wf_cfg cfg -> Inv cfg s -> height s < HEIGHT_BOUND ->
  forall k c, nth_error (due (expq s) (height s)) k = Some c ->
    let sk := fold_left (expire_one cfg) (firstn k (due (expq s) (height s))) s in
    Inv cfg sk
    /\ In (height sk, c) (expq sk)
    /\ NoPanic.expire_loop_clean cfg (active_rids sk c (c_counter (ctx_or_zero sk c))) sk.
Proof. exact NoPanic.C20_no_panic_endblock. Qed.
Print Assumptions C20_no_panic_endblock.

Theorem C20_endblock_slash_ok : forall cfg s,
  wf_cfg cfg -> Inv cfg s -> height s < HEIGHT_BOUND ->
  forall k c l1 r l2, nth_error (due (expq s) (height s)) k = Some c ->
    let sk := fold_left (expire_one cfg) (firstn k (due (expq s) (height s))) s in
    active_rids sk c (c_counter (ctx_or_zero sk c)) = l1 ++ r :: l2 ->
    let si := fold_left (expire_req cfg) l1 sk in
    exists q rc, get r (reqs si) = Some q /\ r_active q = true /\ get (rid_ctx r) (ctxs si) = Some rc
      /\ (c_super rc = false ->
          exists sa sb, slash cfg si r = Ok sa /\ refund_fee sa r (c_cons rc) (r_fee q) = Some sb).
Proof. exact NoPanic.C20_endblock_slash_ok. Qed.
Print Assumptions C20_endblock_slash_ok.

Theorem C20_endblock_slash_no_panic : forall cfg s c n l1 l2 r,
  wf_cfg cfg -> Inv cfg s -> active_rids s c n = l1 ++ l2 ->
  slash cfg (fold_left (expire_req cfg) l1 s) r <> Panic.
Proof. exact NoPanic.C20_endblock_slash_no_panic. Qed.
Print Assumptions C20_endblock_slash_no_panic.

(* what a clean iteration computes *)
Theorem C20_expire_req_clean_eq : forall cfg s r,
  NoPanic.expire_req_clean cfg s r ->
  exists q rc, get r (reqs s) = Some q /\ get (rid_ctx r) (ctxs s) = Some rc
    /\ ((c_super rc = true /\ expire_req cfg s r = emit (EvExpire r) (deactivate s r))
        \/ (c_super rc = false /\ exists sa sb,
              slash cfg s r = Ok sa /\ refund_fee sa r (c_cons rc) (r_fee q) = Some sb
              /\ expire_req cfg s r = emit (EvExpire r) (deactivate sb r))).
Proof. exact NoPanic.expire_req_clean_eq. Qed.
Print Assumptions C20_expire_req_clean_eq.

(* EndBlock with error propagation (NoPanic.expire_req_strict, expire_one_strict,
   end_block_strict, handle_strict: every lookup, slash and refund of the expiry loop bound in
   the Res monad instead of dropped) returns Ok of exactly the model's EndBlock *)
Theorem C20_end_block_strict : forall cfg s dt,
  wf_cfg cfg -> Inv cfg s -> height s < HEIGHT_BOUND ->
  NoPanic.end_block_strict cfg s dt = Ok (end_block cfg s dt).
Proof. exact NoPanic.C20_end_block_strict. Qed.
Print Assumptions C20_end_block_strict.

Theorem C20_handle_strict : forall cfg s o,
  wf_cfg cfg -> Inv cfg s -> wf_op s o -> NoPanic.handle_strict cfg s o = handle cfg s o.
Proof. exact NoPanic.C20_handle_strict. Qed.
Print Assumptions C20_handle_strict.

Theorem C20_no_panic_strict : forall cfg s o,
  wf_cfg cfg -> Reach cfg s -> wf_op s o -> NoPanic.k1_op cfg s o -> NoPanic.k6_op s o ->
  NoPanic.handle_strict cfg s o <> Panic.
Proof. exact NoPanic.C20_no_panic_strict. Qed.
Print Assumptions C20_no_panic_strict.

Theorem C20_end_block_never_fails : forall cfg s dt,
  wf_cfg cfg -> Reach cfg s -> wf_op s (OEndBlock dt) ->
  NoPanic.handle_strict cfg s (OEndBlock dt) = Ok (end_block cfg s dt).
Proof. exact NoPanic.C20_end_block_never_fails. Qed.
Print Assumptions C20_end_block_never_fails.

(* ---- known finding K1: the exclusion is necessary ---- *)

Theorem C20_K1_bind_refuted :
  exists cfg s o, wf_cfg cfg /\ Reach cfg s /\ wf_op s o /\ handle cfg s o = Panic.
Proof. exact NoPanic.C20_K1_bind_refuted. Qed.
Print Assumptions C20_K1_bind_refuted.

Theorem C20_K1_bind_witness :
  wf_cfg K1Enable.k1_cfg /\ NoPanic.ReachK1 K1Enable.k1_cfg NoPanic.k1b_s
  /\ wf_op NoPanic.k1b_s NoPanic.k1b_op
  /\ ~ NoPanic.k1_op K1Enable.k1_cfg NoPanic.k1b_s NoPanic.k1b_op
  /\ snd (step K1Enable.k1_cfg NoPanic.k1b_s NoPanic.k1b_op) = RPanic.
Proof. exact NoPanic.C20_K1_bind_witness. Qed.
Print Assumptions C20_K1_bind_witness.

Theorem C20_K1_update_refuted :
  exists cfg s o, wf_cfg cfg /\ Reach cfg s /\ wf_op s o /\ handle cfg s o = Panic.
Proof. exact NoPanic.C20_K1_update_refuted. Qed.
Print Assumptions C20_K1_update_refuted.

Theorem C20_K1_enable_refuted :
  exists cfg s o, wf_cfg cfg /\ Reach cfg s /\ wf_op s o /\ handle cfg s o = Panic.
Proof. exact NoPanic.C20_K1_enable_refuted. Qed.
Print Assumptions C20_K1_enable_refuted.

Theorem C20_K1_enable_witness :
  Reach K1Enable.k1_cfg K1Enable.k1_s /\ ~ NoPanic.I_k1 K1Enable.k1_cfg K1Enable.k1_s
  /\ ~ NoPanic.k1_op K1Enable.k1_cfg K1Enable.k1_s (OEnable 1 7 CEmpty 42 true)
  /\ NoPanic.k1_in K1Enable.k1_cfg (OEnable 1 7 CEmpty 42 true)
  /\ snd (step K1Enable.k1_cfg K1Enable.k1_s (OEnable 1 7 CEmpty 42 true)) = RPanic.
Proof. exact NoPanic.C20_K1_enable_witness. Qed.
Print Assumptions C20_K1_enable_witness.

(* ---- known finding K6: the exclusion is necessary ---- *)

(* a message that reaches binding.Deposit.Add and violates k6_op panics *)
Theorem C20_k6_update_sharp : forall cfg s svc prov dep pr qos owner b a,
  get (svc, prov) (binds s) = Some b -> (b_owner b =? owner) = true ->
  (qos =? 0) || (qos <=? p_max_timeout cfg) = true ->
  one_base_coin dep = Ok a -> INT_LIMIT <= b_deposit b + a ->
  h_update cfg s svc prov dep pr qos owner true = Panic.
Proof. exact NoPanic.h_update_k6_sharp. Qed.
Print Assumptions C20_k6_update_sharp.

Theorem C20_k6_enable_sharp : forall cfg s svc prov dep owner b a,
  get (svc, prov) (binds s) = Some b -> (b_owner b =? owner) = true -> b_avail b = false ->
  one_base_coin dep = Ok a -> INT_LIMIT <= b_deposit b + a ->
  h_enable cfg s svc prov dep owner true = Panic.
Proof. exact NoPanic.h_enable_k6_sharp. Qed.
Print Assumptions C20_k6_enable_sharp.

Theorem C20_K6_update_refuted :
  exists cfg s o, wf_cfg cfg /\ Reach cfg s /\ wf_op s o /\ NoPanic.k1_op cfg s o
    /\ handle cfg s o = Panic.
Proof. exact NoPanic.C20_K6_update_refuted. Qed.
Print Assumptions C20_K6_update_refuted.

(* k1u_s: one binding (1, 7) with deposit 5000 after Define, Bind; genesis supply 100000;
   k6u_op = OUpdate 1 7 (CBase (2^255 - 1)) None 0 42 true *)
Theorem C20_K6_update_witness :
  wf_cfg K1Enable.k1_cfg /\ NoPanic.ReachK1S K1Enable.k1_cfg 100000 NoPanic.k1u_s
  /\ wf_op NoPanic.k1u_s NoPanic.k6u_op
  /\ NoPanic.k1_in K1Enable.k1_cfg NoPanic.k6u_op
  /\ NoPanic.k1_op K1Enable.k1_cfg NoPanic.k1u_s NoPanic.k6u_op
  /\ ~ NoPanic.k6_in 100000 NoPanic.k6u_op /\ ~ NoPanic.k6_op NoPanic.k1u_s NoPanic.k6u_op
  /\ snd (step K1Enable.k1_cfg NoPanic.k1u_s NoPanic.k6u_op) = RPanic.
Proof. exact NoPanic.C20_K6_update_witness. Qed.
Print Assumptions C20_K6_update_witness.

Theorem C20_K6_enable_refuted :
  exists cfg s o, wf_cfg cfg /\ Reach cfg s /\ wf_op s o /\ NoPanic.k1_op cfg s o
    /\ handle cfg s o = Panic.
Proof. exact NoPanic.C20_K6_enable_refuted. Qed.
Print Assumptions C20_K6_enable_refuted.

(* k6e_s: the same binding after Disable; k6e_op = OEnable 1 7 (CBase (2^255 - 1)) 42 true *)
Theorem C20_K6_enable_witness :
  wf_cfg K1Enable.k1_cfg /\ NoPanic.ReachK1S K1Enable.k1_cfg 100000 NoPanic.k6e_s
  /\ wf_op NoPanic.k6e_s NoPanic.k6e_op
  /\ NoPanic.k1_in K1Enable.k1_cfg NoPanic.k6e_op
  /\ NoPanic.k1_op K1Enable.k1_cfg NoPanic.k6e_s NoPanic.k6e_op
  /\ ~ NoPanic.k6_in 100000 NoPanic.k6e_op /\ ~ NoPanic.k6_op NoPanic.k6e_s NoPanic.k6e_op
  /\ snd (step K1Enable.k1_cfg NoPanic.k6e_s NoPanic.k6e_op) = RPanic.
Proof. exact NoPanic.C20_K6_enable_witness. Qed.
Print Assumptions C20_K6_enable_witness.

(* ---- determinism, as far as Gallina can say it ---- *)

Theorem C20_step_deterministic : forall cfg s o r1 r2,
  step cfg s o = r1 -> step cfg s o = r2 -> r1 = r2.
Proof. exact NoPanic.C20_step_deterministic. Qed.
Print Assumptions C20_step_deterministic.

Theorem C20_run_deterministic : forall cfg s ops s1 s2,
  run cfg s ops = s1 -> run cfg s ops = s2 -> s1 = s2.
Proof. exact NoPanic.C20_run_deterministic. Qed.
Print Assumptions C20_run_deterministic.

Theorem C20_due_sorted_perm : forall (q : list (Z * CtxId)) h,
  Permutation (due q h) (map snd (filter (fun e => fst e =? h) q)).
Proof. exact NoPanic.C20_due_sorted_perm. Qed.
Print Assumptions C20_due_sorted_perm.

Theorem C20_due_sorted : forall (q : list (Z * CtxId)) h,
  Sorted (fun a b => ctxid_leb a b = true) (due q h).
Proof. exact NoPanic.C20_due_sorted. Qed.
Print Assumptions C20_due_sorted.

(* the processing order depends only on which entries are queued *)
Theorem C20_due_canonical : forall (q q' : list (Z * CtxId)) h,
  Permutation q q' -> due q h = due q' h.
Proof. exact NoPanic.C20_due_canonical. Qed.
Print Assumptions C20_due_canonical.

(* ---- amounts are backed by the supply (support for the census) ---- *)

(* AmountBounds.amounts_below s INT_LIMIT, spelled out *)
Theorem C20_amounts_bounded : forall cfg S0 s,
  wf_cfg cfg -> SupplyMono.ReachS cfg S0 s -> S0 < INT_LIMIT ->
  (forall a, 0 <= bal s a < INT_LIMIT)
  /\ (forall k b, get k (binds s) = Some b -> 0 <= b_deposit b < INT_LIMIT)
  /\ (forall p, 0 <= get0 p (earned s) < INT_LIMIT)
  /\ (forall o, 0 <= get0 o (own_earned s) < INT_LIMIT)
  /\ (forall r q, get r (reqs s) = Some q -> r_active q = true -> 0 <= r_fee q < INT_LIMIT)
  /\ (forall a b amt x, transfer a b amt s = Some x -> 0 <= amt < INT_LIMIT)
  /\ (forall c x l1 l2,
        let rc := ctx_or_zero s c in
        let el := filter_providers s rc (c_provs rc) in
        transfer (User (c_cons rc)) Escrow (sum_prices el) s = Some x ->
        el = l1 ++ l2 ->
        0 <= sum_prices l1 < INT_LIMIT /\ 0 <= sum_prices l2 < INT_LIMIT
        /\ 0 <= sum_prices el < INT_LIMIT).
Proof. exact AmountBounds.C20_amounts_bounded. Qed.
Print Assumptions C20_amounts_bounded.

Theorem C20_Inv_amounts_below : forall cfg s L,
  Inv cfg s -> supply s < L -> AmountBounds.amounts_below s L.
Proof. exact AmountBounds.Inv_amounts_below. Qed.
Print Assumptions C20_Inv_amounts_below.

(* the states in which EndBlock runs expire_one / new_one for the k-th due context *)
Theorem C20_amounts_bounded_endblock : forall cfg S0 s,
  wf_cfg cfg -> SupplyMono.ReachS cfg S0 s -> S0 < INT_LIMIT -> height s < HEIGHT_BOUND ->
  let s1 := fold_left (expire_one cfg) (due (expq s) (height s)) s in
  (forall k, AmountBounds.amounts_below
               (fold_left (expire_one cfg) (firstn k (due (expq s) (height s))) s) INT_LIMIT)
  /\ (forall k, AmountBounds.amounts_below
               (fold_left (new_one cfg) (firstn k (due (newq s1) (height s1))) s1) INT_LIMIT).
Proof. exact AmountBounds.C20_amounts_bounded_endblock. Qed.
Print Assumptions C20_amounts_bounded_endblock.

(* the states between two expire_req of the loop over one expiring batch *)
Theorem C20_amounts_bounded_expire_loop : forall cfg S0 s c n l1 l2,
  wf_cfg cfg -> SupplyMono.ReachS cfg S0 s -> S0 < INT_LIMIT -> active_rids s c n = l1 ++ l2 ->
  AmountBounds.amounts_below (fold_left (expire_req cfg) l1 s) INT_LIMIT.
Proof. exact AmountBounds.C20_amounts_bounded_expire_loop. Qed.
Print Assumptions C20_amounts_bounded_expire_loop.

Theorem C20_Inv_inside_new_phase : forall cfg s,
  wf_cfg cfg -> Inv cfg s -> height s < HEIGHT_BOUND ->
  forall k, Inv cfg (fold_left (new_one cfg) (firstn k (due (newq s) (height s))) s).
Proof. exact AmountBounds.Inv_inside_new_phase. Qed.
Print Assumptions C20_Inv_inside_new_phase.

(* ------------------------------------------------------------------ *)
(* representation independence (Proofs/GapC20.v): EndBlock's result does not depend on the order in
   which the two queues are held (the code iterates store ranges, the model keeps lists), post-processing
   that only emits events (the providerRequests grouping of abci.go) cannot change any balance or record,
   and the genesis import does not depend on the order of the withdraw-address and context lists.
   QEq s s' : s and s' are the same state up to a permutation of expq and newq. *)
From SVC Require Import Model.Genesis.
From SVC Require Proofs.GapC20 Proofs.GenesisProofs.

Theorem C20_end_block_queue_order_irrelevant : forall (cfg : Params) (s s' : State) (dt : Z),
  GapC20.QEq s s' -> GapC20.QEq (end_block cfg s dt) (end_block cfg s' dt).
Proof. exact GapC20.C20_end_block_queue_order_irrelevant. Qed.
Print Assumptions C20_end_block_queue_order_irrelevant.

Theorem C20_end_block_permuted : forall (cfg : Params) (s : State) (dt : Z) (e n : list (Z * CtxId)),
  Permutation (expq s) e -> Permutation (newq s) n ->
  let a := end_block cfg s dt in
  let b := end_block cfg (set_newq (set_expq s e) n) dt in
  ctxs b = ctxs a /\ reqs b = reqs a /\ resps b = resps a /\ binds b = binds a /\ bank b = bank a
  /\ supply b = supply a /\ earned b = earned a /\ own_earned b = own_earned a /\ vols b = vols a
  /\ expq_h b = expq_h a /\ newq_h b = newq_h a /\ log b = log a /\ height b = height a /\ time b = time a
  /\ Permutation (expq a) (expq b) /\ Permutation (newq a) (newq b).
Proof. exact GapC20.C20_end_block_permuted. Qed.
Print Assumptions C20_end_block_permuted.

Theorem C20_grouping_irrelevant : forall (cfg : Params) (s : State) (dt : Z) (evs evs' : list Event),
  Permutation evs evs' ->
  let a := GapC20.emit_all evs (end_block cfg s dt) in
  let b := GapC20.emit_all evs' (end_block cfg s dt) in
  set_log a (log (end_block cfg s dt)) = end_block cfg s dt
  /\ set_log b (log (end_block cfg s dt)) = end_block cfg s dt
  /\ (forall x : Acct, bal a x = bal b x) /\ bank a = bank b /\ ctxs a = ctxs b /\ reqs a = reqs b
  /\ Permutation (log a) (log b).
Proof. exact GapC20.C20_grouping_irrelevant. Qed.
Print Assumptions C20_grouping_irrelevant.

Theorem C20_import_order_irrelevant : forall (h t : Z) (g g' : Genesis),
  GenesisProofs.genesis_wf g -> g_params g' = g_params g -> g_defs g' = g_defs g -> g_binds g' = g_binds g ->
  Permutation (g_wd g) (g_wd g') -> Permutation (g_ctxs g) (g_ctxs g') ->
  let a := import_genesis h t g in
  let b := import_genesis h t g' in
  (forall o : Z, get o (wdaddr b) = get o (wdaddr a)) /\ (forall c : CtxId, get c (ctxs b) = get c (ctxs a))
  /\ defs b = defs a /\ binds b = binds a /\ pricing b = pricing a
  /\ owner_of b = owner_of a /\ own_prov b = own_prov a /\ own_bind b = own_bind a.
Proof. exact GapC20.C20_import_order_irrelevant. Qed.
Print Assumptions C20_import_order_irrelevant.

(* ------------------------------------------------------------------------------------------
   Known finding K3 inside the model (DESIGN.md 12.10). `XCallMod` (Model/ModSvc.v) is the
   module-service branch of MsgCallService, executed by `xstep` on top of `pstep`; exclusion
   X-K3 is "the history contains no XCallMod" (`k3_free`).  The statements below are refuted /
   proved in Proofs/K3.v on concrete reachable witnesses (corpus history W10) by vm_compute. *)
From Coq Require Import List ZArith Bool Lia.
From SVC Require Import Base.AMap Base.Res Base.Dec Model.Types Model.Pricing Model.Handlers Model.EndBlock Model.Step Model.ParamStep Model.ModSvc Model.Genesis Proofs.Inv Proofs.ParamChange Proofs.K3.
Import ListNotations.
Open Scope Z_scope.

Theorem C20_K3_withdraw_panics_refuted :
  exists
           (cfg : Params) (h0 t0 : Z) (f : list (Z * Z)) (ops : list XOp) (cfg' : Params) 
         (s : State) (owner prov : Z),
           wf_cfg cfg /\
           1 <= h0 /\
           0 <= t0 /\
           wf_funding f /\
           xrun (cfg, init h0 t0 f) ops = (cfg', s) /\ handle cfg' s (OWithdraw owner prov true) = Panic.
Proof. exact K3.K3_withdraw_panics_refuted. Qed.
Print Assumptions C20_K3_withdraw_panics_refuted.
