(* C05  Only the rightful party can act, and a message debits only its signer.
   Statements only; the proofs are in Proofs/StepSpecs_auth.v, which also defines
     signer o       the account whose signature the message o carries (None for a definition,
                    a call from another module, the keeper API driven by the module that owns a
                    context -- OModUpdate / OModPause / OModStart / OModKill -- and EndBlock),
     rightful cfg s o   who may send o in state s (binding owner; owner of the provider;
                    consumer of a context no module owns; provider of the active request;
                    for the four keeper-API ops: the consumer named is the context's own),
     max_debit o    the deposit a bind/update/enable adds, the amount a transfer sends, else 0. *)
From Coq Require Import List ZArith Bool.
From SVC Require Import Base.AMap Base.Res Base.Dec Model.Types Model.Pricing
  Model.Handlers Model.EndBlock Model.Step Proofs.Inv Proofs.StepSpecs_auth
  Proofs.TraceLemmas Proofs.TraceSettle Proofs.GapC05.
Import ListNotations.
Open Scope Z_scope.

(* ---- authority: a message succeeds only if its signer is the rightful party ---- *)

Theorem C05_auth_update : forall cfg s svc prov dep pr qos owner ok s',
  handle cfg s (OUpdate svc prov dep pr qos owner ok) = Ok s' ->
  exists b, get (svc, prov) (binds s) = Some b /\ b_owner b = owner.
Proof. exact StepSpecs_auth.C05_auth_update. Qed.
Print Assumptions C05_auth_update.

Theorem C05_auth_disable : forall cfg s svc prov owner ok s',
  handle cfg s (ODisable svc prov owner ok) = Ok s' ->
  exists b, get (svc, prov) (binds s) = Some b /\ b_owner b = owner.
Proof. exact StepSpecs_auth.C05_auth_disable. Qed.
Print Assumptions C05_auth_disable.

Theorem C05_auth_enable : forall cfg s svc prov dep owner ok s',
  handle cfg s (OEnable svc prov dep owner ok) = Ok s' ->
  exists b, get (svc, prov) (binds s) = Some b /\ b_owner b = owner.
Proof. exact StepSpecs_auth.C05_auth_enable. Qed.
Print Assumptions C05_auth_enable.

Theorem C05_auth_refund_deposit : forall cfg s svc prov owner ok s',
  handle cfg s (ORefundDep svc prov owner ok) = Ok s' ->
  exists b, get (svc, prov) (binds s) = Some b /\ b_owner b = owner.
Proof. exact StepSpecs_auth.C05_auth_refund_deposit. Qed.
Print Assumptions C05_auth_refund_deposit.

(* binding a provider that already belongs to another owner is rejected *)
Theorem C05_auth_bind_foreign_provider_rejected : forall cfg s svc prov dep pr qos owner ok o',
  get prov (owner_of s) = Some o' -> o' <> owner ->
  handle cfg s (OBind svc prov dep pr qos owner ok) = Err
  /\ step cfg s (OBind svc prov dep pr qos owner ok) = (s, RErr).
Proof. exact StepSpecs_auth.C05_auth_bind_foreign_provider_rejected. Qed.
Print Assumptions C05_auth_bind_foreign_provider_rejected.

(* binding the service reserved by a module is rejected *)
Theorem C05_bind_module_service_rejected : forall cfg s svc prov dep pr qos owner ok,
  svc = p_modsvc cfg ->
  handle cfg s (OBind svc prov dep pr qos owner ok) = Err
  /\ step cfg s (OBind svc prov dep pr qos owner ok) = (s, RErr).
Proof. exact StepSpecs_auth.C05_bind_module_service_rejected. Qed.
Print Assumptions C05_bind_module_service_rejected.

Theorem C05_auth_bind : forall cfg s svc prov dep pr qos owner ok s',
  handle cfg s (OBind svc prov dep pr qos owner ok) = Ok s' ->
  svc <> p_modsvc cfg /\ (forall o', get prov (owner_of s) = Some o' -> o' = owner).
Proof. exact StepSpecs_auth.C05_auth_bind. Qed.
Print Assumptions C05_auth_bind.

Theorem C05_auth_withdraw_provider : forall cfg s owner prov ok s',
  handle cfg s (OWithdraw owner prov ok) = Ok s' -> prov <> 0 ->
  get prov (owner_of s) = Some owner.
Proof. exact StepSpecs_auth.C05_auth_withdraw_provider. Qed.
Print Assumptions C05_auth_withdraw_provider.

Theorem C05_auth_respond : forall cfg s r who code out out_valid ok s',
  handle cfg s (ORespond r who code out out_valid ok) = Ok s' ->
  exists q, get r (reqs s) = Some q /\ who = r_prov q /\ r_active q = true.
Proof. exact StepSpecs_auth.C05_auth_respond. Qed.
Print Assumptions C05_auth_respond.

(* pause / start / kill / update: the consumer of the context, and never for a context
   created by another module (c_mod rc = 0) *)
Theorem C05_auth_pause : forall cfg s c who ok s',
  handle cfg s (OPause c who ok) = Ok s' ->
  exists rc, get c (ctxs s) = Some rc /\ c_cons rc = who /\ c_mod rc = 0.
Proof. exact StepSpecs_auth.C05_auth_pause. Qed.
Print Assumptions C05_auth_pause.

Theorem C05_auth_start : forall cfg s c who ok s',
  handle cfg s (OStart c who ok) = Ok s' ->
  exists rc, get c (ctxs s) = Some rc /\ c_cons rc = who /\ c_mod rc = 0.
Proof. exact StepSpecs_auth.C05_auth_start. Qed.
Print Assumptions C05_auth_start.

Theorem C05_auth_kill : forall cfg s c who ok s',
  handle cfg s (OKill c who ok) = Ok s' ->
  exists rc, get c (ctxs s) = Some rc /\ c_cons rc = who /\ c_mod rc = 0.
Proof. exact StepSpecs_auth.C05_auth_kill. Qed.
Print Assumptions C05_auth_kill.

Theorem C05_auth_update_ctx : forall cfg s c who provs cap timeout freq total ok s',
  handle cfg s (OUpdateCtx c who provs cap timeout freq total ok) = Ok s' ->
  exists rc, get c (ctxs s) = Some rc /\ c_cons rc = who /\ c_mod rc = 0.
Proof. exact StepSpecs_auth.C05_auth_update_ctx. Qed.
Print Assumptions C05_auth_update_ctx.

(* the keeper API driven by the module that owns the context (CheckAuthority(..., false)): the
   context exists and the consumer the module names is the context's own.  These ops carry no
   signature (signer = None), so by C05_only_signer_debited they lower no ordinary account. *)
Theorem C05_auth_mod_update : forall cfg s c who provs thr cap timeout freq total s',
  handle cfg s (OModUpdate c who provs thr cap timeout freq total) = Ok s' ->
  exists rc, get c (ctxs s) = Some rc /\ c_cons rc = who.
Proof. exact StepSpecs_auth.C05_auth_mod_update. Qed.
Print Assumptions C05_auth_mod_update.

Theorem C05_auth_mod_pause : forall cfg s c who s',
  handle cfg s (OModPause c who) = Ok s' ->
  exists rc, get c (ctxs s) = Some rc /\ c_cons rc = who.
Proof. exact StepSpecs_auth.C05_auth_mod_pause. Qed.
Print Assumptions C05_auth_mod_pause.

Theorem C05_auth_mod_start : forall cfg s c who s',
  handle cfg s (OModStart c who) = Ok s' ->
  exists rc, get c (ctxs s) = Some rc /\ c_cons rc = who.
Proof. exact StepSpecs_auth.C05_auth_mod_start. Qed.
Print Assumptions C05_auth_mod_start.

Theorem C05_auth_mod_kill : forall cfg s c who s',
  handle cfg s (OModKill c who) = Ok s' ->
  exists rc, get c (ctxs s) = Some rc /\ c_cons rc = who.
Proof. exact StepSpecs_auth.C05_auth_mod_kill. Qed.
Print Assumptions C05_auth_mod_kill.

(* all message kinds at once *)
Theorem C05_authority : forall cfg s o s', handle cfg s o = Ok s' -> rightful cfg s o.
Proof. exact StepSpecs_auth.C05_authority. Qed.
Print Assumptions C05_authority.

(* a message not sent by the rightful party fails and changes nothing *)
Theorem C05_wrong_signer_no_effect : forall cfg s o,
  ~ rightful cfg s o -> fst (step cfg s o) = s /\ snd (step cfg s o) <> ROk.
Proof. exact StepSpecs_auth.C05_wrong_signer_no_effect. Qed.
Print Assumptions C05_wrong_signer_no_effect.

(* ---- debits ---- *)

(* no message lowers the balance of an ordinary account other than its signer's
   (in any state: no invariant is needed) *)
Theorem C05_only_signer_debited : forall cfg s o s',
  (forall dt, o <> OEndBlock dt) -> handle cfg s o = Ok s' ->
  forall a, Some a <> signer o -> bal s (User a) <= bal s' (User a).
Proof. exact StepSpecs_auth.C05_only_signer_debited. Qed.
Print Assumptions C05_only_signer_debited.

(* the signer loses at most the deposit it adds or the amount it sends *)
Theorem C05_signer_debit_bound : forall cfg s o s' a,
  (forall dt, o <> OEndBlock dt) -> handle cfg s o = Ok s' -> signer o = Some a ->
  0 <= max_debit o /\ bal s (User a) - max_debit o <= bal s' (User a).
Proof. exact StepSpecs_auth.C05_signer_debit_bound. Qed.
Print Assumptions C05_signer_debit_bound.

(* every message other than bind / update / enable / transfer lowers no ordinary account *)
Theorem C05_no_debit : forall cfg s o s',
  (forall dt, o <> OEndBlock dt) -> handle cfg s o = Ok s' -> max_debit o = 0 ->
  forall a, bal s (User a) <= bal s' (User a).
Proof. exact StepSpecs_auth.C05_no_debit. Qed.
Print Assumptions C05_no_debit.

(* EndBlock, per context: the expiry handler lowers no ordinary account; the new-batch
   handler lowers at most the consumer of a running, non-super context *)
Theorem C05_expire_one_no_debit : forall cfg s c a,
  bal s (User a) <= bal (expire_one cfg s c) (User a).
Proof. exact StepSpecs_auth.C05_expire_one_no_debit. Qed.
Print Assumptions C05_expire_one_no_debit.

Theorem C05_new_one_debits : forall cfg s c a,
  bal (new_one cfg s c) (User a) < bal s (User a) ->
  a = c_cons (ctx_or_zero s c) /\ c_state (ctx_or_zero s c) = Running
  /\ c_super (ctx_or_zero s c) = false.
Proof. exact StepSpecs_auth.C05_new_one_debits. Qed.
Print Assumptions C05_new_one_debits.

(* EndBlock lowers only consumers of running, non-super contexts whose new-batch entry is
   due in this block (queued for this height, or re-queued for it by the expiry of the
   previous batch of a repeated context with frequency = timeout) *)
Theorem C05_endblock_debits : forall cfg s dt a,
  wf_cfg cfg -> Inv cfg s -> height s < HEIGHT_BOUND ->
  bal (end_block cfg s dt) (User a) < bal s (User a) ->
  exists c rc, get c (ctxs s) = Some rc /\ c_cons rc = a /\ c_state rc = Running
    /\ c_super rc = false
    /\ (In (height s, c) (newq s)
        \/ (In (height s, c) (expq s) /\ c_rep rc = true /\ c_freq rc = c_timeout rc)).
Proof. exact StepSpecs_auth.C05_endblock_debits. Qed.
Print Assumptions C05_endblock_debits.

(* every step of a reachable state: whose balance may fall, and why *)
Theorem C05_step_debits : forall cfg s o a,
  wf_cfg cfg -> Reach cfg s -> wf_op s o ->
  bal (fst (step cfg s o)) (User a) < bal s (User a) ->
  (signer o = Some a /\ rightful cfg s o /\ 0 < max_debit o /\ snd (step cfg s o) = ROk
   /\ bal s (User a) - max_debit o <= bal (fst (step cfg s o)) (User a))
  \/ ((exists dt, o = OEndBlock dt)
      /\ exists c rc, get c (ctxs s) = Some rc /\ c_cons rc = a /\ c_state rc = Running
           /\ c_super rc = false
           /\ (In (height s, c) (newq s)
               \/ (In (height s, c) (expq s) /\ c_rep rc = true /\ c_freq rc = c_timeout rc))).
Proof. exact StepSpecs_auth.C05_step_debits. Qed.
Print Assumptions C05_step_debits.

(* ------------------------------------------------------------------ *)
(* gap closing (audit C05, facet 8) *)

(* EndBlock lowers the balance of an ordinary account only for a batch it ISSUES in that block:
   if the balance of a fell, the events the block appended (the log is newest first) contain a
   debit EvDebit c a amt with 0 < amt, immediately followed (newer) by the issue events evs of
   one batch n of context c and by that batch's EvBatchStart, where every event of evs is an
   EvIssue (c, n, height s, i) p a f -- a request of this batch, of this block, charged to a --
   their fees sum to amt, and there is at least one.
   issue_of c n h cons e := exists i p f, e = EvIssue (c, n, h, i) p cons f
   issue_fees evs        := sum of the fees of the EvIssue events of evs *)
Theorem C05_endblock_debit_issued : forall cfg s dt a,
  wf_cfg cfg -> Reach cfg s -> wf_op s (OEndBlock dt) ->
  bal (end_block cfg s dt) (User a) < bal s (User a) ->
  exists c amt n evs d1 d2,
    log (end_block cfg s dt)
      = d1 ++ (EvBatchStart c n (height s) (len evs) :: evs ++ [EvDebit c a amt]) ++ d2 ++ log s
    /\ Forall (issue_of c n (height s) a) evs /\ issue_fees evs = amt
    /\ 0 < amt /\ 0 < len evs.
Proof. exact GapC05.endblock_debit_issued. Qed.
Print Assumptions C05_endblock_debit_issued.

(* the same for one run of the new-batch handler, in any state satisfying the invariant *)
Theorem C05_new_one_debit_issued : forall cfg s c a,
  Inv cfg s -> In (height s, c) (newq s) ->
  bal (new_one cfg s c) (User a) < bal s (User a) ->
  exists rc amt n evs,
    get c (ctxs s) = Some rc /\ c_cons rc = a /\ c_super rc = false
    /\ log (new_one cfg s c) = EvBatchStart c n (height s) (len evs) :: evs ++ EvDebit c a amt :: log s
    /\ Forall (issue_of c n (height s) a) evs /\ issue_fees evs = amt
    /\ 0 < amt /\ 0 < len evs /\ n = c_counter rc + 1.
Proof. exact GapC05.new_one_debit_shape. Qed.
Print Assumptions C05_new_one_debit_issued.

(* the keeper API driven by the owning module, stated with its real scope (the Go keeper checks
   the consumer only when the context carries a module name; wf_op excludes calls aimed at a
   context without one): C05_auth_mod_* above hold for the model without this hypothesis, the
   Go code matches them only under it *)
Theorem C05_auth_mod_scoped : forall cfg s o c who s',
  (exists provs thr cap timeout freq total, o = OModUpdate c who provs thr cap timeout freq total)
  \/ o = OModPause c who \/ o = OModStart c who \/ o = OModKill c who ->
  wf_op s o -> handle cfg s o = Ok s' ->
  exists rc, get c (ctxs s) = Some rc /\ c_mod rc <> 0 /\ c_cons rc = who.
Proof. exact GapC05.auth_mod_scoped. Qed.
Print Assumptions C05_auth_mod_scoped.

(* withdrawing (one provider, or "all my providers" with prov = 0) changes only earned-fee
   records of providers owned by the signer *)
Theorem C05_withdraw_touches_own : forall cfg s owner prov ok s' p,
  Inv cfg s -> h_withdraw s owner prov ok = Ok s' ->
  get p (earned s') <> get p (earned s) -> get p (owner_of s) = Some owner.
Proof. exact GapC05.withdraw_touches_own. Qed.
Print Assumptions C05_withdraw_touches_own.
