(* C04  Providers are slashed exactly when they fail a request.
   Statements only; the proofs are in Proofs/TraceLemmas.v, Proofs/TraceSettle.v
   (trace part) and Proofs/StepSpecs_deposit.v, Proofs/BankLemmas.v (effect of one slash).
   Vocabulary: see Properties/C02.v. *)
From Coq Require Import List ZArith Bool.
From SVC Require Import Base.AMap Base.Res Base.Dec Model.Types Model.Pricing
  Model.Handlers Model.EndBlock Model.Step Proofs.Inv Proofs.BankLemmas Proofs.StepSpecs_deposit
  Proofs.TraceLemmas Proofs.TraceSettle Proofs.DecProofs Proofs.GapC02 Proofs.GapC02b Proofs.GapC03 Proofs.GapC04 Proofs.GapC02c Proofs.GapC04b Proofs.GapC03c.
Import ListNotations.
Open Scope Z_scope.

(* at most one slash per request, and exactly as many slashes as refunds *)
Theorem C04_slash_at_most_once : forall cfg s r, wf_cfg cfg -> Reach cfg s ->
  (count (is_slash r) (log s) <= 1)%nat /\ count (is_slash r) (log s) = count (is_refund r) (log s).
Proof. exact TraceSettle.slash_at_most_once. Qed.
Print Assumptions C04_slash_at_most_once.

(* never for any other reason: a slash of r is in the log only together with the refund of
   r's fee and either r's time-out (r issued with a positive fee, i.e. not in super mode,
   never answered) or r's accepted response (malformed output: no earnings, no expiry) *)
Theorem C04_slash_only_when_failing : forall cfg s r k amt, wf_cfg cfg -> Reach cfg s ->
  In (EvSlash r k amt) (log s) ->
  exists p cons fee, In (EvIssue r p cons fee) (log s) /\ In (EvRefund r cons fee) (log s)
    /\ ((In (EvExpire r) (log s) /\ 0 < fee /\ count (is_respond r) (log s) = 0%nat)
        \/ (In (EvRespond r) (log s) /\ count (is_expire r) (log s) = 0%nat
            /\ count (is_earn r) (log s) = 0%nat)).
Proof. exact TraceSettle.slash_only_when_failing. Qed.
Print Assumptions C04_slash_only_when_failing.

(* conversely (NOT partial: the slash call of the expiry loop cannot fail, see
   C04_expire_req_events): every time-out of a request issued with a positive fee has its
   slash and its refund; a time-out of a fee-0 (super mode) request has neither *)
Theorem C04_expiry_slashes : forall cfg s r p cons fee, wf_cfg cfg -> Reach cfg s ->
  In (EvExpire r) (log s) -> In (EvIssue r p cons fee) (log s) ->
  (0 < fee -> (exists k amt, In (EvSlash r k amt) (log s)) /\ In (EvRefund r cons fee) (log s)
              /\ counts r (log s) = (1, 0, 0, 0, 1, 1, 1)%nat)
  /\ (fee = 0 -> counts r (log s) = (1, 0, 0, 0, 0, 0, 1)%nat).
Proof. exact TraceSettle.expiry_slashes. Qed.
Print Assumptions C04_expiry_slashes.

(* one call of keeper.Slash: amount = floor(deposit at that moment x slash fraction); the
   binding's deposit, the deposit account and the supply each fall by it *)
Theorem C04_slash_amount : forall cfg s r s1, slash cfg s r = Ok s1 ->
  exists q rc b b',
    let k := (c_svc rc, r_prov q) in
    let amt := mul_trunc (b_deposit b) (p_slash cfg) in
    get r (reqs s) = Some q /\ get (rid_ctx r) (ctxs s) = Some rc
    /\ get k (binds s) = Some b /\ get k (binds s1) = Some b'
    /\ log s1 = EvSlash r k amt :: log s
    /\ 0 <= amt <= b_deposit b
    /\ b_deposit b' = b_deposit b - amt
    /\ bal s1 Deposit = bal s Deposit - amt
    /\ supply s1 = supply s - amt
    /\ (forall a, a <> Deposit -> bal s1 a = bal s a).
Proof. exact TraceSettle.slash_amount. Qed.
Print Assumptions C04_slash_amount.

(* the expiry handler on one still-active request, in any state of the expiry loop
   (LI = I_wf, BDM, I_index, J, T; it holds where the loop starts: C04_LI_start, and is
   kept by the loop: C04_LI_loop): in super mode only the expiry; otherwise the slash
   call returns Ok, then the whole fee is refunded to the context's consumer *)
Theorem C04_expire_req_events : forall cfg s r q rc,
  wf_cfg cfg -> LI cfg s ->
  get r (reqs s) = Some q -> r_active q = true -> get (rid_ctx r) (ctxs s) = Some rc ->
  has (c_svc rc, r_prov q) (binds s) = true ->
  if c_super rc then log (expire_req cfg s r) = EvExpire r :: log s
  else exists k amt sa,
    slash cfg s r = Ok sa /\ log sa = EvSlash r k amt :: log s
    /\ log (expire_req cfg s r) = EvExpire r :: EvRefund r (c_cons rc) (r_fee q) :: EvSlash r k amt :: log s.
Proof. exact TraceSettle.expire_req_events. Qed.
Print Assumptions C04_expire_req_events.

Theorem C04_LI_start : forall cfg s, wf_cfg cfg -> Reach cfg s -> LI cfg s.
Proof. exact TraceSettle.reach_LI. Qed.
Print Assumptions C04_LI_start.

Theorem C04_LI_loop : forall cfg l s,
  wf_cfg cfg -> NoDup l -> LI cfg s ->
  (forall r, In r l -> exists q rc, get r (reqs s) = Some q /\ r_active q = true
      /\ get (rid_ctx r) (ctxs s) = Some rc /\ (c_super rc = true -> r_fee q = 0)
      /\ has (c_svc rc, r_prov q) (binds s) = true) ->
  LI cfg (fold_left (expire_req cfg) l s).
Proof. exact TraceSettle.fold_expire_LI. Qed.
Print Assumptions C04_LI_loop.

(* ---- the exact effect of one slash (Proofs/StepSpecs_deposit.v) ---- *)

Theorem C04_slash_effect : forall cfg s r s1,
  slash cfg s r = Ok s1 ->
  exists q rc b,
    get r (reqs s) = Some q /\ get (rid_ctx r) (ctxs s) = Some rc
    /\ get (c_svc rc, r_prov q) (binds s) = Some b
    /\ 0 <= mul_trunc (b_deposit b) (p_slash cfg) <= b_deposit b
    /\ mul_trunc (b_deposit b) (p_slash cfg) <= bal s Deposit
    /\ (b_avail b = true -> pr_price (pricing_of s (c_svc rc, r_prov q)) * p_multiple cfg < INT_LIMIT)
    /\ s1 = emit (EvSlash r (c_svc rc, r_prov q) (mul_trunc (b_deposit b) (p_slash cfg)))
             (put_binding
                (set_supply
                   (set_bank s (set Deposit (bal s Deposit - mul_trunc (b_deposit b) (p_slash cfg)) (bank s)))
                   (supply s - mul_trunc (b_deposit b) (p_slash cfg)))
                (c_svc rc, r_prov q)
                (slashed_binding cfg s (c_svc rc, r_prov q) b)).
Proof. exact StepSpecs_deposit.C04_slash_effect. Qed.
Print Assumptions C04_slash_effect.

Theorem C04_slash_fields : forall cfg s r s1,
  slash cfg s r = Ok s1 ->
  exists q rc b b',
    let k := (c_svc rc, r_prov q) in
    let amt := mul_trunc (b_deposit b) (p_slash cfg) in
    get r (reqs s) = Some q /\ get (rid_ctx r) (ctxs s) = Some rc
    /\ get k (binds s) = Some b /\ get k (binds s1) = Some b'
    /\ 0 <= amt <= b_deposit b
    /\ b_deposit b' = b_deposit b - amt
    /\ b_owner b' = b_owner b /\ b_raw b' = b_raw b /\ b_qos b' = b_qos b
    /\ bal s1 Deposit = bal s Deposit - amt
    /\ (forall a, a <> Deposit -> bal s1 a = bal s a)
    /\ supply s1 = supply s - amt
    /\ (forall k', k' <> k -> get k' (binds s1) = get k' (binds s))
    /\ pricing s1 = pricing s /\ reqs s1 = reqs s /\ ctxs s1 = ctxs s
    /\ time s1 = time s /\ height s1 = height s
    /\ log s1 = EvSlash r k amt :: log s.
Proof. exact StepSpecs_deposit.C04_slash_fields. Qed.
Print Assumptions C04_slash_fields.

(* C14: a slash clears `available` (with the block time as disabling time) iff it was set
   and the remaining deposit is below the minimum for the binding's price *)
Theorem C14_slash_disables : forall cfg s r s1,
  slash cfg s r = Ok s1 ->
  exists q rc b b',
    let k := (c_svc rc, r_prov q) in
    get r (reqs s) = Some q /\ get (rid_ctx r) (ctxs s) = Some rc
    /\ get k (binds s) = Some b /\ get k (binds s1) = Some b'
    /\ b_deposit b' = b_deposit b - mul_trunc (b_deposit b) (p_slash cfg)
    /\ (b_avail b' = true <->
          b_avail b = true /\ min_dep_val cfg (pricing_of s1 k) <= b_deposit b')
    /\ (b_avail b = true -> b_avail b' = false -> b_dtime b' = time s)
    /\ (b_avail b' = b_avail b -> b_dtime b' = b_dtime b).
Proof. exact StepSpecs_deposit.C14_slash_disables. Qed.
Print Assumptions C14_slash_disables.

(* ------------------------------------------------------------------ *)
(* gap closing (audit C04, section (d)) *)

(* an accepted response is slashed iff its output is non-empty and fails the schema -- in super
   mode as well; the slash events among the events d appended by the step are then exactly the
   one slash of the binding (service of the context, provider of the request) by the fraction of
   its deposit at that moment, and deposit, supply and custody account fall by that amount;
   otherwise the step appends no slash event and touches neither bindings nor supply.
   is_any_slash e := e is an EvSlash;  dep_at s k := deposit recorded on binding k (0 if absent) *)
Theorem C04_respond_slash_iff : forall cfg s r who code out ov ok s',
  handle cfg s (ORespond r who code out ov ok) = Ok s' ->
  exists d, log s' = d ++ log s /\
    if negb (out =? 0) && negb ov
    then exists sa q rc,
         slash cfg s r = Ok sa /\ get r (reqs s) = Some q /\ get (rid_ctx r) (ctxs s) = Some rc
         /\ who = r_prov q
         /\ has (c_svc rc, r_prov q) (binds s) = true
         /\ filter is_any_slash d
            = [EvSlash r (c_svc rc, r_prov q)
                 (mul_trunc (dep_at s (c_svc rc, r_prov q)) (p_slash cfg))]
         /\ 0 <= mul_trunc (dep_at s (c_svc rc, r_prov q)) (p_slash cfg) <= dep_at s (c_svc rc, r_prov q)
         /\ dep_at s' (c_svc rc, r_prov q)
            = dep_at s (c_svc rc, r_prov q) - mul_trunc (dep_at s (c_svc rc, r_prov q)) (p_slash cfg)
         /\ (forall k, k <> (c_svc rc, r_prov q) -> get k (binds s') = get k (binds s))
         /\ supply s' = supply s - mul_trunc (dep_at s (c_svc rc, r_prov q)) (p_slash cfg)
         /\ bal s' Deposit = bal s Deposit - mul_trunc (dep_at s (c_svc rc, r_prov q)) (p_slash cfg)
    else filter is_any_slash d = [] /\ binds s' = binds s /\ supply s' = supply s
         /\ bal s' Deposit = bal s Deposit.
Proof. exact GapC02.respond_slash_iff. Qed.
Print Assumptions C04_respond_slash_iff.

(* "times out" by heights: a request still active when the EndBlock of its expiry height runs
   is expired in that EndBlock (EvExpire among the events appended); outside super mode the
   binding (service of the context, provider of the request) is slashed exactly once and the fee
   refunded; in super mode there is no slash *)
Theorem C04_timeout_is_slashed : forall cfg s dt r q rc,
  wf_cfg cfg -> Reach cfg s -> wf_op s (OEndBlock dt) ->
  get r (reqs s) = Some q -> r_active q = true -> r_exp q = height s ->
  get (rid_ctx r) (ctxs s) = Some rc ->
  let s' := end_block cfg s dt in
  Reach cfg s'
  /\ get r (reqs s') = None
  /\ In (EvIssue r (r_prov q) (c_cons rc) (r_fee q)) (log s)
  /\ (exists d, log s' = d ++ log s /\ In (EvExpire r) d)
  /\ (c_super rc = true -> r_fee q = 0 /\ counts r (log s') = (1, 0, 0, 0, 0, 0, 1)%nat)
  /\ (c_super rc = false ->
        0 < r_fee q /\ counts r (log s') = (1, 0, 0, 0, 1, 1, 1)%nat
        /\ In (EvRefund r (c_cons rc) (r_fee q)) (log s')
        /\ exists amt, In (EvSlash r (c_svc rc, r_prov q) amt) (log s')).
Proof. exact GapC02b.timeout_settled. Qed.
Print Assumptions C04_timeout_is_slashed.

(* the arithmetic of the amount: floor(deposit x fraction); fraction 0 and fraction 1 *)
Theorem C04_amount_is_floor : forall d f, 0 <= d -> 0 <= f -> mul_trunc d f = (d * f) / PREC.
Proof. exact DecProofs.mul_trunc_floor. Qed.
Print Assumptions C04_amount_is_floor.

Theorem C04_fraction_zero : forall d, mul_trunc d 0 = 0.
Proof. exact DecProofs.mul_trunc_0_r. Qed.
Print Assumptions C04_fraction_zero.

Theorem C04_fraction_one : forall d, mul_trunc d ONE = d.
Proof. exact DecProofs.mul_trunc_ONE. Qed.
Print Assumptions C04_fraction_one.

(* per step: several failures of the same provider in one block, supply falls by exactly the
   slashed amounts (same statement as C03_deposit_falls_only_by_slash; vocabulary there) *)
Theorem C04_step_slash_totals : forall cfg s o s',
  handle cfg s o = Ok s' ->
  ((exists dt, o = OEndBlock dt) \/ (exists r w c out v ok, o = ORespond r w c out v ok)) ->
  exists d, log s' = d ++ log s
    /\ Forall (fun e => 0 <= slash_any e /\ is_dep_move e = false) d
    /\ (forall k, dep_at s' k = dep_at s k - slashed k d /\ 0 <= slashed k d <= slashed_all d)
    /\ (forall k, has k (binds s') = has k (binds s))
    /\ (forall k b, get k (binds s) = Some b ->
          exists b', get k (binds s') = Some b' /\ b_owner b' = b_owner b /\ b_raw b' = b_raw b
                     /\ b_qos b' = b_qos b /\ (b_avail b' = true -> b_avail b = true))
    /\ supply s' = supply s - slashed_all d
    /\ bal s' Deposit = bal s Deposit - slashed_all d.
Proof. exact GapC03.deposit_falls_only_by_slash. Qed.
Print Assumptions C04_step_slash_totals.

(* "never for any other reason", per step: an event that mentions request r is appended only by
   EndBlock or by an accepted response to r itself *)
Theorem C04_request_events_only_by : forall cfg s o s' d e r,
  handle cfg s o = Ok s' -> log s' = d ++ log s -> In e d -> ev_rid e = Some r ->
  (exists dt, o = OEndBlock dt) \/ (exists w c out v, o = ORespond r w c out v true).
Proof. exact GapC04.request_events_only_by. Qed.
Print Assumptions C04_request_events_only_by.

(* a slash event is appended only by EndBlock or by an accepted response to that request with a
   non-empty schema-invalid output; in the second case it names the binding (service of the
   context, responding = designated provider) and the fraction of its deposit *)
Theorem C04_only_respond_and_endblock_slash : forall cfg s o s' d r k amt,
  handle cfg s o = Ok s' -> log s' = d ++ log s -> In (EvSlash r k amt) d ->
  (exists dt, o = OEndBlock dt)
  \/ (exists w c out q rc,
        o = ORespond r w c out false true /\ out <> 0
        /\ get r (reqs s) = Some q /\ get (rid_ctx r) (ctxs s) = Some rc /\ w = r_prov q
        /\ k = (c_svc rc, w) /\ amt = mul_trunc (dep_at s k) (p_slash cfg)).
Proof. exact GapC04.only_respond_and_endblock_slash. Qed.
Print Assumptions C04_only_respond_and_endblock_slash.

(* the expiry loop packaged (C04_LI_start, C04_LI_loop, C04_expire_req_events composed): for a
   reachable state and a context due for expiry whose batch is still open, every still-active
   request of the batch expires at its expiry height, and outside super mode its provider's
   binding is slashed and the fee refunded to the consumer *)
Theorem C04_expire_one_events : forall cfg s c rc,
  wf_cfg cfg -> Reach cfg s -> In (height s, c) (expq s) ->
  get c (ctxs s) = Some rc -> c_bdone rc = false ->
  forall r, In r (active_rids s c (c_counter rc)) ->
    exists q, get r (reqs s) = Some q /\ r_active q = true /\ rid_ctx r = c /\ r_exp q = height s
      /\ In (EvExpire r) (log (expire_one cfg s c))
      /\ (c_super rc = false ->
            In (EvRefund r (c_cons rc) (r_fee q)) (log (expire_one cfg s c))
            /\ exists amt, In (EvSlash r (c_svc rc, r_prov q) amt) (log (expire_one cfg s c))).
Proof. exact GapC04.expire_one_events. Qed.
Print Assumptions C04_expire_one_events.

(* EndBlock, every event about a request: a slash appended by EndBlock belongs to a request that
   was stored, still active and at its expiry height when the block ended, whose context is NOT
   in super mode, and it names the binding (service of that context, provider of that request);
   EndBlock appends no respond / earn / tax event *)
Theorem C04_endblock_request_events : forall cfg s dt,
  wf_cfg cfg -> Reach cfg s -> wf_op s (OEndBlock dt) ->
  exists d, log (end_block cfg s dt) = d ++ log s
    /\ forall e r, In e d -> ev_rid e = Some r ->
         (exists p c f, e = EvIssue r p c f /\ rid_height r = height s)
         \/ (exists q rc, get r (reqs s) = Some q /\ r_active q = true /\ r_exp q = height s
                /\ get (rid_ctx r) (ctxs s) = Some rc
                /\ (e = EvExpire r
                    \/ (c_super rc = false
                        /\ (e = EvRefund r (c_cons rc) (r_fee q)
                            \/ exists amt, e = EvSlash r (c_svc rc, r_prov q) amt)))).
Proof. exact GapC02c.endblock_request_events. Qed.
Print Assumptions C04_endblock_request_events.

(* trace level: in every reachable state the binding named by a slash event belongs to the
   provider the request was issued to (the `exists k` of the closed traces is pinned down) *)
Theorem C04_slash_names_issued_provider : forall cfg s r k amt p c f,
  wf_cfg cfg -> Reach cfg s ->
  In (EvSlash r k amt) (log s) -> In (EvIssue r p c f) (log s) -> snd k = p.
Proof. exact GapC04b.slash_names_issued_provider. Qed.
Print Assumptions C04_slash_names_issued_provider.

(* history level: total supply falls by exactly the slashed amounts, over any history *)
Theorem C04_supply_falls_by_slashes : forall cfg h0 t0 f ops,
  let s := run cfg (init h0 t0 f) ops in
  supply s = supply (init h0 t0 f) - slashed_all (log s).
Proof. exact GapC03c.supply_ledger. Qed.
Print Assumptions C04_supply_falls_by_slashes.
