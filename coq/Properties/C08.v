(* C08  A request can be answered once, by its provider, until its expiry block ends.
   Statements only; the proofs are in Proofs/StepSpecs_window.v.
   [handle cfg s (ORespond r who code out out_valid ok)] is keeper.AddResponse as run by the
   MsgRespondService handler: [ok] is the stateless validity of the message (ValidateBasic),
   [out = 0] means "no output", [out_valid] the schema check of the output.
   [Inv cfg s] holds in every reachable state (Proofs/InvAll.v Reach_Inv).
   A request issued at height h under timeout t has r_exp = h + t (C06_provider_in_list).
   The window, step by step:
     - in every state with height <= r_exp a pending request accepts its provider's response
       (C08_accept; C08_window_inv says these are all the states where the record exists);
     - no message removes, alters or creates a request record, only an accepted response to r
       deactivates r (C08_msg_keeps_requests, C08_msg_no_new_requests);
     - the EndBlock of a block below r_exp leaves the record alone (C08_end_block_keeps);
     - the EndBlock of block r_exp removes the record and its response (C08_end_block_expires),
       and from then on every response is rejected (C08_rejected_after_expiry, C08_reject). *)
From Coq Require Import List ZArith Bool.
From SVC Require Import Base.AMap Base.Res Base.Dec Model.Types Model.Pricing
  Model.Handlers Model.EndBlock Model.Step Proofs.Inv Proofs.StepSpecs_window.
Import ListNotations.
Open Scope Z_scope.

Theorem C08_accept : forall cfg s r q code out out_valid,
  wf_cfg cfg -> Inv cfg s -> get r (reqs s) = Some q -> r_active q = true ->
  exists s', handle cfg s (ORespond r (r_prov q) code out out_valid true) = Ok s'.
Proof. exact StepSpecs_window.C08_accept. Qed.
Print Assumptions C08_accept.

Theorem C08_reject : forall cfg s r who code out out_valid ok,
  ok = false \/ get r (reqs s) = None
  \/ (exists q, get r (reqs s) = Some q /\ (who <> r_prov q \/ r_active q = false)) ->
  handle cfg s (ORespond r who code out out_valid ok) = Err
  /\ step cfg s (ORespond r who code out out_valid ok) = (s, RErr).
Proof. exact StepSpecs_window.C08_reject. Qed.
Print Assumptions C08_reject.

Theorem C08_once : forall cfg s r who code out out_valid ok s',
  handle cfg s (ORespond r who code out out_valid ok) = Ok s' ->
  (exists q, get r (reqs s) = Some q /\ r_active q = true /\ who = r_prov q /\ ok = true
     /\ get r (reqs s') = Some (setr_active q false)
     /\ exists cons, get r (resps s') = Some (mkResp who cons code out))
  /\ forall who' code' out' out_valid' ok',
       handle cfg s' (ORespond r who' code' out' out_valid' ok') = Err
       /\ step cfg s' (ORespond r who' code' out' out_valid' ok') = (s', RErr).
Proof. exact StepSpecs_window.C08_once. Qed.
Print Assumptions C08_once.

Theorem C08_window_inv : forall cfg s r q,
  Inv cfg s -> get r (reqs s) = Some q ->
  height s <= r_exp q /\ rid_height r < r_exp q /\ In (r_exp q, rid_ctx r) (expq s).
Proof. exact StepSpecs_window.C08_window_inv. Qed.
Print Assumptions C08_window_inv.

Theorem C08_gone_after_expiry : forall cfg s c r,
  wf_cfg cfg -> Inv cfg s -> In (height s, c) (expq s) -> height s < HEIGHT_BOUND ->
  rid_ctx r = c ->
  get r (reqs (expire_one cfg s c)) = None /\ get r (resps (expire_one cfg s c)) = None.
Proof. exact StepSpecs_window.C08_gone_after_expiry. Qed.
Print Assumptions C08_gone_after_expiry.

Theorem C08_msg_keeps_requests : forall cfg s o s' r q,
  handle cfg s o = Ok s' -> (forall dt, o <> OEndBlock dt) -> get r (reqs s) = Some q ->
  exists q', get r (reqs s') = Some q'
    /\ r_prov q' = r_prov q /\ r_fee q' = r_fee q /\ r_exp q' = r_exp q
    /\ (r_active q' = true -> r_active q = true)
    /\ (r_active q = true -> r_active q' = false ->
          exists code out out_valid, o = ORespond r (r_prov q) code out out_valid true).
Proof. exact StepSpecs_window.C08_msg_keeps_requests. Qed.
Print Assumptions C08_msg_keeps_requests.

Theorem C08_msg_no_new_requests : forall cfg s o s' r,
  handle cfg s o = Ok s' -> (forall dt, o <> OEndBlock dt) ->
  get r (reqs s) = None -> get r (reqs s') = None.
Proof. exact StepSpecs_window.C08_msg_no_new_requests. Qed.
Print Assumptions C08_msg_no_new_requests.

Theorem C08_end_block_keeps : forall cfg s dt r q,
  wf_cfg cfg -> Inv cfg s -> height s < HEIGHT_BOUND ->
  get r (reqs s) = Some q -> height s < r_exp q ->
  get r (reqs (end_block cfg s dt)) = Some q
  /\ get r (resps (end_block cfg s dt)) = get r (resps s).
Proof. exact StepSpecs_window.C08_end_block_keeps. Qed.
Print Assumptions C08_end_block_keeps.

Theorem C08_end_block_expires : forall cfg s dt r q,
  wf_cfg cfg -> Inv cfg s -> height s < HEIGHT_BOUND ->
  get r (reqs s) = Some q -> r_exp q = height s ->
  get r (reqs (end_block cfg s dt)) = None /\ get r (resps (end_block cfg s dt)) = None.
Proof. exact StepSpecs_window.C08_end_block_expires. Qed.
Print Assumptions C08_end_block_expires.

Theorem C08_rejected_after_expiry : forall cfg s dt r q who code out out_valid ok,
  wf_cfg cfg -> Inv cfg s -> height s < HEIGHT_BOUND ->
  get r (reqs s) = Some q -> r_exp q = height s ->
  handle cfg (end_block cfg s dt) (ORespond r who code out out_valid ok) = Err.
Proof. exact StepSpecs_window.C08_rejected_after_expiry. Qed.
Print Assumptions C08_rejected_after_expiry.
