(* C08  A request can be answered once, by its provider, until its expiry block ends.
   Statements only; the proofs are in Proofs/StepSpecs_window.v.
   [handle cfg s (ORespond r who code out out_valid ok)] is keeper.AddResponse as run by the
   MsgRespondService handler: [ok] is the stateless validity of the message (ValidateBasic),
   [out = 0] means "no output", [out_valid] the schema check of the output.
   [Inv cfg s] holds in every reachable state (Proofs/InvAll.v Reach_Inv).
   A request issued at height h under timeout t has r_exp = h + t (C06_provider_in_list).
   The window, step by step:
     - in every state with height <= r_exp a pending request accepts its provider's response
       (C08_accept; C08_window_inv says these are all the states where the record exists);
     - no message removes, alters or creates a request record, only an accepted response to r
       deactivates r (C08_msg_keeps_requests, C08_msg_no_new_requests);
     - the EndBlock of a block below r_exp leaves the record alone (C08_end_block_keeps);
     - the EndBlock of block r_exp removes the record and its response (C08_end_block_expires),
       and from then on every response is rejected (C08_rejected_after_expiry, C08_reject). *)
From Coq Require Import List ZArith Bool.
From SVC Require Import Base.AMap Base.Res Base.Dec Model.Types Model.Pricing
  Model.Handlers Model.EndBlock Model.Step Proofs.Inv Proofs.StepSpecs_window
  Proofs.ReachRun Proofs.TraceLemmas Proofs.GapOrigin Proofs.GapC08
  Model.ParamStep Proofs.ParamChange Proofs.ReachPProps.
Import ListNotations.
Open Scope Z_scope.

Theorem C08_accept : forall cfg s r q code out out_valid,
  wf_cfg cfg -> Inv cfg s -> get r (reqs s) = Some q -> r_active q = true ->
  exists s', handle cfg s (ORespond r (r_prov q) code out out_valid true) = Ok s'.
Proof. exact StepSpecs_window.C08_accept. Qed.
Print Assumptions C08_accept.

Theorem C08_reject : forall cfg s r who code out out_valid ok,
  ok = false \/ get r (reqs s) = None
  \/ (exists q, get r (reqs s) = Some q /\ (who <> r_prov q \/ r_active q = false)) ->
  handle cfg s (ORespond r who code out out_valid ok) = Err
  /\ step cfg s (ORespond r who code out out_valid ok) = (s, RErr).
Proof. exact StepSpecs_window.C08_reject. Qed.
Print Assumptions C08_reject.

Theorem C08_once : forall cfg s r who code out out_valid ok s',
  handle cfg s (ORespond r who code out out_valid ok) = Ok s' ->
  (exists q, get r (reqs s) = Some q /\ r_active q = true /\ who = r_prov q /\ ok = true
     /\ get r (reqs s') = Some (setr_active q false)
     /\ exists cons, get r (resps s') = Some (mkResp who cons code out))
  /\ forall who' code' out' out_valid' ok',
       handle cfg s' (ORespond r who' code' out' out_valid' ok') = Err
       /\ step cfg s' (ORespond r who' code' out' out_valid' ok') = (s', RErr).
Proof. exact StepSpecs_window.C08_once. Qed.
Print Assumptions C08_once.

Theorem C08_window_inv : forall cfg s r q,
  Inv cfg s -> get r (reqs s) = Some q ->
  height s <= r_exp q /\ rid_height r < r_exp q /\ In (r_exp q, rid_ctx r) (expq s).
Proof. exact StepSpecs_window.C08_window_inv. Qed.
Print Assumptions C08_window_inv.

Theorem C08_gone_after_expiry : forall cfg s c r,
  wf_cfg cfg -> Inv cfg s -> In (height s, c) (expq s) -> height s < HEIGHT_BOUND ->
  rid_ctx r = c ->
  get r (reqs (expire_one cfg s c)) = None /\ get r (resps (expire_one cfg s c)) = None.
Proof. exact StepSpecs_window.C08_gone_after_expiry. Qed.
Print Assumptions C08_gone_after_expiry.

Theorem C08_msg_keeps_requests : forall cfg s o s' r q,
  handle cfg s o = Ok s' -> (forall dt, o <> OEndBlock dt) -> get r (reqs s) = Some q ->
  exists q', get r (reqs s') = Some q'
    /\ r_prov q' = r_prov q /\ r_fee q' = r_fee q /\ r_exp q' = r_exp q
    /\ (r_active q' = true -> r_active q = true)
    /\ (r_active q = true -> r_active q' = false ->
          exists code out out_valid, o = ORespond r (r_prov q) code out out_valid true).
Proof. exact StepSpecs_window.C08_msg_keeps_requests. Qed.
Print Assumptions C08_msg_keeps_requests.

Theorem C08_msg_no_new_requests : forall cfg s o s' r,
  handle cfg s o = Ok s' -> (forall dt, o <> OEndBlock dt) ->
  get r (reqs s) = None -> get r (reqs s') = None.
Proof. exact StepSpecs_window.C08_msg_no_new_requests. Qed.
Print Assumptions C08_msg_no_new_requests.

Theorem C08_end_block_keeps : forall cfg s dt r q,
  wf_cfg cfg -> Inv cfg s -> height s < HEIGHT_BOUND ->
  get r (reqs s) = Some q -> height s < r_exp q ->
  get r (reqs (end_block cfg s dt)) = Some q
  /\ get r (resps (end_block cfg s dt)) = get r (resps s).
Proof. exact StepSpecs_window.C08_end_block_keeps. Qed.
Print Assumptions C08_end_block_keeps.

Theorem C08_end_block_expires : forall cfg s dt r q,
  wf_cfg cfg -> Inv cfg s -> height s < HEIGHT_BOUND ->
  get r (reqs s) = Some q -> r_exp q = height s ->
  get r (reqs (end_block cfg s dt)) = None /\ get r (resps (end_block cfg s dt)) = None.
Proof. exact StepSpecs_window.C08_end_block_expires. Qed.
Print Assumptions C08_end_block_expires.

Theorem C08_rejected_after_expiry : forall cfg s dt r q who code out out_valid ok,
  wf_cfg cfg -> Inv cfg s -> height s < HEIGHT_BOUND ->
  get r (reqs s) = Some q -> r_exp q = height s ->
  handle cfg (end_block cfg s dt) (ORespond r who code out out_valid ok) = Err.
Proof. exact StepSpecs_window.C08_rejected_after_expiry. Qed.
Print Assumptions C08_rejected_after_expiry.

(* ------------------------------------------------------------------ *)
(* Over histories (Proofs/GapC08.v): induction over [run] from the step theorems above. *)

(* the window as a trace theorem: from any reachable state in which r is stored, along ANY
   well-formed history (messages, pauses, kills, updates, EndBlocks in any order):
   (A) as long as the chain has not passed the expiry height the record is there with the same
       provider, fee and expiry height; it is pending only if it was, and if it stopped being
       pending an accepted response to r is in the log;
   (B) once the chain has passed the expiry height the request and its response are gone and
       every response to r, by anybody, is rejected and changes nothing -- ever after *)
Theorem C08_window : forall cfg s ops r q,
  wf_cfg cfg -> Reach cfg s -> wf_run cfg s ops -> get r (reqs s) = Some q ->
  let s' := run cfg s ops in
  (height s' <= r_exp q ->
     exists q', get r (reqs s') = Some q' /\ r_prov q' = r_prov q /\ r_fee q' = r_fee q
       /\ r_exp q' = r_exp q /\ (r_active q' = true -> r_active q = true)
       /\ (r_active q = true -> r_active q' = false -> In (EvRespond r) (log s')))
  /\ (r_exp q < height s' ->
        get r (reqs s') = None /\ get r (resps s') = None
        /\ forall who code out ov ok,
             handle cfg s' (ORespond r who code out ov ok) = Err
             /\ step cfg s' (ORespond r who code out ov ok) = (s', RErr)).
Proof. exact GapC08.C08_window. Qed.
Print Assumptions C08_window.

(* while pending, the request is inside its window and the designated provider is accepted *)
Theorem C08_answerable_in_window : forall cfg s ops r q q' code out ov,
  wf_cfg cfg -> Reach cfg s -> wf_run cfg s ops -> get r (reqs s) = Some q ->
  get r (reqs (run cfg s ops)) = Some q' -> r_active q' = true ->
  height (run cfg s ops) <= r_exp q /\ r_prov q' = r_prov q
  /\ exists s2, handle cfg (run cfg s ops) (ORespond r (r_prov q) code out ov true) = Ok s2.
Proof. exact GapC08.C08_answerable_in_window. Qed.
Print Assumptions C08_answerable_in_window.

(* not answered and not expired = still pending *)
Theorem C08_pending_until_answered : forall cfg s ops r q,
  wf_cfg cfg -> Reach cfg s -> wf_run cfg s ops -> get r (reqs s) = Some q -> r_active q = true ->
  height (run cfg s ops) <= r_exp q -> ~ In (EvRespond r) (log (run cfg s ops)) ->
  exists q', get r (reqs (run cfg s ops)) = Some q' /\ r_active q' = true /\ r_prov q' = r_prov q.
Proof. exact GapC08.C08_pending_until_answered. Qed.
Print Assumptions C08_pending_until_answered.

(* the same, anchored at the EndBlock that issues r (at height h = height s, timeout t of the
   context): the first state in which r can be answered has height h + 1 (no response is possible
   in the issuing block), the window is heights h+1 .. h+t, in every state of it r is stored,
   answerable while pending, and after it r is rejected for ever *)
Theorem C08_window_from_issue : forall cfg s dt r q,
  wf_cfg cfg -> Reach cfg s -> 0 <= dt -> height s < HEIGHT_BOUND ->
  get r (reqs s) = None -> get r (reqs (end_block cfg s dt)) = Some q ->
  let s1 := end_block cfg s dt in
  Reach cfg s1 /\ r_active q = true /\ rid_height r = height s /\ height s1 = rid_height r + 1
  /\ (exists rc, get (rid_ctx r)
                   (ctxs (fold_left (expire_one cfg) (due (expq s) (height s)) s)) = Some rc
        /\ r_exp q = height s + c_timeout rc /\ 1 <= c_timeout rc <= p_max_timeout cfg)
  /\ height s1 <= r_exp q
  /\ forall ops, wf_run cfg s1 ops ->
       let s' := run cfg s1 ops in
       (height s' <= r_exp q ->
          exists q', get r (reqs s') = Some q' /\ r_prov q' = r_prov q /\ r_fee q' = r_fee q
            /\ r_exp q' = r_exp q
            /\ (r_active q' = false -> In (EvRespond r) (log s'))
            /\ (r_active q' = true -> forall code out ov,
                  exists s2, handle cfg s' (ORespond r (r_prov q) code out ov true) = Ok s2))
       /\ (r_exp q < height s' ->
             get r (reqs s') = None /\ get r (resps s') = None
             /\ forall who code out ov ok,
                  handle cfg s' (ORespond r who code out ov ok) = Err
                  /\ step cfg s' (ORespond r who code out ov ok) = (s', RErr)).
Proof. exact GapC08.C08_window_from_issue. Qed.
Print Assumptions C08_window_from_issue.

(* at most one accepted response in the whole history of a reachable state; a pending request
   has none *)
Theorem C08_once_trace : forall cfg s r,
  wf_cfg cfg -> Reach cfg s ->
  (count (is_respond r) (log s) <= 1)%nat
  /\ (forall q, get r (reqs s) = Some q -> r_active q = true -> ~ In (EvRespond r) (log s)).
Proof. exact GapC08.C08_once_trace. Qed.
Print Assumptions C08_once_trace.

(* after an accepted response to r every later response to r is rejected, in EVERY later state *)
Theorem C08_once_run : forall cfg s1 r who code out ov ok s2 ops,
  wf_cfg cfg -> Reach cfg s1 -> handle cfg s1 (ORespond r who code out ov ok) = Ok s2 ->
  wf_run cfg s2 ops ->
  forall who' code' out' ov' ok',
    handle cfg (run cfg s2 ops) (ORespond r who' code' out' ov' ok') = Err
    /\ step cfg (run cfg s2 ops) (ORespond r who' code' out' ov' ok') = (run cfg s2 ops, RErr).
Proof. exact GapC08.C08_once_run. Qed.
Print Assumptions C08_once_run.

(* a pending request of a reachable state: issued in an earlier block, not past its expiry
   height, and its provider's response is accepted *)
Theorem C08_accept_reach : forall cfg s r q code out ov,
  wf_cfg cfg -> Reach cfg s -> get r (reqs s) = Some q -> r_active q = true ->
  rid_height r < height s <= r_exp q
  /\ exists s', handle cfg s (ORespond r (r_prov q) code out ov true) = Ok s'.
Proof. exact GapC08.C08_accept_reach. Qed.
Print Assumptions C08_accept_reach.

(* satisfiable: a concrete reachable history in which a request issued at height 1 with timeout
   5 is still answerable in block 6 and rejected in blocks 7 and 14 *)
Theorem C08_window_example :
  (exists s2, handle BatchEx.BEx.cfg0 (run BatchEx.BEx.cfg0 BatchEx.BEx.s_b (BatchEx.BEx.nblocks 4))
                (ORespond GapC08.ExW.r3 12 200 1 true true) = Ok s2)
  /\ handle BatchEx.BEx.cfg0 (run BatchEx.BEx.cfg0 BatchEx.BEx.s_b (BatchEx.BEx.nblocks 5))
       (ORespond GapC08.ExW.r3 12 200 1 true true) = Err
  /\ handle BatchEx.BEx.cfg0
       (run BatchEx.BEx.cfg0 BatchEx.BEx.s_b (BatchEx.BEx.nblocks 5 ++ BatchEx.BEx.nblocks 7))
       (ORespond GapC08.ExW.r3 12 200 1 true true) = Err.
Proof. exact GapC08.ExW.window_applies. Qed.
Print Assumptions C08_window_example.

(* ------------------------------------------------------------------------------------------
   Known finding K3 inside the model (DESIGN.md 12.10). `XCallMod` (Model/ModSvc.v) is the
   module-service branch of MsgCallService, executed by `xstep` on top of `pstep`; exclusion
   X-K3 is "the history contains no XCallMod" (`k3_free`).  The statements below are refuted /
   proved in Proofs/K3.v on concrete reachable witnesses (corpus history W10) by vm_compute. *)
From Coq Require Import List ZArith Bool Lia.
From SVC Require Import Base.AMap Base.Res Base.Dec Model.Types Model.Pricing Model.Handlers Model.EndBlock Model.Step Model.ParamStep Model.ModSvc Model.Genesis Proofs.Inv Proofs.ParamChange Proofs.K3.
Import ListNotations.
Open Scope Z_scope.

Theorem C08_K3_records_left_refuted :
  exists
           (cfg : Params) (s : State) (o : XOp) (ebs : list XOp) (cfg' : Params) (s' : State) 
         (r : ReqId) (q : Req) (x : Resp),
           wf_cfg cfg /\
           Reach cfg s /\
           is_callmod o = true /\
           k3_free ebs = true /\
           xrun (cfg, s) (o :: ebs) = (cfg', s') /\
           get r (reqs s') = Some q /\
           get r (resps s') = Some x /\
           r_exp q < height s' /\
           get (rid_ctx r) (ctxs s') = None /\
           get (rid_ctx r) (expq_h s') = None /\ get (rid_ctx r) (newq_h s') = None /\ ~ I_req s'.
Proof. exact K3.K3_records_left_refuted. Qed.
Print Assumptions C08_K3_records_left_refuted.

(* ---- governance parameter changes inside a history (Model/ParamStep.v, Proofs/ParamChange.v,
   Proofs/ReachPProps.v) ----
   The state-invariant statements above, with `wf_cfg cfg -> Reach cfg s` (parameters fixed along
   the history) replaced by `ReachP cfg s`: initial state; operations under the parameters in
   force; changes to a well-formed parameter set that does not raise the minimum-deposit terms
   nor lower the maximum request timeout (tax, slash fraction, arbitration and complaint periods
   change freely).  cfg is the parameter set in force in s.  Same conclusions. *)

Theorem C08_accept_param_changes :
  forall cfg s, ReachP cfg s -> forall r q code out out_valid,
  get r (reqs s) = Some q -> r_active q = true ->
  exists s', handle cfg s (ORespond r (r_prov q) code out out_valid true) = Ok s'.
Proof. exact ReachPProps.accept_P. Qed.
Print Assumptions C08_accept_param_changes.

Theorem C08_window_inv_param_changes :
  forall cfg s, ReachP cfg s -> forall r q,
  get r (reqs s) = Some q ->
  height s <= r_exp q /\ rid_height r < r_exp q /\ In (r_exp q, rid_ctx r) (expq s).
Proof. exact ReachPProps.window_inv_P. Qed.
Print Assumptions C08_window_inv_param_changes.
