(* C02  Each paid request is settled exactly once, to the right party.
   Statements only; the proofs are in Proofs/TraceLemmas.v and Proofs/TraceSettle.v.

   Vocabulary (Proofs/TraceLemmas.v, Proofs/TraceSettle.v):
     log s            the events of the whole history, NEWEST FIRST
     count p l        length (filter p l)
     is_issue r e ... the event is an EvIssue / EvRespond / EvEarn / EvTax / EvRefund /
                      EvSlash / EvExpire of request r
     counts r l       (#issue, #respond, #earn, #tax, #refund, #slash, #expire) of r in l
     tr r l           the sub-list of l that mentions r
     closed cfg r prov cons fee l   l is one of the four traces of a settled request:
        [EvRespond r; EvEarn r prov (fee - tax); EvTax r tax; EvIssue r prov cons fee]   tax = mul_trunc fee (p_tax cfg)
        [EvRespond r; EvRefund r cons fee; EvSlash r k amt; EvIssue r prov cons fee]     malformed output
        [EvExpire r; EvIssue r prov cons fee]  with fee = 0                              time-out, super mode
        [EvExpire r; EvRefund r cons fee; EvSlash r k amt; EvIssue r prov cons fee]  with 0 < fee   time-out
   Fee 0 = super mode (C02_stored_issued).  A super-mode request that is answered still gets
   EvTax r 0 / EvEarn r prov 0 (or EvSlash / EvRefund r cons 0 for a malformed output); only a
   time-out in super mode settles nothing. *)
From Coq Require Import List ZArith Bool.
From SVC Require Import Base.AMap Base.Res Base.Dec Model.Types Model.Pricing
  Model.Handlers Model.EndBlock Model.Step Proofs.Inv Proofs.TraceLemmas Proofs.TraceSettle
  Proofs.TraceMoney Proofs.DecProofs Proofs.StepSpecs_deposit Proofs.GapC02 Proofs.GapC02b Proofs.GapC02c Proofs.GapC02d Proofs.GapC02e.
Import ListNotations.
Open Scope Z_scope.

(* a request id is created at most once: ids of one context carry its strictly growing
   batch counter, and the host never reuses a context id (ctx_fresh, hypothesis of Reach) *)
Theorem C02_ids_fresh : forall cfg s, wf_cfg cfg -> Reach cfg s ->
  (forall r, (count (is_issue r) (log s) <= 1)%nat)
  /\ (forall r p cons f, In (EvIssue r p cons f) (log s) ->
        In (EvCtxCreated (rid_ctx r)) (log s)
        /\ forall rc, get (rid_ctx r) (ctxs s) = Some rc -> rid_batch r <= c_counter rc)
  /\ (forall c rc h i, get c (ctxs s) = Some rc ->
        count (is_issue (c, c_counter rc + 1, h, i)) (log s) = 0%nat)
  /\ (forall c r, ctx_fresh s c -> rid_ctx r = c -> count (is_issue r) (log s) = 0%nat).
Proof. exact TraceSettle.ids_fresh. Qed.
Print Assumptions C02_ids_fresh.

(* a stored request was issued exactly once, for its provider, the consumer of its context
   and its fee; the fee is 0 exactly in super mode *)
Theorem C02_stored_issued : forall cfg s r q, wf_cfg cfg -> Reach cfg s -> get r (reqs s) = Some q ->
  exists rc, get (rid_ctx r) (ctxs s) = Some rc
    /\ In (EvIssue r (r_prov q) (c_cons rc) (r_fee q)) (log s)
    /\ count (is_issue r) (log s) = 1%nat
    /\ (c_super rc = true <-> r_fee q = 0).
Proof. exact TraceSettle.stored_issued. Qed.
Print Assumptions C02_stored_issued.

(* the events that mention a request, in full *)
Theorem C02_request_trace : forall cfg s r, wf_cfg cfg -> Reach cfg s ->
  match get r (reqs s) with
  | Some q => exists cons,
      if r_active q then tr r (log s) = [EvIssue r (r_prov q) cons (r_fee q)]
      else closed cfg r (r_prov q) cons (r_fee q) (tr r (log s))
  | None => tr r (log s) = [] \/ exists prov cons fee, closed cfg r prov cons fee (tr r (log s))
  end.
Proof. exact TraceSettle.request_trace. Qed.
Print Assumptions C02_request_trace.

(* (#issue, #respond, #earn, #tax, #refund, #slash, #expire): six possible vectors *)
Theorem C02_counts : forall cfg s r, wf_cfg cfg -> Reach cfg s ->
  (counts r (log s) = (0, 0, 0, 0, 0, 0, 0)
   \/ counts r (log s) = (1, 0, 0, 0, 0, 0, 0)
   \/ counts r (log s) = (1, 1, 1, 1, 0, 0, 0)
   \/ counts r (log s) = (1, 1, 0, 0, 1, 1, 0)
   \/ counts r (log s) = (1, 0, 0, 0, 0, 0, 1)
   \/ counts r (log s) = (1, 0, 0, 0, 1, 1, 1))%nat.
Proof. exact TraceSettle.reach_counts. Qed.
Print Assumptions C02_counts.

(* at most one settlement (earnings or refund, never both), only of an issued request;
   a tax event exactly with the earnings; closed (answered or expired) at most once *)
Theorem C02_settle_once : forall cfg s r, wf_cfg cfg -> Reach cfg s ->
  (count (is_earn r) (log s) + count (is_refund r) (log s) <= count (is_issue r) (log s))%nat
  /\ (count (is_issue r) (log s) <= 1)%nat
  /\ count (is_tax r) (log s) = count (is_earn r) (log s)
  /\ (count (is_respond r) (log s) + count (is_expire r) (log s) <= count (is_issue r) (log s))%nat.
Proof. exact TraceSettle.settle_once. Qed.
Print Assumptions C02_settle_once.

(* an active request has its issue event and nothing else *)
Theorem C02_active_unsettled : forall cfg s r q, wf_cfg cfg -> Reach cfg s ->
  get r (reqs s) = Some q -> r_active q = true ->
  counts r (log s) = (1, 0, 0, 0, 0, 0, 0)%nat.
Proof. exact TraceSettle.active_unsettled. Qed.
Print Assumptions C02_active_unsettled.

(* an inactive stored request was closed once and settled exactly once -- except that a
   time-out in super mode (fee 0) settles nothing *)
Theorem C02_inactive_settled : forall cfg s r q, wf_cfg cfg -> Reach cfg s ->
  get r (reqs s) = Some q -> r_active q = false ->
  (count (is_earn r) (log s) + count (is_refund r) (log s) = 1
   /\ (count (is_respond r) (log s) + count (is_expire r) (log s) = 1))%nat
  \/ (r_fee q = 0 /\ counts r (log s) = (1, 0, 0, 0, 0, 0, 1)%nat).
Proof. exact TraceSettle.inactive_settled. Qed.
Print Assumptions C02_inactive_settled.

(* amounts and parties: earnings go to the provider of the issue event, earnings + tax = fee
   with tax = floor(fee x tax rate); a refund returns the whole fee to the consumer of the
   issue event *)
Theorem C02_settle_party_amount : forall cfg s r, wf_cfg cfg -> Reach cfg s ->
  (forall p a, In (EvEarn r p a) (log s) ->
     exists cons fee, In (EvIssue r p cons fee) (log s)
       /\ In (EvTax r (mul_trunc fee (p_tax cfg))) (log s)
       /\ a + mul_trunc fee (p_tax cfg) = fee)
  /\ (forall t, In (EvTax r t) (log s) ->
     exists p cons fee, In (EvIssue r p cons fee) (log s)
       /\ t = mul_trunc fee (p_tax cfg) /\ In (EvEarn r p (fee - t)) (log s))
  /\ (forall cns a, In (EvRefund r cns a) (log s) -> exists p, In (EvIssue r p cns a) (log s)).
Proof. exact TraceSettle.settle_party_amount. Qed.
Print Assumptions C02_settle_party_amount.

(* the new-batch handler debits the consumer exactly the sum of the fees it issues
   (per handler run; d = the events it appends, newest first) *)
Theorem C02_debit_exact : forall cfg s c, Inv cfg s -> In (height s, c) (newq s) ->
  exists rc d, get c (ctxs s) = Some rc /\ log (new_one cfg s c) = d ++ log s
    /\ (forall r p cons f, In (EvIssue r p cons f) d ->
          rid_ctx r = c /\ rid_batch r = c_counter rc + 1 /\ cons = c_cons rc)
    /\ (forall c' cons amt, In (EvDebit c' cons amt) d ->
          c' = c /\ cons = c_cons rc /\ amt = issue_fees d /\ c_super rc = false
          /\ (0 < count is_any_issue d)%nat)
    /\ (count is_debit d <= 1)%nat
    /\ (c_super rc = false -> (0 < count is_any_issue d)%nat ->
          In (EvDebit c (c_cons rc) (issue_fees d)) d)
    /\ (c_super rc = true -> issue_fees d = 0 /\ count is_debit d = 0%nat)
    /\ (forall a, bal (new_one cfg s c) a
          = bal s a - (if eqb a (User (c_cons rc)) then issue_fees d else 0)
                    + (if eqb a Escrow then issue_fees d else 0)).
Proof. exact TraceSettle.debit_exact. Qed.
Print Assumptions C02_debit_exact.

(* trace form of the debit statement: every debit of the log is immediately followed (newer,
   i.e. to its left: the log is newest first) by the issue events of one batch (c, n) of its
   context, all for the debited consumer and of the block h of the batch start, whose fees
   sum to the debit, and then by that batch's EvBatchStart (issue_fees = sum of the fees of
   the EvIssue events of a list) *)
Theorem C02_debit_matches_issue : forall cfg s l1 l2 c cons amt, wf_cfg cfg -> Reach cfg s ->
  log s = l1 ++ EvDebit c cons amt :: l2 ->
  exists rest n h evs, l1 = rest ++ EvBatchStart c n h (len evs) :: evs
    /\ Forall (fun e => exists i p f, e = EvIssue (c, n, h, i) p cons f) evs
    /\ issue_fees evs = amt.
Proof. exact TraceSettle.debit_matches_issue. Qed.
Print Assumptions C02_debit_matches_issue.

(* fee money moves in no other way: every event has a fixed effect on the balances
   (TraceMoney.ev_delta: EvDebit consumer -> escrow, EvTax escrow -> fee collector,
   EvRefund escrow -> consumer, EvWithdraw escrow -> destination, EvDepositIn owner ->
   deposit account, EvDepositOut deposit account -> owner, EvSlash burned from the deposit
   account, every other event 0), and every successful operation other than the plain bank
   send OTransfer changes the balances by exactly the effects of the events it appends.
   I_wd s (a conjunct of Inv: no stored withdrawal address is a module account, repair D11)
   is what makes "EvWithdraw escrow -> destination" a payment to an ordinary account *)
Theorem C02_only_events_move_money : forall cfg s o s',
  I_wd s -> handle cfg s o = Ok s' -> (forall f t a, o <> OTransfer f t a) ->
  exists d, log s' = d ++ log s /\ forall x, bal s' x = bal s x + evs_delta d x.
Proof. exact TraceMoney.only_events_move_money. Qed.
Print Assumptions C02_only_events_move_money.

Theorem C02_transfer_moves : forall cfg s f t amt s',
  handle cfg s (OTransfer f t amt) = Ok s' ->
  log s' = log s /\ forall x, bal s' x = bal s x - into (User f) x amt + into (User t) x amt.
Proof. exact TraceMoney.transfer_moves. Qed.
Print Assumptions C02_transfer_moves.

(* ------------------------------------------------------------------ *)
(* gap closing (audit C02, section (d)) *)

(* WHICH settlement an accepted response gets is decided by the output: a non-empty output that
   fails the schema (out <> 0, out_valid = false) is refunded in full to the consumer of the
   context (and the binding is slashed, C04_respond_slash_iff), nothing is earned; a well-formed
   or absent output pays tax = mul_trunc fee rate to the fee collector and adds fee - tax to the
   earnings of the responding provider, no ordinary account moves.  d = the events appended *)
Theorem C02_respond_settles : forall cfg s r who code out ov ok s',
  Inv cfg s -> handle cfg s (ORespond r who code out ov ok) = Ok s' ->
  exists q rc d,
    get r (reqs s) = Some q /\ get (rid_ctx r) (ctxs s) = Some rc
    /\ who = r_prov q /\ r_active q = true /\ log s' = d ++ log s
    /\ if negb (out =? 0) && negb ov
       then (exists amt, tr r d = [EvRespond r; EvRefund r (c_cons rc) (r_fee q);
                                   EvSlash r (c_svc rc, who) amt])
            /\ bal s' (User (c_cons rc)) = bal s (User (c_cons rc)) + r_fee q
            /\ (forall a, a <> c_cons rc -> bal s' (User a) = bal s (User a))
            /\ bal s' Escrow = bal s Escrow - r_fee q
            /\ bal s' FeeColl = bal s FeeColl
            /\ earned s' = earned s /\ own_earned s' = own_earned s
       else tr r d = [EvRespond r; EvEarn r who (r_fee q - mul_trunc (r_fee q) (p_tax cfg));
                      EvTax r (mul_trunc (r_fee q) (p_tax cfg))]
            /\ 0 <= mul_trunc (r_fee q) (p_tax cfg) <= r_fee q
            /\ bal s' FeeColl = bal s FeeColl + mul_trunc (r_fee q) (p_tax cfg)
            /\ bal s' Escrow = bal s Escrow - mul_trunc (r_fee q) (p_tax cfg)
            /\ bal s' Deposit = bal s Deposit
            /\ (forall a, bal s' (User a) = bal s (User a))
            /\ get0 who (earned s') = get0 who (earned s) + (r_fee q - mul_trunc (r_fee q) (p_tax cfg))
            /\ (forall p, p <> who -> get0 p (earned s') = get0 p (earned s)).
Proof. exact GapC02.respond_settles. Qed.
Print Assumptions C02_respond_settles.

(* liveness: a request still active when the EndBlock of its expiry height runs is settled in
   that EndBlock: it gets its EvExpire among the events d appended by the block, its record is
   gone afterwards (so no later settlement is possible: C02_request_trace, case None), and the
   count vector (#issue, #respond, #earn, #tax, #refund, #slash, #expire) is the one of a
   time-out: in super mode (fee 0) nothing moves, otherwise the whole fee is refunded to the
   consumer of the context and the binding of the request's provider is slashed *)
Theorem C02_settled_at_expiry : forall cfg s dt r q rc,
  wf_cfg cfg -> Reach cfg s -> wf_op s (OEndBlock dt) ->
  get r (reqs s) = Some q -> r_active q = true -> r_exp q = height s ->
  get (rid_ctx r) (ctxs s) = Some rc ->
  let s' := end_block cfg s dt in
  Reach cfg s'
  /\ get r (reqs s') = None
  /\ In (EvIssue r (r_prov q) (c_cons rc) (r_fee q)) (log s)
  /\ (exists d, log s' = d ++ log s /\ In (EvExpire r) d)
  /\ (c_super rc = true -> r_fee q = 0 /\ counts r (log s') = (1, 0, 0, 0, 0, 0, 1)%nat)
  /\ (c_super rc = false ->
        0 < r_fee q /\ counts r (log s') = (1, 0, 0, 0, 1, 1, 1)%nat
        /\ In (EvRefund r (c_cons rc) (r_fee q)) (log s')
        /\ exists amt, In (EvSlash r (c_svc rc, r_prov q) amt) (log s')).
Proof. exact GapC02b.timeout_settled. Qed.
Print Assumptions C02_settled_at_expiry.

(* a stored request is never overdue: its expiry height is not below the current height and its
   context is queued for expiry at exactly that height; with C02_settled_at_expiry: no request
   stays unsettled past the EndBlock of its expiry height *)
Theorem C02_active_not_overdue : forall cfg s r q,
  wf_cfg cfg -> Reach cfg s -> get r (reqs s) = Some q ->
  height s <= r_exp q /\ In (r_exp q, rid_ctx r) (expq s).
Proof. exact GapC02b.active_not_overdue. Qed.
Print Assumptions C02_active_not_overdue.

(* the tax is the floor of fee x rate (rates are 18-digit fixed point, PREC = 10^18) *)
Theorem C02_tax_is_floor : forall n r, 0 <= n -> 0 <= r -> mul_trunc n r = (n * r) / PREC.
Proof. exact DecProofs.mul_trunc_floor. Qed.
Print Assumptions C02_tax_is_floor.

(* per-step attribution of every event that mentions a request (audit facets 4, 6): for a step
   of a reachable state, an event e about request r among the appended events d comes
     - from EndBlock, and is an EvIssue of a request stamped with the height of this block, or
       an expiry event of a request that was stored, still active and AT ITS EXPIRY HEIGHT:
       EvExpire r, and outside super mode EvRefund r (consumer of its context) (its fee) or
       EvSlash r (service of its context, its provider) _;
     - or from an accepted response to r: EvRespond r, and, if the output is non-empty and
       schema-invalid, EvRefund r consumer fee / EvSlash r binding (fraction of its deposit),
       else EvEarn r provider (fee - tax) / EvTax r tax with tax = mul_trunc fee (p_tax cfg);
     - from no other operation. *)
Theorem C02_step_request_events : forall cfg s o s' d e r,
  wf_cfg cfg -> Reach cfg s -> wf_op s o -> handle cfg s o = Ok s' ->
  log s' = d ++ log s -> In e d -> ev_rid e = Some r ->
  ((exists dt, o = OEndBlock dt)
   /\ ((exists p c f, e = EvIssue r p c f /\ rid_height r = height s)
       \/ (exists q rc, get r (reqs s) = Some q /\ r_active q = true /\ r_exp q = height s
              /\ get (rid_ctx r) (ctxs s) = Some rc
              /\ (e = EvExpire r
                  \/ (c_super rc = false
                      /\ (e = EvRefund r (c_cons rc) (r_fee q)
                          \/ exists amt, e = EvSlash r (c_svc rc, r_prov q) amt))))))
  \/ (exists w c out v, o = ORespond r w c out v true
        /\ exists q rc, get r (reqs s) = Some q /\ r_active q = true
             /\ get (rid_ctx r) (ctxs s) = Some rc
             /\ (e = EvRespond r
                 \/ if negb (out =? 0) && negb v
                    then e = EvRefund r (c_cons rc) (r_fee q)
                         \/ e = EvSlash r (c_svc rc, r_prov q)
                                 (mul_trunc (dep_at s (c_svc rc, r_prov q)) (p_slash cfg))
                    else e = EvEarn r (r_prov q) (r_fee q - mul_trunc (r_fee q) (p_tax cfg))
                         \/ e = EvTax r (mul_trunc (r_fee q) (p_tax cfg)))).
Proof. exact GapC02c.step_request_events. Qed.
Print Assumptions C02_step_request_events.

(* "in time": an expiry event is appended only by the EndBlock whose height is the expiry height
   of the request, and only while the request is still active (so a request answered in its
   expiry block, before EndBlock, does not expire: C02_settle_once) *)
Theorem C02_expire_only_at_expiry : forall cfg s o s' d r,
  wf_cfg cfg -> Reach cfg s -> wf_op s o -> handle cfg s o = Ok s' ->
  log s' = d ++ log s -> In (EvExpire r) d ->
  (exists dt, o = OEndBlock dt)
  /\ exists q, get r (reqs s) = Some q /\ r_active q = true /\ r_exp q = height s.
Proof. exact GapC02c.expire_only_at_expiry. Qed.
Print Assumptions C02_expire_only_at_expiry.

(* trace-level converse of the debit (C02_debit_matches_issue is the other direction): in every
   reachable state a request issued with a positive fee -- i.e. outside super mode,
   C02_stored_issued -- lies in a batch that was paid for: the log contains a debit of its
   context, charged to the consumer named in the issue event, of at least its fee *)
Theorem C02_issue_has_debit : forall cfg s r p cons f,
  wf_cfg cfg -> Reach cfg s -> In (EvIssue r p cons f) (log s) -> 0 < f ->
  exists amt, In (EvDebit (rid_ctx r) cons amt) (log s) /\ f <= amt.
Proof. exact GapC02d.issue_has_debit. Qed.
Print Assumptions C02_issue_has_debit.

(* history level, the summary: in every reachable state every request that was ever issued is
   either still pending (stored, active, not past its expiry height, nothing but its issue event
   in the log) or has exactly one of the four closed traces -- and a pending request is settled
   by the EndBlock of its expiry height at the latest (C02_settled_at_expiry) *)
Theorem C02_issued_settled_or_pending : forall cfg s r p c f,
  wf_cfg cfg -> Reach cfg s -> In (EvIssue r p c f) (log s) ->
  (exists q, get r (reqs s) = Some q /\ r_active q = true /\ r_prov q = p /\ r_fee q = f
        /\ height s <= r_exp q /\ tr r (log s) = [EvIssue r p c f])
  \/ closed cfg r p c f (tr r (log s)).
Proof. exact GapC02e.issued_settled_or_pending. Qed.
Print Assumptions C02_issued_settled_or_pending.

(* ------------------------------------------------------------------------------------------
   Known finding K3 inside the model (DESIGN.md 12.10). `XCallMod` (Model/ModSvc.v) is the
   module-service branch of MsgCallService, executed by `xstep` on top of `pstep`; exclusion
   X-K3 is "the history contains no XCallMod" (`k3_free`).  The statements below are refuted /
   proved in Proofs/K3.v on concrete reachable witnesses (corpus history W10) by vm_compute. *)
From Coq Require Import List ZArith Bool Lia.
From SVC Require Import Base.AMap Base.Res Base.Dec Model.Types Model.Pricing Model.Handlers Model.EndBlock Model.Step Model.ParamStep Model.ModSvc Model.Genesis Proofs.Inv Proofs.ParamChange Proofs.K3.
Import ListNotations.
Open Scope Z_scope.

Theorem C02_K3_settled_unpaid_refuted :
  exists (cfg : Params) (s : State) (o : XOp) (s' : State) (c : CtxId) (r : ReqId) 
         (prov cons0 : Z),
           wf_cfg cfg /\
           Reach cfg s /\
           is_callmod o = true /\
           xstep (cfg, s) o = (cfg, s', ROk) /\
           firstn 8 (log s') =
           [EvBatchDone c 1; EvRespond r; EvEarn r prov 1; EvTax r 0; EvBatchStart c 1 (height s) 1;
            EvIssue r prov cons0 1; EvDebit c cons0 0; EvCtxCreated c] /\
           skipn 8 (log s') = log s /\
           bal s' (User cons0) = bal s (User cons0) /\ get prov (earned s') = Some 1.
Proof. exact K3.K3_settled_unpaid_refuted. Qed.
Print Assumptions C02_K3_settled_unpaid_refuted.
