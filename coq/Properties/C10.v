(* C10  Repeated invocations keep their cadence and respect their total.
   Statements only; proofs in Proofs/StepSpecs_ctx.v (step facts about the counter),
   Proofs/C10Proofs.v (reachable-state corollaries, cadence lemmas L1..L4, EndBlock)
   and Proofs/TraceCadence.v (the trace statements C10_cadence, C10_cadence_consecutive).
   `Inv cfg s` holds in every reachable state and in every state inside EndBlock
   (Proofs/InvAll.v: Reach_Inv, fold_expire_phase, fold_new_phase).
   Heights are below HEIGHT_BOUND = 2^62 and frequencies below it (wf_op; known finding K2:
   without the bound `int64(freq)` wraps and the next batch is queued in the past). *)
From Coq Require Import List ZArith Bool.
From SVC Require Import Base.AMap Base.Res Model.Types Model.Handlers Model.EndBlock Model.Step
  Proofs.Inv Proofs.CtxOps Proofs.ReachRun Proofs.StepSpecs_ctx Proofs.C10Proofs Proofs.TraceCadence
  Proofs.GapC09 Proofs.GapC06 Proofs.GapC10
  Model.ParamStep Proofs.ParamChange Proofs.ReachPProps.
Import ListNotations.
Open Scope Z_scope.

(* ---- invariant level ---- *)

(* a non-repeated context has at most one batch, and is running with its expiry pending
   exactly while that batch is in flight *)
Theorem C10_oneshot_le_1 : forall cfg s c rc,
  wf_cfg cfg -> Reach cfg s -> get c (ctxs s) = Some rc -> c_rep rc = false ->
  (c_counter rc = 0 /\ has c (expq_h s) = false)
  \/ (c_counter rc = 1 /\ c_state rc = Running /\ has c (expq_h s) = true).
Proof. exact C10Proofs.C10_oneshot_le_1. Qed.
Print Assumptions C10_oneshot_le_1.

(* the counter of a repeated context never exceeds the total in force (needs repair D5) *)
Theorem C10_total_bound : forall cfg s c rc,
  wf_cfg cfg -> Reach cfg s -> get c (ctxs s) = Some rc ->
  c_rep rc = true -> 0 < c_total rc -> 0 <= c_counter rc <= c_total rc.
Proof. exact C10Proofs.C10_total_bound_reach. Qed.
Print Assumptions C10_total_bound.

(* a context that never started a batch has no pending expiry, and if it is running it is
   waiting in the new-batch queue at a height that is not in the past *)
Theorem C10_first_batch_inv : forall cfg s c rc,
  wf_cfg cfg -> Reach cfg s -> get c (ctxs s) = Some rc -> c_counter rc = 0 ->
  get c (expq_h s) = None
  /\ (c_state rc = Running ->
        exists h, get c (newq_h s) = Some h /\ In (h, c) (newq s) /\ height s <= h).
Proof. exact C10Proofs.C10_first_batch_inv. Qed.
Print Assumptions C10_first_batch_inv.

(* ---- the first batch ---- *)

(* creating a context queues its first batch at the current height *)
Theorem C10_created_queued : forall cfg s o s' c,
  handle cfg s o = Ok s' ->
  (exists svc provs cons input cap timeout super rep freq total iok ok,
     o = OCall c svc provs cons input cap timeout super rep freq total iok ok)
  \/ (exists svc provs cons input cap timeout super rep freq total thr md iok,
     o = OModCall c svc provs cons input cap timeout super rep freq total thr md iok) ->
  exists rc, get c (ctxs s') = Some rc /\ c_counter rc = 0 /\ c_state rc = Running
    /\ c_bdone rc = true /\ get c (newq_h s') = Some (height s) /\ height s' = height s
    /\ In (EvCtxCreated c) (log s').
Proof. exact C10Proofs.C10_created_queued. Qed.
Print Assumptions C10_created_queued.

(* the EndBlock of the height of a new-batch entry runs the new-batch handler for it: a
   running context whose total is not reached (d5 = false; in particular counter = 0) gets its
   batch in that EndBlock (counter + 1, expiry entry at height + timeout), or is paused for
   insufficient funds; its new-batch entry is gone *)
Theorem C10_first_batch : forall cfg s c rc dt,
  wf_cfg cfg -> Inv cfg s -> height s < HEIGHT_BOUND ->
  In (height s, c) (newq s) -> get c (ctxs s) = Some rc -> c_state rc = Running -> d5 rc = false ->
  let s' := end_block cfg s dt in
  height s' = height s + 1 /\ get c (newq_h s') = None
  /\ ((exists n, get c (ctxs s') = Some (bump rc n)
         /\ get c (expq_h s') = Some (height s + c_timeout rc))
      \/ (get c (ctxs s') = Some (paused_ctx rc) /\ get c (expq_h s') = None)).
Proof. exact C10Proofs.C10_first_batch. Qed.
Print Assumptions C10_first_batch.

Theorem C10_d5_counter0 : forall rc, c_counter rc = 0 -> d5 rc = false.
Proof. exact C10Proofs.d5_counter0. Qed.
Print Assumptions C10_d5_counter0.

(* ---- the counter, one step (Proofs/StepSpecs_ctx.v) ---- *)

Theorem C10_oneshot : forall cfg s c rc, Inv cfg s -> get c (ctxs s) = Some rc -> c_rep rc = false ->
  (c_counter rc = 0 /\ has c (expq_h s) = false)
  \/ (c_counter rc = 1 /\ c_state rc = Running /\ has c (expq_h s) = true).
Proof. exact StepSpecs_ctx.C10_oneshot. Qed.
Print Assumptions C10_oneshot.

Theorem C10_total_bound_inv : forall cfg s c rc, Inv cfg s -> get c (ctxs s) = Some rc ->
  c_rep rc = true -> 0 < c_total rc -> 0 <= c_counter rc <= c_total rc.
Proof. exact StepSpecs_ctx.C10_total_bound. Qed.
Print Assumptions C10_total_bound_inv.

Theorem C10_counter_msg : forall cfg s o s' c rc rc',
  wf_cfg cfg -> Inv cfg s -> wf_op s o -> (forall dt, o <> OEndBlock dt) ->
  handle cfg s o = Ok s' ->
  get c (ctxs s) = Some rc -> get c (ctxs s') = Some rc' -> c_counter rc' = c_counter rc.
Proof. exact StepSpecs_ctx.C10_counter_msg. Qed.
Print Assumptions C10_counter_msg.

Theorem C10_counter_expire_one : forall cfg s c c' rc rc',
  wf_cfg cfg -> Inv cfg s -> In (height s, c) (expq s) -> height s < HEIGHT_BOUND ->
  get c' (ctxs s) = Some rc -> get c' (ctxs (expire_one cfg s c)) = Some rc' ->
  c_counter rc' = c_counter rc.
Proof. exact StepSpecs_ctx.C10_counter_expire_one. Qed.
Print Assumptions C10_counter_expire_one.

Theorem C10_oneshot_expire_one : forall cfg s c rc,
  wf_cfg cfg -> Inv cfg s -> In (height s, c) (expq s) -> height s < HEIGHT_BOUND ->
  get c (ctxs s) = Some rc -> c_rep rc = false ->
  get c (ctxs (expire_one cfg s c)) = None
  /\ has c (expq_h (expire_one cfg s c)) = false /\ has c (newq_h (expire_one cfg s c)) = false.
Proof. exact StepSpecs_ctx.C10_oneshot_expire_one. Qed.
Print Assumptions C10_oneshot_expire_one.

Theorem C10_total_bound_new_one : forall cfg s c c' rc rc',
  wf_cfg cfg -> Inv cfg s -> In (height s, c) (newq s) -> height s < HEIGHT_BOUND ->
  get c' (ctxs s) = Some rc -> get c' (ctxs (new_one cfg s c)) = Some rc' ->
  c_counter rc' = c_counter rc
  \/ (c' = c /\ c_counter rc' = c_counter rc + 1 /\ c_state rc = Running
      /\ (c_rep rc = true -> 0 < c_total rc -> c_counter rc < c_total rc)
      /\ get c (expq_h (new_one cfg s c)) = Some (height s + c_timeout rc)).
Proof. exact StepSpecs_ctx.C10_total_bound_new_one. Qed.
Print Assumptions C10_total_bound_new_one.

Theorem C10_oneshot_new_one : forall cfg s c rc rc',
  wf_cfg cfg -> Inv cfg s -> In (height s, c) (newq s) -> height s < HEIGHT_BOUND ->
  get c (ctxs s) = Some rc -> get c (ctxs (new_one cfg s c)) = Some rc' ->
  c_rep rc = false -> c_counter rc' <> c_counter rc ->
  c_counter rc = 0 /\ c_counter rc' = 1 /\ has c (expq_h (new_one cfg s c)) = true.
Proof. exact StepSpecs_ctx.C10_oneshot_new_one. Qed.
Print Assumptions C10_oneshot_new_one.

(* batches of one context never overlap *)
Theorem C10_no_overlap : forall cfg s c c' rc rc',
  wf_cfg cfg -> Inv cfg s -> In (height s, c) (newq s) -> height s < HEIGHT_BOUND ->
  get c' (ctxs s) = Some rc -> get c' (ctxs (new_one cfg s c)) = Some rc' ->
  c_counter rc' <> c_counter rc ->
  c' = c /\ has c (expq_h s) = false /\ c_bdone rc = true.
Proof. exact StepSpecs_ctx.C10_no_overlap. Qed.
Print Assumptions C10_no_overlap.

(* ---- cadence, step-local ---- *)

(* L1: a batch started at H has its expiry entry at H + timeout *)
Theorem C10_L1_start_expiry : forall cfg s c rc rc',
  wf_cfg cfg -> Inv cfg s -> In (height s, c) (newq s) -> height s < HEIGHT_BOUND ->
  get c (ctxs s) = Some rc -> get c (ctxs (new_one cfg s c)) = Some rc' ->
  c_counter rc' <> c_counter rc ->
  let s' := new_one cfg s c in
  c_counter rc' = c_counter rc + 1
  /\ get c (expq_h s') = Some (height s + c_timeout rc)
  /\ In (height s + c_timeout rc, c) (expq s')
  /\ get c (newq_h s') = None
  /\ c_timeout rc' = c_timeout rc /\ c_freq rc' = c_freq rc /\ c_state rc' = Running
  /\ exists n, In (EvBatchStart c (c_counter rc + 1) (height s) n) (log s').
Proof. exact C10Proofs.C10_L1_start_expiry. Qed.
Print Assumptions C10_L1_start_expiry.

(* L2: the expiry at H' of a running repeated context below its total queues the next batch
   at H' - timeout + frequency (no int64 wrap below HEIGHT_BOUND), never in the past *)
Theorem C10_L2_expiry_next : forall cfg s c rc,
  wf_cfg cfg -> Inv cfg s -> In (height s, c) (expq s) -> height s < HEIGHT_BOUND ->
  get c (ctxs s) = Some rc -> c_state rc = Running -> c_rep rc = true ->
  (c_total rc < 0 \/ c_counter rc < c_total rc) ->
  let s' := expire_one cfg s c in
  let h := height s - c_timeout rc + c_freq rc in
  get c (newq_h s') = Some h /\ In (h, c) (newq s') /\ get c (expq_h s') = None /\ height s <= h
  /\ exists rc', get c (ctxs s') = Some rc' /\ c_counter rc' = c_counter rc
       /\ c_timeout rc' = c_timeout rc /\ c_freq rc' = c_freq rc /\ c_state rc' = Running.
Proof. exact C10Proofs.C10_L2_expiry_next. Qed.
Print Assumptions C10_L2_expiry_next.

(* L3: an entry at the current height is consumed by this EndBlock: the handler runs for it
   from a state that satisfies the invariant and in which the context (record, both pointers)
   is as at the start of EndBlock; the handlers run afterwards in the same phase leave it alone.
   (No entry at a height <= the current one survives EndBlock: Inv_end_block / I_sched.) *)
Theorem C10_L3_expiry_consumed : forall cfg s c,
  wf_cfg cfg -> Inv cfg s -> height s < HEIGHT_BOUND -> In (height s, c) (expq s) ->
  exists sm, Inv cfg sm /\ height sm = height s /\ view c sm = view c s
    /\ In (height sm, c) (expq sm) /\ incl (log s) (log sm)
    /\ view c (after_expiry cfg s) = view c (expire_one cfg sm c).
Proof. exact C10Proofs.C10_L3_expiry_consumed. Qed.
Print Assumptions C10_L3_expiry_consumed.

Theorem C10_L3_newbatch_consumed : forall cfg s c,
  wf_cfg cfg -> Inv cfg s -> height s < HEIGHT_BOUND -> In (height s, c) (newq s) ->
  exists sm, Inv cfg sm /\ height sm = height s /\ view c sm = view c s
    /\ In (height sm, c) (newq sm) /\ incl (log s) (log sm)
    /\ view c (end_blocker cfg s) = view c (new_one cfg sm c).
Proof. exact C10Proofs.C10_L3_newbatch_consumed. Qed.
Print Assumptions C10_L3_newbatch_consumed.

(* L4: a message never moves or removes a queue entry; the only entries it adds are new-batch
   entries at the current height for a context just created, or restarted with nothing pending *)
Theorem C10_L4_msg_queues : forall cfg s o s',
  wf_cfg cfg -> Inv cfg s -> wf_op s o -> (forall dt, o <> OEndBlock dt) ->
  handle cfg s o = Ok s' ->
  height s' = height s /\ expq s' = expq s /\ expq_h s' = expq_h s
  /\ forall c,
       (get c (newq_h s') = get c (newq_h s)
        /\ forall h, In (h, c) (newq s') <-> In (h, c) (newq s))
       \/ (queues_at_now o c /\ get c (newq_h s) = None /\ get c (expq_h s) = None
           /\ get c (newq_h s') = Some (height s)
           /\ forall h, In (h, c) (newq s') <-> h = height s).
Proof. exact C10Proofs.C10_L4_msg_queues. Qed.
Print Assumptions C10_L4_msg_queues.

(* one period: batch started at H (timeout t); when its expiry entry is due (at H + t, L1/L3/L4)
   and the context is still running with timeout t, frequency f, below its total, the next
   batch is queued at exactly H + f *)
Theorem C10_cadence_step : forall cfg s c rc rc' s2 rc2,
  wf_cfg cfg ->
  Inv cfg s -> In (height s, c) (newq s) -> height s < HEIGHT_BOUND ->
  get c (ctxs s) = Some rc -> get c (ctxs (new_one cfg s c)) = Some rc' ->
  c_counter rc' <> c_counter rc ->
  Inv cfg s2 -> height s2 < HEIGHT_BOUND ->
  In (height s + c_timeout rc, c) (expq s2) -> height s2 = height s + c_timeout rc ->
  get c (ctxs s2) = Some rc2 ->
  c_state rc2 = Running -> c_timeout rc2 = c_timeout rc -> c_rep rc2 = true ->
  (c_total rc2 < 0 \/ c_counter rc2 < c_total rc2) ->
  get c (expq_h (new_one cfg s c)) = Some (height s + c_timeout rc)
  /\ get c (newq_h (expire_one cfg s2 c)) = Some (height s + c_freq rc2)
  /\ In (height s + c_freq rc2, c) (newq (expire_one cfg s2 c)).
Proof. exact C10Proofs.C10_cadence_step. Qed.
Print Assumptions C10_cadence_step.

(* ---- cadence, trace ---- *)
(* quiet_at c t f s      : c exists in s, is Running, has timeout t and frequency f;
   quiet_run cfg c t f s ops : quiet_at holds after every operation of the run of ops from s;
   wf_run                : the domain hypotheses (wf_op) hold along the run.
   Pauses, restarts and updates emit no event, so "nothing happened to the context in between"
   is a hypothesis on the states at operation boundaries.  (It is needed: example
   TraceCadence.ExC.C10_cadence_needs_quiet.) *)

(* anchor: a reachable state with the batch `counter` of c in flight, expiry entry at E.
   If batch counter + 1 is ever started along a quiet run, it is started at E - t + f. *)
Theorem C10_cadence : forall cfg s c rc E ops H' k,
  wf_cfg cfg -> Reach cfg s ->
  get c (ctxs s) = Some rc -> get c (expq_h s) = Some E ->
  wf_run cfg s ops ->
  quiet_at c (c_timeout rc) (c_freq rc) s ->
  quiet_run cfg c (c_timeout rc) (c_freq rc) s ops ->
  In (EvBatchStart c (c_counter rc + 1) H' k) (log (run cfg s ops)) ->
  H' = E - c_timeout rc + c_freq rc.
Proof. exact TraceCadence.C10_cadence. Qed.
Print Assumptions C10_cadence.

(* consecutive starts: the EndBlock of height H starts a batch of c (index counter + 1,
   timeout t, frequency f); along a quiet run from the state after that EndBlock, the next
   batch (index counter + 2) starts at exactly H + f *)
Theorem C10_cadence_consecutive : forall cfg s0 c rc0 dt ops H' k,
  wf_cfg cfg -> Reach cfg s0 -> height s0 < HEIGHT_BOUND -> 0 <= dt ->
  In (height s0, c) (newq s0) -> get c (ctxs s0) = Some rc0 ->
  c_state rc0 = Running -> d5 rc0 = false ->
  let s1 := end_block cfg s0 dt in
  has c (expq_h s1) = true ->
  wf_run cfg s1 ops ->
  quiet_at c (c_timeout rc0) (c_freq rc0) s1 ->
  quiet_run cfg c (c_timeout rc0) (c_freq rc0) s1 ops ->
  In (EvBatchStart c (c_counter rc0 + 2) H' k) (log (run cfg s1 ops)) ->
  H' = height s0 + c_freq rc0.
Proof. exact TraceCadence.C10_cadence_consecutive. Qed.
Print Assumptions C10_cadence_consecutive.

(* ------------------------------------------------------------------ *)
(* Liveness, the first batch end to end, and the bounds read off the log (Proofs/GapC10.v) *)

(* LIVENESS half of the cadence.  Anchor as in C10_cadence, the context repeated.  If it stays
   Running with the same timeout t and frequency f at every operation boundary of the run and the
   chain has passed height E - t + f, then batch counter + 1 HAS been started at exactly that
   height: the start event IS in the log.  (If the consumer runs out of funds, the total is
   reached, or the context is paused, killed or re-timed, [quiet_run] is false: liveness is
   exactly "stays running with unchanged timeout and frequency".) *)
Theorem C10_cadence_live : forall cfg s c rc E ops,
  wf_cfg cfg -> Reach cfg s ->
  get c (ctxs s) = Some rc -> get c (expq_h s) = Some E -> c_rep rc = true ->
  wf_run cfg s ops ->
  quiet_at c (c_timeout rc) (c_freq rc) s ->
  quiet_run cfg c (c_timeout rc) (c_freq rc) s ops ->
  E - c_timeout rc + c_freq rc < height (run cfg s ops) ->
  exists k, In (EvBatchStart c (c_counter rc + 1) (E - c_timeout rc + c_freq rc) k)
                (log (run cfg s ops)).
Proof. exact GapC10.cadence_live. Qed.
Print Assumptions C10_cadence_live.

(* consecutive starts, existence and exact height together: batch n started by the EndBlock of
   height H; along a quiet run that has passed H + f, batch n + 1 has been started, and every
   start of batch n + 1 in the log is at exactly H + f *)
Theorem C10_cadence_live_consecutive : forall cfg s0 c rc0 dt ops,
  wf_cfg cfg -> Reach cfg s0 -> height s0 < HEIGHT_BOUND -> 0 <= dt ->
  In (height s0, c) (newq s0) -> get c (ctxs s0) = Some rc0 ->
  c_state rc0 = Running -> d5 rc0 = false -> c_rep rc0 = true ->
  let s1 := end_block cfg s0 dt in
  has c (expq_h s1) = true ->
  wf_run cfg s1 ops ->
  quiet_at c (c_timeout rc0) (c_freq rc0) s1 ->
  quiet_run cfg c (c_timeout rc0) (c_freq rc0) s1 ops ->
  height s0 + c_freq rc0 < height (run cfg s1 ops) ->
  (exists k, In (EvBatchStart c (c_counter rc0 + 2) (height s0 + c_freq rc0) k)
                (log (run cfg s1 ops)))
  /\ (forall H' k', In (EvBatchStart c (c_counter rc0 + 2) H' k') (log (run cfg s1 ops)) ->
        H' = height s0 + c_freq rc0).
Proof. exact GapC10.cadence_live_consecutive. Qed.
Print Assumptions C10_cadence_live_consecutive.

(* the first batch, end to end: an accepted call (message or module; [creates o c]) for the
   context c in block H = height s0, any messages of the same block, then the EndBlock of that
   block.  At that EndBlock the context still exists with batch counter 0.  If it is still
   Running, batch 1 is started in THIS EndBlock -- issued, or skipped (n = 0); start event at
   height H in the log, expiry queued at H + timeout -- unless the consumer cannot pay, in which
   case (never in super mode) it is Paused with no batch (C06_batch_spec (d) says exactly when).
   If it is no longer Running (paused or killed by the consumer within the block) this EndBlock
   starts no batch. *)
Theorem C10_first_batch_trace : forall cfg s0 o s1 c msgs dt,
  wf_cfg cfg -> Reach cfg s0 -> wf_op s0 o -> creates o c -> handle cfg s0 o = Ok s1 ->
  wf_run cfg s1 msgs -> Forall (fun m => forall d, m <> OEndBlock d) msgs ->
  0 <= dt -> height s0 < HEIGHT_BOUND ->
  let s2 := run cfg s1 msgs in
  let s3 := end_block cfg s2 dt in
  exists rc2, get c (ctxs s2) = Some rc2 /\ c_counter rc2 = 0
    /\ height s2 = height s0 /\ height s3 = height s0 + 1
    /\ (c_state rc2 = Running ->
          (exists n, get c (ctxs s3) = Some (bump rc2 n)
             /\ get c (expq_h s3) = Some (height s0 + c_timeout rc2)
             /\ In (EvBatchStart c 1 (height s0) n) (log s3))
          \/ (get c (ctxs s3) = Some (paused_ctx rc2) /\ get c (expq_h s3) = None
              /\ c_super rc2 = false))
    /\ (c_state rc2 <> Running ->
          match get c (ctxs s3) with
          | None => c_state rc2 = Completed
          | Some rc3 => c_counter rc3 = 0 /\ c_state rc3 = c_state rc2
          end).
Proof. exact GapC10.first_batch_trace. Qed.
Print Assumptions C10_first_batch_trace.

(* the first batch, DECIDED: same situation; the context is still due, with the same record,
   after the expiry phase of that EndBlock, and if its consumer has no other context due in this
   block the outcome is the one computed by [GapC06.new_outcome] on the post-expiry state sx
   (C06_end_block_outcome): Paused-for-funds exactly when not super mode and the consumer's
   balance in sx is below the total price of a sufficient eligible set; otherwise issued (one
   request per eligible provider, ids (c, 1, H, k), expiry H + timeout, charge = sum of prices)
   or skipped; nothing if the consumer paused / killed it within the block *)
Theorem C10_first_batch_decided : forall cfg s0 o s1 c msgs dt,
  wf_cfg cfg -> Reach cfg s0 -> wf_op s0 o -> creates o c -> handle cfg s0 o = Ok s1 ->
  wf_run cfg s1 msgs -> Forall (fun m => forall d, m <> OEndBlock d) msgs ->
  0 <= dt -> height s0 < HEIGHT_BOUND ->
  let s2 := run cfg s1 msgs in
  let sx := fold_left (expire_one cfg) (due (expq s2) (height s2)) s2 in
  let s3 := end_block cfg s2 dt in
  exists rc2, get c (ctxs s2) = Some rc2 /\ c_counter rc2 = 0 /\ height s2 = height s0
    /\ get c (ctxs sx) = Some rc2 /\ In (height s2, c) (newq sx)
    /\ ((forall c' rc', In (height s2, c') (newq sx) -> c' <> c -> get c' (ctxs sx) = Some rc' ->
                        c_cons rc' <> c_cons rc2) ->
        let E := filter_providers sx rc2 (c_provs rc2) in
        let charge := if c_super rc2 then 0 else sum_prices E in
        let kept := (forall r, rid_ctx r = c -> get r (reqs s3) = get r (reqs sx))
                    /\ bal s3 (User (c_cons rc2)) = bal sx (User (c_cons rc2)) in
        match new_outcome sx rc2 with
        | ONotRunning => get c (ctxs s3) = Some rc2 /\ kept
        | ORemoved => get c (ctxs s3) = None /\ kept
        | OSkipped => get c (ctxs s3) = Some (bump rc2 0) /\ kept
        | OPausedFunds => get c (ctxs s3) = Some (paused_ctx rc2) /\ kept
        | OIssued =>
            get c (ctxs s3) = Some (bump rc2 (len E))
            /\ (forall k p price, nth_error E k = Some (p, price) ->
                  get (c, 1, height s0, Z.of_nat k) (reqs s3)
                  = Some (mkReq p (if c_super rc2 then 0 else price) (height s0 + c_timeout rc2) true))
            /\ bal s3 (User (c_cons rc2)) = bal sx (User (c_cons rc2)) - charge
            /\ 0 <= charge <= bal sx (User (c_cons rc2))
        end).
Proof. exact GapC10.first_batch_decided. Qed.
Print Assumptions C10_first_batch_decided.

(* every batch start in the log of a reachable state, for a context that still exists: its index
   is between 1 and the counter; at most the CURRENT total for a repeated context with a positive
   total; exactly 1 for a one-shot context; and every batch before the current one was completed
   before (no two batches in flight) *)
Theorem C10_starts_bounded : forall cfg s c rc n H k,
  wf_cfg cfg -> Reach cfg s -> get c (ctxs s) = Some rc ->
  In (EvBatchStart c n H k) (log s) ->
  1 <= n <= c_counter rc
  /\ (c_rep rc = true -> 0 < c_total rc -> n <= c_total rc)
  /\ (c_rep rc = false -> n = 1)
  /\ (n < c_counter rc -> In (EvBatchDone c n) (log s)).
Proof. exact GapC10.starts_bounded. Qed.
Print Assumptions C10_starts_bounded.

(* satisfiable: by C10_cadence_live, batch 2 of the repeated context c2 (timeout 5, frequency 10,
   batch 1 started at height 1) is in the log at height 11 once the chain is at height 12 *)
Theorem C10_cadence_live_example :
  exists k, In (EvBatchStart BatchEx.BEx.c2 2 11 k)
              (log (run BatchEx.BEx.cfg0 BatchEx.BEx.s_b TraceCadence.ExC.ops_tail)).
Proof. exact GapC10.ExL.cadence_live_applies. Qed.
Print Assumptions C10_cadence_live_example.

Theorem C10_first_batch_trace_example :
  Reach BatchEx.BEx.cfg0 GapC10.ExL.s_pre /\ wf_op GapC10.ExL.s_pre GapC10.ExL.o_call
  /\ creates GapC10.ExL.o_call BatchEx.BEx.c1
  /\ (exists s1, handle BatchEx.BEx.cfg0 GapC10.ExL.s_pre GapC10.ExL.o_call = Ok s1
        /\ wf_run BatchEx.BEx.cfg0 s1 GapC10.ExL.msgs1
        /\ end_block BatchEx.BEx.cfg0 (run BatchEx.BEx.cfg0 s1 GapC10.ExL.msgs1) 1 = BatchEx.BEx.s_b)
  /\ Forall (fun m => forall d, m <> OEndBlock d) GapC10.ExL.msgs1
  /\ height GapC10.ExL.s_pre < HEIGHT_BOUND.
Proof. exact GapC10.ExL.first_batch_hyps. Qed.
Print Assumptions C10_first_batch_trace_example.

(* ------------------------------------------------------------------------------------------
   Known finding K3 inside the model (DESIGN.md 12.10). `XCallMod` (Model/ModSvc.v) is the
   module-service branch of MsgCallService, executed by `xstep` on top of `pstep`; exclusion
   X-K3 is "the history contains no XCallMod" (`k3_free`).  The statements below are refuted /
   proved in Proofs/K3.v on concrete reachable witnesses (corpus history W10) by vm_compute. *)
From Coq Require Import List ZArith Bool Lia.
From SVC Require Import Base.AMap Base.Res Base.Dec Model.Types Model.Pricing Model.Handlers Model.EndBlock Model.Step Model.ParamStep Model.ModSvc Model.Genesis Proofs.Inv Proofs.ParamChange Proofs.K3.
Import ListNotations.
Open Scope Z_scope.

Theorem C10_K3_second_batch_refuted :
  exists (cfg : Params) (s : State) (o : XOp) (dt : Z) (s' s'' : State) (c : CtxId) 
         (rc' rc'' : Ctx),
           wf_cfg cfg /\
           Reach cfg s /\
           is_callmod o = true /\
           xstep (cfg, s) o = (cfg, s', ROk) /\
           xstep (cfg, s') (XP (PO (OEndBlock dt))) = (cfg, s'', ROk) /\
           get c (ctxs s') = Some rc' /\
           c_rep rc' = false /\
           c_counter rc' = 1 /\
           c_bdone rc' = true /\
           c_state rc' = Running /\
           get c (newq_h s') = Some (height s') /\
           get c (expq_h s') = None /\
           ~ I_ctx cfg s' /\
           get c (ctxs s'') = Some rc'' /\ c_rep rc'' = false /\ c_counter rc'' = 2 /\ ~ I_ctx cfg s''.
Proof. exact K3.K3_second_batch_refuted. Qed.
Print Assumptions C10_K3_second_batch_refuted.

(* ---- governance parameter changes inside a history (Model/ParamStep.v, Proofs/ParamChange.v,
   Proofs/ReachPProps.v) ----
   The state-invariant statements above, with `wf_cfg cfg -> Reach cfg s` (parameters fixed along
   the history) replaced by `ReachP cfg s`: initial state; operations under the parameters in
   force; changes to a well-formed parameter set that does not raise the minimum-deposit terms
   nor lower the maximum request timeout (tax, slash fraction, arbitration and complaint periods
   change freely).  cfg is the parameter set in force in s.  Same conclusions. *)

Theorem C10_oneshot_le_1_param_changes :
  forall cfg s, ReachP cfg s -> forall c rc,
  get c (ctxs s) = Some rc -> c_rep rc = false ->
  (c_counter rc = 0 /\ has c (expq_h s) = false)
  \/ (c_counter rc = 1 /\ c_state rc = Running /\ has c (expq_h s) = true).
Proof. exact ReachPProps.oneshot_le_1_P. Qed.
Print Assumptions C10_oneshot_le_1_param_changes.

Theorem C10_total_bound_param_changes :
  forall cfg s, ReachP cfg s -> forall c rc,
  get c (ctxs s) = Some rc ->
  c_rep rc = true -> 0 < c_total rc -> 0 <= c_counter rc <= c_total rc.
Proof. exact ReachPProps.total_bound_P. Qed.
Print Assumptions C10_total_bound_param_changes.

Theorem C10_first_batch_inv_param_changes :
  forall cfg s, ReachP cfg s -> forall c rc,
  get c (ctxs s) = Some rc -> c_counter rc = 0 ->
  get c (expq_h s) = None
  /\ (c_state rc = Running ->
        exists h, get c (newq_h s) = Some h /\ In (h, c) (newq s) /\ height s <= h).
Proof. exact ReachPProps.first_batch_inv_P. Qed.
Print Assumptions C10_first_batch_inv_param_changes.
