// translator: types/keys.go -> coq/gen/KeysGen.v
//
// Reads the key builders of the service module with go/parser and emits one
// Gallina Definition per function as a flat `concat [...]` of byte lists.
// The accepted Go fragment is deliberately tiny (DESIGN.md 4.1); anything
// outside it is a translation failure (exit status 1, message naming the
// function): a broken obligation, never something to approximate.
//
// Accepted:
//   - a `var ( Name = []byte{0x..,...} ... )` block of byte-literal prefixes;
//   - `const` blocks of basic literals / identifiers (ignored: not keys);
//   - functions without receiver, returning []byte, whose parameters have type
//     string, sdk.AccAddress, []byte, int64 or uint64, and whose body is
//     zero or more `x := E` (each x assigned once, used as a byte operand)
//     followed by `return E`, where
//     E ::= append(E, E...) | PrefixVar | EmptyByte | local | bytesParam
//     | []byte(stringParam) | addrParam.Bytes()
//     | sdk.Uint64ToBigEndian(uint64(int64Param)) | sdk.Uint64ToBigEndian(uint64Param)
//     | getStringsKey([]string{S,...})        S ::= stringParam | addrParam.String()
//   - getStringsKey itself, only with exactly the AST recorded below (join with
//     EmptyByte, no trailing separator).
//
// Output is deterministic (source order, no maps iterated) and flattening makes
// any re-nesting of append produce the same term.
package main

import (
	"bytes"
	"flag"
	"fmt"
	"go/ast"
	"go/parser"
	"go/printer"
	"go/token"
	"os"
	"strconv"
	"strings"
)

type kind int

const (
	kString kind = iota // Go string  -> bytes
	kAddr               // sdk.AccAddress -> bytes
	kBytes              // []byte -> bytes
	kInt64              // int64 -> Z
	kUint64             // uint64 -> N
)

type param struct {
	name string
	k    kind
	used bool
}

type tr struct {
	fset     *token.FileSet
	prefixes map[string]bool // names of the byte-literal vars
	fn       string          // function being translated (for messages)
	params   map[string]*param
	locals   map[string][]string
	localUse map[string]bool
}

type failure struct{ msg string }

func (t *tr) fail(n ast.Node, format string, a ...interface{}) {
	pos := ""
	if n != nil {
		pos = t.fset.Position(n.Pos()).String() + ": "
	}
	where := ""
	if t.fn != "" {
		where = "function " + t.fn + ": "
	}
	panic(failure{pos + where + fmt.Sprintf(format, a...)})
}

func (t *tr) src(n ast.Node) string {
	var b bytes.Buffer
	printer.Fprint(&b, t.fset, n)
	return b.String()
}

// The one function that is not an append-expression. It is accepted only if its
// printed declaration is exactly this text; its meaning (join the strings with
// EmptyByte, nothing for an empty list) is then built into flattenStringsKey.
const getStringsKeySrc = `func getStringsKey(ss []string) (result []byte) {
	for _, s := range ss {
		result = append(append(result, []byte(s)...), EmptyByte...)
	}

	if len(result) > 0 {
		return result[0 : len(result)-1]
	}

	return
}`

func isSel(e ast.Expr, x, sel string) bool {
	s, ok := e.(*ast.SelectorExpr)
	if !ok || s.Sel.Name != sel {
		return false
	}
	id, ok := s.X.(*ast.Ident)
	return ok && id.Name == x
}

func isByteSlice(e ast.Expr) bool {
	a, ok := e.(*ast.ArrayType)
	if !ok || a.Len != nil {
		return false
	}
	id, ok := a.Elt.(*ast.Ident)
	return ok && id.Name == "byte"
}

func isStringSlice(e ast.Expr) bool {
	a, ok := e.(*ast.ArrayType)
	if !ok || a.Len != nil {
		return false
	}
	id, ok := a.Elt.(*ast.Ident)
	return ok && id.Name == "string"
}

func (t *tr) paramKind(e ast.Expr) kind {
	switch {
	case isByteSlice(e):
		return kBytes
	case isSel(e, "sdk", "AccAddress"):
		return kAddr
	}
	if id, ok := e.(*ast.Ident); ok {
		switch id.Name {
		case "string":
			return kString
		case "int64":
			return kInt64
		case "uint64":
			return kUint64
		}
	}
	t.fail(e, "parameter type %s is outside the accepted fragment", t.src(e))
	return 0
}

func (t *tr) useParam(id *ast.Ident, want kind, what string) string {
	p, ok := t.params[id.Name]
	if !ok {
		t.fail(id, "%s: %s is not a parameter", what, id.Name)
	}
	if p.k != want {
		t.fail(id, "%s: parameter %s has the wrong type", what, id.Name)
	}
	p.used = true
	return coqName(id.Name)
}

// flatten returns the operands of the concatenation denoted by e.
func (t *tr) flatten(e ast.Expr) []string {
	switch x := e.(type) {
	case *ast.ParenExpr:
		return t.flatten(x.X)
	case *ast.Ident:
		if t.prefixes[x.Name] {
			return []string{x.Name}
		}
		if ops, ok := t.locals[x.Name]; ok {
			t.localUse[x.Name] = true
			return append([]string(nil), ops...)
		}
		if p, ok := t.params[x.Name]; ok {
			if p.k != kBytes {
				t.fail(x, "parameter %s used as bytes but is not []byte", x.Name)
			}
			p.used = true
			return []string{coqName(x.Name)}
		}
		t.fail(x, "identifier %s is neither a prefix variable, a local nor a []byte parameter", x.Name)
	case *ast.CallExpr:
		// []byte(s)
		if isByteSlice(x.Fun) {
			if len(x.Args) != 1 || x.Ellipsis.IsValid() {
				t.fail(x, "malformed []byte conversion")
			}
			id, ok := x.Args[0].(*ast.Ident)
			if !ok {
				t.fail(x, "[]byte(...) of something that is not a string parameter: %s", t.src(x))
			}
			return []string{t.useParam(id, kString, "[]byte(...)")}
		}
		// a.Bytes()
		if s, ok := x.Fun.(*ast.SelectorExpr); ok && s.Sel.Name == "Bytes" && len(x.Args) == 0 {
			id, ok := s.X.(*ast.Ident)
			if !ok {
				t.fail(x, "Bytes() on something that is not a parameter: %s", t.src(x))
			}
			return []string{t.useParam(id, kAddr, ".Bytes()")}
		}
		// sdk.Uint64ToBigEndian(...)
		if isSel(x.Fun, "sdk", "Uint64ToBigEndian") {
			if len(x.Args) != 1 || x.Ellipsis.IsValid() {
				t.fail(x, "malformed Uint64ToBigEndian call")
			}
			switch a := x.Args[0].(type) {
			case *ast.Ident:
				return []string{"be64 " + t.useParam(a, kUint64, "Uint64ToBigEndian(n)")}
			case *ast.CallExpr:
				if f, ok := a.Fun.(*ast.Ident); ok && f.Name == "uint64" && len(a.Args) == 1 && !a.Ellipsis.IsValid() {
					if id, ok := a.Args[0].(*ast.Ident); ok {
						return []string{"be64 (u64 " + t.useParam(id, kInt64, "Uint64ToBigEndian(uint64(h))") + ")"}
					}
				}
			}
			t.fail(x, "argument of Uint64ToBigEndian outside the accepted fragment: %s", t.src(x))
		}
		if f, ok := x.Fun.(*ast.Ident); ok {
			switch f.Name {
			case "append":
				if len(x.Args) != 2 || !x.Ellipsis.IsValid() {
					t.fail(x, "append must have the form append(x, y...): %s", t.src(x))
				}
				l := t.flatten(x.Args[0])
				r := t.flatten(x.Args[1])
				return append(l, r...)
			case "getStringsKey":
				if len(x.Args) != 1 || x.Ellipsis.IsValid() {
					t.fail(x, "malformed getStringsKey call")
				}
				return t.flattenStringsKey(x.Args[0])
			}
		}
		t.fail(x, "call outside the accepted fragment: %s", t.src(x))
	}
	t.fail(e, "expression outside the accepted fragment: %s", t.src(e))
	return nil
}

// getStringsKey([]string{s1,...,sn}) = s1 ++ 0x00 ++ ... ++ 0x00 ++ sn
func (t *tr) flattenStringsKey(e ast.Expr) []string {
	cl, ok := e.(*ast.CompositeLit)
	if !ok || !isStringSlice(cl.Type) {
		t.fail(e, "getStringsKey needs a []string{...} literal: %s", t.src(e))
	}
	var ops []string
	for i, el := range cl.Elts {
		if i > 0 {
			ops = append(ops, "EmptyByte")
		}
		switch s := el.(type) {
		case *ast.Ident:
			ops = append(ops, t.useParam(s, kString, "getStringsKey element"))
		case *ast.CallExpr:
			sel, ok := s.Fun.(*ast.SelectorExpr)
			if !ok || sel.Sel.Name != "String" || len(s.Args) != 0 {
				t.fail(el, "getStringsKey element outside the accepted fragment: %s", t.src(el))
			}
			id, ok := sel.X.(*ast.Ident)
			if !ok {
				t.fail(el, "String() on something that is not a parameter: %s", t.src(el))
			}
			ops = append(ops, "bech "+t.useParam(id, kAddr, ".String()"))
		default:
			t.fail(el, "getStringsKey element outside the accepted fragment: %s", t.src(el))
		}
	}
	return ops
}

var coqReserved = map[string]bool{
	"at": true, "as": true, "in": true, "end": true, "fun": true, "let": true, "match": true,
	"return": true, "then": true, "else": true, "if": true, "with": true, "forall": true,
	"exists": true, "fix": true, "cofix": true, "for": true, "where": true, "using": true,
	"Type": true, "Prop": true, "Set": true, "SProp": true, "bech": true, "be64": true, "u64": true,
	"bytes": true, "byte": true, "concat": true,
}

func coqName(s string) string {
	if coqReserved[s] {
		return s + "_"
	}
	return s
}

func coqType(k kind) string {
	switch k {
	case kInt64:
		return "Z"
	case kUint64:
		return "N"
	}
	return "bytes"
}

type fnOut struct {
	name     string
	params   []*param
	ops      []string
	usesBech bool
}

func (t *tr) function(fd *ast.FuncDecl) fnOut {
	t.fn = fd.Name.Name
	defer func() { t.fn = "" }()
	if fd.Recv != nil {
		t.fail(fd, "methods are outside the accepted fragment")
	}
	if fd.Type.Results == nil || len(fd.Type.Results.List) != 1 || len(fd.Type.Results.List[0].Names) != 0 ||
		!isByteSlice(fd.Type.Results.List[0].Type) {
		t.fail(fd, "result type must be a single unnamed []byte")
	}
	t.params = map[string]*param{}
	t.locals = map[string][]string{}
	t.localUse = map[string]bool{}
	var plist []*param
	for _, f := range fd.Type.Params.List {
		k := t.paramKind(f.Type)
		if len(f.Names) == 0 {
			t.fail(f, "unnamed parameter")
		}
		for _, n := range f.Names {
			if n.Name == "_" || t.params[n.Name] != nil || t.prefixes[n.Name] {
				t.fail(n, "parameter name %s is blank, repeated or shadows a prefix variable", n.Name)
			}
			p := &param{name: n.Name, k: k}
			t.params[n.Name] = p
			plist = append(plist, p)
		}
	}
	if fd.Body == nil || len(fd.Body.List) == 0 {
		t.fail(fd, "empty body")
	}
	var ops []string
	for i, st := range fd.Body.List {
		last := i == len(fd.Body.List)-1
		switch s := st.(type) {
		case *ast.AssignStmt:
			if last {
				t.fail(s, "body must end with a return")
			}
			if s.Tok != token.DEFINE || len(s.Lhs) != 1 || len(s.Rhs) != 1 {
				t.fail(s, "only single `x := e` definitions are accepted: %s", t.src(s))
			}
			id, ok := s.Lhs[0].(*ast.Ident)
			if !ok || id.Name == "_" {
				t.fail(s, "only single `x := e` definitions are accepted: %s", t.src(s))
			}
			if t.params[id.Name] != nil || t.prefixes[id.Name] || t.locals[id.Name] != nil {
				t.fail(s, "local %s shadows or redefines a name", id.Name)
			}
			v := t.flatten(s.Rhs[0])
			if v == nil {
				v = []string{}
			}
			t.locals[id.Name] = v
		case *ast.ReturnStmt:
			if !last {
				t.fail(s, "return must be the last statement")
			}
			if len(s.Results) != 1 {
				t.fail(s, "return must have exactly one result")
			}
			ops = t.flatten(s.Results[0])
		default:
			t.fail(st, "statement outside the accepted fragment: %s", t.src(st))
		}
	}
	for _, st := range fd.Body.List {
		if s, ok := st.(*ast.AssignStmt); ok {
			n := s.Lhs[0].(*ast.Ident).Name
			if !t.localUse[n] {
				t.fail(s, "local %s is never used", n)
			}
		}
	}
	out := fnOut{name: fd.Name.Name, params: plist, ops: ops}
	for _, o := range ops {
		if strings.HasPrefix(o, "bech ") {
			out.usesBech = true
		}
	}
	return out
}

type prefixOut struct {
	name string
	vals []uint64
}

func (t *tr) varBlock(gd *ast.GenDecl) []prefixOut {
	var out []prefixOut
	for _, sp := range gd.Specs {
		vs := sp.(*ast.ValueSpec)
		if vs.Type != nil || len(vs.Names) != 1 || len(vs.Values) != 1 {
			t.fail(vs, "var declaration outside the accepted fragment (need Name = []byte{...}): %s", t.src(vs))
		}
		name := vs.Names[0].Name
		cl, ok := vs.Values[0].(*ast.CompositeLit)
		if !ok || !isByteSlice(cl.Type) || len(cl.Elts) == 0 {
			t.fail(vs, "var %s is not a non-empty []byte{...} literal", name)
		}
		var vals []uint64
		for _, el := range cl.Elts {
			bl, ok := el.(*ast.BasicLit)
			if !ok || bl.Kind != token.INT {
				t.fail(el, "var %s: element is not an integer literal", name)
			}
			v, err := strconv.ParseUint(bl.Value, 0, 8)
			if err != nil {
				t.fail(el, "var %s: element %s is not a byte", name, bl.Value)
			}
			vals = append(vals, v)
		}
		if t.prefixes[name] {
			t.fail(vs, "var %s declared twice", name)
		}
		t.prefixes[name] = true
		out = append(out, prefixOut{name, vals})
	}
	return out
}

func (t *tr) constBlock(gd *ast.GenDecl) {
	for _, sp := range gd.Specs {
		vs := sp.(*ast.ValueSpec)
		for _, v := range vs.Values {
			switch v.(type) {
			case *ast.BasicLit, *ast.Ident:
			default:
				t.fail(vs, "const declaration outside the accepted fragment: %s", t.src(vs))
			}
		}
	}
}

func translate(in string) (res string, err error) {
	t := &tr{fset: token.NewFileSet(), prefixes: map[string]bool{}}
	defer func() {
		if r := recover(); r != nil {
			if f, ok := r.(failure); ok {
				err = fmt.Errorf("%s", f.msg)
				return
			}
			panic(r)
		}
	}()
	file, perr := parser.ParseFile(t.fset, in, nil, 0)
	if perr != nil {
		return "", perr
	}
	var prefixes []prefixOut
	var fns []fnOut
	sawStringsKey := false
	// first pass: prefixes (functions may precede the var block in principle)
	for _, d := range file.Decls {
		if gd, ok := d.(*ast.GenDecl); ok {
			switch gd.Tok {
			case token.IMPORT:
			case token.CONST:
				t.constBlock(gd)
			case token.VAR:
				prefixes = append(prefixes, t.varBlock(gd)...)
			default:
				t.fail(gd, "declaration outside the accepted fragment: %s", gd.Tok)
			}
		}
	}
	if !t.prefixes["EmptyByte"] {
		t.fail(nil, "EmptyByte is not declared")
	}
	for _, d := range file.Decls {
		fd, ok := d.(*ast.FuncDecl)
		if !ok {
			continue
		}
		if fd.Name.Name == "getStringsKey" {
			fd.Doc = nil
			if got := t.src(fd); got != getStringsKeySrc {
				t.fn = "getStringsKey"
				t.fail(fd, "body differs from the recorded one; its meaning is built into the translator and must be re-established by hand.\n--- got ---\n%s\n--- expected ---\n%s", got, getStringsKeySrc)
			}
			sawStringsKey = true
			continue
		}
		fns = append(fns, t.function(fd))
	}
	usesStringsKey := false
	for _, f := range fns {
		if f.usesBech {
			usesStringsKey = true
		}
	}
	if usesStringsKey && !sawStringsKey {
		t.fail(nil, "getStringsKey is used but not declared")
	}

	var b strings.Builder
	b.WriteString("(* GENERATED by translator from types/keys.go. Do not edit; regenerated on every build. *)\n")
	b.WriteString("From Coq Require Import List NArith ZArith.\nFrom Coq Require String.\n")
	b.WriteString("From SVC Require Import Base.Bytes.\n")
	b.WriteString("Import ListNotations.\n")
	b.WriteString("Local Open Scope N_scope.\n\n")
	for _, p := range prefixes {
		var el, hx []string
		for _, v := range p.vals {
			el = append(el, strconv.FormatUint(v, 10))
			hx = append(hx, fmt.Sprintf("0x%02x", v))
		}
		fmt.Fprintf(&b, "Definition %s : bytes := [%s]. (* %s *)\n", p.name, strings.Join(el, "; "), strings.Join(hx, " "))
	}
	b.WriteString("\nSection Keys.\n")
	b.WriteString("(* the text of sdk.AccAddress.String(), as bytes *)\n")
	b.WriteString("Variable bech : bytes -> bytes.\n\n")
	for _, f := range fns {
		var ps []string
		for _, p := range f.params {
			ps = append(ps, fmt.Sprintf("(%s : %s)", coqName(p.name), coqType(p.k)))
			if !p.used {
				fmt.Fprintf(&b, "(* NOTE: %s does not use its parameter %s *)\n", f.name, p.name)
			}
		}
		sig := f.name
		if len(ps) > 0 {
			sig += " " + strings.Join(ps, " ")
		}
		fmt.Fprintf(&b, "Definition %s : bytes :=\n  concat [%s].\n\n", sig, strings.Join(f.ops, "; "))
	}
	b.WriteString("End Keys.\n\n")
	b.WriteString("(* manifest: the proofs state which functions they cover and compare with this *)\n")
	b.WriteString("Import String.\n")
	var names, pnames []string
	for _, f := range fns {
		names = append(names, fmt.Sprintf("%q", f.name))
	}
	for _, p := range prefixes {
		pnames = append(pnames, fmt.Sprintf("%q", p.name))
	}
	fmt.Fprintf(&b, "Definition KeysGen_prefixes : list String.string :=\n  [%s]%%string.\n", strings.Join(pnames, ";\n   "))
	fmt.Fprintf(&b, "Definition KeysGen_functions : list String.string :=\n  [%s]%%string.\n", strings.Join(names, ";\n   "))
	return b.String(), nil
}

func main() {
	in := flag.String("in", "", "path of types/keys.go")
	out := flag.String("out", "", "path of the generated KeysGen.v")
	flag.Parse()
	if *in == "" || *out == "" {
		fmt.Fprintln(os.Stderr, "usage: translator -in keys.go -out KeysGen.v")
		os.Exit(2)
	}
	s, err := translate(*in)
	if err != nil {
		fmt.Fprintln(os.Stderr, "K-translate FAILED:", err)
		os.Exit(1)
	}
	if err := os.WriteFile(*out, []byte(s), 0644); err != nil {
		fmt.Fprintln(os.Stderr, "K-translate FAILED:", err)
		os.Exit(1)
	}
}
