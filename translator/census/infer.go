package main

// A deliberately small, purely syntactic type guesser. It never fails: what it
// cannot tell is "unknown" (typ with nil expression), and the site walker then
// errs on the side of listing (e.g. kind "index?").

import (
	"go/ast"
	"go/parser"
	"go/token"
)

// typ is a type expression read in the context (package, imports) of a file.
type typ struct {
	f *srcFile
	e ast.Expr
}

func (t typ) known() bool { return t.e != nil }

// ---- external types the guesser knows about (everything else is opaque) ------

// canonical aliases of the external packages mentioned in the tables below
var canonAlias = map[string]string{
	"github.com/cosmos/cosmos-sdk/types":          "sdk",
	"github.com/tendermint/tendermint/libs/bytes": "tmbytes",
	"encoding/json":   "json",
	"encoding/binary": "binary",
	"strings":         "strings",
	"time":            "time",
	"math":            "math",
}

var extFile = func() *srcFile {
	f := &srcFile{rel: "<external>", imports: map[string]string{}}
	for path, alias := range canonAlias {
		f.imports[alias] = path
	}
	return f
}()

// underlying types of external named types
var extTypes = map[string]string{
	"sdk.Coins":        "[]sdk.Coin",
	"sdk.DecCoins":     "[]sdk.DecCoin",
	"sdk.Coin":         "struct{Denom string; Amount sdk.Int}",
	"sdk.DecCoin":      "struct{Denom string; Amount sdk.Dec}",
	"sdk.AccAddress":   "[]byte",
	"sdk.ValAddress":   "[]byte",
	"sdk.ConsAddress":  "[]byte",
	"sdk.Events":       "[]sdk.Event",
	"tmbytes.HexBytes": "[]byte",
	"json.RawMessage":  "[]byte",
	"time.Duration":    "int64",
}

// result type of external functions (first result)
var extFuncs = map[string]string{
	"sdk.NewCoins": "sdk.Coins", "sdk.NewCoin": "sdk.Coin", "sdk.NewInt64Coin": "sdk.Coin",
	"sdk.NewInt": "sdk.Int", "sdk.ZeroInt": "sdk.Int", "sdk.OneInt": "sdk.Int",
	"sdk.NewDec": "sdk.Dec", "sdk.NewDecFromInt": "sdk.Dec", "sdk.NewDecWithPrec": "sdk.Dec",
	"sdk.ZeroDec": "sdk.Dec", "sdk.OneDec": "sdk.Dec", "sdk.NewDecFromStr": "sdk.Dec",
	"sdk.NewDecCoin": "sdk.DecCoin", "sdk.NewDecCoinFromDec": "sdk.DecCoin", "sdk.NewDecCoinFromCoin": "sdk.DecCoin",
	"sdk.ParseCoin": "sdk.Coin", "sdk.ParseCoins": "sdk.Coins", "sdk.ParseDecCoin": "sdk.DecCoin",
	"sdk.Uint64ToBigEndian": "[]byte", "sdk.BigEndianToUint64": "uint64",
	"sdk.KVStorePrefixIterator": "sdk.Iterator", "sdk.KVStoreReversePrefixIterator": "sdk.Iterator",
	"sdk.AccAddressFromBech32": "sdk.AccAddress", "sdk.AccAddressFromHex": "sdk.AccAddress",
	"strings.Split": "[]string", "strings.Fields": "[]string", "strings.TrimSpace": "string",
	"strings.ToLower": "string", "strings.Index": "int",
	"math.Pow10": "float64", "math.Pow": "float64",
	"binary.BigEndian.Uint64": "uint64", "binary.BigEndian.Uint16": "uint16", "binary.BigEndian.Uint32": "uint32",
}

// result type of methods of external types ("*" = any receiver)
var extMethods = map[string]string{
	"sdk.Coins.Add": "sdk.Coins", "sdk.Coins.Sub": "sdk.Coins", "sdk.Coins.SafeSub": "sdk.Coins",
	"sdk.Coins.AmountOf": "sdk.Int", "sdk.Coins.Sort": "sdk.Coins",
	"sdk.DecCoins.Add": "sdk.DecCoins", "sdk.DecCoins.Sub": "sdk.DecCoins", "sdk.DecCoins.AmountOf": "sdk.Dec",
	"sdk.Coin.Add": "sdk.Coin", "sdk.Coin.Sub": "sdk.Coin",
	"sdk.Int.Add": "sdk.Int", "sdk.Int.Sub": "sdk.Int", "sdk.Int.Mul": "sdk.Int", "sdk.Int.Quo": "sdk.Int",
	"sdk.Int.ToDec": "sdk.Dec", "sdk.Int.Int64": "int64", "sdk.Int.Uint64": "uint64",
	"sdk.Dec.Add": "sdk.Dec", "sdk.Dec.Sub": "sdk.Dec", "sdk.Dec.Mul": "sdk.Dec", "sdk.Dec.Quo": "sdk.Dec",
	"sdk.Dec.MulInt": "sdk.Dec", "sdk.Dec.QuoInt": "sdk.Dec", "sdk.Dec.TruncateInt": "sdk.Int", "sdk.Dec.RoundInt": "sdk.Int",
	"sdk.Dec.TruncateInt64": "int64", "sdk.Dec.RoundInt64": "int64",
	"sdk.AccAddress.Bytes": "[]byte", "tmbytes.HexBytes.Bytes": "[]byte",
	"sdk.Iterator.Key": "[]byte", "sdk.Iterator.Value": "[]byte",
	"sdk.Context.BlockHeight": "int64", "sdk.Context.BlockTime": "time.Time",
	"time.Time.Add": "time.Time", "time.Time.Sub": "time.Duration",
	"*.String": "string", "*.Error": "string",
}

func parseExt(s string) typ {
	e, err := parser.ParseExpr(s)
	if err != nil {
		panic("census: bad table entry " + s)
	}
	return typ{extFile, e}
}

var builtinTypes = map[string]bool{
	"bool": true, "byte": true, "rune": true, "string": true, "error": true,
	"int": true, "int8": true, "int16": true, "int32": true, "int64": true,
	"uint": true, "uint8": true, "uint16": true, "uint32": true, "uint64": true, "uintptr": true,
	"float32": true, "float64": true, "complex64": true, "complex128": true,
}

var intTypes = map[string]bool{
	"byte": true, "rune": true, "int": true, "int8": true, "int16": true, "int32": true, "int64": true,
	"uint": true, "uint8": true, "uint16": true, "uint32": true, "uint64": true, "uintptr": true,
}

func builtin(name string) typ { return typ{extFile, ast.NewIdent(name)} }

// ---- inferrer: scopes + typeOf ------------------------------------------------

// binding of a local name
type binding struct {
	t       typ
	isConst bool // declared by const
	isLit   bool // a variable only ever bound to a function literal (never nil)
}

type inferrer struct {
	w      *world
	file   *srcFile
	scopes []map[string]*binding
}

func (in *inferrer) push() { in.scopes = append(in.scopes, map[string]*binding{}) }
func (in *inferrer) pop()  { in.scopes = in.scopes[:len(in.scopes)-1] }

func (in *inferrer) declare(name string, t typ) *binding {
	b := &binding{t: t}
	if name != "_" && name != "" {
		in.scopes[len(in.scopes)-1][name] = b
	}
	return b
}

func (in *inferrer) lookup(name string) *binding {
	for i := len(in.scopes) - 1; i >= 0; i-- {
		if b, ok := in.scopes[i][name]; ok {
			return b
		}
	}
	return nil
}

// local reports whether name is bound by an enclosing local scope.
func (in *inferrer) local(name string) (typ, bool) {
	if b := in.lookup(name); b != nil {
		return b.t, true
	}
	return typ{}, false
}

func (in *inferrer) isConstName(name string) bool {
	if b := in.lookup(name); b != nil {
		return b.isConst
	}
	switch name {
	case "true", "false", "iota":
		return true
	}
	return in.file.pkg.consts[name]
}

// importPath resolves an identifier used as a package qualifier, unless shadowed.
func (in *inferrer) importPath(x ast.Expr) (string, bool) {
	id, ok := x.(*ast.Ident)
	if !ok {
		return "", false
	}
	if _, shadow := in.local(id.Name); shadow {
		return "", false
	}
	p, ok := in.file.imports[id.Name]
	return p, ok
}

// named classifies a type expression: a named type of one of our packages, an
// external named type (canonical "alias.Name"), or neither.
func (w *world) named(t typ) (p *pkg, name string, ext string) {
	switch e := t.e.(type) {
	case *ast.Ident:
		if builtinTypes[e.Name] || t.f == nil || t.f.pkg == nil {
			return nil, "", ""
		}
		return t.f.pkg, e.Name, ""
	case *ast.SelectorExpr:
		id, ok := e.X.(*ast.Ident)
		if !ok || t.f == nil {
			return nil, "", ""
		}
		path, ok := t.f.imports[id.Name]
		if !ok {
			return nil, "", ""
		}
		if q, ok := w.pkgs[path]; ok {
			return q, e.Sel.Name, ""
		}
		alias := canonAlias[path]
		if alias == "" {
			alias = path
		}
		return nil, "", alias + "." + e.Sel.Name
	case *ast.ParenExpr:
		return w.named(typ{t.f, e.X})
	}
	return nil, "", ""
}

// underlying follows named types as far as it knows.
func (w *world) underlying(t typ) typ {
	for i := 0; i < 12 && t.known(); i++ {
		p, name, ext := w.named(t)
		switch {
		case p != nil:
			u, ok := p.types[name]
			if !ok {
				return typ{}
			}
			t = u
		case ext != "":
			s, ok := extTypes[ext]
			if !ok {
				return t // opaque external type
			}
			t = parseExt(s)
		default:
			if pe, ok := t.e.(*ast.ParenExpr); ok {
				t = typ{t.f, pe.X}
				continue
			}
			return t
		}
	}
	return t
}

func (w *world) deref(t typ) typ {
	if s, ok := t.e.(*ast.StarExpr); ok {
		return typ{t.f, s.X}
	}
	if u := w.underlying(t); u.known() {
		if s, ok := u.e.(*ast.StarExpr); ok {
			return typ{u.f, s.X}
		}
	}
	return t
}

// shape of a type as far as indexing/ranging is concerned
const (
	shUnknown = iota
	shMap
	shSeq // slice, array, string, pointer to array
	shFunc
	shOther
)

func (w *world) shape(t typ) int {
	if !t.known() {
		return shUnknown
	}
	u := w.underlying(t)
	if !u.known() {
		return shUnknown
	}
	switch e := u.e.(type) {
	case *ast.MapType:
		return shMap
	case *ast.ArrayType:
		return shSeq
	case *ast.FuncType:
		return shFunc
	case *ast.Ident:
		if e.Name == "string" {
			return shSeq
		}
		if builtinTypes[e.Name] {
			return shOther
		}
		return shUnknown
	case *ast.StarExpr:
		if w.shape(typ{u.f, e.X}) == shSeq {
			return shSeq
		}
		return shOther
	case *ast.StructType, *ast.InterfaceType, *ast.ChanType:
		return shOther
	}
	return shUnknown // opaque external
}

func (w *world) isFloat(t typ) bool {
	u := w.underlying(t)
	id, ok := u.e.(*ast.Ident)
	return ok && (id.Name == "float64" || id.Name == "float32")
}

func (w *world) isInteger(t typ) bool {
	u := w.underlying(t)
	id, ok := u.e.(*ast.Ident)
	return ok && intTypes[id.Name]
}

// extName gives the canonical external name of t ("sdk.Coins"), or "".
func (w *world) extName(t typ) string {
	if !t.known() {
		return ""
	}
	_, _, ext := w.named(w.stripPtr(t))
	return ext
}

func (w *world) stripPtr(t typ) typ {
	if s, ok := t.e.(*ast.StarExpr); ok {
		return typ{t.f, s.X}
	}
	return t
}

// field looks a struct field (or interface method, as a func-typed member) up.
func (w *world) field(t typ, name string, depth int) typ {
	if !t.known() || depth > 4 {
		return typ{}
	}
	u := w.underlying(w.deref(t))
	if !u.known() {
		return typ{}
	}
	st, ok := u.e.(*ast.StructType)
	if !ok {
		return typ{}
	}
	for _, f := range st.Fields.List {
		for _, n := range f.Names {
			if n.Name == name {
				return typ{u.f, f.Type}
			}
		}
	}
	for _, f := range st.Fields.List {
		if len(f.Names) == 0 { // embedded
			et := typ{u.f, f.Type}
			if embeddedName(f.Type) == name {
				return et
			}
			if r := w.field(et, name, depth+1); r.known() {
				return r
			}
		}
	}
	return typ{}
}

func embeddedName(e ast.Expr) string {
	switch e := e.(type) {
	case *ast.StarExpr:
		return embeddedName(e.X)
	case *ast.Ident:
		return e.Name
	case *ast.SelectorExpr:
		return e.Sel.Name
	}
	return ""
}

// method finds the signature of a method of t (declared method of one of our
// named types, interface method, or method promoted from an embedded field).
func (w *world) method(t typ, name string, depth int) (funcDecl, bool) {
	if !t.known() || depth > 4 {
		return funcDecl{}, false
	}
	t = w.stripPtr(t)
	if p, tn, _ := w.named(t); p != nil {
		if fd, ok := p.methods[tn][name]; ok {
			return fd, true
		}
	}
	u := w.underlying(t)
	if !u.known() {
		return funcDecl{}, false
	}
	switch e := u.e.(type) {
	case *ast.InterfaceType:
		for _, m := range e.Methods.List {
			if ft, ok := m.Type.(*ast.FuncType); ok {
				for _, n := range m.Names {
					if n.Name == name {
						return funcDecl{u.f, ft}, true
					}
				}
			} else if fd, ok := w.method(typ{u.f, m.Type}, name, depth+1); ok {
				return fd, true
			}
		}
	case *ast.StructType:
		for _, f := range e.Fields.List {
			if len(f.Names) == 0 {
				if fd, ok := w.method(typ{u.f, f.Type}, name, depth+1); ok {
					return fd, true
				}
			}
		}
	case *ast.StarExpr:
		return w.method(typ{u.f, e.X}, name, depth+1)
	}
	return funcDecl{}, false
}

func results(fd funcDecl) []typ {
	var out []typ
	if fd.typ == nil || fd.typ.Results == nil {
		return out
	}
	for _, f := range fd.typ.Results.List {
		n := len(f.Names)
		if n == 0 {
			n = 1
		}
		for i := 0; i < n; i++ {
			out = append(out, typ{fd.file, f.Type})
		}
	}
	return out
}

// isTypeExpr reports whether e, in call position, denotes a type (a conversion).
func (in *inferrer) isTypeExpr(e ast.Expr) (typ, bool) {
	switch e := e.(type) {
	case *ast.ArrayType, *ast.MapType, *ast.FuncType, *ast.InterfaceType, *ast.StructType, *ast.ChanType:
		return typ{in.file, e}, true
	case *ast.ParenExpr:
		return in.isTypeExpr(e.X)
	case *ast.StarExpr:
		if t, ok := in.isTypeExpr(e.X); ok {
			return typ{t.f, &ast.StarExpr{X: t.e}}, true
		}
	case *ast.Ident:
		if _, shadow := in.local(e.Name); shadow {
			return typ{}, false
		}
		if builtinTypes[e.Name] {
			return builtin(e.Name), true
		}
		if _, ok := in.file.pkg.types[e.Name]; ok {
			return typ{in.file, e}, true
		}
	case *ast.SelectorExpr:
		path, ok := in.importPath(e.X)
		if !ok {
			return typ{}, false
		}
		if q, ok := in.w.pkgs[path]; ok {
			if _, ok := q.types[e.Sel.Name]; ok {
				return typ{in.file, e}, true
			}
			return typ{}, false
		}
		if alias := canonAlias[path]; alias != "" {
			if _, ok := extTypes[alias+"."+e.Sel.Name]; ok {
				return typ{in.file, e}, true
			}
		}
	}
	return typ{}, false
}

// callResults guesses the result types of a call (nil if unknown).
func (in *inferrer) callResults(c *ast.CallExpr) []typ {
	if t, ok := in.isTypeExpr(c.Fun); ok {
		return []typ{t}
	}
	switch f := c.Fun.(type) {
	case *ast.Ident:
		if lt, isLocal := in.local(f.Name); isLocal {
			return in.funcResults(lt)
		}
		switch f.Name {
		case "make":
			if len(c.Args) > 0 {
				return []typ{{in.file, c.Args[0]}}
			}
		case "new":
			if len(c.Args) > 0 {
				return []typ{{in.file, &ast.StarExpr{X: c.Args[0]}}}
			}
		case "len", "cap", "copy":
			return []typ{builtin("int")}
		case "append":
			if len(c.Args) > 0 {
				return []typ{in.typeOf(c.Args[0])}
			}
		}
		if fd, ok := in.file.pkg.funcs[f.Name]; ok {
			return results(fd)
		}
		if vt, ok := in.file.pkg.vars[f.Name]; ok {
			return in.funcResults(vt)
		}
	case *ast.SelectorExpr:
		if path, ok := in.importPath(f.X); ok {
			if q, ok := in.w.pkgs[path]; ok {
				if fd, ok := q.funcs[f.Sel.Name]; ok {
					return results(fd)
				}
				return nil
			}
			if s, ok := extFuncs[canonAlias[path]+"."+f.Sel.Name]; ok {
				return []typ{parseExt(s)}
			}
			return nil
		}
		// pkg.Var.Method of an external package, e.g. binary.BigEndian.Uint64
		if s, ok := extFuncs[in.flat(f)]; ok {
			return []typ{parseExt(s)}
		}
		rt := in.typeOf(f.X)
		if fd, ok := in.w.method(rt, f.Sel.Name, 0); ok {
			return results(fd)
		}
		if ft := in.w.field(rt, f.Sel.Name, 0); ft.known() {
			return in.funcResults(ft)
		}
		if ext := in.w.extName(rt); ext != "" {
			if s, ok := extMethods[ext+"."+f.Sel.Name]; ok {
				return []typ{parseExt(s)}
			}
		}
		if s, ok := extMethods["*."+f.Sel.Name]; ok && len(c.Args) == 0 {
			return []typ{parseExt(s)}
		}
	case *ast.FuncLit:
		return results(funcDecl{in.file, f.Type})
	case *ast.ParenExpr:
		return in.callResults(&ast.CallExpr{Fun: f.X, Args: c.Args})
	default:
		return in.funcResults(in.typeOf(c.Fun))
	}
	return nil
}

// flat renders a.b.c selector chains whose root is an (unshadowed) import alias.
func (in *inferrer) flat(e ast.Expr) string {
	switch e := e.(type) {
	case *ast.Ident:
		if path, ok := in.importPath(e); ok {
			return canonAlias[path]
		}
		return "?"
	case *ast.SelectorExpr:
		return in.flat(e.X) + "." + e.Sel.Name
	}
	return "?"
}

func (in *inferrer) funcResults(t typ) []typ {
	u := in.w.underlying(t)
	if ft, ok := u.e.(*ast.FuncType); ok {
		return results(funcDecl{u.f, ft})
	}
	return nil
}

func (in *inferrer) typeOf(e ast.Expr) typ {
	switch e := e.(type) {
	case nil:
		return typ{}
	case *ast.Ident:
		if t, ok := in.local(e.Name); ok {
			return t
		}
		switch e.Name {
		case "true", "false":
			return builtin("bool")
		case "nil":
			return typ{}
		}
		if t, ok := in.file.pkg.vars[e.Name]; ok {
			return t
		}
		if fd, ok := in.file.pkg.funcs[e.Name]; ok {
			return typ{fd.file, fd.typ}
		}
	case *ast.BasicLit:
		switch e.Kind {
		case token.INT:
			return builtin("int")
		case token.FLOAT:
			return builtin("float64")
		case token.STRING:
			return builtin("string")
		case token.CHAR:
			return builtin("rune")
		}
	case *ast.CompositeLit:
		if e.Type != nil {
			return typ{in.file, e.Type}
		}
	case *ast.ParenExpr:
		return in.typeOf(e.X)
	case *ast.FuncLit:
		return typ{in.file, e.Type}
	case *ast.UnaryExpr:
		t := in.typeOf(e.X)
		switch e.Op {
		case token.AND:
			if t.known() {
				return typ{t.f, &ast.StarExpr{X: t.e}}
			}
			return typ{}
		case token.NOT:
			return builtin("bool")
		case token.ARROW:
			if ch, ok := in.w.underlying(t).e.(*ast.ChanType); ok {
				return typ{t.f, ch.Value}
			}
			return typ{}
		}
		return t
	case *ast.StarExpr:
		t := in.typeOf(e.X)
		if d := in.w.deref(t); d != t {
			return d
		}
		return typ{}
	case *ast.BinaryExpr:
		switch e.Op {
		case token.EQL, token.NEQ, token.LSS, token.LEQ, token.GTR, token.GEQ, token.LAND, token.LOR:
			return builtin("bool")
		case token.SHL, token.SHR:
			return in.typeOf(e.X)
		}
		// prefer the operand that is not an untyped constant
		if _, lit := e.X.(*ast.BasicLit); !lit {
			if t := in.typeOf(e.X); t.known() {
				return t
			}
		}
		return in.typeOf(e.Y)
	case *ast.CallExpr:
		if r := in.callResults(e); len(r) > 0 {
			return r[0]
		}
	case *ast.SelectorExpr:
		if path, ok := in.importPath(e.X); ok {
			if q, ok := in.w.pkgs[path]; ok {
				if t, ok := q.vars[e.Sel.Name]; ok {
					return t
				}
				if fd, ok := q.funcs[e.Sel.Name]; ok {
					return typ{fd.file, fd.typ}
				}
			}
			return typ{}
		}
		xt := in.typeOf(e.X)
		if ft := in.w.field(xt, e.Sel.Name, 0); ft.known() {
			return ft
		}
		if fd, ok := in.w.method(xt, e.Sel.Name, 0); ok {
			return typ{fd.file, fd.typ}
		}
	case *ast.IndexExpr:
		u := in.w.underlying(in.typeOf(e.X))
		switch ue := u.e.(type) {
		case *ast.MapType:
			return typ{u.f, ue.Value}
		case *ast.ArrayType:
			return typ{u.f, ue.Elt}
		case *ast.Ident:
			if ue.Name == "string" {
				return builtin("byte")
			}
		case *ast.StarExpr:
			if at, ok := in.w.underlying(typ{u.f, ue.X}).e.(*ast.ArrayType); ok {
				return typ{u.f, at.Elt}
			}
		}
	case *ast.SliceExpr:
		t := in.typeOf(e.X)
		if at, ok := in.w.underlying(t).e.(*ast.ArrayType); ok && at.Len != nil {
			return typ{t.f, &ast.ArrayType{Elt: at.Elt}}
		}
		return t
	case *ast.TypeAssertExpr:
		if e.Type != nil {
			return typ{in.file, e.Type}
		}
	}
	return typ{}
}

// tuple gives the types bound by `a, b := rhs` for a single right-hand side.
func (in *inferrer) tuple(rhs ast.Expr, n int) []typ {
	out := make([]typ, n)
	switch r := rhs.(type) {
	case *ast.CallExpr:
		rs := in.callResults(r)
		if len(rs) == n {
			copy(out, rs)
		}
	case *ast.IndexExpr, *ast.TypeAssertExpr:
		out[0] = in.typeOf(r)
		if n > 1 {
			out[1] = builtin("bool")
		}
	case *ast.UnaryExpr:
		out[0] = in.typeOf(r)
		if n > 1 {
			out[1] = builtin("bool")
		}
	case *ast.ParenExpr:
		return in.tuple(r.X, n)
	}
	return out
}

// rangeVars gives key and value types of `range x`.
func (in *inferrer) rangeVars(x ast.Expr) (typ, typ) {
	u := in.w.underlying(in.typeOf(x))
	switch ue := u.e.(type) {
	case *ast.MapType:
		return typ{u.f, ue.Key}, typ{u.f, ue.Value}
	case *ast.ArrayType:
		return builtin("int"), typ{u.f, ue.Elt}
	case *ast.Ident:
		if ue.Name == "string" {
			return builtin("int"), builtin("rune")
		}
	case *ast.StarExpr:
		if at, ok := in.w.underlying(typ{u.f, ue.X}).e.(*ast.ArrayType); ok {
			return builtin("int"), typ{u.f, at.Elt}
		}
	}
	return typ{}, typ{}
}
