package main

// The walk that lists the potential runtime-panic (and wrap-around) sites.

import (
	"bytes"
	"go/ast"
	"go/printer"
	"go/scanner"
	"go/token"
	"regexp"
	"sort"
	"strings"
)

// site is one census record. Identity = (pkg, func, kind, expr, occurrence);
// file is carried for the reader only and is NOT compared, so moving a function to
// another file of the same package does not alarm. There are no line numbers.
type site struct {
	Pkg        string `json:"pkg"`
	File       string `json:"file"`
	Func       string `json:"func"`
	Kind       string `json:"kind"`
	Expr       string `json:"expr"`
	Occurrence int    `json:"occurrence"`
	Class      string `json:"class,omitempty"`
	Why        string `json:"why,omitempty"`
}

func (s site) key() string {
	return strings.Join([]string{s.Pkg, s.Func, s.Kind, s.Expr, itoa(s.Occurrence)}, "\x00")
}

func itoa(n int) string {
	if n == 0 {
		return "0"
	}
	var b []byte
	for ; n > 0; n /= 10 {
		b = append([]byte{byte('0' + n%10)}, b...)
	}
	return string(b)
}

func sortSites(ss []site) {
	sort.SliceStable(ss, func(i, j int) bool {
		a, b := ss[i], ss[j]
		if a.Pkg != b.Pkg {
			return a.Pkg < b.Pkg
		}
		if a.Func != b.Func {
			return a.Func < b.Func
		}
		if a.Kind != b.Kind {
			return a.Kind < b.Kind
		}
		if a.Expr != b.Expr {
			return a.Expr < b.Expr
		}
		return a.Occurrence < b.Occurrence
	})
}

// sdk constructors that panic on an invalid argument (negative amount, bad or
// duplicate denom, precision out of range, more than 255 bits): kind "sdkpanic"
var sdkCtors = map[string]bool{
	"NewCoin": true, "NewInt64Coin": true, "NewCoins": true,
	"NewDecCoin": true, "NewDecCoinFromDec": true, "NewDecCoinFromCoin": true, "NewInt64DecCoin": true,
	"NewDecCoins": true, "NewDecCoinsFromCoins": true,
	"NewDecWithPrec": true, "NewDecFromIntWithPrec": true, "NewDecFromBigIntWithPrec": true,
	"NewIntFromBigInt": true, "NewIntWithDecimal": true, "NewUintFromBigInt": true, "NewUintFromString": true,
}

// methods of sdk types that index their receiver without a check: kind "sdkpanic"
var sdkIndexing = map[string]bool{"GetDenomByIndex": true}

// big-number methods that panic on overflow (> 255 bits), division by zero or range
var bigAlways = map[string]bool{
	"Mul": true, "MulInt": true, "MulInt64": true, "MulRaw": true, "MulTruncate": true,
	"Quo": true, "QuoInt": true, "QuoInt64": true, "QuoRaw": true, "QuoTruncate": true, "QuoRoundUp": true,
	"Mod": true, "ModRaw": true, "Power": true, "ApproxRoot": true, "ApproxSqrt": true,
	"Int64": true, "Uint64": true, "TruncateInt64": true, "RoundInt64": true,
}

// ... and those whose name is too common to list without looking at the receiver
var bigIfMoney = map[string]bool{"Add": true, "AddRaw": true, "Sub": true, "SubRaw": true, "AddAmount": true, "SubAmount": true}

var moneyTypes = map[string]bool{"sdk.Coins": true, "sdk.DecCoins": true, "sdk.Coin": true, "sdk.DecCoin": true}
var bigTypes = map[string]bool{"sdk.Int": true, "sdk.Dec": true, "sdk.Uint": true}

var moneyName = regexp.MustCompile(`(?i)coin|fee|deposit|balance|price|amount|amt|fund|tax|reward`)

var convTargets = map[string]bool{
	"int": true, "int8": true, "int16": true, "int32": true, "int64": true,
	"uint": true, "uint8": true, "uint16": true, "uint32": true, "uint64": true, "byte": true,
}

type visitor struct {
	*inferrer
	fn    string
	out   *[]site
	count map[string]int
}

// Length guards (comparisons involving len(...)) are listed beside the sites, as kind
// "lenguard" without class: the walk cannot tell WHICH site a check protects, but it can
// tell that a check the baseline's `guarded-err` / `safe-by-construction` verdicts may
// rest on has disappeared or changed.
const guardKind = "lenguard"

func (v *visitor) isLenCall(e ast.Expr) bool {
	c, ok := unparen(e).(*ast.CallExpr)
	if !ok {
		return false
	}
	id, ok := c.Fun.(*ast.Ident)
	return ok && id.Name == "len" && v.lookup("len") == nil
}

func (v *visitor) emit(kind string, e ast.Node) {
	expr := normal(e)
	k := kind + "\x00" + expr
	v.count[k]++
	*v.out = append(*v.out, site{Pkg: pkgLabel(v.file.pkg), File: v.file.rel, Func: v.fn, Kind: kind, Expr: expr, Occurrence: v.count[k]})
}

func pkgLabel(p *pkg) string {
	if p.dir == "" {
		return "service"
	}
	return p.dir
}

// census lists the sites of every census file.
func census(w *world) []site {
	var out []site
	for _, p := range w.list {
		counts := map[string]map[string]int{} // per function, across files
		for _, f := range p.files {
			if !f.inCensus() {
				continue
			}
			for _, d := range f.ast.Decls {
				switch d := d.(type) {
				case *ast.FuncDecl:
					if d.Body == nil {
						continue
					}
					name := funcName(d)
					if counts[name] == nil {
						counts[name] = map[string]int{}
					}
					v := &visitor{inferrer: &inferrer{w: w, file: f}, fn: name, out: &out, count: counts[name]}
					v.push()
					v.params(d.Recv)
					v.params(d.Type.Params)
					v.params(d.Type.Results)
					v.stmt(d.Body)
				case *ast.GenDecl:
					for _, s := range d.Specs {
						vs, ok := s.(*ast.ValueSpec)
						if !ok || len(vs.Values) == 0 {
							continue
						}
						name := d.Tok.String() + " " + vs.Names[0].Name
						if counts[name] == nil {
							counts[name] = map[string]int{}
						}
						v := &visitor{inferrer: &inferrer{w: w, file: f}, fn: name, out: &out, count: counts[name]}
						v.push()
						v.values(vs)
					}
				}
			}
		}
	}
	sortSites(out)
	return out
}

// split separates the classified sites from the length guards.
func split(all []site) (sites, guards []site) {
	for _, s := range all {
		if s.Kind == guardKind {
			guards = append(guards, s)
		} else {
			sites = append(sites, s)
		}
	}
	return
}

func funcName(d *ast.FuncDecl) string {
	if d.Recv == nil || len(d.Recv.List) == 0 {
		return d.Name.Name
	}
	return "(" + normal(d.Recv.List[0].Type) + ")." + d.Name.Name
}

func (v *visitor) params(fl *ast.FieldList) {
	if fl == nil {
		return
	}
	for _, f := range fl.List {
		for _, n := range f.Names {
			t := typ{v.file, f.Type}
			if el, ok := f.Type.(*ast.Ellipsis); ok {
				t = typ{v.file, &ast.ArrayType{Elt: el.Elt}}
			}
			v.declare(n.Name, t)
		}
	}
}

func unparen(e ast.Expr) ast.Expr {
	for {
		p, ok := e.(*ast.ParenExpr)
		if !ok {
			return e
		}
		e = p.X
	}
}

// values handles `var a, b = ...` / `const ...` (package level or local).
func (v *visitor) values(vs *ast.ValueSpec) []*binding {
	commaOK := false
	if len(vs.Names) == 2 && len(vs.Values) == 1 {
		if ta, ok := unparen(vs.Values[0]).(*ast.TypeAssertExpr); ok {
			commaOK = true
			v.expr(ta.X)
		}
	}
	if !commaOK {
		for _, e := range vs.Values {
			v.expr(e)
		}
	}
	var ts []typ
	switch {
	case vs.Type != nil:
		for range vs.Names {
			ts = append(ts, typ{v.file, vs.Type})
		}
	case len(vs.Values) == len(vs.Names):
		for _, e := range vs.Values {
			ts = append(ts, v.typeOf(e))
		}
	case len(vs.Values) == 1:
		ts = v.tuple(vs.Values[0], len(vs.Names))
	default:
		ts = make([]typ, len(vs.Names))
	}
	var bs []*binding
	for i, n := range vs.Names {
		b := v.declare(n.Name, ts[i])
		if len(vs.Values) == len(vs.Names) {
			_, b.isLit = unparen(vs.Values[i]).(*ast.FuncLit)
		}
		bs = append(bs, b)
	}
	return bs
}

func (v *visitor) stmts(l []ast.Stmt) {
	for _, s := range l {
		v.stmt(s)
	}
}

func (v *visitor) stmt(s ast.Stmt) {
	switch s := s.(type) {
	case nil:
	case *ast.BlockStmt:
		v.push()
		v.stmts(s.List)
		v.pop()
	case *ast.ExprStmt:
		v.expr(s.X)
	case *ast.AssignStmt:
		v.assign(s)
	case *ast.DeclStmt:
		gd, ok := s.Decl.(*ast.GenDecl)
		if !ok {
			return
		}
		for _, sp := range gd.Specs {
			if vs, ok := sp.(*ast.ValueSpec); ok {
				for _, b := range v.values(vs) {
					b.isConst = gd.Tok == token.CONST
				}
			}
		}
	case *ast.IfStmt:
		v.push()
		v.stmt(s.Init)
		v.expr(s.Cond)
		v.stmt(s.Body)
		v.stmt(s.Else)
		v.pop()
	case *ast.ForStmt:
		v.push()
		v.stmt(s.Init)
		v.expr(s.Cond)
		v.stmt(s.Post)
		v.stmt(s.Body)
		v.pop()
	case *ast.RangeStmt:
		v.expr(s.X)
		if v.w.shape(v.typeOf(s.X)) == shMap {
			v.emit("mapiter", s.X)
		}
		v.push()
		if s.Tok == token.DEFINE {
			kt, vt := v.rangeVars(s.X)
			if id, ok := s.Key.(*ast.Ident); ok {
				v.declare(id.Name, kt)
			}
			if id, ok := s.Value.(*ast.Ident); ok {
				v.declare(id.Name, vt)
			}
		} else {
			v.expr(s.Key)
			v.expr(s.Value)
		}
		v.stmt(s.Body)
		v.pop()
	case *ast.SwitchStmt:
		v.push()
		v.stmt(s.Init)
		v.expr(s.Tag)
		for _, c := range s.Body.List {
			cc := c.(*ast.CaseClause)
			for _, e := range cc.List {
				v.expr(e)
			}
			v.push()
			v.stmts(cc.Body)
			v.pop()
		}
		v.pop()
	case *ast.TypeSwitchStmt:
		v.push()
		v.stmt(s.Init)
		bound := ""
		switch a := s.Assign.(type) {
		case *ast.ExprStmt:
			if ta, ok := unparen(a.X).(*ast.TypeAssertExpr); ok {
				v.expr(ta.X)
			}
		case *ast.AssignStmt:
			if len(a.Lhs) == 1 && len(a.Rhs) == 1 {
				if id, ok := a.Lhs[0].(*ast.Ident); ok {
					bound = id.Name
				}
				if ta, ok := unparen(a.Rhs[0]).(*ast.TypeAssertExpr); ok {
					v.expr(ta.X)
				}
			}
		}
		for _, c := range s.Body.List {
			cc := c.(*ast.CaseClause)
			v.push()
			if bound != "" {
				t := typ{}
				if len(cc.List) == 1 {
					t = typ{v.file, cc.List[0]}
				}
				v.declare(bound, t)
			}
			v.stmts(cc.Body)
			v.pop()
		}
		v.pop()
	case *ast.SelectStmt:
		for _, c := range s.Body.List {
			cc := c.(*ast.CommClause)
			v.push()
			v.stmt(cc.Comm)
			v.stmts(cc.Body)
			v.pop()
		}
	case *ast.ReturnStmt:
		for _, e := range s.Results {
			v.expr(e)
		}
	case *ast.IncDecStmt:
		v.expr(s.X)
	case *ast.GoStmt:
		v.expr(s.Call)
	case *ast.DeferStmt:
		v.expr(s.Call)
	case *ast.SendStmt:
		v.expr(s.Chan)
		v.expr(s.Value)
	case *ast.LabeledStmt:
		v.stmt(s.Stmt)
	}
}

func (v *visitor) assign(s *ast.AssignStmt) {
	commaOK := false
	if len(s.Lhs) == 2 && len(s.Rhs) == 1 {
		if ta, ok := unparen(s.Rhs[0]).(*ast.TypeAssertExpr); ok && ta.Type != nil {
			commaOK = true
			v.expr(ta.X)
		}
	}
	if !commaOK {
		for _, e := range s.Rhs {
			v.expr(e)
		}
	}
	if s.Tok == token.QUO_ASSIGN || s.Tok == token.REM_ASSIGN {
		v.div(s, s.Lhs[0], s.Rhs[0])
	}
	if s.Tok != token.DEFINE {
		for i, e := range s.Lhs {
			v.expr(e)
			if id, ok := e.(*ast.Ident); ok {
				if b := v.lookup(id.Name); b != nil && b.isLit {
					// re-bound: only still certainly non-nil if bound to another literal
					lit := false
					if len(s.Lhs) == len(s.Rhs) {
						_, lit = unparen(s.Rhs[i]).(*ast.FuncLit)
					}
					b.isLit = lit
				}
			}
		}
		return
	}
	var ts []typ
	if len(s.Lhs) == len(s.Rhs) {
		for _, e := range s.Rhs {
			ts = append(ts, v.typeOf(e))
		}
	} else if len(s.Rhs) == 1 {
		ts = v.tuple(s.Rhs[0], len(s.Lhs))
	} else {
		ts = make([]typ, len(s.Lhs))
	}
	for i, e := range s.Lhs {
		id, ok := e.(*ast.Ident)
		if !ok {
			continue
		}
		b := v.declare(id.Name, ts[i])
		if len(s.Lhs) == len(s.Rhs) {
			_, b.isLit = unparen(s.Rhs[i]).(*ast.FuncLit)
		}
	}
}

// constExpr: syntactically a constant (literals, declared constants of this package
// or of one of the three packages, and arithmetic on those).
func (v *visitor) constExpr(e ast.Expr) bool {
	switch e := e.(type) {
	case *ast.BasicLit:
		return true
	case *ast.Ident:
		return v.isConstName(e.Name)
	case *ast.ParenExpr:
		return v.constExpr(e.X)
	case *ast.UnaryExpr:
		return e.Op != token.AND && e.Op != token.ARROW && v.constExpr(e.X)
	case *ast.BinaryExpr:
		return v.constExpr(e.X) && v.constExpr(e.Y)
	case *ast.SelectorExpr:
		if path, ok := v.importPath(e.X); ok {
			if q, ok := v.w.pkgs[path]; ok {
				return q.consts[e.Sel.Name]
			}
		}
	case *ast.CallExpr:
		if _, ok := v.isTypeExpr(e.Fun); ok && len(e.Args) == 1 {
			return v.constExpr(e.Args[0])
		}
	}
	return false
}

func (v *visitor) div(node ast.Node, x, y ast.Expr) {
	if v.constExpr(y) {
		return
	}
	tx, ty := v.typeOf(x), v.typeOf(y)
	if (tx.known() && v.w.isFloat(tx)) || (ty.known() && v.w.isFloat(ty)) {
		return
	}
	if (tx.known() && v.w.isInteger(tx)) || (ty.known() && v.w.isInteger(ty)) {
		v.emit("div", node)
		return
	}
	v.emit("div?", node)
}

func (v *visitor) exprs(l []ast.Expr) {
	for _, e := range l {
		v.expr(e)
	}
}

func (v *visitor) expr(e ast.Expr) {
	switch e := e.(type) {
	case nil:
	case *ast.ParenExpr:
		v.expr(e.X)
	case *ast.StarExpr:
		v.expr(e.X)
	case *ast.UnaryExpr:
		v.expr(e.X)
	case *ast.KeyValueExpr:
		v.expr(e.Key)
		v.expr(e.Value)
	case *ast.CompositeLit:
		v.exprs(e.Elts)
	case *ast.SelectorExpr:
		v.expr(e.X)
	case *ast.BinaryExpr:
		v.expr(e.X)
		v.expr(e.Y)
		if e.Op == token.QUO || e.Op == token.REM {
			v.div(e, e.X, e.Y)
		}
		switch e.Op {
		case token.EQL, token.NEQ, token.LSS, token.LEQ, token.GTR, token.GEQ:
			if v.isLenCall(e.X) || v.isLenCall(e.Y) {
				v.emit(guardKind, e)
			}
		}
	case *ast.IndexExpr:
		switch v.w.shape(v.typeOf(e.X)) {
		case shMap:
		case shSeq:
			v.emit("index", e)
		default:
			v.emit("index?", e)
		}
		v.expr(e.X)
		v.expr(e.Index)
	case *ast.SliceExpr:
		if e.Low != nil || e.High != nil || e.Max != nil { // x[:] cannot fail
			v.emit("slice", e)
		}
		v.expr(e.X)
		v.expr(e.Low)
		v.expr(e.High)
		v.expr(e.Max)
	case *ast.TypeAssertExpr:
		if e.Type != nil {
			v.emit("assert", e)
		}
		v.expr(e.X)
	case *ast.FuncLit:
		v.push()
		v.params(e.Type.Params)
		v.params(e.Type.Results)
		v.stmt(e.Body)
		v.pop()
	case *ast.CallExpr:
		v.call(e)
	}
}

func (v *visitor) call(c *ast.CallExpr) {
	if p, ok := c.Fun.(*ast.ParenExpr); ok {
		if _, ok := p.X.(*ast.StarExpr); ok { // (*T)(x): a conversion to a pointer type
			v.exprs(c.Args)
			return
		}
	}
	if _, ok := v.isTypeExpr(c.Fun); ok { // conversion
		if id, ok := unparen(c.Fun).(*ast.Ident); ok && convTargets[id.Name] && len(c.Args) == 1 && !v.constExpr(c.Args[0]) {
			v.emit("conv", c)
		}
		v.exprs(c.Args)
		return
	}
	name := ""
	switch f := unparen(c.Fun).(type) {
	case *ast.Ident:
		name = f.Name
		if b := v.lookup(f.Name); b != nil {
			if sh := v.w.shape(b.t); !b.isLit && (sh == shFunc || sh == shUnknown) {
				v.emit("nilcall", c)
			}
		} else if f.Name == "panic" {
			v.emit("panic", c)
		} else if t, ok := v.file.pkg.vars[f.Name]; ok {
			_ = t
			v.emit("nilcall", c) // call through a package-level function variable
		}
	case *ast.SelectorExpr:
		name = f.Sel.Name
		if path, ok := v.importPath(f.X); ok {
			if canonAlias[path] == "sdk" && sdkCtors[name] {
				v.emit("sdkpanic", c)
			}
			if q, ok := v.w.pkgs[path]; ok {
				if _, isVar := q.vars[name]; isVar {
					v.emit("nilcall", c)
				}
			}
			break
		}
		v.expr(f.X)
		rt := v.typeOf(f.X)
		if _, isMethod := v.w.method(rt, name, 0); !isMethod {
			if ft := v.w.field(rt, name, 0); ft.known() && v.w.shape(ft) != shOther {
				v.emit("nilcall", c) // call through a func-typed struct field
			}
		}
		if sdkIndexing[name] {
			v.emit("sdkpanic", c)
		}
		v.arith(c, f, rt)
	case *ast.FuncLit:
		v.expr(f)
	default: // m[k](...), f()(...), ...
		v.emit("nilcall", c)
		v.expr(c.Fun)
	}
	if strings.HasPrefix(name, "Must") {
		v.emit("must", c)
	}
	v.exprs(c.Args)
}

// arith lists coinsub and bigarith sites for the method call recv.name(...).
func (v *visitor) arith(c *ast.CallExpr, f *ast.SelectorExpr, rt typ) {
	name := f.Sel.Name
	if !bigAlways[name] && !bigIfMoney[name] {
		return
	}
	if strings.HasPrefix(v.flat(f.X), "binary.") || strings.HasPrefix(v.flat(f.X), "math.") {
		return // binary.BigEndian.Uint64 and the like
	}
	ext := v.w.extName(rt)
	money := moneyTypes[ext]
	big := bigTypes[ext]
	guess := false
	if !rt.known() {
		guess = moneyName.MatchString(normal(f.X))
	}
	switch {
	case name == "Sub" && (money || guess):
		v.emit("coinsub", c)
	case name == "Sub" && !rt.known():
		v.emit("coinsub?", c)
	case bigAlways[name] && (rt.known() && !money && !big && ext == "" || v.w.isFloat(rt)):
		// a method of one of our own types or of a builtin: not a big-number operation
	case bigAlways[name]:
		v.emit("bigarith", c)
	case money || big || guess:
		v.emit("bigarith", c)
	}
}

// ---- normalised source text -----------------------------------------------------

// normal prints a node with go/printer and re-spaces it token by token, so that the
// text depends on the tokens only (not on line breaks, indentation, trailing commas).
// Function literals are elided to `func{…}`: a site is identified by the call, not by
// the body of a closure passed to it.
func normal(n ast.Node) string {
	n = elide(n)
	var buf bytes.Buffer
	printer.Fprint(&buf, token.NewFileSet(), n)
	src := buf.Bytes()
	fs := token.NewFileSet()
	var sc scanner.Scanner
	sc.Init(fs.AddFile("", fs.Base(), len(src)), src, nil, 0)
	type tk struct {
		t token.Token
		s string
	}
	var toks []tk
	for {
		_, t, lit := sc.Scan()
		if t == token.EOF {
			break
		}
		if t == token.SEMICOLON && lit == "\n" {
			continue
		}
		s := lit
		if s == "" || t.IsOperator() {
			s = t.String()
		}
		toks = append(toks, tk{t, s})
	}
	var b strings.Builder
	wordy := func(t token.Token) bool { return t.IsLiteral() || t.IsKeyword() }
	closing := func(t token.Token) bool { return t == token.RPAREN || t == token.RBRACK || t == token.RBRACE }
	bracket := func(t token.Token) bool {
		return closing(t) || t == token.LPAREN || t == token.LBRACK || t == token.LBRACE || t == token.PERIOD || t == token.COMMA || t == token.SEMICOLON || t == token.COLON || t == token.ELLIPSIS
	}
	var prev tk
	for i, t := range toks {
		if t.t == token.COMMA && i+1 < len(toks) && closing(toks[i+1].t) {
			continue // trailing comma
		}
		if i > 0 {
			switch {
			case wordy(prev.t) && wordy(t.t):
				b.WriteByte(' ')
			case prev.t == token.COMMA || prev.t == token.SEMICOLON:
				b.WriteByte(' ')
			case prev.t.IsOperator() && t.t.IsOperator() && !bracket(prev.t) && !bracket(t.t):
				b.WriteByte(' ')
			}
		}
		b.WriteString(t.s)
		prev = t
	}
	return b.String()
}

// elide returns n with function literals among call arguments replaced.
func elide(n ast.Node) ast.Node {
	switch e := n.(type) {
	case *ast.CallExpr:
		c := &ast.CallExpr{Fun: e.Fun, Ellipsis: e.Ellipsis}
		if fe, ok := elide(e.Fun).(ast.Expr); ok {
			c.Fun = fe
		}
		for _, a := range e.Args {
			if _, ok := a.(*ast.FuncLit); ok {
				c.Args = append(c.Args, ast.NewIdent("func{…}"))
			} else if ae, ok := elide(a).(ast.Expr); ok {
				c.Args = append(c.Args, ae)
			}
		}
		if e.Ellipsis.IsValid() {
			c.Ellipsis = 1
		}
		return c
	case *ast.SelectorExpr:
		if xe, ok := elide(e.X).(ast.Expr); ok {
			return &ast.SelectorExpr{X: xe, Sel: e.Sel}
		}
	}
	return n
}
