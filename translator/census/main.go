// census ties the Coq model's list of Panic branches to the CURRENT source of
// irismod/service (property C20, DESIGN.md section 7, "Census tie").
//
//	census -repo /repo -out sites.json [-annot old.json]   write the census
//	census -repo /repo -check baseline.json                compare with the baseline
//
// It parses abci.go handler.go genesis.go keeper/*.go types/*.go (no *_test.go, no
// *.pb.gw.go; *.pb.go only for their type declarations) with go/parser and lists every
// potential runtime-panic or wrap-around site as a record
//
//	{pkg, file, func, kind, expr, occurrence}
//
// func is the enclosing top-level function ("(Keeper).Slash"; closures belong to the
// function they are written in; package-level initialisers are "var Name"), expr the
// token-normalised source text (go/printer + go/scanner: independent of layout,
// comments and trailing commas; closures passed as arguments are elided), occurrence
// the k-th identical (func, kind, expr) in source order. There are NO line numbers,
// and `file` is informative only: identity is (pkg, func, kind, expr, occurrence), so
// unrelated edits, reformatting, renaming locals that are in no site expression, and
// moving a function to another file of the same package leave the census unchanged
// (a move is reported as CENSUS-NOTE, exit code 0).
//
// Kinds: panic, must, index, index? (receiver type unknown), slice (x[:] excluded),
// assert (no comma-ok), mapiter, nilcall, coinsub, coinsub?, div, div?, conv, and two
// kinds beyond the original list because the model's K1 branch needs a site:
// bigarith (sdk.Int/Dec/Coins arithmetic that panics above 255 bits or on a zero
// divisor) and sdkpanic (sdk constructors / GetDenomByIndex that panic on bad input).
// Types are guessed syntactically (infer.go: declarations of the three packages, a
// small table of sdk types); what cannot be told is listed rather than skipped,
// except `range` over an expression of unknown type.
//
// Beside the sites the census lists every comparison involving len(...) as an
// unclassified "lenguard" record, compared in the same way: the walk cannot know which
// site a check protects, but removing or changing `len(deposit) != 1` is then a diff.
//
// Limits: no control or data flow (a guard moved after its site, a weakened non-length
// guard, a caller that stops validating are invisible); panics inside callees (bank,
// params, store, codec, gjson, binary.BigEndian on short slices), nil-pointer
// dereferences, nil-map writes, out-of-memory and stack growth are not sites; module.go
// and the client/simulation packages are outside the walk.
package main

import (
	"bytes"
	"encoding/json"
	"flag"
	"fmt"
	"os"
	"sort"
	"strings"
)

type doc struct {
	Format   string         `json:"format"`
	Identity string         `json:"identity"`
	Count    int            `json:"count"`
	ByKind   map[string]int `json:"by_kind"`
	ByClass  map[string]int `json:"by_class,omitempty"`
	Sites    []site         `json:"sites"`
	Guards   []site         `json:"guards"` // kind lenguard, unclassified, compared like sites
}

func main() {
	repo := flag.String("repo", "/repo", "root of the irismod/service working tree")
	out := flag.String("out", "", "write the census to this file")
	annot := flag.String("annot", "", "with -out: carry class/why over from this older census (new records: unreviewed)")
	check := flag.String("check", "", "compare the census with this baseline; exit 1 on any difference")
	flag.Parse()
	if (*out == "") == (*check == "") {
		fmt.Fprintln(os.Stderr, "usage: census -repo DIR (-out FILE [-annot OLD] | -check BASELINE)")
		os.Exit(2)
	}
	w, err := load(*repo)
	if err != nil {
		fmt.Fprintln(os.Stderr, "census:", err)
		os.Exit(2)
	}
	w.resolveVars()
	sites, guards := split(census(w))

	if *out != "" {
		if *annot != "" {
			old, err := readDoc(*annot)
			if err != nil {
				fmt.Fprintln(os.Stderr, "census:", err)
				os.Exit(2)
			}
			m := map[string]site{}
			for _, s := range old.Sites {
				m[s.key()] = s
			}
			for i := range sites {
				if o, ok := m[sites[i].key()]; ok && o.Class != "" {
					sites[i].Class, sites[i].Why = o.Class, o.Why
				} else {
					sites[i].Class, sites[i].Why = "unreviewed", "new since "+*annot
				}
			}
		}
		if err := writeDoc(*out, sites, guards); err != nil {
			fmt.Fprintln(os.Stderr, "census:", err)
			os.Exit(2)
		}
		fmt.Printf("CENSUS WROTE %s sites=%d guards=%d by-kind=%s\n", *out, len(sites), len(guards), tally(sites, func(s site) string { return s.Kind }))
		return
	}

	base, err := readDoc(*check)
	if err != nil {
		fmt.Fprintln(os.Stderr, "census:", err)
		os.Exit(2)
	}
	os.Exit(compare(append(base.Sites, base.Guards...), append(sites, guards...)))
}

// compare prints the multiset difference (ignoring file/class/why) and returns the exit code.
func compare(base, cur []site) int {
	bm, cm := map[string][]site{}, map[string][]site{}
	for _, s := range base {
		bm[s.key()] = append(bm[s.key()], s)
	}
	for _, s := range cur {
		cm[s.key()] = append(cm[s.key()], s)
	}
	var lines, notes []string
	for k, l := range cm {
		for i := len(bm[k]); i < len(l); i++ {
			lines = append(lines, "CENSUS-DIFF + "+brief(l[i]))
		}
		if len(bm[k]) > 0 && bm[k][0].File != l[0].File {
			notes = append(notes, fmt.Sprintf("CENSUS-NOTE moved %s -> %s: %s", bm[k][0].File, l[0].File, brief(l[0])))
		}
	}
	for k, l := range bm {
		for i := len(cm[k]); i < len(l); i++ {
			lines = append(lines, "CENSUS-DIFF - "+brief(l[i]))
		}
	}
	sort.Strings(notes)
	for _, n := range notes {
		fmt.Println(n)
	}
	if len(lines) > 0 {
		sort.Slice(lines, func(i, j int) bool { // by record, "-" before "+"
			a, b := lines[i][14:], lines[j][14:]
			if a != b {
				return a < b
			}
			return lines[i] > lines[j]
		})
		for _, l := range lines {
			fmt.Println(l)
		}
		fmt.Printf("CENSUS DIFFERS added=%d removed=%d (baseline %d records, source %d records; sites + guards)\n",
			countPrefix(lines, "CENSUS-DIFF + "), countPrefix(lines, "CENSUS-DIFF - "), len(base), len(cur))
		return 1
	}
	cur, guards := split(cur)
	base, _ = split(base)
	fmt.Printf("CENSUS OK sites=%d guards=%d by-kind=%s by-class=%s\n", len(cur), len(guards),
		tally(cur, func(s site) string { return s.Kind }),
		tally(base, func(s site) string {
			if s.Class == "" {
				return "unclassified"
			}
			return s.Class
		}))
	return 0
}

func countPrefix(l []string, p string) int {
	n := 0
	for _, s := range l {
		if strings.HasPrefix(s, p) {
			n++
		}
	}
	return n
}

func brief(s site) string {
	s.Class, s.Why = "", ""
	return string(marshal(s))
}

func marshal(v interface{}) []byte {
	var b bytes.Buffer
	e := json.NewEncoder(&b)
	e.SetEscapeHTML(false)
	e.Encode(v)
	return bytes.TrimRight(b.Bytes(), "\n")
}

func tally(ss []site, f func(site) string) string {
	m := map[string]int{}
	for _, s := range ss {
		m[f(s)]++
	}
	var ks []string
	for k := range m {
		ks = append(ks, k)
	}
	sort.Strings(ks)
	var parts []string
	for _, k := range ks {
		parts = append(parts, fmt.Sprintf("%s:%d", k, m[k]))
	}
	return strings.Join(parts, ",")
}

func readDoc(path string) (*doc, error) {
	b, err := os.ReadFile(path)
	if err != nil {
		return nil, err
	}
	d := &doc{}
	if err := json.Unmarshal(b, d); err != nil {
		return nil, fmt.Errorf("%s: %v", path, err)
	}
	return d, nil
}

// writeDoc writes one record per line (sorted), so that diffs of the baseline read well.
func writeDoc(path string, sites, guards []site) error {
	d := doc{Format: "census/1", Identity: "pkg,func,kind,expr,occurrence (file is informative, not compared)",
		Count: len(sites), ByKind: map[string]int{}}
	for _, s := range sites {
		d.ByKind[s.Kind]++
		if s.Class != "" {
			if d.ByClass == nil {
				d.ByClass = map[string]int{}
			}
			d.ByClass[s.Class]++
		}
	}
	var b bytes.Buffer
	b.WriteString("{\n")
	fmt.Fprintf(&b, " \"format\": %s,\n \"identity\": %s,\n \"count\": %d,\n \"by_kind\": %s,\n", marshal(d.Format), marshal(d.Identity), d.Count, marshal(d.ByKind))
	if d.ByClass != nil {
		fmt.Fprintf(&b, " \"by_class\": %s,\n", marshal(d.ByClass))
	}
	b.WriteString(" \"sites\": [\n")
	for i, s := range sites {
		b.WriteString("  ")
		b.Write(marshal(s))
		if i+1 < len(sites) {
			b.WriteByte(',')
		}
		b.WriteByte('\n')
	}
	b.WriteString(" ],\n \"guards\": [\n")
	for i, s := range guards {
		b.WriteString("  ")
		b.Write(marshal(s))
		if i+1 < len(guards) {
			b.WriteByte(',')
		}
		b.WriteByte('\n')
	}
	b.WriteString(" ]\n}\n")
	return os.WriteFile(path, b.Bytes(), 0o644)
}
