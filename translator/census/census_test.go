package main

import (
	"os"
	"path/filepath"
	"sort"
	"strings"
	"testing"
)

const keeperSrc = `package keeper

import (
	sdk "github.com/cosmos/cosmos-sdk/types"
	"github.com/irismod/service/types"
)

type Keeper struct {
	cbs   map[string]types.Callback
	names []string
	svc   *types.ModuleService
}

func (k Keeper) F(ctx sdk.Context, deposit sdk.Coins, a, b int64, u uint64, x interface{}, f float64, unk sdk.Foo) int64 {
	_ = deposit[0]               // index (sdk.Coins is a slice)
	_ = k.cbs["m"]               // map: not a site
	_ = unk[1]                   // index?
	_ = k.names[1:]              // slice
	_ = k.names[:]               // not a site
	_ = x.(int64)                // assert
	if y, ok := x.(int64); ok {  // comma-ok: not a site
		_ = y
	}
	switch x.(type) {            // type switch: not a site
	}
	for range k.cbs {            // mapiter
	}
	m := make(map[string]int)
	for range m {                // mapiter
	}
	for range k.names {          // not a site
	}
	k.cbs["m"](ctx)              // nilcall
	cb := k.cbs["m"]
	cb(ctx)                      // nilcall
	k.svc.Request(ctx)           // nilcall (func-typed field)
	lit := func() {}
	lit()                        // literal: not a site
	_ = deposit.Sub(deposit)     // coinsub
	_, _ = deposit.SafeSub(deposit) // not a site
	_ = a / b                    // div
	_ = a % 2                    // constant divisor: not a site
	_ = f / f                    // float: not a site
	_ = int64(u)                 // conv
	_ = uint64(7)                // constant: not a site
	_ = types.MustGet()          // must
	_ = sdk.NewCoin("x", sdk.NewInt(a)) // sdkpanic
	_ = deposit.AmountOf("x").Mul(sdk.NewInt(b)) // bigarith
	if a > b {
		panic("boom")            // panic
	}
	return a
}
`

const typesSrc = `package types

import sdk "github.com/cosmos/cosmos-sdk/types"

type Callback func(ctx sdk.Context)

type ModuleService struct {
	Request func(ctx sdk.Context)
}

func MustGet() int { return 0 }
`

func writeRepo(t *testing.T, files map[string]string) string {
	dir := t.TempDir()
	for _, d := range []string{"keeper", "types"} {
		if err := os.MkdirAll(filepath.Join(dir, d), 0o755); err != nil {
			t.Fatal(err)
		}
	}
	for n, s := range files {
		if err := os.WriteFile(filepath.Join(dir, n), []byte(s), 0o644); err != nil {
			t.Fatal(err)
		}
	}
	return dir
}

func run(t *testing.T, dir string) []site {
	w, err := load(dir)
	if err != nil {
		t.Fatal(err)
	}
	w.resolveVars()
	return census(w)
}

func TestKinds(t *testing.T) {
	dir := writeRepo(t, map[string]string{"abci.go": "package service\n", "keeper/k.go": keeperSrc, "types/t.go": typesSrc})
	var got []string
	sites, guards := split(run(t, dir))
	for _, s := range sites {
		got = append(got, s.Kind+" "+s.Expr)
	}
	if len(guards) != 0 {
		t.Fatalf("unexpected guards %v", guards)
	}
	want := []string{
		`assert x.(int64)`,
		`bigarith deposit.AmountOf("x").Mul(sdk.NewInt(b))`,
		`coinsub deposit.Sub(deposit)`,
		`conv int64(u)`,
		`div a/b`,
		`index deposit[0]`,
		`index? unk[1]`,
		`mapiter k.cbs`,
		`mapiter m`,
		`must types.MustGet()`,
		`nilcall cb(ctx)`,
		`nilcall k.cbs["m"](ctx)`,
		`nilcall k.svc.Request(ctx)`,
		`panic panic("boom")`,
		`sdkpanic sdk.NewCoin("x", sdk.NewInt(a))`,
		`slice k.names[1:]`,
	}
	sort.Strings(got)
	if strings.Join(got, "\n") != strings.Join(want, "\n") {
		t.Fatalf("got:\n%s\nwant:\n%s", strings.Join(got, "\n"), strings.Join(want, "\n"))
	}
}

// Layout, comments, local names outside site expressions, and the file a function
// lives in must not matter; occurrence numbers count identical sites in order.
func TestStable(t *testing.T) {
	a := `package keeper
func G(xs []int, i int) int {
	tmp := i
	_ = tmp
	if len(xs) <= i {
		return 0
	}
	return xs[i] + xs[i] + f(xs[ i ],
		1,
	)
}
func f(a, b int) int { return a }
`
	b1 := `package keeper
// moved and reformatted
func f(a, b int) int { return a }
`
	b2 := `package keeper
func G(xs []int, i int) int {
	renamed := i // a comment
	_ = renamed
	if len( xs )<=i { return 0 }

	return xs[i] + xs[i] + f(xs[i], 1)
}
`
	r1 := run(t, writeRepo(t, map[string]string{"abci.go": "package service\n", "keeper/a.go": a, "types/t.go": "package types\n"}))
	r2 := run(t, writeRepo(t, map[string]string{"abci.go": "package service\n", "keeper/b1.go": b1, "keeper/b2.go": b2, "types/t.go": "package types\n"}))
	if len(r1) != 4 || r1[0].Kind != "index" || r1[2].Occurrence != 3 || r1[3].Kind != guardKind || r1[3].Expr != "len(xs)<=i" {
		t.Fatalf("unexpected census %v", r1)
	}
	if compare(r1, r2) != 0 {
		t.Fatal("harmless edit changed the census")
	}
}
