package main

// Loading of the three packages of irismod/service and the per-package pass over
// declarations that the (purely syntactic) type guesser in infer.go relies on.

import (
	"fmt"
	"go/ast"
	"go/parser"
	"go/token"
	"os"
	"path/filepath"
	"sort"
	"strconv"
	"strings"
)

// The module path under which the three packages import each other.
const modulePath = "github.com/irismod/service"

// srcFile is one parsed file together with its import aliases.
type srcFile struct {
	pkg     *pkg
	rel     string            // path relative to the repository root, slash separated
	ast     *ast.File         // nil for the synthetic file of external types
	imports map[string]string // alias -> import path
}

// decl of a function or method: its signature and the file it was written in.
type funcDecl struct {
	file *srcFile
	typ  *ast.FuncType
}

type pkg struct {
	dir     string // "", "keeper", "types"
	path    string // import path
	files   []*srcFile
	types   map[string]typ                 // named types
	vars    map[string]typ                 // package-level vars and consts (typ may be unknown)
	consts  map[string]bool                // names declared by const
	funcs   map[string]funcDecl            // functions
	methods map[string]map[string]funcDecl // receiver base type -> method
}

type world struct {
	fset *token.FileSet
	pkgs map[string]*pkg // by import path
	list []*pkg
}

// skipFile: tests and the grpc gateway are never read. Generated *.pb.go files are
// parsed for their declarations (the message structs) but are not census subjects.
func skipFile(name string) bool {
	return !strings.HasSuffix(name, ".go") ||
		strings.HasSuffix(name, "_test.go") ||
		strings.HasSuffix(name, ".pb.gw.go")
}

// load parses abci.go handler.go genesis.go keeper/*.go types/*.go (minus tests and
// generated files; *.pb.go only for declarations). For the root package only the three named files are census
// subjects, but every non-test root file is parsed so that declarations resolve.
func load(repo string) (*world, error) {
	w := &world{fset: token.NewFileSet(), pkgs: map[string]*pkg{}}
	for _, dir := range []string{"", "keeper", "types"} {
		p := &pkg{dir: dir, path: modulePath, types: map[string]typ{}, vars: map[string]typ{},
			consts: map[string]bool{}, funcs: map[string]funcDecl{}, methods: map[string]map[string]funcDecl{}}
		if dir != "" {
			p.path = modulePath + "/" + dir
		}
		ents, err := os.ReadDir(filepath.Join(repo, dir))
		if err != nil {
			return nil, err
		}
		var names []string
		for _, e := range ents {
			if !e.IsDir() && !skipFile(e.Name()) {
				names = append(names, e.Name())
			}
		}
		sort.Strings(names)
		for _, n := range names {
			full := filepath.Join(repo, dir, n)
			f, err := parser.ParseFile(w.fset, full, nil, parser.SkipObjectResolution)
			if err != nil {
				return nil, fmt.Errorf("parse %s: %v", full, err)
			}
			sf := &srcFile{pkg: p, rel: filepath.ToSlash(filepath.Join(dir, n)), ast: f, imports: map[string]string{}}
			for _, im := range f.Imports {
				path, _ := strconv.Unquote(im.Path.Value)
				alias := path[strings.LastIndex(path, "/")+1:]
				if im.Name != nil {
					alias = im.Name.Name
				}
				sf.imports[alias] = path
			}
			p.files = append(p.files, sf)
		}
		w.pkgs[p.path] = p
		w.list = append(w.list, p)
	}
	for _, p := range w.list {
		p.collect()
	}
	return w, nil
}

// inCensus tells whether the file is one whose sites are listed.
func (f *srcFile) inCensus() bool {
	if strings.HasSuffix(f.rel, ".pb.go") {
		return false
	}
	if f.pkg.dir != "" {
		return true
	}
	switch f.rel {
	case "abci.go", "handler.go", "genesis.go":
		return true
	}
	return false
}

// collect is the per-package pass over declarations.
func (p *pkg) collect() {
	for _, f := range p.files {
		for _, d := range f.ast.Decls {
			switch d := d.(type) {
			case *ast.FuncDecl:
				fd := funcDecl{file: f, typ: d.Type}
				if d.Recv == nil || len(d.Recv.List) == 0 {
					p.funcs[d.Name.Name] = fd
					continue
				}
				base := recvBase(d.Recv.List[0].Type)
				if p.methods[base] == nil {
					p.methods[base] = map[string]funcDecl{}
				}
				p.methods[base][d.Name.Name] = fd
			case *ast.GenDecl:
				for _, s := range d.Specs {
					switch s := s.(type) {
					case *ast.TypeSpec:
						p.types[s.Name.Name] = typ{f, s.Type}
					case *ast.ValueSpec:
						for _, n := range s.Names {
							if d.Tok == token.CONST {
								p.consts[n.Name] = true
							}
							t := typ{}
							if s.Type != nil {
								t = typ{f, s.Type}
							} // else: guessed by resolveVars once all declarations are known
							p.vars[n.Name] = t
						}
					}
				}
			}
		}
	}
}

// resolveVars guesses the types of package-level vars declared without a type.
func (w *world) resolveVars() {
	for _, p := range w.list {
		for _, f := range p.files {
			for _, d := range f.ast.Decls {
				gd, ok := d.(*ast.GenDecl)
				if !ok {
					continue
				}
				for _, s := range gd.Specs {
					vs, ok := s.(*ast.ValueSpec)
					if !ok || vs.Type != nil || len(vs.Values) != len(vs.Names) {
						continue
					}
					for i, n := range vs.Names {
						in := &inferrer{w: w, file: f}
						in.push()
						p.vars[n.Name] = in.typeOf(vs.Values[i])
					}
				}
			}
		}
	}
}

func recvBase(e ast.Expr) string {
	switch e := e.(type) {
	case *ast.StarExpr:
		return recvBase(e.X)
	case *ast.ParenExpr:
		return recvBase(e.X)
	case *ast.Ident:
		return e.Name
	}
	return "?"
}
