module verif/translator

go 1.14
